package main

// C03, the producers other than local ingest. The ingest producer (runC03, corpusC03)
// lives in c01.go next to the generator it shares with C01; this file adds tables that arrive over
// the wire: the table is ingested in a source store, shipped through the real packfile sender and
// receiver (apiutils.ObjectSender / ObjectReceiver: the path of `wrgl pull`, `fetch` and the server
// side of `push`), and everything the DESTINATION holds about it - table object, blocks, block
// indices, table index, self-diagnosis - is dumped for the same oracle as a locally ingested table
// (op "inv": Lean's tableInv on the dump, and the dump must equal the model's ingest of the rows).

import (
	"bytes"
	"context"
	"encoding/json"
	"fmt"
	"io"
	"math/rand"
	"sort"
	"time"

	"github.com/go-logr/logr"
	"github.com/pckhoi/meow"
	apiutils "github.com/wrgl/wrgl/pkg/api/utils"
	"github.com/wrgl/wrgl/pkg/conf"
	"github.com/wrgl/wrgl/pkg/doctor"
	"github.com/wrgl/wrgl/pkg/encoding/packfile"
	"github.com/wrgl/wrgl/pkg/ingest"
	"github.com/wrgl/wrgl/pkg/objects"
	"github.com/wrgl/wrgl/pkg/ref"
	"github.com/wrgl/wrgl/pkg/sorter"
)

func init() {
	runners["C03"] = runC03All
	corpusRunners["C03"] = corpusC03All
}

// Xfer says how a set of tables travels from one store to another.
type Xfer struct {
	// MaxSize is the sender's packfile size limit (0 = default; 1 = one object per packfile).
	MaxSize uint64 `json:"maxSize"`
	// Rounds > 1: the tables go in that many separate transfers, each naming the previous tip as a
	// common commit (the sender then leaves out the blocks the earlier tables already brought).
	Rounds int `json:"rounds"`
	// StrayBlocks: every n-th block (n = StrayBlocks) is already present at the destination before the
	// transfer, as after an interrupted earlier one (0 = none).
	StrayBlocks int `json:"strayBlocks"`
}

func genXfer(r *rand.Rand) Xfer {
	x := Xfer{Rounds: 1}
	switch r.Intn(4) {
	case 0:
		x.MaxSize = 1
	case 1:
		x.MaxSize = uint64(20 + r.Intn(6000))
	}
	if r.Intn(3) == 0 {
		x.Rounds = 2
	}
	if r.Intn(4) == 0 {
		x.StrayBlocks = 2 + r.Intn(3)
	}
	return x
}

func (x Xfer) tags() []string {
	t := []string{}
	if x.MaxSize == 1 {
		t = append(t, "one-object-per-packfile")
	}
	if x.Rounds > 1 {
		t = append(t, "several-transfers")
	}
	if x.StrayBlocks > 0 {
		t = append(t, "dest-has-stray-blocks")
	}
	return t
}

// transferTables ships the tables from src to dst the way a pull does: one commit per table (each the
// child of the previous one) written at the source, sent with the real ObjectSender and taken in with
// the real ObjectReceiver. Nothing but blocks is copied by hand, and only when x.StrayBlocks asks.
func transferTables(src, dst objects.Store, sums [][]byte, x Xfer) error {
	if len(sums) == 0 {
		return nil
	}
	if x.StrayBlocks > 0 {
		k := 0
		for _, sum := range sums {
			t, err := objects.GetTable(src, sum)
			if err != nil {
				return fmt.Errorf("source table: %w", err)
			}
			for _, b := range t.Blocks {
				if k%x.StrayBlocks == 0 {
					raw, err := objects.GetBlockBytes(src, b)
					if err != nil {
						return fmt.Errorf("source block: %w", err)
					}
					if err := dst.Set(append([]byte("blk/"), b...), raw); err != nil {
						return err
					}
				}
				k++
			}
		}
	}
	var commits []*objects.Commit
	var parent []byte
	for i, sum := range sums {
		com := &objects.Commit{Table: sum, AuthorName: "a", AuthorEmail: "a@b.c", Time: time.Unix(1700000000+int64(i), 0).UTC(), Message: "t" + itoa(i)}
		if parent != nil {
			com.Parents = [][]byte{parent}
		}
		buf := newBuf()
		if _, err := com.WriteTo(buf); err != nil {
			return err
		}
		csum, err := objects.SaveCommit(src, buf.Bytes())
		if err != nil {
			return err
		}
		commits = append(commits, mustCommit(src, csum))
		parent = csum
	}
	rounds := x.Rounds
	if rounds < 1 {
		rounds = 1
	}
	if rounds > len(commits) {
		rounds = len(commits)
	}
	from := 0
	for k := 0; k < rounds; k++ {
		to := len(commits) * (k + 1) / rounds
		batch := commits[from:to]
		tts := map[string]struct{}{}
		for _, c := range batch {
			tts[string(c.Table)] = struct{}{}
		}
		var common [][]byte
		if from > 0 {
			common = [][]byte{commits[from-1].Sum}
		}
		if err := c03SendBatch(src, dst, batch, tts, common, x.MaxSize); err != nil {
			return err
		}
		from = to
	}
	return nil
}

// c03SendBatch: one transfer - the real ObjectSender writes packfiles for the commits (leaving out what
// the common commits are taken to bring), the real ObjectReceiver takes them in.
func c03SendBatch(src, dst objects.Store, batch []*objects.Commit, tts map[string]struct{}, common [][]byte, maxSize uint64) error {
	var expected [][]byte
	for _, c := range batch {
		expected = append(expected, c.Sum)
	}
	sender, err := apiutils.NewObjectSender(src, batch, tts, common, maxSize)
	if err != nil {
		return fmt.Errorf("new sender: %w", err)
	}
	recv := apiutils.NewObjectReceiver(dst, expected, logr.Discard())
	for n := 0; n < 1000000; n++ {
		buf := bytes.NewBuffer(nil)
		done, _, err := sender.WriteObjects(buf, nil)
		if err != nil {
			return fmt.Errorf("write objects: %w", err)
		}
		pr, err := packfile.NewPackfileReader(io.NopCloser(bytes.NewReader(buf.Bytes())))
		if err != nil {
			return fmt.Errorf("packfile reader: %w", err)
		}
		rd, err := recv.Receive(pr, nil)
		if err != nil {
			return fmt.Errorf("receive: %w", err)
		}
		if done {
			if !rd {
				return fmt.Errorf("sender is done, receiver still expects commits")
			}
			return nil
		}
	}
	return fmt.Errorf("transfer does not end")
}

// permuteColumns reorders the columns of the tables (all the same way; key column NAMES are kept, so
// the key's column indices end up anywhere and in any order).
func permuteColumns(perm []int, specs ...*TableSpec) {
	for _, s := range specs {
		cols := make([]string, len(perm))
		for i, p := range perm {
			cols[i] = s.Columns[p]
		}
		s.Columns = cols
		for ri, row := range s.Rows {
			nr := make([]string, len(perm))
			for i, p := range perm {
				nr[i] = row[p]
			}
			s.Rows[ri] = nr
		}
	}
}

// keyLeading: is the key made of the leading columns in column order (the layout every helper of
// wrgl's own tests uses)
func keyLeading(s *TableSpec) bool {
	for i, p := range s.PKIdx() {
		if p != i {
			return false
		}
	}
	return true
}

// shuffleColumns applies one random column order to all the tables, preferring (when the tables have
// a key and more than one column) an order in which the key is not the leading columns.
func shuffleColumns(r *rand.Rand, specs ...*TableSpec) {
	n := len(specs[0].Columns)
	perm := r.Perm(n)
	for try := 0; try < 6; try++ {
		probe := &TableSpec{Columns: make([]string, n), PK: specs[0].PK}
		for i, p := range perm {
			probe.Columns[i] = specs[0].Columns[p]
		}
		if !keyLeading(probe) {
			break
		}
		perm = r.Perm(n)
	}
	permuteColumns(perm, specs...)
}

// c03RecvInput is an ingest case whose table is examined where it ARRIVES.
type c03RecvInput struct {
	ingestInput
	Producer string `json:"producer"`
	Xfer     Xfer   `json:"xfer"`
	// Decoy: an earlier table of the same history that the destination receives first.
	// 0 = none (the table travels alone); 1 = the same rows but one, so the examined table finds most
	// of its blocks already there; 2 = the same rows under a renamed column, so the examined table is
	// new but made entirely of blocks (and block indices) the destination already holds.
	Decoy int `json:"decoy"`
}

// doReceive: ingest at the source as doIngest does, then transfer; the result describes the
// destination's copy.
func doReceive(spec *TableSpec, runSize uint64, workers int, comma rune, x Xfer, decoy int) (*c03RecvInput, Res) {
	csvBytes := spec.CSV(comma)
	hdr, rows, err := rereadCSV(csvBytes, comma)
	in := &c03RecvInput{ingestInput: ingestInput{PK: spec.PKIdx(), RunSize: runSize, Workers: workers, Spec: spec}, Producer: "receive", Xfer: x, Decoy: decoy}
	if comma != 0 {
		in.Comma = string(comma)
	}
	if err != nil {
		return in, Err("csv-reread")
	}
	in.Columns = hxRow(hdr)
	in.Rows = hxRows(rows)
	if in.Rows == nil {
		in.Rows = [][]string{}
	}
	res := Guard(func() Res {
		src, dst := NewMemStore(), NewMemStore()
		sum, err := IngestCSV(src, csvBytes, spec.PK, IngestCfg{RunSize: runSize, Workers: workers, Comma: comma})
		if err != nil {
			return Err("ingest")
		}
		sums := [][]byte{sum}
		if decoy != 0 && len(spec.Rows) > 0 {
			d := cloneSpec(spec)
			if decoy == 2 {
				// rename the last column (and the key's reference to it)
				c := len(d.Columns) - 1
				old := d.Columns[c]
				d.Columns[c] = old + "_was"
				for i, k := range d.PK {
					if k == old {
						d.PK[i] = d.Columns[c]
					}
				}
			} else {
				// the last row (in input order) changed in a non-key cell, or dropped when every cell
				// belongs to the key
				iskey := map[int]bool{}
				for _, p := range spec.PKIdx() {
					iskey[p] = true
				}
				last := len(d.Rows) - 1
				changed := false
				for c := range d.Rows[last] {
					if !iskey[c] && len(spec.PK) > 0 {
						d.Rows[last][c] += "~"
						changed = true
						break
					}
				}
				if !changed {
					d.Rows = d.Rows[:last]
				}
			}
			dsum, err := IngestCSV(src, d.CSV(comma), d.PK, IngestCfg{Comma: comma})
			if err == nil && !bytes.Equal(dsum, sum) {
				sums = [][]byte{dsum, sum}
			}
		}
		if err := transferTables(src, dst, sums, x); err != nil {
			return Err("transfer")
		}
		if !objects.TableExist(dst, sum) {
			return Err("table-not-received")
		}
		d, err := DumpTable(dst, sum, true)
		if err != nil {
			return Err("dump")
		}
		out := &ingestResult{Table: d, Hashes: hashRows(d)}
		iss, err := diagnoseTable(dst, sum)
		if err != nil {
			return Err("diagnose")
		}
		out.Issues = iss
		raw, err := dst.Get(append([]byte("tbl/"), sum...))
		if err == nil {
			out.TblRaw = hx(raw)
			dg := meow.Checksum(0, raw)
			out.TblHash = hx(dg[:])
		}
		return Ok(out)
	})
	return in, res
}

// genReceiveSpec: the ingest generator's tables (every size class, key choice, duplicate and empty
// keys), and on every other receive case a table whose columns were shuffled after generation so that
// the key sits in any columns in any order, with at least two blocks every fourth time.
func genReceiveSpec(ctx *Ctx) (*TableSpec, uint64, int, rune, []string) {
	r := ctx.R
	t, rs, w, comma, tags := genIngestSpec(r, ctx.Thorough())
	k := ctx.Idx / c03RecvEvery
	if k%2 == 1 {
		nCols := 2 + r.Intn(3)
		pk := genPK(r, nCols)
		n := genRowCount(r, 2)
		if k%4 == 3 {
			n = 256 + r.Intn(400)
		}
		t = GenTable(r, nCols, n, pk, 0)
		shuffleColumns(r, t)
		tags = []string{"columns-shuffled"}
	}
	if !keyLeading(t) {
		tags = append(tags, "key-not-leading")
	}
	return t, rs, w, comma, tags
}

// one case in c03RecvEvery examines a received table
const c03RecvEvery = 4

func runC03All(ctx *Ctx) {
	// in addition to the case of this index (each from a random stream of its own): a table with a cell
	// at the 16-bit length boundary, a stored table examined after a later receipt that shares its
	// blocks was refused, and the tables the doctor writes when it repairs a history of damaged ones
	switch ctx.Idx % 8 {
	case 3:
		defer c03RunRefused(ctx)
	case 7:
		defer c03RunBoundaryCell(ctx)
	case 1, 5:
		// a history of damaged tables repaired by the doctor in one go
		defer c03RunResolve(ctx)
	}
	if ctx.Idx > 0 && ctx.Idx%c03RecvEvery == 2 {
		t, rs, w, comma, tags := genReceiveSpec(ctx)
		x := genXfer(ctx.R)
		decoy := ctx.R.Intn(3)
		in, res := doReceive(t, rs, w, comma, x, decoy)
		tags = append(tags, x.tags()...)
		if decoy == 1 {
			tags = append(tags, "shares-blocks-with-earlier-table")
		} else if decoy == 2 {
			tags = append(tags, "all-blocks-already-at-destination")
		}
		ctx.Emit("inv", in, res, true, append(tags, "producer=receive")...)
		return
	}
	runC03(ctx)
}

func corpusC03All(ctx *Ctx, op string, raw json.RawMessage) {
	if op == "resolve-inv" {
		var din c03DocInput
		if err := json.Unmarshal(raw, &din); err != nil {
			panic(err)
		}
		ctx.Emit("resolve-inv", &din, c03DoResolve(&din), true, "corpus", "producer="+c03DocProducer)
		return
	}
	var rin c03RefusedInput
	if op == "inv" && json.Unmarshal(raw, &rin) == nil && rin.Producer == c03RefusedProducer && rin.Spec != nil {
		in2, res := c03DoRefused(rin.Spec, rin.Held, rin.Refusal, rin.EditAt, rin.Xfer)
		ctx.Emit("inv", in2, res, true, "corpus", "producer="+c03RefusedProducer)
		return
	}
	var in c03RecvInput
	if op == "inv" && json.Unmarshal(raw, &in) == nil && in.Producer == "receive" && in.Spec != nil {
		var comma rune
		if in.Comma != "" {
			comma = []rune(in.Comma)[0]
		}
		in2, res := doReceive(in.Spec, in.RunSize, in.Workers, comma, in.Xfer, in.Decoy)
		ctx.Emit("inv", in2, res, true, "corpus", "producer=receive")
		return
	}
	corpusC03(ctx, op, raw)
}

// ---- additional case kinds ------------------------------------------------------------------------

func c03Rand(ctx *Ctx, salt int64) *rand.Rand {
	return rand.New(rand.NewSource(ctx.Seed*1000003 + int64(ctx.Idx) + salt))
}

// c03RunBoundaryCell: a table one of whose cells is 65535, 65536 or 65537 bytes long - the two sides of
// the largest length a cell's 16-bit prefix can hold, and one beyond. Where the cell sits rotates with
// the index: in the key of the row that sorts last (the last row of the last block), in another cell of
// that row, or anywhere. Every size class of table (a few rows, block-edge sizes) comes up.
func c03RunBoundaryCell(ctx *Ctx) {
	r := c03Rand(ctx, 0x63656c6c)
	k := ctx.Idx / 8
	size := []int{65536, 65535, 65537}[k%3]
	place := (k / 3) % 3
	nCols := 1 + r.Intn(3)
	pk := genPK(r, nCols)
	if place == 1 {
		// a key and a cell outside it
		nCols = 2 + r.Intn(2)
		pk = r.Perm(nCols)[:1+r.Intn(nCols-1)]
	}
	var n int
	switch r.Intn(4) {
	case 0:
		n = 1 + r.Intn(3)
	case 1:
		n = 255 + []int{-1, 0, 1}[r.Intn(3)]
	default:
		n = 2 + r.Intn(40)
	}
	t := GenTable(r, nCols, n, pk, 0)
	kc := pk
	if len(kc) == 0 {
		// without a key the whole row is the key, compared cell by cell from the first
		kc = make([]int, nCols)
		for i := range kc {
			kc[i] = i
		}
	}
	iskey := map[int]bool{}
	for _, c := range pk {
		iskey[c] = true
	}
	less := func(a, b []string) bool {
		for _, c := range kc {
			if a[c] != b[c] {
				return a[c] < b[c]
			}
		}
		return false
	}
	last := 0
	for i := range t.Rows {
		if less(t.Rows[last], t.Rows[i]) {
			last = i
		}
	}
	row, col, letter := last, kc[0], byte('z')
	switch place {
	case 0:
		// 'z'... is greater than every generated key cell: this row sorts last
		row = r.Intn(len(t.Rows))
	case 1:
		col = -1
		for c := 0; c < nCols; c++ {
			if !iskey[c] && len(pk) > 0 {
				col = c
			}
		}
		if col < 0 {
			col, place = kc[0], 0
		}
	default:
		row, col, letter = r.Intn(len(t.Rows)), r.Intn(nCols), byte('a'+r.Intn(26))
	}
	t.Rows[row][col] = string(bytes.Repeat([]byte{letter}, size))
	var runSize uint64 = 1 << 40
	if r.Intn(3) == 0 {
		runSize = uint64(1 + r.Intn(size+size/2))
	}
	in, res := doIngest(t, runSize, 1+r.Intn(4), 0, true)
	tags := []string{"producer=ingest", fmt.Sprintf("boundary-cell=%d", size),
		"boundary-cell-in=" + []string{"key-of-last-row", "last-row", "any-row"}[place]}
	ctx.Emit("inv", in, res, true, tags...)
}

// c03RefusedInput is an ingest case whose table is examined at a destination that holds it (received
// or ingested there) AFTER a later receipt of a table sharing its blocks was refused.
type c03RefusedInput struct {
	ingestInput
	Producer string `json:"producer"`
	Xfer     Xfer   `json:"xfer"`
	// Held: how the destination came to hold the examined table: "received" | "ingested"
	Held string `json:"held"`
	// Refusal: why the later table is refused.
	//   "missing-block": the later table is the examined one with one row edited; the sender takes a
	//   commit for common whose table (at the source only) has the new blocks, so the packfile lacks them
	//   "wrong-index-sum": the later table names the examined table's blocks, and a block index sum that
	//   is not the sum of that block's index (a table written by a defective version)
	Refusal string `json:"refusal"`
	// EditAt: the row (position in Spec.Rows) edited in the later table / the block whose index sum is wrong
	EditAt int `json:"editAt"`
}

const c03RefusedProducer = "receive-then-refused"

func c03SaveCommit(db objects.Store, table []byte, parent []byte, i int) (*objects.Commit, error) {
	com := &objects.Commit{Table: table, AuthorName: "a", AuthorEmail: "a@b.c", Time: time.Unix(1700000000+int64(i), 0).UTC(), Message: "t" + itoa(i)}
	if parent != nil {
		com.Parents = [][]byte{parent}
	}
	buf := newBuf()
	if _, err := com.WriteTo(buf); err != nil {
		return nil, err
	}
	csum, err := objects.SaveCommit(db, buf.Bytes())
	if err != nil {
		return nil, err
	}
	return mustCommit(db, csum), nil
}

func c03DoRefused(spec *TableSpec, held, refusal string, editAt int, x Xfer) (*c03RefusedInput, Res) {
	csvBytes := spec.CSV(0)
	hdr, rows, err := rereadCSV(csvBytes, 0)
	in := &c03RefusedInput{ingestInput: ingestInput{PK: spec.PKIdx(), RunSize: 1 << 40, Workers: 1, Spec: spec},
		Producer: c03RefusedProducer, Xfer: x, Held: held, Refusal: refusal, EditAt: editAt}
	if err != nil {
		return in, Err("csv-reread")
	}
	in.Columns = hxRow(hdr)
	in.Rows = hxRows(rows)
	if in.Rows == nil {
		in.Rows = [][]string{}
	}
	res := Guard(func() Res {
		src, dst := NewMemStore(), NewMemStore()
		sum, err := IngestCSV(src, csvBytes, spec.PK, IngestCfg{})
		if err != nil {
			return Err("ingest")
		}
		c1, err := c03SaveCommit(src, sum, nil, 0)
		if err != nil {
			return Err("commit")
		}
		// the destination comes to hold the table
		if held == "ingested" {
			dsum, err := IngestCSV(dst, csvBytes, spec.PK, IngestCfg{})
			if err != nil || !bytes.Equal(dsum, sum) {
				return Err("ingest-at-destination")
			}
			if _, err := c03SaveCommit(dst, sum, nil, 0); err != nil {
				return Err("commit")
			}
		} else {
			if err := transferTables(src, dst, [][]byte{sum}, x); err != nil {
				return Err("transfer")
			}
		}
		if !objects.TableExist(dst, sum) || !objects.CommitExist(dst, c1.Sum) {
			return Err("table-not-received")
		}
		// a later receipt that must be refused
		var rerr error
		var laterSum []byte
		switch refusal {
		case "missing-block":
			if len(spec.Rows) == 0 {
				return Err("not-a-case")
			}
			d := cloneSpec(spec)
			at := editAt % len(d.Rows)
			if at < 0 {
				at = 0
			}
			iskey := map[int]bool{}
			for _, p := range spec.PKIdx() {
				iskey[p] = true
			}
			changed := false
			for c := range d.Rows[at] {
				if !iskey[c] && len(spec.PK) > 0 {
					d.Rows[at][c] += "~"
					changed = true
					break
				}
			}
			if !changed {
				// every cell belongs to the key: a new row instead
				nr := append([]string{}, d.Rows[at]...)
				nr[0] += "~"
				d.Rows = append(d.Rows, nr)
			}
			t2, err := IngestCSV(src, d.CSV(0), d.PK, IngestCfg{})
			if err != nil {
				return Err("ingest-later")
			}
			if bytes.Equal(t2, sum) {
				return Err("not-a-case")
			}
			laterSum = t2
			// the same rows under a renamed column: another table made of the same blocks, at the source only
			d2 := cloneSpec(d)
			c := len(d2.Columns) - 1
			old := d2.Columns[c]
			d2.Columns[c] = old + "_was"
			for i, k := range d2.PK {
				if k == old {
					d2.PK[i] = d2.Columns[c]
				}
			}
			tx, err := IngestCSV(src, d2.CSV(0), d2.PK, IngestCfg{})
			if err != nil {
				return Err("ingest-later")
			}
			cx, err := c03SaveCommit(src, tx, c1.Sum, 7)
			if err != nil {
				return Err("commit")
			}
			c2, err := c03SaveCommit(src, t2, c1.Sum, 1)
			if err != nil {
				return Err("commit")
			}
			rerr = c03SendBatch(src, dst, []*objects.Commit{c2}, map[string]struct{}{string(t2): {}}, [][]byte{c1.Sum, cx.Sum}, x.MaxSize)
		case "wrong-index-sum":
			tbl, err := objects.GetTable(src, sum)
			if err != nil {
				return Err("gettable")
			}
			if len(tbl.Blocks) == 0 {
				return Err("not-a-case")
			}
			j := editAt % len(tbl.Blocks)
			if j < 0 {
				j = 0
			}
			bad := append([]byte{}, tbl.BlockIndices[j]...)
			bad[0] ^= 0x55
			tbl.BlockIndices[j] = bad
			tb := newBuf()
			if _, err := tbl.WriteTo(tb); err != nil {
				return Err("write-table")
			}
			ts := meow.Checksum(0, tb.Bytes())
			laterSum = ts[:]
			com := &objects.Commit{Table: laterSum, Parents: [][]byte{c1.Sum}, AuthorName: "a", AuthorEmail: "a@b.c", Time: time.Unix(1700000001, 0).UTC(), Message: "later"}
			cb := newBuf()
			if _, err := com.WriteTo(cb); err != nil {
				return Err("write-commit")
			}
			cs := meow.Checksum(0, cb.Bytes())
			pf := newBuf()
			pw, err := packfile.NewPackfileWriter(pf)
			if err != nil {
				return Err("packfile-writer")
			}
			if _, err := pw.WriteObject(packfile.ObjectTable, tb.Bytes()); err != nil {
				return Err("packfile-writer")
			}
			if _, err := pw.WriteObject(packfile.ObjectCommit, cb.Bytes()); err != nil {
				return Err("packfile-writer")
			}
			pr, err := packfile.NewPackfileReader(io.NopCloser(bytes.NewReader(pf.Bytes())))
			if err != nil {
				return Err("packfile-reader")
			}
			_, rerr = apiutils.NewObjectReceiver(dst, [][]byte{cs[:]}, logr.Discard()).Receive(pr, nil)
		default:
			return Err("not-a-case")
		}
		if rerr == nil || objects.TableExist(dst, laterSum) {
			// the destination took a table in that it cannot hold soundly (a block or a block index is missing)
			return Err("unsound-table-accepted")
		}
		// the table the destination already held, as it is now
		d, err := DumpTable(dst, sum, true)
		if err != nil {
			return Err("dump")
		}
		out := &ingestResult{Table: d, Hashes: hashRows(d)}
		iss, err := diagnoseTable(dst, sum)
		if err != nil {
			return Err("diagnose")
		}
		out.Issues = iss
		raw, err := dst.Get(append([]byte("tbl/"), sum...))
		if err == nil {
			out.TblRaw = hx(raw)
			dg := meow.Checksum(0, raw)
			out.TblHash = hx(dg[:])
		}
		return Ok(out)
	})
	return in, res
}

// c03RunRefused: tables of 1 row .. several blocks (unique keys, every key choice, columns shuffled
// every other time); how the destination holds the table, why the later table is refused and which
// row / block differs rotate with the index.
func c03RunRefused(ctx *Ctx) {
	r := c03Rand(ctx, 0x72656675)
	k := ctx.Idx / 8
	held := []string{"received", "ingested"}[k%2]
	refusal := []string{"missing-block", "wrong-index-sum"}[(k/2)%2]
	maxBlocks := 2
	if ctx.Thorough() {
		maxBlocks = 4
	}
	nCols := 1 + r.Intn(3)
	pk := genPK(r, nCols)
	var n int
	switch (k / 4) % 3 {
	case 0:
		n = 256 + r.Intn(maxBlocks*255)
	case 1:
		n = 1 + genRowCount(r, maxBlocks)
	default:
		n = 1 + r.Intn(300)
	}
	t := GenTable(r, nCols, n, pk, 0)
	tags := []string{"producer=" + c03RefusedProducer, "held=" + held, "refusal=" + refusal}
	if r.Intn(2) == 0 && nCols > 1 {
		shuffleColumns(r, t)
		tags = append(tags, "columns-shuffled")
	}
	if !keyLeading(t) {
		tags = append(tags, "key-not-leading")
	}
	x := genXfer(r)
	in, res := c03DoRefused(t, held, refusal, r.Intn(1<<20), x)
	if kind, _ := res["kind"].(string); kind == "not-a-case" {
		return
	}
	tags = append(tags, x.tags()...)
	ctx.Emit("inv", in, res, len(t.Rows) > 255, tags...)
}

// ---- producer: doctor resolve over a history of issues ------------------------------------------------
//
// `Doctor.Resolve` repairs all the issues of one ref in one go, oldest commit first, with ONE resolver
// (one sorter) for all of them. A case is therefore a HISTORY: a chain of 1..4 commits on heads/main, each
// holding a sound table (ingested by the real pipeline), a table that needs a re-ingest (a row stored
// twice in a row, a recorded row count that is off, a block index that is gone or lists too few rows) or a table whose key must be
// dropped (a key position outside the columns, a key column without a name). The damaged tables are
// written object by object, as an older or defective version left them: any width, any key (leading
// columns or not, composite, none), rows in key order or not, equal keys, 1 row .. several blocks.
// Every kind of table follows every other kind over the case indices. After Diagnose + Resolve every
// table of the new history is dumped for the oracle all producers share (Lean's tableInv + the
// repository's own diagnosis), and compared with the model's resolver (Model/Resolver.lean).

type c03DocCommit struct {
	Columns []string   `json:"columns"` // hex
	PK      []int      `json:"pk"`      // as the table object records it
	Rows    [][]string `json:"rows"`    // hex; the rows of all blocks in stored order
	// Damage: "none" | "dup-rows" | "rows-count" (the recorded count is off, within the same number of
	// blocks: the table format derives the number of blocks from it) | "index-missing" (the index of the
	// last block is not in the store) | "index-short" (the index of the last block lacks that block's last
	// row) | "pk-out-of-range" | "pk-empty-name"
	Damage string `json:"damage"`
	// Resolution the damage calls for: "none" | "reingest" | "resetPK"
	Resolution string `json:"resolution"`
	// RowsCountOff: recorded row count minus rows present (damage "rows-count")
	RowsCountOff int `json:"rowsCountOff"`
}

type c03DocInput struct {
	Producer string          `json:"producer"`
	Commits  []*c03DocCommit `json:"commits"` // oldest first
}

type c03DocCommitOut struct {
	ingestResult
	OldSum     string   `json:"oldSum"`
	NewSum     string   `json:"newSum"`
	DiagBefore []string `json:"diagBefore"` // what Diagnose said about this commit before the repair
}

type c03DocResult struct {
	Commits []*c03DocCommitOut `json:"commits"`
}

const c03DocProducer = "doctor-resolve"

func u32s(l []int) []uint32 {
	o := make([]uint32, 0, len(l))
	for _, v := range l {
		o = append(o, uint32(v))
	}
	return o
}

// c03IngestRows: the real sorter + inserter on rows given as they are (no CSV in between)
func c03IngestRows(db objects.Store, cols []string, pk []uint32, rows [][]string) ([]byte, error) {
	s, err := sorter.NewSorter()
	if err != nil {
		return nil, err
	}
	defer s.Close()
	s.SetColumns(cols)
	s.PK = pk
	for _, row := range rows {
		if err := s.AddRow(row); err != nil {
			return nil, err
		}
	}
	return ingest.NewInserter(db, s, logr.Discard()).IngestTableFromSorter(cols, pk)
}

// c03WriteDamaged stores a table exactly as described: blocks of 255 rows in the given order, one index
// per block (built with the key when it lies inside the columns), the table object with the recorded
// key and row count. Nothing is sorted, de-duplicated or validated.
func c03WriteDamaged(db objects.Store, c *c03DocCommit) ([]byte, error) {
	cols := unhexStrs(c.Columns)
	rows := make([][]string, len(c.Rows))
	for i, r := range c.Rows {
		rows[i] = unhexStrs(r)
	}
	idxPK := u32s(c.PK)
	for _, p := range c.PK {
		if p >= len(cols) {
			idxPK = nil
		}
	}
	enc := objects.NewStrListEncoder(true)
	hash := meow.New(0)
	tbl := &objects.Table{Columns: cols, PK: u32s(c.PK), Blocks: [][]byte{}, BlockIndices: [][]byte{}}
	var bb []byte
	for from := 0; from < len(rows); from += 255 {
		to := from + 255
		if to > len(rows) {
			to = len(rows)
		}
		blk := rows[from:to]
		buf := newBuf()
		if _, err := objects.WriteBlockTo(enc, buf, blk); err != nil {
			return nil, err
		}
		var bsum []byte
		var err error
		bsum, bb, err = objects.SaveBlock(db, bb, buf.Bytes())
		if err != nil {
			return nil, err
		}
		iblk := blk
		if c.Damage == "index-short" && to == len(rows) {
			iblk = blk[:len(blk)-1]
		}
		idx, err := objects.IndexBlock(enc, hash, iblk, idxPK)
		if err != nil {
			return nil, err
		}
		buf = newBuf()
		if _, err := idx.WriteTo(buf); err != nil {
			return nil, err
		}
		var isum []byte
		isum, bb, err = objects.SaveBlockIndex(db, bb, buf.Bytes())
		if err != nil {
			return nil, err
		}
		tbl.Blocks = append(tbl.Blocks, bsum)
		tbl.BlockIndices = append(tbl.BlockIndices, isum)
	}
	rc := len(rows) + c.RowsCountOff
	if rc < 0 {
		rc = 0
	}
	tbl.RowsCount = uint32(rc)
	buf := newBuf()
	if _, err := tbl.WriteTo(buf); err != nil {
		return nil, err
	}
	return objects.SaveTable(db, buf.Bytes())
}

func c03DoResolve(in *c03DocInput) Res {
	return Guard(func() Res {
		if len(in.Commits) == 0 {
			return Err("not-a-case")
		}
		db := NewMemStore()
		rs, closeRS := NewRefStore()
		defer closeRS()
		var parent []byte
		var head *objects.Commit
		oldSums := make([][]byte, len(in.Commits))
		oldCommits := make([][]byte, len(in.Commits))
		for i, c := range in.Commits {
			var sum []byte
			var err error
			if c.Damage == "none" {
				rows := make([][]string, len(c.Rows))
				for j, r := range c.Rows {
					rows[j] = unhexStrs(r)
				}
				sum, err = c03IngestRows(db, unhexStrs(c.Columns), u32s(c.PK), rows)
			} else {
				sum, err = c03WriteDamaged(db, c)
			}
			if err != nil {
				return Err("write-history")
			}
			oldSums[i] = sum
			com, err := c03SaveCommit(db, sum, parent, i)
			if err != nil {
				return Err("commit")
			}
			oldCommits[i] = com.Sum
			parent, head = com.Sum, com
		}
		if err := ref.CommitHead(rs, "main", head.Sum, head, nil); err != nil {
			return Err("commit-head")
		}
		// block indices that are gone from the store (of this table only: not a case when another table of
		// the history lists the same index)
		for i, c := range in.Commits {
			if c.Damage != "index-missing" {
				continue
			}
			tbl, err := objects.GetTable(db, oldSums[i])
			if err != nil || len(tbl.BlockIndices) == 0 {
				return Err("not-a-case")
			}
			gone := tbl.BlockIndices[len(tbl.BlockIndices)-1]
			for j := range in.Commits {
				if j == i {
					continue
				}
				if bytes.Equal(oldSums[j], oldSums[i]) {
					return Err("not-a-case")
				}
				if other, err := objects.GetTable(db, oldSums[j]); err == nil {
					for _, s := range other.BlockIndices {
						if bytes.Equal(s, gone) {
							return Err("not-a-case")
						}
					}
				}
			}
			if err := objects.DeleteBlockIndex(db, gone); err != nil {
				return Err("write-history")
			}
		}
		d := doctor.NewDoctor(db, rs, conf.User{Name: "a", Email: "a@b.c"}, logr.Discard())
		ch, errCh, err := d.Diagnose(context.Background(), []string{"heads/"}, nil, nil)
		if err != nil {
			return Err("diagnose")
		}
		var issues []*doctor.Issue
		for ri := range ch {
			issues = append(issues, ri.Issues...)
		}
		if e, ok := <-errCh; ok && e != nil {
			return Err("diagnose")
		}
		before := make([][]string, len(in.Commits))
		for i := range before {
			before[i] = []string{}
		}
		for _, iss := range issues {
			for i, cs := range oldCommits {
				if bytes.Equal(cs, iss.Commit) {
					before[i] = append(before[i], iss.Err)
				}
			}
		}
		if len(issues) > 0 {
			if err := d.Resolve(issues); err != nil {
				return Err("resolve")
			}
		}
		// the history as it is now, oldest first
		sum, err := ref.GetRef(rs, "heads/main")
		if err != nil {
			return Err("get-ref")
		}
		var chain []*objects.Commit
		for sum != nil {
			com, err := objects.GetCommit(db, sum)
			if err != nil {
				return Err("history-unreadable")
			}
			chain = append([]*objects.Commit{com}, chain...)
			if len(com.Parents) == 0 {
				break
			}
			if len(com.Parents) > 1 || len(chain) > len(in.Commits) {
				return Err("history-shape")
			}
			sum = com.Parents[0]
		}
		if len(chain) != len(in.Commits) {
			return Err("history-shape")
		}
		out := &c03DocResult{}
		for i, com := range chain {
			td, err := DumpTable(db, com.Table, true)
			if err != nil {
				return Err("dump")
			}
			o := &c03DocCommitOut{OldSum: hx(oldSums[i]), NewSum: hx(com.Table), DiagBefore: before[i]}
			o.Table = td
			o.Hashes = hashRows(td)
			iss, err := diagnoseTable(db, com.Table)
			if err != nil {
				return Err("diagnose-after")
			}
			o.Issues = iss
			out.Commits = append(out.Commits, o)
		}
		return Ok(out)
	})
}

// genDocCommit: one commit of the history. class 0: sound, 1: needs a re-ingest, 2: needs its key dropped.
func genDocCommit(r *rand.Rand, class int) *c03DocCommit {
	nCols := 1 + r.Intn(4)
	pk := genPK(r, nCols)
	if class == 1 && len(pk) == 0 && r.Intn(3) != 0 {
		// keyless tables are re-ingested too, keyed ones more often
		pk = []int{r.Intn(nCols)}
	}
	var n int
	switch r.Intn(8) {
	case 0:
		n = 1 + r.Intn(3)
	case 1:
		n = 255 + []int{-1, 0, 1}[r.Intn(3)]
	case 2:
		n = 256 + r.Intn(300)
	default:
		n = 2 + r.Intn(40)
	}
	mode := r.Intn(3)
	if n > 300 {
		mode = 0
	}
	t := GenTable(r, nCols, n, pk, mode)
	c := &c03DocCommit{PK: append([]int{}, pk...), Damage: "none", Resolution: "none"}
	rows := t.Rows
	if class != 0 && r.Intn(3) != 0 {
		// in the order of the recorded key, as a past ingest stored them (otherwise: in any order)
		kc := pk
		if len(kc) == 0 {
			kc = make([]int, nCols)
			for i := range kc {
				kc[i] = i
			}
		}
		sort.SliceStable(rows, func(a, b int) bool {
			for _, k := range kc {
				if rows[a][k] != rows[b][k] {
					return rows[a][k] < rows[b][k]
				}
			}
			return false
		})
	}
	cols := append([]string{}, t.Columns...)
	switch class {
	case 1:
		c.Resolution = "reingest"
		c.Damage = []string{"dup-rows", "dup-rows", "rows-count", "index-missing", "index-short"}[r.Intn(5)]
		if c.Damage == "index-short" && len(rows)%255 == 1 {
			// the last block has one row: its index cannot lack a row and still be an index
			c.Damage = "dup-rows"
		}
		switch c.Damage {
		case "dup-rows":
			for k := 1 + r.Intn(3); k > 0; k-- {
				i := r.Intn(len(rows))
				cp := append([]string{}, rows[i]...)
				rows = append(rows[:i+1], append([][]string{cp}, rows[i+1:]...)...)
			}
		case "rows-count":
			// off by 1..3 either way, the number of blocks the recorded count implies being the number present
			nb := (len(rows) + 254) / 255
			c.RowsCountOff = 1
			if len(rows)%255 == 0 {
				c.RowsCountOff = -1
			}
			for try := 0; try < 8; try++ {
				off := []int{-3, -2, -1, 1, 2, 3}[r.Intn(6)]
				if rc := len(rows) + off; rc >= 1 && (rc+254)/255 == nb {
					c.RowsCountOff = off
					break
				}
			}
		}
	case 2:
		c.Resolution = "resetPK"
		if r.Intn(2) == 0 || len(c.PK) == 0 {
			c.Damage = "pk-out-of-range"
			at := r.Intn(len(c.PK) + 1)
			bad := nCols + r.Intn(5)
			c.PK = append(c.PK[:at], append([]int{bad}, c.PK[at:]...)...)
		} else {
			c.Damage = "pk-empty-name"
			cols[c.PK[r.Intn(len(c.PK))]] = ""
		}
	}
	c.Columns = hxRow(cols)
	c.Rows = hxRows(rows)
	if c.Rows == nil {
		c.Rows = [][]string{}
	}
	return c
}

// c03RunResolve: histories of 1..4 commits; which kind of table follows which rotates with the index so
// that every ordered triple of (sound, re-ingest, key reset) comes up, at least one commit being damaged.
func c03RunResolve(ctx *Ctx) {
	r := c03Rand(ctx, 0x646f6374)
	k := ctx.Idx / 4
	classes := []int{k % 3, (k / 3) % 3, (k / 9) % 3}
	n := 1 + r.Intn(4)
	if n > 3 {
		classes = append(classes, r.Intn(3))
	}
	classes = classes[:n]
	damaged := false
	for _, c := range classes {
		damaged = damaged || c != 0
	}
	if !damaged {
		classes[r.Intn(n)] = 1 + r.Intn(2)
	}
	in := &c03DocInput{Producer: c03DocProducer}
	tags := []string{"producer=" + c03DocProducer, fmt.Sprintf("history=%d", n)}
	seq := ""
	rows := 0
	for _, cl := range classes {
		c := genDocCommit(r, cl)
		in.Commits = append(in.Commits, c)
		seq += string("SRK"[cl])
		tags = append(tags, "damage="+c.Damage)
		if len(c.Rows) > rows {
			rows = len(c.Rows)
		}
	}
	tags = append(tags, "resolutions="+seq)
	ctx.Emit("resolve-inv", in, c03DoResolve(in), n > 1 || rows > 255, tags...)
}
