package main

// C03, the producers other than local ingest. The ingest producer (runC03, corpusC03)
// lives in c01.go next to the generator it shares with C01; this file adds tables that arrive over
// the wire: the table is ingested in a source store, shipped through the real packfile sender and
// receiver (apiutils.ObjectSender / ObjectReceiver: the path of `wrgl pull`, `fetch` and the server
// side of `push`), and everything the DESTINATION holds about it - table object, blocks, block
// indices, table index, self-diagnosis - is dumped for the same oracle as a locally ingested table
// (op "inv": Lean's tableInv on the dump, and the dump must equal the model's ingest of the rows).

import (
	"bytes"
	"encoding/json"
	"fmt"
	"io"
	"math/rand"
	"time"

	"github.com/go-logr/logr"
	"github.com/pckhoi/meow"
	apiutils "github.com/wrgl/wrgl/pkg/api/utils"
	"github.com/wrgl/wrgl/pkg/encoding/packfile"
	"github.com/wrgl/wrgl/pkg/objects"
)

func init() {
	runners["C03"] = runC03All
	corpusRunners["C03"] = corpusC03All
}

// Xfer says how a set of tables travels from one store to another.
type Xfer struct {
	// MaxSize is the sender's packfile size limit (0 = default; 1 = one object per packfile).
	MaxSize uint64 `json:"maxSize"`
	// Rounds > 1: the tables go in that many separate transfers, each naming the previous tip as a
	// common commit (the sender then leaves out the blocks the earlier tables already brought).
	Rounds int `json:"rounds"`
	// StrayBlocks: every n-th block (n = StrayBlocks) is already present at the destination before the
	// transfer, as after an interrupted earlier one (0 = none).
	StrayBlocks int `json:"strayBlocks"`
}

func genXfer(r *rand.Rand) Xfer {
	x := Xfer{Rounds: 1}
	switch r.Intn(4) {
	case 0:
		x.MaxSize = 1
	case 1:
		x.MaxSize = uint64(20 + r.Intn(6000))
	}
	if r.Intn(3) == 0 {
		x.Rounds = 2
	}
	if r.Intn(4) == 0 {
		x.StrayBlocks = 2 + r.Intn(3)
	}
	return x
}

func (x Xfer) tags() []string {
	t := []string{}
	if x.MaxSize == 1 {
		t = append(t, "one-object-per-packfile")
	}
	if x.Rounds > 1 {
		t = append(t, "several-transfers")
	}
	if x.StrayBlocks > 0 {
		t = append(t, "dest-has-stray-blocks")
	}
	return t
}

// transferTables ships the tables from src to dst the way a pull does: one commit per table (each the
// child of the previous one) written at the source, sent with the real ObjectSender and taken in with
// the real ObjectReceiver. Nothing but blocks is copied by hand, and only when x.StrayBlocks asks.
func transferTables(src, dst objects.Store, sums [][]byte, x Xfer) error {
	if len(sums) == 0 {
		return nil
	}
	if x.StrayBlocks > 0 {
		k := 0
		for _, sum := range sums {
			t, err := objects.GetTable(src, sum)
			if err != nil {
				return fmt.Errorf("source table: %w", err)
			}
			for _, b := range t.Blocks {
				if k%x.StrayBlocks == 0 {
					raw, err := objects.GetBlockBytes(src, b)
					if err != nil {
						return fmt.Errorf("source block: %w", err)
					}
					if err := dst.Set(append([]byte("blk/"), b...), raw); err != nil {
						return err
					}
				}
				k++
			}
		}
	}
	var commits []*objects.Commit
	var parent []byte
	for i, sum := range sums {
		com := &objects.Commit{Table: sum, AuthorName: "a", AuthorEmail: "a@b.c", Time: time.Unix(1700000000+int64(i), 0).UTC(), Message: "t" + itoa(i)}
		if parent != nil {
			com.Parents = [][]byte{parent}
		}
		buf := newBuf()
		if _, err := com.WriteTo(buf); err != nil {
			return err
		}
		csum, err := objects.SaveCommit(src, buf.Bytes())
		if err != nil {
			return err
		}
		commits = append(commits, mustCommit(src, csum))
		parent = csum
	}
	rounds := x.Rounds
	if rounds < 1 {
		rounds = 1
	}
	if rounds > len(commits) {
		rounds = len(commits)
	}
	from := 0
	for k := 0; k < rounds; k++ {
		to := len(commits) * (k + 1) / rounds
		batch := commits[from:to]
		tts := map[string]struct{}{}
		var expected [][]byte
		for _, c := range batch {
			tts[string(c.Table)] = struct{}{}
			expected = append(expected, c.Sum)
		}
		var common [][]byte
		if from > 0 {
			common = [][]byte{commits[from-1].Sum}
		}
		sender, err := apiutils.NewObjectSender(src, batch, tts, common, x.MaxSize)
		if err != nil {
			return fmt.Errorf("new sender: %w", err)
		}
		recv := apiutils.NewObjectReceiver(dst, expected, logr.Discard())
		finished := false
		for n := 0; n < 1000000; n++ {
			buf := bytes.NewBuffer(nil)
			done, _, err := sender.WriteObjects(buf, nil)
			if err != nil {
				return fmt.Errorf("write objects: %w", err)
			}
			pr, err := packfile.NewPackfileReader(io.NopCloser(bytes.NewReader(buf.Bytes())))
			if err != nil {
				return fmt.Errorf("packfile reader: %w", err)
			}
			rd, err := recv.Receive(pr, nil)
			if err != nil {
				return fmt.Errorf("receive: %w", err)
			}
			if done {
				if !rd {
					return fmt.Errorf("sender is done, receiver still expects commits")
				}
				finished = true
				break
			}
		}
		if !finished {
			return fmt.Errorf("transfer does not end")
		}
		from = to
	}
	return nil
}

// permuteColumns reorders the columns of the tables (all the same way; key column NAMES are kept, so
// the key's column indices end up anywhere and in any order).
func permuteColumns(perm []int, specs ...*TableSpec) {
	for _, s := range specs {
		cols := make([]string, len(perm))
		for i, p := range perm {
			cols[i] = s.Columns[p]
		}
		s.Columns = cols
		for ri, row := range s.Rows {
			nr := make([]string, len(perm))
			for i, p := range perm {
				nr[i] = row[p]
			}
			s.Rows[ri] = nr
		}
	}
}

// keyLeading: is the key made of the leading columns in column order (the layout every helper of
// wrgl's own tests uses)
func keyLeading(s *TableSpec) bool {
	for i, p := range s.PKIdx() {
		if p != i {
			return false
		}
	}
	return true
}

// shuffleColumns applies one random column order to all the tables, preferring (when the tables have
// a key and more than one column) an order in which the key is not the leading columns.
func shuffleColumns(r *rand.Rand, specs ...*TableSpec) {
	n := len(specs[0].Columns)
	perm := r.Perm(n)
	for try := 0; try < 6; try++ {
		probe := &TableSpec{Columns: make([]string, n), PK: specs[0].PK}
		for i, p := range perm {
			probe.Columns[i] = specs[0].Columns[p]
		}
		if !keyLeading(probe) {
			break
		}
		perm = r.Perm(n)
	}
	permuteColumns(perm, specs...)
}

// c03RecvInput is an ingest case whose table is examined where it ARRIVES.
type c03RecvInput struct {
	ingestInput
	Producer string `json:"producer"`
	Xfer     Xfer   `json:"xfer"`
	// Decoy: an earlier table of the same history that the destination receives first.
	// 0 = none (the table travels alone); 1 = the same rows but one, so the examined table finds most
	// of its blocks already there; 2 = the same rows under a renamed column, so the examined table is
	// new but made entirely of blocks (and block indices) the destination already holds.
	Decoy int `json:"decoy"`
}

// doReceive: ingest at the source as doIngest does, then transfer; the result describes the
// destination's copy.
func doReceive(spec *TableSpec, runSize uint64, workers int, comma rune, x Xfer, decoy int) (*c03RecvInput, Res) {
	csvBytes := spec.CSV(comma)
	hdr, rows, err := rereadCSV(csvBytes, comma)
	in := &c03RecvInput{ingestInput: ingestInput{PK: spec.PKIdx(), RunSize: runSize, Workers: workers, Spec: spec}, Producer: "receive", Xfer: x, Decoy: decoy}
	if comma != 0 {
		in.Comma = string(comma)
	}
	if err != nil {
		return in, Err("csv-reread")
	}
	in.Columns = hxRow(hdr)
	in.Rows = hxRows(rows)
	if in.Rows == nil {
		in.Rows = [][]string{}
	}
	res := Guard(func() Res {
		src, dst := NewMemStore(), NewMemStore()
		sum, err := IngestCSV(src, csvBytes, spec.PK, IngestCfg{RunSize: runSize, Workers: workers, Comma: comma})
		if err != nil {
			return Err("ingest")
		}
		sums := [][]byte{sum}
		if decoy != 0 && len(spec.Rows) > 0 {
			d := cloneSpec(spec)
			if decoy == 2 {
				// rename the last column (and the key's reference to it)
				c := len(d.Columns) - 1
				old := d.Columns[c]
				d.Columns[c] = old + "_was"
				for i, k := range d.PK {
					if k == old {
						d.PK[i] = d.Columns[c]
					}
				}
			} else {
				// the last row (in input order) changed in a non-key cell, or dropped when every cell
				// belongs to the key
				iskey := map[int]bool{}
				for _, p := range spec.PKIdx() {
					iskey[p] = true
				}
				last := len(d.Rows) - 1
				changed := false
				for c := range d.Rows[last] {
					if !iskey[c] && len(spec.PK) > 0 {
						d.Rows[last][c] += "~"
						changed = true
						break
					}
				}
				if !changed {
					d.Rows = d.Rows[:last]
				}
			}
			dsum, err := IngestCSV(src, d.CSV(comma), d.PK, IngestCfg{Comma: comma})
			if err == nil && !bytes.Equal(dsum, sum) {
				sums = [][]byte{dsum, sum}
			}
		}
		if err := transferTables(src, dst, sums, x); err != nil {
			return Err("transfer")
		}
		if !objects.TableExist(dst, sum) {
			return Err("table-not-received")
		}
		d, err := DumpTable(dst, sum, true)
		if err != nil {
			return Err("dump")
		}
		out := &ingestResult{Table: d, Hashes: hashRows(d)}
		iss, err := diagnoseTable(dst, sum)
		if err != nil {
			return Err("diagnose")
		}
		out.Issues = iss
		raw, err := dst.Get(append([]byte("tbl/"), sum...))
		if err == nil {
			out.TblRaw = hx(raw)
			dg := meow.Checksum(0, raw)
			out.TblHash = hx(dg[:])
		}
		return Ok(out)
	})
	return in, res
}

// genReceiveSpec: the ingest generator's tables (every size class, key choice, duplicate and empty
// keys), and on every other receive case a table whose columns were shuffled after generation so that
// the key sits in any columns in any order, with at least two blocks every fourth time.
func genReceiveSpec(ctx *Ctx) (*TableSpec, uint64, int, rune, []string) {
	r := ctx.R
	t, rs, w, comma, tags := genIngestSpec(r, ctx.Thorough())
	k := ctx.Idx / c03RecvEvery
	if k%2 == 1 {
		nCols := 2 + r.Intn(3)
		pk := genPK(r, nCols)
		n := genRowCount(r, 2)
		if k%4 == 3 {
			n = 256 + r.Intn(400)
		}
		t = GenTable(r, nCols, n, pk, 0)
		shuffleColumns(r, t)
		tags = []string{"columns-shuffled"}
	}
	if !keyLeading(t) {
		tags = append(tags, "key-not-leading")
	}
	return t, rs, w, comma, tags
}

// one case in c03RecvEvery examines a received table
const c03RecvEvery = 4

func runC03All(ctx *Ctx) {
	if ctx.Idx > 0 && ctx.Idx%c03RecvEvery == 2 {
		t, rs, w, comma, tags := genReceiveSpec(ctx)
		x := genXfer(ctx.R)
		decoy := ctx.R.Intn(3)
		in, res := doReceive(t, rs, w, comma, x, decoy)
		tags = append(tags, x.tags()...)
		if decoy == 1 {
			tags = append(tags, "shares-blocks-with-earlier-table")
		} else if decoy == 2 {
			tags = append(tags, "all-blocks-already-at-destination")
		}
		ctx.Emit("inv", in, res, true, append(tags, "producer=receive")...)
		return
	}
	runC03(ctx)
}

func corpusC03All(ctx *Ctx, op string, raw json.RawMessage) {
	var in c03RecvInput
	if op == "inv" && json.Unmarshal(raw, &in) == nil && in.Producer == "receive" && in.Spec != nil {
		var comma rune
		if in.Comma != "" {
			comma = []rune(in.Comma)[0]
		}
		in2, res := doReceive(in.Spec, in.RunSize, in.Workers, comma, in.Xfer, in.Decoy)
		ctx.Emit("inv", in2, res, true, "corpus", "producer=receive")
		return
	}
	corpusC03(ctx, op, raw)
}
