package main

import (
	"bytes"
	"math/rand"

	"github.com/wrgl/wrgl/pkg/objects"
)

// C18, further stream kinds (the decoders themselves live in c17.go: c17DecodeOption).
//
// Every string-list / uint-list stream of the base runner is also decoded through the decoder's other
// constructor option (reuseRecords) and its raw-row entry point (ReadBytes), under the same chunkings.
// And 1 case in 9 (the string-list cases) a ROW STREAM is generated: several encoded rows one after
// the other, read with one decoder until end of stream - the shape of the sorter's spill files and of a
// block's rows - in which later rows are larger than anything the decoder has seen (its buffer has to
// grow in the middle of the stream), under random chunkings and under fixed-size blocks (what a
// bufio.Reader hands out: the tail of its buffer as a short read).

var c18Variants = map[string][]string{
	"strlist":  {"strlist-reuse", "strlist-bytes", "strlist-bytes-reuse"},
	"uintlist": {"uintlist-reuse"},
}

var c18RowStreamKinds = []string{"rowstream", "rowstream-reuse", "rowstream-bytes", "rowstream-bytes-reuse"}

func c18GenStreamCell(r *rand.Rand) string {
	switch r.Intn(8) {
	case 0:
		return string(bytes.Repeat([]byte{byte('a' + r.Intn(26))}, 30+r.Intn(270)))
	case 1:
		return genBytes(r, 300+r.Intn(5700))
	case 2:
		return ""
	default:
		return genCell(r)
	}
}

// c18GenRowStream: 1..14 rows of 0..5 cells; sizes are mixed so that the largest row so far can come at
// any position, and the stream is usually longer than one 4096-byte block.
func c18GenRowStream(r *rand.Rand) []byte {
	enc := objects.NewStrListEncoder(false)
	buf := bytes.NewBuffer(nil)
	n := 1 + r.Intn(14)
	for i := 0; i < n; i++ {
		row := make([]string, r.Intn(6))
		for j := range row {
			row[j] = c18GenStreamCell(r)
		}
		buf.Write(enc.Encode(row))
	}
	return append([]byte{}, buf.Bytes()...)
}

func c18BlockChunking(n, first, block int) []int {
	sizes := []int{}
	if first > 0 && first < n {
		sizes = append(sizes, first)
		n -= first
	}
	for n > 0 {
		s := block
		if s > n {
			s = n
		}
		sizes = append(sizes, s)
		n -= s
	}
	return sizes
}

// c18Extra runs after the base case of the index (all its draws come after the base case's draws).
func c18Extra(ctx *Ctx, base *c18Input) {
	r := ctx.R
	for _, k := range c18Variants[base.Kind] {
		in := &c18Input{Kind: k, Bytes: base.Bytes, Chunkings: base.Chunkings, EOFWith: base.EOFWith}
		ctx.Emit("chunk", in, c18Run(in), len(base.Bytes) > 16, "kind="+k, "decoder-option")
	}
	if base.Kind == "packfile" {
		// the same packfile as the body of an upload-pack response, through the API client
		in := &c18Input{Kind: "packfile-via-client", Bytes: base.Bytes, Chunkings: base.Chunkings, EOFWith: base.EOFWith}
		ctx.Emit("chunk", in, c18Run(in), true, "kind=packfile-via-client", "api-client")
	}
	if base.Kind != "strlist" {
		return
	}
	stream := c18GenRowStream(r)
	var chunkings [][]int
	var eofWith []bool
	k := 3
	if ctx.Thorough() {
		k = 8
	}
	for i := 0; i < k; i++ {
		chunkings = append(chunkings, genChunking(r, len(stream)))
		eofWith = append(eofWith, r.Intn(2) == 0)
	}
	// fixed-size blocks, aligned and at a random phase
	for _, blk := range []int{4096, 512} {
		chunkings = append(chunkings, c18BlockChunking(len(stream), 0, blk), c18BlockChunking(len(stream), 1+r.Intn(blk), blk))
		eofWith = append(eofWith, false, r.Intn(2) == 0)
	}
	for _, kind := range c18RowStreamKinds {
		in := &c18Input{Kind: kind, Bytes: hx(stream), Chunkings: chunkings, EOFWith: eofWith}
		ctx.Emit("chunk", in, c18Run(in), true, "kind="+kind, "row-stream")
	}
}
