package main

// C16, "always terminate", at the progress bars every long-running command drives: a bar created
// with or without a total, moved by any sequence of Incr/SetTotal/SetCurrent calls, is finished
// with Done() — which must return wherever the counter stands (`wrgl merge` finishes its bar when
// the merge channel closes, at whatever progress the last tick reported).

import (
	"bytes"
	"encoding/json"
	"time"

	"github.com/wrgl/wrgl/pkg/pbar"
)

type c16PBarOp struct {
	K string `json:"k"` // incr | total | cur
	V int64  `json:"v"`
}

type c16PBarInput struct {
	Total int64       `json:"total"`
	Ops   []c16PBarOp `json:"ops"`
}

func c16PBarRun(in *c16PBarInput) Res {
	return Guard(func() Res {
		done := make(chan struct{})
		go func() {
			c := pbar.NewContainer(bytes.NewBuffer(nil), false)
			b := c.NewBar(in.Total, "verif", 0)
			for _, op := range in.Ops {
				switch op.K {
				case "incr":
					b.IncrBy(int(op.V))
				case "total":
					b.SetTotal(op.V)
				case "cur":
					b.SetCurrent(op.V)
				}
			}
			b.Done()
			close(done)
			c.Wait()
		}()
		select {
		case <-done:
			return Ok(map[string]interface{}{"returned": true})
		case <-hangAfter(20 * time.Second):
			return Ok(map[string]interface{}{"returned": false})
		}
	})
}

func runC16PBar(ctx *Ctx) {
	r := ctx.R
	in := &c16PBarInput{Total: []int64{-1, 0, 0, 1, 5, 10, 1000}[r.Intn(7)]}
	n := r.Intn(5)
	for i := 0; i < n; i++ {
		switch r.Intn(4) {
		case 0:
			in.Ops = append(in.Ops, c16PBarOp{"incr", int64(r.Intn(4))})
		case 1:
			in.Ops = append(in.Ops, c16PBarOp{"total", int64(r.Intn(12)) - 1})
		default:
			in.Ops = append(in.Ops, c16PBarOp{"cur", int64(r.Intn(12))})
		}
	}
	ctx.Emit("pbar", in, c16PBarRun(in), in.Total > 0 && n > 0, "pbar")
}

func corpusC16PBar(ctx *Ctx, raw json.RawMessage) {
	var in c16PBarInput
	if err := json.Unmarshal(raw, &in); err != nil {
		panic(err)
	}
	ctx.Emit("pbar", &in, c16PBarRun(&in), true, "pbar", "corpus")
}
