module verifharness

go 1.21

require (
	github.com/go-logr/logr v1.2.3
	github.com/google/uuid v1.3.0
	github.com/mattn/go-sqlite3 v1.14.14
	github.com/pckhoi/meow v0.0.0-20211009023351-e1fff1d3c870
	github.com/wrgl/wrgl v0.0.0
)

require (
	github.com/VividCortex/ewma v1.2.0 // indirect
	github.com/acarl005/stripansi v0.0.0-20180116102854-5a71ef0e047d // indirect
	github.com/davecgh/go-spew v1.1.1 // indirect
	github.com/klauspost/compress v1.16.7 // indirect
	github.com/mattn/go-runewidth v0.0.14 // indirect
	github.com/pmezard/go-difflib v1.0.0 // indirect
	github.com/rivo/uniseg v0.4.3 // indirect
	github.com/stretchr/testify v1.8.1 // indirect
	github.com/vbauerster/mpb/v8 v8.1.4 // indirect
	golang.org/x/sys v0.11.0 // indirect
	gopkg.in/yaml.v3 v3.0.1 // indirect
)

replace github.com/wrgl/wrgl => /repo
