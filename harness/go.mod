module verifharness

go 1.21

require (
	github.com/dgraph-io/badger/v3 v3.2103.5
	github.com/go-logr/logr v1.2.3
	github.com/google/uuid v1.3.0
	github.com/klauspost/compress v1.16.7
	github.com/mattn/go-sqlite3 v1.14.14
	github.com/pckhoi/meow v0.0.0-20211009023351-e1fff1d3c870
	github.com/spf13/cobra v1.5.0
	github.com/spf13/viper v1.12.0
	github.com/wrgl/wrgl v0.0.0
)

require (
	github.com/VividCortex/ewma v1.2.0 // indirect
	github.com/acarl005/stripansi v0.0.0-20180116102854-5a71ef0e047d // indirect
	github.com/cenkalti/backoff/v4 v4.2.0 // indirect
	github.com/cespare/xxhash v1.1.0 // indirect
	github.com/cespare/xxhash/v2 v2.2.0 // indirect
	github.com/coreos/go-oidc/v3 v3.2.0 // indirect
	github.com/davecgh/go-spew v1.1.1 // indirect
	github.com/dgraph-io/ristretto v0.1.1 // indirect
	github.com/dustin/go-humanize v1.0.1 // indirect
	github.com/fatih/color v1.13.0 // indirect
	github.com/fsnotify/fsnotify v1.5.4 // indirect
	github.com/gdamore/encoding v1.0.0 // indirect
	github.com/gdamore/tcell/v2 v2.5.2 // indirect
	github.com/go-logr/stdr v1.2.2 // indirect
	github.com/gobwas/glob v0.2.3 // indirect
	github.com/gogo/protobuf v1.3.2 // indirect
	github.com/golang-jwt/jwt/v4 v4.4.3 // indirect
	github.com/golang/glog v1.1.2 // indirect
	github.com/golang/groupcache v0.0.0-20210331224755-41bb18bfe9da // indirect
	github.com/golang/protobuf v1.5.3 // indirect
	github.com/golang/snappy v0.0.4 // indirect
	github.com/google/flatbuffers v23.5.26+incompatible // indirect
	github.com/hashicorp/hcl v1.0.0 // indirect
	github.com/imdario/mergo v0.3.13 // indirect
	github.com/lucasb-eyer/go-colorful v1.2.0 // indirect
	github.com/magiconair/properties v1.8.6 // indirect
	github.com/mattn/go-colorable v0.1.12 // indirect
	github.com/mattn/go-isatty v0.0.14 // indirect
	github.com/mattn/go-runewidth v0.0.14 // indirect
	github.com/mitchellh/colorstring v0.0.0-20190213212951-d06e56a500db // indirect
	github.com/mitchellh/mapstructure v1.5.0 // indirect
	github.com/pckhoi/uma v0.4.3 // indirect
	github.com/pelletier/go-toml/v2 v2.0.1 // indirect
	github.com/pkg/errors v0.9.1 // indirect
	github.com/pmezard/go-difflib v1.0.0 // indirect
	github.com/rivo/tview v0.0.0-20220812085834-0e6b21a48e96 // indirect
	github.com/rivo/uniseg v0.4.3 // indirect
	github.com/spf13/afero v1.9.2 // indirect
	github.com/spf13/cast v1.5.0 // indirect
	github.com/spf13/jwalterweatherman v1.1.0 // indirect
	github.com/spf13/pflag v1.0.5 // indirect
	github.com/stretchr/testify v1.8.1 // indirect
	github.com/subosito/gotenv v1.4.0 // indirect
	github.com/vbauerster/mpb/v8 v8.1.4 // indirect
	go.opencensus.io v0.24.0 // indirect
	golang.org/x/crypto v0.12.0 // indirect
	golang.org/x/net v0.14.0 // indirect
	golang.org/x/oauth2 v0.0.0-20220411215720-9780585627b5 // indirect
	golang.org/x/sys v0.11.0 // indirect
	golang.org/x/term v0.11.0 // indirect
	golang.org/x/text v0.12.0 // indirect
	google.golang.org/protobuf v1.31.0 // indirect
	gopkg.in/ini.v1 v1.67.0 // indirect
	gopkg.in/square/go-jose.v2 v2.6.0 // indirect
	gopkg.in/yaml.v3 v3.0.1 // indirect
)

replace github.com/wrgl/wrgl => /repo
