package main

// Histories of `wrgl commit BRANCH MSG` / `wrgl commit --all MSG`: commits taken from the file and
// the primary key configured for the branch (branch.file, branch.primaryKey), run in-process on a
// badger + SQLite repository. Between two commits the history changes what the branch is made
// from: the file is edited in place, branch.file is pointed to another file (a new one, an older
// export, a file used before), the key is changed (re-ordered, reduced, extended, replaced, dropped;
// in the configuration or with -p for one command) — or nothing changes at all. The command keeps a
// cached ingest of the file under the ref heads/BRANCH-tmp; whatever that cache holds, after every
// step the branch must hold the table (file content, key) in force at that step:
//   C01: `wrgl export` gives that file's rows (op "export-history");
//   C02: the head's table id is the id the same logical table gets when ingested directly into
//        another store, equal tables have equal ids, different tables different ids, and the
//        command says "no change" exactly when the table is the one the branch already holds
//        (op "cli-ids").
// No oracle lives here: the runner reports, per step, what the command printed, the head commit,
// its table id and key, the exported rows, and the id of a direct ingest of the same file.

import (
	"encoding/csv"
	"encoding/json"
	"fmt"
	"math/rand"
	"os"
	"path/filepath"
	"strings"
	"time"

	"github.com/wrgl/wrgl/pkg/local"
	"github.com/wrgl/wrgl/pkg/objects"
	"github.com/wrgl/wrgl/pkg/ref"
)

// histStep is the state in force when the step's commit command runs. Step 0 is the explicit
// `wrgl commit main FILE MSG -p PK --set-file --set-primary-key`; every later step is
// `wrgl commit main MSG` (or `--all`), preceded by whatever brings the state about.
type histStep struct {
	File     string   `json:"file"`     // the file branch.file points to (a name, or directory/name)
	Content  int      `json:"content"`  // index into Specs: what that file holds at this step
	PK       []string `json:"pk"`       // the key in force
	Via      string   `json:"via"`      // "config": branch.primaryKey; "flag": -p on this command only; "setflags": this command's --set-file --set-primary-key [-p] writes the configuration
	All      bool     `json:"all"`      // `wrgl commit --all MSG`
	Older    bool     `json:"older"`    // a file written for the first time gets a modification time in the past (an older export)
	OffsetMs int      `json:"offsetMs"` // a file edited in place gets the cached temporary commit's time plus this
	Kind     string   `json:"kind"`     // label only (what changed with respect to the previous step)
}

type histTable struct {
	Columns []string   `json:"columns"` // hex
	PK      []int      `json:"pk"`
	Rows    [][]string `json:"rows"` // hex; as encoding/csv re-reads the file
}

type histInput struct {
	Specs  []*TableSpec `json:"specs"`
	Steps  []histStep   `json:"steps"`
	Tables []histTable  `json:"tables"` // derived from Specs and Steps: the logical table of every step
	// Relative: branch.file holds a bare file name and every command runs in the directory of the
	// step's file, so that one configured name means different files in different working directories
	Relative bool `json:"relative,omitempty"`
}

type histObs struct {
	Out     string     `json:"out"`   // "committed" | "nochange" | "other"
	Head    string     `json:"head"`  // the branch head: commits named c1, c2, ... in order of first appearance (their ids hold the time)
	Table   string     `json:"table"` // its table id
	PK      []int      `json:"pk"`    // the key recorded in that table
	Ref     string     `json:"ref,omitempty"`
	Columns []string   `json:"columns,omitempty"`
	Rows    [][]string `json:"rows,omitempty"`
}

func pkIdxOf(cols, pk []string) []int {
	out := []int{}
	for _, k := range pk {
		for i, c := range cols {
			if c == k {
				out = append(out, i)
			}
		}
	}
	return out
}

func strsEqual(a, b []string) bool {
	if len(a) != len(b) {
		return false
	}
	for i := range a {
		if a[i] != b[i] {
			return false
		}
	}
	return true
}

// pkNamesPlain: every name is made of letters, digits and '_' only (what the comma-separated forms of
// `-p` and `config set` carry as they are).
func pkNamesPlain(pk []string) bool {
	for _, n := range pk {
		if n == "" {
			return false
		}
		for _, c := range n {
			if !(c == '_' || c >= '0' && c <= '9' || c >= 'a' && c <= 'z' || c >= 'A' && c <= 'Z') {
				return false
			}
		}
	}
	return true
}

// pkFlagValue: the value of -p for a list of column names. The flag is a comma-separated list read as
// one CSV record, so a name holding a comma or a quote is written as a quoted CSV field.
func pkFlagValue(pk []string) string {
	if pkNamesPlain(pk) {
		return strings.Join(pk, ",")
	}
	buf := &strings.Builder{}
	w := csv.NewWriter(buf)
	w.Write(pk)
	w.Flush()
	return strings.TrimSuffix(buf.String(), "\n")
}

// histDerive fills in.Tables; false when the history is not well formed (a shrunk input).
func histDerive(in *histInput) bool {
	in.Tables = []histTable{}
	if len(in.Steps) == 0 {
		return false
	}
	for _, st := range in.Steps {
		if st.Content < 0 || st.Content >= len(in.Specs) || in.Specs[st.Content] == nil || st.File == "" ||
			strings.Contains(st.File, "\\") || strings.Contains(st.File, "..") || strings.HasPrefix(st.File, "/") ||
			strings.HasSuffix(st.File, "/") || strings.Count(st.File, "/") > 1 {
			return false
		}
		spec := in.Specs[st.Content]
		if len(spec.Columns) == 0 {
			return false
		}
		hdr, rows, err := rereadCSV(spec.CSV(0), 0)
		if err != nil {
			return false
		}
		pk := pkIdxOf(hdr, st.PK)
		if len(pk) != len(st.PK) {
			return false
		}
		r := hxRows(rows)
		if r == nil {
			r = [][]string{}
		}
		in.Tables = append(in.Tables, histTable{Columns: hxRow(hdr), PK: pk, Rows: r})
	}
	return true
}

func headOf(dir, branch string) (commitSum, tableSum []byte, pk []uint32, tm time.Time, err error) {
	rd, err := local.NewRepoDir(dir, "")
	if err != nil {
		return
	}
	defer rd.Close()
	db, err := rd.OpenObjectsStore()
	if err != nil {
		return
	}
	defer db.Close()
	commitSum, err = ref.GetHead(rd.OpenRefStore(), branch)
	if err != nil {
		return
	}
	c, err := objects.GetCommit(db, commitSum)
	if err != nil {
		return
	}
	tbl, err := objects.GetTable(db, c.Table)
	if err != nil {
		return
	}
	return commitSum, c.Table, tbl.PK, c.Time, nil
}

// runCommitHistory plays the history on a fresh repository.
func runCommitHistory(in *histInput, withExport, withRef bool) Res {
	root, err := os.MkdirTemp(privateTmp(), "hist-")
	if err != nil {
		return Err("tmpdir")
	}
	defer os.RemoveAll(root)
	os.Setenv("XDG_CONFIG_HOME", filepath.Join(root, "xdg"))
	os.Setenv("HOME", root)
	return Guard(func() Res {
		dir := filepath.Join(root, "repo", ".wrgl")
		os.MkdirAll(filepath.Join(root, "repo"), 0755)
		os.MkdirAll(filepath.Join(root, "data"), 0755)
		rd, err := local.NewRepoDir(dir, "")
		if err != nil {
			return Err("repodir")
		}
		if err := rd.Init(); err != nil {
			return Err("init")
		}
		rd.Close()
		for _, a := range [][]string{{"config", "set", "user.email", "u@example.com"}, {"config", "set", "user.name", "U"}} {
			if out, err := cli(dir, a...); err != nil {
				return Res{"res": "err", "kind": "setup:" + out + err.Error()}
			}
		}
		fail := func(i int, what, out string, err error) Res {
			return Res{"res": "err", "kind": fmt.Sprintf("step%d:%s:%s:%v", i, what, out, err)}
		}
		onDisk := map[string]int{} // file name -> content version
		cfgFile := ""
		var cfgPK []string
		past := time.Now().Add(-2 * time.Hour)
		obs := []histObs{}
		headNames := map[string]string{}
		if in.Relative {
			if orig, err := os.Getwd(); err == nil {
				defer os.Chdir(orig)
			}
		}
		cfgName := func(f string) string {
			if in.Relative {
				return filepath.Base(f)
			}
			return f
		}
		for i, st := range in.Steps {
			spec := in.Specs[st.Content]
			fp := filepath.Join(root, "data", st.File)
			os.MkdirAll(filepath.Dir(fp), 0755)
			arg := fp // the file as typed on the command line and as kept in branch.file
			if in.Relative {
				if err := os.Chdir(filepath.Dir(fp)); err != nil {
					return fail(i, "chdir", "", err)
				}
				arg = filepath.Base(fp)
			}
			if v, ok := onDisk[st.File]; !ok {
				// a file that was not there before: a fresh one, or an export made some time ago
				if err := os.WriteFile(fp, spec.CSV(0), 0644); err != nil {
					return fail(i, "write", "", err)
				}
				if st.Older {
					mt := past.Add(time.Duration(len(onDisk)) * time.Minute)
					os.Chtimes(fp, mt, mt)
				}
				onDisk[st.File] = st.Content
			} else if v != st.Content {
				// edited in place, shortly after the cached temporary commit (whose time is kept to the second)
				if err := os.WriteFile(fp, spec.CSV(0), 0644); err != nil {
					return fail(i, "write", "", err)
				}
				if _, _, _, tm, err := headOf(dir, "main-tmp"); err == nil {
					off := st.OffsetMs
					if off < 100 {
						off = 100
					}
					mt := tm.Add(time.Duration(off) * time.Millisecond)
					os.Chtimes(fp, mt, mt)
				}
				onDisk[st.File] = st.Content
			}
			var out string
			if i == 0 {
				args := []string{"commit", "main", arg, "step 0", "-n", "1", "--set-file", "--set-primary-key"}
				if len(st.PK) > 0 {
					args = append(args, "-p", pkFlagValue(st.PK))
				}
				out, err = cli(dir, args...)
				if err != nil {
					return fail(i, "commit", out, err)
				}
				cfgFile, cfgPK = cfgName(st.File), st.PK
			} else {
				if cfgFile != cfgName(st.File) {
					if out, err := cli(dir, "config", "set", "branch.main.file", arg); err != nil {
						return fail(i, "set-file", out, err)
					}
					cfgFile = cfgName(st.File)
				}
				// worker counts 2, 3, 4, 5, 1, ... by the step (step 0 runs with 1)
				nw := fmt.Sprint(1 + i%5)
				args := []string{"commit", "main", fmt.Sprintf("step %d", i), "-n", nw}
				if st.All {
					args = []string{"commit", "--all", fmt.Sprintf("step %d", i), "-n", nw}
				}
				if st.Via == "setflags" && !st.All {
					// the key (possibly none) is made the branch's configured key by the commit command itself:
					// `wrgl commit main FILE MSG [-p PK] --set-file --set-primary-key`
					args = []string{"commit", "main", arg, fmt.Sprintf("step %d", i), "-n", nw, "--set-file", "--set-primary-key"}
					if len(st.PK) > 0 {
						args = append(args, "-p", pkFlagValue(st.PK))
					}
					cfgPK, cfgFile = st.PK, cfgName(st.File)
				} else if st.Via == "flag" && len(st.PK) > 0 && !st.All {
					args = append(args, "-p", pkFlagValue(st.PK))
				} else if !strsEqual(cfgPK, st.PK) {
					var out string
					var err error
					if len(st.PK) == 0 {
						out, err = cli(dir, "config", "unset", "branch.main.primaryKey", "--all")
					} else if pkNamesPlain(st.PK) {
						out, err = cli(dir, "config", "set", "branch.main.primaryKey", strings.Join(st.PK, ","))
					} else {
						// names that hold a comma (or a quote, a space, ...) cannot go through the comma-separated
						// form of `config set`: the multi-valued field is emptied and the names are added one by one
						if len(cfgPK) > 0 {
							out, err = cli(dir, "config", "unset", "branch.main.primaryKey", "--all")
						}
						for _, name := range st.PK {
							if err == nil {
								out, err = cli(dir, "config", "add", "branch.main.primaryKey", name)
							}
						}
					}
					if err != nil {
						return fail(i, "set-pk", out, err)
					}
					cfgPK = st.PK
				}
				out, err = cli(dir, args...)
				if err != nil {
					return fail(i, "commit", out, err)
				}
			}
			o := histObs{Out: "other"}
			switch {
			case strings.Contains(out, "hasn't changed since the last commit") || strings.Contains(out, "all branches are up-to-date"):
				o.Out = "nochange"
			case strings.Contains(out, "[main "):
				o.Out = "committed"
			}
			cs, ts, pk, _, err := headOf(dir, "main")
			if err != nil {
				return fail(i, "head", "", err)
			}
			if _, ok := headNames[string(cs)]; !ok {
				headNames[string(cs)] = fmt.Sprintf("c%d", len(headNames)+1)
			}
			o.Head, o.Table, o.PK = headNames[string(cs)], hx(ts), []int{}
			for _, p := range pk {
				o.PK = append(o.PK, int(p))
			}
			if withRef {
				// the same logical table ingested directly into another store, rows in reverse order, with spills
				rev := &TableSpec{Columns: spec.Columns}
				total := 0
				for j := len(spec.Rows) - 1; j >= 0; j-- {
					rev.Rows = append(rev.Rows, spec.Rows[j])
					total += 4
					for _, c := range spec.Rows[j] {
						total += len(c) + 2
					}
				}
				sum, err := IngestCSV(NewMemStore(), rev.CSV(0), st.PK, IngestCfg{RunSize: uint64(total/3 + 1), Workers: 3})
				if err != nil {
					return fail(i, "ref-ingest", "", err)
				}
				o.Ref = hx(sum)
			}
			if withExport {
				eout, err := cli(dir, "export", "main")
				if err != nil {
					return fail(i, "export", eout, err)
				}
				ehdr, erows, err := rereadCSV([]byte(eout), 0)
				if err != nil {
					return fail(i, "export-not-csv", "", err)
				}
				o.Columns, o.Rows = hxRow(ehdr), hxRows(erows)
				if o.Rows == nil {
					o.Rows = [][]string{}
				}
			}
			obs = append(obs, o)
		}
		return Ok(map[string]interface{}{"steps": obs})
	})
}

// --- generator ------------------------------------------------------------------------------------

// genHistTable: nKey "key" columns each of which holds pairwise distinct values (so every
// non-empty selection of them, in any order, is a key with unique values, and so is "no key"),
// in unrelated orders; the other columns hold arbitrary cells.
func genHistTable(r *rand.Rand, nCols, nKey, n int, names []string) *TableSpec {
	t := &TableSpec{}
	for i := 0; i < nCols; i++ {
		if names != nil {
			t.Columns = append(t.Columns, names[i])
		} else {
			t.Columns = append(t.Columns, string(rune('a'+i)))
		}
	}
	perms := make([][]int, nKey)
	for k := range perms {
		perms[k] = r.Perm(n)
	}
	for i := 0; i < n; i++ {
		t.Rows = append(t.Rows, histRow(r, nCols, nKey, func(k int) int { return perms[k][i] }))
	}
	return t
}

func histCell(r *rand.Rand) string {
	for {
		c := genCell(r)
		if !strings.Contains(c, "\r") {
			return c
		}
	}
}

func histRow(r *rand.Rand, nCols, nKey int, v func(k int) int) []string {
	row := make([]string, nCols)
	for c := range row {
		row[c] = histCell(r)
	}
	for k := 0; k < nKey; k++ {
		x := v(k)
		switch k {
		case 0:
			row[k] = fmt.Sprintf("%04d", x)
		case 1:
			if x == 0 {
				row[k] = "" // an empty key cell, still unique
			} else {
				row[k] = fmt.Sprintf("k%d", x) // k10 sorts before k2
			}
		default:
			row[k] = fmt.Sprintf("%03d\"%d", x%7, x)
		}
	}
	return row
}

// histEdit returns an edited copy: a non-key cell changed, a row added, or a row removed.
func histEdit(r *rand.Rand, t *TableSpec, nKey int, next *int) *TableSpec {
	s := cloneSpec(t)
	nCols := len(s.Columns)
	k := r.Intn(3)
	if k == 0 && (nCols == nKey || len(s.Rows) == 0) {
		k = 1
	}
	if k == 2 && len(s.Rows) < 2 {
		k = 1
	}
	switch k {
	case 0:
		i := r.Intn(len(s.Rows))
		c := nKey + r.Intn(nCols-nKey)
		s.Rows[i][c] += "!"
	case 1:
		*next++
		x := *next
		row := histRow(r, nCols, nKey, func(int) int { return x })
		pos := r.Intn(len(s.Rows) + 1)
		s.Rows = append(s.Rows[:pos], append([][]string{row}, s.Rows[pos:]...)...)
	case 2:
		i := r.Intn(len(s.Rows))
		s.Rows = append(s.Rows[:i], s.Rows[i+1:]...)
	}
	return s
}

// histNameSeps: what a list of column names gets written with somewhere - the list separator of the
// command line and of the configuration first, others, and nothing at all.
var histNameSeps = []string{",", ", ", ";", "|", " ", "_", "-", ""}

var histNameChars = []string{"a", "b", "c", "x", "y", "id", "no", "A", "1", "2", "_", " ", ".", ";", "|", "\"", ",", "-", "é"}

// genHistNames: column names as files have them - words with spaces, dots, quotes, separators - all
// different. With three key columns the third one is named after the first two, the way a combined
// column is ("last,first" next to "last" and "first"): its name is their names joined by a
// separator, so that the key made of that one column and the key made of the two columns read the
// same once their names are written as a list.
func genHistNames(r *rand.Rand, nCols, nKey int, sep string) []string {
	for {
		names := make([]string, nCols)
		for i := range names {
			n := string(rune('a'+r.Intn(26))) // starts with a letter (a value of `config add`, a CSV field)
			for k := r.Intn(5); k > 0; k-- {
				n += histNameChars[r.Intn(len(histNameChars))]
			}
			names[i] = strings.TrimRight(n, " ")
		}
		if nKey >= 3 {
			names[2] = names[0] + sep + names[1]
		}
		seen := map[string]bool{}
		for _, n := range names {
			seen[n] = true
		}
		if len(seen) == nCols {
			return names
		}
	}
}

// histSplitMerge: the key that reads like cur when the names are joined - a column named after two
// others replaced by those two, or two neighbours replaced by the column named after them (keyCols[2]
// is named after keyCols[0] and keyCols[1], see genHistNames). nil when cur has neither.
func histSplitMerge(cur []string, keyCols []string) []string {
	if len(keyCols) < 3 {
		return nil
	}
	for i, c := range cur {
		if c == keyCols[2] {
			out := append([]string{}, cur[:i]...)
			out = append(out, keyCols[0], keyCols[1])
			out = append(out, cur[i+1:]...)
			if len(out) == len(cur)+1 && !dupStr(out) {
				return out
			}
			return nil
		}
	}
	for i := 0; i+1 < len(cur); i++ {
		if cur[i] == keyCols[0] && cur[i+1] == keyCols[1] {
			out := append([]string{}, cur[:i]...)
			out = append(out, keyCols[2])
			out = append(out, cur[i+2:]...)
			return out
		}
	}
	return nil
}

func dupStr(l []string) bool {
	seen := map[string]bool{}
	for _, s := range l {
		if seen[s] {
			return true
		}
		seen[s] = true
	}
	return false
}

// histNewPK: another key built from the key columns. flavour 0: the same columns in another order,
// 1: a proper sub-list, 2: one more column, 3: other columns, 4: no key; 5 (tables whose third key
// column is named after the first two): the combined column for the two, or the two for the combined.
func histNewPK(r *rand.Rand, cur []string, keyCols []string, flavour int) []string {
	if flavour == 5 {
		if out := histSplitMerge(cur, keyCols); out != nil {
			return out
		}
		flavour = r.Intn(5)
	}
	has := func(l []string, s string) bool {
		for _, x := range l {
			if x == s {
				return true
			}
		}
		return false
	}
	for try := 0; try < 8; try++ {
		var out []string
		switch (flavour + try) % 5 {
		case 0:
			if len(cur) < 2 {
				continue
			}
			out = append([]string{}, cur[1:]...)
			out = append(out, cur[0])
			if len(cur) == 3 && r.Intn(2) == 0 {
				out = []string{cur[1], cur[0], cur[2]}
			}
		case 1:
			if len(cur) < 2 {
				continue
			}
			drop := r.Intn(len(cur))
			for i, c := range cur {
				if i != drop {
					out = append(out, c)
				}
			}
		case 2:
			for _, c := range keyCols {
				if !has(cur, c) {
					out = append(append([]string{}, cur...), c)
					if r.Intn(2) == 0 {
						out = append([]string{c}, cur...)
					}
					break
				}
			}
			if out == nil {
				continue
			}
		case 3:
			for _, c := range keyCols {
				if !has(cur, c) {
					out = []string{c}
					break
				}
			}
			if out == nil {
				continue
			}
		case 4:
			if len(cur) == 0 {
				continue
			}
			out = []string{}
		}
		if !strsEqual(out, cur) {
			return out
		}
	}
	return []string{keyCols[0]}
}

// genHistory: h enumerates the kind of the first change (and the flavour of key change), so that a
// run of a few dozen histories has every kind of change right after a cached temporary commit.
func genHistory(r *rand.Rand, h int, thorough bool) (*histInput, []string) {
	return genHistoryNamed(r, h, thorough, false)
}

// genHistoryNamed, named = true: the columns carry generated names (genHistNames) instead of a, b, c, ...,
// three of them are key columns, the third named after the first two; the history starts keyed on the
// combined column or on the two (by h), and its first change is the key that reads the same - in the
// configuration or with -p, by h. Later key changes draw from all six flavours.
func genHistoryNamed(r *rand.Rand, h int, thorough bool, named bool) (*histInput, []string) {
	nCols := 2 + r.Intn(3)
	nKey := 2 + r.Intn(2)
	if nKey > nCols {
		nKey = nCols
	}
	nFlavours := 5
	var names []string
	if named {
		nKey, nFlavours = 3+r.Intn(2), 6
		nCols = nKey + r.Intn(3)
		// two histories in three: the separator lists are written with on the command line and in the
		// configuration; the third: any of histNameSeps
		sep := histNameSeps[0]
		if h%3 == 2 {
			sep = histNameSeps[r.Intn(len(histNameSeps))]
		}
		names = genHistNames(r, nCols, nKey, sep)
	}
	n := 2 + r.Intn(14)
	if r.Intn(8) == 0 {
		n = 250 + r.Intn(20) // around the block edge
	}
	next := n + 10
	// one history in three keeps a bare file name in branch.file and runs every command in the directory
	// of the step's file: the same configured name then means another file in another working directory
	in := &histInput{Relative: h%3 == 2}
	t0 := genHistTable(r, nCols, nKey, n, names)
	in.Specs = append(in.Specs, t0)
	keyCols := t0.Columns[:nKey]
	// the initial key: two or three columns more often than one; sometimes none
	var pk []string
	switch r.Intn(10) {
	case 0:
		pk = []string{}
	case 1, 2, 3:
		pk = []string{keyCols[r.Intn(nKey)]}
	default:
		for _, i := range r.Perm(nKey) {
			pk = append(pk, keyCols[i])
		}
		if nKey == 3 && r.Intn(2) == 0 {
			pk = pk[:2]
		}
	}
	if (h%5 == 3 || h%5 == 4) && (h/5)%5 < 2 && len(pk) < 2 {
		// the first change re-orders or reduces the key: start from a composite one
		pk = nil
		for _, i := range r.Perm(nKey) {
			pk = append(pk, keyCols[i])
		}
	}
	if named {
		switch (h / 2) % 4 {
		case 0:
			pk = []string{keyCols[2]}
		case 1:
			pk = []string{keyCols[0], keyCols[1]}
		case 2: // inside a longer key
			pk = []string{keyCols[2], keyCols[nKey-1]}
			if nKey == 3 {
				pk = []string{keyCols[2]}
			}
		default:
			pk = []string{keyCols[nKey-1], keyCols[0], keyCols[1]}
			if nKey == 3 {
				pk = []string{keyCols[0], keyCols[1]}
			}
		}
	}
	cur := histStep{File: "data0.csv", Content: 0, PK: pk, Via: "config", Older: r.Intn(5) != 0, Kind: "init"}
	in.Steps = append(in.Steps, cur)
	cfgPK := pk
	nFiles := 1
	tags := []string{"cli", "history"}
	if in.Relative {
		tags = append(tags, "relative-file")
	}
	if named {
		tags = append(tags, "column-names")
	}
	tag := func(s string) {
		for _, t := range tags {
			if t == s {
				return
			}
		}
		tags = append(tags, s)
	}
	if h%7 != 6 {
		// nothing changed: the command says so and leaves its cached temporary commit behind
		st := cur
		st.Kind, st.All = "noop", r.Intn(4) == 0
		in.Steps = append(in.Steps, st)
	}
	nSteps := 2 + r.Intn(4)
	if thorough {
		nSteps += r.Intn(4)
	}
	for j := 0; j < nSteps; j++ {
		kind := r.Intn(5)
		flavour := r.Intn(nFlavours)
		if j == 0 {
			kind, flavour = h%5, (h/5)%5
			if named {
				kind, flavour = 3+h%2, 5
			}
		}
		st := cur
		st.Via, st.PK, st.All, st.OffsetMs = "config", cfgPK, false, 0
		switch kind {
		case 0: // nothing changed (after a -p command the configured key is in force again)
			st.Kind = "noop"
			if cur.Via == "flag" {
				st.Kind = "key-reverts"
			}
		case 1: // the file is edited in place
			in.Specs = append(in.Specs, histEdit(r, in.Specs[cur.Content], nKey, &next))
			st.Content = len(in.Specs) - 1
			st.OffsetMs = 100 + r.Intn(800)
			st.Kind = "edit"
		case 2: // branch.file is pointed to another file
			st.Kind = "switch-file"
			if nFiles > 1 && r.Intn(4) == 0 {
				// back to a file used before, as it was left
				for k := len(in.Steps) - 1; k >= 0; k-- {
					if in.Steps[k].File != cur.File {
						st.File, st.Content = in.Steps[k].File, in.Steps[k].Content
						break
					}
				}
				// (the latest content of that file: find the last step that used it)
				st.Kind = "switch-file-back"
			} else {
				st.File = fmt.Sprintf("data%d.csv", nFiles)
				if r.Intn(2) == 0 {
					// a file of the same base name in another directory (exports kept per month, say): the
					// cached temporary commit used to remember only the base name of its file, so an older
					// file of the same name was taken for the cached one (repaired in wrgl, 3fcfe7f)
					st.File = fmt.Sprintf("dir%d/%s", nFiles, filepath.Base(cur.File))
				}
				nFiles++
				st.Older = r.Intn(5) != 0
				same := r.Intn(4) == 0
				if j == 0 {
					st.Older, same = true, (h/5)%4 == 3
				}
				switch same {
				case true: // a copy: same content
				default:
					in.Specs = append(in.Specs, histEdit(r, in.Specs[cur.Content], nKey, &next))
					st.Content = len(in.Specs) - 1
				}
			}
		case 3: // the configured key changes
			if sm := histSplitMerge(cfgPK, keyCols); named && flavour == 5 && sm != nil {
				tag("key-reads-the-same")
			}
			cfgPK = histNewPK(r, cfgPK, keyCols, flavour)
			st.PK = cfgPK
			st.Kind = "set-pk"
			if r.Intn(2) == 0 {
				// through the commit command's own --set-primary-key (with -p, or without it: the key is dropped)
				st.Via = "setflags"
				st.Kind = "set-pk-by-commit"
			}
		case 4: // another key for this command only
			if sm := histSplitMerge(cur.PK, keyCols); named && flavour == 5 && sm != nil {
				tag("key-reads-the-same")
			}
			st.PK = histNewPK(r, cur.PK, keyCols, flavour)
			if len(st.PK) == 0 {
				st.PK = histNewPK(r, cur.PK, keyCols, 3)
			}
			if len(st.PK) == 0 {
				st.PK = []string{keyCols[0]}
			}
			st.Via = "flag"
			st.Kind = "flag-pk"
		}
		if st.Via == "config" && r.Intn(5) == 0 {
			st.All = true
			tag("commit-all")
		}
		tag(st.Kind)
		in.Steps = append(in.Steps, st)
		cur = st
	}
	return in, tags
}

// histRand: the history added to case ctx.Idx draws from its own stream, so that the case itself is
// what it was before histories existed.
func histRand(ctx *Ctx) *rand.Rand {
	return rand.New(rand.NewSource(ctx.Seed*1000003 + int64(ctx.Idx) + 0x68697374))
}

func histNontrivial(in *histInput) bool {
	return len(in.Steps) >= 3
}

func emitHistory(ctx *Ctx, op string, in *histInput, tags ...string) {
	if !histDerive(in) {
		ctx.Emit(op, in, Err("not-a-history"), false, append(tags, "malformed")...)
		return
	}
	res := runCommitHistory(in, op == "export-history", op == "cli-ids")
	ctx.Emit(op, in, res, histNontrivial(in), tags...)
}

func corpusHistory(ctx *Ctx, op string, raw json.RawMessage) {
	var in histInput
	if err := json.Unmarshal(raw, &in); err != nil {
		panic(err)
	}
	emitHistory(ctx, op, &in, "corpus", "cli", "history")
}
