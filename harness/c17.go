package main

import (
	"strings"
	"github.com/klauspost/compress/s2"
	"encoding/binary"
	"bytes"
	"encoding/json"
	"errors"
	"fmt"
	"io"
	"math"
	"math/rand"
	"runtime"
	"testing/iotest"
	"time"

	"github.com/go-logr/logr"
	"github.com/pckhoi/meow"
	"net/http"

	apiclient "github.com/wrgl/wrgl/pkg/api/client"
	"github.com/wrgl/wrgl/pkg/api/payload"
	"github.com/wrgl/wrgl/pkg/api/utils"
	"github.com/wrgl/wrgl/pkg/encoding"
	"github.com/wrgl/wrgl/pkg/encoding/packfile"
	"github.com/wrgl/wrgl/pkg/encoding/pktline"
	"github.com/wrgl/wrgl/pkg/misc"
	"github.com/wrgl/wrgl/pkg/objects"
)

func init() {
	runners["C17"] = runC17
	corpusRunners["C17"] = corpusC17
	runners["C18"] = runC18
	corpusRunners["C18"] = corpusC18
}

// ---- canonical decoding of each kind ----------------------------------------------------------

// decodeKind decodes bytes from r as `kind` and returns a canonical JSON-able value.
// bodyTransport answers every request with one packfile response whose body is the reader under test
type bodyTransport struct{ body io.Reader }

func (t *bodyTransport) RoundTrip(req *http.Request) (*http.Response, error) {
	if req.Body != nil {
		io.Copy(io.Discard, req.Body)
		req.Body.Close()
	}
	h := http.Header{}
	h.Set("Content-Type", apiclient.CTPackfile)
	return &http.Response{StatusCode: 200, Status: "200 OK", Proto: "HTTP/1.1", ProtoMajor: 1, ProtoMinor: 1,
		Header: h, Body: io.NopCloser(t.body), ContentLength: -1, Request: req}, nil
}

func decodeKind(kind string, r io.Reader) (interface{}, error) {
	switch kind {
	case "packfile", "packfile-via-client":
		var pr *packfile.PackfileReader
		var err error
		if kind == "packfile-via-client" {
			// the same bytes as the body of an upload-pack response, read the way fetch reads it:
			// apiclient.Client.PostUploadPack decides what the body is and hands back the packfile reader
			var c *apiclient.Client
			c, err = apiclient.NewClient("http://remote.invalid", logr.Discard(), apiclient.WithTransport(&bodyTransport{body: r}))
			if err != nil {
				return nil, err
			}
			_, pr, err = c.PostUploadPack(&payload.UploadPackRequest{})
			if err == nil && pr == nil {
				err = fmt.Errorf("no packfile reader")
			}
		} else {
			pr, err = packfile.NewPackfileReader(io.NopCloser(r))
		}
		if err != nil {
			return nil, err
		}
		objs := [][]interface{}{}
		for {
			t, b, err := pr.ReadObject()
			if errors.Is(err, io.EOF) && t == 0 {
				break
			}
			if err != nil {
				return nil, err
			}
			objs = append(objs, []interface{}{t, hx(b)})
			if len(objs) > 100000 {
				return nil, fmt.Errorf("too many objects")
			}
		}
		return map[string]interface{}{"version": pr.Version, "objects": objs}, nil
	case "commit":
		_, c, err := objects.ReadCommitFrom(r)
		if err != nil {
			return nil, err
		}
		ps := []string{}
		for _, p := range c.Parents {
			ps = append(ps, hx(p))
		}
		rc := c06Commit{Table: hx(c.Table), AuthorName: hx([]byte(c.AuthorName)), AuthorEmail: hx([]byte(c.AuthorEmail)),
			Message: hx([]byte(c.Message)), Parents: ps, Zero: c.Time.IsZero()}
		if !rc.Zero {
			rc.Sec = c.Time.Unix()
			_, rc.ZoneSec = c.Time.Zone()
		}
		return rc, nil
	case "table":
		_, t, err := objects.ReadTableFrom(r)
		if err != nil {
			return nil, err
		}
		pk := t.PK
		if pk == nil {
			pk = []uint32{}
		}
		bl, bi := []string{}, []string{}
		for _, x := range t.Blocks {
			bl = append(bl, hx(x))
		}
		for _, x := range t.BlockIndices {
			bi = append(bi, hx(x))
		}
		return c06Table{Columns: hxRow(t.Columns), PK: pk, RowsCount: t.RowsCount, Blocks: bl, BlockIndices: bi}, nil
	case "block":
		_, rows, err := objects.ReadBlockFrom(r)
		if err != nil {
			return nil, err
		}
		return hxRows(rows), nil
	case "blockindex":
		_, idx, err := objects.ReadBlockIndex(r)
		if err != nil {
			return nil, err
		}
		buf := newBuf()
		idx.WriteTo(buf)
		return parseBlockIndexBytes(buf.Bytes())
	case "strlist":
		_, row, err := objects.NewStrListDecoder(false).Read(r)
		if err != nil {
			return nil, err
		}
		return hxRow(row), nil
	case "uintlist":
		_, l, err := objects.NewUintListDecoder(false).Read(r)
		if err != nil {
			return nil, err
		}
		if l == nil {
			l = []uint32{}
		}
		return l, nil
	case "pktline":
		p := encoding.NewParser(r)
		out := []string{}
		for {
			s, err := pktline.ReadPktLine(p)
			if err != nil {
				return nil, err
			}
			if s == "" {
				break
			}
			out = append(out, hx([]byte(s)))
			if len(out) > 100000 {
				return nil, fmt.Errorf("too many lines")
			}
		}
		return out, nil
	case "profile":
		tp := &objects.TableProfile{}
		_, err := tp.ReadFrom(r)
		if err != nil {
			return nil, err
		}
		return map[string]interface{}{"columns": len(tp.Columns), "rows": tp.RowsCount}, nil
	case "strlist-reuse", "strlist-bytes", "strlist-bytes-reuse", "uintlist-reuse", "floatlist", "floatlist-reuse",
		"rowstream", "rowstream-reuse", "rowstream-bytes", "rowstream-bytes-reuse":
		return c17DecodeOption(kind, r)
	case "validateblock":
		b, _ := io.ReadAll(r)
		if err := objects.ValidateBlockBytes(b); err != nil {
			return nil, err
		}
		return true, nil
	}
	return nil, fmt.Errorf("unknown kind")
}

// ---- valid encodings -------------------------------------------------------------------------------

func validEncoding(r *rand.Rand, kind string) []byte {
	buf := bytes.NewBuffer(nil)
	switch kind {
	case "packfile":
		pw, _ := packfile.NewPackfileWriter(buf)
		n := r.Intn(5)
		for i := 0; i < n; i++ {
			sz := []int{0, 1, 15, 16, 17, 100, 2047, 2048, 5000}[r.Intn(9)]
			pw.WriteObject(1+r.Intn(3), []byte(genBytes(r, sz)))
		}
	case "commit":
		c := &objects.Commit{Table: []byte(genBytes(r, 16)), AuthorName: genCell(r), AuthorEmail: genCell(r), Message: genCell(r) + genCell(r),
			Time: time.Unix(r.Int63n(4000000000), 0).In(time.FixedZone("", 60*(r.Intn(1440)-720)))}
		for i := 0; i < r.Intn(4); i++ {
			c.Parents = append(c.Parents, []byte(genBytes(r, 16)))
		}
		c.WriteTo(buf)
	case "table":
		nb := r.Intn(4)
		t := &objects.Table{Columns: genRow(r, false), PK: []uint32{}}
		for i := 0; i < r.Intn(3); i++ {
			t.PK = append(t.PK, uint32(r.Intn(5)))
		}
		for i := 0; i < nb; i++ {
			t.Blocks = append(t.Blocks, []byte(genBytes(r, 16)))
			t.BlockIndices = append(t.BlockIndices, []byte(genBytes(r, 16)))
		}
		if nb > 0 {
			t.RowsCount = uint32((nb-1)*255 + 1 + r.Intn(255))
		}
		t.WriteTo(buf)
	case "block", "validateblock":
		n := 1 + r.Intn(6)
		rows := make([][]string, n)
		for i := range rows {
			rows[i] = genRow(r, false)
		}
		objects.WriteBlockTo(objects.NewStrListEncoder(true), buf, rows)
	case "blockindex":
		n := 1 + r.Intn(5)
		rows := make([][]string, n)
		for i := range rows {
			rows[i] = []string{genCell(r), itoa(i)}
		}
		enc := objects.NewStrListEncoder(true)
		idx, _ := objects.IndexBlock(enc, meowNew(), rows, []uint32{1})
		idx.WriteTo(buf)
	case "strlist":
		buf.Write(objects.NewStrListEncoder(false).Encode(genRow(r, false)))
	case "uintlist":
		l := []uint32{}
		for i := 0; i < r.Intn(6); i++ {
			l = append(l, r.Uint32())
		}
		buf.Write(objects.NewUintListEncoder().Encode(l))
	case "pktline":
		mb := misc.NewBuffer(nil)
		for i := 0; i < r.Intn(4); i++ {
			pktline.WritePktLine(buf, mb, "l"+genCell(r))
		}
		pktline.WritePktLine(buf, mb, "")
	case "profile":
		// a real profile from a small ingest
		db := NewMemStore()
		t := GenTable(r, 1+r.Intn(3), 1+r.Intn(20), []int{0}, 0)
		sum, err := IngestCSV(db, t.CSV(0), t.PK, IngestCfg{})
		if err == nil {
			raw, err := db.Get(append([]byte("tblsum/"), sum...))
			if err == nil {
				buf.Write(raw)
			}
		}
	}
	return append([]byte{}, buf.Bytes()...)
}

var c17Kinds = []string{"packfile", "commit", "table", "block", "validateblock", "blockindex", "strlist", "uintlist", "pktline", "profile"}
var c18Kinds = []string{"packfile", "commit", "table", "block", "blockindex", "strlist", "uintlist", "pktline", "profile"}

func mutate(r *rand.Rand, b []byte) ([]byte, string) {
	b = append([]byte{}, b...)
	switch r.Intn(7) {
	case 0:
		if len(b) == 0 {
			return b, "none"
		}
		return b[:r.Intn(len(b))], "truncate"
	case 1:
		if len(b) == 0 {
			return b, "none"
		}
		i := r.Intn(len(b))
		b[i] ^= 1 << uint(r.Intn(8))
		return b, "bitflip"
	case 2:
		if len(b) < 4 {
			return b, "none"
		}
		// inflate a count / length: set 4 bytes to a huge big-endian value somewhere
		i := r.Intn(len(b) - 3)
		v := []uint32{0xffffffff, 0x7fffffff, 0x10000000, 0x00ffffff, 0x80000000}[r.Intn(5)]
		b[i], b[i+1], b[i+2], b[i+3] = byte(v>>24), byte(v>>16), byte(v>>8), byte(v)
		return b, "inflate32"
	case 3:
		if len(b) < 2 {
			return b, "none"
		}
		i := r.Intn(len(b) - 1)
		b[i], b[i+1] = 0xff, 0xff
		return b, "inflate16"
	case 4:
		return append(b, []byte(genBytes(r, 1+r.Intn(8)))...), "append"
	case 5:
		n := r.Intn(12)
		return []byte(genBytes(r, n)), "random"
	default:
		if len(b) == 0 {
			return b, "none"
		}
		i := r.Intn(len(b))
		return append(b[:i], b[i+1:]...), "delete"
	}
}

type c17Input struct {
	Kind  string `json:"kind"`
	Bytes string `json:"bytes"`
	// limits of the allocation clause: alloc <= PerByte*len + Slack
	PerByte int `json:"perByte"`
	Slack   int `json:"slack"`
}

func c17Run(in *c17Input) Res {
	b := unhx(in.Bytes)
	var ms1, ms2 runtime.MemStats
	runtime.ReadMemStats(&ms1) // TotalAlloc is cumulative: no collection needed
	done := make(chan Res, 1)
	go func() {
		done <- Guard(func() Res {
			v, err := decodeKind(in.Kind, bytes.NewReader(b))
			if err != nil {
				return Err("decode")
			}
			return Ok(v)
		})
	}()
	var res Res
	select {
	case res = <-done:
	case <-hangAfter(20 * time.Second):
		res = Err("hang")
	}
	runtime.ReadMemStats(&ms2)
	res["alloc"] = ms2.TotalAlloc - ms1.TotalAlloc
	// the same bytes as a stored value, read through the store-level getter
	if g := storeGetter(in.Kind, b); g != "" {
		res["getter"] = g
	}
	return res
}

// storeGetter puts the bytes under an object key and reads them with objects.GetCommit / GetTable /
// GetTableProfile (the path `wrgl` takes for every stored object): "ok", "err" or "panic"; "" when
// the kind has no plain (uncompressed) stored form.
func storeGetter(kind string, b []byte) (out string) {
	var prefix string
	switch kind {
	case "commit":
		prefix = "com/"
	case "table":
		prefix = "tbl/"
	case "profile":
		prefix = "tblsum/"
	default:
		return ""
	}
	db := NewMemStore()
	sum := fakeSum(7)
	db.Set(append([]byte(prefix), sum...), b)
	defer func() {
		if r := recover(); r != nil {
			out = "panic"
		}
	}()
	var err error
	switch kind {
	case "commit":
		_, err = objects.GetCommit(db, sum)
	case "table":
		_, err = objects.GetTable(db, sum)
	case "profile":
		_, err = objects.GetTableProfile(db, sum)
	}
	if err != nil {
		return "err"
	}
	return "ok"
}

func c17Emit(ctx *Ctx, in *c17Input, tags ...string) {
	in.PerByte, in.Slack = 256, 8<<20
	res := c17Run(in)
	ctx.Emit("hostile", in, res, true, tags...)
	// the same bytes through the other entry points / constructor options of the same decoder
	for _, k := range c17Variants[in.Kind] {
		v := &c17Input{Kind: k, Bytes: in.Bytes, PerByte: in.PerByte, Slack: in.Slack}
		vt := append([]string{}, tags...)
		for i, t := range vt {
			if strings.HasPrefix(t, "kind=") {
				vt[i] = "kind=" + k
			}
		}
		ctx.Emit("hostile", v, c17Run(v), true, append(vt, "decoder-option")...)
	}
}

// c17Variants: the decoders that take a constructor option (reuseRecords) or have a second entry point
// for the same encoding (the raw-row reader ReadBytes; the float list shares the uint list's framing)
// are offered every hostile byte string that their default form is offered.
var c17Variants = map[string][]string{
	"strlist":  {"strlist-reuse", "strlist-bytes", "strlist-bytes-reuse"},
	"uintlist": {"uintlist-reuse", "floatlist", "floatlist-reuse"},
}

// c17DecodeOption decodes with the decoders' other constructor option / entry point. The "rowstream"
// kinds read a sequence of rows with ONE decoder until end of stream (what the sorter does with a
// spill file and the block indexer with a block's rows).
func c17DecodeOption(kind string, r io.Reader) (interface{}, error) {
	reuse := strings.HasSuffix(kind, "-reuse")
	switch strings.TrimSuffix(kind, "-reuse") {
	case "strlist":
		_, row, err := objects.NewStrListDecoder(reuse).Read(r)
		if err != nil {
			return nil, err
		}
		return hxRow(row), nil
	case "strlist-bytes":
		n, b, err := objects.NewStrListDecoder(reuse).ReadBytes(r)
		if err != nil {
			return nil, err
		}
		if n != len(b) {
			return nil, fmt.Errorf("ReadBytes: n=%d but %d bytes", n, len(b))
		}
		return hx(b), nil
	case "uintlist":
		_, l, err := objects.NewUintListDecoder(reuse).Read(r)
		if err != nil {
			return nil, err
		}
		if l == nil {
			l = []uint32{}
		}
		return l, nil
	case "floatlist":
		_, l, err := objects.NewFloatListDecoder(reuse).Read(r)
		if err != nil {
			return nil, err
		}
		out := []string{}
		for _, f := range l {
			out = append(out, fmt.Sprintf("%016x", math.Float64bits(f)))
		}
		return out, nil
	case "rowstream":
		dec := objects.NewStrListDecoder(reuse)
		out := [][]string{}
		for {
			_, row, err := dec.Read(r)
			if err == io.EOF {
				return out, nil
			}
			if err != nil {
				return nil, err
			}
			out = append(out, hxRow(row))
			if len(out) > 100000 {
				return nil, fmt.Errorf("too many rows")
			}
		}
	case "rowstream-bytes":
		dec := objects.NewStrListDecoder(reuse)
		out := []string{}
		for {
			n, b, err := dec.ReadBytes(r)
			if errors.Is(err, io.EOF) && n == 0 {
				return out, nil
			}
			if err != nil {
				return nil, err
			}
			out = append(out, hx(b)) // hx copies: with reuseRecords the slice is the decoder's buffer
			if len(out) > 100000 {
				return nil, fmt.Errorf("too many rows")
			}
		}
	}
	return nil, fmt.Errorf("unknown kind")
}

func runC17(ctx *Ctx) {
	r := ctx.R
	kind := c17Kinds[ctx.Idx%len(c17Kinds)]
	if r.Intn(6) == 0 {
		// hostile packfile into the object receiver
		c17Receive(ctx)
		return
	}
	valid := validEncoding(r, kind)
	if ctx.Idx%3 == 0 && len(valid) > 0 && len(valid) < 400 {
		// every truncation offset of this object
		for i := 0; i <= len(valid); i++ {
			c17Emit(ctx, &c17Input{Kind: kind, Bytes: hx(valid[:i])}, "kind="+kind, "truncate-all")
		}
		return
	}
	if (ctx.Idx/10)%4 == 1 && len(valid) >= 4 && len(valid) < 260 {
		// every 4-byte window of this object overwritten by a huge count / length
		for i := 0; i+4 <= len(valid); i++ {
			for _, v := range []uint32{0xffffffff, 0x00ffffff} {
				b := append([]byte{}, valid...)
				b[i], b[i+1], b[i+2], b[i+3] = byte(v>>24), byte(v>>16), byte(v>>8), byte(v)
				c17Emit(ctx, &c17Input{Kind: kind, Bytes: hx(b)}, "kind="+kind, "inflate32-all")
			}
		}
		return
	}
	if kind == "profile" && r.Intn(3) == 0 {
		// a header that declares fewer field names than the column records use
		if b, ok := truncateProfileFields(valid, r.Intn(12)); ok {
			c17Emit(ctx, &c17Input{Kind: kind, Bytes: hx(b)}, "kind="+kind, "mut=fewer-fields")
			return
		}
	}
	b, how := mutate(r, valid)
	if r.Intn(4) == 0 {
		b, _ = mutate(r, b)
		how += "+2"
	}
	c17Emit(ctx, &c17Input{Kind: kind, Bytes: hx(b)}, "kind="+kind, "mut="+how)
}

type c17RecvInput struct {
	Bytes   string `json:"bytes"`
	PerByte int    `json:"perByte"`
	Slack   int    `json:"slack"`
}

// c17Receive builds a valid packfile of a small commit and feeds a mutation of it to ObjectReceiver.
func c17Receive(ctx *Ctx) {
	r := ctx.R
	src := NewMemStore()
	t := GenTable(r, 1+r.Intn(3), 1+r.Intn(40), []int{0}, 0)
	tsum, err := IngestCSV(src, t.CSV(0), t.PK, IngestCfg{})
	if err != nil {
		return
	}
	com := &objects.Commit{Table: tsum, AuthorName: "a", AuthorEmail: "e", Message: "m", Time: time.Unix(1700000000, 0).UTC()}
	cb := newBuf()
	com.WriteTo(cb)
	csum, _ := objects.SaveCommit(src, cb.Bytes())
	sender, err := apiutils.NewObjectSender(src, []*objects.Commit{mustCommit(src, csum)}, nil, nil, 0)
	if err != nil {
		return
	}
	pf := newBuf()
	if _, _, err := sender.WriteObjects(pf, nil); err != nil {
		return
	}
	b, how := mutate(r, pf.Bytes())
	if r.Intn(3) == 0 {
		// a packfile whose block object decompresses fine but is not a valid block (no rows, more than 255,
		// fewer rows than announced, a cut cell): must be refused and must not stay in the store
		valid := validEncoding(r, "block")
		var hostile []byte
		switch r.Intn(5) {
		case 0:
			hostile = []byte{0, 0, 0, 0}
		case 1:
			hostile = append([]byte{0, 0, 1, 0}, valid[4:]...)
		case 2:
			if len(valid) >= 4 {
				hostile = append([]byte{}, valid...)
				hostile[3]++
			}
		case 3:
			if len(valid) > 6 {
				hostile = valid[:len(valid)-1-r.Intn(len(valid)-5)]
			}
		default:
			hostile = valid[:min(len(valid), 3)]
		}
		pb := newBuf()
		pw, err := packfile.NewPackfileWriter(pb)
		if err == nil {
			pw.WriteObject(packfile.ObjectBlock, s2.EncodeBetter(nil, hostile))
			b, how = pb.Bytes(), "hostile-block"
		}
	}
	if how != "hostile-block" && r.Intn(4) == 0 {
		// a well-formed packfile whose TABLE object lies about its blocks: a key column index beyond the
		// row width, a row count that does not match the blocks, a column list of another width
		if tbl, err := objects.GetTable(src, tsum); err == nil {
			switch r.Intn(4) {
			case 0:
				tbl.PK = []uint32{uint32(len(tbl.Columns) + r.Intn(5))}
			case 1:
				tbl.RowsCount += uint32(1 + r.Intn(600))
			case 2:
				tbl.Columns = tbl.Columns[:len(tbl.Columns)-1]
			default:
				tbl.Columns = append(tbl.Columns, "extra")
				tbl.PK = []uint32{uint32(len(tbl.Columns) - 1)}
			}
			tb := newBuf()
			if _, err := tbl.WriteTo(tb); err == nil {
				pb := newBuf()
				if pw, err := packfile.NewPackfileWriter(pb); err == nil {
					for _, bs := range tbl.Blocks {
						if raw, err := src.Get(append([]byte("blk/"), bs...)); err == nil {
							pw.WriteObject(packfile.ObjectBlock, raw)
						}
					}
					pw.WriteObject(packfile.ObjectTable, tb.Bytes())
					pw.WriteObject(packfile.ObjectCommit, cb.Bytes())
					b, how = pb.Bytes(), "hostile-table"
				}
			}
		}
	}
	c17ReceiveRun(ctx, b, csum, nil, "mut="+how)
	c17ReceiveMissingParent(ctx, src, tsum, csum, cb.Bytes())
}

// c17ReceiveMissingParent: well-formed packfiles whose commit objects cannot be accepted because a
// parent is neither in the destination nor earlier in the packfile (a reply that was cut, reordered,
// or made up). Chosen by the case index: 0 a commit whose only parent is absent; 1 a merge commit whose
// first parent the destination already has and whose second parent is absent; 2 a child sent before its
// parent. The table and its blocks are there in every variant, so the parent is the only reason to
// refuse; whatever the receiver answers, no stored commit may lack a parent afterwards.
func c17ReceiveMissingParent(ctx *Ctx, src *MemStore, tsum, rootSum, rootBytes []byte) {
	r := ctx.R
	variant := ctx.Idx % 3
	absent := []byte(genBytes(r, 16))
	child := &objects.Commit{Table: tsum, AuthorName: "h", AuthorEmail: "h@h", Message: "child", Time: time.Unix(1700000100, 0).UTC()}
	switch variant {
	case 0:
		child.Parents = [][]byte{absent}
	case 1:
		child.Parents = [][]byte{rootSum, absent}
	default:
		child.Parents = [][]byte{rootSum}
	}
	chb := newBuf()
	if _, err := child.WriteTo(chb); err != nil {
		return
	}
	tbl, err := objects.GetTable(src, tsum)
	if err != nil {
		return
	}
	traw, err := src.Get(append([]byte("tbl/"), tsum...))
	if err != nil {
		return
	}
	pb := newBuf()
	pw, err := packfile.NewPackfileWriter(pb)
	if err != nil {
		return
	}
	var pre *MemStore
	if variant == 1 {
		// the destination already holds the root commit with its table
		pre = c06CopyStore(src)
	} else {
		for _, bs := range tbl.Blocks {
			if raw, err := src.Get(append([]byte("blk/"), bs...)); err == nil {
				pw.WriteObject(packfile.ObjectBlock, raw)
			}
		}
		pw.WriteObject(packfile.ObjectTable, traw)
	}
	pw.WriteObject(packfile.ObjectCommit, chb.Bytes())
	if variant == 2 {
		pw.WriteObject(packfile.ObjectCommit, rootBytes)
	}
	sumArr := meow.Checksum(0, chb.Bytes())
	c17ReceiveRun(ctx, pb.Bytes(), sumArr[:], pre, "mut=commit-missing-parent", fmt.Sprintf("missing-parent-variant=%d", variant))
}

// c17ReceiveRun feeds the packfile bytes to an ObjectReceiver over dst (a fresh store when nil) and
// reports the outcome, the allocation and what is left in the destination.
func c17ReceiveRun(ctx *Ctx, b []byte, csum []byte, dst *MemStore, tags ...string) {
	in := &c17RecvInput{Bytes: hx(b), PerByte: 512, Slack: 16 << 20}
	var ms1, ms2 runtime.MemStats
	runtime.GC()
	runtime.ReadMemStats(&ms1)
	if dst == nil {
		dst = NewMemStore()
	}
	res := Guard(func() Res {
		pr, err := packfile.NewPackfileReader(io.NopCloser(bytes.NewReader(b)))
		if err != nil {
			return Err("not-a-packfile")
		}
		recv := apiutils.NewObjectReceiver(dst, [][]byte{csum}, logr.Discard())
		done, err := recv.Receive(pr, nil)
		if err != nil {
			return Err("receive")
		}
		return Ok(done)
	})
	runtime.ReadMemStats(&ms2)
	res["alloc"] = ms2.TotalAlloc - ms1.TotalAlloc
	// what is left in the destination: every stored commit must have its parents; report dangling ones
	dangling := 0
	ckeys, _ := objects.GetAllCommitKeys(dst)
	for _, k := range ckeys {
		c, err := objects.GetCommit(dst, k)
		if err != nil {
			dangling++
			continue
		}
		for _, p := range c.Parents {
			if !objects.CommitExist(dst, p) {
				dangling++
			}
		}
	}
	res["dangling"] = dangling
	// … and no block that the validator refuses may have been stored
	invalid := 0
	for _, k := range dst.Keys() {
		if !strings.HasPrefix(k, "blk/") {
			continue
		}
		raw, err := dst.Get([]byte(k))
		if err != nil {
			continue
		}
		dec, err := s2.Decode(nil, raw)
		if err != nil || objects.ValidateBlockBytes(dec) != nil {
			invalid++
		}
	}
	res["invalidStored"] = invalid
	ctx.Emit("receive", in, res, true, tags...)
}

func mustCommit(db objects.Store, sum []byte) *objects.Commit {
	c, err := objects.GetCommit(db, sum)
	if err != nil {
		panic(err)
	}
	c.Sum = sum
	return c
}

func corpusC17(ctx *Ctx, op string, raw json.RawMessage) {
	if op != "hostile" {
		return
	}
	var in c17Input
	if err := json.Unmarshal(raw, &in); err != nil {
		panic(err)
	}
	c17Emit(ctx, &in, "corpus", "kind="+in.Kind)
}

// ---- C18 ---------------------------------------------------------------------------------------

type chunkReader struct {
	data        []byte
	sizes       []int
	i           int
	eofWithLast bool
}

func (c *chunkReader) Read(p []byte) (int, error) {
	if len(c.data) == 0 {
		return 0, io.EOF
	}
	if len(p) == 0 {
		return 0, nil
	}
	s := len(c.data)
	if c.i < len(c.sizes) {
		s = c.sizes[c.i]
		c.i++
	}
	if s > len(p) {
		// the caller's buffer is smaller than the chunk: the rest of the chunk stays pending
		c.sizes = append([]int{s - len(p)}, c.sizes[c.i:]...)
		c.i = 0
		s = len(p)
	}
	if s > len(c.data) {
		s = len(c.data)
	}
	n := copy(p, c.data[:s])
	c.data = c.data[n:]
	if len(c.data) == 0 && c.eofWithLast {
		return n, io.EOF
	}
	return n, nil
}

type c18Input struct {
	Kind      string  `json:"kind"`
	Bytes     string  `json:"bytes"`
	Chunkings [][]int `json:"chunkings"`
	EOFWith   []bool  `json:"eofWithLast"`
}

func canon(v interface{}, err error) interface{} {
	if err != nil {
		return "err"
	}
	// normalise through JSON so that typed values compare structurally
	b, _ := json.Marshal(v)
	var out interface{}
	json.Unmarshal(b, &out)
	return out
}

func c18Run(in *c18Input) Res {
	b := unhx(in.Bytes)
	return Guard(func() Res {
		out := map[string]interface{}{}
		out["whole"] = canon(decodeKind(in.Kind, bytes.NewReader(b)))
		out["onebyte"] = canon(decodeKind(in.Kind, iotest.OneByteReader(bytes.NewReader(b))))
		out["half"] = canon(decodeKind(in.Kind, iotest.HalfReader(bytes.NewReader(b))))
		out["dataerr"] = canon(decodeKind(in.Kind, iotest.DataErrReader(bytes.NewReader(b))))
		cs := []interface{}{}
		for i, sizes := range in.Chunkings {
			cr := &chunkReader{data: append([]byte{}, b...), sizes: append([]int{}, sizes...), eofWithLast: in.EOFWith[i]}
			cs = append(cs, canon(decodeKind(in.Kind, cr)))
		}
		out["chunked"] = cs
		return Ok(out)
	})
}

func genChunking(r *rand.Rand, n int) []int {
	sizes := []int{}
	left := n
	for left > 0 {
		var s int
		switch r.Intn(4) {
		case 0:
			s = 1
		case 1:
			s = 1 + r.Intn(4)
		case 2:
			s = 1 + r.Intn(17)
		default:
			s = 1 + r.Intn(left)
		}
		if s > left {
			s = left
		}
		sizes = append(sizes, s)
		left -= s
	}
	return sizes
}

func runC18(ctx *Ctx) {
	r := ctx.R
	kind := c18Kinds[ctx.Idx%len(c18Kinds)]
	valid := validEncoding(r, kind)
	in := &c18Input{Kind: kind, Bytes: hx(valid)}
	k := 4
	if ctx.Thorough() {
		k = 10
	}
	for i := 0; i < k; i++ {
		in.Chunkings = append(in.Chunkings, genChunking(r, len(valid)))
		in.EOFWith = append(in.EOFWith, r.Intn(2) == 0)
	}
	ctx.Emit("chunk", in, c18Run(in), len(valid) > 8, "kind="+kind)
	c18Extra(ctx, in)
}

func corpusC18(ctx *Ctx, op string, raw json.RawMessage) {
	var in c18Input
	if err := json.Unmarshal(raw, &in); err != nil {
		panic(err)
	}
	ctx.Emit("chunk", &in, c18Run(&in), true, "corpus", "kind="+in.Kind)
}


// truncateProfileFields rewrites the `fields` string list of an encoded table profile so that it
// declares only the first k names; everything else is kept.
func truncateProfileFields(b []byte, k int) ([]byte, bool) {
	label := []byte("fields ")
	i := bytes.Index(b, label)
	if i < 0 {
		return nil, false
	}
	o := i + len(label)
	if o+4 > len(b) {
		return nil, false
	}
	n := int(binary.BigEndian.Uint32(b[o:]))
	p := o + 4
	ends := []int{p}
	for j := 0; j < n; j++ {
		if p+2 > len(b) {
			return nil, false
		}
		l := int(binary.BigEndian.Uint16(b[p:]))
		p += 2 + l
		if p > len(b) {
			return nil, false
		}
		ends = append(ends, p)
	}
	if k > n {
		k = n
	}
	out := append([]byte{}, b[:o]...)
	cnt := make([]byte, 4)
	binary.BigEndian.PutUint32(cnt, uint32(k))
	out = append(out, cnt...)
	out = append(out, b[o+4:ends[k]]...)
	out = append(out, b[ends[n]:]...)
	return out, true
}
