package main

import (
	"bytes"
	"encoding/json"
	"fmt"
	"io"
	"math/rand"
	"sort"
	"time"

	"github.com/go-logr/logr"
	"github.com/wrgl/wrgl/pkg/api/utils"
	"github.com/wrgl/wrgl/pkg/encoding/packfile"
	"github.com/wrgl/wrgl/pkg/objects"
)

func init() {
	runners["C07"] = runC07
	corpusRunners["C07"] = corpusC07
}

type c07Table struct {
	ID     int   `json:"id"`
	Blocks []int `json:"blocks"`
}

type c07Input struct {
	Commits      []GCommit  `json:"commits"` // table field = table id
	Tables       []c07Table `json:"tables"`  // tables present at the source
	Sizes        [][]int    `json:"sizes"`   // [type, id, byte length of the object as sent]
	ToSend       []int      `json:"toSend"`
	TablesToSend []int      `json:"tablesToSend"`
	Common       []int      `json:"common"`
	MaxSize      uint64     `json:"maxSize"`
	DstBlocks    []int      `json:"dstBlocks"`
	DstTables    []int      `json:"dstTables"`
	DstCommits   []int      `json:"dstCommits"`
	Seed         int64      `json:"genSeed"`   // the scenario is rebuilt from this seed on replay
	Dishonest    bool       `json:"dishonest"` // a commit needed by a later one was left out of toSend
	Zones        [][]int    `json:"zones"`     // [commit id, zone offset of its time in minutes]
	// negotiated transfers: toSend / tablesToSend / common are not given but computed by the real
	// ClosedSetsFinder from what the destination asks for (they are reported with the outcome)
	Negotiated bool    `json:"negotiated,omitempty"`
	Refs       []int   `json:"refs,omitempty"`      // refs of the source repository
	Wants      []int   `json:"wants,omitempty"`     // commits the destination lacks and asks for
	Haves      [][]int `json:"haves,omitempty"`     // what it reports having, one batch per round (ids > n: unknown to the source)
	Depth      int     `json:"depth,omitempty"`     // 0 = whole history with tables
	NegDone    bool    `json:"negDone,omitempty"`   // the last round carries the done flag
	TableAcks  bool    `json:"tableAcks,omitempty"` // selected tables that the destination acknowledges having are not offered (push)
	// Cuts: every packfile of the transfer is also delivered cut short (the connection drops) to a copy
	// of the destination as it was before that packfile: at every byte of its small objects, at sampled
	// bytes of the large ones, at every object boundary and inside the file header
	Cuts    bool `json:"cuts,omitempty"`
	CutsMax int  `json:"cutsMax,omitempty"` // at most this many cut points per case
	// WriteFault k > 0: a first attempt at the same transfer whose k-th write to the destination is
	// refused (the receive fails there); the transfer that is judged is the repeated one
	WriteFault int `json:"writeFault,omitempty"`
}

// c07ZoneMinutes: zone offsets commits are authored in. Whole hours and fractional ones on both sides
// of UTC (India, Nepal, Chatham, Newfoundland winter/summer, Marquesas, and a zone within an hour of UTC).
var c07ZoneMinutes = []int{0, 0, 60, -480, 330, 345, 765, 840, -720, -210, -150, -570, -30, 30}

type c07World struct {
	src      *MemStore
	in       *c07Input
	blockID  map[string]int
	tableID  map[string]int
	commitID map[string]int
	blockSum map[int][]byte
	tableSum map[int][]byte
	comSum   map[int][]byte
	// some table has a block whose last row ends with an empty cell
	blockEndsEmpty bool
	// some table is another one committed again under a different primary key (same blocks, other block indices)
	rekeyed bool
}

// c07BlankBlockEnd empties the last cell of a row that is the last of its block (rows are stored in
// key order, 255 to a block): the block's bytes then end with a zero length prefix.
func c07BlankBlockEnd(t *TableSpec, xr *rand.Rand) bool {
	if len(t.Rows) == 0 || len(t.Columns) < 2 {
		return false
	}
	idx := make([]int, len(t.Rows))
	for i := range idx {
		idx[i] = i
	}
	sort.Slice(idx, func(a, b int) bool { return t.Rows[idx[a]][0] < t.Rows[idx[b]][0] })
	ends := []int{len(idx) - 1}
	for e := 254; e < len(idx)-1; e += 255 {
		ends = append(ends, e)
	}
	row := t.Rows[idx[ends[xr.Intn(len(ends))]]]
	row[len(row)-1] = ""
	return true
}

// buildC07 deterministically builds a source repository and a transfer scenario from a seed.
func buildC07(seed int64, thorough bool, negotiated bool) (*c07World, error) {
	r := rand.New(rand.NewSource(seed))
	// a stream of its own for the commits' time zones: the scenario's other draws are unaffected
	zr := rand.New(rand.NewSource(seed ^ 0x7a6f6e65))
	w := &c07World{src: NewMemStore(), in: &c07Input{Seed: seed}, blockID: map[string]int{}, tableID: map[string]int{}, commitID: map[string]int{},
		blockSum: map[int][]byte{}, tableSum: map[int][]byte{}, comSum: map[int][]byte{}}
	// tables: a few logical tables, some sharing blocks
	nT := 2 + r.Intn(3)
	var specs []*TableSpec
	base := GenTable(r, 2, []int{3, 20, 260, 300, 520}[r.Intn(5)], []int{0}, 0)
	for _, row := range base.Rows {
		row[1] = []string{"a", "b", "c"}[r.Intn(3)]
	}
	// block boundaries: 1 table in 3 has a block (a middle one or the last) that ends with an empty cell
	xr := rand.New(rand.NewSource(seed ^ 0x626c6b65))
	endsEmpty := false
	if xr.Intn(3) == 0 {
		endsEmpty = c07BlankBlockEnd(base, xr) || endsEmpty
	}
	specs = append(specs, base)
	for len(specs) < nT {
		switch r.Intn(3) {
		case 0: // variant of base sharing its leading blocks
			v := cloneSpec(base)
			if len(v.Rows) > 0 {
				// change the row with the largest key (last block only)
				mi := 0
				for i, row := range v.Rows {
					if row[0] > v.Rows[mi][0] {
						mi = i
					}
				}
				v.Rows[mi][1] = fmt.Sprintf("v%d", len(specs))
			}
			specs = append(specs, v)
		case 1: // the base with a renamed column: a new table made entirely of blocks the base already has
			v := cloneSpec(base)
			v.Columns = append([]string{}, base.Columns...)
			v.Columns[1] = base.Columns[1] + fmt.Sprintf("_r%d", len(specs))
			specs = append(specs, v)
		default:
			t := GenTable(r, 1+r.Intn(3), 1+r.Intn(30), []int{0}, 0)
			if r.Intn(5) == 0 {
				t.Rows = nil // a header-only table: no blocks, an empty table index
			}
			if xr.Intn(3) == 0 {
				endsEmpty = c07BlankBlockEnd(t, xr) || endsEmpty
			}
			specs = append(specs, t)
		}
	}
	// one scenario in two also holds a table committed again under another primary key that leaves
	// the row order as it was (the key column followed by the next one, or no key at all: a keyless
	// table is ordered by all its columns): the two tables consist of the very same blocks, but every
	// block index differs (an index entry is hash(key values) ++ hash(row)). A stream of its own.
	kr := rand.New(rand.NewSource(seed ^ 0x726b6579))
	if kr.Intn(2) == 0 {
		var cand []*TableSpec
		for _, s := range specs {
			if len(s.Rows) > 0 && len(s.PK) == 1 && s.PK[0] == s.Columns[0] {
				cand = append(cand, s)
			}
		}
		for k := 0; k < 1+kr.Intn(2) && len(cand) > 0; k++ {
			v := cloneSpec(cand[kr.Intn(len(cand))])
			if len(v.Columns) >= 2 && kr.Intn(2) == 0 {
				v.PK = []string{v.Columns[0], v.Columns[1]}
			} else {
				v.PK = nil
			}
			// anywhere among the tables: which of the two versions is met first varies
			at := kr.Intn(len(specs) + 1)
			specs = append(specs[:at], append([]*TableSpec{v}, specs[at:]...)...)
			w.rekeyed = true
		}
	}
	var tsums [][]byte
	for _, s := range specs {
		sum, err := IngestCSV(w.src, s.CSV(0), s.PK, IngestCfg{})
		if err != nil {
			return nil, err
		}
		tsums = append(tsums, sum)
	}
	// distinct table sums only
	seen := map[string]bool{}
	for _, sum := range tsums {
		if seen[string(sum)] {
			continue
		}
		seen[string(sum)] = true
		id := len(w.tableID) + 1
		w.tableID[string(sum)] = id
		w.tableSum[id] = sum
		t, err := objects.GetTable(w.src, sum)
		if err != nil {
			return nil, err
		}
		ct := c07Table{ID: id, Blocks: []int{}}
		for _, b := range t.Blocks {
			bid, ok := w.blockID[string(b)]
			if !ok {
				bid = len(w.blockID) + 1
				w.blockID[string(b)] = bid
				w.blockSum[bid] = b
				raw, _ := objects.GetBlockBytes(w.src, b)
				w.in.Sizes = append(w.in.Sizes, []int{packfile.ObjectBlock, bid, len(raw)})
			}
			ct.Blocks = append(ct.Blocks, bid)
		}
		raw, _ := w.src.Get(append([]byte("tbl/"), sum...))
		w.in.Sizes = append(w.in.Sizes, []int{packfile.ObjectTable, id, len(raw)})
		w.in.Tables = append(w.in.Tables, ct)
	}
	nTab := len(w.in.Tables)
	// commits
	n := 1 + r.Intn(7)
	mergeProb := 0.3
	if negotiated {
		// histories worth negotiating over: at least two commits, more merges
		n++
		mergeProb = 0.45
	}
	g := GenGraph(r, n, 0, mergeProb, 0.1)
	for i := range g {
		g[i].Table = 1 + r.Intn(nTab)
	}
	w.blockEndsEmpty = endsEmpty
	w.in.Zones = [][]int{}
	for _, c := range g {
		zm := c07ZoneMinutes[zr.Intn(len(c07ZoneMinutes))]
		w.in.Zones = append(w.in.Zones, []int{c.ID, zm})
		com := &objects.Commit{Table: w.tableSum[c.Table], AuthorName: "a", AuthorEmail: "e", Time: time.Unix(c.Time, 0).In(time.FixedZone("", zm*60)), Message: "c" + itoa(c.ID)}
		for _, p := range c.Parents {
			com.Parents = append(com.Parents, w.comSum[p])
		}
		buf := newBuf()
		com.WriteTo(buf)
		sum, err := objects.SaveCommit(w.src, buf.Bytes())
		if err != nil {
			return nil, err
		}
		w.comSum[c.ID] = sum
		w.commitID[string(sum)] = c.ID
		w.in.Sizes = append(w.in.Sizes, []int{packfile.ObjectCommit, c.ID, buf.Len()})
	}
	w.in.Commits = g
	// destination: an ancestor-closed set of commits (with everything they reference), plus stray objects
	have := map[int]bool{}
	var closure func(int)
	byID := map[int]GCommit{}
	for _, c := range g {
		byID[c.ID] = c
	}
	closure = func(id int) {
		if have[id] {
			return
		}
		have[id] = true
		for _, p := range byID[id].Parents {
			closure(p)
		}
	}
	for i := 0; i < r.Intn(3); i++ {
		closure(1 + r.Intn(n))
	}
	if negotiated && len(have) == n {
		// nothing left to ask for: an empty destination instead
		have = map[int]bool{}
	}
	w.in.DstCommits, w.in.DstTables, w.in.DstBlocks = []int{}, []int{}, []int{}
	dt, db := map[int]bool{}, map[int]bool{}
	for id := 1; id <= n; id++ {
		if have[id] {
			w.in.DstCommits = append(w.in.DstCommits, id)
			dt[byID[id].Table] = true
		}
	}
	for _, t := range w.in.Tables {
		if dt[t.ID] {
			for _, b := range t.Blocks {
				db[b] = true
			}
		}
	}
	// stray blocks already present (e.g. from an interrupted earlier transfer)
	for b := range w.blockSum {
		if r.Intn(5) == 0 {
			db[b] = true
		}
	}
	for t := range dt {
		w.in.DstTables = append(w.in.DstTables, t)
	}
	for b := range db {
		w.in.DstBlocks = append(w.in.DstBlocks, b)
	}
	sort.Ints(w.in.DstTables)
	sort.Ints(w.in.DstBlocks)
	// common commits: the tips of what the destination has
	w.in.Common = []int{}
	for id := range have {
		tip := true
		for _, c := range g {
			if have[c.ID] {
				for _, p := range c.Parents {
					if p == id {
						tip = false
					}
				}
			}
		}
		if tip {
			w.in.Common = append(w.in.Common, id)
		}
	}
	sort.Ints(w.in.Common)
	w.in.ToSend, w.in.TablesToSend = []int{}, []int{}
	if negotiated {
		c07Negotiation(w, r, have, n)
		return w, nil
	}
	// to send: everything missing, parent-first (ids ascend along parent links), sometimes with a repeat
	w.in.ToSend, w.in.TablesToSend = []int{}, []int{}
	ts := map[int]bool{}
	for id := 1; id <= n; id++ {
		if !have[id] {
			w.in.ToSend = append(w.in.ToSend, id)
			if r.Intn(6) != 0 { // sometimes a commit is sent without its table (depth limit)
				ts[byID[id].Table] = true
			}
		}
	}
	if len(w.in.ToSend) > 0 && r.Intn(4) == 0 {
		k := r.Intn(len(w.in.ToSend))
		w.in.ToSend = append(w.in.ToSend[:k+1], w.in.ToSend[k:]...)
	}
	if len(w.in.ToSend) > 1 && r.Intn(5) == 0 {
		// a dishonest (or buggy) sender: one commit that a later one needs is left out; the receiver
		// must refuse the child (whichever position the missing parent has in its parent list)
		cand := []int{}
		for i, id := range w.in.ToSend {
			for _, later := range w.in.ToSend[i+1:] {
				for _, p := range byID[later].Parents {
					if p == id {
						cand = append(cand, i)
					}
				}
			}
		}
		if len(cand) > 0 {
			k := cand[r.Intn(len(cand))]
			w.in.ToSend = append(append([]int{}, w.in.ToSend[:k]...), w.in.ToSend[k+1:]...)
			w.in.Dishonest = true
		}
	}
	for t := range ts {
		w.in.TablesToSend = append(w.in.TablesToSend, t)
	}
	sort.Ints(w.in.TablesToSend)
	w.in.MaxSize = c07MaxSize(r)
	return w, nil
}

func c07MaxSize(r *rand.Rand) uint64 {
	switch r.Intn(4) {
	case 0:
		return 1
	case 1:
		return 0 // default (2 GiB)
	default:
		return uint64(20 + r.Intn(3000))
	}
}

// c07Negotiation completes a scenario in which the destination asks for commits it lacks and tells
// what it has, as fetch and push do: which commits and tables travel, and in which order, is then
// decided by the real ClosedSetsFinder (c07Run), not by the generator.
func c07Negotiation(w *c07World, r *rand.Rand, have map[int]bool, n int) {
	in := w.in
	in.Negotiated = true
	in.Common = []int{} // reported with the outcome
	child := map[int]bool{}
	for _, c := range in.Commits {
		for _, p := range c.Parents {
			child[p] = true
		}
	}
	var tips, missing []int
	for id := 1; id <= n; id++ {
		if !child[id] {
			tips = append(tips, id)
		}
		if !have[id] {
			missing = append(missing, id)
		}
	}
	// wants: the newest missing commit (its history has the most merges) and sometimes another one
	in.Wants = []int{missing[len(missing)-1]}
	if r.Intn(3) == 0 {
		x := missing[r.Intn(len(missing))]
		if x != in.Wants[0] {
			in.Wants = append(in.Wants, x)
		}
	}
	// refs of the source: every branch tip, and the wants themselves (a want may sit below a tip)
	in.Refs = append([]int{}, tips...)
	for _, x := range in.Wants {
		if child[x] && r.Intn(2) == 0 {
			in.Refs = append(in.Refs, x)
		}
	}
	// haves: the destination's tips, sometimes all it has in some order, sometimes a hash the source
	// does not know; told in one or two rounds
	var hs []int
	for id := 1; id <= n; id++ {
		if have[id] {
			tip := true
			for _, c := range in.Commits {
				if have[c.ID] {
					for _, p := range c.Parents {
						if p == id {
							tip = false
						}
					}
				}
			}
			if tip || r.Intn(3) == 0 {
				hs = append(hs, id)
			}
		}
	}
	r.Shuffle(len(hs), func(i, j int) { hs[i], hs[j] = hs[j], hs[i] })
	if r.Intn(6) == 0 {
		k := r.Intn(len(hs) + 1)
		hs = append(hs[:k], append([]int{n + 1 + r.Intn(3)}, hs[k:]...)...)
	}
	if len(hs) > 1 && r.Intn(3) == 0 {
		k := 1 + r.Intn(len(hs)-1)
		in.Haves = [][]int{append([]int{}, hs[:k]...), append([]int{}, hs[k:]...)}
	} else {
		in.Haves = [][]int{append([]int{}, hs...)}
	}
	in.NegDone = r.Intn(2) == 0
	if r.Intn(4) == 0 {
		in.Depth = 1 + r.Intn(3)
	}
	in.TableAcks = r.Intn(2) == 0
	in.MaxSize = c07MaxSize(r)
}

func copyKey(dst, src *MemStore, key []byte) {
	v, err := src.Get(key)
	if err == nil {
		dst.Set(key, v)
	}
}

// c07CloneStore copies a store (the destination as it is at some point of the transfer).
func c07CloneStore(s *MemStore) *MemStore {
	c := NewMemStore()
	for _, k := range s.Keys() {
		if v, err := s.Get([]byte(k)); err == nil {
			c.Set([]byte(k), v)
		}
	}
	return c
}

// c07ObjectSpans reads the framing of a packfile (8 header bytes, then per object a type/length
// prefix and the content) and returns where each object starts, plus the total length. It is only
// used to choose cut points; which cuts fall on an object boundary is decided by the oracle from
// the object sizes.
func c07ObjectSpans(b []byte) []int {
	starts := []int{}
	off := 8
	for off < len(b) {
		starts = append(starts, off)
		u := uint64(b[off] & 15)
		bits := 4
		off++
		for off < len(b) {
			c := b[off]
			off++
			u |= uint64(c&127) << bits
			bits += 7
			if c&128 == 0 {
				break
			}
		}
		off += int(u)
	}
	return append(starts, len(b))
}

// c07CutPoints chooses where a packfile is cut: inside the header, at every object boundary, at every
// byte of objects up to 256 bytes (commits, small tables and blocks), and for larger objects at 16
// bytes from either end plus 16 drawn in between. When that is more than max, whole objects are
// dropped at random (boundaries and header cuts stay).
func c07CutPoints(b []byte, xr *rand.Rand, max int) []int {
	bounds := c07ObjectSpans(b)
	cuts := []int{0, 4, 7}
	cuts = append(cuts, bounds...)
	perObj := [][]int{}
	total := 0
	for i := 0; i+1 < len(bounds); i++ {
		lo, hi := bounds[i]+1, bounds[i+1]-1 // interior offsets lo..hi
		var cs []int
		if hi-lo+1 <= 256 {
			for c := lo; c <= hi; c++ {
				cs = append(cs, c)
			}
		} else {
			seen := map[int]bool{}
			add := func(c int) {
				if c >= lo && c <= hi && !seen[c] {
					seen[c] = true
					cs = append(cs, c)
				}
			}
			for d := 0; d < 16; d++ {
				add(lo + d)
				add(hi - d)
			}
			for d := 0; d < 16; d++ {
				add(lo + xr.Intn(hi-lo+1))
			}
		}
		perObj = append(perObj, cs)
		total += len(cs)
	}
	order := xr.Perm(len(perObj))
	budget := max - len(cuts)
	for _, i := range order {
		if len(perObj[i]) > budget {
			continue
		}
		budget -= len(perObj[i])
		cuts = append(cuts, perObj[i]...)
	}
	sort.Ints(cuts)
	return cuts
}

// c07ProbeCut delivers the first `cut` bytes of a packfile to a copy of the destination and reports
// [cut, outcome (0 accepted, 1 refused), every stored object equals the source's (1/0), and how many
// commits, tables and blocks the copy holds afterwards].
func c07ProbeCut(w *c07World, base *MemStore, expected [][]byte, pack []byte, k, cut int) []int {
	dst := c07CloneStore(base)
	refused := 0
	pr, err := packfile.NewPackfileReader(io.NopCloser(bytes.NewReader(pack[:cut])))
	if err != nil {
		refused = 1
	} else {
		recv := apiutils.NewObjectReceiver(dst, expected, logr.Discard())
		if _, err := recv.Receive(pr, nil); err != nil {
			refused = 1
		}
	}
	identical, nc, nt, nb := 1, 0, 0, 0
	for _, key := range dst.Keys() {
		kb := []byte(key)
		switch {
		case bytes.HasPrefix(kb, []byte("blk/")):
			nb++
		case bytes.HasPrefix(kb, []byte("tbl/")):
			nt++
		case bytes.HasPrefix(kb, []byte("com/")):
			nc++
		default:
			continue
		}
		sv, err1 := w.src.Get(kb)
		dv, err2 := dst.Get(kb)
		if err1 != nil || err2 != nil || !bytes.Equal(sv, dv) {
			identical = 0
		}
	}
	return []int{k, cut, refused, identical, nc, nt, nb}
}

func c07Run(w *c07World) Res {
	in := w.in
	return Guard(func() Res {
		dst := NewMemStore()
		for _, c := range in.DstCommits {
			copyKey(dst, w.src, append([]byte("com/"), w.comSum[c]...))
		}
		for _, t := range in.DstTables {
			for _, pfx := range []string{"tbl/", "tblidx/", "tblsum/"} {
				copyKey(dst, w.src, append([]byte(pfx), w.tableSum[t]...))
			}
			tb, _ := objects.GetTable(w.src, w.tableSum[t])
			for _, bi := range tb.BlockIndices {
				copyKey(dst, w.src, append([]byte("blkidx/"), bi...))
			}
		}
		for _, b := range in.DstBlocks {
			copyKey(dst, w.src, append([]byte("blk/"), w.blockSum[b]...))
		}
		var toSend []*objects.Commit
		tts := map[string]struct{}{}
		var common [][]byte
		var expected [][]byte
		// neg: what the negotiation decided (negotiated transfers only), reported with every outcome
		var neg map[string]interface{}
		fail := func(kind string) Res {
			e := Err(kind)
			if neg != nil {
				e["neg"] = neg
			}
			return e
		}
		if in.Negotiated {
			rs, closeRS := NewRefStore()
			defer closeRS()
			for i, c := range in.Refs {
				if err := rs.Set(fmt.Sprintf("heads/b%d", i), w.comSum[c]); err != nil {
					return Err("setref")
				}
			}
			sums := func(ids []int) [][]byte {
				out := [][]byte{}
				for _, id := range ids {
					if s, ok := w.comSum[id]; ok {
						out = append(out, s)
					} else {
						out = append(out, fakeSum(1000000+id)) // a hash the source has never seen
					}
				}
				return out
			}
			neg = map[string]interface{}{}
			f := apiutils.NewClosedSetsFinder(w.src, rs, in.Depth)
			for k, batch := range in.Haves {
				var wants [][]byte
				if k == 0 {
					wants = sums(in.Wants)
				}
				if _, err := f.Process(wants, sums(batch), k == len(in.Haves)-1 && in.NegDone); err != nil {
					return fail("negotiate")
				}
			}
			commits, err := f.CommitsToSend()
			if err != nil {
				return fail("commits-to-send")
			}
			tables, err := f.TablesToSend()
			if err != nil {
				return fail("tables-to-send")
			}
			common = f.CommonCommmits()
			sent, tids, cids := []int{}, []int{}, []int{}
			for _, c := range commits {
				// a commit handed out by the finder carries no sum: it is identified by its message
				var id int
				fmt.Sscanf(c.Message, "c%d", &id)
				sent = append(sent, id)
			}
			dstT := map[int]bool{}
			for _, t := range in.DstTables {
				dstT[t] = true
			}
			for t := range tables {
				id := w.tableID[t]
				if in.TableAcks && dstT[id] {
					// the destination acknowledged this table: it is taken off the list (ReceivePackSession.negotiate)
					continue
				}
				tts[t] = struct{}{}
				tids = append(tids, id)
			}
			for _, c := range common {
				cids = append(cids, w.commitID[string(c)])
			}
			sort.Ints(tids)
			sort.Ints(cids)
			neg["sent"], neg["tables"], neg["commons"] = sent, tids, cids
			toSend = commits
			expected = sums(in.Wants)
		} else {
			for _, c := range in.ToSend {
				toSend = append(toSend, mustCommit(w.src, w.comSum[c]))
				expected = append(expected, w.comSum[c])
			}
			for _, t := range in.TablesToSend {
				tts[string(w.tableSum[t])] = struct{}{}
			}
			for _, c := range in.Common {
				common = append(common, w.comSum[c])
			}
		}
		sender, err := apiutils.NewObjectSender(w.src, toSend, tts, common, in.MaxSize)
		if err != nil {
			return fail("new-sender")
		}
		if in.WriteFault > 0 {
			fdst := &faultObjStore{Store: dst, b: &writeBudget{left: in.WriteFault - 1}}
			if s0, err := apiutils.NewObjectSender(w.src, toSend, tts, common, in.MaxSize); err == nil {
				r0 := apiutils.NewObjectReceiver(fdst, expected, logr.Discard())
				for k := 0; k < 100000; k++ {
					buf := bytes.NewBuffer(nil)
					done, _, err := s0.WriteObjects(buf, nil)
					if err != nil {
						break
					}
					pr, err := packfile.NewPackfileReader(io.NopCloser(bytes.NewReader(buf.Bytes())))
					if err != nil {
						break
					}
					if _, err := r0.Receive(pr, nil); err != nil || done {
						break
					}
				}
			}
		}
		recv := apiutils.NewObjectReceiver(dst, expected, logr.Discard())
		packs := [][][]int{}
		recvDone := false
		cuts := [][]int{}
		cutsLeft := in.CutsMax
		xr := rand.New(rand.NewSource(in.Seed ^ 0x63757473))
		for k := 0; k < 100000; k++ {
			buf := bytes.NewBuffer(nil)
			done, _, err := sender.WriteObjects(buf, nil)
			if err != nil {
				return fail("write-objects")
			}
			if in.Cuts && cutsLeft > 0 {
				// the same packfile, interrupted: against the destination as it is now
				base := c07CloneStore(dst)
				for _, c := range c07CutPoints(buf.Bytes(), xr, cutsLeft) {
					cuts = append(cuts, c07ProbeCut(w, base, expected, buf.Bytes(), k, c))
					cutsLeft--
				}
			}
			pr, err := packfile.NewPackfileReader(io.NopCloser(bytes.NewReader(buf.Bytes())))
			if err != nil {
				return fail("packfile-reader")
			}
			rd, err := recv.Receive(pr, nil)
			if err != nil {
				return fail("receive")
			}
			recvDone = rd
			objs := [][]int{}
			for _, o := range pr.Info.Objects {
				sum := unhx(o[1])
				switch o[0] {
				case "block":
					objs = append(objs, []int{packfile.ObjectBlock, w.blockID[string(sum)]})
				case "table":
					objs = append(objs, []int{packfile.ObjectTable, w.tableID[string(sum)]})
				case "commit":
					objs = append(objs, []int{packfile.ObjectCommit, w.commitID[string(sum)]})
				}
			}
			packs = append(packs, objs)
			if done {
				break
			}
		}
		// what the destination holds now, and whether each object equals the source's
		identical := true
		keys := [][]int{}
		for _, k := range dst.Keys() {
			kb := []byte(k)
			switch {
			case bytes.HasPrefix(kb, []byte("blk/")):
				keys = append(keys, []int{packfile.ObjectBlock, w.blockID[k[4:]]})
			case bytes.HasPrefix(kb, []byte("tbl/")):
				keys = append(keys, []int{packfile.ObjectTable, w.tableID[k[4:]]})
			case bytes.HasPrefix(kb, []byte("com/")):
				keys = append(keys, []int{packfile.ObjectCommit, w.commitID[k[4:]]})
			default:
				continue
			}
			sv, err1 := w.src.Get(kb)
			dv, err2 := dst.Get(kb)
			if err1 != nil || err2 != nil || !bytes.Equal(sv, dv) {
				identical = false
			}
		}
		sort.Slice(keys, func(i, j int) bool {
			if keys[i][0] != keys[j][0] {
				return keys[i][0] < keys[j][0]
			}
			return keys[i][1] < keys[j][1]
		})
		// received tables: dump for the structural invariant, and diff against the original
		checks := []interface{}{}
		checkTables := in.TablesToSend
		if in.Negotiated {
			// whichever tables the negotiation selected: every table the destination holds now
			checkTables = []int{}
			for _, t := range in.Tables {
				checkTables = append(checkTables, t.ID)
			}
		}
		for _, t := range checkTables {
			sum := w.tableSum[t]
			if !objects.TableExist(dst, sum) {
				continue
			}
			d, err := DumpTable(dst, sum, true)
			if err != nil {
				checks = append(checks, map[string]interface{}{"id": t, "error": "dump"})
				continue
			}
			iss, _ := diagnoseTable(dst, sum)
			// derived objects rebuilt at the destination must equal the source's
			same := true
			for _, pfx := range []string{"tblidx/", "tblsum/"} {
				a, e1 := w.src.Get(append([]byte(pfx), sum...))
				b, e2 := dst.Get(append([]byte(pfx), sum...))
				if e1 != nil || e2 != nil || !bytes.Equal(a, b) {
					same = false
				}
			}
			// ... and so must every block index the table names: [held by the destination, same bytes as the source's]
			bis := [][]int{}
			if tb, err := objects.GetTable(dst, sum); err == nil {
				for _, bi := range tb.BlockIndices {
					key := append([]byte("blkidx/"), bi...)
					a, e1 := w.src.Get(key)
					b, e2 := dst.Get(key)
					bis = append(bis, []int{b2i(e2 == nil), b2i(e1 == nil && e2 == nil && bytes.Equal(a, b))})
				}
			}
			if len(d.Blocks) > 2 {
				// keep the line small: rows of big tables are not shipped to the oracle
				checks = append(checks, map[string]interface{}{"id": t, "issues": iss, "derivedSame": same, "blockIndices": bis, "blocks": len(d.Blocks)})
			} else {
				checks = append(checks, map[string]interface{}{"id": t, "table": d, "hashes": hashRows(d), "issues": iss, "derivedSame": same, "blockIndices": bis, "blocks": len(d.Blocks)})
			}
		}
		val := map[string]interface{}{"packs": packs, "keys": keys, "identical": identical, "done": recvDone, "tableChecks": checks}
		if neg != nil {
			val["neg"] = neg
		}
		if in.Cuts {
			val["cuts"] = cuts
		}
		return Ok(val)
	})
}

func runC07(ctx *Ctx) {
	seed := ctx.Seed*1000003 + int64(ctx.Idx)
	// one case in four is negotiated: the commit list comes from the real ClosedSetsFinder
	negotiated := ctx.Idx%4 == 3
	w, err := buildC07(seed, ctx.Thorough(), negotiated)
	if err != nil {
		ctx.Emit("xfer", map[string]interface{}{"genSeed": seed, "negotiated": negotiated}, Err("build"), false)
		return
	}
	// one case in four (and every other negotiated one) also delivers every packfile cut short
	if (ctx.Idx%4 == 1 || ctx.Idx%8 == 7) && !w.in.Dishonest {
		w.in.Cuts = true
		w.in.CutsMax = 400
	}
	// one case in three (not the dishonest-sender ones) is a repeated transfer: a first attempt had one
	// of its first writes to the destination refused
	if ctx.Idx%3 == 2 && !w.in.Dishonest && !w.in.Cuts {
		w.in.WriteFault = 1 + int((seed>>3)%14)
	}
	res := c07Run(w)
	nt := len(w.in.DstBlocks) > 0 || w.in.MaxSize > 0 && w.in.MaxSize < 3000
	tags := []string{}
	if w.in.MaxSize == 1 {
		tags = append(tags, "one-object-per-packfile")
	}
	if len(w.in.DstCommits) > 0 {
		tags = append(tags, "dest-prepopulated")
	}
	tags = append(tags, c07Tags(w.in)...)
	if w.blockEndsEmpty {
		tags = append(tags, "block-ends-with-empty-cell")
	}
	if w.rekeyed {
		tags = append(tags, "same-blocks-under-another-primary-key")
	}
	ctx.Emit("xfer", w.in, res, nt, tags...)
}

func corpusC07(ctx *Ctx, op string, raw json.RawMessage) {
	var in c07Input
	if err := json.Unmarshal(raw, &in); err != nil {
		panic(err)
	}
	w, err := buildC07(in.Seed, true, in.Negotiated)
	if err != nil {
		return
	}
	w.in.Cuts, w.in.CutsMax = in.Cuts, in.CutsMax
	w.in.WriteFault = in.WriteFault
	ctx.Emit("xfer", w.in, c07Run(w), true, append([]string{"corpus"}, c07Tags(w.in)...)...)
}

func c07Tags(in *c07Input) []string {
	tags := []string{}
	if in.Cuts {
		tags = append(tags, "cut-packfile")
	}
	if in.WriteFault > 0 {
		tags = append(tags, "repeated-after-refused-write")
	}
	if in.Negotiated {
		tags = append(tags, "negotiated")
		if in.Depth > 0 {
			tags = append(tags, "negotiated-depth")
		}
		// a merge in the wanted history: some commit is reached from the want along several paths
		byID := map[int]GCommit{}
		for _, c := range in.Commits {
			byID[c.ID] = c
		}
		seen := map[int]bool{}
		var walk func(int) bool
		walk = func(id int) bool {
			if seen[id] {
				return false
			}
			seen[id] = true
			m := len(byID[id].Parents) > 1
			for _, p := range byID[id].Parents {
				if walk(p) {
					m = true
				}
			}
			return m
		}
		for _, x := range in.Wants {
			if walk(x) {
				tags = append(tags, "negotiated-merge")
				break
			}
		}
	}
	// zones: a commit that travels was authored west of UTC in a zone that is not a whole number of hours
	travels := map[int]bool{}
	for _, c := range in.ToSend {
		travels[c] = true
	}
	dst := map[int]bool{}
	for _, c := range in.DstCommits {
		dst[c] = true
	}
	for _, z := range in.Zones {
		if (travels[z[0]] || in.Negotiated && !dst[z[0]]) && z[1] < 0 && z[1]%60 != 0 {
			tags = append(tags, "zone-west-fractional")
			break
		}
	}
	return tags
}

func b2i(b bool) int {
	if b {
		return 1
	}
	return 0
}
