package main

import (
	"bytes"
	"encoding/json"
	"fmt"
	"io"
	"math/rand"
	"sort"
	"time"

	"github.com/go-logr/logr"
	"github.com/wrgl/wrgl/pkg/api/utils"
	"github.com/wrgl/wrgl/pkg/encoding/packfile"
	"github.com/wrgl/wrgl/pkg/objects"
)

func init() {
	runners["C07"] = runC07
	corpusRunners["C07"] = corpusC07
}

type c07Table struct {
	ID     int   `json:"id"`
	Blocks []int `json:"blocks"`
}

type c07Input struct {
	Commits      []GCommit  `json:"commits"` // table field = table id
	Tables       []c07Table `json:"tables"`  // tables present at the source
	Sizes        [][]int    `json:"sizes"`   // [type, id, byte length of the object as sent]
	ToSend       []int      `json:"toSend"`
	TablesToSend []int      `json:"tablesToSend"`
	Common       []int      `json:"common"`
	MaxSize      uint64     `json:"maxSize"`
	DstBlocks    []int      `json:"dstBlocks"`
	DstTables    []int      `json:"dstTables"`
	DstCommits   []int      `json:"dstCommits"`
	Seed         int64      `json:"genSeed"` // the scenario is rebuilt from this seed on replay
	Dishonest    bool       `json:"dishonest"` // a commit needed by a later one was left out of toSend
}

type c07World struct {
	src      *MemStore
	in       *c07Input
	blockID  map[string]int
	tableID  map[string]int
	commitID map[string]int
	blockSum map[int][]byte
	tableSum map[int][]byte
	comSum   map[int][]byte
}

// buildC07 deterministically builds a source repository and a transfer scenario from a seed.
func buildC07(seed int64, thorough bool) (*c07World, error) {
	r := rand.New(rand.NewSource(seed))
	w := &c07World{src: NewMemStore(), in: &c07Input{Seed: seed}, blockID: map[string]int{}, tableID: map[string]int{}, commitID: map[string]int{},
		blockSum: map[int][]byte{}, tableSum: map[int][]byte{}, comSum: map[int][]byte{}}
	// tables: a few logical tables, some sharing blocks
	nT := 2 + r.Intn(3)
	var specs []*TableSpec
	base := GenTable(r, 2, []int{3, 20, 260, 300, 520}[r.Intn(5)], []int{0}, 0)
	for _, row := range base.Rows {
		row[1] = []string{"a", "b", "c"}[r.Intn(3)]
	}
	specs = append(specs, base)
	for len(specs) < nT {
		switch r.Intn(3) {
		case 0: // variant of base sharing its leading blocks
			v := cloneSpec(base)
			if len(v.Rows) > 0 {
				// change the row with the largest key (last block only)
				mi := 0
				for i, row := range v.Rows {
					if row[0] > v.Rows[mi][0] {
						mi = i
					}
				}
				v.Rows[mi][1] = fmt.Sprintf("v%d", len(specs))
			}
			specs = append(specs, v)
		case 1: // the base with a renamed column: a new table made entirely of blocks the base already has
			v := cloneSpec(base)
			v.Columns = append([]string{}, base.Columns...)
			v.Columns[1] = base.Columns[1] + fmt.Sprintf("_r%d", len(specs))
			specs = append(specs, v)
		default:
			t := GenTable(r, 1+r.Intn(3), 1+r.Intn(30), []int{0}, 0)
			if r.Intn(5) == 0 {
				t.Rows = nil // a header-only table: no blocks, an empty table index
			}
			specs = append(specs, t)
		}
	}
	var tsums [][]byte
	for _, s := range specs {
		sum, err := IngestCSV(w.src, s.CSV(0), s.PK, IngestCfg{})
		if err != nil {
			return nil, err
		}
		tsums = append(tsums, sum)
	}
	// distinct table sums only
	seen := map[string]bool{}
	for _, sum := range tsums {
		if seen[string(sum)] {
			continue
		}
		seen[string(sum)] = true
		id := len(w.tableID) + 1
		w.tableID[string(sum)] = id
		w.tableSum[id] = sum
		t, err := objects.GetTable(w.src, sum)
		if err != nil {
			return nil, err
		}
		ct := c07Table{ID: id, Blocks: []int{}}
		for _, b := range t.Blocks {
			bid, ok := w.blockID[string(b)]
			if !ok {
				bid = len(w.blockID) + 1
				w.blockID[string(b)] = bid
				w.blockSum[bid] = b
				raw, _ := objects.GetBlockBytes(w.src, b)
				w.in.Sizes = append(w.in.Sizes, []int{packfile.ObjectBlock, bid, len(raw)})
			}
			ct.Blocks = append(ct.Blocks, bid)
		}
		raw, _ := w.src.Get(append([]byte("tbl/"), sum...))
		w.in.Sizes = append(w.in.Sizes, []int{packfile.ObjectTable, id, len(raw)})
		w.in.Tables = append(w.in.Tables, ct)
	}
	nTab := len(w.in.Tables)
	// commits
	n := 1 + r.Intn(7)
	g := GenGraph(r, n, 0, 0.3, 0.1)
	for i := range g {
		g[i].Table = 1 + r.Intn(nTab)
	}
	for _, c := range g {
		com := &objects.Commit{Table: w.tableSum[c.Table], AuthorName: "a", AuthorEmail: "e", Time: time.Unix(c.Time, 0).UTC(), Message: "c" + itoa(c.ID)}
		for _, p := range c.Parents {
			com.Parents = append(com.Parents, w.comSum[p])
		}
		buf := newBuf()
		com.WriteTo(buf)
		sum, err := objects.SaveCommit(w.src, buf.Bytes())
		if err != nil {
			return nil, err
		}
		w.comSum[c.ID] = sum
		w.commitID[string(sum)] = c.ID
		w.in.Sizes = append(w.in.Sizes, []int{packfile.ObjectCommit, c.ID, buf.Len()})
	}
	w.in.Commits = g
	// destination: an ancestor-closed set of commits (with everything they reference), plus stray objects
	have := map[int]bool{}
	var closure func(int)
	byID := map[int]GCommit{}
	for _, c := range g {
		byID[c.ID] = c
	}
	closure = func(id int) {
		if have[id] {
			return
		}
		have[id] = true
		for _, p := range byID[id].Parents {
			closure(p)
		}
	}
	for i := 0; i < r.Intn(3); i++ {
		closure(1 + r.Intn(n))
	}
	w.in.DstCommits, w.in.DstTables, w.in.DstBlocks = []int{}, []int{}, []int{}
	dt, db := map[int]bool{}, map[int]bool{}
	for id := 1; id <= n; id++ {
		if have[id] {
			w.in.DstCommits = append(w.in.DstCommits, id)
			dt[byID[id].Table] = true
		}
	}
	for _, t := range w.in.Tables {
		if dt[t.ID] {
			for _, b := range t.Blocks {
				db[b] = true
			}
		}
	}
	// stray blocks already present (e.g. from an interrupted earlier transfer)
	for b := range w.blockSum {
		if r.Intn(5) == 0 {
			db[b] = true
		}
	}
	for t := range dt {
		w.in.DstTables = append(w.in.DstTables, t)
	}
	for b := range db {
		w.in.DstBlocks = append(w.in.DstBlocks, b)
	}
	sort.Ints(w.in.DstTables)
	sort.Ints(w.in.DstBlocks)
	// common commits: the tips of what the destination has
	w.in.Common = []int{}
	for id := range have {
		tip := true
		for _, c := range g {
			if have[c.ID] {
				for _, p := range c.Parents {
					if p == id {
						tip = false
					}
				}
			}
		}
		if tip {
			w.in.Common = append(w.in.Common, id)
		}
	}
	sort.Ints(w.in.Common)
	// to send: everything missing, parent-first (ids ascend along parent links), sometimes with a repeat
	w.in.ToSend, w.in.TablesToSend = []int{}, []int{}
	ts := map[int]bool{}
	for id := 1; id <= n; id++ {
		if !have[id] {
			w.in.ToSend = append(w.in.ToSend, id)
			if r.Intn(6) != 0 { // sometimes a commit is sent without its table (depth limit)
				ts[byID[id].Table] = true
			}
		}
	}
	if len(w.in.ToSend) > 0 && r.Intn(4) == 0 {
		k := r.Intn(len(w.in.ToSend))
		w.in.ToSend = append(w.in.ToSend[:k+1], w.in.ToSend[k:]...)
	}
	if len(w.in.ToSend) > 1 && r.Intn(5) == 0 {
		// a dishonest (or buggy) sender: one commit that a later one needs is left out; the receiver
		// must refuse the child (whichever position the missing parent has in its parent list)
		cand := []int{}
		for i, id := range w.in.ToSend {
			for _, later := range w.in.ToSend[i+1:] {
				for _, p := range byID[later].Parents {
					if p == id {
						cand = append(cand, i)
					}
				}
			}
		}
		if len(cand) > 0 {
			k := cand[r.Intn(len(cand))]
			w.in.ToSend = append(append([]int{}, w.in.ToSend[:k]...), w.in.ToSend[k+1:]...)
			w.in.Dishonest = true
		}
	}
	for t := range ts {
		w.in.TablesToSend = append(w.in.TablesToSend, t)
	}
	sort.Ints(w.in.TablesToSend)
	switch r.Intn(4) {
	case 0:
		w.in.MaxSize = 1
	case 1:
		w.in.MaxSize = 0 // default (2 GiB)
	default:
		w.in.MaxSize = uint64(20 + r.Intn(3000))
	}
	return w, nil
}

func copyKey(dst, src *MemStore, key []byte) {
	v, err := src.Get(key)
	if err == nil {
		dst.Set(key, v)
	}
}

func c07Run(w *c07World) Res {
	in := w.in
	return Guard(func() Res {
		dst := NewMemStore()
		for _, c := range in.DstCommits {
			copyKey(dst, w.src, append([]byte("com/"), w.comSum[c]...))
		}
		for _, t := range in.DstTables {
			for _, pfx := range []string{"tbl/", "tblidx/", "tblsum/"} {
				copyKey(dst, w.src, append([]byte(pfx), w.tableSum[t]...))
			}
			tb, _ := objects.GetTable(w.src, w.tableSum[t])
			for _, bi := range tb.BlockIndices {
				copyKey(dst, w.src, append([]byte("blkidx/"), bi...))
			}
		}
		for _, b := range in.DstBlocks {
			copyKey(dst, w.src, append([]byte("blk/"), w.blockSum[b]...))
		}
		var toSend []*objects.Commit
		for _, c := range in.ToSend {
			toSend = append(toSend, mustCommit(w.src, w.comSum[c]))
		}
		tts := map[string]struct{}{}
		for _, t := range in.TablesToSend {
			tts[string(w.tableSum[t])] = struct{}{}
		}
		var common [][]byte
		for _, c := range in.Common {
			common = append(common, w.comSum[c])
		}
		sender, err := apiutils.NewObjectSender(w.src, toSend, tts, common, in.MaxSize)
		if err != nil {
			return Err("new-sender")
		}
		var expected [][]byte
		for _, c := range in.ToSend {
			expected = append(expected, w.comSum[c])
		}
		recv := apiutils.NewObjectReceiver(dst, expected, logr.Discard())
		packs := [][][]int{}
		recvDone := false
		for k := 0; k < 100000; k++ {
			buf := bytes.NewBuffer(nil)
			done, _, err := sender.WriteObjects(buf, nil)
			if err != nil {
				return Err("write-objects")
			}
			pr, err := packfile.NewPackfileReader(io.NopCloser(bytes.NewReader(buf.Bytes())))
			if err != nil {
				return Err("packfile-reader")
			}
			rd, err := recv.Receive(pr, nil)
			if err != nil {
				return Err("receive")
			}
			recvDone = rd
			objs := [][]int{}
			for _, o := range pr.Info.Objects {
				sum := unhx(o[1])
				switch o[0] {
				case "block":
					objs = append(objs, []int{packfile.ObjectBlock, w.blockID[string(sum)]})
				case "table":
					objs = append(objs, []int{packfile.ObjectTable, w.tableID[string(sum)]})
				case "commit":
					objs = append(objs, []int{packfile.ObjectCommit, w.commitID[string(sum)]})
				}
			}
			packs = append(packs, objs)
			if done {
				break
			}
		}
		// what the destination holds now, and whether each object equals the source's
		identical := true
		keys := [][]int{}
		for _, k := range dst.Keys() {
			kb := []byte(k)
			switch {
			case bytes.HasPrefix(kb, []byte("blk/")):
				keys = append(keys, []int{packfile.ObjectBlock, w.blockID[k[4:]]})
			case bytes.HasPrefix(kb, []byte("tbl/")):
				keys = append(keys, []int{packfile.ObjectTable, w.tableID[k[4:]]})
			case bytes.HasPrefix(kb, []byte("com/")):
				keys = append(keys, []int{packfile.ObjectCommit, w.commitID[k[4:]]})
			default:
				continue
			}
			sv, err1 := w.src.Get(kb)
			dv, err2 := dst.Get(kb)
			if err1 != nil || err2 != nil || !bytes.Equal(sv, dv) {
				identical = false
			}
		}
		sort.Slice(keys, func(i, j int) bool {
			if keys[i][0] != keys[j][0] {
				return keys[i][0] < keys[j][0]
			}
			return keys[i][1] < keys[j][1]
		})
		// received tables: dump for the structural invariant, and diff against the original
		checks := []interface{}{}
		for _, t := range in.TablesToSend {
			sum := w.tableSum[t]
			if !objects.TableExist(dst, sum) {
				continue
			}
			d, err := DumpTable(dst, sum, true)
			if err != nil {
				checks = append(checks, map[string]interface{}{"id": t, "error": "dump"})
				continue
			}
			iss, _ := diagnoseTable(dst, sum)
			// derived objects rebuilt at the destination must equal the source's
			same := true
			for _, pfx := range []string{"tblidx/", "tblsum/"} {
				a, e1 := w.src.Get(append([]byte(pfx), sum...))
				b, e2 := dst.Get(append([]byte(pfx), sum...))
				if e1 != nil || e2 != nil || !bytes.Equal(a, b) {
					same = false
				}
			}
			if len(d.Blocks) > 2 {
				// keep the line small: rows of big tables are not shipped to the oracle
				checks = append(checks, map[string]interface{}{"id": t, "issues": iss, "derivedSame": same})
			} else {
				checks = append(checks, map[string]interface{}{"id": t, "table": d, "hashes": hashRows(d), "issues": iss, "derivedSame": same})
			}
		}
		return Ok(map[string]interface{}{"packs": packs, "keys": keys, "identical": identical, "done": recvDone, "tableChecks": checks})
	})
}

func runC07(ctx *Ctx) {
	seed := ctx.Seed*1000003 + int64(ctx.Idx)
	w, err := buildC07(seed, ctx.Thorough())
	if err != nil {
		ctx.Emit("xfer", map[string]interface{}{"genSeed": seed}, Err("build"), false)
		return
	}
	res := c07Run(w)
	nt := len(w.in.DstBlocks) > 0 || w.in.MaxSize > 0 && w.in.MaxSize < 3000
	tags := []string{}
	if w.in.MaxSize == 1 {
		tags = append(tags, "one-object-per-packfile")
	}
	if len(w.in.DstCommits) > 0 {
		tags = append(tags, "dest-prepopulated")
	}
	ctx.Emit("xfer", w.in, res, nt, tags...)
}

func corpusC07(ctx *Ctx, op string, raw json.RawMessage) {
	var in c07Input
	if err := json.Unmarshal(raw, &in); err != nil {
		panic(err)
	}
	w, err := buildC07(in.Seed, true)
	if err != nil {
		return
	}
	ctx.Emit("xfer", w.in, c07Run(w), true, "corpus")
}
