package main

import (
	"encoding/json"
	"fmt"
	"math/rand"
	"sort"
	"time"

	"github.com/go-logr/logr"
	"github.com/pckhoi/meow"
	"github.com/wrgl/wrgl/pkg/diff"
	"github.com/wrgl/wrgl/pkg/index"
	"github.com/wrgl/wrgl/pkg/merge"
	"github.com/wrgl/wrgl/pkg/misc"
	"github.com/wrgl/wrgl/pkg/objects"
)

func init() {
	runners["C05"] = runC05
	corpusRunners["C05"] = corpusC05
}

type c05Input struct {
	// all tables share Columns unless BColumns is set (column-changing branches)
	Columns  []string     `json:"columns"`
	PK       []int        `json:"pk"`
	Base     [][]string   `json:"base"`
	Branches [][][]string `json:"branches"`
	BColumns [][]string   `json:"branchColumns"` // the columns of each branch (hex), when they differ from the base's
	PKNames  []string     `json:"pkNames"`       // hex
	Specs    []*TableSpec `json:"specs"` // base then branches (for replay)
}

type c05Conflict struct {
	Key  []string `json:"key"`
	Row  []string `json:"row"`
	Cols []int    `json:"cols"`
}

type c05Result struct {
	Columns   []string      `json:"columns"`
	PK        []string      `json:"pk"`
	Conflicts []c05Conflict `json:"conflicts"`
	Rows      [][]string    `json:"rows"`
	CDNames   []string      `json:"cdNames"` // the merged layout the conflicts' rows and column indices refer to
}

func keyHash(pk []int, row []string) string {
	enc := objects.NewStrListEncoder(true)
	if len(pk) == 0 {
		s := meow.Checksum(0, enc.Encode(row))
		return string(s[:])
	}
	k := make([]string, len(pk))
	for i, p := range pk {
		k[i] = row[p]
	}
	s := meow.Checksum(0, enc.Encode(k))
	return string(s[:])
}

func keyCells(pk []int, row []string) []string {
	if len(pk) == 0 {
		return row
	}
	k := make([]string, len(pk))
	for i, p := range pk {
		k[i] = row[p]
	}
	return k
}

func c05Run(specs []*TableSpec) Res {
	return Guard(func() Res {
		db := NewMemStore()
		var sums [][]byte
		var tbls []*objects.Table
		keyOf := map[string][]string{}
		for _, s := range specs {
			sum, err := IngestCSV(db, s.CSV(0), s.PK, IngestCfg{})
			if err != nil {
				return Err("ingest")
			}
			t, err := objects.GetTable(db, sum)
			if err != nil {
				return Err("gettable")
			}
			sums = append(sums, sum)
			tbls = append(tbls, t)
			pk := s.PKIdx()
			for _, row := range s.Rows {
				keyOf[keyHash(pk, row)] = keyCells(pk, row)
			}
		}
		hs, err := index.NewHashSet(misc.NewBuffer(nil), 0)
		if err != nil {
			return Err("hashset")
		}
		collector, err := merge.NewCollector(db, tbls[0], hs)
		if err != nil {
			return Err("collector")
		}
		buf, err := diff.BlockBufferWithSingleStore(db, tbls)
		if err != nil {
			return Err("blockbuffer")
		}
		m, err := merge.NewMerger(db, collector, buf, 0, tbls[0], tbls[1:], sums[0], sums[1:], logr.Discard())
		if err != nil {
			return Err("newmerger")
		}
		ch, err := m.Start()
		if err != nil {
			return Err("start")
		}
		out := &c05Result{Conflicts: []c05Conflict{}, Rows: [][]string{}}
		timeout := hangAfter(60 * time.Second)
	loop:
		for {
			select {
			case mg, ok := <-ch:
				if !ok {
					break loop
				}
				if mg.ColDiff != nil {
					out.CDNames = hxRow(mg.ColDiff.Names)
					continue
				}
				k, found := keyOf[string(mg.PK)]
				if !found {
					return Err("unknown-pk-hash")
				}
				cols := []int{}
				for c := range mg.UnresolvedCols {
					cols = append(cols, int(c))
				}
				sort.Ints(cols)
				out.Conflicts = append(out.Conflicts, c05Conflict{Key: hxRow(k), Row: hxRow(mg.ResolvedRow), Cols: cols})
			case <-timeout:
				return Err("hang")
			}
		}
		if err := m.Error(); err != nil {
			return Err("merge-error")
		}
		sort.Slice(out.Conflicts, func(i, j int) bool {
			return fmt.Sprint(out.Conflicts[i].Key) < fmt.Sprint(out.Conflicts[j].Key)
		})
		ctx, cancel := ctxHangAfter(60*time.Second)
		defer cancel()
		rch, err := m.SortedRows(ctx, nil)
		if err != nil {
			return Err("sortedrows")
		}
		for rb := range rch {
			out.Rows = append(out.Rows, hxRows(rb.Rows)...)
		}
		if err := m.Error(); err != nil {
			return Err("sort-error")
		}
		out.Columns = hxRow(m.Columns(nil))
		out.PK = hxRow(m.PK())
		m.Close()
		return Ok(out)
	})
}

// deriveBranch applies row adds / removes / edits to the base.
func deriveBranch(r *rand.Rand, base *TableSpec, pEdit, pDel float64, nAdd int, addSeed int) *TableSpec {
	pk := base.PKIdx()
	iskey := map[int]bool{}
	for _, p := range pk {
		iskey[p] = true
	}
	out := &TableSpec{Columns: base.Columns, PK: base.PK}
	for _, row := range base.Rows {
		x := r.Float64()
		if x < pDel {
			continue
		}
		nr := append([]string{}, row...)
		if x < pDel+pEdit {
			nonkey := []int{}
			for c := range nr {
				if !iskey[c] {
					nonkey = append(nonkey, c)
				}
			}
			if len(nonkey) > 0 {
				c := nonkey[r.Intn(len(nonkey))]
				nr[c] = []string{"X", "Y", nr[c] + "'"}[r.Intn(3)]
			}
		}
		out.Rows = append(out.Rows, nr)
	}
	for i := 0; i < nAdd; i++ {
		nr := make([]string, len(base.Columns))
		for c := range nr {
			nr[c] = []string{"p", "q", ""}[r.Intn(3)]
		}
		kc := pk
		if len(kc) == 0 {
			kc = []int{0}
		}
		// new keys drawn from a small space so that two branches sometimes add the same key
		nr[kc[0]] = fmt.Sprintf("9%02d", (addSeed+r.Intn(4))%100)
		for _, k := range kc[1:] {
			nr[k] = "k"
		}
		out.Rows = append(out.Rows, nr)
	}
	// keys must stay unique
	seen := map[string]bool{}
	uniq := [][]string{}
	for _, row := range out.Rows {
		h := keyHash(pk, row)
		if !seen[h] {
			seen[h] = true
			uniq = append(uniq, row)
		}
	}
	out.Rows = uniq
	return out
}

// changeColumns applies column adds / removes / moves to a branch (never to a key column).
func changeColumns(r *rand.Rand, b *TableSpec, tag string) *TableSpec {
	out := &TableSpec{Columns: append([]string{}, b.Columns...), PK: b.PK}
	for _, row := range b.Rows {
		out.Rows = append(out.Rows, append([]string{}, row...))
	}
	iskey := func(name string) bool {
		for _, k := range out.PK {
			if k == name {
				return true
			}
		}
		return false
	}
	nOps := 1 + r.Intn(2)
	for o := 0; o < nOps; o++ {
		switch r.Intn(3) {
		case 0: // add a column at a random position
			// names are drawn from a small set so that two branches sometimes add the same column
			name := []string{"x", "y", "x" + tag}[r.Intn(3)]
			dup := false
			for _, c := range out.Columns {
				if c == name {
					dup = true
				}
			}
			if dup {
				continue
			}
			pos := r.Intn(len(out.Columns) + 1)
			out.Columns = append(out.Columns[:pos], append([]string{name}, out.Columns[pos:]...)...)
			for i, row := range out.Rows {
				v := []string{"p", "q", ""}[r.Intn(3)]
				out.Rows[i] = append(row[:pos], append([]string{v}, row[pos:]...)...)
			}
		case 1: // remove a non-key column
			cand := []int{}
			for i, c := range out.Columns {
				if !iskey(c) {
					cand = append(cand, i)
				}
			}
			if len(cand) == 0 || len(out.Columns) <= len(out.PK)+1 {
				continue
			}
			pos := cand[r.Intn(len(cand))]
			out.Columns = append(out.Columns[:pos], out.Columns[pos+1:]...)
			for i, row := range out.Rows {
				out.Rows[i] = append(row[:pos], row[pos+1:]...)
			}
		case 2: // move a column
			if len(out.Columns) < 2 {
				continue
			}
			i, j := r.Intn(len(out.Columns)), r.Intn(len(out.Columns))
			out.Columns[i], out.Columns[j] = out.Columns[j], out.Columns[i]
			for _, row := range out.Rows {
				row[i], row[j] = row[j], row[i]
			}
		}
	}
	return out
}

func c05Emit(ctx *Ctx, specs []*TableSpec, tags ...string) {
	base := specs[0]
	pk := base.PKIdx()
	sameCols := true
	for _, s := range specs[1:] {
		if fmt.Sprint(s.Columns) != fmt.Sprint(base.Columns) {
			sameCols = false
		}
	}
	in := &c05Input{Columns: hxRow(base.Columns), PK: pk, Base: hxRows(base.Rows), Specs: specs}
	if in.Base == nil {
		in.Base = [][]string{}
	}
	for _, s := range specs[1:] {
		rows := hxRows(s.Rows)
		if rows == nil {
			rows = [][]string{}
		}
		in.Branches = append(in.Branches, rows)
		in.BColumns = append(in.BColumns, hxRow(s.Columns))
	}
	in.PKNames = hxRow(base.PK)
	if in.PKNames == nil {
		in.PKNames = []string{}
	}
	if sameCols {
		tags = append(tags, "same-cols")
	} else {
		tags = append(tags, "col-change")
	}
	prefix := len(pk) > 0
	for i, p := range pk {
		if p != i {
			prefix = false
		}
	}
	switch {
	case len(pk) == 0:
		tags = append(tags, "keyless")
	case prefix:
		tags = append(tags, "pk-prefix")
	default:
		tags = append(tags, "pk-elsewhere")
	}
	tags = append(tags, fmt.Sprintf("n=%d", len(specs)-1))
	res := c05Run(specs)
	nt := false
	if res["res"] == "ok" {
		o := res["val"].(*c05Result)
		nt = len(o.Conflicts) > 0 || len(base.Rows) > 255
		if len(o.Conflicts) > 0 {
			tags = append(tags, "has-conflict")
		}
	}
	ctx.Emit("merge", in, res, nt || len(base.Rows) > 3, tags...)
}

func runC05(ctx *Ctx) {
	r := ctx.R
	if ctx.Idx%10 == 9 {
		runC05CLI(ctx)
		// every other one carries a second case: the merge laws over a commit history, through the command line
		if ctx.Idx%20 == 19 {
			runC05Hist(ctx)
		} else {
			// the others: a history with three heads, merged at once by `wrgl pull` (c05pull.go)
			runC05Pull(ctx)
		}
		return
	}
	nCols := 2 + r.Intn(3)
	var pk []int
	switch r.Intn(10) {
	case 0:
		pk = []int{}
	case 1, 2:
		pk = []int{1 + r.Intn(nCols-1)}
	case 3:
		pk = []int{0, 1}
	default:
		pk = []int{0}
	}
	n := 3 + r.Intn(25)
	if r.Intn(12) == 0 {
		n = 250 + r.Intn(300)
	}
	base := GenTable(r, nCols, n, pk, 0)
	// plain cells so that edits are visible in replays
	for _, row := range base.Rows {
		iskey := map[int]bool{}
		for _, p := range pk {
			iskey[p] = true
		}
		if len(pk) == 0 {
			iskey[0] = true
		}
		for c := range row {
			if !iskey[c] {
				row[c] = []string{"a", "b", "c", ""}[r.Intn(4)]
			}
		}
	}
	if len(pk) > 0 && len(base.Rows) > 0 && r.Intn(4) == 0 {
		// one row whose key is all empty strings (it sorts first)
		i := r.Intn(len(base.Rows))
		for _, p := range pk {
			base.Rows[i][p] = ""
		}
	}
	nb := 2
	if r.Intn(4) == 0 {
		nb = 3
	}
	specs := []*TableSpec{base}
	mode := r.Intn(5)
	for j := 0; j < nb; j++ {
		var b *TableSpec
		switch mode {
		case 0: // one branch equals base (identity law)
			if j == 0 {
				b = deriveBranch(r, base, 0.3, 0.2, r.Intn(3), 10)
			} else {
				b = deriveBranch(r, base, 0, 0, 0, 0)
			}
		case 1: // all branches equal (idempotence law)
			if j == 0 {
				b = deriveBranch(r, base, 0.3, 0.2, r.Intn(3), 10)
			} else {
				b = &TableSpec{Columns: specs[1].Columns, PK: specs[1].PK, Rows: specs[1].Rows}
			}
		default:
			b = deriveBranch(r, base, 0.25, 0.15, r.Intn(3), 10+5*r.Intn(2))
		}
		specs = append(specs, b)
	}
	if len(pk) > 0 && r.Intn(4) == 0 {
		// column-changing branches (the base keeps its columns)
		for j := 1; j < len(specs); j++ {
			if r.Intn(3) != 0 {
				specs[j] = changeColumns(r, specs[j], fmt.Sprint(j))
			}
		}
	}
	c05Emit(ctx, specs, fmt.Sprintf("mode=%d", mode))
	// second cases, chosen by the case index alone (no draw precedes the ones above)
	switch ctx.Idx % 10 {
	case 3:
		// the same tuple over a header-only base: a table with no row has no block and an empty table index
		c05Emit(ctx, c05OverEmptyBase(specs), fmt.Sprintf("mode=%d", mode), "empty-base")
	case 4:
		// what `wrgl merge` delivers (--no-gui / --no-commit / commit), also with an object missing
		if j := ctx.Idx / 10; !ctx.Thorough() || j%4 == 0 {
			if ctx.Thorough() {
				j /= 4
			}
			runC05Fault(ctx, j)
		}
	case 5, 7:
		// a table of several blocks in which the branches change a handful of rows only
		sp, stags := c05GenSparse(r)
		c05Emit(ctx, sp, stags...)
	}
}

// c05GenSparse: what merging edits of a big table looks like. The base spans 2..4 blocks (the last one
// of 1, 2, 128, 254 or 255 rows) and the branches differ from it in 1..4 rows only, each placed in a
// block drawn uniformly (block edges favoured), so that most blocks are touched by no branch or by a
// single change. Every changed row follows one scenario, drawn per row: removed by every branch /
// by one / by all but one; the same edit in every branch / an edit in one; two different edits
// (conflict); removed here and edited there (conflict). Half of the cases also add a row in one or in
// all branches. Key in front (single or composite), same columns.
func c05GenSparse(r *rand.Rand) ([]*TableSpec, []string) {
	nCols := 3 + r.Intn(2)
	pk := []int{0}
	if r.Intn(4) == 0 {
		pk = []int{0, 1}
	}
	blocks := 2 + r.Intn(3)
	n := 255*(blocks-1) + []int{1, 2, 128, 254, 255}[r.Intn(5)]
	base := GenTable(r, nCols, n, pk, 0)
	iskey := map[int]bool{}
	for _, p := range pk {
		iskey[p] = true
	}
	var nonkey []int
	for c := 0; c < nCols; c++ {
		if !iskey[c] {
			nonkey = append(nonkey, c)
		}
	}
	// GenTable numbers the keys 0..n-1 in a random row order: byRank[v] is the row that sorts v-th
	byRank := make([]int, n)
	for i, row := range base.Rows {
		for _, c := range nonkey {
			row[c] = []string{"a", "b", "c", ""}[r.Intn(4)]
		}
		v := 0
		if len(pk) == 1 {
			fmt.Sscanf(row[pk[0]], "%d", &v)
		} else {
			hi, lo := 0, 0
			fmt.Sscanf(row[pk[0]], "%d", &hi)
			fmt.Sscanf(row[pk[1]], "%d", &lo)
			v = hi*37 + lo
		}
		byRank[v] = i
	}
	nb := 2
	if r.Intn(3) == 0 {
		nb = 3
	}
	// per branch: row index -> nil (removed) or the edited row
	changes := make([]map[int][]string, nb)
	for j := range changes {
		changes[j] = map[int][]string{}
	}
	edit := func(i int, mark string) []string {
		nr := append([]string{}, base.Rows[i]...)
		c := nonkey[r.Intn(len(nonkey))]
		nr[c] = nr[c] + mark
		return nr
	}
	scen := map[string]bool{}
	taken := map[int]bool{}
	for t, nT := 0, 1+r.Intn(4); t < nT; t++ {
		blk := r.Intn(blocks)
		lo, hi := blk*255, blk*255+255
		if hi > n {
			hi = n
		}
		rank := lo + r.Intn(hi-lo)
		switch r.Intn(4) {
		case 0:
			rank = lo
		case 1:
			rank = hi - 1
		}
		if taken[rank] {
			continue
		}
		taken[rank] = true
		i := byRank[rank]
		one, other := r.Intn(nb), 0
		if nb > 1 {
			other = (one + 1 + r.Intn(nb-1)) % nb
		}
		switch r.Intn(9) {
		case 0, 1:
			scen["removed-by-all"] = true
			for j := 0; j < nb; j++ {
				changes[j][i] = nil
			}
		case 2:
			scen["removed-by-one"] = true
			changes[one][i] = nil
		case 3:
			scen["removed-by-all-but-one"] = true
			for j := 0; j < nb; j++ {
				if j != one {
					changes[j][i] = nil
				}
			}
		case 4, 5:
			scen["same-edit-by-all"] = true
			nr := edit(i, "'")
			for j := 0; j < nb; j++ {
				changes[j][i] = nr
			}
		case 6:
			scen["edit-by-one"] = true
			changes[one][i] = edit(i, "'")
		case 7:
			scen["different-edits"] = true
			changes[one][i] = edit(i, "'")
			nr := append([]string{}, base.Rows[i]...)
			nr[nonkey[0]] += "!"
			changes[other][i] = nr
		default:
			scen["removed-vs-edited"] = true
			changes[one][i] = nil
			changes[other][i] = edit(i, "'")
		}
	}
	var added []string
	addTo := -1 // every branch
	if r.Intn(2) == 0 {
		added = make([]string, nCols)
		for c := range added {
			added[c] = []string{"p", "q", ""}[r.Intn(3)]
		}
		v := n + r.Intn(20)
		if len(pk) == 1 {
			added[pk[0]] = fmt.Sprintf("%04d", v)
		} else {
			added[pk[0]], added[pk[1]] = fmt.Sprintf("%02d", v/37), fmt.Sprintf("%02d", v%37)
		}
		if r.Intn(2) == 0 {
			addTo = r.Intn(nb)
			scen["added-by-one"] = true
		} else {
			scen["added-by-all"] = true
		}
	}
	specs := []*TableSpec{base}
	for j := 0; j < nb; j++ {
		b := &TableSpec{Columns: base.Columns, PK: base.PK}
		for i, row := range base.Rows {
			if ch, ok := changes[j][i]; ok {
				if ch != nil {
					b.Rows = append(b.Rows, ch)
				}
				continue
			}
			b.Rows = append(b.Rows, row)
		}
		if added != nil && (addTo < 0 || addTo == j) {
			b.Rows = append(b.Rows, added)
		}
		specs = append(specs, b)
	}
	tags := []string{"sparse", fmt.Sprintf("blocks=%d", blocks)}
	for _, k := range []string{"removed-by-all", "removed-by-one", "removed-by-all-but-one", "same-edit-by-all", "edit-by-one", "different-edits", "removed-vs-edited", "added-by-one", "added-by-all"} {
		if scen[k] {
			tags = append(tags, k)
		}
	}
	return specs, tags
}

// c05OverEmptyBase re-bases a tuple on the header-only table: every branch keeps the rows it added or
// edited (now all additions: the same key in two branches is the same addition or a conflict), a
// branch equal to the base becomes header-only as well (merge(base; X, base) = X), equal branches stay equal.
func c05OverEmptyBase(specs []*TableSpec) []*TableSpec {
	base := specs[0]
	inBase := map[string]bool{}
	for _, row := range base.Rows {
		inBase[fmt.Sprintf("%q", row)] = true
	}
	out := []*TableSpec{{Columns: base.Columns, PK: base.PK}}
	for _, s := range specs[1:] {
		b := &TableSpec{Columns: s.Columns, PK: s.PK}
		same := fmt.Sprint(s.Columns) == fmt.Sprint(base.Columns)
		for _, row := range s.Rows {
			if same && inBase[fmt.Sprintf("%q", row)] {
				continue
			}
			b.Rows = append(b.Rows, row)
		}
		out = append(out, b)
	}
	return out
}

func corpusC05(ctx *Ctx, op string, raw json.RawMessage) {
	if op == "merge-cli-pull" {
		var p c05PInput
		if err := json.Unmarshal(raw, &p); err != nil {
			panic(err)
		}
		c05PullEmit(ctx, &p, "corpus")
		return
	}
	if op == "merge-cli-hist" {
		var h c05HInput
		if err := json.Unmarshal(raw, &h); err != nil {
			panic(err)
		}
		c05HistEmit(ctx, &h, "corpus")
		return
	}
	var in c05Input
	if err := json.Unmarshal(raw, &in); err != nil {
		panic(err)
	}
	if op == "merge-cli-deliver" {
		var f c05FInput
		if err := json.Unmarshal(raw, &f); err != nil {
			panic(err)
		}
		c05FEmit(ctx, &f, "corpus")
		return
	}
	if op == "merge-cli" {
		if len(in.Specs) == 3 {
			c05CLIEmit(ctx, in.Specs, "corpus")
		}
		return
	}
	if len(in.Specs) >= 3 {
		c05Emit(ctx, in.Specs, "corpus")
	}
}
