package main

import (
	"encoding/binary"
	"encoding/json"
	"errors"
	"io"
	"math/rand"
	"os"
	"strconv"

	"github.com/wrgl/wrgl/pkg/index"
)

func init() {
	runners["C20"] = runC20
	corpusRunners["C20"] = corpusC20
}

type c20Input struct {
	BatchSize uint32     `json:"batchSize"`
	Ops       [][]string `json:"ops"`
}

type c20File struct {
	Fanout  []uint32 `json:"fanout"`
	Entries []string `json:"entries"`
}

func readHSFile(path string) (*c20File, error) {
	b, err := os.ReadFile(path)
	if err != nil {
		return nil, err
	}
	f := &c20File{Fanout: []uint32{}, Entries: []string{}}
	if len(b) == 0 {
		return f, nil
	}
	for i := 0; i < 256 && 4*i+4 <= len(b); i++ {
		f.Fanout = append(f.Fanout, binary.BigEndian.Uint32(b[4*i:]))
	}
	for off := 1024; off+16 <= len(b); off += 16 {
		f.Entries = append(f.Entries, hx(b[off:off+16]))
	}
	return f, nil
}

// c20FaultFile is the file handed to the hash set: an *os.File that can be armed to fail ONE read.
// The fault is a transient read error in the look-up phase of an operation: the n-th Read that is
// positioned inside the fan-out table (file offset < 1024) after arming fails, provided the
// operation has written nothing yet (the first Write disarms it). So a fired fault always means:
// the operation failed before its first write, the file is byte for byte what it was. (Reads of the
// entry region are left alone: insertIndex turns an error there into a panic inside sort.Search.)
type c20FaultFile struct {
	f      *os.File
	pos    int64
	armed  int // fail the armed-th fan-out read from now; 0 = not armed
	fired  bool
	writes int // writes since arming
}

var c20ErrInjected = errors.New("injected read error")

func (w *c20FaultFile) arm(n int) { w.armed, w.fired, w.writes = n, false, 0 }
func (w *c20FaultFile) disarm() (fired bool, writes int) {
	fired, writes = w.fired, w.writes
	w.armed, w.fired, w.writes = 0, false, 0
	return
}
func (w *c20FaultFile) Seek(off int64, whence int) (int64, error) {
	p, err := w.f.Seek(off, whence)
	if err == nil {
		w.pos = p
	}
	return p, err
}
func (w *c20FaultFile) Read(b []byte) (int, error) {
	if w.armed > 0 && w.writes == 0 && w.pos < 1024 {
		w.armed--
		if w.armed == 0 {
			w.fired = true
			return 0, c20ErrInjected
		}
	}
	n, err := w.f.Read(b)
	w.pos += int64(n)
	return n, err
}
func (w *c20FaultFile) Write(b []byte) (int, error) {
	w.writes++
	n, err := w.f.Write(b)
	w.pos += int64(n)
	return n, err
}
func (w *c20FaultFile) Close() error { return w.f.Close() }

var _ index.ReadWriteSeekCloser = (*c20FaultFile)(nil)
var _ io.ReadWriteSeeker = (*c20FaultFile)(nil)

func c20Run(in *c20Input) Res {
	dir := privateTmp()
	f0, err := os.CreateTemp(dir, "hashset_")
	if err != nil {
		panic(err)
	}
	path := f0.Name()
	defer os.Remove(path)
	f := &c20FaultFile{f: f0}
	return Guard(func() Res {
		hs, err := index.NewHashSet(f, in.BatchSize)
		if err != nil {
			return Err("new")
		}
		out := []interface{}{}
		for _, op := range in.Ops {
			switch op[0] {
			case "add":
				if err := hs.Add(unhx(op[1])); err != nil {
					out = append(out, "err")
				} else {
					out = append(out, "ok")
				}
			case "flush":
				if err := hs.Flush(); err != nil {
					out = append(out, "err")
				} else {
					img, err := readHSFile(path)
					if err != nil {
						return Err("readfile")
					}
					out = append(out, img)
				}
			case "flushfault":
				// ["flushfault", n]: a Flush during which the n-th fan-out read fails once, if it
				// comes before the flush's first write (c20FaultFile). When the fault fired the
				// record says so, with the number of writes the failed flush had made (always 0)
				// and what Flush returned; otherwise the record is that of a plain flush.
				f.arm(c20Atoi(op[1]))
				ferr := hs.Flush()
				fired, writes := f.disarm()
				var res interface{} = "err"
				if ferr == nil {
					img, err := readHSFile(path)
					if err != nil {
						return Err("readfile")
					}
					res = img
				}
				if fired {
					out = append(out, map[string]interface{}{"fired": true, "writes": writes, "res": res})
				} else {
					out = append(out, res)
				}
			case "addfault":
				// ["addfault", h]: an Add whose first read fails (always a fan-out read)
				f.arm(1)
				aerr := hs.Add(unhx(op[1]))
				fired, _ := f.disarm()
				if !fired {
					return Err("fault-not-fired")
				}
				if aerr != nil {
					out = append(out, "err")
				} else {
					out = append(out, "ok")
				}
			case "has":
				ok, err := hs.Has(unhx(op[1]))
				if err != nil {
					out = append(out, "err")
				} else {
					out = append(out, ok)
				}
			case "reopen":
				if err := hs.Close(); err != nil {
					return Err("close")
				}
				f2, err := os.OpenFile(path, os.O_RDWR, 0600)
				if err != nil {
					return Err("reopen")
				}
				f = &c20FaultFile{f: f2}
				hs, err = index.NewHashSet(f, in.BatchSize)
				if err != nil {
					return Err("new")
				}
				out = append(out, hs.Len())
			}
		}
		hs.Close()
		return Ok(out)
	})
}

func genC20(r *rand.Rand, thorough bool) *c20Input {
	// a small hash space sharing first bytes, 0x00 and 0xff included
	nSpace := 6 + r.Intn(10)
	firsts := []byte{0x00, 0xff, 0x01, 0x7f, 0x80, 0xfe, byte(r.Intn(256))}
	space := make([][]byte, nSpace)
	for i := range space {
		h := make([]byte, 16)
		h[0] = firsts[r.Intn(len(firsts))]
		if r.Intn(2) == 0 {
			h[1] = byte(r.Intn(3))
			h[15] = byte(r.Intn(4))
		} else {
			for k := 1; k < 16; k++ {
				h[k] = byte(r.Intn(256))
			}
		}
		space[i] = h
	}
	if r.Intn(8) == 0 {
		// many hashes sharing a first byte, added in one batch: more than 255 land in one fan-out bucket per flush
		in := &c20Input{BatchSize: []uint32{0, 400, 1000}[r.Intn(3)]}
		first := firsts[r.Intn(len(firsts))]
		k := 256 + r.Intn(80)
		mk := func(i int) string {
			h := make([]byte, 16)
			h[0] = first
			h[1] = byte(i >> 8)
			h[2] = byte(i)
			h[9] = byte(i * 7)
			return hx(h)
		}
		for _, i := range r.Perm(k) {
			in.Ops = append(in.Ops, []string{"add", mk(i)})
		}
		in.Ops = append(in.Ops, []string{"flush"})
		if r.Intn(2) == 0 {
			in.Ops = append(in.Ops, []string{"reopen"})
		}
		for i := 0; i < k+5; i += 1 + r.Intn(4) {
			in.Ops = append(in.Ops, []string{"has", mk(i)})
		}
		if r.Intn(2) == 0 {
			// later, smaller batches land below, inside and above the long stored run (every stored entry
			// above the insertion point moves up by the size of the batch, less than the run's own length);
			// every member is probed afterwards, and once more after a reopen
			rounds := 1 + r.Intn(3)
			extra := []string{}
			for j := 0; j < rounds; j++ {
				m := []int{1, 2, 3, 5, 17, 63, 64, 65, 130}[r.Intn(9)]
				var f byte
				switch r.Intn(3) {
				case 0: // below the run: a smaller first byte when there is one, else smaller second bytes cannot exist, so inside
					f = first / 2
				case 1:
					f = first
				default:
					f = first + (255-first)/2 + (255-first)%2
				}
				for q := 0; q < m; q++ {
					h := make([]byte, 16)
					h[0] = f
					h[1] = byte(r.Intn(2))
					h[2] = byte(r.Intn(256))
					h[3] = byte(1 + r.Intn(255)) // differs from every mk(i), whose h[3] is 0
					h[15] = byte(j)
					extra = append(extra, hx(h))
					in.Ops = append(in.Ops, []string{"add", hx(h)})
				}
				in.Ops = append(in.Ops, []string{"flush"})
				if r.Intn(3) == 0 {
					in.Ops = append(in.Ops, []string{"reopen"})
				}
			}
			for pass := 0; pass < 2; pass++ {
				for i := 0; i < k+2; i++ {
					in.Ops = append(in.Ops, []string{"has", mk(i)})
				}
				for _, e := range extra {
					in.Ops = append(in.Ops, []string{"has", e})
				}
				if pass == 0 {
					in.Ops = append(in.Ops, []string{"reopen"})
				}
			}
		}
		return in
	}
	in := &c20Input{}
	switch r.Intn(4) {
	case 0:
		in.BatchSize = 1
	case 1:
		in.BatchSize = 0
	default:
		in.BatchSize = uint32(1 + r.Intn(8))
	}
	n := 5 + r.Intn(30)
	if thorough {
		n = 5 + r.Intn(80)
	}
	for i := 0; i < n; i++ {
		h := hx(space[r.Intn(nSpace)])
		switch x := r.Intn(10); {
		case x < 5:
			in.Ops = append(in.Ops, []string{"add", h})
		case x < 7:
			in.Ops = append(in.Ops, []string{"has", h})
		case x < 9:
			in.Ops = append(in.Ops, []string{"flush"})
			if r.Intn(2) == 0 {
				in.Ops = append(in.Ops, []string{"has", hx(space[r.Intn(nSpace)])})
			}
		default:
			in.Ops = append(in.Ops, []string{"flush"}, []string{"reopen"})
		}
	}
	in.Ops = append(in.Ops, []string{"flush"})
	for _, h := range space {
		in.Ops = append(in.Ops, []string{"has", hx(h)})
	}
	in.Ops = append(in.Ops, []string{"reopen"})
	for _, h := range space {
		in.Ops = append(in.Ops, []string{"has", hx(h)})
	}
	return in
}

func c20Nontrivial(in *c20Input) bool {
	// a repeat within one batch, or an insert between existing entries after a flush
	seen := map[string]bool{}
	pending := map[string]bool{}
	flushed := 0
	for _, op := range in.Ops {
		switch op[0] {
		case "add":
			if pending[op[1]] {
				return true
			}
			if flushed > 0 && !seen[op[1]] {
				return true
			}
			pending[op[1]] = true
			seen[op[1]] = true
		case "flush":
			flushed += len(pending)
			pending = map[string]bool{}
		}
	}
	return false
}

func c20Atoi(s string) int { n, _ := strconv.Atoi(s); return n }

// genC20Fault: a sequence of genC20 in which flushes and adds meet a transient read error and are
// retried: ["flushfault", n] in front of a flush of the sequence (which is then the retry), and
// ["addfault", h] in front of an add of the same hash. Batch size 1 (nothing is ever pending at a
// flush) becomes the default.
func genC20Fault(r *rand.Rand, thorough bool) *c20Input {
	in := genC20(r, thorough)
	if in.BatchSize == 1 {
		in.BatchSize = 0
	}
	ops := [][]string{}
	pending := 0
	for _, op := range in.Ops {
		switch op[0] {
		case "add":
			if r.Intn(8) == 0 {
				ops = append(ops, []string{"addfault", op[1]})
			}
			pending++
		case "flush":
			if pending > 0 && r.Intn(3) != 0 {
				// any fan-out read of the look-ups (two per pending hash at most), now and then one too far
				n := 1 + r.Intn(2*pending+1)
				if r.Intn(3) == 0 {
					n = 1 + r.Intn(3)
				}
				ops = append(ops, []string{"flushfault", itoa(n)})
				if r.Intn(4) == 0 {
					ops = append(ops, []string{"flushfault", itoa(1 + r.Intn(3))})
				}
			}
			pending = 0
		}
		ops = append(ops, op)
	}
	in.Ops = ops
	return in
}

// ---------------------------------------------------------------------------------------------
// "bulk": batches far larger than the default one (batchSize is a caller-supplied uint32), with
// tens of thousands of hashes in one fan-out bucket in a single flush — counts that no longer fit
// 16 bits. The hashes are named by an index i (c20BulkHash) so that the input stays small; the Lean
// driver expands them the same way (Driver/C20.lean, bulkHash) and judges the case by the
// property's own words: after a flush the file holds exactly the added hashes, sorted, with a
// consistent fan-out table; Has answers membership; a reopened handle reports the same.
// Steps: ["adds", lo, n, mul] adds hash(lo + (j*mul mod n)) for j = 0..n-1 (mul coprime to n: a
// permutation of lo..lo+n-1), ["flush"], ["reopen"], ["has", i].
// ---------------------------------------------------------------------------------------------

type c20BulkInput struct {
	BatchSize uint32  `json:"batchSize"`
	First     int     `json:"first"`
	Steps     [][]int `json:"steps"` // [kind, args...]: 0 adds lo n mul, 1 flush, 2 reopen, 3 has i
}

// c20BulkHash: first byte = first + (i >> 20) mod 256 — indices below 2^20 share the first byte —
// then the low 20 bits big-endian in bytes 1..3, and two bytes depending on i further back.
func c20BulkHash(first, i int) []byte {
	h := make([]byte, 16)
	h[0] = byte(first + (i >> 20))
	lo := i & 0xfffff
	h[1], h[2], h[3] = byte(lo>>16), byte(lo>>8), byte(lo)
	h[9] = byte(i * 7)
	h[15] = byte(i >> 3)
	return h
}

func c20Gcd(a, b int) int {
	for b != 0 {
		a, b = b, a%b
	}
	return a
}

func genC20Bulk(r *rand.Rand) *c20BulkInput {
	in := &c20BulkInput{First: []int{0x00, 0xff, 0x01, 0x7f, 0x80, 0xfe, r.Intn(256)}[r.Intn(7)]}
	n := 65536 + 1 + r.Intn(300) // one more than 16 bits hold, and a little above
	if r.Intn(4) == 0 {
		n = 65536 // exactly 2^16
	}
	in.BatchSize = []uint32{1 << 17, 100000, uint32(n + 40), uint32(n + 12)}[r.Intn(4)]
	perm := func(lo, n int) []int {
		mul := 1
		if n > 2 {
			for {
				mul = 1 + r.Intn(n-1)
				if c20Gcd(mul, n) == 1 {
					break
				}
			}
		}
		return []int{0, lo, n, mul}
	}
	other := []int{1 << 20, 2 << 20, 128 << 20, 255 << 20} // first bytes first+1, first+2, first+128, first-1
	probes := []int{0, 1, n - 1, n, n + 1, 65535, 65536, 4095, 4096}
	if r.Intn(2) == 0 {
		// some entries are in the file already (flushed on their own): the big batch lands between them
		pre := 1 + r.Intn(40)
		in.Steps = append(in.Steps, perm(n/2, pre), perm(other[0]+3, 1+r.Intn(3)), []int{1})
	}
	in.Steps = append(in.Steps, perm(0, n))
	for _, o := range other {
		if r.Intn(2) == 0 {
			k := 1 + r.Intn(4)
			in.Steps = append(in.Steps, perm(o, k))
			probes = append(probes, o, o+k-1, o+k)
		} else {
			probes = append(probes, o)
		}
	}
	if r.Intn(3) == 0 {
		in.Steps = append(in.Steps, perm(n/3, 5)) // repeats of hashes pending in the same batch
	}
	in.Steps = append(in.Steps, []int{1})
	for i := 0; i < 12; i++ {
		probes = append(probes, r.Intn(n+50))
	}
	for _, p := range probes {
		in.Steps = append(in.Steps, []int{3, p})
	}
	in.Steps = append(in.Steps, []int{2})
	for _, p := range probes {
		in.Steps = append(in.Steps, []int{3, p})
	}
	if r.Intn(2) == 0 {
		// a second, small batch on the reopened file, then the sweep again
		in.Steps = append(in.Steps, perm(n+7, 3), []int{1})
		for _, p := range probes {
			in.Steps = append(in.Steps, []int{3, p})
		}
		in.Steps = append(in.Steps, []int{3, n + 8})
	}
	return in
}

func c20RunBulk(in *c20BulkInput) Res {
	dir := privateTmp()
	f, err := os.CreateTemp(dir, "hashset_")
	if err != nil {
		panic(err)
	}
	path := f.Name()
	defer os.Remove(path)
	return Guard(func() Res {
		hs, err := index.NewHashSet(f, in.BatchSize)
		if err != nil {
			return Err("new")
		}
		out := []interface{}{}
		for _, st := range in.Steps {
			switch st[0] {
			case 0:
				lo, n, mul := st[1], st[2], st[3]
				var res interface{} = "ok"
				for j := 0; j < n; j++ {
					if err := hs.Add(c20BulkHash(in.First, lo+(j*mul)%n)); err != nil {
						res = "err"
						break
					}
				}
				out = append(out, res)
			case 1:
				if err := hs.Flush(); err != nil {
					out = append(out, "err")
				} else {
					img, err := readHSFile(path)
					if err != nil {
						return Err("readfile")
					}
					out = append(out, img)
				}
			case 2:
				if err := hs.Close(); err != nil {
					return Err("close")
				}
				f2, err := os.OpenFile(path, os.O_RDWR, 0600)
				if err != nil {
					return Err("reopen")
				}
				hs, err = index.NewHashSet(f2, in.BatchSize)
				if err != nil {
					return Err("new")
				}
				out = append(out, hs.Len())
			case 3:
				ok, err := hs.Has(c20BulkHash(in.First, st[1]))
				if err != nil {
					out = append(out, "err")
				} else {
					out = append(out, ok)
				}
			}
		}
		hs.Close()
		return Ok(out)
	})
}

func runC20(ctx *Ctx) {
	// one case in 400: a batch of more than 65535 hashes of one fan-out bucket ("bulk")
	if ctx.Idx%400 == 137 {
		in := genC20Bulk(ctx.R)
		ctx.Emit("bulk", in, c20RunBulk(in), true, "bulk")
		return
	}
	// one case in 5: flushes and adds that meet a transient read error and are retried
	if ctx.Idx%5 == 3 {
		in := genC20Fault(ctx.R, ctx.Thorough())
		ctx.Emit("ops", in, c20Run(in), c20Nontrivial(in), "read-fault")
		return
	}
	in := genC20(ctx.R, ctx.Thorough())
	ctx.Emit("ops", in, c20Run(in), c20Nontrivial(in))
}

func corpusC20(ctx *Ctx, op string, raw json.RawMessage) {
	if op == "bulk" {
		var in c20BulkInput
		if err := json.Unmarshal(raw, &in); err != nil {
			panic(err)
		}
		ctx.Emit("bulk", &in, c20RunBulk(&in), true, "corpus")
		return
	}
	var in c20Input
	if err := json.Unmarshal(raw, &in); err != nil {
		panic(err)
	}
	ctx.Emit("ops", &in, c20Run(&in), true, "corpus")
}
