package main

import (
	"encoding/binary"
	"encoding/json"
	"math/rand"
	"os"

	"github.com/wrgl/wrgl/pkg/index"
)

func init() {
	runners["C20"] = runC20
	corpusRunners["C20"] = corpusC20
}

type c20Input struct {
	BatchSize uint32     `json:"batchSize"`
	Ops       [][]string `json:"ops"`
}

type c20File struct {
	Fanout  []uint32 `json:"fanout"`
	Entries []string `json:"entries"`
}

func readHSFile(path string) (*c20File, error) {
	b, err := os.ReadFile(path)
	if err != nil {
		return nil, err
	}
	f := &c20File{Fanout: []uint32{}, Entries: []string{}}
	if len(b) == 0 {
		return f, nil
	}
	for i := 0; i < 256 && 4*i+4 <= len(b); i++ {
		f.Fanout = append(f.Fanout, binary.BigEndian.Uint32(b[4*i:]))
	}
	for off := 1024; off+16 <= len(b); off += 16 {
		f.Entries = append(f.Entries, hx(b[off:off+16]))
	}
	return f, nil
}

func c20Run(in *c20Input) Res {
	dir := privateTmp()
	f, err := os.CreateTemp(dir, "hashset_")
	if err != nil {
		panic(err)
	}
	path := f.Name()
	defer os.Remove(path)
	return Guard(func() Res {
		hs, err := index.NewHashSet(f, in.BatchSize)
		if err != nil {
			return Err("new")
		}
		out := []interface{}{}
		for _, op := range in.Ops {
			switch op[0] {
			case "add":
				if err := hs.Add(unhx(op[1])); err != nil {
					out = append(out, "err")
				} else {
					out = append(out, "ok")
				}
			case "flush":
				if err := hs.Flush(); err != nil {
					out = append(out, "err")
				} else {
					img, err := readHSFile(path)
					if err != nil {
						return Err("readfile")
					}
					out = append(out, img)
				}
			case "has":
				ok, err := hs.Has(unhx(op[1]))
				if err != nil {
					out = append(out, "err")
				} else {
					out = append(out, ok)
				}
			case "reopen":
				if err := hs.Close(); err != nil {
					return Err("close")
				}
				f2, err := os.OpenFile(path, os.O_RDWR, 0600)
				if err != nil {
					return Err("reopen")
				}
				hs, err = index.NewHashSet(f2, in.BatchSize)
				if err != nil {
					return Err("new")
				}
				out = append(out, hs.Len())
			}
		}
		hs.Close()
		return Ok(out)
	})
}

func genC20(r *rand.Rand, thorough bool) *c20Input {
	// a small hash space sharing first bytes, 0x00 and 0xff included
	nSpace := 6 + r.Intn(10)
	firsts := []byte{0x00, 0xff, 0x01, 0x7f, 0x80, 0xfe, byte(r.Intn(256))}
	space := make([][]byte, nSpace)
	for i := range space {
		h := make([]byte, 16)
		h[0] = firsts[r.Intn(len(firsts))]
		if r.Intn(2) == 0 {
			h[1] = byte(r.Intn(3))
			h[15] = byte(r.Intn(4))
		} else {
			for k := 1; k < 16; k++ {
				h[k] = byte(r.Intn(256))
			}
		}
		space[i] = h
	}
	if r.Intn(8) == 0 {
		// many hashes sharing a first byte, added in one batch: more than 255 land in one fan-out bucket per flush
		in := &c20Input{BatchSize: []uint32{0, 400, 1000}[r.Intn(3)]}
		first := firsts[r.Intn(len(firsts))]
		k := 256 + r.Intn(80)
		mk := func(i int) string {
			h := make([]byte, 16)
			h[0] = first
			h[1] = byte(i >> 8)
			h[2] = byte(i)
			h[9] = byte(i * 7)
			return hx(h)
		}
		for _, i := range r.Perm(k) {
			in.Ops = append(in.Ops, []string{"add", mk(i)})
		}
		in.Ops = append(in.Ops, []string{"flush"})
		if r.Intn(2) == 0 {
			in.Ops = append(in.Ops, []string{"reopen"})
		}
		for i := 0; i < k+5; i += 1 + r.Intn(4) {
			in.Ops = append(in.Ops, []string{"has", mk(i)})
		}
		return in
	}
	in := &c20Input{}
	switch r.Intn(4) {
	case 0:
		in.BatchSize = 1
	case 1:
		in.BatchSize = 0
	default:
		in.BatchSize = uint32(1 + r.Intn(8))
	}
	n := 5 + r.Intn(30)
	if thorough {
		n = 5 + r.Intn(80)
	}
	for i := 0; i < n; i++ {
		h := hx(space[r.Intn(nSpace)])
		switch x := r.Intn(10); {
		case x < 5:
			in.Ops = append(in.Ops, []string{"add", h})
		case x < 7:
			in.Ops = append(in.Ops, []string{"has", h})
		case x < 9:
			in.Ops = append(in.Ops, []string{"flush"})
			if r.Intn(2) == 0 {
				in.Ops = append(in.Ops, []string{"has", hx(space[r.Intn(nSpace)])})
			}
		default:
			in.Ops = append(in.Ops, []string{"flush"}, []string{"reopen"})
		}
	}
	in.Ops = append(in.Ops, []string{"flush"})
	for _, h := range space {
		in.Ops = append(in.Ops, []string{"has", hx(h)})
	}
	in.Ops = append(in.Ops, []string{"reopen"})
	for _, h := range space {
		in.Ops = append(in.Ops, []string{"has", hx(h)})
	}
	return in
}

func c20Nontrivial(in *c20Input) bool {
	// a repeat within one batch, or an insert between existing entries after a flush
	seen := map[string]bool{}
	pending := map[string]bool{}
	flushed := 0
	for _, op := range in.Ops {
		switch op[0] {
		case "add":
			if pending[op[1]] {
				return true
			}
			if flushed > 0 && !seen[op[1]] {
				return true
			}
			pending[op[1]] = true
			seen[op[1]] = true
		case "flush":
			flushed += len(pending)
			pending = map[string]bool{}
		}
	}
	return false
}

func runC20(ctx *Ctx) {
	in := genC20(ctx.R, ctx.Thorough())
	ctx.Emit("ops", in, c20Run(in), c20Nontrivial(in))
}

func corpusC20(ctx *Ctx, op string, raw json.RawMessage) {
	var in c20Input
	if err := json.Unmarshal(raw, &in); err != nil {
		panic(err)
	}
	ctx.Emit("ops", &in, c20Run(&in), true, "corpus")
}
