package main

import (
	"bytes"
	"context"
	"encoding/json"
	"fmt"
	"io"
	"math/rand"
	"os"
	"path/filepath"
	"sort"
	"strings"
	"time"

	"github.com/go-logr/logr"
	"github.com/google/uuid"
	"github.com/spf13/cobra"
	"github.com/wrgl/wrgl/cmd/wrgl/fetch"
	"github.com/wrgl/wrgl/cmd/wrgl/utils"
	"github.com/wrgl/wrgl/pkg/api/utils"
	"github.com/wrgl/wrgl/pkg/conf"
	"github.com/wrgl/wrgl/pkg/credentials"
	"github.com/wrgl/wrgl/pkg/encoding/packfile"
	"github.com/wrgl/wrgl/pkg/ingest"
	"github.com/wrgl/wrgl/pkg/objects"
	"github.com/wrgl/wrgl/pkg/pbar"
	"github.com/wrgl/wrgl/pkg/prune"
	"github.com/wrgl/wrgl/pkg/ref"
	"github.com/wrgl/wrgl/pkg/sorter"
	"github.com/wrgl/wrgl/pkg/transaction"
)

func init() {
	runners["C13"] = runC13
	corpusRunners["C13"] = corpusC13
}

// ---- repository snapshots ---------------------------------------------------------------------------

type repoSnap struct {
	objs map[string][]byte
	refs map[string][]byte
	txs  []*ref.Transaction // the transaction rows of the ref store (open or committed)
}

func takeSnap(db *MemStore, rs ref.Store) *repoSnap {
	s := &repoSnap{objs: map[string][]byte{}, refs: map[string][]byte{}}
	for _, k := range db.Keys() {
		v, _ := db.Get([]byte(k))
		s.objs[k] = v
	}
	m, _ := ref.ListAllRefs(rs)
	for k, v := range m {
		s.refs[k] = v
	}
	s.txs, _ = rs.ListTransactions(0, 1000)
	return s
}

func (s *repoSnap) restore() (*MemStore, ref.Store, func()) {
	db := NewMemStore()
	for k, v := range s.objs {
		db.Set([]byte(k), v)
	}
	rs, closeRS := NewRefStore()
	for k, v := range s.refs {
		rs.Set(k, v)
	}
	for _, tx := range s.txs {
		cp := *tx
		rs.NewTransaction(&cp)
	}
	return db, rs, closeRS
}

// ---- naming of objects --------------------------------------------------------------------------------

type c13Universe struct {
	Commits [][]interface{} `json:"commits"` // [id, [parents], table]
	Tables  [][]interface{} `json:"tables"`  // [id, [blocks], [idxs]]
}

type c13State struct {
	Blks   []int   `json:"blks"`
	Idxs   []int   `json:"idxs"`
	Tbls   []int   `json:"tbls"`
	TblIdx []int   `json:"tblIdx"`
	TblSum []int   `json:"tblSum"`
	Coms   []int   `json:"coms"`
	Refs   [][]int `json:"refs"` // [refId, commitId]
}

type namer struct {
	ids  map[string]map[string]int // kind -> sum -> id
	refs map[string]int
}

func newNamer() *namer {
	return &namer{ids: map[string]map[string]int{"blk": {}, "blkidx": {}, "tbl": {}, "com": {}}, refs: map[string]int{}}
}

func (n *namer) id(kind string, sum []byte) int {
	if kind == "tblidx" || kind == "tblsum" {
		kind = "tbl"
	}
	m := n.ids[kind]
	if v, ok := m[string(sum)]; ok {
		return v
	}
	m[string(sum)] = len(m) + 1
	return m[string(sum)]
}

func (n *namer) ref(name string) int {
	if v, ok := n.refs[name]; ok {
		return v
	}
	n.refs[name] = len(n.refs) + 1
	return n.refs[name]
}

func splitKey(k string) (string, []byte) {
	i := strings.Index(k, "/")
	if i < 0 {
		return "?", nil
	}
	return k[:i], []byte(k[i+1:])
}

func (n *namer) state(db *MemStore, rs ref.Store) *c13State {
	st := &c13State{Blks: []int{}, Idxs: []int{}, Tbls: []int{}, TblIdx: []int{}, TblSum: []int{}, Coms: []int{}, Refs: [][]int{}}
	for _, k := range db.Keys() {
		kind, sum := splitKey(k)
		id := n.id(kind, sum)
		switch kind {
		case "blk":
			st.Blks = append(st.Blks, id)
		case "blkidx":
			st.Idxs = append(st.Idxs, id)
		case "tbl":
			st.Tbls = append(st.Tbls, id)
		case "tblidx":
			st.TblIdx = append(st.TblIdx, id)
		case "tblsum":
			st.TblSum = append(st.TblSum, id)
		case "com":
			st.Coms = append(st.Coms, id)
		}
	}
	m, _ := ref.ListAllRefs(rs)
	for name, sum := range m {
		st.Refs = append(st.Refs, []int{n.ref(name), n.id("com", sum)})
	}
	for _, l := range [][]int{st.Blks, st.Idxs, st.Tbls, st.TblIdx, st.TblSum, st.Coms} {
		sort.Ints(l)
	}
	sort.Slice(st.Refs, func(i, j int) bool { return st.Refs[i][0] < st.Refs[j][0] })
	return st
}

// universe describes the links of every commit and table found in any of the stores
func (n *namer) universe(dbs ...*MemStore) *c13Universe {
	u := &c13Universe{Commits: [][]interface{}{}, Tables: [][]interface{}{}}
	seenC, seenT := map[int]bool{}, map[int]bool{}
	for _, db := range dbs {
		for _, k := range db.Keys() {
			kind, sum := splitKey(k)
			switch kind {
			case "com":
				id := n.id("com", sum)
				if seenC[id] {
					continue
				}
				seenC[id] = true
				c, err := objects.GetCommit(db, sum)
				if err != nil {
					continue
				}
				ps := []int{}
				for _, p := range c.Parents {
					ps = append(ps, n.id("com", p))
				}
				u.Commits = append(u.Commits, []interface{}{id, ps, n.id("tbl", c.Table)})
			case "tbl":
				id := n.id("tbl", sum)
				if seenT[id] {
					continue
				}
				seenT[id] = true
				t, err := objects.GetTable(db, sum)
				if err != nil {
					continue
				}
				bs, is := []int{}, []int{}
				for _, b := range t.Blocks {
					bs = append(bs, n.id("blk", b))
				}
				for _, b := range t.BlockIndices {
					is = append(is, n.id("blkidx", b))
				}
				u.Tables = append(u.Tables, []interface{}{id, bs, is})
			}
		}
	}
	return u
}

// traceOps turns the recorded write trace into abstract write operations [kind, id(, commit)]
func (n *namer) traceOps(trace []string) [][]interface{} {
	out := [][]interface{}{}
	for _, t := range trace {
		switch {
		case strings.HasPrefix(t, "obj.set:"):
			kind, sum := splitKey(t[len("obj.set:"):])
			out = append(out, []interface{}{kind, n.id(kind, sum)})
		case strings.HasPrefix(t, "obj.del:"):
			kind, sum := splitKey(t[len("obj.del:"):])
			out = append(out, []interface{}{"del-" + kind, n.id(kind, sum)})
		case strings.HasPrefix(t, "ref.set:"):
			rest := t[len("ref.set:"):]
			i := strings.LastIndex(rest[:len(rest)-16], ":")
			out = append(out, []interface{}{"ref", n.ref(rest[:i]), n.id("com", []byte(rest[i+1:]))})
		case strings.HasPrefix(t, "ref.del:"):
			out = append(out, []interface{}{"del-ref", n.ref(t[len("ref.del:"):])})
		default:
			out = append(out, []interface{}{t, 0})
		}
	}
	return out
}

// ---- operations -----------------------------------------------------------------------------------------

var fixedTime = time.Unix(1700000000, 0).UTC()

// commitClock gives the time of the commits made by opCommit / opMergeCommit; the sync runner
// replaces it to produce histories whose timestamps disagree with their topology (clock skew).
var commitClock = func() time.Time { return fixedTime }

type c13Op func(db objects.Store, rs ref.Store) error

func opCommit(csv []byte, pk []string, workers int, branch string) c13Op {
	return func(db objects.Store, rs ref.Store) error {
		parent, _ := ref.GetHead(rs, branch)
		s, err := sorter.NewSorter(sorter.WithRunSize(1 << 30))
		if err != nil {
			return err
		}
		sum, err := ingest.IngestTable(db, s, io.NopCloser(bytes.NewReader(csv)), pk, logr.Discard(), ingest.WithNumWorkers(workers))
		if err != nil {
			return err
		}
		com := &objects.Commit{Table: sum, Message: "m", Time: commitClock(), AuthorEmail: "e", AuthorName: "a"}
		if parent != nil {
			com.Parents = [][]byte{parent}
		}
		buf := newBuf()
		com.WriteTo(buf)
		csum, err := objects.SaveCommit(db, buf.Bytes())
		if err != nil {
			return err
		}
		return ref.CommitHead(rs, branch, csum, com, nil)
	}
}

func opMergeCommit(rows [][]string, columns []string, branch string, parents func(rs ref.Store) [][]byte) c13Op {
	return func(db objects.Store, rs ref.Store) error {
		src, err := sorter.NewSorter(sorter.WithRunSize(1 << 30))
		if err != nil {
			return err
		}
		src.SetColumns(columns)
		src.PK = []uint32{0}
		for _, r := range rows {
			if err := src.AddRow(r); err != nil {
				return err
			}
		}
		ctx, cancel := context.WithCancel(context.Background())
		defer cancel()
		errCh := make(chan error, 2)
		blocks := src.SortedBlocks(ctx, nil, errCh)
		s2, _ := sorter.NewSorter()
		sum, err := ingest.IngestTableFromBlocks(db, s2, columns, []uint32{0}, blocks, logr.Discard(), ingest.WithNumWorkers(3))
		if err != nil {
			cancel()
			for range blocks {
			}
			return err
		}
		tbl, err := objects.GetTable(db, sum)
		if err != nil {
			return err
		}
		if err = ingest.ProfileTable(db, sum, tbl); err != nil {
			return err
		}
		com := &objects.Commit{Table: sum, Message: "merge", Time: commitClock(), AuthorEmail: "e", AuthorName: "a", Parents: parents(rs)}
		buf := newBuf()
		com.WriteTo(buf)
		csum, err := objects.SaveCommit(db, buf.Bytes())
		if err != nil {
			return err
		}
		return ref.CommitMerge(rs, branch, csum, com)
	}
}

// opReceive feeds pre-built packfiles to an ObjectReceiver, then updates the remote-tracking ref
// (what fetch does after the objects arrived)
func opReceive(packs [][]byte, expected [][]byte, refName string, target []byte) c13Op {
	return func(db objects.Store, rs ref.Store) error {
		recv := apiutils.NewObjectReceiver(db, expected, logr.Discard())
		for _, p := range packs {
			pr, err := packfile.NewPackfileReader(io.NopCloser(bytes.NewReader(p)))
			if err != nil {
				return err
			}
			if _, err := recv.Receive(pr, nil); err != nil {
				return err
			}
		}
		return ref.SaveRef(rs, refName, target, "a", "e", "fetch", "from origin", nil)
	}
}

func opPrune() c13Op {
	return func(db objects.Store, rs ref.Store) error { return prune.Prune(db, rs, nil) }
}

// opFetch is one `wrgl fetch origin` process: the exported Fetch of the fetch command (what `wrgl
// fetch` and `wrgl pull` call) with the default refspec, against a remote reachable at url. Every
// run gets its own client map (cookies, cached remote refs), as a new process would.
func opFetch(url string) c13Op {
	return func(db objects.Store, rs ref.Store) error {
		if os.Getenv("XDG_CONFIG_HOME") == "" {
			// the credentials store creates its directory: keep it inside the run's scratch space
			os.Setenv("XDG_CONFIG_HOME", filepath.Join(os.TempDir(), "c13-xdg"))
		}
		cs, err := credentials.NewStore()
		if err != nil {
			return err
		}
		cm := utils.NewClientMap(cs, logr.Discard())
		cmd := &cobra.Command{}
		cmd.SetOut(io.Discard)
		cmd.SetErr(io.Discard)
		rem := &conf.Remote{URL: url, Fetch: conf.RefspecSlice{conf.MustParseRefspec("+refs/heads/*:refs/remotes/origin/*")}}
		u := &conf.User{Name: "a", Email: "e"}
		return fetch.Fetch(cmd, db, rs, cm, u, "origin", rem, rem.Fetch, false, 0, logr.Discard(), pbar.NewContainer(io.Discard, true))
	}
}

// ---- the experiment ---------------------------------------------------------------------------------------

type c13Input struct {
	Seed     int64           `json:"genSeed"`
	Kind     string          `json:"kind"`
	Shape    string          `json:"shape,omitempty"` // which generator built the case ("" = the original four kinds)
	Universe *c13Universe    `json:"universe"`
	Init     *c13State       `json:"init"`
	Writes   [][]interface{} `json:"writes"` // the uninterrupted run's write trace
	Heads    []int           `json:"heads"`  // refs written by commit / merge
}

type c13Result struct {
	Final   *c13State   `json:"final"`
	Crashes []*c13State `json:"crashes"` // state after a crash before write k, k = 0..W-1
	Faulted []bool      `json:"faulted"` // the interrupted run reported an error
	Rerun   []*c13State `json:"rerun"`   // state after running the operation again from each crash state
	RerunOK []bool      `json:"rerunOk"`
	// a single injected write error at position k (later writes succeed): state when the operation returns
	ErrStates  []*c13State `json:"errStates"`
	ErrReported []bool     `json:"errReported"`
	ErrRerun   []*c13State `json:"errRerun"`
	ErrRerunOK []bool      `json:"errRerunOk"`
	// the write trace of each interrupted run itself (kinds whose write order may differ from run to run)
	Traces [][][]interface{} `json:"traces,omitempty"`
	// a recovery history: the crash before write k, then a complete `wrgl prune` on the reopened
	// repository, then the same operation again
	Pruned        []*c13State `json:"pruned"`
	PrunedOK      []bool      `json:"prunedOk"`
	PrunedRerun   []*c13State `json:"prunedRerun"`
	PrunedRerunOK []bool      `json:"prunedRerunOk"`
}

func runWithBudget(op c13Op, db *MemStore, rs ref.Store, left int) (*writeBudget, error) {
	b := &writeBudget{left: left}
	err := op(&faultObjStore{Store: db, b: b}, &faultRefStore{Store: rs, b: b})
	return b, err
}

func c13Experiment(seed int64, kind, shape string, snap *repoSnap, extra []*MemStore, op c13Op, headRefs []string) (*c13Input, Res) {
	n := newNamer()
	in := &c13Input{Seed: seed, Kind: kind, Shape: shape}
	res := Guard(func() Res {
		db0, rs0, close0 := snap.restore()
		in.Init = n.state(db0, rs0)
		close0()
		db, rs, closeRS := snap.restore()
		b, err := runWithBudget(op, db, rs, -1)
		if err != nil {
			closeRS()
			return Err("uninterrupted-run-failed")
		}
		out := &c13Result{Final: n.state(db, rs)}
		in.Writes = n.traceOps(b.trace)
		dbInit, _, closeInit := snap.restore()
		closeInit()
		in.Universe = n.universe(append([]*MemStore{db, dbInit}, extra...)...)
		for _, h := range headRefs {
			in.Heads = append(in.Heads, n.ref(h))
		}
		closeRS()
		W := b.writes
		for k := 0; k < W; k++ {
			dbk, rsk, closek := snap.restore()
			bk, err := runWithBudget(op, dbk, rsk, k)
			out.Faulted = append(out.Faulted, err != nil)
			if kind == "fetch" || kind == "tx-commit" {
				out.Traces = append(out.Traces, n.traceOps(bk.trace))
			}
			out.Crashes = append(out.Crashes, n.state(dbk, rsk))
			// reopen and run the same operation again, to completion
			_, err2 := runWithBudget(op, dbk, rsk, -1)
			out.RerunOK = append(out.RerunOK, err2 == nil)
			out.Rerun = append(out.Rerun, n.state(dbk, rsk))
			closek()
			// the same position as a single write error instead of a crash
			dbe, rse, closee := snap.restore()
			be := &writeBudget{left: k, once: true}
			erre := op(&faultObjStore{Store: dbe, b: be}, &faultRefStore{Store: rse, b: be})
			out.ErrReported = append(out.ErrReported, erre != nil)
			out.ErrStates = append(out.ErrStates, n.state(dbe, rse))
			_, err3 := runWithBudget(op, dbe, rse, -1)
			out.ErrRerunOK = append(out.ErrRerunOK, err3 == nil)
			out.ErrRerun = append(out.ErrRerun, n.state(dbe, rse))
			closee()
			// the same crash, then a prune of the reopened repository, then the operation again
			dbp, rsp, closep := snap.restore()
			runWithBudget(op, dbp, rsp, k)
			errp := prune.Prune(dbp, rsp, nil)
			out.PrunedOK = append(out.PrunedOK, errp == nil)
			out.Pruned = append(out.Pruned, n.state(dbp, rsp))
			_, err4 := runWithBudget(op, dbp, rsp, -1)
			out.PrunedRerunOK = append(out.PrunedRerunOK, err4 == nil)
			out.PrunedRerun = append(out.PrunedRerun, n.state(dbp, rsp))
			closep()
		}
		// the universe may have grown (orphans created by re-runs): describe again
		return Ok(out)
	})
	if in.Heads == nil {
		in.Heads = []int{}
	}
	return in, res
}

// buildC13 builds the repository and the operation of one case. shape selects the generator:
// "" = one of the original four kinds; "garbage" = the same, in a repository that also holds an
// unreachable commit (a deleted branch), so that a prune between the crash and the re-run has work
// to do at every crash point; "fetch" = the real fetch command against the reference server.
// cleanup releases what the operation needs while it runs (the reference server).
func buildC13(seed int64, shape string) (kind string, snap *repoSnap, extra []*MemStore, op c13Op, heads []string, cleanup func(), err error) {
	cleanup = func() {}
	r := rand.New(rand.NewSource(seed))
	db := NewMemStore()
	rs, closeRS := NewRefStore()
	defer closeRS()
	mkTable := func(n int) *TableSpec {
		t := GenTable(r, 2, n, []int{0}, 0)
		for _, row := range t.Rows {
			row[1] = []string{"a", "b", "c"}[r.Intn(3)]
		}
		return t
	}
	// initial history: main with one or two commits
	t0 := mkTable([]int{3, 30, 270}[r.Intn(3)])
	if err = opCommit(t0.CSV(0), t0.PK, 1, "main")(db, rs); err != nil {
		return
	}
	if shape == "fetch" {
		kind = "fetch"
		// the remote's clock has its own stream: the other draws of the case stay what they were
		extra, op, cleanup, err = buildC13Fetch(r, rand.New(rand.NewSource(seed^0x636c6f636b)), db, rs, t0, mkTable)
		if err != nil {
			return
		}
		snap = takeSnap(db, rs)
		return
	}
	if shape == "tx" {
		kind = "tx-commit"
		op, heads, err = buildC13Tx(r, db, rs, t0, mkTable)
		if err != nil {
			return
		}
		snap = takeSnap(db, rs)
		return
	}
	kinds := []string{"commit", "merge-commit", "receive", "prune"}
	kind = kinds[r.Intn(len(kinds))]
	switch kind {
	case "commit":
		t1 := cloneSpec(t0)
		t1.Rows[r.Intn(len(t1.Rows))][1] = "changed"
		if r.Intn(2) == 0 {
			t1 = mkTable([]int{2, 20, 300}[r.Intn(3)])
		}
		branch := []string{"main", "feature"}[r.Intn(2)]
		op = opCommit(t1.CSV(0), t1.PK, 1+r.Intn(4), branch)
		heads = []string{"heads/" + branch}
	case "merge-commit":
		t1 := cloneSpec(t0)
		t1.Rows[r.Intn(len(t1.Rows))][1] = "theirs"
		if err = opCommit(t1.CSV(0), t1.PK, 1, "other")(db, rs); err != nil {
			return
		}
		tm := cloneSpec(t0)
		tm.Rows[r.Intn(len(tm.Rows))][1] = "merged"
		op = opMergeCommit(tm.Rows, tm.Columns, "main", func(rs ref.Store) [][]byte {
			a, _ := ref.GetHead(rs, "main")
			b, _ := ref.GetHead(rs, "other")
			// on a re-run after the branch already moved, the parents are those of the merge commit itself;
			// the CLI computes them before starting, so keep the original ones
			return [][]byte{a, b}
		})
		// parents must be fixed before the operation starts (as the CLI does)
		a, _ := ref.GetHead(rs, "main")
		b2, _ := ref.GetHead(rs, "other")
		op = opMergeCommit(tm.Rows, tm.Columns, "main", func(ref.Store) [][]byte { return [][]byte{a, b2} })
		heads = []string{"heads/main"}
	case "receive":
		// a remote that is one or two commits ahead of main
		remote := NewMemStore()
		for _, k := range db.Keys() {
			v, _ := db.Get([]byte(k))
			remote.Set([]byte(k), v)
		}
		rrs, closeR := NewRefStore()
		defer closeR()
		m, _ := ref.ListAllRefs(rs)
		for k, v := range m {
			rrs.Set(k, v)
		}
		nAhead := 1 + r.Intn(2)
		var toSend []*objects.Commit
		var expected [][]byte
		for i := 0; i < nAhead; i++ {
			t1 := cloneSpec(t0)
			t1.Rows[r.Intn(len(t1.Rows))][1] = fmt.Sprintf("r%d", i)
			if err = opCommit(t1.CSV(0), t1.PK, 1, "main")(remote, rrs); err != nil {
				return
			}
			h, _ := ref.GetHead(rrs, "main")
			toSend = append(toSend, mustCommit(remote, h))
			expected = append(expected, h)
		}
		tts := map[string]struct{}{}
		for _, c := range toSend {
			tts[string(c.Table)] = struct{}{}
		}
		base, _ := ref.GetHead(rs, "main")
		var sender *apiutils.ObjectSender
		sender, err = apiutils.NewObjectSender(remote, toSend, tts, [][]byte{base}, []uint64{0, 1, 500}[r.Intn(3)])
		if err != nil {
			return
		}
		var packs [][]byte
		for i := 0; i < 10000; i++ {
			buf := newBuf()
			done, _, e := sender.WriteObjects(buf, nil)
			if e != nil {
				err = e
				return
			}
			packs = append(packs, append([]byte{}, buf.Bytes()...))
			if done {
				break
			}
		}
		op = opReceive(packs, expected, "remotes/origin/main", expected[len(expected)-1])
		extra = []*MemStore{remote}
	case "prune":
		// unreachable history: a branch with one or two commits, then deleted
		for i := 0; i < 1+r.Intn(2); i++ {
			t1 := mkTable([]int{2, 20, 260}[r.Intn(3)])
			if err = opCommit(t1.CSV(0), t1.PK, 1, "gone")(db, rs); err != nil {
				return
			}
		}
		ref.DeleteHead(rs, "gone")
		op = opPrune()
	}
	if shape == "garbage" && kind != "prune" {
		// own stream: the draws above stay what they are without the garbage
		g := rand.New(rand.NewSource(seed ^ 0x67617262))
		tg := GenTable(g, 2, []int{2, 20, 260}[g.Intn(3)], []int{0}, 0)
		if err = opCommit(tg.CSV(0), tg.PK, 1, "gone")(db, rs); err != nil {
			return
		}
		ref.DeleteHead(rs, "gone")
	}
	snap = takeSnap(db, rs)
	return
}

// buildC13Fetch: the local repository has main (one commit, table t0) and possibly the
// remote-tracking ref of an earlier fetch; the remote is 1..3 commits ahead on main, may have a
// second branch forked from any commit of main, and 0..2 tags on any of its commits (tags are not
// covered by the default refspec: fetch follows them when their commit is present locally).
// The remote's commits carry the time of the machine they were made on: 1 case in 2 the clocks agree
// with the history (every commit a second later than the one before); otherwise every commit is an
// hour OLDER than the one made before it, or the times jump either way, or all are equal, so that a
// commit may be older than its parent (nothing ties a commit's time to its ancestors').
// c13Clock names the remote's clock of the fetch case built last (a tag of the emitted case).
var c13Clock string

func buildC13Fetch(r, clk *rand.Rand, db *MemStore, rs ref.Store, t0 *TableSpec, mkTable func(int) *TableSpec) (extra []*MemStore, op c13Op, cleanup func(), err error) {
	cleanup = func() {}
	remote := NewMemStore()
	for _, k := range db.Keys() {
		v, _ := db.Get([]byte(k))
		remote.Set([]byte(k), v)
	}
	rrs, closeR := NewRefStore()
	c0, _ := ref.GetHead(rs, "main")
	rrs.Set("heads/main", c0)
	tick := 0
	saved := commitClock
	clockMode := clk.Intn(6)
	c13Clock = []string{"forward", "forward", "forward", "backwards", "jumps", "equal"}[clockMode]
	commitClock = func() time.Time {
		tick++
		switch clockMode {
		case 3: // a clock running backwards
			return fixedTime.Add(-time.Duration(tick) * time.Hour)
		case 4: // clocks that disagree either way
			return fixedTime.Add(time.Duration(clk.Intn(7)-3) * time.Hour)
		case 5: // one-second resolution: all equal
			return fixedTime
		}
		return fixedTime.Add(time.Duration(tick) * time.Second)
	}
	defer func() { commitClock = saved }()
	commits := [][]byte{c0}
	cur := t0
	next := func(branch, tag string) error {
		t1 := cloneSpec(cur)
		t1.Rows[r.Intn(len(t1.Rows))][1] = tag
		if r.Intn(4) == 0 {
			t1 = mkTable([]int{2, 20, 270}[r.Intn(3)])
		}
		if e := opCommit(t1.CSV(0), t1.PK, 1, branch)(remote, rrs); e != nil {
			return e
		}
		h, _ := ref.GetHead(rrs, branch)
		commits = append(commits, h)
		cur = t1
		return nil
	}
	nAhead := 1 + r.Intn(3)
	for i := 0; i < nAhead; i++ {
		if err = next("main", fmt.Sprintf("r%d", i)); err != nil {
			closeR()
			return
		}
	}
	if r.Intn(3) == 0 {
		rrs.Set("heads/dev", commits[r.Intn(len(commits))])
		if err = next("dev", "dev"); err != nil {
			closeR()
			return
		}
	}
	nTags := []int{0, 1, 1, 2}[r.Intn(4)]
	for i := 0; i < nTags; i++ {
		ref.SaveTag(rrs, fmt.Sprintf("v%d", i+1), commits[r.Intn(len(commits))])
	}
	if r.Intn(2) == 0 {
		ref.SaveFetchRef(rs, "remotes/origin/main", c0, "a", "e", "origin", "storing head")
	}
	srv := NewRefServer(remote, rrs, []uint64{0, 1, 500}[r.Intn(3)], false)
	cleanup = func() { srv.Close(); closeR() }
	return []*MemStore{remote}, opFetch(srv.URL()), cleanup, nil
}

// buildC13Tx: `wrgl transaction commit` of a transaction that stages 1..3 branches. The repository has
// main (one commit, table t0), possibly a second branch, and an open transaction whose commits were
// staged the way `wrgl commit --txid` stages them: table ingested, commit object (parent = the branch's
// head, if it has one) saved, txs/<id>/<branch> set. The operation moves every staged branch to a
// rewritten copy of its staged commit (one commit object + one logged ref update per branch, in map
// order), then flips the transaction's status. An interrupted run leaves the transaction open; the
// re-run must move only the branches not moved yet.
func buildC13Tx(r *rand.Rand, db *MemStore, rs ref.Store, t0 *TableSpec, mkTable func(int) *TableSpec) (op c13Op, heads []string, err error) {
	names := []string{"main", "feature", "dev"}
	if r.Intn(2) == 0 {
		// a second existing branch, forked from main
		t1 := cloneSpec(t0)
		t1.Rows[r.Intn(len(t1.Rows))][1] = "forked"
		if err = opCommit(t1.CSV(0), t1.PK, 1, "feature")(db, rs); err != nil {
			return
		}
	}
	txid, err := uuid.NewRandomFromReader(r)
	if err != nil {
		return
	}
	if _, err = rs.NewTransaction(&ref.Transaction{ID: txid, Status: ref.TSInProgress, Begin: fixedTime}); err != nil {
		return
	}
	nb := 1 + r.Intn(3)
	perm := r.Perm(len(names))
	for i := 0; i < nb; i++ {
		branch := names[perm[i]]
		t1 := cloneSpec(t0)
		t1.Rows[r.Intn(len(t1.Rows))][1] = "staged-" + branch
		if r.Intn(3) == 0 {
			t1 = mkTable([]int{2, 20}[r.Intn(2)])
		}
		var s *sorter.Sorter
		if s, err = sorter.NewSorter(sorter.WithRunSize(1 << 30)); err != nil {
			return
		}
		var sum, csum []byte
		if sum, err = ingest.IngestTable(db, s, io.NopCloser(bytes.NewReader(t1.CSV(0))), t1.PK, logr.Discard(), ingest.WithNumWorkers(1)); err != nil {
			return
		}
		com := &objects.Commit{Table: sum, Message: "staged " + branch, Time: fixedTime.Add(time.Duration(i+1) * time.Second), AuthorEmail: "e", AuthorName: "a"}
		if parent, e := ref.GetHead(rs, branch); e == nil {
			com.Parents = [][]byte{parent}
		}
		buf := newBuf()
		com.WriteTo(buf)
		if csum, err = objects.SaveCommit(db, buf.Bytes()); err != nil {
			return
		}
		if err = ref.SaveTransactionRef(rs, txid, branch, csum); err != nil {
			return
		}
		heads = append(heads, "heads/"+branch)
	}
	op = func(db objects.Store, rs ref.Store) error {
		_, err := transaction.Commit(db, rs, txid)
		return err
	}
	return
}

func runC13(ctx *Ctx) {
	seed := ctx.Seed*1000003 + int64(ctx.Idx)
	shape := ""
	switch ctx.Idx % 4 {
	case 1:
		shape = "fetch"
	case 3:
		shape = "garbage"
	}
	if ctx.Idx%12 == 10 {
		// 1 case in 12 (taken from the plain ones): `wrgl transaction commit`
		shape = "tx"
	}
	kind, snap, extra, op, heads, cleanup, err := buildC13(seed, shape)
	if err != nil {
		ctx.Emit("crash", map[string]interface{}{"genSeed": seed, "shape": shape}, Err("build"), false)
		return
	}
	defer cleanup()
	in, res := c13Experiment(seed, kind, shape, snap, extra, op, heads)
	nt := len(in.Writes) > 2
	tags := []string{"kind=" + kind}
	if shape != "" {
		tags = append(tags, "shape="+shape)
	}
	if kind == "fetch" {
		tags = append(tags, "clock="+c13Clock)
	}
	ctx.Emit("crash", in, res, nt, tags...)
}

func corpusC13(ctx *Ctx, op string, raw json.RawMessage) {
	var in c13Input
	if err := json.Unmarshal(raw, &in); err != nil {
		panic(err)
	}
	kind, snap, extra, o, heads, cleanup, err := buildC13(in.Seed, in.Shape)
	if err != nil {
		return
	}
	defer cleanup()
	in2, res := c13Experiment(in.Seed, kind, in.Shape, snap, extra, o, heads)
	ctx.Emit("crash", in2, res, true, "corpus", "kind="+kind)
}
