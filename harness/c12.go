package main

import (
	"bytes"
	"encoding/json"
	"errors"
	"fmt"
	"math/rand"
	"sort"
	"sync"
	"time"

	"github.com/dgraph-io/badger/v3"
	"github.com/wrgl/wrgl/pkg/objects"
	objbadger "github.com/wrgl/wrgl/pkg/objects/badger"
	"github.com/wrgl/wrgl/pkg/prune"
	"github.com/wrgl/wrgl/pkg/ref"
)

func init() {
	runners["C12"] = runC12
	corpusRunners["C12"] = corpusC12
}

type c12Table struct {
	ID     int   `json:"id"`
	Blocks []int `json:"blocks"`
	Idxs   []int `json:"idxs"`
}

type c12Repo struct {
	Commits  []GCommit  `json:"commits"`
	Tables   []c12Table `json:"tables"`
	Blocks   []int      `json:"blocks"`
	Idxs     []int      `json:"idxs"`
	TblIdx   []int      `json:"tblIdx"`
	Profiles []int      `json:"profiles"`
}

type c12Input struct {
	Seed   int64    `json:"genSeed"`
	Before *c12Repo `json:"before"`
	Refs   []int    `json:"refs"`
	// Shape selects the kind of repository and run (chosen from the case index, see runC12):
	//   ""         1..8 commits on the mock object store, prune.Prune twice
	//   "big"      30..60 commits with 25..40 tables on a real badger store, prune.Prune twice
	//   "reffault" the SQLite ref store fails (disk I/O error) from the Fault-th row of a scan on
	//   "gc"       a repository directory (badger + SQLite files) with transactions of several ages,
	//              `wrgl gc` / `wrgl prune` through the command line
	//   "readfault" the object store fails one read of one commit object once (a transient
	//              input/output error) during prune: the Fault-th read of commit FaultCommit
	Shape string    `json:"shape,omitempty"`
	Fault int       `json:"fault,omitempty"`
	GC    *c12GCSpec `json:"gc,omitempty"`
	// FaultCommit: id of the commit whose read fails (shape "readfault"); FaultSel: how the
	// generator chose it (kept so that a replay makes the same choice)
	FaultCommit int `json:"faultCommit,omitempty"`
	FaultSel    int `json:"faultSel,omitempty"`
	// FaultKind: what the failing read reports: "" an input/output error; "absent" that the object
	// is not in the store (objects.ErrKeyNotFound) although it is
	FaultKind string `json:"faultKind,omitempty"`
}

// c12Store is what the runner needs of an object store: the store itself and an enumeration of its
// keys that does not go through the store's own listing code.
type c12Store interface {
	objects.Store
	Keys() []string
}

// c12Badger is the real badger-backed store; Keys iterates the database directly.
type c12Badger struct {
	*objbadger.Store
	bdb *badger.DB
}

func (s *c12Badger) Keys() []string {
	var ks []string
	s.bdb.View(func(txn *badger.Txn) error {
		opt := badger.DefaultIteratorOptions
		opt.PrefetchValues = false
		it := txn.NewIterator(opt)
		defer it.Close()
		for it.Rewind(); it.Valid(); it.Next() {
			ks = append(ks, string(it.Item().KeyCopy(nil)))
		}
		return nil
	})
	return ks
}

func openC12Badger(dir string) (*c12Badger, error) {
	var opts badger.Options
	if dir == "" {
		opts = badger.DefaultOptions("").WithInMemory(true)
	} else {
		opts = badger.DefaultOptions(dir)
	}
	bdb, err := badger.Open(opts.WithLoggingLevel(badger.ERROR))
	if err != nil {
		return nil, err
	}
	return &c12Badger{Store: objbadger.NewStore(bdb), bdb: bdb}, nil
}

type c12World struct {
	db       c12Store
	refNames []string // names of the live refs, parallel to refs
	rs       ref.Store
	closeRS  func()
	all      []GCommit
	byID     map[int]GCommit
	tables   map[int]c12Table // every table ever built
	comSum   map[int][]byte
	tblSum   map[int][]byte
	blkID    map[string]int
	idxID    map[string]int
	tblID    map[string]int
	comID    map[string]int
	refs     []int
	// twins: pairs of tables over the same rows under different primary keys (same blocks, other
	// block indices); dangling: how many live refs point at a commit that is not stored
	twins    [][2]int
	dangling int
}

func (w *c12World) dump() *c12Repo {
	r := &c12Repo{Commits: []GCommit{}, Tables: []c12Table{}, Blocks: []int{}, Idxs: []int{}, TblIdx: []int{}, Profiles: []int{}}
	for _, k := range w.db.Keys() {
		kb := []byte(k)
		switch {
		case bytes.HasPrefix(kb, []byte("com/")):
			r.Commits = append(r.Commits, w.byID[w.comID[k[4:]]])
		case bytes.HasPrefix(kb, []byte("tbl/")):
			r.Tables = append(r.Tables, w.tables[w.tblID[k[4:]]])
		case bytes.HasPrefix(kb, []byte("blk/")):
			r.Blocks = append(r.Blocks, w.blkID[k[4:]])
		case bytes.HasPrefix(kb, []byte("blkidx/")):
			r.Idxs = append(r.Idxs, w.idxID[k[7:]])
		case bytes.HasPrefix(kb, []byte("tblidx/")):
			r.TblIdx = append(r.TblIdx, w.tblID[k[7:]])
		case bytes.HasPrefix(kb, []byte("tblsum/")):
			r.Profiles = append(r.Profiles, w.tblID[k[7:]])
		}
	}
	sort.Slice(r.Commits, func(i, j int) bool { return r.Commits[i].ID < r.Commits[j].ID })
	sort.Slice(r.Tables, func(i, j int) bool { return r.Tables[i].ID < r.Tables[j].ID })
	sort.Ints(r.Blocks)
	sort.Ints(r.Idxs)
	sort.Ints(r.TblIdx)
	sort.Ints(r.Profiles)
	return r
}

// buildC12 opens the stores of the shape and populates them; the caller closes with w.closeRS().
func buildC12(seed int64, shape string) (*c12World, error) {
	switch shape {
	case "big":
		db, err := openC12Badger("")
		if err != nil {
			return nil, err
		}
		rs, closeRS := NewRefStore()
		w, err := buildC12On(seed, shape, db, rs)
		if err != nil {
			closeRS()
			db.Close()
			return nil, err
		}
		w.closeRS = func() { closeRS(); db.Close() }
		return w, nil
	case "reffault":
		rs, closeRS := newC12FaultRefStore()
		w, err := buildC12On(seed, shape, NewMemStore(), rs)
		if err != nil {
			closeRS()
			return nil, err
		}
		w.closeRS = closeRS
		return w, nil
	case "readfault":
		rs, closeRS := NewRefStore()
		w, err := buildC12On(seed, shape, NewMemStore(), rs)
		if err != nil {
			closeRS()
			return nil, err
		}
		w.closeRS = closeRS
		return w, nil
	}
	rs, closeRS := NewRefStore()
	w, err := buildC12On(seed, "", NewMemStore(), rs)
	if err != nil {
		closeRS()
		return nil, err
	}
	w.closeRS = closeRS
	return w, nil
}

func buildC12On(seed int64, shape string, db c12Store, rs ref.Store) (*c12World, error) {
	r := rand.New(rand.NewSource(seed))
	w := &c12World{db: db, rs: rs, byID: map[int]GCommit{}, tables: map[int]c12Table{}, comSum: map[int][]byte{}, tblSum: map[int][]byte{},
		blkID: map[string]int{}, idxID: map[string]int{}, tblID: map[string]int{}, comID: map[string]int{}}
	big := shape == "big"
	// tables sharing blocks
	baseRows := []int{3, 20, 260, 300}[r.Intn(4)]
	if big && baseRows > 20 {
		baseRows = 20
	}
	base := GenTable(r, 2, baseRows, []int{0}, 0)
	for _, row := range base.Rows {
		row[1] = []string{"a", "b"}[r.Intn(2)]
	}
	specs := []*TableSpec{base}
	nT := 2 + r.Intn(3)
	if big {
		// enough objects for a key listing to run past the store iterator's prefetch window
		nT = 25 + r.Intn(16)
	}
	for len(specs) < nT {
		if r.Intn(2) == 0 {
			v := cloneSpec(base)
			mi := 0
			for i, row := range v.Rows {
				if row[0] > v.Rows[mi][0] {
					mi = i
				}
			}
			v.Rows[mi][1] = fmt.Sprintf("v%d", len(specs))
			specs = append(specs, v)
		} else {
			specs = append(specs, GenTable(r, 1+r.Intn(2), 1+r.Intn(20), []int{0}, 0))
		}
	}
	// choices added later come from a stream of their own, so that the repositories of the cases
	// that do not take them stay what they were
	x := rand.New(rand.NewSource(seed*7919 + 11))
	// the same file committed again under another primary key: a key extended by further columns
	// sorts the rows the same way (the first key column is unique), so the two tables share every
	// block while every block index, which is computed from the key, is another object
	rekey := x.Intn(3) == 0
	twinOf := map[int]int{} // index in specs of a re-keyed table -> index of the table it came from
	if rekey {
		for i, n := 0, len(specs); i < n; i++ {
			s := specs[i]
			if len(s.Columns) < 2 || (i > 0 && x.Intn(2) == 0) {
				continue
			}
			v := cloneSpec(s)
			inKey := map[string]bool{}
			for _, k := range v.PK {
				inKey[k] = true
			}
			for _, c := range v.Columns {
				if !inKey[c] && (len(v.PK) == len(s.PK) || x.Intn(2) == 0) {
					v.PK = append(v.PK, c)
				}
			}
			twinOf[len(specs)] = i
			specs = append(specs, v)
		}
	}
	specTbl := map[int]int{}
	for si, s := range specs {
		sum, err := IngestCSV(w.db, s.CSV(0), s.PK, IngestCfg{})
		if err != nil {
			return nil, err
		}
		if id, ok := w.tblID[string(sum)]; ok {
			specTbl[si] = id
			continue
		}
		specTbl[si] = len(w.tblID) + 1
		id := len(w.tblID) + 1
		w.tblID[string(sum)] = id
		w.tblSum[id] = sum
		t, err := objects.GetTable(w.db, sum)
		if err != nil {
			return nil, err
		}
		ct := c12Table{ID: id, Blocks: []int{}, Idxs: []int{}}
		for _, b := range t.Blocks {
			if _, ok := w.blkID[string(b)]; !ok {
				w.blkID[string(b)] = len(w.blkID) + 1
			}
			ct.Blocks = append(ct.Blocks, w.blkID[string(b)])
		}
		for _, b := range t.BlockIndices {
			if _, ok := w.idxID[string(b)]; !ok {
				w.idxID[string(b)] = len(w.idxID) + 1
			}
			ct.Idxs = append(ct.Idxs, w.idxID[string(b)])
		}
		w.tables[id] = ct
	}
	nTab := len(w.tables)
	n := 1 + r.Intn(8)
	if big {
		n = 30 + r.Intn(31)
	}
	g := GenGraph(r, n, r.Intn(5), 0.3, 0.15)
	for i := range g {
		g[i].Table = 1 + r.Intn(nTab)
	}
	for si := range specs {
		oi, ok := twinOf[si]
		if !ok {
			continue
		}
		if a, b := specTbl[oi], specTbl[si]; a != b {
			w.twins = append(w.twins, [2]int{a, b})
		}
	}
	if len(w.twins) > 0 && x.Intn(2) == 0 {
		// a history of one file whose key was changed back and forth: about half of the commits
		// hold one side or the other of a pair
		for i := range g {
			if x.Intn(2) == 0 {
				g[i].Table = w.twins[x.Intn(len(w.twins))][x.Intn(2)]
			}
		}
	}
	for _, c := range g {
		com := &objects.Commit{Table: w.tblSum[c.Table], AuthorName: "a", AuthorEmail: "e", Time: time.Unix(c.Time, 0).UTC(), Message: "c" + itoa(c.ID)}
		for _, p := range c.Parents {
			com.Parents = append(com.Parents, w.comSum[p])
		}
		buf := newBuf()
		com.WriteTo(buf)
		sum, err := objects.SaveCommit(w.db, buf.Bytes())
		if err != nil {
			return nil, err
		}
		w.comSum[c.ID] = sum
		w.comID[string(sum)] = c.ID
		w.byID[c.ID] = c
	}
	w.all = g
	// refs of every kind; some then deleted
	kinds := []string{"heads/b%d", "tags/t%d", "remotes/origin/r%d", "txs/2b5e8c2e-0000-4000-8000-00000000000%d/x", "heads/n/e/s/t%d"}
	nRefs := r.Intn(4)
	switch shape {
	case "big":
		nRefs = 1 + r.Intn(4)
	case "reffault", "readfault":
		nRefs = 2 + r.Intn(4)
	}
	for i := 0; i < nRefs; i++ {
		c := 1 + r.Intn(n)
		name := fmt.Sprintf(kinds[r.Intn(len(kinds))], i)
		if err := w.rs.Set(name, w.comSum[c]); err != nil {
			return nil, err
		}
		if r.Intn(4) == 0 {
			w.rs.Delete(name)
		} else {
			w.refs = append(w.refs, c)
			w.refNames = append(w.refNames, name)
		}
	}
	// dangling refs: a remote-tracking ref, tag or branch saved for a commit whose objects never
	// arrived (interrupted fetch, refs copied from another repository). The commit would have been
	// a child of stored commits, or a root; it is written and taken away again, and nothing stored
	// refers to it. It roots nothing.
	if x.Intn(5) == 0 {
		for k, nd := 0, 1+x.Intn(2); k < nd; k++ {
			id := n + 1 + k
			com := &objects.Commit{Table: w.tblSum[1+x.Intn(nTab)], AuthorName: "a", AuthorEmail: "e", Time: time.Unix(g[x.Intn(n)].Time+int64(x.Intn(3)), 0).UTC(), Message: "c" + itoa(id)}
			for p, np := 0, x.Intn(3); p < np; p++ {
				com.Parents = append(com.Parents, w.comSum[1+x.Intn(n)])
			}
			buf := newBuf()
			com.WriteTo(buf)
			sum, err := objects.SaveCommit(w.db, buf.Bytes())
			if err != nil {
				return nil, err
			}
			if _, stored := w.comID[string(sum)]; stored {
				continue
			}
			if err := objects.DeleteCommit(w.db, sum); err != nil {
				return nil, err
			}
			w.comSum[id] = sum
			name := fmt.Sprintf(kinds[x.Intn(len(kinds))], 7+k)
			if err := w.rs.Set(name, sum); err != nil {
				return nil, err
			}
			w.refs = append(w.refs, id)
			w.refNames = append(w.refNames, name)
			w.dangling++
		}
	}
	// shallow commits: the table object (and sometimes its exclusive blocks) absent
	if r.Intn(3) == 0 {
		t := 1 + r.Intn(nTab)
		w.db.Delete(append([]byte("tbl/"), w.tblSum[t]...))
		if r.Intn(2) == 0 {
			w.db.Delete(append([]byte("tblidx/"), w.tblSum[t]...))
			w.db.Delete(append([]byte("tblsum/"), w.tblSum[t]...))
		}
	}
	// a stray missing block of a present table (interrupted transfer)
	if r.Intn(6) == 0 {
		for k, id := range w.blkID {
			if id == 1+r.Intn(len(w.blkID)) {
				w.db.Delete(append([]byte("blk/"), []byte(k)...))
				break
			}
		}
	}
	return w, nil
}

// c12StateTags describe the generated state for the measured distribution (after may be nil).
func c12StateTags(w *c12World, before, after *c12Repo) []string {
	tags := []string{}
	if w.dangling > 0 {
		tags = append(tags, "dangling-ref")
	}
	if len(w.twins) == 0 {
		return tags
	}
	tags = append(tags, "rekeyed-tables")
	shared := false
	for _, p := range w.twins {
		a, b := w.tables[p[0]], w.tables[p[1]]
		if fmt.Sprint(a.Blocks) == fmt.Sprint(b.Blocks) && len(a.Blocks) > 0 && fmt.Sprint(a.Idxs) != fmt.Sprint(b.Idxs) {
			shared = true
		}
	}
	if shared {
		tags = append(tags, "same-blocks-other-block-indices")
	}
	if after != nil && len(after.Commits) < len(before.Commits) {
		kept := map[int]bool{}
		for _, t := range after.Tables {
			kept[t.ID] = true
		}
		for _, p := range w.twins {
			if kept[p[0]] && kept[p[1]] {
				tags = append(tags, "both-keys-survive-a-sweep")
				break
			}
		}
	}
	return tags
}

// c12Usable: every surviving commit with a table must be fully readable.
func c12Usable(w *c12World, before, after *c12Repo) bool {
	usable := true
	for _, c := range after.Commits {
		ts := w.tblSum[c.Table]
		if !objects.TableExist(w.db, ts) {
			continue
		}
		// only tables that were complete before are required to be usable
		complete := true
		for _, b := range w.tables[c.Table].Blocks {
			found := false
			for _, x := range before.Blocks {
				if x == b {
					found = true
				}
			}
			if !found {
				complete = false
			}
		}
		if !complete {
			continue
		}
		d, err := DumpTable(w.db, ts, true)
		if err != nil || len(d.Problems) > 0 {
			usable = false
		}
	}
	return usable
}

// c12RunFault: prune while the ref store's scans fail from the k-th row on, then (the disk being
// healthy again) prune once more. Nothing reachable may be lost by either run.
func c12RunFault(w *c12World, k int) (Res, *c12Repo) {
	before := w.dump()
	res := Guard(func() Res {
		c12RowFault.arm(k)
		var err error
		func() {
			defer c12RowFault.disarm()
			err = prune.Prune(w.db, w.rs, nil)
		}()
		hits := c12RowFault.disarm()
		after := w.dump()
		usable := c12Usable(w, before, after)
		retryErr := prune.Prune(w.db, w.rs, nil) != nil
		again := w.dump()
		return Ok(map[string]interface{}{"faultHit": hits > 0, "pruneErr": err != nil, "after": after, "usable": usable,
			"retryErr": retryErr, "afterRetry": again, "usableRetry": c12Usable(w, before, again)})
	})
	c12RowFault.disarm()
	return res, before
}

// ---- one transient read failure of a commit object during prune ---------------------------------

// c12ReadFaultStore serves everything from the wrapped store except the nth read of one key, which
// fails once (the read after it succeeds again): with an input/output error, or, absent set, with
// the store's "key not found".
type c12ReadFaultStore struct {
	objects.Store
	mu     sync.Mutex
	key    string
	nth    int
	absent bool
	seen   int
	fired  bool
}

func (s *c12ReadFaultStore) Get(k []byte) ([]byte, error) {
	s.mu.Lock()
	if string(k) == s.key {
		s.seen++
		if s.seen == s.nth && !s.fired {
			s.fired = true
			s.mu.Unlock()
			if s.absent {
				return nil, objects.ErrKeyNotFound
			}
			return nil, errors.New("input/output error")
		}
	}
	s.mu.Unlock()
	return s.Store.Get(k)
}

func (s *c12ReadFaultStore) hit() bool {
	s.mu.Lock()
	defer s.mu.Unlock()
	return s.fired
}

// c12RunReadFault: prune while the nth read of commit c fails once, then prune once more on the
// healthy store. Judged like a failing ref scan: whatever the first run reports, nothing reachable
// from a ref may be lost; a run that reports success must have done the whole job.
func c12RunReadFault(w *c12World, c, nth int, kind string) (Res, *c12Repo) {
	before := w.dump()
	res := Guard(func() Res {
		fs := &c12ReadFaultStore{Store: w.db, key: "com/" + string(w.comSum[c]), nth: nth, absent: kind == "absent"}
		err := prune.Prune(fs, w.rs, nil)
		after := w.dump()
		usable := c12Usable(w, before, after)
		retryErr := prune.Prune(w.db, w.rs, nil) != nil
		again := w.dump()
		return Ok(map[string]interface{}{"faultHit": fs.hit(), "pruneErr": err != nil, "after": after, "usable": usable,
			"retryErr": retryErr, "afterRetry": again, "usableRetry": c12Usable(w, before, again)})
	})
	return res, before
}

// c12PickReadFault chooses the commit whose read fails and which of its reads, from the shape of the
// repository. The mark phase of prune reads the target of every ref, then the parents of everything
// it reaches; the sweep reads every surviving commit once more.
//   sel 0,1  a commit a ref points at that the mark phase comes to a second time — through another
//            ref on the same commit, or as an ancestor of another ref's commit (a release branch or
//            a tag on an older commit of main) —, its first read; none such: as sel 2
//   sel 2    any commit in the history of a ref, its first or second read, except the first read of
//            a ref's target that nothing else leads to
//   sel 3    any commit a ref points at, its first read
func c12PickReadFault(w *c12World, seed int64, sel int) (c, nth int, tags []string) {
	r := rand.New(rand.NewSource(seed*53 + 17))
	anc := map[int][]int{}
	refCount := map[int]int{}
	for _, x := range w.refs {
		refCount[x]++
		if anc[x] == nil {
			anc[x] = c11Ancestors(w.all, x)
		}
	}
	inner := func(x int) bool { // x is a proper ancestor of another ref's commit
		for y, a := range anc {
			if y == x {
				continue
			}
			for _, z := range a {
				if z == x {
					return true
				}
			}
		}
		return false
	}
	again := func(x int) bool { return refCount[x] >= 2 || inner(x) }
	inHistory := map[int]bool{}
	for _, a := range anc {
		for _, z := range a {
			inHistory[z] = true
		}
	}
	var targets, agains, others []int
	for _, c := range w.all {
		switch {
		case refCount[c.ID] > 0 && again(c.ID):
			targets = append(targets, c.ID)
			agains = append(agains, c.ID)
		case refCount[c.ID] > 0:
			targets = append(targets, c.ID)
		case inHistory[c.ID]:
			others = append(others, c.ID)
		}
	}
	pickFrom := func(ls ...[]int) int {
		for _, l := range ls {
			if len(l) > 0 {
				return l[r.Intn(len(l))]
			}
		}
		return 0
	}
	nth = 1
	switch sel {
	case 0, 1:
		c = pickFrom(agains)
	case 3:
		c = pickFrom(targets)
	}
	if c == 0 {
		// sel 2, or nothing of the wanted kind in this repository
		nth = 1 + r.Intn(2)
		if nth == 1 {
			c = pickFrom(append(append([]int{}, agains...), others...), targets)
		} else {
			c = pickFrom(append(append([]int{}, targets...), others...))
		}
		if c != 0 && refCount[c] > 0 && !again(c) {
			nth = 2
		}
	}
	if c == 0 {
		// no ref: nothing is read; any commit
		c = 1 + r.Intn(len(w.all))
	}
	tags = []string{"commit-read-fault"}
	if refCount[c] > 0 {
		tags = append(tags, "fault-on-ref-target")
		if again(c) {
			tags = append(tags, "ref-target-reached-again")
		} else {
			tags = append(tags, "ref-target-reached-once")
		}
	}
	tags = append(tags, "read#"+itoa(nth))
	return
}

func c12ReadFaultCase(ctx *Ctx, seed int64, sel int, kind string, fc, fn int, corpus bool) {
	if kind != "absent" {
		kind = ""
	}
	w, err := buildC12(seed, "readfault")
	if err != nil {
		if !corpus {
			ctx.Emit("prune-readfault", map[string]interface{}{"genSeed": seed, "shape": "readfault"}, Err("build"), false)
		}
		return
	}
	defer w.closeRS()
	refs := w.refs
	if refs == nil {
		refs = []int{}
	}
	c, nth, tags := c12PickReadFault(w, seed, sel)
	if corpus && fc > 0 && fn > 0 {
		if _, ok := w.comSum[fc]; ok {
			c, nth = fc, fn
		}
	}
	res, before := c12RunReadFault(w, c, nth, kind)
	if kind == "absent" {
		tags = append(tags, "read-reports-absent")
	} else {
		tags = append(tags, "read-reports-io-error")
	}
	nt := false
	if res["res"] == "ok" {
		v := res["val"].(map[string]interface{})
		if v["faultHit"].(bool) {
			tags = append(tags, "fault-hit")
		}
		nt = len(v["afterRetry"].(*c12Repo).Commits) < len(before.Commits)
		tags = append(tags, c12StateTags(w, before, v["afterRetry"].(*c12Repo))...)
	}
	if corpus {
		tags, nt = []string{"corpus"}, true
	}
	ctx.Emit("prune-readfault", &c12Input{Seed: seed, Before: before, Refs: refs, Shape: "readfault", Fault: nth, FaultCommit: c, FaultSel: sel, FaultKind: kind}, res, nt, tags...)
}

func c12Run(w *c12World) (Res, *c12Repo) {
	before := w.dump()
	res := Guard(func() Res {
		if err := prune.Prune(w.db, w.rs, nil); err != nil {
			return Err("prune")
		}
		after := w.dump()
		usable := c12Usable(w, before, after)
		// second prune must change nothing
		if err := prune.Prune(w.db, w.rs, nil); err != nil {
			return Err("prune-again")
		}
		again := w.dump()
		a1, _ := json.Marshal(after)
		a2, _ := json.Marshal(again)
		return Ok(map[string]interface{}{"after": after, "usable": usable, "idempotent": bytes.Equal(a1, a2)})
	})
	return res, before
}

// c12ShapeOf: the kind of case is a function of the case index alone.
func c12ShapeOf(idx int) string {
	switch {
	case idx%20 == 9:
		return "gc"
	case idx%20 == 4:
		return "reffault"
	case idx%40 == 14:
		return "big"
	}
	return ""
}

func c12Case(ctx *Ctx, seed int64, shape string, fault int, corpus bool) {
	if shape == "gc" {
		c12GCCase(ctx, seed, 0, corpus)
		return
	}
	if shape != "big" && shape != "reffault" {
		shape = ""
	}
	w, err := buildC12(seed, shape)
	if err != nil {
		if !corpus {
			ctx.Emit("prune", map[string]interface{}{"genSeed": seed, "shape": shape}, Err("build"), false)
		}
		return
	}
	defer w.closeRS()
	refs := w.refs
	if refs == nil {
		refs = []int{}
	}
	if shape == "reffault" {
		if fault < 0 || fault > 1000 {
			fault = 0
		}
		res, before := c12RunFault(w, fault)
		tags := []string{"ref-scan-fault"}
		nt := false
		if res["res"] == "ok" {
			v := res["val"].(map[string]interface{})
			if v["faultHit"].(bool) {
				tags = append(tags, "fault-hit")
			}
			nt = len(v["afterRetry"].(*c12Repo).Commits) < len(before.Commits)
			tags = append(tags, c12StateTags(w, before, v["afterRetry"].(*c12Repo))...)
		}
		if corpus {
			tags, nt = []string{"corpus"}, true
		}
		ctx.Emit("prune-fault", &c12Input{Seed: seed, Before: before, Refs: refs, Shape: shape, Fault: fault}, res, nt, tags...)
		return
	}
	res, before := c12Run(w)
	in := &c12Input{Seed: seed, Before: before, Refs: refs, Shape: shape}
	if corpus {
		ctx.Emit("prune", in, res, true, "corpus")
		return
	}
	nt := false
	if res["res"] == "ok" {
		after := res["val"].(map[string]interface{})["after"].(*c12Repo)
		nt = len(after.Commits) < len(before.Commits) && len(after.Commits) > 0
	}
	tags := []string{}
	if len(before.Tables) < len(w.tables) {
		tags = append(tags, "shallow")
	}
	if shape == "big" {
		tags = append(tags, "badger-big")
	}
	var after *c12Repo
	if res["res"] == "ok" {
		after = res["val"].(map[string]interface{})["after"].(*c12Repo)
	}
	tags = append(tags, c12StateTags(w, before, after)...)
	ctx.Emit("prune", in, res, nt, tags...)
}

func runC12(ctx *Ctx) {
	if ctx.Idx%40 == 39 {
		runC12CLI(ctx)
		return
	}
	seed := ctx.Seed*1000003 + int64(ctx.Idx)
	shape := c12ShapeOf(ctx.Idx)
	fault := 0
	if shape == "reffault" {
		// 0..5 rows of the scan are delivered before the error (2..5 refs exist)
		fault = []int{1, 2, 0, 1, 3, 2, 1, 4, 2, 5}[(ctx.Idx/20)%10]
	}
	if shape == "gc" {
		c12GCCase(ctx, seed, c12ZoneOf(ctx.Idx), false)
		return
	}
	c12Case(ctx, seed, shape, fault, false)
	if ctx.Idx%10 == 7 {
		// in addition to the case above: a repository of its own with more refs, pruned while one
		// read of one commit fails once
		c12ReadFaultCase(ctx, seed, (ctx.Idx/10)%4, []string{"", "absent"}[(ctx.Idx/40)%2], 0, 0, false)
	}
}

func corpusC12(ctx *Ctx, op string, raw json.RawMessage) {
	if op == "gc-cli" {
		var in c12CLIInput
		if err := json.Unmarshal(raw, &in); err != nil {
			panic(err)
		}
		ctx.Emit(op, &in, c12CLIRun(&in), true, "corpus")
		return
	}
	var in c12Input
	if err := json.Unmarshal(raw, &in); err != nil {
		panic(err)
	}
	if in.Shape == "readfault" {
		c12ReadFaultCase(ctx, in.Seed, in.FaultSel, in.FaultKind, in.FaultCommit, in.Fault, true)
		return
	}
	if in.Shape == "gc" && in.GC != nil {
		c12GCCase(ctx, in.Seed, in.GC.Zone, true)
		return
	}
	c12Case(ctx, in.Seed, in.Shape, in.Fault, true)
}
