package main

// C14 through the command line: a transaction staging several branches, `wrgl transaction commit`
// failing midway (the staged commit object of one branch is made unreadable), then — with the
// object restored — the same command again: it must complete to the all-branches outcome.

import (
	"fmt"
	"os"
	"path/filepath"
	"strings"

	"github.com/wrgl/wrgl/pkg/local"
	"github.com/wrgl/wrgl/pkg/objects"
	"github.com/wrgl/wrgl/pkg/ref"
)

type c14CLIInput struct {
	Branches int `json:"branches"`
	Victim   int `json:"victim"` // which staged branch has its commit object hidden for the first attempt
}

func c14CLIRun(in *c14CLIInput) Res {
	root, err := os.MkdirTemp(privateTmp(), "tcli-")
	if err != nil {
		return Err("tmpdir")
	}
	defer os.RemoveAll(root)
	os.Setenv("XDG_CONFIG_HOME", filepath.Join(root, "xdg"))
	os.Setenv("HOME", root)
	return Guard(func() Res {
		dir := filepath.Join(root, "repo", ".wrgl")
		os.MkdirAll(filepath.Join(root, "repo"), 0755)
		rd, err := local.NewRepoDir(dir, "")
		if err != nil {
			return Err("repodir")
		}
		if err := rd.Init(); err != nil {
			return Err("init")
		}
		rd.Close()
		run := func(args ...string) (string, bool) {
			out, err := cli(dir, args...)
			if err != nil {
				return strings.Join(args, " ") + ": " + out + ": " + err.Error(), false
			}
			return out, true
		}
		for _, a := range [][]string{{"config", "set", "user.email", "u@example.com"}, {"config", "set", "user.name", "U"}} {
			if out, ok := run(a...); !ok {
				return Res{"res": "err", "kind": out}
			}
		}
		txid, ok := run("transaction", "start")
		if !ok {
			return Res{"res": "err", "kind": txid}
		}
		txid = strings.TrimSpace(txid)
		names := []string{}
		for i := 0; i < in.Branches; i++ {
			b := fmt.Sprintf("br%d", i)
			names = append(names, b)
			fp := filepath.Join(root, b+".csv")
			os.WriteFile(fp, []byte(fmt.Sprintf("k,v\n1,%s\n", b)), 0644)
			if out, ok := run("commit", b, fp, "staged "+b, "-n", "1", "-p", "k", "--txid", txid); !ok {
				return Res{"res": "err", "kind": out}
			}
		}
		withRepo := func(f func(db objects.Store, rs ref.Store)) bool {
			rd, err := local.NewRepoDir(dir, "")
			if err != nil {
				return false
			}
			defer rd.Close()
			db, err := rd.OpenObjectsStore()
			if err != nil {
				return false
			}
			defer db.Close()
			f(db, rd.OpenRefStore())
			return true
		}
		// hide the staged commit object of the victim branch
		var victimSum, victimBytes []byte
		withRepo(func(db objects.Store, rs ref.Store) {
			all, _ := ref.ListAllRefs(rs)
			for name, sum := range all {
				if strings.HasPrefix(name, "txs/") && strings.HasSuffix(name, "/"+names[in.Victim%len(names)]) {
					victimSum = sum
					victimBytes, _ = db.Get(append([]byte("com/"), sum...))
					db.Delete(append([]byte("com/"), sum...))
				}
			}
		})
		if victimBytes == nil {
			return Err("no-victim")
		}
		_, firstOK := run("transaction", "commit", txid)
		moved1 := 0
		withRepo(func(db objects.Store, rs ref.Store) {
			hs, _ := ref.ListHeads(rs)
			moved1 = len(hs)
			db.Set(append([]byte("com/"), victimSum...), victimBytes)
		})
		out2, secondOK := run("transaction", "commit", txid)
		moved2, staged, logged := 0, 0, 0
		withRepo(func(db objects.Store, rs ref.Store) {
			hs, _ := ref.ListHeads(rs)
			moved2 = len(hs)
			all, _ := ref.ListAllRefs(rs)
			for name := range all {
				if strings.HasPrefix(name, "txs/") {
					staged++
				}
			}
			for b := range hs {
				lr, err := rs.LogReader("heads/" + b)
				if err != nil {
					continue
				}
				for {
					if _, err := lr.Read(); err != nil {
						break
					}
					logged++
				}
				lr.Close()
			}
		})
		if !secondOK && len(out2) > 300 {
			out2 = out2[:300]
		}
		return Ok(map[string]interface{}{"firstFailed": !firstOK, "movedAfterFirst": moved1, "secondOk": secondOK,
			"movedAfterSecond": moved2, "logEntries": logged, "stagedLeft": staged, "secondOutput": out2})
	})
}

func runC14CLI(ctx *Ctx) {
	in := &c14CLIInput{Branches: 2 + ctx.R.Intn(5), Victim: ctx.R.Intn(7)}
	ctx.Emit("tx-cli", in, c14CLIRun(in), true, "cli")
}
