package main

// C14 through the command line: a transaction staging several branches, `wrgl transaction commit`
// failing midway (the staged commit object of one branch is made unreadable), then — with the
// object restored — the same command again: it must complete to the all-branches outcome.

import (
	"fmt"
	"math/rand"
	"os"
	"path/filepath"
	"sort"
	"strings"

	"github.com/google/uuid"
	"github.com/wrgl/wrgl/pkg/local"
	"github.com/wrgl/wrgl/pkg/objects"
	"github.com/wrgl/wrgl/pkg/ref"
)

type c14CLIInput struct {
	Branches int `json:"branches"`
	Victim   int `json:"victim"` // which staged branch has its commit object hidden for the first attempt
}

func c14CLIRun(in *c14CLIInput) Res {
	root, err := os.MkdirTemp(privateTmp(), "tcli-")
	if err != nil {
		return Err("tmpdir")
	}
	defer os.RemoveAll(root)
	os.Setenv("XDG_CONFIG_HOME", filepath.Join(root, "xdg"))
	os.Setenv("HOME", root)
	return Guard(func() Res {
		dir := filepath.Join(root, "repo", ".wrgl")
		os.MkdirAll(filepath.Join(root, "repo"), 0755)
		rd, err := local.NewRepoDir(dir, "")
		if err != nil {
			return Err("repodir")
		}
		if err := rd.Init(); err != nil {
			return Err("init")
		}
		rd.Close()
		run := func(args ...string) (string, bool) {
			out, err := cli(dir, args...)
			if err != nil {
				return strings.Join(args, " ") + ": " + out + ": " + err.Error(), false
			}
			return out, true
		}
		for _, a := range [][]string{{"config", "set", "user.email", "u@example.com"}, {"config", "set", "user.name", "U"}} {
			if out, ok := run(a...); !ok {
				return Res{"res": "err", "kind": out}
			}
		}
		txid, ok := run("transaction", "start")
		if !ok {
			return Res{"res": "err", "kind": txid}
		}
		txid = strings.TrimSpace(txid)
		names := []string{}
		for i := 0; i < in.Branches; i++ {
			b := fmt.Sprintf("br%d", i)
			names = append(names, b)
			fp := filepath.Join(root, b+".csv")
			os.WriteFile(fp, []byte(fmt.Sprintf("k,v\n1,%s\n", b)), 0644)
			if out, ok := run("commit", b, fp, "staged "+b, "-n", "1", "-p", "k", "--txid", txid); !ok {
				return Res{"res": "err", "kind": out}
			}
		}
		withRepo := func(f func(db objects.Store, rs ref.Store)) bool {
			rd, err := local.NewRepoDir(dir, "")
			if err != nil {
				return false
			}
			defer rd.Close()
			db, err := rd.OpenObjectsStore()
			if err != nil {
				return false
			}
			defer db.Close()
			f(db, rd.OpenRefStore())
			return true
		}
		// hide the staged commit object of the victim branch
		var victimSum, victimBytes []byte
		withRepo(func(db objects.Store, rs ref.Store) {
			all, _ := ref.ListAllRefs(rs)
			for name, sum := range all {
				if strings.HasPrefix(name, "txs/") && strings.HasSuffix(name, "/"+names[in.Victim%len(names)]) {
					victimSum = sum
					victimBytes, _ = db.Get(append([]byte("com/"), sum...))
					db.Delete(append([]byte("com/"), sum...))
				}
			}
		})
		if victimBytes == nil {
			return Err("no-victim")
		}
		_, firstOK := run("transaction", "commit", txid)
		moved1 := 0
		withRepo(func(db objects.Store, rs ref.Store) {
			hs, _ := ref.ListHeads(rs)
			moved1 = len(hs)
			db.Set(append([]byte("com/"), victimSum...), victimBytes)
		})
		out2, secondOK := run("transaction", "commit", txid)
		moved2, staged, logged := 0, 0, 0
		withRepo(func(db objects.Store, rs ref.Store) {
			hs, _ := ref.ListHeads(rs)
			moved2 = len(hs)
			all, _ := ref.ListAllRefs(rs)
			for name := range all {
				if strings.HasPrefix(name, "txs/") {
					staged++
				}
			}
			for b := range hs {
				lr, err := rs.LogReader("heads/" + b)
				if err != nil {
					continue
				}
				for {
					if _, err := lr.Read(); err != nil {
						break
					}
					logged++
				}
				lr.Close()
			}
		})
		if !secondOK && len(out2) > 300 {
			out2 = out2[:300]
		}
		return Ok(map[string]interface{}{"firstFailed": !firstOK, "movedAfterFirst": moved1, "secondOk": secondOK,
			"movedAfterSecond": moved2, "logEntries": logged, "stagedLeft": staged, "secondOutput": out2})
	})
}

func runC14CLI(ctx *Ctx) {
	in := &c14CLIInput{Branches: 2 + ctx.R.Intn(5), Victim: ctx.R.Intn(7)}
	ctx.Emit("tx-cli", in, c14CLIRun(in), true, "cli")
}

// ---- staging through the command line ------------------------------------------------------------
//
// The branches of a transaction are staged by `wrgl commit ... --txid T` in one of its three forms
// (CSV file on the command line; file and primary key taken from branch.<name>.file; `--all`), on a
// repository whose existing branches were made by `wrgl commit`. The repository is dumped before
// staging, after staging and after every `wrgl transaction commit/discard`, in the terms of the
// transaction model (c14State): staging moves no branch, and everything that follows is the
// all-or-nothing property of C14 on what was staged.

type c14StageInput struct {
	Heads  map[string]int `json:"heads"`  // existing branches -> orig commit id
	Staged map[string]int `json:"staged"` // branch -> staged commit id
	Form   string         `json:"form"`   // file | branch | all
	Ops    []c14Op        `json:"ops"`    // commit | discard, possibly with Hide
}

func c14StageRun(in *c14StageInput) Res {
	root, err := os.MkdirTemp(privateTmp(), "tstage-")
	if err != nil {
		return Err("tmpdir")
	}
	defer os.RemoveAll(root)
	os.Setenv("XDG_CONFIG_HOME", filepath.Join(root, "xdg"))
	os.Setenv("HOME", root)
	return Guard(func() Res {
		dir := filepath.Join(root, "repo", ".wrgl")
		os.MkdirAll(filepath.Join(root, "repo"), 0755)
		rd, err := local.NewRepoDir(dir, "")
		if err != nil {
			return Err("repodir")
		}
		if err := rd.Init(); err != nil {
			return Err("init")
		}
		rd.Close()
		run := func(args ...string) (string, bool) {
			out, err := cli(dir, args...)
			if err != nil {
				return strings.Join(args, " ") + ": " + out + ": " + err.Error(), false
			}
			return out, true
		}
		fail := func(what string) Res {
			if len(what) > 300 {
				what = what[:300]
			}
			return Res{"res": "err", "kind": what}
		}
		withRepo := func(f func(db objects.Store, rs ref.Store)) bool {
			rd, err := local.NewRepoDir(dir, "")
			if err != nil {
				return false
			}
			defer rd.Close()
			db, err := rd.OpenObjectsStore()
			if err != nil {
				return false
			}
			defer db.Close()
			f(db, rd.OpenRefStore())
			return true
		}
		for _, a := range [][]string{{"config", "set", "user.email", "u@example.com"}, {"config", "set", "user.name", "U"}} {
			if out, ok := run(a...); !ok {
				return fail(out)
			}
		}
		sortedKeys := func(m map[string]int) []string {
			ks := []string{}
			for k := range m {
				ks = append(ks, k)
			}
			sort.Strings(ks)
			return ks
		}
		file := func(b string) string { return filepath.Join(root, b+".csv") }
		// existing branches
		for _, b := range sortedKeys(in.Heads) {
			os.WriteFile(file(b), []byte(fmt.Sprintf("k,v\n1,o%d\n", in.Heads[b])), 0644)
			args := []string{"commit", b, file(b), "c" + itoa(in.Heads[b]), "-n", "1", "-p", "k"}
			if in.Form != "file" {
				args = append(args, "--set-file", "--set-primary-key")
			}
			if out, ok := run(args...); !ok {
				return fail(out)
			}
			if in.Form != "file" {
				if out, ok := run("config", "set", "branch."+b+".merge", "refs/heads/"+b); !ok {
					return fail(out)
				}
			}
		}
		origID := map[string]int{}
		withRepo(func(db objects.Store, rs ref.Store) {
			for b, id := range in.Heads {
				if s, err := ref.GetHead(rs, b); err == nil {
					origID[string(s)] = id
				}
			}
		})
		if len(origID) != len(in.Heads) {
			return fail("setup: branches missing")
		}
		out, ok := run("transaction", "start")
		if !ok {
			return fail(out)
		}
		txidStr := strings.TrimSpace(out)
		txid, err := uuid.Parse(txidStr)
		if err != nil {
			return fail("txid: " + out)
		}
		isBranch := func(b string) bool {
			_, h := in.Heads[b]
			_, s := in.Staged[b]
			return h || s
		}
		stagedByTable := map[string]int{}
		dump := func(outcome string) c14State {
			st := c14State{Heads: [][]string{}, Staged: []string{}, Logs: map[string]int{}, Outcome: outcome, Moved: []string{}}
			withRepo(func(db objects.Store, rs ref.Store) {
				var cidOf func(sum []byte, depth int) string
				cidOf = func(sum []byte, depth int) string {
					if sum == nil {
						return "none"
					}
					if id, ok := origID[string(sum)]; ok {
						return fmt.Sprintf("o%d", id)
					}
					c, err := objects.GetCommit(db, sum)
					if err != nil {
						return "missing"
					}
					var parent []byte
					if len(c.Parents) > 0 {
						parent = c.Parents[0]
					}
					if depth > 8 {
						return "deep"
					}
					// a commit made by the transaction carries the table of a staged commit and says so
					if id, ok := stagedByTable[string(c.Table)]; ok && strings.HasPrefix(c.Message, "commit [tx/"+txidStr+"]") && len(c.Parents) <= 1 {
						return fmt.Sprintf("t(%d,%s)", id, cidOf(parent, depth+1))
					}
					return fmt.Sprintf("x(%s)", cidOf(parent, depth+1))
				}
				hs, _ := ref.ListHeads(rs)
				for b, s := range hs {
					// `wrgl commit` from a branch file keeps the ingested file as branch <name>-tmp (a cache)
					if strings.HasSuffix(b, "-tmp") && isBranch(strings.TrimSuffix(b, "-tmp")) {
						continue
					}
					st.Heads = append(st.Heads, []string{b, cidOf(s, 0)})
				}
				sort.Slice(st.Heads, func(i, j int) bool { return st.Heads[i][0] < st.Heads[j][0] })
				ts, _ := ref.ListTransactionRefs(rs, txid)
				for b := range ts {
					st.Staged = append(st.Staged, b)
				}
				sort.Strings(st.Staged)
				if tx, err := rs.GetTransaction(txid); err == nil {
					st.Exists = true
					st.Committed = tx.Status == ref.TSCommitted
				}
				for b := range hs {
					lr, err := rs.LogReader("heads/" + b)
					if err != nil {
						continue
					}
					for {
						l, err := lr.Read()
						if err != nil {
							break
						}
						if l.Txid != nil && *l.Txid == txid {
							st.Logs[b]++
						}
					}
					lr.Close()
					if st.Logs[b] > 0 {
						st.Moved = append(st.Moved, b)
					}
				}
				sort.Strings(st.Moved)
			})
			return st
		}
		pre := dump("pre")
		// staging
		for _, b := range sortedKeys(in.Staged) {
			os.WriteFile(file(b), []byte(fmt.Sprintf("k,v\n1,s%d\n2,%s\n", in.Staged[b], b)), 0644)
			var args []string
			switch in.Form {
			case "file":
				args = []string{"commit", b, file(b), "c" + itoa(in.Staged[b]), "-n", "1", "-p", "k", "--txid", txidStr}
			case "branch":
				args = []string{"commit", b, "c" + itoa(in.Staged[b]), "-n", "1", "--txid", txidStr}
			default:
				continue
			}
			if out, ok := run(args...); !ok {
				return fail(out)
			}
		}
		if in.Form == "all" {
			if out, ok := run("commit", "--all", "--txid", txidStr, "-n", "1", "staged together"); !ok {
				return fail(out)
			}
		}
		// what was staged: the tables of the staged commits
		withRepo(func(db objects.Store, rs ref.Store) {
			ts, _ := ref.ListTransactionRefs(rs, txid)
			for b, s := range ts {
				if c, err := objects.GetCommit(db, s); err == nil {
					if id, ok := in.Staged[b]; ok {
						stagedByTable[string(c.Table)] = id
					}
				}
			}
		})
		states := []c14State{dump("init")}
		for _, op := range in.Ops {
			var hiddenKey, hiddenVal []byte
			if op.Hide != "" {
				withRepo(func(db objects.Store, rs ref.Store) {
					ts, _ := ref.ListTransactionRefs(rs, txid)
					if s, ok := ts[op.Hide]; ok {
						hiddenKey = append([]byte("com/"), s...)
						hiddenVal, _ = db.Get(hiddenKey)
						if hiddenVal != nil {
							db.Delete(hiddenKey)
						}
					}
				})
			}
			var ok bool
			switch op.Kind {
			case "commit":
				_, ok = run("transaction", "commit", txidStr)
			case "discard":
				_, ok = run("transaction", "discard", txidStr)
			}
			if hiddenVal != nil {
				withRepo(func(db objects.Store, rs ref.Store) { db.Set(hiddenKey, hiddenVal) })
			}
			outcome := "ok"
			if !ok {
				outcome = "error"
			}
			states = append(states, dump(outcome))
		}
		return Ok(map[string]interface{}{"pre": pre, "states": states})
	})
}

func genC14Stage(r *rand.Rand, form string) *c14StageInput {
	in := &c14StageInput{Heads: map[string]int{}, Staged: map[string]int{}}
	branches := []string{"a", "b", "c", "d"}
	in.Form = form
	ns := 1 + r.Intn(3)
	perm := r.Perm(len(branches))
	id := 1
	for i, p := range perm {
		b := branches[p]
		// a staged branch of the branch-file forms exists already (that is where its file is configured);
		// otherwise branches exist or not, staged or not
		if (i < ns && in.Form != "file") || r.Intn(2) == 0 {
			in.Heads[b] = id
			id++
		}
	}
	for i := 0; i < ns; i++ {
		in.Staged[branches[perm[i]]] = id
		id++
	}
	staged := []string{}
	for b := range in.Staged {
		staged = append(staged, b)
	}
	sort.Strings(staged)
	none := func(kind string) c14Op { return c14Op{Kind: kind, FailAt: -1} }
	hide := c14Op{Kind: "commit", FailAt: -1, Hide: staged[r.Intn(len(staged))]}
	switch r.Intn(6) {
	case 0:
		in.Ops = []c14Op{none("discard")}
	case 1:
		in.Ops = []c14Op{none("discard"), none("commit")}
	case 2:
		in.Ops = []c14Op{none("commit"), none("discard")}
	case 3:
		in.Ops = []c14Op{none("commit"), none("commit")}
	case 4:
		in.Ops = []c14Op{hide, none("commit")}
	default:
		in.Ops = []c14Op{hide, none("discard")}
	}
	return in
}

func runC14Stage(ctx *Ctx) {
	// the three forms of the command take turns
	every := map[bool]int{false: 100, true: 400}[ctx.Thorough()]
	in := genC14Stage(ctx.R, []string{"branch", "all", "file"}[(ctx.Idx/every)%3])
	ctx.Emit("tx-cli-stage", in, c14StageRun(in), true, "cli-stage", "form-"+in.Form)
}
