package main

// C01 through the command line: `wrgl commit` of a CSV file followed by `wrgl export`, both run
// in-process on a badger + SQLite repository. What comes out must be the model's stored rows.

import (
	"os"
	"path/filepath"
	"strings"
	"time"

	"github.com/wrgl/wrgl/pkg/local"
	"github.com/wrgl/wrgl/pkg/objects"
	"github.com/wrgl/wrgl/pkg/ref"
)

func c01CLI(spec *TableSpec) (*ingestInput, Res) {
	csvBytes := spec.CSV(0)
	hdr, rows, err := rereadCSV(csvBytes, 0)
	in := &ingestInput{PK: spec.PKIdx(), RunSize: 0, Workers: 1, Spec: spec}
	if err != nil {
		return in, Err("csv-reread")
	}
	in.Columns = hxRow(hdr)
	in.Rows = hxRows(rows)
	if in.Rows == nil {
		in.Rows = [][]string{}
	}
	root, err := os.MkdirTemp(privateTmp(), "cli-")
	if err != nil {
		return in, Err("tmpdir")
	}
	defer os.RemoveAll(root)
	os.Setenv("XDG_CONFIG_HOME", filepath.Join(root, "xdg"))
	os.Setenv("HOME", root)
	res := Guard(func() Res {
		dir := filepath.Join(root, "repo", ".wrgl")
		os.MkdirAll(filepath.Join(root, "repo"), 0755)
		rd, err := local.NewRepoDir(dir, "")
		if err != nil {
			return Err("repodir")
		}
		if err := rd.Init(); err != nil {
			return Err("init")
		}
		rd.Close()
		for _, a := range [][]string{{"config", "set", "user.email", "u@example.com"}, {"config", "set", "user.name", "U"}} {
			if out, err := cli(dir, a...); err != nil {
				return Res{"res": "err", "kind": "setup:" + out + err.Error()}
			}
		}
		fp := filepath.Join(root, "in.csv")
		os.WriteFile(fp, csvBytes, 0644)
		args := []string{"commit", "main", fp, "initial commit", "-n", "1"}
		if len(spec.PK) > 0 {
			args = append(args, "-p", strings.Join(spec.PK, ","))
		}
		if out, err := cli(dir, args...); err != nil {
			return Res{"res": "err", "kind": "commit:" + out + ":" + err.Error()}
		}
		out, err := cli(dir, "export", "main")
		if err != nil {
			return Res{"res": "err", "kind": "export:" + out + ":" + err.Error()}
		}
		ehdr, erows, err := rereadCSV([]byte(out), 0)
		if err != nil {
			return Err("export-not-csv")
		}
		er := hxRows(erows)
		if er == nil {
			er = [][]string{}
		}
		return Ok(map[string]interface{}{"columns": hxRow(ehdr), "rows": er})
	})
	return in, res
}

// cliSafe: the CLI takes key column names separated by commas and the export goes through
// encoding/csv once more; keep to specs for which that is lossless by construction.
func cliSafe(spec *TableSpec) bool {
	if len(spec.Rows) == 0 || len(spec.Rows) > 600 {
		return false
	}
	for _, c := range spec.Columns {
		if c == "" || strings.ContainsAny(c, ",\r\n\"") {
			return false
		}
	}
	for _, row := range spec.Rows {
		for _, c := range row {
			if strings.Contains(c, "\r") || len(c) > 60000 {
				return false
			}
		}
	}
	return true
}


// c01CLIFile: commit from the branch's configured file (`--set-file`), then edit the file within
// the same second as the cached temporary commit (its time is stored to the second) and commit
// again: the edit must be committed. Returns the exported rows after the last commit.
func c01CLIFile(spec, edited *TableSpec, offsetMs int) (*ingestInput, Res) {
	csvBytes := edited.CSV(0)
	hdr, rows, err := rereadCSV(csvBytes, 0)
	in := &ingestInput{PK: edited.PKIdx(), RunSize: 0, Workers: 1, Spec: edited}
	if err != nil {
		return in, Err("csv-reread")
	}
	in.Columns = hxRow(hdr)
	in.Rows = hxRows(rows)
	root, err := os.MkdirTemp(privateTmp(), "cfile-")
	if err != nil {
		return in, Err("tmpdir")
	}
	defer os.RemoveAll(root)
	os.Setenv("XDG_CONFIG_HOME", filepath.Join(root, "xdg"))
	os.Setenv("HOME", root)
	res := Guard(func() Res {
		dir := filepath.Join(root, "repo", ".wrgl")
		os.MkdirAll(filepath.Join(root, "repo"), 0755)
		rd, err := local.NewRepoDir(dir, "")
		if err != nil {
			return Err("repodir")
		}
		if err := rd.Init(); err != nil {
			return Err("init")
		}
		rd.Close()
		for _, a := range [][]string{{"config", "set", "user.email", "u@example.com"}, {"config", "set", "user.name", "U"}} {
			if out, err := cli(dir, a...); err != nil {
				return Res{"res": "err", "kind": "setup:" + out + err.Error()}
			}
		}
		fp := filepath.Join(root, "branch.csv")
		os.WriteFile(fp, spec.CSV(0), 0644)
		if out, err := cli(dir, "commit", "main", fp, "first", "-n", "1", "-p", strings.Join(spec.PK, ","), "--set-file", "--set-primary-key"); err != nil {
			return Res{"res": "err", "kind": "commit1:" + out + ":" + err.Error()}
		}
		// nothing changed: leaves the cached temporary commit main-tmp
		cli(dir, "commit", "main", "second", "-n", "1")
		var tmpTime time.Time
		func() {
			rd, err := local.NewRepoDir(dir, "")
			if err != nil {
				return
			}
			defer rd.Close()
			db, err := rd.OpenObjectsStore()
			if err != nil {
				return
			}
			defer db.Close()
			if sum, err := ref.GetHead(rd.OpenRefStore(), "main-tmp"); err == nil {
				if c, err := objects.GetCommit(db, sum); err == nil {
					tmpTime = c.Time
				}
			}
		}()
		if tmpTime.IsZero() {
			return Err("no-temp-commit")
		}
		os.WriteFile(fp, csvBytes, 0644)
		mt := tmpTime.Add(time.Duration(offsetMs) * time.Millisecond)
		os.Chtimes(fp, mt, mt)
		if out, err := cli(dir, "commit", "main", "third", "-n", "1"); err != nil {
			return Res{"res": "err", "kind": "commit3:" + out + ":" + err.Error()}
		}
		out, err := cli(dir, "export", "main")
		if err != nil {
			return Res{"res": "err", "kind": "export:" + out + ":" + err.Error()}
		}
		ehdr, erows, err := rereadCSV([]byte(out), 0)
		if err != nil {
			return Err("export-not-csv")
		}
		er := hxRows(erows)
		if er == nil {
			er = [][]string{}
		}
		return Ok(map[string]interface{}{"columns": hxRow(ehdr), "rows": er})
	})
	return in, res
}
