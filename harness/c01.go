package main

import (
	"bytes"
	"context"
	"database/sql"
	"encoding/csv"
	"encoding/json"
	"fmt"
	"math/rand"
	"time"

	"github.com/go-logr/logr"
	_ "github.com/mattn/go-sqlite3"
	"github.com/pckhoi/meow"
	"github.com/wrgl/wrgl/pkg/conf"
	"github.com/wrgl/wrgl/pkg/doctor"
	"github.com/wrgl/wrgl/pkg/objects"
	"github.com/wrgl/wrgl/pkg/ref"
	refsql "github.com/wrgl/wrgl/pkg/ref/sql"
)

func init() {
	runners["C01"] = runC01
	corpusRunners["C01"] = corpusC01
	runners["C02"] = runC02
	corpusRunners["C02"] = corpusC02
	// C03 is registered in c03.go (runC03All), which adds the producers other than ingest
}

// NewRefStore opens a fresh in-memory SQLite ref store.
var refStoreCounter int

func NewRefStore() (ref.Store, func()) {
	s, _, c := NewRefStoreDB()
	return s, c
}

// NewRefStoreDB also hands out the database (fault injection through SQL triggers).
func NewRefStoreDB() (ref.Store, *sql.DB, func()) {
	refStoreCounter++
	db, err := sql.Open("sqlite3", fmt.Sprintf("file:verif%d_%d.db?cache=shared&mode=memory", time.Now().UnixNano(), refStoreCounter))
	if err != nil {
		panic(err)
	}
	for _, stmt := range refsql.CreateTableStmts {
		if _, err := db.Exec(stmt); err != nil {
			panic(err)
		}
	}
	return refsql.NewStore(db), db, func() { db.Close() }
}

type ingestInput struct {
	Columns []string   `json:"columns"` // hex
	PK      []int      `json:"pk"`
	Rows    [][]string `json:"rows"` // hex; as encoding/csv re-reads the file that was written
	RunSize uint64     `json:"runSize"`
	Workers int        `json:"workers"`
	Comma   string     `json:"comma,omitempty"`
	// Spec lets a corpus entry be replayed (rows as generated, before the CSV round trip)
	Spec *TableSpec `json:"spec,omitempty"`
}

// rereadCSV returns what a plain encoding/csv reader sees in the file (header, rows).
func rereadCSV(b []byte, comma rune) ([]string, [][]string, error) {
	r := csv.NewReader(bytes.NewReader(b))
	if comma != 0 {
		r.Comma = comma
	}
	all, err := r.ReadAll()
	if err != nil {
		return nil, nil, err
	}
	if len(all) == 0 {
		return nil, nil, fmt.Errorf("empty csv")
	}
	return all[0], all[1:], nil
}

// rereadCSVVar reads a CSV whose records have different numbers of fields.
func rereadCSVVar(b []byte) ([]string, [][]string, error) {
	r := csv.NewReader(bytes.NewReader(b))
	r.FieldsPerRecord = -1
	all, err := r.ReadAll()
	if err != nil {
		return nil, nil, err
	}
	if len(all) == 0 {
		return nil, nil, fmt.Errorf("empty csv")
	}
	return all[0], all[1:], nil
}

type rowHashes struct {
	PK  string `json:"pk"`
	Row string `json:"row"`
}

// hashRows computes, independently of the ingest/index code, the key hash and row hash of every
// stored row (meow of the string-list encoding).
func hashRows(d *TableDump) [][]rowHashes {
	enc := objects.NewStrListEncoder(true)
	out := make([][]rowHashes, len(d.Blocks))
	for i, b := range d.Blocks {
		for _, rh := range b.Rows {
			row := unhexStrs(rh)
			rs := meow.Checksum(0, enc.Encode(row))
			ps := rs
			if len(d.PK) > 0 {
				key := make([]string, len(d.PK))
				for k, p := range d.PK {
					if p < len(row) {
						key[k] = row[p]
					}
				}
				ps = meow.Checksum(0, enc.Encode(key))
			}
			out[i] = append(out[i], rowHashes{PK: hx(ps[:]), Row: hx(rs[:])})
		}
	}
	return out
}

func diagnoseTable(db objects.Store, tableSum []byte) (issues []string, err error) {
	rs, closeRS := NewRefStore()
	defer closeRS()
	com := &objects.Commit{Table: tableSum, AuthorName: "a", AuthorEmail: "a@b.c", Time: time.Unix(1700000000, 0).UTC(), Message: "m"}
	buf := newBuf()
	if _, err = com.WriteTo(buf); err != nil {
		return
	}
	sum, err := objects.SaveCommit(db, buf.Bytes())
	if err != nil {
		return
	}
	if err = ref.CommitHead(rs, "main", sum, com, nil); err != nil {
		return
	}
	d := doctor.NewDoctor(db, rs, conf.User{Name: "a", Email: "a@b.c"}, logr.Discard())
	ch, errCh, err := d.Diagnose(context.Background(), nil, nil, nil)
	if err != nil {
		return
	}
	issues = []string{}
	for ri := range ch {
		for _, iss := range ri.Issues {
			issues = append(issues, iss.Err)
		}
	}
	if e, ok := <-errCh; ok && e != nil {
		return nil, e
	}
	return
}

type ingestResult struct {
	Table   *TableDump    `json:"table"`
	Hashes  [][]rowHashes `json:"hashes,omitempty"`
	Issues  []string      `json:"issues"`
	TblRaw  string        `json:"tableBytes,omitempty"`
	TblHash string        `json:"tableDigest,omitempty"`
}

func doIngest(spec *TableSpec, runSize uint64, workers int, comma rune, withInv bool) (*ingestInput, Res) {
	csvBytes := spec.CSV(comma)
	hdr, rows, err := rereadCSV(csvBytes, comma)
	in := &ingestInput{PK: spec.PKIdx(), RunSize: runSize, Workers: workers, Spec: spec}
	if comma != 0 {
		in.Comma = string(comma)
	}
	if err != nil {
		return in, Err("csv-reread")
	}
	in.Columns = hxRow(hdr)
	in.Rows = hxRows(rows)
	if in.Rows == nil {
		in.Rows = [][]string{}
	}
	res := Guard(func() Res {
		db := NewMemStore()
		sum, err := IngestCSV(db, csvBytes, spec.PK, IngestCfg{RunSize: runSize, Workers: workers, Comma: comma})
		if err != nil {
			return Err("ingest")
		}
		d, err := DumpTable(db, sum, true)
		if err != nil {
			return Err("dump")
		}
		out := &ingestResult{Table: d}
		if withInv {
			out.Hashes = hashRows(d)
			iss, err := diagnoseTable(db, sum)
			if err != nil {
				return Err("diagnose")
			}
			out.Issues = iss
			raw, err := db.Get(append([]byte("tbl/"), sum...))
			if err == nil {
				out.TblRaw = hx(raw)
				dg := meow.Checksum(0, raw)
				out.TblHash = hx(dg[:])
			}
		}
		return Ok(out)
	})
	return in, res
}

func genIngestSpec(r *rand.Rand, thorough bool) (*TableSpec, uint64, int, rune, []string) {
	nCols := 1 + r.Intn(4)
	pk := genPK(r, nCols)
	maxBlocks := 2
	if thorough {
		maxBlocks = 4
	}
	n := genRowCount(r, maxBlocks)
	mode := r.Intn(3)
	if n > 300 {
		mode = 0
	}
	t := GenTable(r, nCols, n, pk, mode)
	tags := []string{}
	if r.Intn(8) == 0 && plantPrefixKeys(r, t, pk) {
		tags = append(tags, "separator-bytes-in-key")
	}
	if r.Intn(4) == 0 && len(t.Rows) > 0 {
		e := make([]string, nCols)
		if len(pk) > 0 {
			for c := range e {
				e[c] = genCell(r)
			}
			for _, p := range pk {
				e[p] = ""
			}
		} else if nCols == 1 {
			e = nil // a single empty cell is an empty CSV line, which encoding/csv skips
		}
		if e != nil {
			pos := r.Intn(len(t.Rows) + 1)
			t.Rows = append(t.Rows[:pos], append([][]string{e}, t.Rows[pos:]...)...)
			tags = append(tags, "empty-key")
		}
	}
	if r.Intn(12) == 0 && len(t.Rows) > 0 {
		i := r.Intn(len(t.Rows))
		c := r.Intn(nCols)
		t.Rows[i][c] = genBigCell(r)
		tags = append(tags, "big-cell")
	}
	total := 0
	for _, row := range t.Rows {
		total += 4
		for _, c := range row {
			total += len(c) + 2
		}
	}
	var runSize uint64 = 1 << 40
	switch r.Intn(4) {
	case 1:
		runSize = 1
	case 2, 3:
		runSize = uint64(total/(1+r.Intn(6)) + 1)
	}
	workers := 1 + r.Intn(8)
	var comma rune
	if r.Intn(5) == 0 {
		comma = []rune{'|', ';', '\t'}[r.Intn(3)]
	}
	return t, runSize, workers, comma, tags
}

// plantPrefixKeys: composite (or absent) keys whose cells are prefixes of one another, of different
// lengths, and hold the bytes a flattened key would use as separators (0x00, 0x01, 0x1f, tab):
// distinct keys, many of them tying on the leading column, in an order that only a column-by-column
// comparison of the cells gets right. Reports whether the table qualified.
func plantPrefixKeys(r *rand.Rand, t *TableSpec, pk []int) bool {
	nCols := len(t.Columns)
	if nCols < 2 || len(pk) == 1 || len(t.Rows) < 2 {
		return false
	}
	sepAlphabet := []string{"", "k", "k\x00", "\x00", "\x00b", "b", "k\x01", "k\x00b", "\x1f", "\t", "bc", "z"}
	kc := pk
	if len(kc) == 0 {
		kc = []int{0, 1}
	}
	pairs := r.Perm(len(sepAlphabet) * len(sepAlphabet))
	for i := 0; i < len(t.Rows) && i < len(pairs); i++ {
		t.Rows[i][kc[0]] = sepAlphabet[pairs[i]/len(sepAlphabet)]
		t.Rows[i][kc[1]] = sepAlphabet[pairs[i]%len(sepAlphabet)]
	}
	if len(pk) == 0 && nCols == 2 {
		// no row may consist of empty cells only (a blank CSV line is not a record)
		for _, row := range t.Rows {
			if row[0] == "" && row[1] == "" {
				row[1] = "\x00\x00"
			}
		}
	}
	r.Shuffle(len(t.Rows), func(i, j int) { t.Rows[i], t.Rows[j] = t.Rows[j], t.Rows[i] })
	return true
}

func ingestNontrivial(in *ingestInput, res Res) bool {
	if len(in.Rows) > 255 || in.RunSize < 1<<30 {
		return true
	}
	for _, r := range in.Rows {
		for _, c := range r {
			if len(c) > 2*65000 {
				return true
			}
		}
	}
	return false
}

func runC01(ctx *Ctx) {
	if ctx.Idx == 0 {
		// one size-boundary case per run: more blocks than any pre-allocation cap
		runC01Big(ctx)
		return
	}
	if ctx.Idx%12 == 5 {
		// in addition to the case of this index: a history of commits from the branch's configured file
		// and key (c02.go), from a random stream of its own. After every step the export holds the rows
		// of the file then configured, keyed by the key then in force
		defer func() {
			in, tags := genHistory(histRand(ctx), ctx.Idx/12, ctx.Thorough())
			emitHistory(ctx, "export-history", in, tags...)
		}()
	}
	t, rs, w, comma, tags := genIngestSpec(ctx.R, ctx.Thorough())
	if ctx.Idx%12 == 11 && cliSafe(t) && len(t.PK) > 0 {
		// commit from the branch's configured file, edited 100..900 ms after the cached temporary commit
		edited := cloneSpec(t)
		nr := make([]string, len(edited.Columns))
		for c := range nr {
			nr[c] = "zz-new"
		}
		edited.Rows = append(edited.Rows, nr)
		in, res := c01CLIFile(t, edited, 100+ctx.R.Intn(800))
		ctx.Emit("export", in, res, true, append(tags, "cli", "branch-file")...)
		return
	}
	if ctx.Idx%6 == 5 && cliSafe(t) {
		// the same table through `wrgl commit` + `wrgl export`
		in, res := c01CLI(t)
		ctx.Emit("export", in, res, len(t.Rows) > 1, append(tags, "cli")...)
		return
	}
	in, res := doIngest(t, rs, w, comma, false)
	ctx.Emit("ingest", in, res, ingestNontrivial(in, res), tags...)
	if ctx.Idx%12 == 2 || ctx.Idx%12 == 8 {
		// in addition (draws after those of the case above): the same table with a spill file cut short
		// before the merge reads it (c01torn.go)
		c01TornCase(ctx, ctx.R, t, rs, w, comma, tags)
	}
}

func corpusC01(ctx *Ctx, op string, raw json.RawMessage) {
	if op == "ingest-big" {
		var in c01BigInput
		if err := json.Unmarshal(raw, &in); err != nil {
			panic(err)
		}
		ctx.Emit("ingest-big", &in, c01BigRun(&in), true, "corpus")
		return
	}
	if op == "export-history" {
		corpusHistory(ctx, op, raw)
		return
	}
	if op == "ingest-torn-spill" {
		var in c01TornInput
		if err := json.Unmarshal(raw, &in); err != nil {
			panic(err)
		}
		if in.Spec != nil {
			var comma rune
			if in.Comma != "" {
				comma = []rune(in.Comma)[0]
			}
			in2, res := c01TornRun(in.Spec, in.RunSize, in.Workers, comma, in.TornChunk, in.TornPos)
			c01TornEmit(ctx, in2, res, "corpus")
		}
		return
	}
	var in ingestInput
	if err := json.Unmarshal(raw, &in); err != nil {
		panic(err)
	}
	if in.Spec == nil {
		return
	}
	if op == "export" {
		in2, res := c01CLI(in.Spec)
		ctx.Emit("export", in2, res, true, "corpus", "cli")
		return
	}
	var comma rune
	if in.Comma != "" {
		comma = []rune(in.Comma)[0]
	}
	in2, res := doIngest(in.Spec, in.RunSize, in.Workers, comma, false)
	ctx.Emit("ingest", in2, res, true, "corpus")
}

func runC03(ctx *Ctx) {
	if ctx.Idx == 0 {
		// one size-boundary table per run: more blocks than any pre-allocation cap of the readers
		in := &c01BigInput{N: 4096*255 + 1}
		ctx.Emit("inv-big", in, c01BigRun(in), true, "size-boundary", "producer=ingest")
		return
	}
	t, rs, w, comma, tags := genIngestSpec(ctx.R, ctx.Thorough())
	in, res := doIngest(t, rs, w, comma, true)
	ctx.Emit("inv", in, res, ingestNontrivial(in, res), append(tags, "producer=ingest")...)
}

func corpusC03(ctx *Ctx, op string, raw json.RawMessage) {
	if op == "inv-big" {
		var in c01BigInput
		if err := json.Unmarshal(raw, &in); err != nil {
			panic(err)
		}
		ctx.Emit("inv-big", &in, c01BigRun(&in), true, "corpus")
		return
	}
	var in ingestInput
	if err := json.Unmarshal(raw, &in); err != nil {
		panic(err)
	}
	if in.Spec == nil {
		return
	}
	in2, res := doIngest(in.Spec, in.RunSize, in.Workers, 0, true)
	ctx.Emit("inv", in2, res, true, "corpus", "producer=ingest")
}

// ---- C02 ------------------------------------------------------------------------------------

type c02Input struct {
	Spec    *TableSpec `json:"spec"`
	Configs []string   `json:"configs"`
	Mutants []string   `json:"mutants"`
}

type c02Result struct {
	Sums       []string `json:"sums"`       // same logical table under different configurations
	MutantSums []string `json:"mutantSums"` // single-edit variants
	TableBytes string   `json:"tableBytes"`
	Digest     string   `json:"digest"`
	Table      *TableDump `json:"table"`
}

func permuteRows(r *rand.Rand, t *TableSpec) *TableSpec {
	o := &TableSpec{Columns: t.Columns, PK: t.PK}
	for _, i := range r.Perm(len(t.Rows)) {
		o.Rows = append(o.Rows, t.Rows[i])
	}
	return o
}

func cloneSpec(t *TableSpec) *TableSpec {
	o := &TableSpec{Columns: append([]string{}, t.Columns...), PK: append([]string{}, t.PK...)}
	for _, row := range t.Rows {
		o.Rows = append(o.Rows, append([]string{}, row...))
	}
	return o
}

func runC02(ctx *Ctx) {
	if ctx.Idx%12 == 8 {
		// one more history: columns with names as files have them (spaces, quotes, separators), one key
		// column named after two others; the key changes between the combined column and the two
		defer func() {
			r := rand.New(rand.NewSource(ctx.Seed*1000003 + int64(ctx.Idx) + 0x6e616d65))
			in, tags := genHistoryNamed(r, ctx.Idx/12, ctx.Thorough(), true)
			emitHistory(ctx, "cli-ids", in, tags...)
		}()
	}
	if ctx.Idx%6 == 5 {
		// in addition to the case of this index: the identifier as the commit command sees it, over a
		// history of commits from the branch's configured file and key (c02.go; a random stream of its own)
		defer func() {
			in, tags := genHistory(histRand(ctx), ctx.Idx/6, ctx.Thorough())
			emitHistory(ctx, "cli-ids", in, tags...)
		}()
	}
	r := ctx.R
	nCols := 1 + r.Intn(4)
	pk := genPK(r, nCols)
	maxBlocks := 2
	if ctx.Thorough() {
		maxBlocks = 3
	}
	n := genRowCount(r, maxBlocks)
	t := GenTable(r, nCols, n, pk, 0) // unique keys
	prefixKeys := r.Intn(4) == 0 && plantPrefixKeys(r, t, pk)
	if !prefixKeys && len(t.Rows) > 0 && nCols >= 2 && r.Intn(3) == 0 {
		// one row whose key is all empty strings (still unique; it sorts first). Not for one-column
		// tables: a lone empty cell is a blank CSV line, which is not a record.
		i := r.Intn(len(t.Rows))
		kc := pk
		if len(kc) == 0 {
			kc = []int{0}
		}
		for _, k := range kc {
			t.Rows[i][k] = ""
		}
	}
	if prefixKeys {
		c02Case(ctx, t, "prefix-keys")
	} else {
		c02Case(ctx, t)
	}
	if ctx.Idx%6 == 2 {
		// in addition (draws after those of the case above): an ingest whose spill files cannot be
		// written to the end (c02fault.go)
		c02FaultCase(ctx, genC02Fault(ctx.R))
	}
}

// c02SmallWorkers: 1..5, one after the other over the case indices
func c02SmallWorkers(ctx *Ctx) int { return 1 + ctx.Idx%5 }

func c02Case(ctx *Ctx, t *TableSpec, tags ...string) {
	r := ctx.R
	tags = append(tags, fmt.Sprintf("workers=%d", c02SmallWorkers(ctx)))
	in := &c02Input{Spec: t}
	res := Guard(func() Res {
		out := &c02Result{}
		total := 0
		for _, row := range t.Rows {
			total += 4
			for _, c := range row {
				total += len(c) + 2
			}
		}
		cfgs := []struct {
			name  string
			perm  bool
			rs    uint64
			w     int
			comma rune
		}{
			{"base", false, 1 << 40, 1, 0},
			{"perm+spill", true, uint64(total/3 + 1), 1, 0},
			{"workers", true, 1 << 40, 8, 0},
			{"all-spill+workers", true, 1, 5, 0},
			{"delimiter", false, uint64(total/2 + 1), 3, '|'},
			// every small worker count in turn, by the case index (the inserter keeps two threads for the
			// sorter and itself, so 1, 2, 3 are its boundary values); rows as given, two spills
			{fmt.Sprintf("workers=%d", c02SmallWorkers(ctx)), false, uint64(total/3 + 1), c02SmallWorkers(ctx), 0},
		}
		var baseDB *MemStore
		var baseSum []byte
		for _, c := range cfgs {
			spec := t
			if c.perm {
				spec = permuteRows(r, t)
			}
			db := NewMemStore()
			sum, err := IngestCSV(db, spec.CSV(c.comma), spec.PK, IngestCfg{RunSize: c.rs, Workers: c.w, Comma: c.comma})
			if err != nil {
				return Err("ingest-" + c.name)
			}
			in.Configs = append(in.Configs, c.name)
			out.Sums = append(out.Sums, hx(sum))
			if baseDB == nil {
				baseDB, baseSum = db, sum
			}
		}
		// mutants: each differs from t in exactly one aspect
		type mut struct {
			name string
			f    func(*TableSpec) bool
		}
		muts := []mut{
			{"cell", func(s *TableSpec) bool {
				if len(s.Rows) == 0 {
					return false
				}
				i, c := r.Intn(len(s.Rows)), r.Intn(len(s.Columns))
				s.Rows[i][c] += "!"
				return true
			}},
			{"cell-of-first-row", func(s *TableSpec) bool {
				// a non-key cell (when there is one) of the row that sorts first
				if len(s.Rows) == 0 {
					return false
				}
				kc := []int{}
				for _, k := range s.PK {
					for ci, c := range s.Columns {
						if c == k {
							kc = append(kc, ci)
						}
					}
				}
				if len(kc) == 0 {
					for ci := range s.Columns {
						kc = append(kc, ci)
					}
				}
				key := func(row []string) string {
					b := ""
					for _, k := range kc {
						b += row[k] + "\x00"
					}
					return b
				}
				first := 0
				for i := range s.Rows {
					if key(s.Rows[i]) < key(s.Rows[first]) {
						first = i
					}
				}
				col := len(s.Columns) - 1
				for ci := range s.Columns {
					isKey := false
					for _, k := range kc {
						if k == ci {
							isKey = true
						}
					}
					if !isKey {
						col = ci
					}
				}
				s.Rows[first][col] += "!"
				return true
			}},
			{"column-name", func(s *TableSpec) bool {
				c := r.Intn(len(s.Columns))
				old := s.Columns[c]
				s.Columns[c] = old + "_x"
				for i, k := range s.PK {
					if k == old {
						s.PK[i] = s.Columns[c]
					}
				}
				return true
			}},
			{"column-order", func(s *TableSpec) bool {
				if len(s.Columns) < 2 {
					return false
				}
				s.Columns[0], s.Columns[1] = s.Columns[1], s.Columns[0]
				for _, row := range s.Rows {
					row[0], row[1] = row[1], row[0]
				}
				return true
			}},
			{"key-choice", func(s *TableSpec) bool {
				// choose a different key: add a column to the key (keeps keys unique), or make the first column the key
				for _, c := range s.Columns {
					found := false
					for _, k := range s.PK {
						if k == c {
							found = true
						}
					}
					if !found && len(s.PK) > 0 {
						s.PK = append(s.PK, c)
						return true
					}
				}
				return false
			}},
			{"row-removed", func(s *TableSpec) bool {
				if len(s.Rows) == 0 {
					return false
				}
				i := r.Intn(len(s.Rows))
				s.Rows = append(s.Rows[:i], s.Rows[i+1:]...)
				return true
			}},
		}
		for _, m := range muts {
			s := cloneSpec(t)
			if !m.f(s) {
				continue
			}
			db := NewMemStore()
			sum, err := IngestCSV(db, s.CSV(0), s.PK, IngestCfg{})
			if err != nil {
				return Err("ingest-mutant-" + m.name)
			}
			in.Mutants = append(in.Mutants, m.name)
			out.MutantSums = append(out.MutantSums, hx(sum))
		}
		raw, err := baseDB.Get(append([]byte("tbl/"), baseSum...))
		if err != nil {
			return Err("raw-table")
		}
		out.TableBytes = hx(raw)
		dg := meow.Checksum(0, raw)
		out.Digest = hx(dg[:])
		d, err := DumpTable(baseDB, baseSum, false)
		if err != nil {
			return Err("dump")
		}
		out.Table = d
		return Ok(out)
	})
	if in.Configs == nil {
		in.Configs = []string{}
	}
	if in.Mutants == nil {
		in.Mutants = []string{}
	}
	ctx.Emit("ids", in, res, len(t.Rows) > 1, tags...)
}

func corpusC02(ctx *Ctx, op string, raw json.RawMessage) {
	if op == "cli-ids" {
		corpusHistory(ctx, op, raw)
		return
	}
	if op == "ids-spill-write-fault" {
		var in c02FaultInput
		if err := json.Unmarshal(raw, &in); err != nil {
			panic(err)
		}
		if in.Spec != nil {
			c02FaultCase(ctx, &in, "corpus")
		}
		return
	}
	var in c02Input
	if err := json.Unmarshal(raw, &in); err != nil {
		panic(err)
	}
	if in.Spec != nil {
		c02Case(ctx, in.Spec, "corpus")
	}
}
