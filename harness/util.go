package main

import (
	"bytes"
	"encoding/hex"
	"github.com/pckhoi/meow"
	"strconv"
)

func itoa(i int) string     { return strconv.Itoa(i) }
func newBuf() *bytes.Buffer { return bytes.NewBuffer(nil) }
func hx(b []byte) string    { return hex.EncodeToString(b) }
func unhx(s string) []byte  { b, _ := hex.DecodeString(s); return b }

func hxRow(r []string) []string {
	o := make([]string, len(r))
	for i, s := range r {
		o[i] = hex.EncodeToString([]byte(s))
	}
	return o
}
func hxRows(rs [][]string) [][]string {
	o := make([][]string, len(rs))
	for i, r := range rs {
		o[i] = hxRow(r)
	}
	return o
}

func meowNew() *meow.Digest { return meow.New(0) }
