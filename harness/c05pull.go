package main

// C05 over HISTORIES WITH THREE HEADS. `wrgl merge` takes two names; the command that merges more is
// `wrgl pull BRANCH REMOTE REFSPEC REFSPEC`: it fetches the named branches and merges BRANCH with
// every fetched head at once (runMerge with three commits). The property is about branches "that
// share a base": the table the three are compared with is the one of the commit all three histories
// have in common, whatever pair of them shares more.
//
// The remote (an object store and a ref store behind the reference server) holds a tree-shaped history:
// a trunk, and three lines of commits that leave it -- either all three at the same trunk commit, or
// one there while the other two first share a stretch of commits of their own and part later. Every
// commit edits, removes and adds rows that belong to its own line only (the rows are dealt out by key),
// so whatever the lines did combines without conflict and the merged table is determined: the three-way
// resolution of the three head tables over the table of the commit where all three histories meet.
// The local repository creates BRANCH from one head (first pull) and pulls the other two; which of the
// three heads is BRANCH and in which order the others are listed is drawn. The Lean driver finds the
// best common ancestor on the commit graph it is given (Spec/MergeBase.lean) and says what BRANCH must hold.
//
// Shapes are restricted to those on which the unchanged tree takes the right commit for the base (its
// choice is C11's business; for three inputs it is a known finding there, C11-seek-not-common-3, that
// the commit taken need not be an ancestor of every head): single-parent histories, the two heads that
// share a stretch of their own being equally far from the point where they part. The third head, the
// trunk and the shared stretch have any length.

import (
	"fmt"
	"math/rand"
	"os"
	"path/filepath"
	"strings"
	"time"

	"github.com/wrgl/wrgl/pkg/local"
	"github.com/wrgl/wrgl/pkg/objects"
	"github.com/wrgl/wrgl/pkg/ref"
)

type c05PNode struct {
	Parents []int `json:"parents"` // earlier nodes
	Table   int   `json:"table"`   // index into tables
}

type c05PInput struct {
	Shape   string       `json:"shape"`
	Specs   []*TableSpec `json:"specs"` // the table of every commit (for replay)
	PKNames []string     `json:"pkNames"`
	Tables  []c05HTable  `json:"tables"`
	Nodes   []c05PNode   `json:"nodes"` // the remote's commits in creation order
	Heads   []int        `json:"heads"` // the commits merged, as the command lists them: heads[0] is BRANCH
}

type c05POut struct {
	Failed bool       `json:"failed"`
	Msg    string     `json:"msg,omitempty"`
	Branch *c05HTable `json:"branch,omitempty"` // what BRANCH holds afterwards
}

const c05PSides = 5

// c05PullUnequalLines (VERIF_C05_PULL_UNEQUAL_LINES=1) also draws histories in which the two heads that
// share a stretch of their own are NOT equally far from the commit where they part. On these the
// unchanged tree merges over a commit that is not an ancestor of every head (ref.SeekCommonAncestor,
// known finding C11-seek-not-common-3) and silently reverts an edit: off unless asked for.
var c05PullUnequalLines = os.Getenv("VERIF_C05_PULL_UNEQUAL_LINES") == "1"

// c05POwner: which line may touch a row. New rows carry their line in the key's first character
// ('5' + line), the rows of the first table are dealt out by their numeric key.
func c05POwner(key string) int {
	if len(key) > 0 && key[0] >= '5' && key[0] <= '9' {
		return int(key[0] - '5')
	}
	n := 0
	fmt.Sscanf(key, "%d", &n)
	return n % c05PSides
}

// c05PEdit derives the table of the next commit of a line: cell edits and removals of rows the line
// owns, and one or two new rows of its own (a commit must change something). gen makes keys and edits
// of different commits distinct.
func c05PEdit(r *rand.Rand, t *TableSpec, side, gen int) *TableSpec {
	out := &TableSpec{Columns: t.Columns, PK: t.PK}
	kc := 0
	iskey := map[int]bool{}
	for c, name := range t.Columns {
		if name == "k" {
			kc = c
		}
		for _, p := range t.PK {
			if p == name {
				iskey[c] = true
			}
		}
	}
	var nonkey []int
	for c := range t.Columns {
		if !iskey[c] {
			nonkey = append(nonkey, c)
		}
	}
	for _, row := range t.Rows {
		nr := append([]string{}, row...)
		if c05POwner(row[kc]) == side {
			x := r.Float64()
			if x < 0.15 {
				continue
			}
			if x < 0.6 {
				c := nonkey[r.Intn(len(nonkey))]
				nr[c] = fmt.Sprintf("%s.%d", []string{"X", "Y", nr[c]}[r.Intn(3)], gen)
			}
		}
		out.Rows = append(out.Rows, nr)
	}
	for i, n := 0, 1+r.Intn(2); i < n; i++ {
		nr := make([]string, len(t.Columns))
		for c, name := range t.Columns {
			switch {
			case name == "k":
				nr[c] = fmt.Sprintf("%d%02d%d", 5+side, gen, i)
			case name == "j":
				nr[c] = "x"
			default:
				nr[c] = []string{"u", "v", ""}[r.Intn(3)]
			}
		}
		out.Rows = append(out.Rows, nr)
	}
	return out
}

// genC05Pull: line 0 is the trunk, line 1 the stretch two heads share, lines 2..4 the heads' own commits.
func genC05Pull(r *rand.Rand) *c05PInput {
	layout := r.Intn(2) // key first / composite key in front
	base := histBase(r, layout)
	// enough rows for every line to own some
	for i, n := len(base.Rows), 10+r.Intn(16); i < n; i++ {
		row := make([]string, len(base.Columns))
		for c, name := range base.Columns {
			switch name {
			case "k":
				if layout == 1 {
					row[c] = fmt.Sprintf("%04d", i/2)
				} else {
					row[c] = fmt.Sprintf("%04d", i)
				}
			case "j":
				row[c] = []string{"x", "y"}[i%2]
			default:
				row[c] = []string{"p", "q", "r", ""}[r.Intn(4)]
			}
		}
		base.Rows = append(base.Rows, row)
	}
	in := &c05PInput{Specs: []*TableSpec{base}, Nodes: []c05PNode{{Parents: []int{}, Table: 0}}}
	add := func(parent, side int) int {
		t := c05PEdit(r, in.Specs[in.Nodes[parent].Table], side, len(in.Nodes))
		in.Specs = append(in.Specs, t)
		in.Nodes = append(in.Nodes, c05PNode{Parents: []int{parent}, Table: len(in.Specs) - 1})
		return len(in.Nodes) - 1
	}
	fork := 0
	for i, n := 0, r.Intn(3); i < n; i++ {
		fork = add(fork, 0)
	}
	// the lines still to be written: where each stands, how many commits it still gets, and what starts
	// once it is complete; a line to extend is drawn at random, so creation order (and with it the
	// commit times) interleaves the lines
	type line struct {
		at, left, side int
		then           []*line
	}
	var tips [3]int
	x := &line{side: 2, left: 1 + r.Intn(3)}
	y := &line{side: 3, left: x.left} // as far from the point where the two part as x
	z := &line{at: fork, side: 4, left: 1 + r.Intn(4)}
	var open []*line
	shape := "fork-at-one-commit"
	if r.Intn(4) != 0 {
		shape = "two-heads-share-more"
		open = []*line{{at: fork, side: 1, left: 1 + r.Intn(3), then: []*line{x, y}}, z}
		if c05PullUnequalLines {
			// DISABLED BY DEFAULT: the unchanged tree fails on this class (the end-to-end face of the known
			// finding C11-seek-not-common-3; witness: corpus/pending/C05-pull-three-heads-wrong-base.json)
			y.left = 1 + r.Intn(4)
			shape = "two-heads-share-more-unequal"
		}
	} else {
		x.at, y.at = fork, fork
		y.left = 1 + r.Intn(3)
		open = []*line{x, y, z}
	}
	for len(open) > 0 {
		i := r.Intn(len(open))
		l := open[i]
		l.at = add(l.at, l.side)
		l.left--
		if l.left == 0 {
			open = append(open[:i], open[i+1:]...)
			for _, n := range l.then {
				n.at = l.at
				open = append(open, n)
			}
			if l.side >= 2 {
				tips[l.side-2] = l.at
			}
		}
	}
	for _, p := range r.Perm(3) {
		in.Heads = append(in.Heads, tips[p])
	}
	in.Shape = shape + "/" + []string{"pk-first", "pk-composite"}[layout]
	return in
}

func c05PullRun(in *c05PInput) Res {
	if len(in.Heads) < 2 || len(in.Nodes) == 0 {
		return Err("bad-input")
	}
	root, err := os.MkdirTemp(privateTmp(), "mpull-")
	if err != nil {
		return Err("tmpdir")
	}
	defer os.RemoveAll(root)
	os.Setenv("XDG_CONFIG_HOME", filepath.Join(root, "xdg"))
	os.Setenv("HOME", root)
	return Guard(func() Res {
		// the remote
		sdb := NewMemStore()
		srs, closeS := NewRefStore()
		defer closeS()
		tick := 0
		saved := commitClock
		commitClock = func() time.Time { tick++; return fixedTime.Add(time.Duration(tick) * time.Second) }
		defer func() { commitClock = saved }()
		sums := make([][]byte, len(in.Nodes))
		for i, nd := range in.Nodes {
			if nd.Table < 0 || nd.Table >= len(in.Specs) || len(nd.Parents) > 1 {
				return Err("bad-node")
			}
			name := fmt.Sprintf("h%d", i)
			if len(nd.Parents) == 1 {
				p := nd.Parents[0]
				if p < 0 || p >= i {
					return Err("bad-parent")
				}
				pc, err := objects.GetCommit(sdb, sums[p])
				if err != nil {
					return Err("remote-parent")
				}
				if err := ref.CommitHead(srs, name, sums[p], pc, nil); err != nil {
					return Err("remote-branch")
				}
			}
			s := in.Specs[nd.Table]
			if err := opCommit(s.CSV(0), s.PK, 1, name)(sdb, srs); err != nil {
				return Err("remote-commit")
			}
			if sums[i], err = ref.GetHead(srs, name); err != nil {
				return Err("remote-head")
			}
		}
		srv := NewRefServer(sdb, srs, 0, false)
		defer srv.Close()
		// the local repository
		dir := filepath.Join(root, "repo", ".wrgl")
		os.MkdirAll(filepath.Join(root, "repo"), 0755)
		rd, err := local.NewRepoDir(dir, "")
		if err != nil {
			return Err("repodir")
		}
		if err := rd.Init(); err != nil {
			return Err("init")
		}
		rd.Close()
		short := func(s string) string {
			s = strings.TrimSpace(s)
			if len(s) > 200 {
				s = s[:200]
			}
			return s
		}
		run := func(args ...string) (string, bool) {
			out, err := cli(dir, args...)
			if err != nil {
				return strings.Join(args, " ") + ": " + out + ": " + err.Error(), false
			}
			return out, true
		}
		for _, a := range [][]string{{"config", "set", "user.email", "u@example.com"}, {"config", "set", "user.name", "U"},
			{"remote", "add", "origin", srv.URL()}} {
			if out, ok := run(a...); !ok {
				return Res{"res": "err", "kind": "setup:" + short(out)}
			}
		}
		cwd, _ := os.Getwd()
		os.Chdir(root)
		defer os.Chdir(cwd)
		spec := func(n int) string { return fmt.Sprintf("refs/heads/h%d:refs/remotes/origin/h%d", n, n) }
		for _, h := range in.Heads {
			if h < 0 || h >= len(in.Nodes) {
				return Err("bad-head")
			}
		}
		if out, ok := run("pull", "main", "origin", spec(in.Heads[0])); !ok {
			return Res{"res": "err", "kind": "setup:" + short(out)}
		}
		args := []string{"pull", "main", "origin"}
		for _, h := range in.Heads[1:] {
			args = append(args, spec(h))
		}
		args = append(args, "-n", "1", "-m", "merged")
		out := &c05POut{}
		msg, ok := run(args...)
		out.Failed = !ok
		out.Msg = short(msg)
		heads, kind := c05ReadHeads(dir, []string{"main"})
		if heads == nil {
			return Err(kind)
		}
		out.Branch = heads["main"]
		return Ok(out)
	})
}

func c05PullEmit(ctx *Ctx, in *c05PInput, tags ...string) {
	in.Tables = nil
	for _, s := range in.Specs {
		rows := hxRows(s.Rows)
		if rows == nil {
			rows = [][]string{}
		}
		in.Tables = append(in.Tables, c05HTable{Columns: hxRow(s.Columns), Rows: rows})
	}
	in.PKNames = []string{}
	if len(in.Specs) > 0 {
		in.PKNames = append(in.PKNames, hxRow(in.Specs[0].PK)...)
	}
	tags = append(tags, "cli", "history", "pull", fmt.Sprintf("n=%d", len(in.Heads)))
	for _, p := range strings.SplitN(in.Shape, "/", 2) {
		if p != "" {
			tags = append(tags, "hist="+p)
		}
	}
	ctx.Emit("merge-cli-pull", in, c05PullRun(in), true, tags...)
}

func runC05Pull(ctx *Ctx) {
	c05PullEmit(ctx, genC05Pull(ctx.R))
}
