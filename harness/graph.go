package main

import (
	"encoding/json"
	"math/rand"
	"sync"
	"time"

	"github.com/wrgl/wrgl/pkg/objects"
)

// MemStore is a goroutine-safe in-memory objects.Store.
type MemStore struct {
	mu sync.RWMutex
	m  map[string][]byte
}

func NewMemStore() *MemStore { return &MemStore{m: map[string][]byte{}} }

func (s *MemStore) Get(key []byte) ([]byte, error) {
	s.mu.RLock()
	defer s.mu.RUnlock()
	if v, ok := s.m[string(key)]; ok {
		return v, nil
	}
	return nil, objects.ErrKeyNotFound
}
func (s *MemStore) Set(key, val []byte) error {
	s.mu.Lock()
	defer s.mu.Unlock()
	b := make([]byte, len(val))
	copy(b, val)
	s.m[string(key)] = b
	return nil
}
func (s *MemStore) Delete(key []byte) error {
	s.mu.Lock()
	defer s.mu.Unlock()
	delete(s.m, string(key))
	return nil
}
func (s *MemStore) Exist(key []byte) bool {
	s.mu.RLock()
	defer s.mu.RUnlock()
	_, ok := s.m[string(key)]
	return ok
}
func (s *MemStore) Filter(prefix []byte) (map[string][]byte, error) {
	s.mu.RLock()
	defer s.mu.RUnlock()
	m := map[string][]byte{}
	for k, v := range s.m {
		if len(k) >= len(prefix) && k[:len(prefix)] == string(prefix) {
			m[k] = v
		}
	}
	return m, nil
}
func (s *MemStore) FilterKey(prefix []byte) ([][]byte, error) {
	s.mu.RLock()
	defer s.mu.RUnlock()
	keys := [][]byte{}
	for k := range s.m {
		if len(k) >= len(prefix) && k[:len(prefix)] == string(prefix) {
			keys = append(keys, []byte(k))
		}
	}
	return keys, nil
}
func (s *MemStore) Clear(prefix []byte) error {
	s.mu.Lock()
	defer s.mu.Unlock()
	for k := range s.m {
		if len(k) >= len(prefix) && k[:len(prefix)] == string(prefix) {
			delete(s.m, k)
		}
	}
	return nil
}
func (s *MemStore) Close() error { return nil }
func (s *MemStore) Keys() []string {
	s.mu.RLock()
	defer s.mu.RUnlock()
	var ks []string
	for k := range s.m {
		ks = append(ks, k)
	}
	return ks
}

// GCommit is the abstract commit the Lean model sees: [id, time, parents, table].
type GCommit struct {
	ID      int
	Time    int64
	Parents []int
	Table   int
}

func (c GCommit) MarshalJSON() ([]byte, error) {
	ps := c.Parents
	if ps == nil {
		ps = []int{}
	}
	return json.Marshal([]interface{}{c.ID, c.Time, ps, c.Table})
}

func (c *GCommit) UnmarshalJSON(b []byte) error {
	var a []json.RawMessage
	if err := json.Unmarshal(b, &a); err != nil {
		return err
	}
	json.Unmarshal(a[0], &c.ID)
	json.Unmarshal(a[1], &c.Time)
	json.Unmarshal(a[2], &c.Parents)
	if len(a) > 3 {
		json.Unmarshal(a[3], &c.Table)
	}
	return nil
}

// GenGraph makes a DAG of n commits with ids 1..n; parents have smaller ids. timeMode:
// 0 consistent with topology, 1 all equal, 2 reversed, 3 random/skewed, 4 few distinct values.
func GenGraph(r *rand.Rand, n int, timeMode int, mergeProb, rootProb float64) []GCommit {
	g := make([]GCommit, 0, n)
	for i := 1; i <= n; i++ {
		c := GCommit{ID: i}
		if i > 1 && r.Float64() >= rootProb {
			np := 1
			if r.Float64() < mergeProb {
				np = 2 + r.Intn(2)
			}
			seen := map[int]bool{}
			for k := 0; k < np; k++ {
				var p int
				if r.Float64() < 0.6 {
					// recent parent: makes long chains and diamonds
					lo := i - 3
					if lo < 1 {
						lo = 1
					}
					p = lo + r.Intn(i-lo)
				} else {
					p = 1 + r.Intn(i-1)
				}
				if !seen[p] {
					seen[p] = true
					c.Parents = append(c.Parents, p)
				}
			}
		}
		switch timeMode {
		case 0:
			c.Time = int64(1000 + 10*i)
		case 1:
			c.Time = 1000
		case 2:
			c.Time = int64(1000 + 10*(n-i))
		case 3:
			c.Time = int64(1000 + r.Intn(10*n+1))
		default:
			c.Time = int64(1000 + r.Intn(3))
		}
		g = append(g, c)
	}
	return g
}

// BuiltGraph is a graph materialised in an object store.
type BuiltGraph struct {
	DB   *MemStore
	G    []GCommit
	Sums map[int][]byte
	IDs  map[string]int
}

// BuildGraph saves the commits (parents first) with objects.SaveCommit. The table sum is a fake
// 16-byte value derived from the table number; no table object is stored.
func BuildGraph(g []GCommit) (*BuiltGraph, error) {
	bg := &BuiltGraph{DB: NewMemStore(), G: g, Sums: map[int][]byte{}, IDs: map[string]int{}}
	for _, c := range g {
		com := &objects.Commit{
			Table:       fakeSum(c.Table),
			AuthorName:  "a",
			AuthorEmail: "a@b.c",
			Time:        time.Unix(c.Time, 0).UTC(),
			// the message makes every commit's bytes (hence sum) distinct
			Message: "c" + itoa(c.ID),
		}
		for _, p := range c.Parents {
			com.Parents = append(com.Parents, bg.Sums[p])
		}
		buf := newBuf()
		if _, err := com.WriteTo(buf); err != nil {
			return nil, err
		}
		sum, err := objects.SaveCommit(bg.DB, buf.Bytes())
		if err != nil {
			return nil, err
		}
		bg.Sums[c.ID] = sum
		bg.IDs[string(sum)] = c.ID
	}
	return bg, nil
}

func fakeSum(n int) []byte {
	b := make([]byte, 16)
	b[0] = 0xfa
	b[12] = byte(n >> 24)
	b[13] = byte(n >> 16)
	b[14] = byte(n >> 8)
	b[15] = byte(n)
	return b
}
