package main

import (
	"bytes"
	"encoding/json"
	"fmt"
	"io"
	"runtime"
	"time"

	"github.com/go-logr/logr"
	"github.com/wrgl/wrgl/pkg/ingest"
	"github.com/wrgl/wrgl/pkg/objects"
	"github.com/wrgl/wrgl/pkg/sorter"
	"github.com/wrgl/wrgl/pkg/verifhook"
)

func init() {
	runners["C16"] = runC16
	corpusRunners["C16"] = corpusC16
}

type c16Input struct {
	Rows       int   `json:"rows"`
	Workers    int   `json:"workers"`
	YieldSeed  int64 `json:"yieldSeed"`
	Procs      int   `json:"gomaxprocs"`
	FailAt     int   `json:"failAt"` // -1: no injected store error
	Schedule   []int `json:"schedule"` // a schedule for the model (worker ids), long enough to finish
	EffWorkers int   `json:"effectiveWorkers"`
	BlockRows  []int `json:"blockRows"`
}

func c16Table(n int) *TableSpec {
	t := &TableSpec{Columns: []string{"k", "v"}, PK: []string{"k"}}
	for i := 0; i < n; i++ {
		t.Rows = append(t.Rows, []string{fmt.Sprintf("%06d", i), "x"})
	}
	return t
}

func c16Ingest(csv []byte, workers int, db objects.Store) ([]byte, error) {
	s, err := sorter.NewSorter(sorter.WithRunSize(1 << 30))
	if err != nil {
		return nil, err
	}
	return ingest.IngestTable(db, s, io.NopCloser(bytes.NewReader(csv)), []string{"k"}, logr.Discard(), ingest.WithNumWorkers(workers))
}

func c16Run(in *c16Input) Res {
	csv := c16Table(in.Rows).CSV(0)
	old := runtime.GOMAXPROCS(in.Procs)
	defer runtime.GOMAXPROCS(old)
	return Guard(func() Res {
		// reference: one worker, no yields
		verifhook.SetSeed(0)
		ref := NewMemStore()
		sum1, err := c16Ingest(csv, 1, ref)
		if err != nil {
			return Err("reference-ingest")
		}
		t1, _ := objects.GetTable(ref, sum1)
		verifhook.SetSeed(in.YieldSeed)
		defer verifhook.SetSeed(0)
		db := NewMemStore()
		done := make(chan Res, 1)
		go func() {
			var store objects.Store = db
			if in.FailAt >= 0 {
				store = &faultObjStore{Store: db, b: &writeBudget{left: in.FailAt}}
			}
			sum, err := c16Ingest(csv, in.Workers, store)
			if err != nil {
				done <- Res{"res": "ok", "val": map[string]interface{}{"error": true}}
				return
			}
			t, err := objects.GetTable(db, sum)
			if err != nil {
				done <- Res{"res": "ok", "val": map[string]interface{}{"error": false, "sameSum": false, "rowsCount": -1, "blocks": -1, "unreadable": true}}
				return
			}
			// the table index (first key of every block) must be the single-threaded one too
			ti1, e1 := objects.GetTableIndex(ref, sum1)
			ti, e2 := objects.GetTableIndex(db, sum)
			sameIdx := e1 == nil && e2 == nil && fmt.Sprint(ti1) == fmt.Sprint(ti)
			done <- Res{"res": "ok", "val": map[string]interface{}{"error": false, "sameSum": bytes.Equal(sum, sum1) && sameIdx,
				"rowsCount": t.RowsCount, "blocks": len(t.Blocks), "refRows": t1.RowsCount, "refBlocks": len(t1.Blocks)}}
		}()
		select {
		case r := <-done:
			return r
		case <-hangAfter(60 * time.Second):
			return Err("hang")
		}
	})
}

func runC16(ctx *Ctx) {
	r := ctx.R
	if r.Intn(4) == 0 {
		runC16Merge(ctx)
		return
	}
	if r.Intn(4) == 0 {
		runC16CLI(ctx)
		return
	}
	if r.Intn(5) == 0 {
		runC16PBar(ctx)
		return
	}
	in := &c16Input{FailAt: -1}
	nb := 2 + r.Intn(12)
	if ctx.Thorough() && r.Intn(4) == 0 {
		nb = 20 + r.Intn(60)
	}
	in.Rows = (nb-1)*255 + 1 + r.Intn(255)
	in.Workers = 1 + r.Intn(16)
	in.EffWorkers = in.Workers - 2
	if in.EffWorkers <= 0 {
		in.EffWorkers = 1
	}
	in.YieldSeed = 1 + r.Int63n(1<<40)
	in.Procs = []int{1, 2, 4, 16}[r.Intn(4)]
	if r.Intn(6) == 0 {
		in.FailAt = r.Intn(2*nb + 3)
	}
	for i := 0; i < nb-1; i++ {
		in.BlockRows = append(in.BlockRows, 255)
	}
	in.BlockRows = append(in.BlockRows, in.Rows-(nb-1)*255)
	// a random schedule for the model, followed by a round-robin tail that lets every worker finish
	for i := 0; i < 6*nb; i++ {
		in.Schedule = append(in.Schedule, r.Intn(in.EffWorkers))
	}
	for i := 0; i < 2*nb+2; i++ {
		for w := 0; w < in.EffWorkers; w++ {
			in.Schedule = append(in.Schedule, w)
		}
	}
	tags := []string{fmt.Sprintf("procs=%d", in.Procs)}
	if in.FailAt >= 0 {
		tags = append(tags, "injected-error")
	}
	ctx.Emit("ingest", in, c16Run(in), in.EffWorkers >= 2 && nb >= 2, tags...)
}

func corpusC16(ctx *Ctx, op string, raw json.RawMessage) {
	if op == "merge" {
		corpusC16Merge(ctx, raw)
		return
	}
	if op == "pbar" {
		corpusC16PBar(ctx, raw)
		return
	}
	if op == "ingest-cli" {
		var in c16CLIInput
		if err := json.Unmarshal(raw, &in); err != nil {
			panic(err)
		}
		ctx.Emit("ingest-cli", &in, c16CLIRun(&in), true, "cli", "corpus")
		return
	}
	var in c16Input
	if err := json.Unmarshal(raw, &in); err != nil {
		panic(err)
	}
	ctx.Emit("ingest", &in, c16Run(&in), true, "corpus")
}
