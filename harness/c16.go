package main

import (
	"bytes"
	"encoding/json"
	"fmt"
	"io"
	"math/rand"
	"runtime"
	"time"

	"github.com/go-logr/logr"
	"github.com/wrgl/wrgl/pkg/ingest"
	"github.com/wrgl/wrgl/pkg/objects"
	"github.com/wrgl/wrgl/pkg/sorter"
	"github.com/wrgl/wrgl/pkg/verifhook"
)

func init() {
	runners["C16"] = runC16
	corpusRunners["C16"] = corpusC16
}

type c16Input struct {
	Rows       int   `json:"rows"`
	Workers    int   `json:"workers"`
	YieldSeed  int64 `json:"yieldSeed"`
	Procs      int   `json:"gomaxprocs"`
	FailAt     int   `json:"failAt"` // -1: no injected store error
	Schedule   []int `json:"schedule"` // a schedule for the model (worker ids), long enough to finish
	EffWorkers int   `json:"effectiveWorkers"`
	BlockRows  []int `json:"blockRows"`
	// StoreDelayUs: every write to the object store takes this long (microseconds; 0 = the in-memory
	// store at full speed). With a slow store the consumers of the sorted-block channel fall behind
	// the producer, so the channel's buffer is full for most of the run and the producer blocks in its
	// sends: the schedules in which every block, the last one included, has to wait for room.
	StoreDelayUs int `json:"storeDelayUs,omitempty"`
	// RunSize: the sorter's run size in bytes (0 = everything in memory, one run); small values make
	// the sorter spill sorted chunks to disk and merge them while producing blocks
	RunSize uint64 `json:"runSize,omitempty"`
}

// c16SlowStore is an object store whose writes take a fixed time (a disk- or network-backed store).
type c16SlowStore struct {
	objects.Store
	delay time.Duration
}

func (s *c16SlowStore) Set(k, v []byte) error {
	time.Sleep(s.delay)
	return s.Store.Set(k, v)
}

func c16Table(n int) *TableSpec {
	t := &TableSpec{Columns: []string{"k", "v"}, PK: []string{"k"}}
	for i := 0; i < n; i++ {
		t.Rows = append(t.Rows, []string{fmt.Sprintf("%06d", i), "x"})
	}
	return t
}

func c16Ingest(csv []byte, workers int, db objects.Store, runSize uint64) ([]byte, error) {
	if runSize == 0 {
		runSize = 1 << 30
	}
	s, err := sorter.NewSorter(sorter.WithRunSize(runSize))
	if err != nil {
		return nil, err
	}
	sum, err := ingest.IngestTable(db, s, io.NopCloser(bytes.NewReader(csv)), []string{"k"}, logr.Discard(), ingest.WithNumWorkers(workers))
	if err == nil {
		// the producer goroutine is done (the workers saw its channel closed): the spill files can go
		s.Close()
	}
	return sum, err
}

func c16Run(in *c16Input) Res {
	csv := c16Table(in.Rows).CSV(0)
	old := runtime.GOMAXPROCS(in.Procs)
	defer runtime.GOMAXPROCS(old)
	return Guard(func() Res {
		// reference: one worker, no yields
		verifhook.SetSeed(0)
		ref := NewMemStore()
		sum1, err := c16Ingest(csv, 1, ref, 0)
		if err != nil {
			return Err("reference-ingest")
		}
		t1, _ := objects.GetTable(ref, sum1)
		verifhook.SetSeed(in.YieldSeed)
		defer verifhook.SetSeed(0)
		db := NewMemStore()
		done := make(chan Res, 1)
		go func() {
			var store objects.Store = db
			if in.FailAt >= 0 {
				store = &faultObjStore{Store: db, b: &writeBudget{left: in.FailAt}}
			}
			if in.StoreDelayUs > 0 {
				store = &c16SlowStore{Store: store, delay: time.Duration(in.StoreDelayUs) * time.Microsecond}
			}
			sum, err := c16Ingest(csv, in.Workers, store, in.RunSize)
			if err != nil {
				done <- Res{"res": "ok", "val": map[string]interface{}{"error": true}}
				return
			}
			t, err := objects.GetTable(db, sum)
			if err != nil {
				done <- Res{"res": "ok", "val": map[string]interface{}{"error": false, "sameSum": false, "rowsCount": -1, "blocks": -1, "unreadable": true}}
				return
			}
			// the table index (first key of every block) must be the single-threaded one too
			ti1, e1 := objects.GetTableIndex(ref, sum1)
			ti, e2 := objects.GetTableIndex(db, sum)
			sameIdx := e1 == nil && e2 == nil && fmt.Sprint(ti1) == fmt.Sprint(ti)
			done <- Res{"res": "ok", "val": map[string]interface{}{"error": false, "sameSum": bytes.Equal(sum, sum1) && sameIdx,
				"rowsCount": t.RowsCount, "blocks": len(t.Blocks), "refRows": t1.RowsCount, "refBlocks": len(t1.Blocks)}}
		}()
		select {
		case r := <-done:
			return r
		case <-hangAfter(60 * time.Second):
			return Err("hang")
		}
	})
}

func runC16(ctx *Ctx) {
	runC16Main(ctx)
	// on 1 case index in 6, additionally: an ingest whose consumers are slower than its producer
	// (chosen by the case index and drawn after the case's own draws, so no other case moves)
	if ctx.Idx%6 == 4 {
		runC16SlowStore(ctx)
	}
	// on another case index in 6, additionally: a history of ingests on one sorter (c16hist.go)
	if ctx.Idx%6 == 1 {
		runC16History(ctx)
	}
}

// c16FillModelInput derives, for nb blocks, what the model needs: the effective worker count, the
// rows of every block and a schedule (random, then a round-robin tail that lets every worker finish).
func c16FillModelInput(r *rand.Rand, in *c16Input, nb int) {
	in.EffWorkers = in.Workers - 2
	if in.EffWorkers <= 0 {
		in.EffWorkers = 1
	}
	in.BlockRows = nil
	for i := 0; i < nb-1; i++ {
		in.BlockRows = append(in.BlockRows, 255)
	}
	in.BlockRows = append(in.BlockRows, in.Rows-(nb-1)*255)
	in.Schedule = nil
	for i := 0; i < 6*nb; i++ {
		in.Schedule = append(in.Schedule, r.Intn(in.EffWorkers))
	}
	for i := 0; i < 2*nb+2; i++ {
		for w := 0; w < in.EffWorkers; w++ {
			in.Schedule = append(in.Schedule, w)
		}
	}
}

// The sorted-block channel between the sorter's producer goroutine and the ingest workers has a
// buffer (sorter.go: 10 blocks). With the in-memory store the workers drain it as fast as it fills,
// so the producer never finds it full. Here every store write takes 0.5..5 ms and the table has
// more blocks than the buffer and the workers can hold together (the last block partial in 254 of
// 255 draws), so the producer spends the run blocked in its sends and the last blocks are sent
// into a full channel. The table must still be the single-threaded one.
func runC16SlowStore(ctx *Ctx) {
	r := ctx.R
	in := &c16Input{FailAt: -1}
	in.Workers = []int{1, 2, 3, 4, 5, 8}[r.Intn(6)]
	eff := in.Workers - 2
	if eff <= 0 {
		eff = 1
	}
	// Workers that all wait equally long for the store take their blocks in bursts of eff, and the
	// producer refills the buffer in bursts of eff: with buffer + k*eff + 1 blocks the last block is
	// the one that comes after a refill, when the buffer is full again. 1 case in 3 adds 0..eff-1
	// blocks, which puts the last block inside a burst instead.
	const chanBuffer = 10 // sorter.go SortedBlocks: make(chan *Block, 10)
	nb := chanBuffer + eff*(2+r.Intn(2)) + 1
	if r.Intn(3) == 0 {
		nb += r.Intn(eff)
	}
	in.Rows = (nb-1)*255 + 1 + r.Intn(255)
	in.YieldSeed = 1 + r.Int63n(1<<40)
	in.Procs = []int{1, 2, 4, 16}[r.Intn(4)]
	in.StoreDelayUs = []int{500, 2000, 5000}[r.Intn(3)]
	tags := []string{"slow-store", fmt.Sprintf("procs=%d", in.Procs)}
	if r.Intn(3) == 0 {
		// several sorted runs on disk, merged while the blocks are produced
		in.RunSize = uint64(8000 + r.Intn(40000))
		tags = append(tags, "spilled-runs")
	}
	c16FillModelInput(r, in, nb)
	ctx.Emit("ingest", in, c16Run(in), true, tags...)
}

func runC16Main(ctx *Ctx) {
	r := ctx.R
	if r.Intn(4) == 0 {
		runC16Merge(ctx)
		return
	}
	if r.Intn(4) == 0 {
		runC16CLI(ctx)
		return
	}
	if r.Intn(5) == 0 {
		runC16PBar(ctx)
		return
	}
	in := &c16Input{FailAt: -1}
	nb := 2 + r.Intn(12)
	if ctx.Thorough() && r.Intn(4) == 0 {
		nb = 20 + r.Intn(60)
	}
	in.Rows = (nb-1)*255 + 1 + r.Intn(255)
	in.Workers = 1 + r.Intn(16)
	in.EffWorkers = in.Workers - 2
	if in.EffWorkers <= 0 {
		in.EffWorkers = 1
	}
	in.YieldSeed = 1 + r.Int63n(1<<40)
	in.Procs = []int{1, 2, 4, 16}[r.Intn(4)]
	if r.Intn(6) == 0 {
		in.FailAt = r.Intn(2*nb + 3)
	}
	for i := 0; i < nb-1; i++ {
		in.BlockRows = append(in.BlockRows, 255)
	}
	in.BlockRows = append(in.BlockRows, in.Rows-(nb-1)*255)
	// a random schedule for the model, followed by a round-robin tail that lets every worker finish
	for i := 0; i < 6*nb; i++ {
		in.Schedule = append(in.Schedule, r.Intn(in.EffWorkers))
	}
	for i := 0; i < 2*nb+2; i++ {
		for w := 0; w < in.EffWorkers; w++ {
			in.Schedule = append(in.Schedule, w)
		}
	}
	tags := []string{fmt.Sprintf("procs=%d", in.Procs)}
	if in.FailAt >= 0 {
		tags = append(tags, "injected-error")
	}
	ctx.Emit("ingest", in, c16Run(in), in.EffWorkers >= 2 && nb >= 2, tags...)
}

func corpusC16(ctx *Ctx, op string, raw json.RawMessage) {
	if op == "merge" {
		corpusC16Merge(ctx, raw)
		return
	}
	if op == "pbar" {
		corpusC16PBar(ctx, raw)
		return
	}
	if op == "ingest-history" {
		var in c16HistInput
		if err := json.Unmarshal(raw, &in); err != nil {
			panic(err)
		}
		ctx.Emit("ingest-history", &in, c16HistRun(&in), true, "history", "corpus")
		return
	}
	if op == "ingest-cli" {
		var in c16CLIInput
		if err := json.Unmarshal(raw, &in); err != nil {
			panic(err)
		}
		ctx.Emit("ingest-cli", &in, c16CLIRun(&in), true, "cli", "corpus")
		return
	}
	var in c16Input
	if err := json.Unmarshal(raw, &in); err != nil {
		panic(err)
	}
	ctx.Emit("ingest", &in, c16Run(&in), true, "corpus")
}
