package main

import (
	"encoding/json"
	"errors"
	"fmt"
	"math/rand"
	"sort"

	"github.com/wrgl/wrgl/pkg/api/utils"
	"github.com/wrgl/wrgl/pkg/objects"
)

func init() {
	runners["C08"] = runC08
	corpusRunners["C08"] = corpusC08
}

type c08Round struct {
	Wants []int `json:"wants"`
	Haves []int `json:"haves"`
	Done  bool  `json:"done"`
}

type c08Input struct {
	Graph        []GCommit  `json:"graph"`
	Refs         []int      `json:"refs"`
	TableMissing []int      `json:"tableMissing"`
	Depth        int        `json:"depth"`
	Rounds       []c08Round `json:"rounds"`
	TablesFirst  bool       `json:"tablesFirst"` // the sender asks for TablesToSend before CommitsToSend
	// RefNames, when given, names the refs (parallel to Refs): heads, tags, remote-tracking refs,
	// transaction refs (txs/<id>/<branch>) and custom namespaces. Absent: heads/b<i>.
	RefNames []string `json:"refNames,omitempty"`
	// Retry: the session goes on with the same finder after a refused request (the refused round is
	// reported in "refused", the later rounds are processed as usual)
	Retry bool `json:"retry,omitempty"`
}

// BuildGraphWithTables is BuildGraph plus a dummy table object for every commit whose table is
// not listed as missing, so that TableExist answers.
func BuildGraphWithTables(g []GCommit, missing []int) (*BuiltGraph, error) {
	bg, err := BuildGraph(g)
	if err != nil {
		return nil, err
	}
	miss := map[int]bool{}
	for _, m := range missing {
		miss[m] = true
	}
	for _, c := range g {
		if miss[c.Table] {
			continue
		}
		// stored under the fake sum used in the commit (SaveTable would hash the content)
		if err := bg.DB.Set(append([]byte("tbl/"), fakeSum(c.Table)...), []byte("t")); err != nil {
			return nil, err
		}
	}
	return bg, nil
}

func sumsOf(bg *BuiltGraph, ids []int) [][]byte {
	out := [][]byte{}
	for _, i := range ids {
		if s, ok := bg.Sums[i]; ok {
			out = append(out, s)
		} else {
			// unknown hash
			out = append(out, fakeSum(1000000+i))
		}
	}
	return out
}

func c08Run(in *c08Input) Res {
	return Guard(func() Res {
		bg, err := BuildGraphWithTables(in.Graph, in.TableMissing)
		if err != nil {
			return Err("build")
		}
		rs, closeRS := NewRefStore()
		defer closeRS()
		for i, r := range in.Refs {
			name := fmt.Sprintf("heads/b%d", i)
			if i < len(in.RefNames) {
				name = in.RefNames[i]
			}
			if err := rs.Set(name, bg.Sums[r]); err != nil {
				return Err("setref")
			}
		}
		tableNum := map[string]int{}
		for _, c := range in.Graph {
			tableNum[string(fakeSum(c.Table))] = c.Table
		}
		f := apiutils.NewClosedSetsFinder(bg.DB, rs, in.Depth)
		acks := [][]int{}
		refused := []int{}
		for k, rd := range in.Rounds {
			a, err := f.Process(sumsOf(bg, rd.Wants), sumsOf(bg, rd.Haves), rd.Done)
			if err != nil {
				var uw *apiutils.UnrecognizedWantsError
				if errors.As(err, &uw) {
					if in.Retry {
						// the request is refused; the session continues on the same finder
						refused = append(refused, k)
						acks = append(acks, []int{})
						continue
					}
					return Err("unrecognized-wants")
				}
				return Err("process")
			}
			ids := []int{}
			for _, s := range a {
				ids = append(ids, bg.IDs[string(s)])
			}
			sort.Ints(ids)
			acks = append(acks, ids)
		}
		var commits []*objects.Commit
		var tables map[string]struct{}
		if in.TablesFirst {
			tables, err = f.TablesToSend()
			if err != nil {
				return Err("tables-to-send")
			}
			commits, err = f.CommitsToSend()
			if err != nil {
				return Err("commits-to-send")
			}
		} else {
			commits, err = f.CommitsToSend()
			if err != nil {
				return Err("commits-to-send")
			}
			tables, err = f.TablesToSend()
			if err != nil {
				return Err("tables-to-send")
			}
		}
		sent := []int{}
		for _, c := range commits {
			// objects.Commit from the finder has no Sum: identify it by its message
			var id int
			fmt.Sscanf(c.Message, "c%d", &id)
			sent = append(sent, id)
		}
		tnums := []int{}
		for t := range tables {
			tnums = append(tnums, tableNum[t])
		}
		sort.Ints(tnums)
		commons := []int{}
		for _, s := range f.CommonCommmits() {
			commons = append(commons, bg.IDs[string(s)])
		}
		sort.Ints(commons)
		return Ok(map[string]interface{}{"acks": acks, "sent": sent, "tables": tnums, "commons": commons, "refused": refused})
	})
}

var _ = objects.ErrKeyNotFound

func diamondChain(k int) []GCommit {
	// 1 <- (2,3) <- 4 <- (5,6) <- 7 ...: k diamonds
	g := []GCommit{{ID: 1, Time: 1000, Table: 1}}
	last := 1
	id := 2
	for i := 0; i < k; i++ {
		a, b, m := id, id+1, id+2
		g = append(g, GCommit{ID: a, Time: int64(1000 + 10*a), Parents: []int{last}, Table: a})
		g = append(g, GCommit{ID: b, Time: int64(1000 + 10*b), Parents: []int{last}, Table: b})
		g = append(g, GCommit{ID: m, Time: int64(1000 + 10*m), Parents: []int{a, b}, Table: m})
		last = m
		id += 3
	}
	return g
}

func genC08(r *rand.Rand, thorough bool) (*c08Input, []string) {
	tags := []string{}
	var g []GCommit
	if r.Intn(25) == 0 {
		k := 10 + r.Intn(3)
		g = diamondChain(k)
		tags = append(tags, "diamond-chain")
	} else {
		maxN := 10
		if thorough {
			maxN = 14
		}
		n := 1 + r.Intn(maxN)
		g = GenGraph(r, n, r.Intn(5), 0.35, 0.12)
		for i := range g {
			g[i].Table = g[i].ID
			if r.Intn(8) == 0 && i > 0 {
				g[i].Table = g[r.Intn(i)].Table // commits sharing a table
			}
		}
	}
	n := len(g)
	in := &c08Input{Graph: g, Refs: []int{}, TableMissing: []int{}, TablesFirst: r.Intn(2) == 0}
	// refs: the last commit and a few random ones
	in.Refs = append(in.Refs, n)
	for i := 0; i < r.Intn(3); i++ {
		in.Refs = append(in.Refs, 1+r.Intn(n))
	}
	if r.Intn(6) == 0 {
		in.TableMissing = append(in.TableMissing, 1+r.Intn(n))
		tags = append(tags, "shallow")
	}
	switch r.Intn(4) {
	case 0:
		in.Depth = 0
	default:
		in.Depth = r.Intn(4)
	}
	if in.Depth > 0 {
		tags = append(tags, "depth")
	}
	nRounds := 1 + r.Intn(3)
	for k := 0; k < nRounds; k++ {
		rd := c08Round{Wants: []int{}, Haves: []int{}}
		if k == 0 {
			for i := 0; i < 1+r.Intn(2); i++ {
				if len(tags) > 0 && tags[0] == "diamond-chain" {
					rd.Wants = append(rd.Wants, n)
				} else if r.Intn(10) == 0 {
					rd.Wants = append(rd.Wants, 1+r.Intn(n)) // possibly unreachable from the refs
				} else {
					rd.Wants = append(rd.Wants, in.Refs[r.Intn(len(in.Refs))])
				}
			}
		}
		nh := r.Intn(4)
		for i := 0; i < nh; i++ {
			if r.Intn(8) == 0 {
				rd.Haves = append(rd.Haves, n+1+r.Intn(3)) // unknown hash
			} else {
				rd.Haves = append(rd.Haves, 1+r.Intn(n))
			}
		}
		rd.Done = k == nRounds-1 && r.Intn(2) == 0
		in.Rounds = append(in.Rounds, rd)
	}
	if nRounds > 1 {
		tags = append(tags, "multi-round")
	}
	if len(in.Rounds[0].Wants) > 1 {
		tags = append(tags, "multi-want")
	}
	return in, tags
}

// c08RefNamespaces: where a ref can live. Negotiation starts from every ref of the repository,
// whatever its namespace.
var c08RefNamespaces = []string{
	"heads/b%d",
	"tags/v%d",
	"remotes/origin/b%d",
	"txs/0b5c1f2e-7a44-4c1d-9e0a-3d1f6b2a9c%02d/main",
	"custom/x%d",
	"txs/6e2d9a10-11f3-4b7e-8c55-0a9b7c3d2e01/b%d",
	"remotes/up/b%d",
	"heads/feature/b%d",
}

// c08ReachableFrom: ids reachable from the given commits along parent links.
func c08ReachableFrom(g []GCommit, from []int) map[int]bool {
	byID := map[int]GCommit{}
	for _, c := range g {
		byID[c.ID] = c
	}
	seen := map[int]bool{}
	var walk func(int)
	walk = func(id int) {
		if _, ok := byID[id]; !ok || seen[id] {
			return
		}
		seen[id] = true
		for _, p := range byID[id].Parents {
			walk(p)
		}
	}
	for _, f := range from {
		walk(f)
	}
	return seen
}

// c08Vary turns a generated scenario into one of the kinds chosen by the case index (the draws of
// genC08 are untouched, so the other cases stay what they were):
//
//	idx%4 == 1  the refs live in namespaces other than heads/ (tags, remote-tracking, transaction
//	            refs txs/<id>/<branch>, custom), rotating so that every ref position meets every namespace
//	idx%5 == 2  a session that goes on after a refused request: a round whose wants include a commit
//	            no ref reaches (dangling in the store), a hash the store has never seen, or a commit
//	            whose table is absent is placed before, between or after the generated rounds
func c08Vary(in *c08Input, seed int64, idx int, tags []string) []string {
	if len(tags) > 0 && tags[0] == "diamond-chain" {
		return tags
	}
	if idx%4 == 1 {
		tx := false
		for i := range in.Refs {
			ns := c08RefNamespaces[(idx/4+i)%len(c08RefNamespaces)]
			in.RefNames = append(in.RefNames, fmt.Sprintf(ns, i))
			tx = tx || ns[:4] == "txs/"
		}
		tags = append(tags, "ref-namespaces")
		if tx {
			tags = append(tags, "tx-ref")
			// a want that only transaction refs reach
			var other []int
			for i, r := range in.Refs {
				if in.RefNames[i][:4] != "txs/" {
					other = append(other, r)
				}
			}
			all, rest := c08ReachableFrom(in.Graph, in.Refs), c08ReachableFrom(in.Graph, other)
			for _, rd := range in.Rounds {
				for _, w := range rd.Wants {
					if all[w] && !rest[w] {
						tags = append(tags, "want-only-under-tx-ref")
						return c08VaryRetry(in, seed, idx, tags)
					}
				}
			}
		}
	}
	return c08VaryRetry(in, seed, idx, tags)
}

func c08VaryRetry(in *c08Input, seed int64, idx int, tags []string) []string {
	if idx%5 != 2 {
		return tags
	}
	xr := rand.New(rand.NewSource((seed*1000003 + int64(idx)) ^ 0x7265747279))
	n := len(in.Graph)
	reach := c08ReachableFrom(in.Graph, in.Refs)
	var dangling []int
	for _, c := range in.Graph {
		if !reach[c.ID] {
			dangling = append(dangling, c.ID)
		}
	}
	if len(dangling) == 0 || xr.Intn(2) == 0 {
		// commits no ref reaches: a deleted branch not yet pruned, a discarded transaction, the
		// leftovers of an aborted push. One or two commits, on top of the history or on their own.
		k := 1 + xr.Intn(2)
		for i := 0; i < k; i++ {
			id := n + 1 + i
			c := GCommit{ID: id, Time: int64(1000 + 10*id), Table: id}
			if i > 0 {
				c.Parents = []int{id - 1}
			} else if xr.Intn(3) != 0 {
				c.Parents = []int{1 + xr.Intn(n)}
			}
			in.Graph = append(in.Graph, c)
			dangling = append(dangling, id)
		}
	}
	var bad int
	kind := "dangling"
	switch xr.Intn(6) {
	case 0:
		bad = len(in.Graph) + 10 + xr.Intn(3) // a hash the store does not hold
		kind = "unknown"
	case 1:
		// a reachable commit whose table object is absent (shallow): refused as well
		bad = in.Refs[xr.Intn(len(in.Refs))]
		miss := false
		var tbl int
		for _, c := range in.Graph {
			if c.ID == bad {
				tbl = c.Table
			}
		}
		for _, m := range in.TableMissing {
			miss = miss || m == tbl
		}
		if !miss {
			in.TableMissing = append(in.TableMissing, tbl)
		}
		kind = "shallow"
	default:
		bad = dangling[xr.Intn(len(dangling))]
	}
	rd := c08Round{Wants: []int{bad}, Haves: []int{}}
	if xr.Intn(3) == 0 {
		// together with a legitimate want: the request is refused as a whole
		good := in.Refs[xr.Intn(len(in.Refs))]
		if xr.Intn(2) == 0 {
			rd.Wants = []int{good, bad}
		} else {
			rd.Wants = []int{bad, good}
		}
	}
	for i := 0; i < xr.Intn(3); i++ {
		rd.Haves = append(rd.Haves, 1+xr.Intn(n))
	}
	pos := xr.Intn(len(in.Rounds) + 1)
	if pos == len(in.Rounds) && len(in.Rounds) > 0 && in.Rounds[len(in.Rounds)-1].Done {
		pos = 0 // nothing follows a round that carried the done flag
	}
	rounds := append([]c08Round{}, in.Rounds[:pos]...)
	rounds = append(rounds, rd)
	in.Rounds = append(rounds, in.Rounds[pos:]...)
	in.Retry = true
	return append(tags, "retry-after-refusal", "refused-want-"+kind)
}

func runC08(ctx *Ctx) {
	in, tags := genC08(ctx.R, ctx.Thorough())
	tags = c08Vary(in, ctx.Seed, ctx.Idx, tags)
	ctx.Emit("negotiate", in, c08Run(in), graphNontrivial(in.Graph), tags...)
}

func corpusC08(ctx *Ctx, op string, raw json.RawMessage) {
	var in c08Input
	if err := json.Unmarshal(raw, &in); err != nil {
		panic(err)
	}
	tags := []string{"corpus"}
	if len(in.Graph) > 25 {
		tags = append(tags, "diamond-chain")
	}
	ctx.Emit("negotiate", &in, c08Run(&in), true, tags...)
}
