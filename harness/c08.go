package main

import (
	"encoding/json"
	"errors"
	"fmt"
	"math/rand"
	"sort"

	"github.com/wrgl/wrgl/pkg/api/utils"
	"github.com/wrgl/wrgl/pkg/objects"
)

func init() {
	runners["C08"] = runC08
	corpusRunners["C08"] = corpusC08
}

type c08Round struct {
	Wants []int `json:"wants"`
	Haves []int `json:"haves"`
	Done  bool  `json:"done"`
}

type c08Input struct {
	Graph        []GCommit  `json:"graph"`
	Refs         []int      `json:"refs"`
	TableMissing []int      `json:"tableMissing"`
	Depth        int        `json:"depth"`
	Rounds       []c08Round `json:"rounds"`
	TablesFirst  bool       `json:"tablesFirst"` // the sender asks for TablesToSend before CommitsToSend
}

// BuildGraphWithTables is BuildGraph plus a dummy table object for every commit whose table is
// not listed as missing, so that TableExist answers.
func BuildGraphWithTables(g []GCommit, missing []int) (*BuiltGraph, error) {
	bg, err := BuildGraph(g)
	if err != nil {
		return nil, err
	}
	miss := map[int]bool{}
	for _, m := range missing {
		miss[m] = true
	}
	for _, c := range g {
		if miss[c.Table] {
			continue
		}
		// stored under the fake sum used in the commit (SaveTable would hash the content)
		if err := bg.DB.Set(append([]byte("tbl/"), fakeSum(c.Table)...), []byte("t")); err != nil {
			return nil, err
		}
	}
	return bg, nil
}

func sumsOf(bg *BuiltGraph, ids []int) [][]byte {
	out := [][]byte{}
	for _, i := range ids {
		if s, ok := bg.Sums[i]; ok {
			out = append(out, s)
		} else {
			// unknown hash
			out = append(out, fakeSum(1000000+i))
		}
	}
	return out
}

func c08Run(in *c08Input) Res {
	return Guard(func() Res {
		bg, err := BuildGraphWithTables(in.Graph, in.TableMissing)
		if err != nil {
			return Err("build")
		}
		rs, closeRS := NewRefStore()
		defer closeRS()
		for i, r := range in.Refs {
			if err := rs.Set(fmt.Sprintf("heads/b%d", i), bg.Sums[r]); err != nil {
				return Err("setref")
			}
		}
		tableNum := map[string]int{}
		for _, c := range in.Graph {
			tableNum[string(fakeSum(c.Table))] = c.Table
		}
		f := apiutils.NewClosedSetsFinder(bg.DB, rs, in.Depth)
		acks := [][]int{}
		for _, rd := range in.Rounds {
			a, err := f.Process(sumsOf(bg, rd.Wants), sumsOf(bg, rd.Haves), rd.Done)
			if err != nil {
				var uw *apiutils.UnrecognizedWantsError
				if errors.As(err, &uw) {
					return Err("unrecognized-wants")
				}
				return Err("process")
			}
			ids := []int{}
			for _, s := range a {
				ids = append(ids, bg.IDs[string(s)])
			}
			sort.Ints(ids)
			acks = append(acks, ids)
		}
		var commits []*objects.Commit
		var tables map[string]struct{}
		if in.TablesFirst {
			tables, err = f.TablesToSend()
			if err != nil {
				return Err("tables-to-send")
			}
			commits, err = f.CommitsToSend()
			if err != nil {
				return Err("commits-to-send")
			}
		} else {
			commits, err = f.CommitsToSend()
			if err != nil {
				return Err("commits-to-send")
			}
			tables, err = f.TablesToSend()
			if err != nil {
				return Err("tables-to-send")
			}
		}
		sent := []int{}
		for _, c := range commits {
			// objects.Commit from the finder has no Sum: identify it by its message
			var id int
			fmt.Sscanf(c.Message, "c%d", &id)
			sent = append(sent, id)
		}
		tnums := []int{}
		for t := range tables {
			tnums = append(tnums, tableNum[t])
		}
		sort.Ints(tnums)
		commons := []int{}
		for _, s := range f.CommonCommmits() {
			commons = append(commons, bg.IDs[string(s)])
		}
		sort.Ints(commons)
		return Ok(map[string]interface{}{"acks": acks, "sent": sent, "tables": tnums, "commons": commons})
	})
}

var _ = objects.ErrKeyNotFound

func diamondChain(k int) []GCommit {
	// 1 <- (2,3) <- 4 <- (5,6) <- 7 ...: k diamonds
	g := []GCommit{{ID: 1, Time: 1000, Table: 1}}
	last := 1
	id := 2
	for i := 0; i < k; i++ {
		a, b, m := id, id+1, id+2
		g = append(g, GCommit{ID: a, Time: int64(1000 + 10*a), Parents: []int{last}, Table: a})
		g = append(g, GCommit{ID: b, Time: int64(1000 + 10*b), Parents: []int{last}, Table: b})
		g = append(g, GCommit{ID: m, Time: int64(1000 + 10*m), Parents: []int{a, b}, Table: m})
		last = m
		id += 3
	}
	return g
}

func genC08(r *rand.Rand, thorough bool) (*c08Input, []string) {
	tags := []string{}
	var g []GCommit
	if r.Intn(25) == 0 {
		k := 10 + r.Intn(3)
		g = diamondChain(k)
		tags = append(tags, "diamond-chain")
	} else {
		maxN := 10
		if thorough {
			maxN = 14
		}
		n := 1 + r.Intn(maxN)
		g = GenGraph(r, n, r.Intn(5), 0.35, 0.12)
		for i := range g {
			g[i].Table = g[i].ID
			if r.Intn(8) == 0 && i > 0 {
				g[i].Table = g[r.Intn(i)].Table // commits sharing a table
			}
		}
	}
	n := len(g)
	in := &c08Input{Graph: g, Refs: []int{}, TableMissing: []int{}, TablesFirst: r.Intn(2) == 0}
	// refs: the last commit and a few random ones
	in.Refs = append(in.Refs, n)
	for i := 0; i < r.Intn(3); i++ {
		in.Refs = append(in.Refs, 1+r.Intn(n))
	}
	if r.Intn(6) == 0 {
		in.TableMissing = append(in.TableMissing, 1+r.Intn(n))
		tags = append(tags, "shallow")
	}
	switch r.Intn(4) {
	case 0:
		in.Depth = 0
	default:
		in.Depth = r.Intn(4)
	}
	if in.Depth > 0 {
		tags = append(tags, "depth")
	}
	nRounds := 1 + r.Intn(3)
	for k := 0; k < nRounds; k++ {
		rd := c08Round{Wants: []int{}, Haves: []int{}}
		if k == 0 {
			for i := 0; i < 1+r.Intn(2); i++ {
				if len(tags) > 0 && tags[0] == "diamond-chain" {
					rd.Wants = append(rd.Wants, n)
				} else if r.Intn(10) == 0 {
					rd.Wants = append(rd.Wants, 1+r.Intn(n)) // possibly unreachable from the refs
				} else {
					rd.Wants = append(rd.Wants, in.Refs[r.Intn(len(in.Refs))])
				}
			}
		}
		nh := r.Intn(4)
		for i := 0; i < nh; i++ {
			if r.Intn(8) == 0 {
				rd.Haves = append(rd.Haves, n+1+r.Intn(3)) // unknown hash
			} else {
				rd.Haves = append(rd.Haves, 1+r.Intn(n))
			}
		}
		rd.Done = k == nRounds-1 && r.Intn(2) == 0
		in.Rounds = append(in.Rounds, rd)
	}
	if nRounds > 1 {
		tags = append(tags, "multi-round")
	}
	if len(in.Rounds[0].Wants) > 1 {
		tags = append(tags, "multi-want")
	}
	return in, tags
}

func runC08(ctx *Ctx) {
	in, tags := genC08(ctx.R, ctx.Thorough())
	ctx.Emit("negotiate", in, c08Run(in), graphNontrivial(in.Graph), tags...)
}

func corpusC08(ctx *Ctx, op string, raw json.RawMessage) {
	var in c08Input
	if err := json.Unmarshal(raw, &in); err != nil {
		panic(err)
	}
	tags := []string{"corpus"}
	if len(in.Graph) > 25 {
		tags = append(tags, "diamond-chain")
	}
	ctx.Emit("negotiate", &in, c08Run(&in), true, tags...)
}
