package main

// C02, a spill file that cannot be written to the end (disk full, quota, file size limit): whatever
// happens to the spill files, an ingest either fails or gives the table the identifier its content
// has — the one the same CSV gets when it is sorted in memory.
//
// The failing write is real: the ingest runs in a CHILD process (this binary started again with
// VERIF_C02_FSIZE_CHILD set; the child does nothing but that one ingest into an in-memory store and
// prints the outcome on its standard output, a pipe) whose RLIMIT_FSIZE is `limit` bytes, with
// SIGXFSZ ignored: every write that would take a regular file beyond `limit` is cut there and the
// next one fails with EFBIG. Only spill files are regular files the child writes. The parent process
// is never limited.

import (
	"bytes"
	"encoding/hex"
	"encoding/json"
	"fmt"
	"math/rand"
	"os"
	"os/exec"
	"os/signal"
	"syscall"
	"time"
)

type c02FaultJob struct {
	CSV     string   `json:"csv"` // hex
	PK      []string `json:"pk"`
	RunSize uint64   `json:"runSize"`
	Workers int      `json:"workers"`
	Limit   uint64   `json:"limit"`
	Tmp     string   `json:"tmp"`
}

type c02FaultOut struct {
	Sum   string `json:"sum,omitempty"`
	Err   string `json:"err,omitempty"`
	Panic string `json:"panic,omitempty"`
}

func init() {
	if os.Getenv("VERIF_C02_FSIZE_CHILD") == "" {
		return
	}
	c02FaultChild()
	os.Exit(0)
}

func c02FaultChild() {
	var job c02FaultJob
	out := c02FaultOut{}
	defer func() {
		if e := recover(); e != nil {
			out = c02FaultOut{Panic: fmt.Sprint(e)}
		}
		b, _ := json.Marshal(out)
		os.Stdout.Write(append(b, '\n'))
	}()
	if err := json.NewDecoder(os.Stdin).Decode(&job); err != nil {
		out.Panic = "child: bad job: " + err.Error()
		return
	}
	csvBytes, err := hex.DecodeString(job.CSV)
	if err != nil {
		out.Panic = "child: bad csv"
		return
	}
	os.Setenv("TMPDIR", job.Tmp)
	signal.Ignore(syscall.SIGXFSZ)
	lim := syscall.Rlimit{Cur: job.Limit, Max: job.Limit}
	if err := syscall.Setrlimit(syscall.RLIMIT_FSIZE, &lim); err != nil {
		out.Panic = "child: setrlimit: " + err.Error()
		return
	}
	sum, err := IngestCSV(NewMemStore(), csvBytes, job.PK, IngestCfg{RunSize: job.RunSize, Workers: job.Workers})
	if err != nil {
		out.Err = err.Error()
		return
	}
	out.Sum = hx(sum)
}

// c02FaultRun runs one ingest in a size-limited child.
func c02FaultRun(job *c02FaultJob) Res {
	exe, err := os.Executable()
	if err != nil {
		return Err("harness-executable")
	}
	tmp, err := os.MkdirTemp(privateTmp(), "c02-fsize-")
	if err != nil {
		return Err("harness-tmp")
	}
	defer os.RemoveAll(tmp)
	job.Tmp = tmp
	jb, _ := json.Marshal(job)
	ctx, cancel := ctxHangAfter(60 * time.Second)
	defer cancel()
	cmd := exec.CommandContext(ctx, exe)
	cmd.Env = append(os.Environ(), "VERIF_C02_FSIZE_CHILD=1")
	cmd.Stdin = bytes.NewReader(jb)
	var stderr bytes.Buffer
	cmd.Stderr = &stderr
	ob, err := cmd.Output()
	if ctx.Err() != nil {
		return Err("hang")
	}
	var o c02FaultOut
	if jerr := json.Unmarshal(bytes.TrimSpace(ob), &o); jerr != nil || err != nil {
		// the child died: a panic on a goroutine of the library
		s := stderr.String()
		if len(s) > 300 {
			s = s[:300]
		}
		return Panic("child-died: " + s)
	}
	switch {
	case o.Panic != "":
		return Panic(o.Panic)
	case o.Err != "":
		return Res{"res": "err", "kind": "ingest", "msg": o.Err}
	}
	return Ok(map[string]interface{}{"sum": o.Sum})
}

type c02FaultInput struct {
	Spec    *TableSpec `json:"spec"`
	RunSize uint64     `json:"runSize"`
	Workers int        `json:"workers"`
	Limit   uint64     `json:"limit"` // no spill file can grow beyond this many bytes
}

// genC02Fault: a table of fixed-width records (every row has the same encoded size, so a spill file
// of R rows is R*W bytes and k*W is a row boundary in every spill file), a run size of R rows, and a
// file size limit below R*W (one time in eight: of R*W or a little more, every write succeeds): at a row boundary (anywhere, or within the last rows of the file, where
// a buffered writer has not flushed yet) or, one time in four, in the middle of a row.
func genC02Fault(r *rand.Rand) *c02FaultInput {
	nCols := 2 + r.Intn(3)
	keyCol := r.Intn(nCols)
	widths := make([]int, nCols)
	for c := range widths {
		widths[c] = r.Intn(11)
	}
	widths[keyCol] = 5
	R := 2 + r.Intn(60)
	if r.Intn(4) == 0 {
		R = 60 + r.Intn(200)
	}
	n := R + 1 + r.Intn(4*R)
	t := &TableSpec{}
	for c := 0; c < nCols; c++ {
		t.Columns = append(t.Columns, string(rune('a'+c)))
	}
	t.PK = []string{t.Columns[keyCol]}
	const letters = "abcdefghijklmnopqrstuvwxyz0123456789"
	for _, v := range r.Perm(n) {
		row := make([]string, nCols)
		for c := range row {
			b := make([]byte, widths[c])
			for i := range b {
				b[i] = letters[r.Intn(len(letters))]
			}
			row[c] = string(b)
		}
		row[keyCol] = fmt.Sprintf("%05d", v)
		t.Rows = append(t.Rows, row)
	}
	W := 4
	for _, w := range widths {
		W += w + 2
	}
	in := &c02FaultInput{Spec: t, RunSize: uint64(R * W), Workers: 1 + r.Intn(3)}
	m := r.Intn(R)
	if r.Intn(2) == 0 {
		m = R - 1 - r.Intn(min(R, 4))
	}
	in.Limit = uint64(m * W)
	if r.Intn(4) == 0 {
		in.Limit += uint64(1 + r.Intn(W-1))
	}
	if r.Intn(8) == 0 {
		// every spill file just fits
		in.Limit = uint64(R*W + r.Intn(W))
	}
	return in
}

func c02FaultCase(ctx *Ctx, in *c02FaultInput, tags ...string) {
	t := in.Spec
	csvBytes := t.CSV(0)
	res := Guard(func() Res {
		base, err := IngestCSV(NewMemStore(), csvBytes, t.PK, IngestCfg{})
		if err != nil {
			return Err("ingest-base")
		}
		control, err := IngestCSV(NewMemStore(), csvBytes, t.PK, IngestCfg{RunSize: in.RunSize, Workers: in.Workers})
		if err != nil {
			return Err("ingest-control")
		}
		faulty := c02FaultRun(&c02FaultJob{CSV: hx(csvBytes), PK: t.PK, RunSize: in.RunSize, Workers: in.Workers, Limit: in.Limit})
		return Ok(map[string]interface{}{"base": hx(base), "control": hx(control), "limited": faulty})
	})
	if res["res"] == "ok" {
		if f, ok := res["val"].(map[string]interface{})["limited"].(Res); ok {
			tags = append(tags, "limited-ingest:"+fmt.Sprint(f["res"]))
		}
	}
	ctx.Emit("ids-spill-write-fault", in, res, true, append(tags, "spill-write-fault")...)
}
