package main

// C12 through the command line: `wrgl gc` (garbage-collect transactions, then prune) on a repository
// with a branch, an orphaned commit and a freshly opened transaction holding a staged commit. The
// transaction is younger than any sensible time-to-live (the default is 30 days), so everything its
// staged ref reaches must survive; the orphan must go.

import (
	"os"
	"path/filepath"
	"strings"

	"github.com/wrgl/wrgl/pkg/local"
	"github.com/wrgl/wrgl/pkg/objects"
	"github.com/wrgl/wrgl/pkg/ref"
)

type c12CLIInput struct {
	GenSeed int64 `json:"genSeed"`
	SetTTL  bool  `json:"setTTL"` // transactionTTL configured explicitly (to 24h) or left to its default
}

func c12CLIRun(in *c12CLIInput) Res {
	root, err := os.MkdirTemp(privateTmp(), "gcli-")
	if err != nil {
		return Err("tmpdir")
	}
	defer os.RemoveAll(root)
	os.Setenv("XDG_CONFIG_HOME", filepath.Join(root, "xdg"))
	os.Setenv("HOME", root)
	return Guard(func() Res {
		dir := filepath.Join(root, "repo", ".wrgl")
		os.MkdirAll(filepath.Join(root, "repo"), 0755)
		rd, err := local.NewRepoDir(dir, "")
		if err != nil {
			return Err("repodir")
		}
		if err := rd.Init(); err != nil {
			return Err("init")
		}
		rd.Close()
		run := func(args ...string) (string, bool) {
			out, err := cli(dir, args...)
			if err != nil {
				return strings.Join(args, " ") + ": " + out + ": " + err.Error(), false
			}
			return out, true
		}
		for _, a := range [][]string{{"config", "set", "user.email", "u@example.com"}, {"config", "set", "user.name", "U"}} {
			if out, ok := run(a...); !ok {
				return Res{"res": "err", "kind": out}
			}
		}
		if in.SetTTL {
			if out, ok := run("config", "set", "transactionTTL", "24h"); !ok {
				return Res{"res": "err", "kind": out}
			}
		}
		write := func(name, body string) string {
			fp := filepath.Join(root, name)
			os.WriteFile(fp, []byte(body), 0644)
			return fp
		}
		if out, ok := run("commit", "main", write("a.csv", "k,v\n1,a\n2,b\n"), "c1", "-n", "1", "-p", "k"); !ok {
			return Res{"res": "err", "kind": out}
		}
		// an orphan: a branch that is deleted again
		if out, ok := run("commit", "tmp", write("o.csv", "k,v\n7,o\n"), "orphan", "-n", "1", "-p", "k"); !ok {
			return Res{"res": "err", "kind": out}
		}
		if out, ok := run("branch", "delete", "tmp"); !ok {
			return Res{"res": "err", "kind": out}
		}
		txid, ok := run("transaction", "start")
		if !ok {
			return Res{"res": "err", "kind": txid}
		}
		txid = strings.TrimSpace(txid)
		if out, ok := run("commit", "main", write("b.csv", "k,v\n1,a\n2,b\n3,staged\n"), "c2", "-n", "1", "-p", "k", "--txid", txid); !ok {
			return Res{"res": "err", "kind": out}
		}
		observe := func() (txRefs int, stagedOK bool, commits int) {
			rd, err := local.NewRepoDir(dir, "")
			if err != nil {
				return -1, false, -1
			}
			defer rd.Close()
			db, err := rd.OpenObjectsStore()
			if err != nil {
				return -1, false, -1
			}
			defer db.Close()
			rs := rd.OpenRefStore()
			all, _ := ref.ListAllRefs(rs)
			stagedOK = true
			for name, sum := range all {
				if strings.HasPrefix(name, "txs/") {
					txRefs++
					c, err := objects.GetCommit(db, sum)
					if err != nil || !objects.TableExist(db, c.Table) {
						stagedOK = false
					}
				}
			}
			keys, _ := objects.GetAllCommitKeys(db)
			return txRefs, stagedOK, len(keys)
		}
		tb, sb, cb := observe()
		out, ok := run("gc")
		if !ok {
			return Res{"res": "err", "kind": out}
		}
		ta, sa, ca := observe()
		return Ok(map[string]interface{}{"txRefsBefore": tb, "stagedUsableBefore": sb, "commitsBefore": cb,
			"txRefsAfter": ta, "stagedUsableAfter": sa, "commitsAfter": ca})
	})
}

func runC12CLI(ctx *Ctx) {
	in := &c12CLIInput{GenSeed: int64(ctx.Idx), SetTTL: ctx.R.Intn(2) == 0}
	ctx.Emit("gc-cli", in, c12CLIRun(in), true, "cli")
}
