package main

// C12 through the command line: `wrgl gc` (garbage-collect transactions, then prune) on a repository
// with a branch, an orphaned commit and a freshly opened transaction holding a staged commit. The
// transaction is younger than any sensible time-to-live (the default is 30 days), so everything its
// staged ref reaches must survive; the orphan must go.

import (
	"bytes"
	"math/rand"
	"os"
	"path/filepath"
	"strings"
	"time"

	"github.com/google/uuid"
	"github.com/wrgl/wrgl/pkg/local"
	"github.com/wrgl/wrgl/pkg/objects"
	"github.com/wrgl/wrgl/pkg/ref"
)

type c12CLIInput struct {
	GenSeed int64 `json:"genSeed"`
	SetTTL  bool  `json:"setTTL"` // transactionTTL configured explicitly (to 24h, or to TTL when given) or left to its default
	// Zone: the process's local time zone for the case, in seconds east of UTC (0: left as it is);
	// TTL: the value configured when SetTTL (""= 24h)
	Zone int    `json:"zone,omitempty"`
	TTL  string `json:"ttl,omitempty"`
}

// c12InZone runs f with the process's local time zone set to a fixed offset (seconds east of UTC;
// 0: unchanged). Cases run one at a time, and the commands run in this process, so everything that
// asks for the local time during f — the harness, the command, the SQLite driver rendering a
// time.Time — sees the same zone.
func c12InZone(zone int, f func()) {
	if zone != 0 {
		old := time.Local
		time.Local = time.FixedZone("verif"+itoa(zone/60), zone)
		defer func() { time.Local = old }()
	}
	f()
}

// c12ZoneOf: the zone of a gc case is a function of the case index alone.
func c12ZoneOf(idx int) int {
	return []int{0, -5 * 3600, 5*3600 + 1800, -8 * 3600}[(idx/20)%4]
}

func c12CLIRun(in *c12CLIInput) (res Res) {
	c12InZone(in.Zone, func() { res = c12CLIRunZ(in) })
	return
}

func c12CLIRunZ(in *c12CLIInput) Res {
	root, err := os.MkdirTemp(privateTmp(), "gcli-")
	if err != nil {
		return Err("tmpdir")
	}
	defer os.RemoveAll(root)
	os.Setenv("XDG_CONFIG_HOME", filepath.Join(root, "xdg"))
	os.Setenv("HOME", root)
	return Guard(func() Res {
		dir := filepath.Join(root, "repo", ".wrgl")
		os.MkdirAll(filepath.Join(root, "repo"), 0755)
		rd, err := local.NewRepoDir(dir, "")
		if err != nil {
			return Err("repodir")
		}
		if err := rd.Init(); err != nil {
			return Err("init")
		}
		rd.Close()
		run := func(args ...string) (string, bool) {
			out, err := cli(dir, args...)
			if err != nil {
				return strings.Join(args, " ") + ": " + out + ": " + err.Error(), false
			}
			return out, true
		}
		for _, a := range [][]string{{"config", "set", "user.email", "u@example.com"}, {"config", "set", "user.name", "U"}} {
			if out, ok := run(a...); !ok {
				return Res{"res": "err", "kind": out}
			}
		}
		if in.SetTTL {
			ttl := in.TTL
			if ttl == "" {
				ttl = "24h"
			}
			if out, ok := run("config", "set", "transactionTTL", ttl); !ok {
				return Res{"res": "err", "kind": out}
			}
		}
		write := func(name, body string) string {
			fp := filepath.Join(root, name)
			os.WriteFile(fp, []byte(body), 0644)
			return fp
		}
		if out, ok := run("commit", "main", write("a.csv", "k,v\n1,a\n2,b\n"), "c1", "-n", "1", "-p", "k"); !ok {
			return Res{"res": "err", "kind": out}
		}
		// an orphan: a branch that is deleted again
		if out, ok := run("commit", "tmp", write("o.csv", "k,v\n7,o\n"), "orphan", "-n", "1", "-p", "k"); !ok {
			return Res{"res": "err", "kind": out}
		}
		if out, ok := run("branch", "delete", "tmp"); !ok {
			return Res{"res": "err", "kind": out}
		}
		txid, ok := run("transaction", "start")
		if !ok {
			return Res{"res": "err", "kind": txid}
		}
		txid = strings.TrimSpace(txid)
		if out, ok := run("commit", "main", write("b.csv", "k,v\n1,a\n2,b\n3,staged\n"), "c2", "-n", "1", "-p", "k", "--txid", txid); !ok {
			return Res{"res": "err", "kind": out}
		}
		observe := func() (txRefs int, stagedOK bool, commits int) {
			rd, err := local.NewRepoDir(dir, "")
			if err != nil {
				return -1, false, -1
			}
			defer rd.Close()
			db, err := rd.OpenObjectsStore()
			if err != nil {
				return -1, false, -1
			}
			defer db.Close()
			rs := rd.OpenRefStore()
			all, _ := ref.ListAllRefs(rs)
			stagedOK = true
			for name, sum := range all {
				if strings.HasPrefix(name, "txs/") {
					txRefs++
					c, err := objects.GetCommit(db, sum)
					if err != nil || !objects.TableExist(db, c.Table) {
						stagedOK = false
					}
				}
			}
			keys, _ := objects.GetAllCommitKeys(db)
			return txRefs, stagedOK, len(keys)
		}
		tb, sb, cb := observe()
		out, ok := run("gc")
		if !ok {
			return Res{"res": "err", "kind": out}
		}
		ta, sa, ca := observe()
		return Ok(map[string]interface{}{"txRefsBefore": tb, "stagedUsableBefore": sb, "commitsBefore": cb,
			"txRefsAfter": ta, "stagedUsableAfter": sa, "commitsAfter": ca})
	})
}

func runC12CLI(ctx *Ctx) {
	in := &c12CLIInput{GenSeed: int64(ctx.Idx), SetTTL: ctx.R.Intn(2) == 0}
	tags := []string{"cli"}
	// every other command-line case runs in a zone away from UTC, with a time-to-live shorter than
	// the zone's offset when one is configured
	if (ctx.Idx/40)%2 == 1 {
		in.Zone = []int{-5 * 3600, 9 * 3600, -10 * 3600}[(ctx.Idx/80)%3]
		if in.SetTTL {
			in.TTL = "1h"
		}
		tags = append(tags, c12ZoneTag(in.Zone))
	}
	ctx.Emit("gc-cli", in, c12CLIRun(in), true, tags...)
}

func c12ZoneTag(zone int) string {
	switch {
	case zone < 0:
		return "zone-west-of-utc"
	case zone > 0:
		return "zone-east-of-utc"
	}
	return "zone-utc"
}

// ---------------------------------------------------------------------------------------------
// `wrgl gc` / `wrgl prune` on a generated repository directory holding transactions of several
// ages. A transaction is expired when it is in progress and began at least the time-to-live ago;
// gc discards those (and their txs/<id>/<branch> refs) and then prunes, so what they alone kept
// alive must be gone when the command returns; everything any other ref reaches (open or committed
// transactions included) must be intact.

type c12Tx struct {
	Age    int64  `json:"age"` // seconds since begin
	Status string `json:"status"`
}

type c12Ref struct {
	C  int `json:"c"`  // commit id
	Tx int `json:"tx"` // index into Txs, -1 for an ordinary ref
}

type c12GCSpec struct {
	Cmd     string   `json:"cmd"`    // "gc" or "prune"
	SetTTL  string   `json:"setTTL"` // value given to `config set transactionTTL` ("" = left to its default)
	TTL     int64    `json:"ttl"`    // effective time-to-live in seconds
	Zone    int      `json:"zone,omitempty"` // the process's local time zone during the case, seconds east of UTC (0: as it is)
	Txs     []c12Tx  `json:"txs"`
	RefList []c12Ref `json:"refList"`
}

func c12GCCase(ctx *Ctx, seed int64, zone int, corpus bool) {
	c12InZone(zone, func() { c12GCCaseZ(ctx, seed, zone, corpus) })
}

func c12GCCaseZ(ctx *Ctx, seed int64, zone int, corpus bool) {
	root, err := os.MkdirTemp(privateTmp(), "gcrepo-")
	if err != nil {
		return
	}
	defer os.RemoveAll(root)
	os.Setenv("XDG_CONFIG_HOME", filepath.Join(root, "xdg"))
	os.Setenv("HOME", root)
	in := &c12Input{Seed: seed, Shape: "gc", Refs: []int{}}
	res := Guard(func() Res {
		dir := filepath.Join(root, "repo", ".wrgl")
		os.MkdirAll(filepath.Join(root, "repo"), 0755)
		rd, err := local.NewRepoDir(dir, "")
		if err != nil {
			return Err("repodir")
		}
		rdOpen := true
		defer func() {
			if rdOpen {
				rd.Close()
			}
		}()
		if err := rd.Init(); err != nil {
			return Err("init")
		}
		db, err := openC12Badger(rd.KVPath())
		if err != nil {
			return Err("badger")
		}
		dbOpen := true
		defer func() {
			if dbOpen {
				db.Close()
			}
		}()
		rs := rd.OpenRefStore()
		w, err := buildC12On(seed, "gc", db, rs)
		if err != nil {
			return Err("build")
		}
		// parameters of the run, from a stream of their own
		r := rand.New(rand.NewSource(seed*31 + 7))
		spec := &c12GCSpec{Cmd: "gc", Zone: zone, Txs: []c12Tx{}, RefList: []c12Ref{}}
		if r.Intn(4) == 0 {
			spec.Cmd = "prune"
		}
		ttl := int64(30 * 24 * 3600)
		switch r.Intn(3) {
		case 1:
			spec.SetTTL, ttl = "24h", 24*3600
		case 2:
			spec.SetTTL, ttl = "2h", 2*3600
		}
		spec.TTL = ttl
		names := []string{}
		for i, c := range w.refs {
			spec.RefList = append(spec.RefList, c12Ref{C: c, Tx: -1})
			names = append(names, w.refNames[i])
		}
		// commits nobody builds on: what a transaction typically stages
		isParent := map[int]bool{}
		for _, c := range w.all {
			for _, p := range c.Parents {
				isParent[p] = true
			}
		}
		tips := []int{}
		for _, c := range w.all {
			if !isParent[c.ID] {
				tips = append(tips, c.ID)
			}
		}
		now := time.Now()
		nTx := 1 + r.Intn(3)
		ids := []uuid.UUID{}
		for i := 0; i < nTx; i++ {
			var b [16]byte
			r.Read(b[:])
			b[6] = (b[6] & 0x0f) | 0x40
			b[8] = (b[8] & 0x3f) | 0x80
			id := uuid.UUID(b)
			// well clear of the time-to-live on either side
			ages := []int64{ttl / 24, ttl - ttl/24, ttl + ttl/24, 3 * ttl}
			if zone != 0 {
				// away from UTC: also half an hour (less than any zone's offset, far more than the
				// run takes) on either side of the time-to-live
				ages[1], ages[2] = ttl-1800, ttl+1800
			}
			age := ages[r.Intn(4)]
			tx := &ref.Transaction{ID: id, Status: ref.TSInProgress, Begin: now.Add(-time.Duration(age) * time.Second)}
			if r.Intn(4) == 0 {
				tx.Status = ref.TSCommitted
				tx.End = tx.Begin.Add(time.Minute)
			}
			if _, err := rs.NewTransaction(tx); err != nil {
				return Err("new-transaction")
			}
			ids = append(ids, id)
			spec.Txs = append(spec.Txs, c12Tx{Age: age, Status: string(tx.Status)})
			for k, nr := 0, 1+r.Intn(2); k < nr; k++ {
				c := tips[r.Intn(len(tips))]
				if r.Intn(4) == 0 {
					c = 1 + r.Intn(len(w.all))
				}
				if err := ref.SaveTransactionRef(rs, id, "br"+itoa(k), w.comSum[c]); err != nil {
					return Err("tx-ref")
				}
				spec.RefList = append(spec.RefList, c12Ref{C: c, Tx: i})
				names = append(names, ref.TransactionRef(id.String(), "br"+itoa(k)))
			}
		}
		in.GC = spec
		in.Before = w.dump()
		db.Close()
		dbOpen = false
		rd.Close()
		rdOpen = false

		if spec.SetTTL != "" {
			if out, err := cli(dir, "config", "set", "transactionTTL", spec.SetTTL); err != nil {
				return Res{"res": "err", "kind": "config: " + out + ": " + err.Error()}
			}
		}
		cmdOut, cmdErr := cli(dir, spec.Cmd)

		rd2, err := local.NewRepoDir(dir, "")
		if err != nil {
			return Err("reopen")
		}
		defer rd2.Close()
		db2, err := openC12Badger(rd2.KVPath())
		if err != nil {
			return Err("reopen-badger")
		}
		defer db2.Close()
		w.db, w.rs = db2, rd2.OpenRefStore()
		after := w.dump()
		all, err := ref.ListAllRefs(w.rs)
		if err != nil {
			return Err("list-refs")
		}
		refsAfter := []int{}
		known := map[string]bool{}
		for i, name := range names {
			known[name] = true
			if sum, ok := all[name]; ok && bytes.Equal(sum, w.comSum[spec.RefList[i].C]) {
				refsAfter = append(refsAfter, i)
			}
		}
		extra := 0
		for name := range all {
			if !known[name] {
				extra++
			}
		}
		txsAfter := []int{}
		for i, id := range ids {
			if _, err := w.rs.GetTransaction(id); err == nil {
				txsAfter = append(txsAfter, i)
			}
		}
		v := map[string]interface{}{"cmdErr": cmdErr != nil, "after": after, "usable": c12Usable(w, in.Before, after),
			"refsAfter": refsAfter, "extraRefs": extra, "txsAfter": txsAfter}
		if cmdErr != nil {
			v["cmdOut"] = cmdOut + ": " + cmdErr.Error()
		}
		return Ok(v)
	})
	if in.Before == nil {
		// the repository could not be set up: nothing to judge
		if !corpus {
			ctx.Emit("gc", map[string]interface{}{"genSeed": seed, "shape": "gc"}, res, false, "gc-setup-failed")
		}
		return
	}
	tags := []string{"repo-dir", "cmd=" + in.GC.Cmd, c12ZoneTag(in.GC.Zone)}
	expired := false
	for _, t := range in.GC.Txs {
		if t.Status == string(ref.TSInProgress) && t.Age >= in.GC.TTL {
			expired = true
		}
	}
	if expired {
		tags = append(tags, "expired-transaction")
	}
	nt := false
	if res["res"] == "ok" {
		nt = len(res["val"].(map[string]interface{})["after"].(*c12Repo).Commits) < len(in.Before.Commits)
	}
	if corpus {
		tags, nt = []string{"corpus"}, true
	}
	ctx.Emit("gc", in, res, nt, tags...)
}
