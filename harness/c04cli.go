package main

// C04 through the command line: two commits on one branch, `wrgl diff main main^ --no-gui`, and
// the DIFF_*.csv it writes (one line per added / removed row, two per modified row).

import (
	"os"
	"path/filepath"
	"sort"
	"strings"

	"github.com/wrgl/wrgl/pkg/local"
)

type c04CLIInput struct {
	S1  *TableSpec `json:"s1"` // the newer commit
	S2  *TableSpec `json:"s2"` // the older commit
	New [][]string `json:"new"` // hex rows
	Old [][]string `json:"old"`
}

func c04CLIRun(s1, s2 *TableSpec) Res {
	root, err := os.MkdirTemp(privateTmp(), "dcli-")
	if err != nil {
		return Err("tmpdir")
	}
	defer os.RemoveAll(root)
	os.Setenv("XDG_CONFIG_HOME", filepath.Join(root, "xdg"))
	os.Setenv("HOME", root)
	return Guard(func() Res {
		dir := filepath.Join(root, "repo", ".wrgl")
		os.MkdirAll(filepath.Join(root, "repo"), 0755)
		rd, err := local.NewRepoDir(dir, "")
		if err != nil {
			return Err("repodir")
		}
		if err := rd.Init(); err != nil {
			return Err("init")
		}
		rd.Close()
		for _, a := range [][]string{{"config", "set", "user.email", "u@example.com"}, {"config", "set", "user.name", "U"}} {
			if out, err := cli(dir, a...); err != nil {
				return Res{"res": "err", "kind": "setup:" + out + err.Error()}
			}
		}
		for i, s := range []*TableSpec{s2, s1} {
			fp := filepath.Join(root, "t.csv")
			os.WriteFile(fp, s.CSV(0), 0644)
			if out, err := cli(dir, "commit", "main", fp, "c"+itoa(i), "-n", "1", "-p", strings.Join(s.PK, ",")); err != nil {
				return Res{"res": "err", "kind": "commit:" + out + ":" + err.Error()}
			}
		}
		cwd, _ := os.Getwd()
		os.Chdir(root)
		defer os.Chdir(cwd)
		if out, err := cli(dir, "diff", "main", "main^", "--no-gui"); err != nil {
			return Res{"res": "err", "kind": "diff:" + out + ":" + err.Error()}
		}
		files, _ := filepath.Glob(filepath.Join(root, "DIFF_*.csv"))
		if len(files) != 1 {
			return Err("no-diff-file")
		}
		b, err := os.ReadFile(files[0])
		if err != nil {
			return Err("read-diff-file")
		}
		// lines have different widths (labels, profile lines): read leniently
		added, removed, modified := []string{}, []string{}, []string{}
		keyCol := -1
		for _, line := range splitCSVLenient(b) {
			if len(line) == 0 {
				continue
			}
			switch {
			case strings.HasPrefix(line[0], "COLUMNS IN") && keyCol < 0:
				for i, c := range line[1:] {
					if c == s1.PK[0] {
						keyCol = i + 1
					}
				}
			case strings.HasPrefix(line[0], "ADDED IN") && keyCol > 0 && keyCol < len(line):
				added = append(added, hx([]byte(line[keyCol])))
			case strings.HasPrefix(line[0], "REMOVED IN") && keyCol > 0 && keyCol < len(line):
				removed = append(removed, hx([]byte(line[keyCol])))
			case strings.HasPrefix(line[0], "MODIFIED IN") && keyCol > 0 && keyCol < len(line):
				modified = append(modified, hx([]byte(line[keyCol])))
			}
		}
		sort.Strings(added)
		sort.Strings(removed)
		sort.Strings(modified)
		return Ok(map[string]interface{}{"added": added, "removed": removed, "modified": modified, "keyColumnFound": keyCol > 0})
	})
}

func splitCSVLenient(b []byte) [][]string {
	hdr, rows, err := rereadCSVVar(b)
	if err != nil {
		return nil
	}
	return append([][]string{hdr}, rows...)
}

func runC04CLI(ctx *Ctx) {
	s1, s2 := windowShapes(ctx.R, 0)
	in := &c04CLIInput{S1: s1, S2: s2, New: hxRows(s1.Rows), Old: hxRows(s2.Rows)}
	ctx.Emit("diff-cli", in, c04CLIRun(s1, s2), true, "cli", "mode=window-shapes")
}
