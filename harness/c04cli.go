package main

// C04 through the command line: two commits on one branch, `wrgl diff main main^ --no-gui`, and
// the DIFF_*.csv it writes (one line per added / removed row, two per modified row).
//
// The two commits may sit on top of an earlier history of the branch (Earlier): commits of the same
// files under another primary key - none, or the key extended by a column - or under the same one,
// made before the two that are diffed. What the diff of the last two commits says is a function of
// their two tables; nothing the branch held before may show in it.

import (
	"os"
	"path/filepath"
	"sort"
	"strings"

	"github.com/wrgl/wrgl/pkg/local"
)

type c04CLIInput struct {
	S1  *TableSpec `json:"s1"` // the newer commit
	S2  *TableSpec `json:"s2"` // the older commit
	New [][]string `json:"new"` // hex rows
	Old [][]string `json:"old"`
	// Earlier: commits made on the branch before the two, oldest first
	Earlier []c04Earlier `json:"earlier,omitempty"`
}

// c04Earlier is one earlier commit of the branch: the rows of s1 or of s2, committed with the key PK
// (column names; empty = no primary key).
type c04Earlier struct {
	Of string   `json:"of"` // "s1" | "s2"
	PK []string `json:"pk"`
}

func c04CLIRun(s1, s2 *TableSpec, earlier []c04Earlier) Res {
	root, err := os.MkdirTemp(privateTmp(), "dcli-")
	if err != nil {
		return Err("tmpdir")
	}
	defer os.RemoveAll(root)
	os.Setenv("XDG_CONFIG_HOME", filepath.Join(root, "xdg"))
	os.Setenv("HOME", root)
	return Guard(func() Res {
		dir := filepath.Join(root, "repo", ".wrgl")
		os.MkdirAll(filepath.Join(root, "repo"), 0755)
		rd, err := local.NewRepoDir(dir, "")
		if err != nil {
			return Err("repodir")
		}
		if err := rd.Init(); err != nil {
			return Err("init")
		}
		rd.Close()
		for _, a := range [][]string{{"config", "set", "user.email", "u@example.com"}, {"config", "set", "user.name", "U"}} {
			if out, err := cli(dir, a...); err != nil {
				return Res{"res": "err", "kind": "setup:" + out + err.Error()}
			}
		}
		for i, e := range earlier {
			s := s2
			if e.Of == "s1" {
				s = s1
			}
			fp := filepath.Join(root, "t.csv")
			os.WriteFile(fp, s.CSV(0), 0644)
			args := []string{"commit", "main", fp, "e" + itoa(i), "-n", itoa(1 + i%3)}
			if len(e.PK) > 0 {
				args = append(args, "-p", strings.Join(e.PK, ","))
			}
			if out, err := cli(dir, args...); err != nil {
				return Res{"res": "err", "kind": "earlier-commit:" + out + ":" + err.Error()}
			}
		}
		for i, s := range []*TableSpec{s2, s1} {
			fp := filepath.Join(root, "t.csv")
			os.WriteFile(fp, s.CSV(0), 0644)
			if out, err := cli(dir, "commit", "main", fp, "c"+itoa(i), "-n", "1", "-p", strings.Join(s.PK, ",")); err != nil {
				return Res{"res": "err", "kind": "commit:" + out + ":" + err.Error()}
			}
		}
		cwd, _ := os.Getwd()
		os.Chdir(root)
		defer os.Chdir(cwd)
		if out, err := cli(dir, "diff", "main", "main^", "--no-gui"); err != nil {
			return Res{"res": "err", "kind": "diff:" + out + ":" + err.Error()}
		}
		files, _ := filepath.Glob(filepath.Join(root, "DIFF_*.csv"))
		if len(files) != 1 {
			return Err("no-diff-file")
		}
		b, err := os.ReadFile(files[0])
		if err != nil {
			return Err("read-diff-file")
		}
		// lines have different widths (labels, profile lines): read leniently
		added, removed, modified := []string{}, []string{}, []string{}
		keyCol := -1
		for _, line := range splitCSVLenient(b) {
			if len(line) == 0 {
				continue
			}
			switch {
			case strings.HasPrefix(line[0], "COLUMNS IN") && keyCol < 0:
				for i, c := range line[1:] {
					if c == s1.PK[0] {
						keyCol = i + 1
					}
				}
			case strings.HasPrefix(line[0], "ADDED IN") && keyCol > 0 && keyCol < len(line):
				added = append(added, hx([]byte(line[keyCol])))
			case strings.HasPrefix(line[0], "REMOVED IN") && keyCol > 0 && keyCol < len(line):
				removed = append(removed, hx([]byte(line[keyCol])))
			case strings.HasPrefix(line[0], "MODIFIED IN") && keyCol > 0 && keyCol < len(line):
				modified = append(modified, hx([]byte(line[keyCol])))
			}
		}
		sort.Strings(added)
		sort.Strings(removed)
		sort.Strings(modified)
		return Ok(map[string]interface{}{"added": added, "removed": removed, "modified": modified, "keyColumnFound": keyCol > 0})
	})
}

func splitCSVLenient(b []byte) [][]string {
	hdr, rows, err := rereadCSVVar(b)
	if err != nil {
		return nil
	}
	return append([][]string{hdr}, rows...)
}

// c04EarlierShapes: histories the branch may have had before the two diffed commits. The key column
// k leads and is unique, so the rows sort the same way under no key, under (k) and under (k, v).
func c04EarlierShape(k int, pk []string, other string) ([]c04Earlier, string) {
	ext := append(append([]string{}, pk...), other)
	switch k % 6 {
	case 0: // the older file was first committed without a primary key
		return []c04Earlier{{Of: "s2", PK: []string{}}}, "no-key"
	case 1: // ... and then once more with the key
		return []c04Earlier{{Of: "s2", PK: []string{}}, {Of: "s2", PK: pk}}, "no-key,keyed"
	case 2: // the older file was first committed with a longer key
		return []c04Earlier{{Of: "s2", PK: ext}}, "longer-key"
	case 3: // the newer file had been on the branch before, without a key and with it
		return []c04Earlier{{Of: "s1", PK: []string{}}, {Of: "s1", PK: pk}}, "newer:no-key,keyed"
	case 4: // both files before, under other keys
		return []c04Earlier{{Of: "s1", PK: ext}, {Of: "s2", PK: []string{}}}, "newer:longer-key,older:no-key"
	default: // the same two commits had been made before
		return []c04Earlier{{Of: "s2", PK: pk}, {Of: "s1", PK: pk}}, "same-commits-before"
	}
}

func runC04CLI(ctx *Ctx) {
	s1, s2 := windowShapes(ctx.R, 0)
	in := &c04CLIInput{S1: s1, S2: s2, New: hxRows(s1.Rows), Old: hxRows(s2.Rows)}
	tags := []string{"cli", "mode=window-shapes"}
	if (ctx.Idx/12)%2 == 1 {
		// every other command-line case: the branch has a history before the two commits
		var label string
		in.Earlier, label = c04EarlierShape(ctx.Idx/24, s1.PK, s1.Columns[len(s1.Columns)-1])
		tags = append(tags, "earlier="+label)
	}
	ctx.Emit("diff-cli", in, c04CLIRun(s1, s2, in.Earlier), true, tags...)
}
