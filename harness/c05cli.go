package main

// C05 through the command line: three branches committed with `wrgl commit`, merged with
// `wrgl merge b1 b2` (no conflicts by construction, so the merge tool is never opened and the
// command commits the result), then `wrgl export b1`. Column removal by one branch and column
// addition / moves by another exercise the command's own column bookkeeping.

import (
	"encoding/csv"
	"fmt"
	"math/rand"
	"os"
	"path/filepath"
	"strings"

	"github.com/wrgl/wrgl/pkg/local"
	"github.com/wrgl/wrgl/pkg/objects"
	"github.com/wrgl/wrgl/pkg/ref"
)

type c05CLIInput struct {
	Specs []*TableSpec `json:"specs"` // base, branch 1, branch 2
	// hex copies for the Lean driver
	Columns  []string     `json:"columns"`
	PKNames  []string     `json:"pkNames"`
	Base     [][]string   `json:"base"`
	BColumns [][]string   `json:"branchColumns"`
	Branches [][][]string `json:"branches"`
}

func genC05CLI(r *rand.Rand) []*TableSpec {
	n := 3 + r.Intn(20)
	base := &TableSpec{Columns: []string{"k", "a", "b", "c"}, PK: []string{"k"}}
	for i := 0; i < n; i++ {
		base.Rows = append(base.Rows, []string{fmt.Sprintf("%04d", i), []string{"p", "q", ""}[r.Intn(3)], []string{"x", "y"}[r.Intn(2)], fmt.Sprint(i % 3)})
	}
	// branch 1 removes one non-key column (and nothing else)
	b1 := cloneSpec(base)
	rm := 1 + r.Intn(3)
	b1.Columns = append(b1.Columns[:rm], b1.Columns[rm+1:]...)
	for i, row := range b1.Rows {
		b1.Rows[i] = append(append([]string{}, row[:rm]...), row[rm+1:]...)
	}
	// branch 2 adds a column at a random position (after the key), sometimes moves one, sometimes adds a row
	b2 := cloneSpec(base)
	pos := 1 + r.Intn(len(b2.Columns))
	b2.Columns = append(b2.Columns[:pos], append([]string{"n"}, b2.Columns[pos:]...)...)
	for i, row := range b2.Rows {
		v := []string{"u", "v", ""}[r.Intn(3)]
		b2.Rows[i] = append(append([]string{}, row[:pos]...), append([]string{v}, row[pos:]...)...)
	}
	if r.Intn(2) == 0 {
		i, j := 1+r.Intn(len(b2.Columns)-1), 1+r.Intn(len(b2.Columns)-1)
		b2.Columns[i], b2.Columns[j] = b2.Columns[j], b2.Columns[i]
		for _, row := range b2.Rows {
			row[i], row[j] = row[j], row[i]
		}
	}
	if r.Intn(2) == 0 {
		nr := make([]string, len(b2.Columns))
		for c := range nr {
			nr[c] = "z"
		}
		nr[0] = fmt.Sprintf("9%03d", r.Intn(100))
		b2.Rows = append(b2.Rows, nr)
	}
	return []*TableSpec{base, b1, b2}
}

func c05CLIRun(specs []*TableSpec) Res {
	root, err := os.MkdirTemp(privateTmp(), "mcli-")
	if err != nil {
		return Err("tmpdir")
	}
	defer os.RemoveAll(root)
	os.Setenv("XDG_CONFIG_HOME", filepath.Join(root, "xdg"))
	os.Setenv("HOME", root)
	return Guard(func() Res {
		dir := filepath.Join(root, "repo", ".wrgl")
		os.MkdirAll(filepath.Join(root, "repo"), 0755)
		rd, err := local.NewRepoDir(dir, "")
		if err != nil {
			return Err("repodir")
		}
		if err := rd.Init(); err != nil {
			return Err("init")
		}
		rd.Close()
		run := func(args ...string) (string, bool) {
			out, err := cli(dir, args...)
			if err != nil {
				return strings.Join(args, " ") + ": " + out + ": " + err.Error(), false
			}
			return out, true
		}
		for _, a := range [][]string{{"config", "set", "user.email", "u@example.com"}, {"config", "set", "user.name", "U"}} {
			if out, ok := run(a...); !ok {
				return Res{"res": "err", "kind": "setup:" + out}
			}
		}
		commit := func(branch string, s *TableSpec, i int) (string, bool) {
			fp := filepath.Join(root, fmt.Sprintf("t%d.csv", i))
			os.WriteFile(fp, s.CSV(0), 0644)
			return run("commit", branch, fp, "c", "-n", "1", "-p", strings.Join(s.PK, ","))
		}
		if out, ok := commit("main", specs[0], 0); !ok {
			return Res{"res": "err", "kind": out}
		}
		for i, b := range []string{"b1", "b2"} {
			if out, ok := run("branch", "create", b, "main"); !ok {
				return Res{"res": "err", "kind": out}
			}
			if out, ok := commit(b, specs[i+1], i+1); !ok {
				return Res{"res": "err", "kind": out}
			}
		}
		cwd, _ := os.Getwd()
		os.Chdir(root)
		defer os.Chdir(cwd)
		if out, ok := run("merge", "b1", "b2", "-n", "1", "-m", "merged"); !ok {
			return Res{"res": "err", "kind": out}
		}
		out, ok := run("export", "b1")
		if !ok {
			return Res{"res": "err", "kind": out}
		}
		hdr, rows, err := rereadCSV([]byte(out), 0)
		if err != nil {
			return Err("export-not-csv")
		}
		er := hxRows(rows)
		if er == nil {
			er = [][]string{}
		}
		return Ok(map[string]interface{}{"columns": hxRow(hdr), "rows": er})
	})
}

func runC05CLI(ctx *Ctx) {
	specs := genC05CLI(ctx.R)
	c05CLIEmit(ctx, specs)
}

func c05CLIEmit(ctx *Ctx, specs []*TableSpec, tags ...string) {
	in := &c05CLIInput{Specs: specs, Columns: hxRow(specs[0].Columns), PKNames: hxRow(specs[0].PK), Base: hxRows(specs[0].Rows)}
	for _, s := range specs[1:] {
		in.BColumns = append(in.BColumns, hxRow(s.Columns))
		in.Branches = append(in.Branches, hxRows(s.Rows))
	}
	ctx.Emit("merge-cli", in, c05CLIRun(specs), true, append(tags, "cli", "col-change")...)
}

// ---------------------------------------------------------------------------------------------
// C05 through the command line over HISTORIES: the merge laws (merge(base; X, base) = X,
// merge(base; X, X) = X, order independence, disjoint edits combine) must hold whatever the shape of
// the commit graph the two arguments of `wrgl merge BRANCH COMMIT` sit in: BRANCH behind COMMIT (the
// classic fast-forward), BRANCH ahead of COMMIT (the commit merged in is already contained: a stale
// branch, or a completed merge run again), both on the same commit, diverged, diverged again after a
// merge; with every fast-forward mode (--ff, --no-ff, --ff-only, default). After every merge step
// the table of every branch is read back; the Lean driver replays the steps on a model of the graph (nodes with
// parents and a table) and says what every branch must hold.

type c05HStep struct {
	Op     string `json:"op"` // commit | branch | merge
	Branch string `json:"branch"`
	From   string `json:"from,omitempty"` // branch: the branch it starts at; merge: the commit merged in
	Table  int    `json:"table"`          // commit: index into tables
	FF     string `json:"ff,omitempty"`   // merge: "", "ff", "no-ff", "ff-only"
}

type c05HTable struct {
	Columns []string   `json:"columns"` // hex
	Rows    [][]string `json:"rows"`    // hex
}

type c05HInput struct {
	Shape   string       `json:"shape"`
	Specs   []*TableSpec `json:"specs"` // the table of every commit step (for replay)
	PKNames []string     `json:"pkNames"`
	Tables  []c05HTable  `json:"tables"`
	Steps   []c05HStep   `json:"steps"`
}

type c05HStepRes struct {
	Res   string                `json:"res"` // ok | err
	Msg   string                `json:"msg,omitempty"`
	Heads map[string]*c05HTable `json:"heads,omitempty"` // after a merge step: the export of every branch
}

// histOwner says which side (0 or 1) may touch a row: new rows carry their side in the key's first
// character, base rows are split by the parity of their numeric key. Two sides never touch the same
// row, so whatever they do combines without conflict.
func histOwner(key string) int {
	switch {
	case strings.HasPrefix(key, "8"):
		return 0
	case strings.HasPrefix(key, "9"):
		return 1
	}
	n := 0
	fmt.Sscanf(key, "%d", &n)
	return n % 2
}

// histBase: layout 0 key first, 1 composite key in front, 2 key elsewhere, 3 no key.
func histBase(r *rand.Rand, layout int) *TableSpec {
	n := 3 + r.Intn(12)
	var t *TableSpec
	switch layout {
	case 0:
		t = &TableSpec{Columns: []string{"k", "a", "b", "c"}, PK: []string{"k"}}
	case 1:
		t = &TableSpec{Columns: []string{"k", "j", "a", "b"}, PK: []string{"k", "j"}}
	case 2:
		t = &TableSpec{Columns: []string{"a", "k", "b"}, PK: []string{"k"}}
	default:
		t = &TableSpec{Columns: []string{"k", "a", "b"}, PK: []string{}}
	}
	for i := 0; i < n; i++ {
		row := make([]string, len(t.Columns))
		for c, name := range t.Columns {
			switch name {
			case "k":
				if layout == 1 {
					row[c] = fmt.Sprintf("%04d", i/2)
				} else {
					row[c] = fmt.Sprintf("%04d", i)
				}
			case "j":
				row[c] = []string{"x", "y"}[i%2]
			default:
				row[c] = []string{"p", "q", "r", ""}[r.Intn(4)]
			}
		}
		t.Rows = append(t.Rows, row)
	}
	return t
}

// c05HistEdit derives the next table of one side: cell edits and removals of the rows the side owns,
// and at least one new row (a commit must change something). gen makes new keys and edits distinct
// between successive derivations.
func c05HistEdit(r *rand.Rand, t *TableSpec, side, gen int) *TableSpec {
	out := &TableSpec{Columns: t.Columns, PK: t.PK}
	kc := 0
	iskey := map[int]bool{}
	for c, name := range t.Columns {
		if name == "k" {
			kc = c
		}
		for _, p := range t.PK {
			if p == name {
				iskey[c] = true
			}
		}
	}
	if len(t.PK) == 0 {
		iskey[kc] = true
	}
	for _, row := range t.Rows {
		nr := append([]string{}, row...)
		if histOwner(row[kc]) == side {
			x := r.Float64()
			if x < 0.15 {
				continue
			}
			if x < 0.5 {
				var nonkey []int
				for c := range nr {
					if !iskey[c] {
						nonkey = append(nonkey, c)
					}
				}
				c := nonkey[r.Intn(len(nonkey))]
				nr[c] = fmt.Sprintf("%s.%d%d", []string{"X", "Y", nr[c]}[r.Intn(3)], side, gen)
			}
		}
		out.Rows = append(out.Rows, nr)
	}
	for i, n := 0, 1+r.Intn(2); i < n; i++ {
		nr := make([]string, len(t.Columns))
		for c, name := range t.Columns {
			switch {
			case name == "k":
				nr[c] = fmt.Sprintf("%d%d%02d", 8+side, gen, i*50+r.Intn(50))
			case name == "j":
				nr[c] = "x"
			default:
				nr[c] = []string{"u", "v", ""}[r.Intn(3)]
			}
		}
		out.Rows = append(out.Rows, nr)
	}
	return out
}

// histAddRow appends one row with a fresh key to a table of any column list.
func histAddRow(r *rand.Rand, t *TableSpec, side, gen int) *TableSpec {
	out := cloneSpec(t)
	nr := make([]string, len(out.Columns))
	for c, name := range out.Columns {
		if name == "k" {
			nr[c] = fmt.Sprintf("%d%d%02d", 8+side, gen, r.Intn(100))
		} else {
			nr[c] = []string{"w", "t", ""}[r.Intn(3)]
		}
	}
	out.Rows = append(out.Rows, nr)
	return out
}

// genC05Hist builds the tables and steps of one history. Table ids: 0 base, 1 / 2 the first commit of
// side 1 / side 2, 3 / 4 their second commits.
func genC05Hist(r *rand.Rand, shape int) *c05HInput {
	pick := func(opts ...string) string { return opts[r.Intn(len(opts))] }
	anyFF := func() string { return pick("", "ff", "no-ff", "ff-only") }
	commitFF := func() string { return pick("", "ff", "no-ff") }
	// shapes 2..4 contain a true three-way merge: key in front (the layouts for which the library-level
	// cases hold on this tree), same columns with disjoint row edits, or column-changing branches
	// (and the stale merge over two commits: where the known finding C11-seek-not-input makes the command
	// take an older shared commit for the base, it runs a three-way merge as well)
	two := shape == 1 && r.Intn(2) == 0
	trueMerge := (shape >= 2 && shape <= 4) || two
	var tabs []*TableSpec
	family := ""
	if r.Intn(3) == 0 {
		tr := genC05CLI(r)
		tabs = []*TableSpec{tr[0], tr[1], tr[2], histAddRow(r, tr[1], 0, 7), histAddRow(r, tr[2], 1, 7)}
		family = "col-change"
	} else {
		layout := r.Intn(2)
		if !trueMerge {
			layout = r.Intn(4)
		}
		base := histBase(r, layout)
		x1, x2 := c05HistEdit(r, base, 0, 1), c05HistEdit(r, base, 1, 1)
		tabs = []*TableSpec{base, x1, x2, c05HistEdit(r, x1, 0, 2), c05HistEdit(r, x2, 1, 2)}
		family = []string{"pk-first", "pk-composite", "pk-elsewhere", "keyless"}[layout]
	}
	commit := func(b string, t int) c05HStep { return c05HStep{Op: "commit", Branch: b, Table: t} }
	branch := func(b, from string) c05HStep { return c05HStep{Op: "branch", Branch: b, From: from} }
	merge := func(b, from, ff string) c05HStep { return c05HStep{Op: "merge", Branch: b, From: from, FF: ff} }
	steps := []c05HStep{commit("main", 0)}
	name := ""
	switch shape {
	case 0: // BRANCH behind the commit merged in, by one or two commits; then again, then the other way round
		name = "behind"
		steps = append(steps, branch("b1", "main"), branch("b2", "main"), commit("b2", 2))
		if r.Intn(2) == 0 {
			steps = append(steps, commit("b2", 4))
		}
		steps = append(steps, merge("b1", "b2", anyFF()), merge("b1", "b2", anyFF()), merge("b2", "b1", anyFF()))
	case 1: // BRANCH ahead of the commit merged in (a stale branch), by one or two commits
		name = "ahead"
		steps = append(steps, branch("b1", "main"), branch("b2", "main"), commit("b1", 1))
		if two {
			steps = append(steps, branch("b3", "b1"), commit("b1", 3))
		}
		steps = append(steps, merge("b1", "b2", anyFF()))
		if two {
			steps = append(steps, merge("b1", "b3", anyFF()))
		}
		steps = append(steps, merge("b1", "main", anyFF()))
	case 2: // diverged, merged, the same merge run again, then the other branch catches up
		name = "repeat"
		steps = append(steps, branch("b1", "main"), commit("b1", 1), branch("b2", "main"), commit("b2", 2),
			merge("b1", "b2", commitFF()), merge("b1", "b2", anyFF()), merge("b2", "b1", anyFF()), merge("b2", "b1", anyFF()))
	case 3: // diverged, merged, one side moves on, merged again (the base is now the other side's old head)
		name = "continue"
		steps = append(steps, branch("b1", "main"), commit("b1", 1), branch("b2", "main"), commit("b2", 2),
			merge("b1", "b2", commitFF()), commit("b2", 4), merge("b1", "b2", commitFF()), merge("b1", "b2", anyFF()), merge("b1", "main", anyFF()))
	case 4: // diverged and fast-forward only: rejected, nothing moves; then merged into the second branch
		name = "ff-only-rejected"
		steps = append(steps, branch("b1", "main"), commit("b1", 1), branch("b2", "main"), commit("b2", 2),
			merge("b1", "b2", "ff-only"), merge("b2", "b1", commitFF()), merge("b2", "b1", anyFF()), merge("b1", "b2", anyFF()))
	default: // both on the same commit; one moves on; stale merge; catch up
		name = "same"
		steps = append(steps, branch("b1", "main"), commit("b1", 1), branch("b2", "b1"), merge("b1", "b2", anyFF()),
			commit("b1", 3), merge("b1", "b2", anyFF()), merge("b2", "b1", anyFF()), merge("b2", "b1", anyFF()))
	}
	return &c05HInput{Shape: name + "/" + family, Specs: tabs, Steps: steps}
}

const c05HistShapes = 6

func c05HistRun(in *c05HInput) Res {
	root, err := os.MkdirTemp(privateTmp(), "mhist-")
	if err != nil {
		return Err("tmpdir")
	}
	defer os.RemoveAll(root)
	os.Setenv("XDG_CONFIG_HOME", filepath.Join(root, "xdg"))
	os.Setenv("HOME", root)
	return Guard(func() Res {
		dir := filepath.Join(root, "repo", ".wrgl")
		os.MkdirAll(filepath.Join(root, "repo"), 0755)
		rd, err := local.NewRepoDir(dir, "")
		if err != nil {
			return Err("repodir")
		}
		if err := rd.Init(); err != nil {
			return Err("init")
		}
		rd.Close()
		run := func(args ...string) (string, bool) {
			out, err := cli(dir, args...)
			if err != nil {
				return strings.Join(args, " ") + ": " + out + ": " + err.Error(), false
			}
			return out, true
		}
		for _, a := range [][]string{{"config", "set", "user.email", "u@example.com"}, {"config", "set", "user.name", "U"}} {
			if out, ok := run(a...); !ok {
				return Res{"res": "err", "kind": "setup:" + out}
			}
		}
		cwd, _ := os.Getwd()
		os.Chdir(root)
		defer os.Chdir(cwd)
		short := func(s string) string {
			s = strings.TrimSpace(s)
			if len(s) > 160 {
				s = s[:160]
			}
			return s
		}
		var branches []string
		known := map[string]bool{}
		results := []*c05HStepRes{}
		for i, st := range in.Steps {
			sr := &c05HStepRes{Res: "ok"}
			results = append(results, sr)
			if !known[st.Branch] {
				known[st.Branch] = true
				branches = append(branches, st.Branch)
			}
			switch st.Op {
			case "commit":
				if st.Table < 0 || st.Table >= len(in.Specs) {
					return Err("bad-table-index")
				}
				s := in.Specs[st.Table]
				fp := filepath.Join(root, fmt.Sprintf("s%d.csv", i))
				os.WriteFile(fp, s.CSV(0), 0644)
				args := []string{"commit", st.Branch, fp, fmt.Sprintf("c%d", i), "-n", "1"}
				if len(s.PK) > 0 {
					args = append(args, "-p", strings.Join(s.PK, ","))
				}
				if out, ok := run(args...); !ok {
					return Res{"res": "err", "kind": short(out)}
				}
			case "branch":
				if out, ok := run("branch", "create", st.Branch, st.From); !ok {
					return Res{"res": "err", "kind": short(out)}
				}
			case "merge":
				args := []string{"merge", st.Branch, st.From, "-n", "1", "-m", fmt.Sprintf("m%d", i)}
				if st.FF != "" {
					args = append(args, "--"+st.FF)
				}
				out, ok := run(args...)
				sr.Msg = short(out)
				if !ok {
					sr.Res = "err"
				}
				heads, kind := c05ReadHeads(dir, branches)
				if heads == nil {
					return Err(kind)
				}
				sr.Heads = heads
			default:
				return Err("bad-step")
			}
		}
		return Ok(map[string]interface{}{"steps": results})
	})
}

// c05ReadHeads opens the repository once and reads the table every branch points at (header and rows
// in stored order): what `wrgl export` would print, without one command per branch.
func c05ReadHeads(dir string, branches []string) (map[string]*c05HTable, string) {
	rd, err := local.NewRepoDir(dir, "")
	if err != nil {
		return nil, "repodir"
	}
	defer rd.Close()
	db, err := rd.OpenObjectsStore()
	if err != nil {
		return nil, "open-objects"
	}
	defer db.Close()
	rs := rd.OpenRefStore()
	out := map[string]*c05HTable{}
	for _, b := range branches {
		sum, err := ref.GetHead(rs, b)
		if err != nil {
			return nil, "head-of-" + b
		}
		com, err := objects.GetCommit(db, sum)
		if err != nil {
			return nil, "commit-of-" + b
		}
		tbl, err := objects.GetTable(db, com.Table)
		if err != nil {
			return nil, "table-of-" + b
		}
		t := &c05HTable{Columns: hxRow(tbl.Columns), Rows: [][]string{}}
		for _, bs := range tbl.Blocks {
			rows, _, err := objects.GetBlock(db, nil, bs)
			if err != nil {
				return nil, "block-of-" + b
			}
			t.Rows = append(t.Rows, hxRows(rows)...)
		}
		out[b] = t
	}
	return out, ""
}

func c05HistEmit(ctx *Ctx, in *c05HInput, tags ...string) {
	in.Tables = nil
	for _, s := range in.Specs {
		rows := hxRows(s.Rows)
		if rows == nil {
			rows = [][]string{}
		}
		in.Tables = append(in.Tables, c05HTable{Columns: hxRow(s.Columns), Rows: rows})
	}
	in.PKNames = []string{}
	if len(in.Specs) > 0 {
		in.PKNames = append(in.PKNames, hxRow(in.Specs[0].PK)...)
	}
	ffs := map[string]bool{}
	for _, st := range in.Steps {
		if st.Op == "merge" {
			ffs[st.FF] = true
		}
	}
	for _, f := range []string{"ff", "no-ff", "ff-only"} {
		if ffs[f] {
			tags = append(tags, "--"+f)
		}
	}
	parts := strings.SplitN(in.Shape, "/", 2)
	tags = append(tags, "cli", "history")
	for _, p := range parts {
		if p != "" {
			tags = append(tags, "hist="+p)
		}
	}
	ctx.Emit("merge-cli-hist", in, c05HistRun(in), true, tags...)
}

// runC05Hist: the shape is a function of the case index; the tables and flags come from the case's
// own random stream, after everything the case drew before.
func runC05Hist(ctx *Ctx) {
	c05HistEmit(ctx, genC05Hist(ctx.R, (ctx.Idx/20)%c05HistShapes))
}

// ---------------------------------------------------------------------------------------------
// C05 at every point where `wrgl merge` DELIVERS a result -- the CONFLICTS file of --no-gui (conflicts
// and the rows merged without conflict), the MERGE file of --no-commit, the merge commit -- on a healthy
// repository and on one in which an object the merge reads is missing (a block index, a block or a
// table index of the base or of a branch: what a partially fetched or damaged repository looks like).
// The property does not say a merge must succeed on such a repository; it says the outcome never
// silently differs from the merge. So: whenever the command reports success, what it delivered must be
// the three-way merge of the three tables as committed; a failure is accepted only when something was
// taken away. Tables: key in front, same columns; with --no-gui the branches edit freely (conflicts are
// listed in the file), otherwise the two sides own disjoint rows (no conflict, the merge tool never
// opens). The base is sometimes a header-only table, sometimes spans several blocks.

type c05FFault struct {
	Kind  string `json:"kind"`  // blkidx | blk | tblidx
	Table int    `json:"table"` // 0 base, 1 / 2 the branches
	Block int    `json:"block"` // which block (modulo the table's block count)
}

type c05FInput struct {
	Specs []*TableSpec `json:"specs"` // base, branch 1, branch 2
	Mode  string       `json:"mode"`  // no-gui | no-commit | commit
	Fault *c05FFault   `json:"fault,omitempty"`
	// hex copies for the Lean driver
	Columns  []string     `json:"columns"`
	PK       []int        `json:"pk"`
	Base     [][]string   `json:"base"`
	Branches [][][]string `json:"branches"`
}

type c05FOut struct {
	Failed       bool       `json:"failed"`
	Msg          string     `json:"msg,omitempty"`
	FaultApplied bool       `json:"faultApplied"`
	Columns      []string   `json:"columns"`      // hex
	Rows         [][]string `json:"rows"`         // hex: the rows delivered as merged
	ConflictKeys [][]string `json:"conflictKeys"` // hex: --no-gui, the keys listed as conflicts
}

var c05FFaults = []*c05FFault{
	nil, {Kind: "blkidx", Table: 2}, {Kind: "blkidx", Table: 1}, {Kind: "blk", Table: 0},
	nil, {Kind: "blkidx", Table: 0}, {Kind: "blk", Table: 2}, {Kind: "tblidx", Table: 1},
}

// c05GenFault: everything but the random cells is a function of the case number j.
func c05GenFault(r *rand.Rand, j int) *c05FInput {
	in := &c05FInput{Mode: []string{"no-gui", "commit", "no-commit"}[j%3]}
	if f := c05FFaults[(j/3)%len(c05FFaults)]; f != nil {
		in.Fault = &c05FFault{Kind: f.Kind, Table: f.Table, Block: j / 24}
	}
	base := histBase(r, 0)
	// a healthy `--no-commit` merge always works on several blocks: its result is read back in batches of
	// 255 rows (Merger.SortedRows with the removed-columns set), and only a result longer than one batch
	// shows what happens between two batches
	bigResult := in.Mode == "no-commit" && in.Fault == nil
	switch {
	case j%5 == 1 && !bigResult: // header-only base: the branches fill the table in
		base.Rows = nil
	case j%5 == 3 || bigResult: // several blocks
		big := 260 + r.Intn(300)
		for i := len(base.Rows); i < big; i++ {
			base.Rows = append(base.Rows, []string{fmt.Sprintf("%04d", i), []string{"p", "q", "r", ""}[r.Intn(4)], []string{"p", "q", ""}[r.Intn(3)], fmt.Sprint(i % 3)})
		}
	}
	in.Specs = []*TableSpec{base}
	for side := 0; side < 2; side++ {
		var b *TableSpec
		if in.Mode == "no-gui" {
			b = deriveBranch(r, base, 0.25, 0.15, r.Intn(3), 10+5*r.Intn(2))
			// every branch differs from the base (a commit must change something): one row of its own
			nr := []string{fmt.Sprintf("8%d%02d", side, r.Intn(100)), "u", "v", ""}
			b.Rows = append(b.Rows, nr)
		} else {
			b = c05HistEdit(r, base, side, 1)
		}
		in.Specs = append(in.Specs, b)
	}
	return in
}

func c05FRun(in *c05FInput) Res {
	if len(in.Specs) != 3 {
		return Err("bad-specs")
	}
	root, err := os.MkdirTemp(privateTmp(), "mflt-")
	if err != nil {
		return Err("tmpdir")
	}
	defer os.RemoveAll(root)
	os.Setenv("XDG_CONFIG_HOME", filepath.Join(root, "xdg"))
	os.Setenv("HOME", root)
	return Guard(func() Res {
		dir := filepath.Join(root, "repo", ".wrgl")
		os.MkdirAll(filepath.Join(root, "repo"), 0755)
		rd, err := local.NewRepoDir(dir, "")
		if err != nil {
			return Err("repodir")
		}
		if err := rd.Init(); err != nil {
			return Err("init")
		}
		rd.Close()
		short := func(s string) string {
			s = strings.TrimSpace(s)
			if len(s) > 200 {
				s = s[:200]
			}
			return s
		}
		run := func(args ...string) (string, bool) {
			out, err := cli(dir, args...)
			if err != nil {
				return strings.Join(args, " ") + ": " + out + ": " + err.Error(), false
			}
			return out, true
		}
		for _, a := range [][]string{{"config", "set", "user.email", "u@example.com"}, {"config", "set", "user.name", "U"}} {
			if out, ok := run(a...); !ok {
				return Res{"res": "err", "kind": "setup:" + short(out)}
			}
		}
		names := []string{"main", "b1", "b2"}
		for i, s := range in.Specs {
			if i > 0 {
				if out, ok := run("branch", "create", names[i], "main"); !ok {
					return Res{"res": "err", "kind": "setup:" + short(out)}
				}
			}
			fp := filepath.Join(root, fmt.Sprintf("t%d.csv", i))
			os.WriteFile(fp, s.CSV(0), 0644)
			if out, ok := run("commit", names[i], fp, "c", "-n", "1", "-p", strings.Join(s.PK, ",")); !ok {
				return Res{"res": "err", "kind": "setup:" + short(out)}
			}
		}
		out := &c05FOut{Rows: [][]string{}, ConflictKeys: [][]string{}, Columns: []string{}}
		// take one object away
		var key, saved []byte
		if in.Fault != nil {
			k, v, kind := c05FTake(dir, names[in.Fault.Table%3], in.Fault)
			if kind != "" {
				return Err("fault:" + kind)
			}
			key, saved = k, v
			out.FaultApplied = key != nil
		}
		cwd, _ := os.Getwd()
		os.Chdir(root)
		defer os.Chdir(cwd)
		args := []string{"merge", "b1", "b2", "-n", "1", "-m", "merged"}
		if in.Mode != "commit" {
			args = append(args, "--"+in.Mode)
		}
		msg, ok := run(args...)
		out.Failed = !ok
		out.Msg = short(msg)
		if key != nil {
			// put it back: what is read below must not depend on it
			if kind := c05FPut(dir, key, saved); kind != "" {
				return Err("restore:" + kind)
			}
		}
		if out.Failed {
			return Ok(out)
		}
		pkNames := in.Specs[0].PK
		switch in.Mode {
		case "no-gui":
			files, _ := filepath.Glob(filepath.Join(root, "CONFLICTS_*.csv"))
			if len(files) != 1 {
				return Err("no-conflicts-file")
			}
			f, err := os.Open(files[0])
			if err != nil {
				return Err("open-conflicts-file")
			}
			defer f.Close()
			cr := csv.NewReader(f)
			cr.FieldsPerRecord = -1
			recs, err := cr.ReadAll()
			if err != nil || len(recs) == 0 || len(recs[0]) == 0 {
				return Err("conflicts-file-not-csv")
			}
			hdr := recs[0][1:]
			out.Columns = hxRow(hdr)
			var kpos []int
			for _, k := range pkNames {
				for c, name := range hdr {
					if name == k {
						kpos = append(kpos, c)
					}
				}
			}
			seen := map[string]bool{}
			for _, rec := range recs[1:] {
				if len(rec) == 0 {
					continue
				}
				label, cells := rec[0], rec[1:]
				switch {
				case label == "":
					out.Rows = append(out.Rows, hxRow(cells))
				case strings.HasPrefix(label, "COLUMNS IN "), label == "RESOLUTION":
				default:
					// the base's or a branch's version of a row in conflict ("REMOVED IN ..." fills the
					// whole line when the branch has no such row)
					if len(cells) > 0 && strings.HasPrefix(cells[0], "REMOVED IN ") {
						continue
					}
					k := make([]string, len(kpos))
					for i, p := range kpos {
						if p < len(cells) {
							k[i] = cells[p]
						}
					}
					if id := fmt.Sprintf("%q", k); !seen[id] {
						seen[id] = true
						out.ConflictKeys = append(out.ConflictKeys, hxRow(k))
					}
				}
			}
		case "no-commit":
			files, _ := filepath.Glob(filepath.Join(root, "MERGE_*.csv"))
			if len(files) != 1 {
				return Err("no-merge-file")
			}
			b, err := os.ReadFile(files[0])
			if err != nil {
				return Err("read-merge-file")
			}
			hdr, rows, err := rereadCSV(b, 0)
			if err != nil {
				return Err("merge-file-not-csv")
			}
			out.Columns = hxRow(hdr)
			if r := hxRows(rows); r != nil {
				out.Rows = r
			}
		default:
			heads, kind := c05ReadHeads(dir, []string{"b1"})
			if heads == nil {
				return Err(kind)
			}
			out.Columns = heads["b1"].Columns
			out.Rows = heads["b1"].Rows
		}
		return Ok(out)
	})
}

// c05FTake removes one object of the table a branch points at from the repository's object store and
// returns its key and bytes; a table without blocks has no block (index) to lose: nothing is removed.
func c05FTake(dir, branch string, f *c05FFault) (key, val []byte, kind string) {
	rd, err := local.NewRepoDir(dir, "")
	if err != nil {
		return nil, nil, "repodir"
	}
	defer rd.Close()
	db, err := rd.OpenObjectsStore()
	if err != nil {
		return nil, nil, "open-objects"
	}
	defer db.Close()
	sum, err := ref.GetHead(rd.OpenRefStore(), branch)
	if err != nil {
		return nil, nil, "head"
	}
	com, err := objects.GetCommit(db, sum)
	if err != nil {
		return nil, nil, "commit"
	}
	tbl, err := objects.GetTable(db, com.Table)
	if err != nil {
		return nil, nil, "table"
	}
	switch f.Kind {
	case "blkidx":
		if len(tbl.BlockIndices) == 0 {
			return nil, nil, ""
		}
		key = append([]byte("blkidx/"), tbl.BlockIndices[f.Block%len(tbl.BlockIndices)]...)
	case "blk":
		if len(tbl.Blocks) == 0 {
			return nil, nil, ""
		}
		key = append([]byte("blk/"), tbl.Blocks[f.Block%len(tbl.Blocks)]...)
	case "tblidx":
		key = append([]byte("tblidx/"), com.Table...)
	default:
		return nil, nil, "bad-fault-kind"
	}
	v, err := db.Get(key)
	if err != nil {
		return nil, nil, "get-object"
	}
	val = append([]byte{}, v...)
	if err := db.Delete(key); err != nil {
		return nil, nil, "delete-object"
	}
	return key, val, ""
}

func c05FPut(dir string, key, val []byte) string {
	rd, err := local.NewRepoDir(dir, "")
	if err != nil {
		return "repodir"
	}
	defer rd.Close()
	db, err := rd.OpenObjectsStore()
	if err != nil {
		return "open-objects"
	}
	defer db.Close()
	if err := db.Set(key, val); err != nil {
		return "set-object"
	}
	return ""
}

func c05FEmit(ctx *Ctx, in *c05FInput, tags ...string) {
	base := in.Specs[0]
	in.Columns, in.PK, in.Base = hxRow(base.Columns), base.PKIdx(), hxRows(base.Rows)
	if in.Base == nil {
		in.Base = [][]string{}
	}
	in.Branches = nil
	for _, s := range in.Specs[1:] {
		rows := hxRows(s.Rows)
		if rows == nil {
			rows = [][]string{}
		}
		in.Branches = append(in.Branches, rows)
	}
	tags = append(tags, "cli", "deliver", "deliver="+in.Mode)
	if in.Fault != nil {
		tags = append(tags, "object-missing", fmt.Sprintf("missing=%s-of-%d", in.Fault.Kind, in.Fault.Table))
	} else {
		tags = append(tags, "healthy-store")
	}
	switch {
	case len(base.Rows) == 0:
		tags = append(tags, "empty-base")
	case len(base.Rows) > 255:
		tags = append(tags, "multi-block")
	}
	res := c05FRun(in)
	if res["res"] == "ok" {
		o := res["val"].(*c05FOut)
		if o.Failed {
			tags = append(tags, "cmd-failed")
		}
		if len(o.ConflictKeys) > 0 {
			tags = append(tags, "has-conflict")
		}
	}
	ctx.Emit("merge-cli-deliver", in, res, true, tags...)
}

// runC05Fault: mode, fault and table shape are functions of the case index.
func runC05Fault(ctx *Ctx, j int) {
	c05FEmit(ctx, c05GenFault(ctx.R, j))
}
