package main

// C05 through the command line: three branches committed with `wrgl commit`, merged with
// `wrgl merge b1 b2` (no conflicts by construction, so the merge tool is never opened and the
// command commits the result), then `wrgl export b1`. Column removal by one branch and column
// addition / moves by another exercise the command's own column bookkeeping.

import (
	"fmt"
	"math/rand"
	"os"
	"path/filepath"
	"strings"

	"github.com/wrgl/wrgl/pkg/local"
)

type c05CLIInput struct {
	Specs []*TableSpec `json:"specs"` // base, branch 1, branch 2
	// hex copies for the Lean driver
	Columns  []string     `json:"columns"`
	PKNames  []string     `json:"pkNames"`
	Base     [][]string   `json:"base"`
	BColumns [][]string   `json:"branchColumns"`
	Branches [][][]string `json:"branches"`
}

func genC05CLI(r *rand.Rand) []*TableSpec {
	n := 3 + r.Intn(20)
	base := &TableSpec{Columns: []string{"k", "a", "b", "c"}, PK: []string{"k"}}
	for i := 0; i < n; i++ {
		base.Rows = append(base.Rows, []string{fmt.Sprintf("%04d", i), []string{"p", "q", ""}[r.Intn(3)], []string{"x", "y"}[r.Intn(2)], fmt.Sprint(i % 3)})
	}
	// branch 1 removes one non-key column (and nothing else)
	b1 := cloneSpec(base)
	rm := 1 + r.Intn(3)
	b1.Columns = append(b1.Columns[:rm], b1.Columns[rm+1:]...)
	for i, row := range b1.Rows {
		b1.Rows[i] = append(append([]string{}, row[:rm]...), row[rm+1:]...)
	}
	// branch 2 adds a column at a random position (after the key), sometimes moves one, sometimes adds a row
	b2 := cloneSpec(base)
	pos := 1 + r.Intn(len(b2.Columns))
	b2.Columns = append(b2.Columns[:pos], append([]string{"n"}, b2.Columns[pos:]...)...)
	for i, row := range b2.Rows {
		v := []string{"u", "v", ""}[r.Intn(3)]
		b2.Rows[i] = append(append([]string{}, row[:pos]...), append([]string{v}, row[pos:]...)...)
	}
	if r.Intn(2) == 0 {
		i, j := 1+r.Intn(len(b2.Columns)-1), 1+r.Intn(len(b2.Columns)-1)
		b2.Columns[i], b2.Columns[j] = b2.Columns[j], b2.Columns[i]
		for _, row := range b2.Rows {
			row[i], row[j] = row[j], row[i]
		}
	}
	if r.Intn(2) == 0 {
		nr := make([]string, len(b2.Columns))
		for c := range nr {
			nr[c] = "z"
		}
		nr[0] = fmt.Sprintf("9%03d", r.Intn(100))
		b2.Rows = append(b2.Rows, nr)
	}
	return []*TableSpec{base, b1, b2}
}

func c05CLIRun(specs []*TableSpec) Res {
	root, err := os.MkdirTemp(privateTmp(), "mcli-")
	if err != nil {
		return Err("tmpdir")
	}
	defer os.RemoveAll(root)
	os.Setenv("XDG_CONFIG_HOME", filepath.Join(root, "xdg"))
	os.Setenv("HOME", root)
	return Guard(func() Res {
		dir := filepath.Join(root, "repo", ".wrgl")
		os.MkdirAll(filepath.Join(root, "repo"), 0755)
		rd, err := local.NewRepoDir(dir, "")
		if err != nil {
			return Err("repodir")
		}
		if err := rd.Init(); err != nil {
			return Err("init")
		}
		rd.Close()
		run := func(args ...string) (string, bool) {
			out, err := cli(dir, args...)
			if err != nil {
				return strings.Join(args, " ") + ": " + out + ": " + err.Error(), false
			}
			return out, true
		}
		for _, a := range [][]string{{"config", "set", "user.email", "u@example.com"}, {"config", "set", "user.name", "U"}} {
			if out, ok := run(a...); !ok {
				return Res{"res": "err", "kind": "setup:" + out}
			}
		}
		commit := func(branch string, s *TableSpec, i int) (string, bool) {
			fp := filepath.Join(root, fmt.Sprintf("t%d.csv", i))
			os.WriteFile(fp, s.CSV(0), 0644)
			return run("commit", branch, fp, "c", "-n", "1", "-p", strings.Join(s.PK, ","))
		}
		if out, ok := commit("main", specs[0], 0); !ok {
			return Res{"res": "err", "kind": out}
		}
		for i, b := range []string{"b1", "b2"} {
			if out, ok := run("branch", "create", b, "main"); !ok {
				return Res{"res": "err", "kind": out}
			}
			if out, ok := commit(b, specs[i+1], i+1); !ok {
				return Res{"res": "err", "kind": out}
			}
		}
		cwd, _ := os.Getwd()
		os.Chdir(root)
		defer os.Chdir(cwd)
		if out, ok := run("merge", "b1", "b2", "-n", "1", "-m", "merged"); !ok {
			return Res{"res": "err", "kind": out}
		}
		out, ok := run("export", "b1")
		if !ok {
			return Res{"res": "err", "kind": out}
		}
		hdr, rows, err := rereadCSV([]byte(out), 0)
		if err != nil {
			return Err("export-not-csv")
		}
		er := hxRows(rows)
		if er == nil {
			er = [][]string{}
		}
		return Ok(map[string]interface{}{"columns": hxRow(hdr), "rows": er})
	})
}

func runC05CLI(ctx *Ctx) {
	specs := genC05CLI(ctx.R)
	c05CLIEmit(ctx, specs)
}

func c05CLIEmit(ctx *Ctx, specs []*TableSpec, tags ...string) {
	in := &c05CLIInput{Specs: specs, Columns: hxRow(specs[0].Columns), PKNames: hxRow(specs[0].PK), Base: hxRows(specs[0].Rows)}
	for _, s := range specs[1:] {
		in.BColumns = append(in.BColumns, hxRow(s.Columns))
		in.Branches = append(in.Branches, hxRows(s.Rows))
	}
	ctx.Emit("merge-cli", in, c05CLIRun(specs), true, append(tags, "cli", "col-change")...)
}
