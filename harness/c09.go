package main

import (
	"bytes"
	"encoding/json"
	"fmt"
	"io"
	"math/rand"
	"net/http"
	"os"
	"path/filepath"
	"sort"
	"strings"
	"sync"
	"time"

	"github.com/spf13/viper"
	wrgl "github.com/wrgl/wrgl/cmd/wrgl"
	"github.com/wrgl/wrgl/pkg/local"
	"github.com/wrgl/wrgl/pkg/objects"
	"github.com/wrgl/wrgl/pkg/ref"
)

func init() {
	runners["C09"] = runSync
	corpusRunners["C09"] = corpusSync
	runners["C10"] = runSync
	corpusRunners["C10"] = corpusSync
}

// cli runs one wrgl command in-process against the repository in dir.
func cli(dir string, args ...string) (string, error) {
	viper.Set("wrgl_dir", dir)
	cmd := wrgl.RootCmd()
	buf := bytes.NewBuffer(nil)
	cmd.SetOut(buf)
	cmd.SetErr(buf)
	cmd.SetArgs(args)
	err := cmd.Execute()
	return buf.String(), err
}

type syncRepoState struct {
	Refs    map[string]int    `json:"refs"`    // ref name -> commit id
	Logs    map[string][]int  `json:"logs"`    // ref name -> [old, new] of the latest reflog entry (0 = none)
	Commits []int             `json:"commits"` // commit objects present
	Tables  []int             `json:"tables"`  // ids of COMMITS whose table (with all blocks, index) is present and readable
}

type syncNamer struct {
	ids map[string]int
}

func (n *syncNamer) id(sum []byte) int {
	if sum == nil {
		return 0
	}
	if v, ok := n.ids[string(sum)]; ok {
		return v
	}
	n.ids[string(sum)] = len(n.ids) + 1
	return n.ids[string(sum)]
}

func tableUsable(db objects.Store, sum []byte) bool {
	t, err := objects.GetTable(db, sum)
	if err != nil {
		return false
	}
	for _, b := range t.Blocks {
		if !objects.BlockExist(db, b) {
			return false
		}
	}
	for _, b := range t.BlockIndices {
		if !objects.BlockIndexExist(db, b) {
			return false
		}
	}
	return objects.TableIndexExist(db, sum)
}

func observeRepo(n *syncNamer, db objects.Store, rs ref.Store) *syncRepoState {
	st := &syncRepoState{Refs: map[string]int{}, Logs: map[string][]int{}, Commits: []int{}, Tables: []int{}}
	m, _ := ref.ListAllRefs(rs)
	for name, sum := range m {
		st.Refs[name] = n.id(sum)
		if lr, err := rs.LogReader(name); err == nil {
			if l, err := lr.Read(); err == nil {
				st.Logs[name] = []int{n.id(l.OldOID), n.id(l.NewOID)}
			}
			lr.Close()
		}
	}
	keys, _ := objects.GetAllCommitKeys(db)
	for _, k := range keys {
		id := n.id(k)
		st.Commits = append(st.Commits, id)
		if c, err := objects.GetCommit(db, k); err == nil && tableUsable(db, c.Table) {
			st.Tables = append(st.Tables, id)
		}
	}
	sort.Ints(st.Commits)
	sort.Ints(st.Tables)
	return st
}

func observeDir(n *syncNamer, dir string) (*syncRepoState, error) {
	rd, err := local.NewRepoDir(dir, "")
	if err != nil {
		return nil, err
	}
	defer rd.Close()
	db, err := rd.OpenObjectsStore()
	if err != nil {
		return nil, err
	}
	defer db.Close()
	rs := rd.OpenRefStore()
	return observeRepo(n, db, rs), nil
}

type syncInput struct {
	Seed    int64      `json:"genSeed"`
	Graph   []GCommit  `json:"graph"`   // every commit of either side: id, time, parents (table unused)
	Action  string     `json:"action"`  // fetch | push | pull | merge
	Force   bool       `json:"force"`
	Depth   int        `json:"depth"`
	FFMode  string     `json:"ffMode"`  // "", ff, no-ff, ff-only
	Relation string    `json:"relation"`
	RefspecForce bool  `json:"refspecForce"` // fetch: the refspec for remote-tracking refs carries '+'
	FetchTags bool     `json:"fetchTags"`    // fetch: refs/tags/*:refs/tags/* is among the refspecs
	ForcedDsts []string `json:"forcedDsts"`  // fetch with explicit per-branch refspecs: destinations whose refspec carries '+'
	ShallowClone bool   `json:"shallowClone"`
	MainOnly bool       `json:"mainOnly"`
	ClockSkew bool      `json:"clockSkew"` // the remote's commits carry decreasing timestamps
	RefsLost bool       `json:"refsLost"` // the remote-tracking ref of main was deleted locally (an earlier fetch died after its last object write, before its ref write)
	StreamResets int    `json:"streamResets"` // fetch / pull: the first k packfile responses are cut half way with an HTTP/2 stream error
	ExpTag bool         `json:"expTag"` // the remote has a tag on the second branch, outside the fetched refspecs
	DevRelation string  `json:"devRelation"` // "", equal, ahead, unrelated, rewound: second branch `dev` on the remote
	MaxPack uint64     `json:"maxPackfileSize"`
	DenyNonFF bool     `json:"denyNonFastForwards"`
	LocalBefore  *syncRepoState `json:"localBefore"`
	RemoteBefore *syncRepoState `json:"remoteBefore"`
}

type syncResult struct {
	LocalAfter   *syncRepoState `json:"localAfter"`
	RemoteAfter  *syncRepoState `json:"remoteAfter"`
	Failed       bool           `json:"failed"`
	Output       string         `json:"output"`
	// second, immediately repeated run of the same action
	Local2  *syncRepoState `json:"local2"`
	Remote2 *syncRepoState `json:"remote2"`
	RepeatTransferred int `json:"repeatPackfiles"`
	RoundTrips int `json:"roundTrips"`
	Packfiles  int `json:"packfiles"`
}

func writeCSV(dir, name string, t *TableSpec) string {
	p := filepath.Join(dir, name)
	os.WriteFile(p, t.CSV(0), 0644)
	return p
}

func smallTable(r *rand.Rand, tag string) *TableSpec {
	n := []int{2, 5, 40, 260}[r.Intn(4)]
	t := GenTable(r, 2, n, []int{0}, 0)
	for _, row := range t.Rows {
		row[1] = tag
	}
	return t
}

func graphOf(n *syncNamer, dbs ...objects.Store) []GCommit {
	seen := map[int]bool{}
	g := []GCommit{}
	for _, db := range dbs {
		keys, _ := objects.GetAllCommitKeys(db)
		for _, k := range keys {
			id := n.id(k)
			if seen[id] {
				continue
			}
			seen[id] = true
			c, err := objects.GetCommit(db, k)
			if err != nil {
				continue
			}
			gc := GCommit{ID: id, Time: c.Time.Unix()}
			for _, p := range c.Parents {
				gc.Parents = append(gc.Parents, n.id(p))
			}
			g = append(g, gc)
		}
	}
	sort.Slice(g, func(i, j int) bool { return g[i].ID < g[j].ID })
	return g
}

func runSyncCase(seed int64, thorough bool) (*syncInput, Res) {
	r := rand.New(rand.NewSource(seed))
	in := &syncInput{Seed: seed}
	root, err := os.MkdirTemp(privateTmp(), "sync-")
	if err != nil {
		return in, Err("tmpdir")
	}
	defer os.RemoveAll(root)
	os.Setenv("XDG_CONFIG_HOME", filepath.Join(root, "xdg"))
	os.Setenv("HOME", root)
	n := &syncNamer{ids: map[string]int{}}
	res := Guard(func() Res {
		// --- the remote -----------------------------------------------------------------------
		sdb := NewMemStore()
		srs, closeS := NewRefStore()
		defer closeS()
		in.MaxPack = []uint64{0, 1, 700, 5000}[r.Intn(4)]
		in.DenyNonFF = r.Intn(2) == 0
		srv := NewRefServer(sdb, srs, in.MaxPack, in.DenyNonFF)
		defer srv.Close()
		// 1 in 3: the remote's clock runs backwards (every new commit is an hour OLDER than the one before)
		in.ClockSkew = r.Intn(3) == 0
		tick := 0
		commitClock = func() time.Time {
			tick++
			if in.ClockSkew {
				return fixedTime.Add(-time.Duration(tick) * time.Hour)
			}
			return fixedTime
		}
		defer func() { commitClock = func() time.Time { return fixedTime } }()
		common := 1 + r.Intn(3)
		baseTables := []*TableSpec{}
		for i := 0; i < common; i++ {
			t := smallTable(r, fmt.Sprintf("base%d", i))
			baseTables = append(baseTables, t)
			if err := opCommit(t.CSV(0), t.PK, 1, "main")(sdb, srs); err != nil {
				return Err("server-commit")
			}
		}
		hasTag := r.Intn(2) == 0
		tagOnRoot := false
		if hasTag {
			h, _ := ref.GetHead(srs, "main")
			if common >= 2 && (r.Intn(3) == 0 || (in.ClockSkew && r.Intn(2) == 0)) {
				// the tag sits on the first commit of the history (which a shallow clone holds without its table)
				for {
					hc, err := objects.GetCommit(sdb, h)
					if err != nil || len(hc.Parents) == 0 {
						break
					}
					h = hc.Parents[0]
				}
				tagOnRoot = true
			}
			ref.SaveTag(srs, "v1", h)
		}
		hasDev := r.Intn(2) == 0
		// the second branch sorts before or after `main` (refs are processed in sorted order)
		dev := []string{"dev", "zeta"}[r.Intn(2)]
		if hasDev {
			h, _ := ref.GetHead(srs, "main")
			hc, err := objects.GetCommit(sdb, h)
			if err != nil {
				return Err("server-dev")
			}
			if err := ref.CommitHead(srs, dev, h, hc, nil); err != nil {
				return Err("server-dev-ref")
			}
		}
		// --- the local repository ----------------------------------------------------------------
		dir := filepath.Join(root, "repo", ".wrgl")
		os.MkdirAll(filepath.Join(root, "repo"), 0755)
		rd, err := local.NewRepoDir(dir, "")
		if err != nil {
			return Err("repodir")
		}
		if err := rd.Init(); err != nil {
			return Err("init")
		}
		rd.Close()
		for _, a := range [][]string{{"config", "set", "user.email", "u@example.com"}, {"config", "set", "user.name", "U"},
			{"remote", "add", "origin", srv.URL()}} {
			if out, err := cli(dir, a...); err != nil {
				return Res{"res": "err", "kind": "setup:" + strings.Join(a, " ") + ":" + out + err.Error()}
			}
		}
		pullArgs := []string{"pull", "main", "origin", "refs/heads/main:refs/remotes/origin/main", "--set-upstream"}
		if common >= 2 && r.Intn(3) == 0 {
			// a shallow clone: older commits arrive without their tables
			in.ShallowClone = true
			pullArgs = append(pullArgs, "--depth", "1")
		}
		if out, err := cli(dir, pullArgs...); err != nil {
			return Res{"res": "err", "kind": "setup-pull:" + out + ":" + err.Error()}
		}
		tagFetched := false
		if hasTag && r.Intn(4) != 0 {
			if out, err := cli(dir, "fetch", "origin", "refs/tags/*:refs/tags/*"); err != nil {
				return Res{"res": "err", "kind": "setup-fetch-tags:" + out + ":" + err.Error()}
			}
			tagFetched = true
		}
		if hasDev {
			if out, err := cli(dir, "fetch", "origin", "refs/heads/"+dev+":refs/remotes/origin/"+dev); err != nil {
				return Res{"res": "err", "kind": "setup-fetch-dev:" + out + ":" + err.Error()}
			}
			in.DevRelation = []string{"equal", "ahead", "unrelated", "rewound"}[r.Intn(4)]
			switch in.DevRelation {
			case "ahead":
				for i := 0; i < 1+r.Intn(2); i++ {
					t := smallTable(r, fmt.Sprintf("dev%d", i))
					if err := opCommit(t.CSV(0), t.PK, 1, dev)(sdb, srs); err != nil {
						return Err("server-commit-dev")
					}
				}
			case "unrelated":
				srs.Delete("heads/" + dev)
				t := smallTable(r, "devx")
				if err := opCommit(t.CSV(0), t.PK, 1, dev)(sdb, srs); err != nil {
					return Err("server-commit-dev")
				}
			case "rewound":
				h, _ := ref.GetHead(srs, dev)
				hc, _ := objects.GetCommit(sdb, h)
				if hc != nil && len(hc.Parents) > 0 {
					pc, err := objects.GetCommit(sdb, hc.Parents[0])
					if err == nil {
						ref.CommitHead(srs, dev, hc.Parents[0], pc, nil)
					}
				} else {
					in.DevRelation = "equal"
				}
			}
		}
		if hasDev && (in.DevRelation == "ahead" || in.DevRelation == "unrelated") && r.Intn(2) == 0 {
			h, _ := ref.GetHead(srs, dev)
			ref.SaveTag(srs, "exp", h)
			in.ExpTag = true
		}
		// --- diverge -------------------------------------------------------------------------------
		in.Action = []string{"fetch", "fetch", "push", "push", "pull", "merge"}[r.Intn(6)]
		if in.ExpTag && r.Intn(3) != 0 {
			in.Action = "fetch" // a tag outside the fetched refspecs matters to fetches of `main` only
		}
		in.Relation = []string{"remote-ahead", "local-ahead", "diverged", "equal", "unrelated"}[r.Intn(5)]
		revertFirst := false
		refsLost := false
		if in.Action == "fetch" && !in.ShallowClone && r.Intn(4) == 0 {
			// nothing (or nothing new) to transfer: the remote did not move, moved backwards, or only the
			// local side moved; in half of these the remote-tracking ref has been lost (see below)
			in.Relation = []string{"equal", "rewound", "local-ahead"}[r.Intn(3)]
			refsLost = r.Intn(2) == 0
		} else if in.ShallowClone && tagOnRoot && tagFetched && r.Intn(3) != 0 {
			// the remote branch is reset to the tagged root (shallow locally) and continues from there with a
			// commit that re-uses the root's table; the only have the remote can recognise is that shallow commit
			in.Action = "fetch"
			in.Relation = "rewound-to-root"
		} else if in.ShallowClone && r.Intn(2) == 0 {
			// a shallow clone fetching new history whose tip re-uses the table of a commit that is
			// shallow locally (a revert): the sender must not take that table for present
			in.Action = []string{"fetch", "pull"}[r.Intn(2)]
			in.Relation = "remote-ahead"
			revertFirst = true
		} else if in.Action == "fetch" && r.Intn(2) == 0 {
			// what matters to a fetch is how the remote branch moved relative to the remote-tracking ref
			in.Relation = []string{"remote-ahead", "unrelated", "rewound"}[r.Intn(3)]
		}
		nRemote, nLocal := 0, 0
		switch in.Relation {
		case "remote-ahead":
			nRemote = 1 + r.Intn(3)
		case "local-ahead":
			nLocal = 1 + r.Intn(2)
		case "diverged":
			nRemote, nLocal = 1+r.Intn(2), 1+r.Intn(2)
		case "unrelated":
			// the remote branch is replaced by an unrelated history
			srs.Delete("heads/main")
			nRemote = 1 + r.Intn(2)
		case "rewound-to-root":
			if tsum, err := ref.GetRef(srs, "tags/v1"); err == nil {
				if tc, err := objects.GetCommit(sdb, tsum); err == nil {
					ref.CommitHead(srs, "main", tsum, tc, nil)
					if err := opCommit(baseTables[0].CSV(0), baseTables[0].PK, 1, "main")(sdb, srs); err != nil {
						return Err("server-commit-root")
					}
				}
			}
		case "rewound":
			// the remote branch is reset to its parent (a non-fast-forward whose new value is an ancestor)
			h, _ := ref.GetHead(srs, "main")
			hc, _ := objects.GetCommit(sdb, h)
			if hc != nil && len(hc.Parents) > 0 {
				if pc, err := objects.GetCommit(sdb, hc.Parents[0]); err == nil {
					ref.CommitHead(srs, "main", hc.Parents[0], pc, nil)
				}
			} else {
				in.Relation = "equal"
			}
		}
		for i := 0; i < nRemote; i++ {
			t := smallTable(r, fmt.Sprintf("remote%d", i))
			if r.Intn(3) == 0 {
				// a revert: the new commit re-uses the table of an earlier commit
				t = baseTables[r.Intn(len(baseTables))]
			}
			if revertFirst && i == nRemote-1 {
				t = baseTables[r.Intn(len(baseTables)-1)] // the table of a commit that is shallow locally
			}
			if err := opCommit(t.CSV(0), t.PK, 1, "main")(sdb, srs); err != nil {
				return Err("server-commit2")
			}
		}
		if (hasTag && r.Intn(2) == 0) || (!hasTag && r.Intn(4) == 0) {
			// the remote moved (or created) its tag
			h, _ := ref.GetHead(srs, "main")
			ref.SaveTag(srs, "v1", h)
		}
		for i := 0; i < nLocal; i++ {
			t := smallTable(r, fmt.Sprintf("local%d", i))
			fp := writeCSV(root, fmt.Sprintf("l%d.csv", i), t)
			if out, err := cli(dir, "commit", "main", fp, "local change", "-p", t.PK[0], "-n", "1"); err != nil {
				return Res{"res": "err", "kind": "setup-commit:" + out + ":" + err.Error()}
			}
		}
		// --- the action under test ------------------------------------------------------------------
		in.Force = r.Intn(3) == 0
		if in.Action == "fetch" || in.Action == "pull" {
			in.Depth = []int{0, 0, 1, 2}[r.Intn(4)]
		}
		if in.Action == "pull" || in.Action == "merge" {
			in.FFMode = []string{"", "ff", "no-ff", "ff-only"}[r.Intn(4)]
		}
		var args []string
		switch in.Action {
		case "fetch":
			in.RefspecForce = r.Intn(2) == 0
			in.FetchTags = r.Intn(2) == 0
			spec := "refs/heads/*:refs/remotes/origin/*"
			if in.RefspecForce {
				spec = "+" + spec
			}
			args = []string{"fetch", "origin", spec}
			if hasDev && r.Intn(2) == 0 {
				// explicit per-branch refspecs with independent force flags, in either order
				in.RefspecForce = false
				specs := []string{}
				for _, b := range []string{"main", dev} {
					s := "refs/heads/" + b + ":refs/remotes/origin/" + b
					if r.Intn(2) == 0 {
						s = "+" + s
						in.ForcedDsts = append(in.ForcedDsts, "remotes/origin/"+b)
					}
					specs = append(specs, s)
				}
				if r.Intn(2) == 0 {
					specs[0], specs[1] = specs[1], specs[0]
				}
				args = append([]string{"fetch", "origin"}, specs...)
			}
			if hasDev && (r.Intn(4) == 0 || (in.ExpTag && r.Intn(3) != 0)) {
				// only `main` is fetched: the second branch (and a tag on it) stays outside the refspecs
				in.RefspecForce = r.Intn(2) == 0
				in.ForcedDsts = nil
				s := "refs/heads/main:refs/remotes/origin/main"
				if in.RefspecForce {
					s = "+" + s
				}
				in.MainOnly = true
				args = []string{"fetch", "origin", s}
			}
			if in.FetchTags && !in.MainOnly {
				args = append(args, "refs/tags/*:refs/tags/*")
			}
			if in.Depth > 0 {
				args = append(args, "--depth", itoa(in.Depth))
			}
		case "push":
			args = []string{"push", "origin", "refs/heads/main:refs/heads/main", "--no-progress"}
		case "pull":
			args = []string{"pull", "main", "--no-gui"}
			if in.Depth > 0 {
				args = append(args, "--depth", itoa(in.Depth))
			}
		case "merge":
			// merge what the last fetch brought (fetch first so that there is something to merge)
			cli(dir, "fetch", "origin", "--force")
			args = []string{"merge", "main", "origin/main", "--no-gui"}
		}
		if in.Force && in.Action != "merge" {
			args = append(args, "--force")
		}
		if in.FFMode != "" {
			args = append(args, "--"+in.FFMode)
		}
		if refsLost {
			// every object is (or may be) already here but the remote-tracking ref is not: the state a fetch
			// killed between its last object write and its ref write leaves behind; the fetch must write the ref
			if rd, err := local.NewRepoDir(dir, ""); err == nil {
				lrs := rd.OpenRefStore()
				if err := lrs.Delete("remotes/origin/main"); err == nil {
					in.RefsLost = true
				}
				rd.Close()
			}
		}
		var errObs error
		in.LocalBefore, errObs = observeDir(n, dir)
		if errObs != nil {
			return Err("observe-local")
		}
		in.RemoteBefore = observeRepo(n, sdb, srs)
		srv.UploadRoundTrips, srv.Packfiles = 0, 0
		cwd, _ := os.Getwd()
		os.Chdir(root) // merge writes CONFLICTS_*.csv into the working directory
		if (in.Action == "fetch" || in.Action == "pull") && r.Intn(6) == 0 {
			in.StreamResets = 1 + r.Intn(6)
		}
		setStreamResets(in.StreamResets)
		out, err := cli(dir, args...)
		setStreamResets(0)
		result := &syncResult{Failed: err != nil, Output: out, RoundTrips: srv.UploadRoundTrips, Packfiles: srv.Packfiles}
		if err != nil {
			result.Output += " ERR: " + err.Error()
		}
		if len(result.Output) > 600 {
			result.Output = result.Output[:600]
		}
		result.LocalAfter, errObs = observeDir(n, dir)
		if errObs != nil {
			os.Chdir(cwd)
			return Err("observe-local2")
		}
		result.RemoteAfter = observeRepo(n, sdb, srs)
		// immediately repeated
		srv.UploadRoundTrips, srv.Packfiles = 0, 0
		if in.Action == "fetch" || in.Action == "push" {
			cli(dir, args...)
			result.RepeatTransferred = srv.Packfiles
			result.Local2, _ = observeDir(n, dir)
			result.Remote2 = observeRepo(n, sdb, srs)
		}
		os.Chdir(cwd)
		// the graph of both sides
		rd2, _ := local.NewRepoDir(dir, "")
		ldb, err := rd2.OpenObjectsStore()
		if err == nil {
			in.Graph = graphOf(n, sdb, ldb)
			ldb.Close()
		}
		rd2.Close()
		return Ok(result)
	})
	return in, res
}

func runSync(ctx *Ctx) {
	seed := ctx.Seed*1000003 + int64(ctx.Idx)
	in, res := runSyncCase(seed, ctx.Thorough())
	nt := in.Relation == "diverged" || in.Relation == "unrelated" || in.Relation == "remote-ahead"
	ctx.Emit("sync", in, res, nt, "action="+in.Action, "relation="+in.Relation)
}

func corpusSync(ctx *Ctx, op string, raw json.RawMessage) {
	var in syncInput
	if err := json.Unmarshal(raw, &in); err != nil {
		panic(err)
	}
	in2, res := runSyncCase(in.Seed, true)
	ctx.Emit("sync", in2, res, true, "corpus", "action="+in2.Action, "relation="+in2.Relation)
}


// ---- transport fault: packfile responses cut half way with the error the HTTP/2 client reports for a
// stream reset by the peer (the CLI builds its client on http.DefaultTransport) ---------------------

type cutBody struct {
	r    io.ReadCloser
	left int
	err  error
}

func (b *cutBody) Read(p []byte) (int, error) {
	if b.left <= 0 {
		return 0, b.err
	}
	if len(p) > b.left {
		p = p[:b.left]
	}
	n, err := b.r.Read(p)
	b.left -= n
	if err != nil {
		return n, b.err
	}
	return n, nil
}
func (b *cutBody) Close() error { return b.r.Close() }

type resetTransport struct {
	base http.RoundTripper
	mu   sync.Mutex
	left int
	cut  int
}

func (t *resetTransport) RoundTrip(req *http.Request) (*http.Response, error) {
	resp, err := t.base.RoundTrip(req)
	if err != nil {
		return resp, err
	}
	t.mu.Lock()
	defer t.mu.Unlock()
	if t.left > 0 && resp.Header.Get("Content-Type") == "application/x-wrgl-packfile" {
		t.left--
		t.cut++
		b, err := io.ReadAll(resp.Body)
		resp.Body.Close()
		if err != nil {
			return nil, err
		}
		resp.Body = &cutBody{r: io.NopCloser(bytes.NewReader(b)), left: len(b) / 2,
			err: fmt.Errorf("stream error: stream ID %d; INTERNAL_ERROR; received from peer", 2*t.cut+1)}
	}
	return resp, nil
}

var theResetTransport *resetTransport

func setStreamResets(k int) {
	if theResetTransport == nil {
		theResetTransport = &resetTransport{base: http.DefaultTransport}
		http.DefaultTransport = theResetTransport
	}
	theResetTransport.mu.Lock()
	theResetTransport.left = k
	theResetTransport.mu.Unlock()
}
