package main

import (
	"bytes"
	"encoding/json"
	"fmt"
	"io"
	"math/rand"
	"net/http"
	"os"
	"path/filepath"
	"sort"
	"strings"
	"sync"
	"time"

	"github.com/spf13/viper"
	wrgl "github.com/wrgl/wrgl/cmd/wrgl"
	"github.com/wrgl/wrgl/pkg/local"
	"github.com/wrgl/wrgl/pkg/objects"
	"github.com/wrgl/wrgl/pkg/ref"
)

func init() {
	runners["C09"] = runSync
	corpusRunners["C09"] = corpusSync
	runners["C10"] = runSync
	corpusRunners["C10"] = corpusSync
}

// cli runs one wrgl command in-process against the repository in dir.
func cli(dir string, args ...string) (string, error) {
	viper.Set("wrgl_dir", dir)
	cmd := wrgl.RootCmd()
	buf := bytes.NewBuffer(nil)
	cmd.SetOut(buf)
	cmd.SetErr(buf)
	cmd.SetArgs(args)
	err := cmd.Execute()
	return buf.String(), err
}

type syncRepoState struct {
	Refs    map[string]int    `json:"refs"`    // ref name -> commit id
	Logs    map[string][]int  `json:"logs"`    // ref name -> [old, new] of the latest reflog entry (0 = none)
	Commits []int             `json:"commits"` // commit objects present
	Tables  []int             `json:"tables"`  // ids of COMMITS whose table (with all blocks, index) is present and readable
}

type syncNamer struct {
	ids map[string]int
}

func (n *syncNamer) id(sum []byte) int {
	if sum == nil {
		return 0
	}
	if v, ok := n.ids[string(sum)]; ok {
		return v
	}
	n.ids[string(sum)] = len(n.ids) + 1
	return n.ids[string(sum)]
}

func tableUsable(db objects.Store, sum []byte) (ok bool) {
	defer func() {
		if e := recover(); e != nil {
			ok = false // a damaged table object
		}
	}()
	t, err := objects.GetTable(db, sum)
	if err != nil {
		return false
	}
	for _, b := range t.Blocks {
		if !objects.BlockExist(db, b) {
			return false
		}
	}
	for _, b := range t.BlockIndices {
		if !objects.BlockIndexExist(db, b) {
			return false
		}
	}
	return objects.TableIndexExist(db, sum)
}

func observeRepo(n *syncNamer, db objects.Store, rs ref.Store) *syncRepoState {
	st := &syncRepoState{Refs: map[string]int{}, Logs: map[string][]int{}, Commits: []int{}, Tables: []int{}}
	m, _ := ref.ListAllRefs(rs)
	for name, sum := range m {
		st.Refs[name] = n.id(sum)
		if lr, err := rs.LogReader(name); err == nil {
			if l, err := lr.Read(); err == nil {
				st.Logs[name] = []int{n.id(l.OldOID), n.id(l.NewOID)}
			}
			lr.Close()
		}
	}
	keys, _ := objects.GetAllCommitKeys(db)
	for _, k := range keys {
		id := n.id(k)
		st.Commits = append(st.Commits, id)
		if c, err := objects.GetCommit(db, k); err == nil && tableUsable(db, c.Table) {
			st.Tables = append(st.Tables, id)
		}
	}
	sort.Ints(st.Commits)
	sort.Ints(st.Tables)
	return st
}

func observeDir(n *syncNamer, dir string) (*syncRepoState, error) {
	rd, err := local.NewRepoDir(dir, "")
	if err != nil {
		return nil, err
	}
	defer rd.Close()
	db, err := rd.OpenObjectsStore()
	if err != nil {
		return nil, err
	}
	defer db.Close()
	rs := rd.OpenRefStore()
	return observeRepo(n, db, rs), nil
}

type syncInput struct {
	Seed    int64      `json:"genSeed"`
	Graph   []GCommit  `json:"graph"`   // every commit of either side: id, time, parents (table unused)
	Action  string     `json:"action"`  // fetch | push | pull | merge
	Force   bool       `json:"force"`
	Depth   int        `json:"depth"`
	FFMode  string     `json:"ffMode"`  // "", ff, no-ff, ff-only
	Relation string    `json:"relation"`
	RefspecForce bool  `json:"refspecForce"` // fetch: the refspec for remote-tracking refs carries '+'
	FetchTags bool     `json:"fetchTags"`    // fetch: refs/tags/*:refs/tags/* is among the refspecs
	ForcedDsts []string `json:"forcedDsts"`  // fetch with explicit per-branch refspecs: destinations whose refspec carries '+'
	ShallowClone bool   `json:"shallowClone"`
	MainOnly bool       `json:"mainOnly"`
	ClockSkew bool      `json:"clockSkew"` // the remote's commits carry decreasing timestamps
	RefsLost bool       `json:"refsLost"` // the remote-tracking ref of main was deleted locally (an earlier fetch died after its last object write, before its ref write)
	StreamResets int    `json:"streamResets"` // fetch / pull: the first k packfile responses are cut half way with an HTTP/2 stream error
	Dribble      int    `json:"dribble"`      // the first k reads of EVERY response body deliver 1..3 bytes only (a transport is free to do so)
	ExpTag bool         `json:"expTag"` // the remote has a tag on the second branch, outside the fetched refspecs
	DevRelation string  `json:"devRelation"` // "", equal, ahead, unrelated, rewound: second branch `dev` on the remote
	MaxPack uint64     `json:"maxPackfileSize"`
	DenyNonFF bool     `json:"denyNonFastForwards"`
	// --- case kinds selected by the case index (see syncVariants); absent in the cases of the first generator
	Variant string         `json:"variant,omitempty"`
	Slot int               `json:"slot,omitempty"`     // the how-many-th case of its kind this is: kinds enumerate their small finite dimensions by it
	SpecMap []syncSpecMap  `json:"specMap,omitempty"`  // fetch: every (remote ref, destination, '+') pair the refspecs of the command expand to
	ConfigFF string        `json:"configFF,omitempty"` // merge.fastForward of the repository configuration ("" = not set)
	MergeTarget int        `json:"mergeTarget,omitempty"` // merge: the commit named on the command line (0 = the tip of origin/main)
	TargetName string      `json:"targetName,omitempty"`
	Fault string           `json:"fault,omitempty"`    // the injected fault, in words
	RemoteRemoved bool     `json:"remoteRemoved,omitempty"` // `wrgl remote remove origin` ran before the push to the second remote
	SecondRemote bool      `json:"secondRemote,omitempty"`  // the push goes to a second remote (observed as "remote")
	Shape string           `json:"shape,omitempty"`         // known-blocks: how the table of the derived commit relates to a table the receiver may hold
	AllBlocksKnown bool    `json:"allBlocksKnown,omitempty"` // known-blocks: every block of the derived table is a block of an earlier table of the history
	LocalBefore  *syncRepoState `json:"localBefore"`
	RemoteBefore *syncRepoState `json:"remoteBefore"`
}

// syncSpecMap is one concrete ref mapping of a fetch: the remote ref (without refs/), the local
// destination (without refs/) and whether the refspec that yields it carries '+'.
type syncSpecMap struct {
	Src   string `json:"src"`
	Dst   string `json:"dst"`
	Force bool   `json:"force"`
}

type syncResult struct {
	Crashed    bool `json:"crashed,omitempty"`    // the command under test panicked (a crashed process: the command failed)
	FaultFired bool `json:"faultFired,omitempty"` // the injected fault was reached
	LocalAfter   *syncRepoState `json:"localAfter"`
	RemoteAfter  *syncRepoState `json:"remoteAfter"`
	Failed       bool           `json:"failed"`
	Output       string         `json:"output"`
	// second, immediately repeated run of the same action
	Local2  *syncRepoState `json:"local2"`
	Remote2 *syncRepoState `json:"remote2"`
	RepeatTransferred int `json:"repeatPackfiles"`
	RoundTrips int `json:"roundTrips"`
	Packfiles  int `json:"packfiles"`
	// what the command asked the remote for during the first run: listings of the remote's refs, and
	// every ref update a push requested (ref, old and new commit id; 0 = absent)
	RefListings  int           `json:"refListings"`
	PushRequests []syncPushReq `json:"pushRequests"`
}

type syncPushReq struct {
	Ref string `json:"ref"`
	Old int    `json:"old"`
	New int    `json:"new"`
}

func writeCSV(dir, name string, t *TableSpec) string {
	p := filepath.Join(dir, name)
	os.WriteFile(p, t.CSV(0), 0644)
	return p
}

func smallTable(r *rand.Rand, tag string) *TableSpec {
	n := []int{2, 5, 40, 260}[r.Intn(4)]
	t := GenTable(r, 2, n, []int{0}, 0)
	for _, row := range t.Rows {
		row[1] = tag
	}
	return t
}

func graphOf(n *syncNamer, dbs ...objects.Store) []GCommit {
	seen := map[int]bool{}
	g := []GCommit{}
	for _, db := range dbs {
		keys, _ := objects.GetAllCommitKeys(db)
		for _, k := range keys {
			id := n.id(k)
			if seen[id] {
				continue
			}
			seen[id] = true
			c, err := objects.GetCommit(db, k)
			if err != nil {
				continue
			}
			gc := GCommit{ID: id, Time: c.Time.Unix()}
			for _, p := range c.Parents {
				gc.Parents = append(gc.Parents, n.id(p))
			}
			g = append(g, gc)
		}
	}
	sort.Slice(g, func(i, j int) bool { return g[i].ID < g[j].ID })
	return g
}

func runSyncCase(seed int64, thorough bool) (*syncInput, Res) {
	r := rand.New(rand.NewSource(seed))
	in := &syncInput{Seed: seed}
	root, err := os.MkdirTemp(privateTmp(), "sync-")
	if err != nil {
		return in, Err("tmpdir")
	}
	defer os.RemoveAll(root)
	os.Setenv("XDG_CONFIG_HOME", filepath.Join(root, "xdg"))
	os.Setenv("HOME", root)
	n := &syncNamer{ids: map[string]int{}}
	res := Guard(func() Res {
		// --- the remote -----------------------------------------------------------------------
		sdb := NewMemStore()
		srs, closeS := NewRefStore()
		defer closeS()
		in.MaxPack = []uint64{0, 1, 700, 5000}[r.Intn(4)]
		in.DenyNonFF = r.Intn(2) == 0
		srv := NewRefServer(sdb, srs, in.MaxPack, in.DenyNonFF)
		defer srv.Close()
		// 1 in 3: the remote's clock runs backwards (every new commit is an hour OLDER than the one before)
		in.ClockSkew = r.Intn(3) == 0
		tick := 0
		commitClock = func() time.Time {
			tick++
			if in.ClockSkew {
				return fixedTime.Add(-time.Duration(tick) * time.Hour)
			}
			return fixedTime
		}
		defer func() { commitClock = func() time.Time { return fixedTime } }()
		common := 1 + r.Intn(3)
		baseTables := []*TableSpec{}
		for i := 0; i < common; i++ {
			t := smallTable(r, fmt.Sprintf("base%d", i))
			baseTables = append(baseTables, t)
			if err := opCommit(t.CSV(0), t.PK, 1, "main")(sdb, srs); err != nil {
				return Err("server-commit")
			}
		}
		hasTag := r.Intn(2) == 0
		tagOnRoot := false
		if hasTag {
			h, _ := ref.GetHead(srs, "main")
			if common >= 2 && (r.Intn(3) == 0 || (in.ClockSkew && r.Intn(2) == 0)) {
				// the tag sits on the first commit of the history (which a shallow clone holds without its table)
				for {
					hc, err := objects.GetCommit(sdb, h)
					if err != nil || len(hc.Parents) == 0 {
						break
					}
					h = hc.Parents[0]
				}
				tagOnRoot = true
			}
			ref.SaveTag(srs, "v1", h)
		}
		hasDev := r.Intn(2) == 0
		// the second branch sorts before or after `main` (refs are processed in sorted order)
		dev := []string{"dev", "zeta"}[r.Intn(2)]
		if hasDev {
			h, _ := ref.GetHead(srs, "main")
			hc, err := objects.GetCommit(sdb, h)
			if err != nil {
				return Err("server-dev")
			}
			if err := ref.CommitHead(srs, dev, h, hc, nil); err != nil {
				return Err("server-dev-ref")
			}
		}
		// --- the local repository ----------------------------------------------------------------
		dir := filepath.Join(root, "repo", ".wrgl")
		os.MkdirAll(filepath.Join(root, "repo"), 0755)
		rd, err := local.NewRepoDir(dir, "")
		if err != nil {
			return Err("repodir")
		}
		if err := rd.Init(); err != nil {
			return Err("init")
		}
		rd.Close()
		for _, a := range [][]string{{"config", "set", "user.email", "u@example.com"}, {"config", "set", "user.name", "U"},
			{"remote", "add", "origin", srv.URL()}} {
			if out, err := cli(dir, a...); err != nil {
				return Res{"res": "err", "kind": "setup:" + strings.Join(a, " ") + ":" + out + err.Error()}
			}
		}
		pullArgs := []string{"pull", "main", "origin", "refs/heads/main:refs/remotes/origin/main", "--set-upstream"}
		if common >= 2 && r.Intn(3) == 0 {
			// a shallow clone: older commits arrive without their tables
			in.ShallowClone = true
			pullArgs = append(pullArgs, "--depth", "1")
		}
		if out, err := cli(dir, pullArgs...); err != nil {
			return Res{"res": "err", "kind": "setup-pull:" + out + ":" + err.Error()}
		}
		tagFetched := false
		if hasTag && r.Intn(4) != 0 {
			if out, err := cli(dir, "fetch", "origin", "refs/tags/*:refs/tags/*"); err != nil {
				return Res{"res": "err", "kind": "setup-fetch-tags:" + out + ":" + err.Error()}
			}
			tagFetched = true
		}
		if hasDev {
			if out, err := cli(dir, "fetch", "origin", "refs/heads/"+dev+":refs/remotes/origin/"+dev); err != nil {
				return Res{"res": "err", "kind": "setup-fetch-dev:" + out + ":" + err.Error()}
			}
			in.DevRelation = []string{"equal", "ahead", "unrelated", "rewound"}[r.Intn(4)]
			switch in.DevRelation {
			case "ahead":
				for i := 0; i < 1+r.Intn(2); i++ {
					t := smallTable(r, fmt.Sprintf("dev%d", i))
					if err := opCommit(t.CSV(0), t.PK, 1, dev)(sdb, srs); err != nil {
						return Err("server-commit-dev")
					}
				}
			case "unrelated":
				srs.Delete("heads/" + dev)
				t := smallTable(r, "devx")
				if err := opCommit(t.CSV(0), t.PK, 1, dev)(sdb, srs); err != nil {
					return Err("server-commit-dev")
				}
			case "rewound":
				h, _ := ref.GetHead(srs, dev)
				hc, _ := objects.GetCommit(sdb, h)
				if hc != nil && len(hc.Parents) > 0 {
					pc, err := objects.GetCommit(sdb, hc.Parents[0])
					if err == nil {
						ref.CommitHead(srs, dev, hc.Parents[0], pc, nil)
					}
				} else {
					in.DevRelation = "equal"
				}
			}
		}
		if hasDev && (in.DevRelation == "ahead" || in.DevRelation == "unrelated") && r.Intn(2) == 0 {
			h, _ := ref.GetHead(srs, dev)
			ref.SaveTag(srs, "exp", h)
			in.ExpTag = true
		}
		// --- diverge -------------------------------------------------------------------------------
		in.Action = []string{"fetch", "fetch", "push", "push", "pull", "merge"}[r.Intn(6)]
		if in.ExpTag && r.Intn(3) != 0 {
			in.Action = "fetch" // a tag outside the fetched refspecs matters to fetches of `main` only
		}
		in.Relation = []string{"remote-ahead", "local-ahead", "diverged", "equal", "unrelated"}[r.Intn(5)]
		revertFirst := false
		refsLost := false
		if in.Action == "fetch" && !in.ShallowClone && r.Intn(4) == 0 {
			// nothing (or nothing new) to transfer: the remote did not move, moved backwards, or only the
			// local side moved; in half of these the remote-tracking ref has been lost (see below)
			in.Relation = []string{"equal", "rewound", "local-ahead"}[r.Intn(3)]
			refsLost = r.Intn(2) == 0
		} else if in.ShallowClone && tagOnRoot && tagFetched && r.Intn(3) != 0 {
			// the remote branch is reset to the tagged root (shallow locally) and continues from there with a
			// commit that re-uses the root's table; the only have the remote can recognise is that shallow commit
			in.Action = "fetch"
			in.Relation = "rewound-to-root"
		} else if in.ShallowClone && r.Intn(2) == 0 {
			// a shallow clone fetching new history whose tip re-uses the table of a commit that is
			// shallow locally (a revert): the sender must not take that table for present
			in.Action = []string{"fetch", "pull"}[r.Intn(2)]
			in.Relation = "remote-ahead"
			revertFirst = true
		} else if in.Action == "fetch" && r.Intn(2) == 0 {
			// what matters to a fetch is how the remote branch moved relative to the remote-tracking ref
			in.Relation = []string{"remote-ahead", "unrelated", "rewound"}[r.Intn(3)]
		}
		nRemote, nLocal := 0, 0
		switch in.Relation {
		case "remote-ahead":
			nRemote = 1 + r.Intn(3)
		case "local-ahead":
			nLocal = 1 + r.Intn(2)
		case "diverged":
			nRemote, nLocal = 1+r.Intn(2), 1+r.Intn(2)
		case "unrelated":
			// the remote branch is replaced by an unrelated history
			srs.Delete("heads/main")
			nRemote = 1 + r.Intn(2)
		case "rewound-to-root":
			if tsum, err := ref.GetRef(srs, "tags/v1"); err == nil {
				if tc, err := objects.GetCommit(sdb, tsum); err == nil {
					ref.CommitHead(srs, "main", tsum, tc, nil)
					if err := opCommit(baseTables[0].CSV(0), baseTables[0].PK, 1, "main")(sdb, srs); err != nil {
						return Err("server-commit-root")
					}
				}
			}
		case "rewound":
			// the remote branch is reset to its parent (a non-fast-forward whose new value is an ancestor)
			h, _ := ref.GetHead(srs, "main")
			hc, _ := objects.GetCommit(sdb, h)
			if hc != nil && len(hc.Parents) > 0 {
				if pc, err := objects.GetCommit(sdb, hc.Parents[0]); err == nil {
					ref.CommitHead(srs, "main", hc.Parents[0], pc, nil)
				}
			} else {
				in.Relation = "equal"
			}
		}
		for i := 0; i < nRemote; i++ {
			t := smallTable(r, fmt.Sprintf("remote%d", i))
			if r.Intn(3) == 0 {
				// a revert: the new commit re-uses the table of an earlier commit
				t = baseTables[r.Intn(len(baseTables))]
			}
			if revertFirst && i == nRemote-1 {
				t = baseTables[r.Intn(len(baseTables)-1)] // the table of a commit that is shallow locally
			}
			if err := opCommit(t.CSV(0), t.PK, 1, "main")(sdb, srs); err != nil {
				return Err("server-commit2")
			}
		}
		if (hasTag && r.Intn(2) == 0) || (!hasTag && r.Intn(4) == 0) {
			// the remote moved (or created) its tag
			h, _ := ref.GetHead(srs, "main")
			ref.SaveTag(srs, "v1", h)
		}
		for i := 0; i < nLocal; i++ {
			t := smallTable(r, fmt.Sprintf("local%d", i))
			fp := writeCSV(root, fmt.Sprintf("l%d.csv", i), t)
			if out, err := cli(dir, "commit", "main", fp, "local change", "-p", t.PK[0], "-n", "1"); err != nil {
				return Res{"res": "err", "kind": "setup-commit:" + out + ":" + err.Error()}
			}
		}
		// --- the action under test ------------------------------------------------------------------
		in.Force = r.Intn(3) == 0
		if in.Action == "fetch" || in.Action == "pull" {
			in.Depth = []int{0, 0, 1, 2}[r.Intn(4)]
		}
		if in.Action == "pull" || in.Action == "merge" {
			in.FFMode = []string{"", "ff", "no-ff", "ff-only"}[r.Intn(4)]
		}
		var args []string
		switch in.Action {
		case "fetch":
			in.RefspecForce = r.Intn(2) == 0
			in.FetchTags = r.Intn(2) == 0
			spec := "refs/heads/*:refs/remotes/origin/*"
			if in.RefspecForce {
				spec = "+" + spec
			}
			args = []string{"fetch", "origin", spec}
			if hasDev && r.Intn(2) == 0 {
				// explicit per-branch refspecs with independent force flags, in either order
				in.RefspecForce = false
				specs := []string{}
				for _, b := range []string{"main", dev} {
					s := "refs/heads/" + b + ":refs/remotes/origin/" + b
					if r.Intn(2) == 0 {
						s = "+" + s
						in.ForcedDsts = append(in.ForcedDsts, "remotes/origin/"+b)
					}
					specs = append(specs, s)
				}
				if r.Intn(2) == 0 {
					specs[0], specs[1] = specs[1], specs[0]
				}
				args = append([]string{"fetch", "origin"}, specs...)
			}
			if hasDev && (r.Intn(4) == 0 || (in.ExpTag && r.Intn(3) != 0)) {
				// only `main` is fetched: the second branch (and a tag on it) stays outside the refspecs
				in.RefspecForce = r.Intn(2) == 0
				in.ForcedDsts = nil
				s := "refs/heads/main:refs/remotes/origin/main"
				if in.RefspecForce {
					s = "+" + s
				}
				in.MainOnly = true
				args = []string{"fetch", "origin", s}
			}
			if in.FetchTags && !in.MainOnly {
				args = append(args, "refs/tags/*:refs/tags/*")
			}
			if in.Depth > 0 {
				args = append(args, "--depth", itoa(in.Depth))
			}
		case "push":
			// three spellings of the same update: the full destination, an abbreviated one (resolved
			// against the remote's refs by interpretDestination), the destination left out
			spec := []string{"refs/heads/main:refs/heads/main", "refs/heads/main:main", "refs/heads/main"}[r.Intn(3)]
			args = []string{"push", "origin", spec, "--no-progress"}
		case "pull":
			args = []string{"pull", "main", "--no-gui"}
			if in.Depth > 0 {
				args = append(args, "--depth", itoa(in.Depth))
			}
		case "merge":
			// merge what the last fetch brought (fetch first so that there is something to merge)
			cli(dir, "fetch", "origin", "--force")
			args = []string{"merge", "main", "origin/main", "--no-gui"}
		}
		if in.Force && in.Action != "merge" {
			args = append(args, "--force")
		}
		if in.FFMode != "" {
			args = append(args, "--"+in.FFMode)
		}
		if refsLost {
			// every object is (or may be) already here but the remote-tracking ref is not: the state a fetch
			// killed between its last object write and its ref write leaves behind; the fetch must write the ref
			if rd, err := local.NewRepoDir(dir, ""); err == nil {
				lrs := rd.OpenRefStore()
				if err := lrs.Delete("remotes/origin/main"); err == nil {
					in.RefsLost = true
				}
				rd.Close()
			}
		}
		if (in.Action == "fetch" || in.Action == "pull") && r.Intn(6) == 0 {
			in.StreamResets = 1 + r.Intn(6)
		}
		if in.Action != "merge" && r.Intn(3) == 0 {
			in.Dribble = 1 + r.Intn(12)
		}
		run := &syncRun{in: in, n: n, root: root, dir: dir, rdb: sdb, rrs: srs, srv: srv}
		return run.do(args)
	})
	return in, res
}

// syncRun is the observed part of a case: both sides before, the command under test, both sides
// after, the immediate repeat (fetch / push) and the commit graph of every store involved.
type syncRun struct {
	in        *syncInput
	n         *syncNamer
	root, dir string
	rdb       objects.Store // the remote that is observed (the receiver of a push)
	rrs       ref.Store
	srv       *RefServer
	moreDBs   []objects.Store // further stores whose commits belong to the graph
	// a panic of the command under test is recorded as a crashed process (the command failed) and
	// the state it leaves is judged like that of any failed command
	tolerateCrash bool
	arm, disarm   func() // fault switch around the first run
	fired         func() bool
}

func (s *syncRun) exec(args []string) (out string, err error, crashed bool) {
	if !s.tolerateCrash {
		out, err = cli(s.dir, args...)
		return out, err, false
	}
	defer func() {
		if e := recover(); e != nil {
			out, err, crashed = out+" PANIC: "+fmt.Sprint(e), fmt.Errorf("crashed"), true
		}
	}()
	out, err = cli(s.dir, args...)
	return out, err, false
}

func (s *syncRun) do(args []string) Res {
	in, n := s.in, s.n
	var errObs error
	in.LocalBefore, errObs = observeDir(n, s.dir)
	if errObs != nil {
		return Err("observe-local")
	}
	in.RemoteBefore = observeRepo(n, s.rdb, s.rrs)
	s.srv.UploadRoundTrips, s.srv.Packfiles = 0, 0
	s.srv.RefsListings, s.srv.UpdateRequests = 0, nil
	cwd, _ := os.Getwd()
	os.Chdir(s.root) // merge writes CONFLICTS_*.csv into the working directory
	defer os.Chdir(cwd)
	setStreamResets(in.StreamResets)
	setDribble(in.Dribble)
	if s.arm != nil {
		s.arm()
	}
	out, err, crashed := s.exec(args)
	if s.disarm != nil {
		s.disarm()
	}
	setStreamResets(0)
	setDribble(0)
	result := &syncResult{Failed: err != nil, Output: out, RoundTrips: s.srv.UploadRoundTrips, Packfiles: s.srv.Packfiles, Crashed: crashed}
	if s.fired != nil {
		result.FaultFired = s.fired()
	}
	result.RefListings = s.srv.RefsListings
	result.PushRequests = []syncPushReq{}
	for _, q := range s.srv.UpdateRequests {
		result.PushRequests = append(result.PushRequests, syncPushReq{Ref: strings.TrimPrefix(q.Ref, "refs/"), Old: n.id(q.Old), New: n.id(q.New)})
	}
	sort.Slice(result.PushRequests, func(i, j int) bool { return result.PushRequests[i].Ref < result.PushRequests[j].Ref })
	if err != nil {
		result.Output += " ERR: " + err.Error()
	}
	if len(result.Output) > 600 {
		result.Output = result.Output[:600]
	}
	result.LocalAfter, errObs = observeDir(n, s.dir)
	if errObs != nil {
		return Err("observe-local2")
	}
	result.RemoteAfter = observeRepo(n, s.rdb, s.rrs)
	// immediately repeated
	s.srv.UploadRoundTrips, s.srv.Packfiles = 0, 0
	if in.Action == "fetch" || in.Action == "push" {
		s.exec(args)
		result.RepeatTransferred = s.srv.Packfiles
		result.Local2, _ = observeDir(n, s.dir)
		result.Remote2 = observeRepo(n, s.rdb, s.rrs)
	}
	// the graph of all sides
	rd2, _ := local.NewRepoDir(s.dir, "")
	ldb, err := rd2.OpenObjectsStore()
	if err == nil {
		in.Graph = graphOf(n, append(append([]objects.Store{s.rdb}, s.moreDBs...), ldb)...)
		ldb.Close()
	}
	rd2.Close()
	return Ok(result)
}

// ---- case kinds selected by the case index ------------------------------------------------------
//
// Every fourth case index runs, after the case of the first generator, one more case of a kind
// that generator does not produce. The kind is a function of the property and the index only, and
// each kind draws from its own random stream (seeded by the case seed), so the cases of the first
// generator are exactly what they were.

var syncVariants = map[string][]string{
	// closure / tables / faults on the sending side / a second remote / merging fetched history
	"C09": {"multi-depth", "sender-fault", "second-remote", "merge-shallow"},
	// ref decisions: several refspecs over one remote ref, configured and explicit merge modes, merge targets
	"C10": {"overlap-specs", "ff-config", "merge-shallow"},
}

var syncVariantGens = map[string]func(e *syncEnv) Res{}

// c09Variants2: further kinds, on their own case indices (so that the kinds above keep theirs)
var c09Variants2 = map[string][]string{
	// data shapes of the transferred tables / refspecs whose destinations coincide / a stream that dies between two objects
	"C09": {"known-blocks", "colliding-dsts", "boundary-cut"},
	// the listing of the remote's refs fails before a push (which retries) or a fetch
	"C10": {"listing-fault", ""},
}

// c09Variants3: kinds on the case indices 2, 10, 18, ...
var c09Variants3 = map[string][]string{
	// several branch tips in one exchange, the stream dying on any object boundary
	"C09": {"tips-cut"},
}

func init() {
	syncVariantGens["known-blocks"] = c09GenKnownBlocks
	syncVariantGens["colliding-dsts"] = c09GenCollidingDsts
	syncVariantGens["boundary-cut"] = c09GenBoundaryCut
	syncVariantGens["tips-cut"] = c09GenTipsCut
	syncVariantGens["listing-fault"] = c10GenListingFault
	syncVariantGens["multi-depth"] = genMultiDepth
	syncVariantGens["sender-fault"] = genSenderFault
	syncVariantGens["second-remote"] = genSecondRemote
	syncVariantGens["merge-shallow"] = genMergeShallow
	syncVariantGens["overlap-specs"] = genOverlapSpecs
	syncVariantGens["ff-config"] = genFFConfig
}

// syncEnv is what every case kind starts from: a remote behind the reference server and an
// initialised local repository with the remote configured as origin.
type syncEnv struct {
	r    *rand.Rand
	in   *syncInput
	n    *syncNamer
	root string
	dir  string
	sdb  *MemStore
	srs  ref.Store
	srv  *RefServer
	uniq int
}

// table gives a small table whose content is unlike that of every other table of the case.
func (e *syncEnv) table(tag string) *TableSpec {
	e.uniq++
	n := []int{2, 5, 40, 260}[e.r.Intn(4)]
	t := GenTable(e.r, 2, n, []int{0}, 0)
	for _, row := range t.Rows {
		row[1] = fmt.Sprintf("%s-%d", tag, e.uniq)
	}
	return t
}

// commit adds a commit with a fresh table to a branch of the remote.
func (e *syncEnv) commit(branch, tag string) error {
	t := e.table(tag)
	return opCommit(t.CSV(0), t.PK, 1, branch)(e.sdb, e.srs)
}

// mergeCommit makes the branch's head a commit with two parents (the old head and other), re-using
// the old head's table.
func (e *syncEnv) mergeCommit(branch string, other []byte) error {
	h, err := ref.GetHead(e.srs, branch)
	if err != nil {
		return err
	}
	hc, err := objects.GetCommit(e.sdb, h)
	if err != nil {
		return err
	}
	e.uniq++
	com := &objects.Commit{Table: hc.Table, Message: fmt.Sprintf("merge %d", e.uniq), Time: commitClock(), AuthorEmail: "e", AuthorName: "a", Parents: [][]byte{h, other}}
	buf := newBuf()
	com.WriteTo(buf)
	sum, err := objects.SaveCommit(e.sdb, buf.Bytes())
	if err != nil {
		return err
	}
	return ref.CommitHead(e.srs, branch, sum, com, nil)
}

// point sets a branch of the remote to an existing commit.
func (e *syncEnv) point(branch string, sum []byte) error {
	c, err := objects.GetCommit(e.sdb, sum)
	if err != nil {
		return err
	}
	return ref.CommitHead(e.srs, branch, sum, c, nil)
}

func (e *syncEnv) cli(args ...string) Res {
	if out, err := cli(e.dir, args...); err != nil {
		return Res{"res": "err", "kind": "setup:" + strings.Join(args, " ") + ":" + out + ":" + err.Error()}
	}
	return nil
}

// localCommit commits a fresh table to the local branch main through the command line.
func (e *syncEnv) localCommit(tag string) Res {
	t := e.table(tag)
	fp := writeCSV(e.root, fmt.Sprintf("l%d.csv", e.uniq), t)
	return e.cli("commit", "main", fp, "local change", "-p", t.PK[0], "-n", "1")
}

// ancestorOf walks k first-parent steps back from sum (stops at a root).
func ancestorOf(db objects.Store, sum []byte, k int) []byte {
	for ; k > 0; k-- {
		c, err := objects.GetCommit(db, sum)
		if err != nil || len(c.Parents) == 0 {
			break
		}
		sum = c.Parents[0]
	}
	return sum
}

// moveRemoteMain changes the remote's main the way `relation` says (remote-ahead, unrelated,
// rewound, equal); a rewind of a single-commit history becomes "equal".
func (e *syncEnv) moveRemoteMain(relation string) (string, error) {
	switch relation {
	case "remote-ahead":
		for i := 0; i < 1+e.r.Intn(3); i++ {
			if err := e.commit("main", "remote"); err != nil {
				return relation, err
			}
		}
	case "unrelated":
		e.srs.Delete("heads/main")
		for i := 0; i < 1+e.r.Intn(2); i++ {
			if err := e.commit("main", "other"); err != nil {
				return relation, err
			}
		}
	case "rewound":
		h, _ := ref.GetHead(e.srs, "main")
		p := ancestorOf(e.sdb, h, 1)
		if bytes.Equal(p, h) {
			return "equal", nil
		}
		if err := e.point("main", p); err != nil {
			return relation, err
		}
	}
	return relation, nil
}

func runSyncVariant(seed int64, variant string, slot int) (*syncInput, Res) {
	in := &syncInput{Seed: seed, Variant: variant, Slot: slot}
	gen, ok := syncVariantGens[variant]
	if !ok {
		return in, Err("unknown-variant")
	}
	// the kind's own stream
	h := int64(0)
	for _, c := range variant {
		h = h*131 + int64(c)
	}
	r := rand.New(rand.NewSource(seed ^ (h << 20)))
	root, err := os.MkdirTemp(privateTmp(), "sync-")
	if err != nil {
		return in, Err("tmpdir")
	}
	defer os.RemoveAll(root)
	os.Setenv("XDG_CONFIG_HOME", filepath.Join(root, "xdg"))
	os.Setenv("HOME", root)
	res := Guard(func() Res {
		e := &syncEnv{r: r, in: in, n: &syncNamer{ids: map[string]int{}}, root: root, sdb: NewMemStore()}
		var closeS func()
		e.srs, closeS = NewRefStore()
		defer closeS()
		in.MaxPack = []uint64{0, 1, 700, 5000}[r.Intn(4)]
		in.DenyNonFF = r.Intn(2) == 0
		commitClock = func() time.Time { return fixedTime }
		e.dir = filepath.Join(root, "repo", ".wrgl")
		os.MkdirAll(filepath.Join(root, "repo"), 0755)
		rd, err := local.NewRepoDir(e.dir, "")
		if err != nil {
			return Err("repodir")
		}
		if err := rd.Init(); err != nil {
			return Err("init")
		}
		rd.Close()
		for _, a := range [][]string{{"config", "set", "user.email", "u@example.com"}, {"config", "set", "user.name", "U"}} {
			if res := e.cli(a...); res != nil {
				return res
			}
		}
		return gen(e)
	})
	return in, res
}

// serve starts the reference server over the given object store (the remote's own, or a wrapper
// of it) and registers it as origin.
func (e *syncEnv) serve(db objects.Store) Res {
	e.srv = NewRefServer(db, e.srs, e.in.MaxPack, e.in.DenyNonFF)
	return e.cli("remote", "add", "origin", e.srv.URL())
}

func (e *syncEnv) run() *syncRun {
	return &syncRun{in: e.in, n: e.n, root: e.root, dir: e.dir, rdb: e.sdb, rrs: e.srs, srv: e.srv}
}

// --- multi-depth: a depth-limited (or full) fetch of several branches that share history ---------
//
// The remote has a trunk (main) and one or two more branches forking from arbitrary trunk commits,
// each with 0..4 commits of its own, possibly merged into one another; the local repository is new
// or a full clone of an early trunk. `wrgl fetch --depth d` (d = 1..4, sometimes 0) of all heads:
// whatever the order in which the remote walks the wanted heads, every commit nearer than d to ANY
// updated ref must arrive with its table.
func genMultiDepth(e *syncEnv) Res {
	r, in := e.r, e.in
	in.Action, in.Relation = "fetch", "multi-branch"
	if res := e.serve(e.sdb); res != nil {
		return res
	}
	defer e.srv.Close()
	trunk := 3 + r.Intn(4)
	cloneAt := 0
	if r.Intn(3) == 0 {
		cloneAt = 1
	}
	var trunkSums [][]byte
	for i := 0; i < trunk; i++ {
		if err := e.commit("main", "trunk"); err != nil {
			return Err("server-commit")
		}
		h, _ := ref.GetHead(e.srs, "main")
		trunkSums = append(trunkSums, h)
		if i+1 == cloneAt {
			if res := e.cli("pull", "main", "origin", "refs/heads/main:refs/remotes/origin/main", "--set-upstream"); res != nil {
				return res
			}
		}
	}
	names := []string{"dev", "zeta", "alpha"}
	r.Shuffle(len(names), func(i, j int) { names[i], names[j] = names[j], names[i] })
	branches := names[:2+r.Intn(2)]
	// distance from each head to the first commit it shares with the trunk
	dist := []int{}
	// most branches fork from one trunk commit that has new history below it
	f0 := cloneAt + 1 + r.Intn(trunk-cloneAt-1)
	for _, b := range branches {
		f := f0
		if r.Intn(3) == 0 {
			f = r.Intn(trunk)
		}
		if err := e.point(b, trunkSums[f]); err != nil {
			return Err("server-branch")
		}
		own := r.Intn(5)
		for i := own; i > 0; i-- {
			if err := e.commit(b, b); err != nil {
				return Err("server-commit-branch")
			}
		}
		dist = append(dist, own, trunk-1-f)
	}
	if r.Intn(3) == 0 {
		// one branch merges another (or main), then may go on
		all := append([]string{"main"}, branches...)
		x := all[r.Intn(len(all))]
		y := all[r.Intn(len(all))]
		if x != y {
			o, _ := ref.GetHead(e.srs, y)
			if err := e.mergeCommit(x, o); err != nil {
				return Err("server-merge")
			}
			if r.Intn(2) == 0 {
				if err := e.commit(x, x); err != nil {
					return Err("server-commit-after-merge")
				}
			}
			if r.Intn(2) == 0 {
				// ... and the other one merges back what the first had before
				o2 := ancestorOf(e.sdb, func() []byte { h, _ := ref.GetHead(e.srs, x); return h }(), 1+r.Intn(2))
				if err := e.mergeCommit(y, o2); err != nil {
					return Err("server-merge2")
				}
			}
		}
	}
	in.Depth = []int{1, 2, 3, 3, 4, 4, 0}[r.Intn(7)]
	if r.Intn(4) != 0 {
		// a depth that reaches one or two commits into the shared part from the nearest head, so that
		// shared commits are within the depth of some heads and beyond it for others
		sort.Ints(dist)
		in.Depth = dist[0] + 2 + r.Intn(2)
	}
	in.RefspecForce = r.Intn(2) == 0
	spec := "refs/heads/*:refs/remotes/origin/*"
	if in.RefspecForce {
		spec = "+" + spec
	}
	args := []string{"fetch", "origin", spec}
	if in.Depth > 0 {
		args = append(args, "--depth", itoa(in.Depth))
	}
	return e.run().do(args)
}

// --- sender-fault: one read of the sending side's store fails (or one of its tables is damaged) ----
//
// fetch: the remote's store fails once, on its k-th read of a table / block / commit during the
// exchange. push: one table object of the local store is cut short. Either the command fails and
// moves no ref, or it succeeds and then the closure clauses hold as ever: a sender must not go on
// without an object it could not read.
type readFaultStore struct {
	objects.Store
	prefix string
	left   int // the left-th matching read fails; 0 = not armed
	fired  bool
}

func (s *readFaultStore) Get(k []byte) ([]byte, error) {
	if s.left > 0 && strings.HasPrefix(string(k), s.prefix) {
		s.left--
		if s.left == 0 {
			s.fired = true
			return nil, fmt.Errorf("input/output error")
		}
	}
	return s.Store.Get(k)
}

func genSenderFault(e *syncEnv) Res {
	r, in := e.r, e.in
	fs := &readFaultStore{Store: e.sdb}
	if res := e.serve(fs); res != nil {
		return res
	}
	defer e.srv.Close()
	common := 1 + r.Intn(2)
	for i := 0; i < common; i++ {
		if err := e.commit("main", "base"); err != nil {
			return Err("server-commit")
		}
	}
	kind := e.in.Slot % 4 // 0: fetch into a new repository, 1: push, 2: fetch into a clone, 3: fetch, fault on a block or commit
	cloned := kind == 1 || kind == 2 || (kind == 3 && r.Intn(2) == 0)
	if cloned {
		if res := e.cli("pull", "main", "origin", "refs/heads/main:refs/remotes/origin/main", "--set-upstream"); res != nil {
			return res
		}
	}
	run := e.run()
	if kind != 1 {
		in.Action, in.Relation = "fetch", "remote-ahead"
		for i := 0; i < 1+r.Intn(3); i++ {
			if err := e.commit("main", "remote"); err != nil {
				return Err("server-commit2")
			}
		}
		if r.Intn(3) == 0 {
			h, _ := ref.GetHead(e.srs, "main")
			e.point("dev", ancestorOf(e.sdb, h, 1))
			e.commit("dev", "dev")
		}
		prefix := "tbl/"
		if kind == 3 {
			prefix = []string{"blk/", "com/"}[r.Intn(2)]
		}
		k := 1 + r.Intn(3)
		in.Fault = fmt.Sprintf("the remote's store fails its read number %d of a %s object", k, strings.TrimSuffix(prefix, "/"))
		run.arm = func() { fs.prefix, fs.left, fs.fired = prefix, k, false }
		run.disarm = func() { fs.left = 0 }
		run.fired = func() bool { return fs.fired }
		in.RefspecForce = true
		return run.do([]string{"fetch", "origin", "+refs/heads/*:refs/remotes/origin/*"})
	}
	in.Action, in.Relation = "push", "local-ahead"
	nLocal := 1 + r.Intn(3)
	for i := 0; i < nLocal; i++ {
		if res := e.localCommit("local"); res != nil {
			return res
		}
	}
	// cut one table object of the commits about to be pushed
	rd, err := local.NewRepoDir(e.dir, "")
	if err != nil {
		return Err("repodir2")
	}
	ldb, err := rd.OpenObjectsStore()
	if err != nil {
		rd.Close()
		return Err("open-local")
	}
	lrs := rd.OpenRefStore()
	h, _ := ref.GetHead(lrs, "main")
	victim := ancestorOf(ldb, h, r.Intn(nLocal))
	if vc, err := objects.GetCommit(ldb, victim); err == nil {
		key := append([]byte("tbl/"), vc.Table...)
		if b, err := ldb.Get(key); err == nil && len(b) > 2 {
			cut := len(b) / 2
			if r.Intn(2) == 0 {
				cut = len(b) - 1 - r.Intn(len(b)/2)
			}
			ldb.Set(key, b[:cut])
			in.Fault = fmt.Sprintf("a table object of the local store is cut from %d to %d bytes", len(b), cut)
		}
	}
	ldb.Close()
	rd.Close()
	args := []string{"push", "origin", "refs/heads/main:refs/heads/main", "--no-progress"}
	in.Force = r.Intn(3) == 0
	if in.Force {
		args = append(args, "--force")
	}
	return run.do(args)
}

// --- second-remote: a clone (full or shallow) pushes its branch to another remote ------------------
//
// The local repository is a full or depth-1 clone of origin, may have a commit of its own, and may
// have had origin removed (`wrgl remote remove origin` deletes the remote-tracking refs). It pushes
// main to a second remote that is empty or holds a prefix of the history. A push that succeeds must
// leave the second remote with every commit AND every table of the branch; a push of a history with
// absent tables has to fail.
func genSecondRemote(e *syncEnv) Res {
	r, in := e.r, e.in
	in.Action, in.Relation, in.SecondRemote = "push", "local-ahead", true
	if res := e.serve(e.sdb); res != nil {
		return res
	}
	defer e.srv.Close()
	// (shallow clone, origin removed, second remote holds a prefix) enumerated by the slot
	combo := [][3]bool{{true, true, false}, {true, false, false}, {false, true, false}, {true, true, true}, {false, false, false},
		{true, true, false}, {true, false, true}, {false, true, true}, {false, false, true}}[e.in.Slot%9]
	common := 1 + r.Intn(3)
	if combo[0] && common < 2 {
		common = 2
	}
	var tables []*TableSpec
	for i := 0; i < common; i++ {
		t := e.table("base")
		tables = append(tables, t)
		if err := opCommit(t.CSV(0), t.PK, 1, "main")(e.sdb, e.srs); err != nil {
			return Err("server-commit")
		}
	}
	pull := []string{"pull", "main", "origin", "refs/heads/main:refs/remotes/origin/main", "--set-upstream"}
	if combo[0] {
		in.ShallowClone = true
		pull = append(pull, "--depth", itoa(1+r.Intn(common-1)))
	}
	if res := e.cli(pull...); res != nil {
		return res
	}
	if r.Intn(3) == 0 {
		if res := e.localCommit("local"); res != nil {
			return res
		}
	}
	if combo[1] {
		if res := e.cli("remote", "remove", "origin"); res != nil {
			return res
		}
		in.RemoteRemoved = true
	}
	// the second remote: empty, or holding the first commits of the same history
	db2 := NewMemStore()
	rs2, close2 := NewRefStore()
	defer close2()
	if combo[2] {
		held := 1 + r.Intn(common)
		for i := 0; i < held; i++ {
			if err := opCommit(tables[i].CSV(0), tables[i].PK, 1, "main")(db2, rs2); err != nil {
				return Err("server2-commit")
			}
		}
	}
	srv2 := NewRefServer(db2, rs2, in.MaxPack, in.DenyNonFF)
	defer srv2.Close()
	if res := e.cli("remote", "add", "backup", srv2.URL()); res != nil {
		return res
	}
	args := []string{"push", "backup", "refs/heads/main:refs/heads/main", "--no-progress"}
	in.Force = r.Intn(4) == 0
	if in.Force {
		args = append(args, "--force")
	}
	run := &syncRun{in: in, n: e.n, root: e.root, dir: e.dir, rdb: db2, rrs: rs2, srv: srv2, moreDBs: []objects.Store{e.sdb}, tolerateCrash: true}
	return run.do(args)
}

// --- merge-shallow: merging a commit of a fetched history, named by position or by sum -------------
//
// A full clone; the remote goes 2..4 commits ahead; `wrgl fetch --depth 1|2` brings the tip(s) with
// tables and the rest without. Then `wrgl merge main <commit>` where <commit> is origin/main~j or
// the commit's sum, in every fast-forward mode (flag and / or configuration), sometimes with a local
// commit that makes it a real merge. A branch head may only ever be moved to a commit whose table
// is present; a merge that cannot do that must fail and leave the branch alone.
func genMergeShallow(e *syncEnv) Res {
	r, in := e.r, e.in
	in.Action, in.Relation = "merge", "remote-ahead"
	if res := e.serve(e.sdb); res != nil {
		return res
	}
	defer e.srv.Close()
	for i := 0; i < 1+r.Intn(2); i++ {
		if err := e.commit("main", "base"); err != nil {
			return Err("server-commit")
		}
	}
	if res := e.cli("pull", "main", "origin", "refs/heads/main:refs/remotes/origin/main", "--set-upstream"); res != nil {
		return res
	}
	ahead := 2 + r.Intn(3)
	depth := 1 + e.in.Slot%2
	if r.Intn(8) == 0 {
		depth = 0
	}
	if ahead <= depth {
		ahead = depth + 1
	}
	for i := 0; i < ahead; i++ {
		if err := e.commit("main", "remote"); err != nil {
			return Err("server-commit2")
		}
	}
	fetch := []string{"fetch", "origin"}
	if depth > 0 {
		fetch = append(fetch, "--depth", itoa(depth))
	}
	if res := e.cli(fetch...); res != nil {
		return res
	}
	if r.Intn(6) == 0 {
		in.Relation = "diverged"
		if res := e.localCommit("local"); res != nil {
			return res
		}
	}
	if r.Intn(3) == 0 {
		in.ConfigFF = []string{"never", "only"}[r.Intn(2)]
		if res := e.cli("config", "set", "merge.fastForward", in.ConfigFF); res != nil {
			return res
		}
	}
	in.FFMode = []string{"", "", "ff", "no-ff", "ff-only"}[r.Intn(5)]
	// the commit to merge: the tip, the first commit beyond the fetched depth, or any
	j := r.Intn(ahead)
	switch (e.in.Slot / 2) % 3 {
	case 0:
		if depth > 0 && depth < ahead {
			j = depth
		}
	case 1:
		j = 0
	}
	tip, _ := ref.GetHead(e.srs, "main")
	target := ancestorOf(e.sdb, tip, j)
	in.MergeTarget = e.n.id(target)
	in.TargetName = "origin/main"
	if j > 0 {
		in.TargetName = fmt.Sprintf("origin/main~%d", j)
	}
	if r.Intn(2) == 0 {
		in.TargetName = hx(target)
	}
	args := []string{"merge", "main", in.TargetName, "--no-gui"}
	if in.FFMode != "" {
		args = append(args, "--"+in.FFMode)
	}
	return e.run().do(args)
}

// --- overlap-specs: several refspecs, each with its own '+', covering the same remote refs ---------
//
// Two or three refspecs (a glob into refs/remotes/origin/, an explicit one for main into a custom
// namespace, a glob into refs/remotes/mirror/) in any order first create their destinations; the
// remote's branches then move (forward, to an unrelated history, backwards) and the same refspecs
// are fetched again, each with an independent '+'. Every destination is judged by the '+' of the
// refspec that yields it and by nothing else.
func genOverlapSpecs(e *syncEnv) Res {
	r, in := e.r, e.in
	in.Action = "fetch"
	if res := e.serve(e.sdb); res != nil {
		return res
	}
	defer e.srv.Close()
	for i := 0; i < 1+r.Intn(3); i++ {
		if err := e.commit("main", "base"); err != nil {
			return Err("server-commit")
		}
	}
	heads := []string{"main"}
	if r.Intn(2) == 0 {
		h, _ := ref.GetHead(e.srs, "main")
		if err := e.point("dev", h); err != nil {
			return Err("server-dev")
		}
		heads = append(heads, "dev")
	}
	type spec struct {
		src, dst string // without refs/; a trailing * is a glob
	}
	pool := []spec{{"heads/*", "remotes/origin/*"}, {"heads/main", "backup/origin-main"}, {"heads/*", "remotes/mirror/*"}}
	r.Shuffle(len(pool), func(i, j int) { pool[i], pool[j] = pool[j], pool[i] })
	specs := pool
	if (e.in.Slot/8)%3 == 2 {
		specs = pool[:2]
	}
	setup := []string{"fetch", "origin"}
	for _, s := range specs {
		setup = append(setup, "+refs/"+s.src+":refs/"+s.dst)
	}
	if res := e.cli(setup...); res != nil {
		return res
	}
	// the remote moves
	rel, err := e.moveRemoteMain([]string{"unrelated", "unrelated", "unrelated", "rewound", "rewound", "remote-ahead", "remote-ahead", "equal"}[r.Intn(8)])
	if err != nil {
		return Err("server-move")
	}
	in.Relation = rel
	if len(heads) == 2 {
		in.DevRelation = []string{"equal", "ahead", "unrelated"}[r.Intn(3)]
		switch in.DevRelation {
		case "ahead":
			e.commit("dev", "dev")
		case "unrelated":
			e.srs.Delete("heads/dev")
			e.commit("dev", "devx")
		}
	}
	args := []string{"fetch", "origin"}
	for i, s := range specs {
		force := (e.in.Slot>>uint(i))&1 == 1 // every pattern of '+' over the refspecs, in command-line order
		a := "refs/" + s.src + ":refs/" + s.dst
		if force {
			a = "+" + a
		}
		args = append(args, a)
		// what the refspec expands to (a literal name, or a prefix with *)
		for _, h := range heads {
			name := "heads/" + h
			if strings.HasSuffix(s.src, "*") {
				p := strings.TrimSuffix(s.src, "*")
				if strings.HasPrefix(name, p) {
					in.SpecMap = append(in.SpecMap, syncSpecMap{Src: name, Dst: strings.TrimSuffix(s.dst, "*") + strings.TrimPrefix(name, p), Force: force})
				}
			} else if s.src == name {
				in.SpecMap = append(in.SpecMap, syncSpecMap{Src: name, Dst: s.dst, Force: force})
			}
		}
	}
	in.Force = r.Intn(8) == 0
	if in.Force {
		args = append(args, "--force")
	}
	return e.run().do(args)
}

// --- ff-config: merge.fastForward in the configuration x the flag on the command line -------------
//
// `wrgl merge` / `wrgl pull` with merge.fastForward unset / never / only and with no flag, --ff,
// --no-ff or --ff-only, over remote-ahead / diverged / local-ahead / equal histories. The mode in
// force is the flag when one is given, the configuration otherwise.
func genFFConfig(e *syncEnv) Res {
	r, in := e.r, e.in
	if res := e.serve(e.sdb); res != nil {
		return res
	}
	defer e.srv.Close()
	for i := 0; i < 1+r.Intn(2); i++ {
		if err := e.commit("main", "base"); err != nil {
			return Err("server-commit")
		}
	}
	if res := e.cli("pull", "main", "origin", "refs/heads/main:refs/remotes/origin/main", "--set-upstream"); res != nil {
		return res
	}
	in.Action = []string{"merge", "pull"}[r.Intn(2)]
	// configuration x flag enumerated by the slot (an explicit --ff, the flag that has to undo a
	// configured mode, twice per round); the history shape changes every 15 slots
	in.Relation = []string{"remote-ahead", "diverged", "local-ahead", "remote-ahead", "equal"}[(e.in.Slot/15)%5]
	if in.Relation == "remote-ahead" || in.Relation == "diverged" {
		for i := 0; i < 1+r.Intn(2); i++ {
			if err := e.commit("main", "remote"); err != nil {
				return Err("server-commit2")
			}
		}
	}
	if in.Relation == "local-ahead" || in.Relation == "diverged" {
		if res := e.localCommit("local"); res != nil {
			return res
		}
	}
	in.ConfigFF = []string{"never", "only", ""}[e.in.Slot%3]
	if in.ConfigFF != "" {
		if res := e.cli("config", "set", "merge.fastForward", in.ConfigFF); res != nil {
			return res
		}
	}
	in.FFMode = []string{"ff", "", "no-ff", "ff-only", "ff"}[(e.in.Slot/3)%5]
	var args []string
	if in.Action == "merge" {
		cli(e.dir, "fetch", "origin", "--force")
		args = []string{"merge", "main", "origin/main", "--no-gui"}
	} else {
		args = []string{"pull", "main", "--no-gui"}
	}
	if in.FFMode != "" {
		args = append(args, "--"+in.FFMode)
	}
	return e.run().do(args)
}


// ---- kinds of the second list -------------------------------------------------------------------

// --- known-blocks: a commit whose table brings no block that is new to the receiver ----------------
//
// The history holds a table of 2..3 blocks (256..655 rows) and, after it, a commit whose table is
// made of some of those very blocks (its first k blocks: the trailing rows were deleted; its last
// blocks: the leading 255*k rows were deleted), has no rows at all (header only), or - one row less
// than a full block - shares no block. The receiver (the local repository on fetch, the remote on
// push) may or may not already hold the big table. Whatever the blocks, the TABLE object of every
// transferred commit has to arrive.
func c09GenKnownBlocks(e *syncEnv) Res {
	r, in := e.r, e.in
	slot := in.Slot
	in.Shape = []string{"block-prefix", "header-only", "block-suffix", "prefix-less-one-row"}[slot%4]
	push := ((slot/4)+slot)%2 == 1
	if res := e.serve(e.sdb); res != nil {
		return res
	}
	defer e.srv.Close()
	for i := r.Intn(2); i > 0; i-- {
		if err := e.commit("main", "base"); err != nil {
			return Err("server-commit")
		}
	}
	e.uniq++
	big := GenTable(r, 2, 256+r.Intn(400), []int{0}, 0)
	for _, row := range big.Rows {
		row[1] = fmt.Sprintf("big-%d", e.uniq)
	}
	if err := opCommit(big.CSV(0), big.PK, 1, "main")(e.sdb, e.srs); err != nil {
		return Err("server-commit-big")
	}
	cloned := push || r.Intn(2) == 0
	if cloned {
		if res := e.cli("pull", "main", "origin", "refs/heads/main:refs/remotes/origin/main", "--set-upstream"); res != nil {
			return res
		}
	}
	// the derived table, from the blocks as stored
	h, _ := ref.GetHead(e.srs, "main")
	hc, err := objects.GetCommit(e.sdb, h)
	if err != nil {
		return Err("server-head")
	}
	tbl, err := objects.GetTable(e.sdb, hc.Table)
	if err != nil || len(tbl.Blocks) < 2 {
		return Err("server-table")
	}
	nb := len(tbl.Blocks)
	var picks [][]byte
	drop := 0
	switch in.Shape {
	case "block-prefix":
		picks = tbl.Blocks[:1+r.Intn(nb-1)]
	case "block-suffix":
		picks = tbl.Blocks[1+r.Intn(nb-1):]
	case "prefix-less-one-row":
		picks = tbl.Blocks[:1]
		drop = 1
	}
	derived := &TableSpec{Columns: tbl.Columns, PK: big.PK}
	for _, b := range picks {
		rows, _, err := objects.GetBlock(e.sdb, nil, b)
		if err != nil {
			return Err("server-block")
		}
		derived.Rows = append(derived.Rows, rows...)
	}
	derived.Rows = derived.Rows[:len(derived.Rows)-drop]
	known := map[string]bool{}
	for _, b := range tbl.Blocks {
		known[string(b)] = true
	}
	var derivedSum []byte
	if !push {
		in.Action, in.Relation = "fetch", "remote-ahead"
		if err := opCommit(derived.CSV(0), derived.PK, 1, "main")(e.sdb, e.srs); err != nil {
			return Err("server-commit-derived")
		}
		dh, _ := ref.GetHead(e.srs, "main")
		if dc, err := objects.GetCommit(e.sdb, dh); err == nil {
			derivedSum = dc.Table
		}
		if dt, err := objects.GetTable(e.sdb, derivedSum); err == nil {
			in.AllBlocksKnown = true
			for _, b := range dt.Blocks {
				in.AllBlocksKnown = in.AllBlocksKnown && known[string(b)]
			}
		}
		if r.Intn(2) == 0 {
			if err := e.commit("main", "after"); err != nil {
				return Err("server-commit-after")
			}
		}
		in.RefspecForce = true
		return e.run().do([]string{"fetch", "origin", "+refs/heads/*:refs/remotes/origin/*"})
	}
	in.Action, in.Relation = "push", "local-ahead"
	e.uniq++
	fp := writeCSV(e.root, fmt.Sprintf("l%d.csv", e.uniq), derived)
	if res := e.cli("commit", "main", fp, "derived", "-p", derived.PK[0], "-n", "1"); res != nil {
		return res
	}
	if rd, err := local.NewRepoDir(e.dir, ""); err == nil {
		if ldb, err := rd.OpenObjectsStore(); err == nil {
			lh, _ := ref.GetHead(rd.OpenRefStore(), "main")
			if lc, err := objects.GetCommit(ldb, lh); err == nil {
				if dt, err := objects.GetTable(ldb, lc.Table); err == nil {
					in.AllBlocksKnown = true
					for _, b := range dt.Blocks {
						in.AllBlocksKnown = in.AllBlocksKnown && known[string(b)]
					}
				}
			}
			ldb.Close()
		}
		rd.Close()
	}
	if r.Intn(2) == 0 {
		if res := e.localCommit("after"); res != nil {
			return res
		}
	}
	return e.run().do([]string{"push", "origin", "refs/heads/main:refs/heads/main", "--no-progress"})
}

// --- colliding-dsts: refspecs that map DIFFERENT remote refs onto one local destination -------------
//
// The remote has a branch and a tag of the same short name on histories of their own (the tagged one
// reachable through the tag only), and main. The fetch maps two different remote refs onto one
// destination: two globs into one namespace (heads/* and tags/* into refs/mirror/*), or two explicit
// refspecs with the same right-hand side. Whichever source the destination ends up with, it was
// created by a successful fetch and so its whole history has to be there.
func c09GenCollidingDsts(e *syncEnv) Res {
	r, in := e.r, e.in
	slot := in.Slot
	in.Action, in.Relation = "fetch", "remote-ahead"
	if res := e.serve(e.sdb); res != nil {
		return res
	}
	defer e.srv.Close()
	for i := 1 + r.Intn(2); i > 0; i-- {
		if err := e.commit("main", "base"); err != nil {
			return Err("server-commit")
		}
	}
	if r.Intn(2) == 0 {
		if res := e.cli("pull", "main", "origin", "refs/heads/main:refs/remotes/origin/main", "--set-upstream"); res != nil {
			return res
		}
	}
	fork, _ := ref.GetHead(e.srs, "main")
	for _, b := range []string{"rel", "scratch"} {
		if err := e.point(b, fork); err != nil {
			return Err("server-branch")
		}
		for i := 1 + r.Intn(2); i > 0; i-- {
			if err := e.commit(b, b); err != nil {
				return Err("server-commit-branch")
			}
		}
	}
	th, _ := ref.GetHead(e.srs, "scratch")
	if err := ref.SaveTag(e.srs, "rel", th); err != nil {
		return Err("server-tag")
	}
	if err := ref.DeleteHead(e.srs, "scratch"); err != nil {
		return Err("server-delete-branch")
	}
	form := slot % 3
	if form == 2 || r.Intn(2) == 0 {
		if err := e.commit("main", "ahead"); err != nil {
			return Err("server-commit-ahead")
		}
	}
	specs := [][2]string{{"heads/*", "mirror/*"}, {"tags/*", "mirror/*"}}
	switch form {
	case 1:
		specs = [][2]string{{"heads/rel", "mirror/x"}, {"tags/rel", "mirror/x"}}
	case 2:
		specs = [][2]string{{"heads/rel", "mirror/x"}, {"heads/main", "mirror/x"}}
	}
	if (slot/3)%2 == 1 {
		specs[0], specs[1] = specs[1], specs[0]
	}
	force := (slot/6)%2 == 0
	args := []string{"fetch", "origin"}
	for _, s := range specs {
		a := "refs/" + s[0] + ":refs/" + s[1]
		if force {
			a = "+" + a
		}
		args = append(args, a)
		for _, name := range []string{"heads/main", "heads/rel", "tags/rel"} {
			if strings.HasSuffix(s[0], "*") {
				p := strings.TrimSuffix(s[0], "*")
				if strings.HasPrefix(name, p) {
					in.SpecMap = append(in.SpecMap, syncSpecMap{Src: name, Dst: strings.TrimSuffix(s[1], "*") + strings.TrimPrefix(name, p), Force: force})
				}
			} else if s[0] == name {
				in.SpecMap = append(in.SpecMap, syncSpecMap{Src: name, Dst: s[1], Force: force})
			}
		}
	}
	return e.run().do(args)
}

// --- boundary-cut: a packfile response that ends exactly between two of its objects -----------------
//
// The connection carrying a packfile dies on an object boundary: the client sees the objects before
// the cut complete and then the error of a body shorter than announced (io.ErrUnexpectedEOF), or an
// HTTP/2 stream reset. The maximum packfile size of the remote is chosen relative to the objects of
// the first commit it will send, so that a packfile ends right after that commit's table, right
// after the commit itself, or anywhere; the cut falls before the last object of a packfile or after
// its first. A fetch that reports success after such a cut must still have everything.
type c09CutSpec struct {
	pack  int   // the pack-th packfile response that holds at least two objects is the one cut
	where int   // 0: before its last object; 1: after its first object; 2: after its j-th object, j = pick over all objects but the last
	pick  float64
	err   error // what the client's read returns at the cut
	seen  int
	fired bool
}

// c09PackBoundaries gives the offsets at which the objects of a packfile end (format: 8 bytes of
// header, then per object a type-and-length prefix of at least two bytes - 4 bits of length in the
// first, 7 in each further one, the last with its high bit clear - and the content).
func c09PackBoundaries(b []byte) []int {
	var ends []int
	off := 8
	for off < len(b) {
		u := uint64(b[off] & 15)
		off++
		bits := uint(4)
		for {
			if off >= len(b) {
				return ends
			}
			c := b[off]
			off++
			u |= uint64(c&127) << bits
			bits += 7
			if c&128 == 0 {
				break
			}
		}
		if uint64(len(b)-off) < u {
			return ends
		}
		off += int(u)
		ends = append(ends, off)
	}
	return ends
}

func c09SetBoundaryCut(spec *c09CutSpec) {
	setStreamResets(0)
	theResetTransport.mu.Lock()
	theResetTransport.spec = spec
	theResetTransport.mu.Unlock()
}

func c09GenBoundaryCut(e *syncEnv) Res {
	r, in := e.r, e.in
	slot := in.Slot
	in.Action, in.Relation = "fetch", "remote-ahead"
	if res := e.serve(e.sdb); res != nil {
		return res
	}
	defer e.srv.Close()
	for i := 1 + r.Intn(2); i > 0; i-- {
		if err := e.commit("main", "base"); err != nil {
			return Err("server-commit")
		}
	}
	cloned := slot%4 != 3
	if cloned {
		if res := e.cli("pull", "main", "origin", "refs/heads/main:refs/remotes/origin/main", "--set-upstream"); res != nil {
			return res
		}
	}
	ahead := 1 + r.Intn(3)
	for i := 0; i < ahead; i++ {
		if err := e.commit("main", "remote"); err != nil {
			return Err("server-commit2")
		}
	}
	// the first commit the remote will send, and the sizes of its objects
	tip, _ := ref.GetHead(e.srs, "main")
	first := ancestorOf(e.sdb, tip, ahead-1)
	if !cloned {
		first = ancestorOf(e.sdb, tip, 1<<20)
	}
	fc, err := objects.GetCommit(e.sdb, first)
	if err != nil {
		return Err("server-first")
	}
	ft, err := objects.GetTable(e.sdb, fc.Table)
	if err != nil {
		return Err("server-first-table")
	}
	blocks := uint64(0)
	for _, b := range ft.Blocks {
		bb, err := objects.GetBlockBytes(e.sdb, b)
		if err != nil {
			return Err("server-first-block")
		}
		blocks += uint64(len(bb)) + 4
	}
	tb, _ := e.sdb.Get(append([]byte("tbl/"), fc.Table...))
	switch slot % 3 {
	case 0: // more than the blocks, less than blocks + table: the packfile ends with the table
		in.MaxPack = blocks + 1
	case 1: // more than blocks + table: the packfile ends with the commit
		in.MaxPack = blocks + uint64(len(tb)) + 8
	default:
		in.MaxPack = []uint64{300, 700, 5000}[r.Intn(3)]
	}
	e.srv.maxPackfileSize = in.MaxPack
	spec := &c09CutSpec{pack: 1 + (slot/6)%2, where: (slot / 3) % 2, err: io.ErrUnexpectedEOF}
	what := "unexpected EOF (the body is shorter than announced)"
	if slot%5 == 4 {
		spec.err = fmt.Errorf("stream error: stream ID 7; INTERNAL_ERROR; received from peer")
		what = "an HTTP/2 stream reset"
	}
	in.Fault = fmt.Sprintf("packfile response number %d with two or more objects ends %s with %s",
		spec.pack, []string{"before its last object", "after its first object"}[spec.where], what)
	run := e.run()
	run.arm = func() { c09SetBoundaryCut(spec) }
	run.disarm = func() { c09SetBoundaryCut(nil) }
	run.fired = func() bool { return spec.fired }
	in.RefspecForce = true
	return run.do([]string{"fetch", "origin", "+refs/heads/*:refs/remotes/origin/*"})
}

// --- tips-cut: a fetch of several branch tips whose transfer dies on an object boundary ------------
//
// The remote has two or three branches, each with 0..2 commits of its own on top of a shared base
// (which the local repository has cloned, or not); all of them are fetched in one exchange, so the
// stream carries the history of one tip, complete, followed by that of the next. The connection
// dies on ANY object boundary of the first (or second) packfile response that holds two or more
// objects - between a block and its table, a table and its commit, or one tip's last object and the
// next tip's first - with the error of a short body (the command fails and is run again) or with an
// HTTP/2 stream reset (the command negotiates again by itself). However much of the stream arrived
// before the cut, a fetch that then reports success has every updated ref's history with its tables.
func c09GenTipsCut(e *syncEnv) Res {
	r, in := e.r, e.in
	slot := in.Slot
	in.Action, in.Relation = "fetch", "multi-branch"
	in.MaxPack = []uint64{0, 0, 5000, 700}[r.Intn(4)]
	if res := e.serve(e.sdb); res != nil {
		return res
	}
	defer e.srv.Close()
	for i := 1 + r.Intn(2); i > 0; i-- {
		if err := e.commit("main", "base"); err != nil {
			return Err("server-commit")
		}
	}
	if slot%3 != 2 {
		if res := e.cli("pull", "main", "origin", "refs/heads/main:refs/remotes/origin/main", "--set-upstream"); res != nil {
			return res
		}
	}
	base, _ := ref.GetHead(e.srs, "main")
	names := []string{"dev", "zeta", "alpha"}
	r.Shuffle(len(names), func(i, j int) { names[i], names[j] = names[j], names[i] })
	branches := append([]string{"main"}, names[:1+r.Intn(2)]...)
	idle := -1 // at most one branch brings nothing of its own
	if r.Intn(4) == 0 {
		idle = r.Intn(len(branches))
	}
	for i, b := range branches {
		if b != "main" {
			if err := e.point(b, ancestorOf(e.sdb, base, r.Intn(2))); err != nil {
				return Err("server-branch")
			}
		}
		if i == idle {
			continue
		}
		for j := 1 + r.Intn(2); j > 0; j-- {
			if err := e.commit(b, b); err != nil {
				return Err("server-commit-branch")
			}
		}
	}
	spec := &c09CutSpec{pack: 1, where: 2, pick: r.Float64(), err: io.ErrUnexpectedEOF}
	if in.MaxPack != 0 && r.Intn(2) == 0 {
		spec.pack = 2
	}
	if r.Intn(5) == 0 {
		spec.where = r.Intn(2)
	}
	what := "unexpected EOF (the body is shorter than announced)"
	if slot%2 == 0 {
		spec.err = fmt.Errorf("stream error: stream ID 7; INTERNAL_ERROR; received from peer")
		what = "an HTTP/2 stream reset"
	}
	in.Fault = fmt.Sprintf("packfile response number %d with two or more objects ends %s with %s", spec.pack,
		[]string{"before its last object", "after its first object", fmt.Sprintf("on the object boundary at %.3f of its objects", spec.pick)}[spec.where], what)
	run := e.run()
	run.arm = func() { c09SetBoundaryCut(spec) }
	run.disarm = func() { c09SetBoundaryCut(nil) }
	run.fired = func() bool { return spec.fired }
	in.RefspecForce = true
	return run.do([]string{"fetch", "origin", "+refs/heads/*:refs/remotes/origin/*"})
}

// --- listing-fault: the listing of the remote's refs fails before the command gets going -----------
//
// The first one or two GET /refs/ of the command are answered with a 5xx. `wrgl push` retries (with
// the same client map), `wrgl fetch` gives up. The branch relation is diverged / local-ahead /
// unrelated / remote-ahead / equal, a tag may be pushed along (new on the remote, or clobbering the
// remote's). Whatever happened to the listing, the push may only ask the remote for the updates its
// own gate accepts against the remote's TRUE refs, naming the true old values.
func c10GenListingFault(e *syncEnv) Res {
	r, in := e.r, e.in
	slot := in.Slot
	if res := e.serve(e.sdb); res != nil {
		return res
	}
	defer e.srv.Close()
	for i := 1 + r.Intn(2); i > 0; i-- {
		if err := e.commit("main", "base"); err != nil {
			return Err("server-commit")
		}
	}
	if res := e.cli("pull", "main", "origin", "refs/heads/main:refs/remotes/origin/main", "--set-upstream"); res != nil {
		return res
	}
	in.Action = "push"
	if slot%5 == 4 {
		in.Action = "fetch"
	}
	in.Relation = []string{"diverged", "local-ahead", "unrelated", "diverged", "remote-ahead", "equal"}[slot%6]
	root := ancestorOf(e.sdb, func() []byte { h, _ := ref.GetHead(e.srs, "main"); return h }(), 1<<20)
	switch in.Relation {
	case "diverged", "remote-ahead":
		for i := 1 + r.Intn(2); i > 0; i-- {
			if err := e.commit("main", "remote"); err != nil {
				return Err("server-commit2")
			}
		}
	case "unrelated":
		e.srs.Delete("heads/main")
		if err := e.commit("main", "other"); err != nil {
			return Err("server-commit-other")
		}
	}
	if in.Relation == "diverged" || in.Relation == "local-ahead" || (in.Relation == "unrelated" && r.Intn(2) == 0) {
		for i := 1 + r.Intn(2); i > 0; i-- {
			if res := e.localCommit("local"); res != nil {
				return res
			}
		}
	}
	in.Force = r.Intn(4) == 0
	var args []string
	if in.Action == "push" {
		args = []string{"push", "origin", "refs/heads/main:refs/heads/main"}
		if tagMode := r.Intn(3); tagMode > 0 {
			// a tag on the local head is pushed along; the remote has none of that name, or its own
			rd, err := local.NewRepoDir(e.dir, "")
			if err != nil {
				return Err("repodir2")
			}
			lrs := rd.OpenRefStore()
			lh, _ := ref.GetHead(lrs, "main")
			err = ref.SaveTag(lrs, "v1", lh)
			rd.Close()
			if err != nil {
				return Err("local-tag")
			}
			if tagMode == 2 {
				if err := ref.SaveTag(e.srs, "v1", root); err != nil {
					return Err("server-tag")
				}
			}
			args = append(args, "refs/tags/v1:refs/tags/v1")
		}
		args = append(args, "--no-progress")
	} else {
		in.RefspecForce = r.Intn(2) == 0
		spec := "refs/heads/*:refs/remotes/origin/*"
		if in.RefspecForce {
			spec = "+" + spec
		}
		args = []string{"fetch", "origin", spec}
	}
	if in.Force {
		args = append(args, "--force")
	}
	k := 1 + (slot/2)%2
	status := []int{503, 500, 502}[slot%3]
	in.Fault = fmt.Sprintf("the first %d listings of the remote's refs are answered with HTTP %d", k, status)
	run := e.run()
	srv := e.srv
	run.arm = func() { srv.mu.Lock(); srv.FailRefs, srv.FailRefsStatus = k, status; srv.mu.Unlock() }
	run.disarm = func() { srv.mu.Lock(); srv.FailRefs = 0; srv.mu.Unlock() }
	run.fired = func() bool { return srv.RefsListings > 0 }
	return run.do(args)
}

func emitSync(ctx *Ctx, in *syncInput, res Res, tags ...string) {
	nt := in.Relation == "diverged" || in.Relation == "unrelated" || in.Relation == "remote-ahead" || in.Variant != ""
	ts := append(tags, "action="+in.Action, "relation="+in.Relation)
	if in.Variant != "" {
		ts = append(ts, "variant="+in.Variant)
	}
	if in.Shape != "" {
		ts = append(ts, "shape="+in.Shape)
	}
	ctx.Emit("sync", in, res, nt, ts...)
}

func runSync(ctx *Ctx) {
	seed := ctx.Seed*1000003 + int64(ctx.Idx)
	in, res := runSyncCase(seed, ctx.Thorough())
	emitSync(ctx, in, res)
	if vs := syncVariants[ctx.Prop]; len(vs) > 0 && ctx.Idx%4 == 3 {
		k := ctx.Idx / 4
		in, res := runSyncVariant(seed, vs[k%len(vs)], k/len(vs))
		emitSync(ctx, in, res)
	}
	// the kinds of the second list take the case indices 1, 5, 9, ... ("" = no further case)
	if vs := c09Variants2[ctx.Prop]; len(vs) > 0 && ctx.Idx%4 == 1 {
		k := ctx.Idx / 4
		if v := vs[k%len(vs)]; v != "" {
			in, res := runSyncVariant(seed, v, k/len(vs))
			emitSync(ctx, in, res)
		}
	}
	if vs := c09Variants3[ctx.Prop]; len(vs) > 0 && ctx.Idx%8 == 2 {
		k := ctx.Idx / 8
		in, res := runSyncVariant(seed, vs[k%len(vs)], k/len(vs))
		emitSync(ctx, in, res)
	}
}

func corpusSync(ctx *Ctx, op string, raw json.RawMessage) {
	var in syncInput
	if err := json.Unmarshal(raw, &in); err != nil {
		panic(err)
	}
	if in.Variant != "" {
		in2, res := runSyncVariant(in.Seed, in.Variant, in.Slot)
		emitSync(ctx, in2, res, "corpus")
		return
	}
	in2, res := runSyncCase(in.Seed, true)
	ctx.Emit("sync", in2, res, true, "corpus", "action="+in2.Action, "relation="+in2.Relation)
}


// ---- transport fault: packfile responses cut half way with the error the HTTP/2 client reports for a
// stream reset by the peer (the CLI builds its client on http.DefaultTransport) ---------------------

type cutBody struct {
	r    io.ReadCloser
	left int
	err  error
}

func (b *cutBody) Read(p []byte) (int, error) {
	if b.left <= 0 {
		return 0, b.err
	}
	if len(p) > b.left {
		p = p[:b.left]
	}
	n, err := b.r.Read(p)
	b.left -= n
	if err != nil {
		return n, b.err
	}
	return n, nil
}
func (b *cutBody) Close() error { return b.r.Close() }

type resetTransport struct {
	base http.RoundTripper
	mu   sync.Mutex
	left int
	cut  int
	spec *c09CutSpec // a cut on an object boundary (see boundary-cut)
	dribble int      // the first reads of every response body are short
}

// dribbleBody hands out 1..3 bytes for each of its first `left` reads: what a transport may do
type dribbleBody struct {
	r    io.ReadCloser
	left int
}

func (b *dribbleBody) Read(p []byte) (int, error) {
	if b.left > 0 && len(p) > 0 {
		if k := 1 + b.left%3; len(p) > k {
			p = p[:k]
		}
		b.left--
	}
	return b.r.Read(p)
}
func (b *dribbleBody) Close() error { return b.r.Close() }

func setDribble(k int) {
	setStreamResets(-1)
	theResetTransport.mu.Lock()
	theResetTransport.dribble = k
	theResetTransport.mu.Unlock()
}

func (t *resetTransport) RoundTrip(req *http.Request) (*http.Response, error) {
	resp, err := t.base.RoundTrip(req)
	if err != nil {
		return resp, err
	}
	t.mu.Lock()
	defer t.mu.Unlock()
	if t.dribble > 0 {
		defer func() {
			if resp != nil && resp.Body != nil {
				resp.Body = &dribbleBody{r: resp.Body, left: t.dribble}
			}
		}()
	}
	if t.left > 0 && resp.Header.Get("Content-Type") == "application/x-wrgl-packfile" {
		t.left--
		t.cut++
		b, err := io.ReadAll(resp.Body)
		resp.Body.Close()
		if err != nil {
			return nil, err
		}
		resp.Body = &cutBody{r: io.NopCloser(bytes.NewReader(b)), left: len(b) / 2,
			err: fmt.Errorf("stream error: stream ID %d; INTERNAL_ERROR; received from peer", 2*t.cut+1)}
	} else if sp := t.spec; sp != nil && !sp.fired && resp.Header.Get("Content-Type") == "application/x-wrgl-packfile" {
		b, err := io.ReadAll(resp.Body)
		resp.Body.Close()
		if err != nil {
			return nil, err
		}
		resp.Body = io.NopCloser(bytes.NewReader(b))
		if ends := c09PackBoundaries(b); len(ends) >= 2 {
			sp.seen++
			if sp.seen == sp.pack {
				at := ends[len(ends)-2]
				if sp.where == 1 {
					at = ends[0]
				} else if sp.where == 2 {
					at = ends[int(sp.pick*float64(len(ends)-1))%(len(ends)-1)]
				}
				sp.fired = true
				resp.Body = &cutBody{r: io.NopCloser(bytes.NewReader(b)), left: at, err: sp.err}
			}
		}
	}
	return resp, nil
}

var theResetTransport *resetTransport

func setStreamResets(k int) {
	if theResetTransport == nil {
		theResetTransport = &resetTransport{base: http.DefaultTransport}
		http.DefaultTransport = theResetTransport
	}
	if k < 0 {
		return // only make sure the transport is installed
	}
	theResetTransport.mu.Lock()
	theResetTransport.left = k
	theResetTransport.mu.Unlock()
}
