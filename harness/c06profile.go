package main

import (
	"bytes"
	"encoding/binary"
	"math"
	"math/rand"

	"github.com/wrgl/wrgl/pkg/objects"
)

// Table profile VALUES (op "profileobj"): every field of every column is generated - texts (column
// name, top values) of 0 / 1 / 255 / 65535 bytes and beyond, present and absent statistics, any 64-bit
// float pattern, empty and nil lists - written with (*TableProfile).WriteTo, read back, re-encoded,
// stored with SaveTableProfile and fetched with GetTableProfile. The Lean side holds the encoder model
// (Model/Profile.lean): bytes are compared, and a text that does not fit 16 bits must be refused.

type c06ValueCount struct {
	Value string `json:"value"` // hex
	Count uint32 `json:"count"`
}

// floats are carried as the hex of their 8-byte big-endian bit pattern (NaNs and infinities included)
type c06ColProfile struct {
	Name         string           `json:"name"` // hex
	NACount      uint32           `json:"naCount"`
	Min          *string          `json:"min"`
	Max          *string          `json:"max"`
	Mean         *string          `json:"mean"`
	Median       *string          `json:"median"`
	StdDeviation *string          `json:"stdDeviation"`
	Percentiles  *[]string        `json:"percentiles"`
	MinStrLen    uint16           `json:"minStrLen"`
	MaxStrLen    uint16           `json:"maxStrLen"`
	AvgStrLen    uint16           `json:"avgStrLen"`
	TopValues    *[]c06ValueCount `json:"topValues"`
}

type c06ProfileObj struct {
	Version   uint32          `json:"version"`
	RowsCount uint32          `json:"rowsCount"`
	Columns   []c06ColProfile `json:"columns"`
}

func c06F64Hex(f float64) string {
	b := make([]byte, 8)
	binary.BigEndian.PutUint64(b, math.Float64bits(f))
	return hx(b)
}

func c06HexF64(s string) float64 {
	b := unhx(s)
	if len(b) != 8 {
		return 0
	}
	return math.Float64frombits(binary.BigEndian.Uint64(b))
}

func c06ProfileToGo(p *c06ProfileObj) *objects.TableProfile {
	out := &objects.TableProfile{Version: p.Version, RowsCount: p.RowsCount}
	opt := func(s *string) *float64 {
		if s == nil {
			return nil
		}
		f := c06HexF64(*s)
		return &f
	}
	for i := range p.Columns {
		c := &p.Columns[i]
		col := &objects.ColumnProfile{Name: string(unhx(c.Name)), NACount: c.NACount, Min: opt(c.Min), Max: opt(c.Max), Mean: opt(c.Mean),
			Median: opt(c.Median), StdDeviation: opt(c.StdDeviation), MinStrLen: c.MinStrLen, MaxStrLen: c.MaxStrLen, AvgStrLen: c.AvgStrLen}
		if c.Percentiles != nil {
			col.Percentiles = []float64{}
			for _, s := range *c.Percentiles {
				col.Percentiles = append(col.Percentiles, c06HexF64(s))
			}
		}
		if c.TopValues != nil {
			col.TopValues = objects.ValueCounts{}
			for _, vc := range *c.TopValues {
				col.TopValues = append(col.TopValues, objects.ValueCount{Value: string(unhx(vc.Value)), Count: vc.Count})
			}
		}
		out.Columns = append(out.Columns, col)
	}
	return out
}

func c06ProfileFromGo(p *objects.TableProfile) *c06ProfileObj {
	out := &c06ProfileObj{Version: p.Version, RowsCount: p.RowsCount, Columns: []c06ColProfile{}}
	opt := func(f *float64) *string {
		if f == nil {
			return nil
		}
		s := c06F64Hex(*f)
		return &s
	}
	for _, col := range p.Columns {
		c := c06ColProfile{Name: hx([]byte(col.Name)), NACount: col.NACount, Min: opt(col.Min), Max: opt(col.Max), Mean: opt(col.Mean),
			Median: opt(col.Median), StdDeviation: opt(col.StdDeviation), MinStrLen: col.MinStrLen, MaxStrLen: col.MaxStrLen, AvgStrLen: col.AvgStrLen}
		if col.Percentiles != nil {
			l := []string{}
			for _, f := range col.Percentiles {
				l = append(l, c06F64Hex(f))
			}
			c.Percentiles = &l
		}
		if col.TopValues != nil {
			l := []c06ValueCount{}
			for _, vc := range col.TopValues {
				l = append(l, c06ValueCount{Value: hx([]byte(vc.Value)), Count: vc.Count})
			}
			c.TopValues = &l
		}
		out.Columns = append(out.Columns, c)
	}
	return out
}

func c06ProfileObjRun(p *c06ProfileObj) Res {
	return Guard(func() Res {
		tp := c06ProfileToGo(p)
		buf := bytes.NewBuffer(nil)
		n, err := tp.WriteTo(buf)
		if err != nil {
			return Err("write")
		}
		b := append([]byte{}, buf.Bytes()...)
		out := map[string]interface{}{"bytes": hx(b), "n": n}
		back := &objects.TableProfile{}
		if _, err := back.ReadFrom(bytes.NewReader(b)); err != nil {
			out["read"] = "err"
		} else {
			out["read"] = c06ProfileFromGo(back)
			b2 := bytes.NewBuffer(nil)
			if _, err := back.WriteTo(b2); err != nil {
				out["reencoded"] = "err"
			} else {
				out["reencoded"] = hx(b2.Bytes())
			}
		}
		// what the caller does next: the bytes are stored under the table's sum and fetched again
		db := NewMemStore()
		sum := fakeSum(9)
		if err := objects.SaveTableProfile(db, sum, b); err != nil {
			out["stored"] = "err"
			return Ok(out)
		}
		raw, err := db.Get(append([]byte("tblsum/"), sum...))
		if err != nil {
			out["stored"] = "err"
		} else {
			out["stored"] = hx(raw)
		}
		if got, err := objects.GetTableProfile(db, sum); err != nil {
			out["fromStore"] = "err"
		} else {
			out["fromStore"] = c06ProfileFromGo(got)
		}
		return Ok(out)
	})
}

var c06FloatPatterns = []uint64{0, 0x8000000000000000, 0x3ff0000000000000, 0x7ff0000000000000, 0xfff0000000000000,
	0x7ff8000000000001, 0x7ff0000000000001, 0x0000000000000001, 0xffffffffffffffff, 0x400921fb54442d18}

func c06GenF64(r *rand.Rand) string {
	var bits uint64
	if r.Intn(2) == 0 {
		bits = c06FloatPatterns[r.Intn(len(c06FloatPatterns))]
	} else {
		bits = r.Uint64()
	}
	b := make([]byte, 8)
	binary.BigEndian.PutUint64(b, bits)
	return hx(b)
}

func c06GenOptF64(r *rand.Rand) *string {
	if r.Intn(2) == 0 {
		return nil
	}
	s := c06GenF64(r)
	return &s
}

func c06GenU16(r *rand.Rand) uint16 {
	switch r.Intn(4) {
	case 0:
		return 0
	case 1:
		return 65535
	default:
		return uint16(r.Intn(65536))
	}
}

func c06GenU32(r *rand.Rand) uint32 {
	switch r.Intn(4) {
	case 0:
		return 0
	case 1:
		return []uint32{1, 255, 256, 65535, 65536, 0x7fffffff, 0x80000000, 0xffffffff}[r.Intn(8)]
	default:
		return r.Uint32()
	}
}

// c06ProfileTextSizes: lengths around the 16-bit limit of a length-prefixed text
var c06ProfileNameSizes = []int{255, 65534, 65535, 65536, 65537, 70000, 131072}

// c06ProfileValueSizes: top values at / beyond the limit of their 16-bit length prefix
var c06ProfileValueSizes = []int{255, 65534, 65535, 65536, 70000}

func c06GenProfileObj(r *rand.Rand) (*c06ProfileObj, []string) {
	p := &c06ProfileObj{Version: c06GenU32(r), RowsCount: c06GenU32(r), Columns: []c06ColProfile{}}
	tags := []string{}
	nc := r.Intn(5)
	for i := 0; i < nc; i++ {
		c := c06ColProfile{NACount: c06GenU32(r), Min: c06GenOptF64(r), Max: c06GenOptF64(r), Mean: c06GenOptF64(r), Median: c06GenOptF64(r),
			StdDeviation: c06GenOptF64(r), MinStrLen: c06GenU16(r), MaxStrLen: c06GenU16(r), AvgStrLen: c06GenU16(r)}
		switch r.Intn(4) {
		case 0:
			c.Name = ""
		default:
			c.Name = hx([]byte(genCell(r)))
		}
		switch r.Intn(3) {
		case 0:
		case 1:
			l := []string{}
			c.Percentiles = &l
		default:
			l := []string{}
			for j := 0; j < 1+r.Intn(19); j++ {
				l = append(l, c06GenF64(r))
			}
			c.Percentiles = &l
		}
		switch r.Intn(3) {
		case 0:
		case 1:
			l := []c06ValueCount{}
			c.TopValues = &l
		default:
			l := []c06ValueCount{}
			for j := 0; j < 1+r.Intn(5); j++ {
				v := genCell(r)
				if r.Intn(5) == 0 {
					v = ""
				}
				l = append(l, c06ValueCount{Value: hx([]byte(v)), Count: c06GenU32(r)})
			}
			c.TopValues = &l
		}
		p.Columns = append(p.Columns, c)
	}
	if nc > 0 && r.Intn(3) == 0 {
		// a column name at / beyond the limit of its length prefix
		sz := c06ProfileNameSizes[r.Intn(len(c06ProfileNameSizes))]
		p.Columns[r.Intn(nc)].Name = hx(bytes.Repeat([]byte{byte('a' + r.Intn(26))}, sz))
		if sz > 65535 {
			tags = append(tags, "overlong-name")
		} else {
			tags = append(tags, "boundary-name")
		}
	}
	if nc > 0 && r.Intn(4) == 0 {
		sz := c06ProfileValueSizes[r.Intn(len(c06ProfileValueSizes))]
		c := &p.Columns[r.Intn(nc)]
		l := []c06ValueCount{}
		if c.TopValues != nil {
			l = *c.TopValues
		}
		l = append(l, c06ValueCount{Value: hx(bytes.Repeat([]byte{byte('a' + r.Intn(26))}, sz)), Count: c06GenU32(r)})
		c.TopValues = &l
		if sz > 65535 {
			tags = append(tags, "overlong-top-value")
		} else {
			tags = append(tags, "boundary-top-value")
		}
	}
	return p, tags
}
