package main

import (
	"encoding/json"
	"errors"
	"io"
	"math/rand"
	"sort"

	"github.com/wrgl/wrgl/pkg/ref"
)

func init() {
	runners["C11"] = runC11
	corpusRunners["C11"] = corpusC11
}

type c11Input struct {
	Graph  []GCommit `json:"graph"`
	A      int       `json:"a,omitempty"`
	B      int       `json:"b,omitempty"`
	Inputs []int     `json:"inputs,omitempty"`
	// rmanc: the frontier is started from Queue and advanced by Steps pops before RemoveAncestors(Inputs)
	Queue []int `json:"queue,omitempty"`
	Steps int   `json:"steps,omitempty"`
	// *-fault ops: the store fails its Fault-th read of a commit object during the query, once
	// (a transient input/output error); every other read is served
	Fault int `json:"fault,omitempty"`
}

func graphNontrivial(g []GCommit) bool {
	roots, merges, nonmono := 0, 0, false
	tm := map[int]int64{}
	for _, c := range g {
		tm[c.ID] = c.Time
	}
	for _, c := range g {
		if len(c.Parents) == 0 {
			roots++
		}
		if len(c.Parents) > 1 {
			merges++
		}
		for _, p := range c.Parents {
			if tm[p] >= c.Time {
				nonmono = true
			}
		}
	}
	return merges > 0 || roots > 1 || nonmono
}

func c11IsAnc(bg *BuiltGraph, a, b int) Res {
	return Guard(func() Res {
		ok, err := ref.IsAncestorOf(bg.DB, bg.Sums[a], bg.Sums[b])
		if err != nil {
			return Err("error")
		}
		return Ok(ok)
	})
}

func c11Walk(bg *BuiltGraph, b int) Res { return c11WalkN(bg, []int{b}) }

// c11WalkN walks from several start points (duplicates allowed: two refs on one commit).
func c11WalkN(bg *BuiltGraph, starts []int) Res {
	return Guard(func() Res {
		sums := [][]byte{}
		for _, s := range starts {
			sums = append(sums, bg.Sums[s])
		}
		q, err := ref.NewCommitsQueue(bg.DB, sums)
		if err != nil {
			return Err("error")
		}
		out := []int{}
		for {
			sum, _, err := q.PopInsertParents()
			if errors.Is(err, io.EOF) {
				break
			}
			if err != nil {
				return Err("error")
			}
			out = append(out, bg.IDs[string(sum)])
			if len(out) > 100000 {
				return Err("nontermination")
			}
		}
		return Ok(out)
	})
}

func c11Seek(bg *BuiltGraph, inputs []int) Res {
	return Guard(func() Res {
		sums := make([][]byte, len(inputs))
		for i, x := range inputs {
			sums[i] = bg.Sums[x]
		}
		base, err := ref.SeekCommonAncestor(bg.DB, sums...)
		if err != nil {
			return Err("not-found")
		}
		if base == nil {
			return Ok(nil)
		}
		return Ok(bg.IDs[string(base)])
	})
}

// c11Frontier builds the frontier the fetch negotiator holds: a queue started from `starts` and
// advanced by `steps` PopInsertParents calls.
func c11Frontier(bg *BuiltGraph, starts []int, steps int) (*ref.CommitsQueue, error) {
	sums := [][]byte{}
	for _, s := range starts {
		sums = append(sums, bg.Sums[s])
	}
	q, err := ref.NewCommitsQueue(bg.DB, sums)
	if err != nil {
		return nil, err
	}
	for i := 0; i < steps; i++ {
		if _, _, err := q.PopInsertParents(); err != nil {
			if errors.Is(err, io.EOF) {
				break
			}
			return nil, err
		}
	}
	return q, nil
}

func c11Drain(bg *BuiltGraph, q *ref.CommitsQueue) []int {
	out := []int{}
	for len(out) <= 100000 {
		sum, _, err := q.Pop()
		if err != nil {
			break
		}
		out = append(out, bg.IDs[string(sum)])
	}
	return out
}

// c11RemoveAncestors: the third ancestry query of commits_queue.go. Two identical frontiers are
// built; one is drained as it is ("before"), the other after RemoveAncestors(inputs) ("after").
func c11RemoveAncestors(bg *BuiltGraph, starts []int, steps int, inputs []int) Res {
	return Guard(func() Res {
		if steps < 0 || steps > 1000 {
			steps = 0
		}
		q0, err := c11Frontier(bg, starts, steps)
		if err != nil {
			return Err("error")
		}
		q1, err := c11Frontier(bg, starts, steps)
		if err != nil {
			return Err("error")
		}
		sums := [][]byte{}
		for _, s := range inputs {
			sums = append(sums, bg.Sums[s])
		}
		if err := q1.RemoveAncestors(sums); err != nil {
			return Err("error")
		}
		return Ok(map[string]interface{}{"before": c11Drain(bg, q0), "after": c11Drain(bg, q1)})
	})
}

// ---- one transient read failure during a query ------------------------------------------------
//
// The object store fails exactly one read of a commit object (the k-th one issued by the query) and
// serves every other read. Whatever the query does about it, it must not present a partial walk as
// a complete one: a definite answer (true/false, a finished walk, "no common ancestor") must be the
// right one for the whole graph; otherwise the query reports an error.

// c11FaultDB wraps the graph's store so that its k-th read of a commit fails once (k <= 0: no read
// fails; the wrapper then only counts). reads() is the number of commit reads seen so far.
type c11FaultDB struct {
	*readFaultStore
	start int
}

const c11Unarmed = 1 << 30

func c11NewFaultDB(bg *BuiltGraph, k int) *c11FaultDB {
	if k <= 0 {
		k = c11Unarmed
	}
	return &c11FaultDB{readFaultStore: &readFaultStore{Store: bg.DB, prefix: "com/", left: k}, start: k}
}

func (s *c11FaultDB) reads() int {
	if s.fired {
		return s.start
	}
	return s.start - s.left
}

// c11WithFault stamps the result with whether the fault was delivered.
func c11WithFault(db *c11FaultDB, res Res) Res {
	res["fired"] = db.fired
	return res
}

func c11IsAncFault(bg *BuiltGraph, a, b, k int) (Res, int) {
	db := c11NewFaultDB(bg, k)
	res := Guard(func() Res {
		ok, err := ref.IsAncestorOf(db, bg.Sums[a], bg.Sums[b])
		if err != nil {
			return Err("error")
		}
		return Ok(ok)
	})
	return c11WithFault(db, res), db.reads()
}

func c11WalkFault(bg *BuiltGraph, starts []int, k int) (Res, int) {
	db := c11NewFaultDB(bg, k)
	res := Guard(func() Res {
		sums := [][]byte{}
		for _, s := range starts {
			sums = append(sums, bg.Sums[s])
		}
		q, err := ref.NewCommitsQueue(db, sums)
		if err != nil {
			return Err("error")
		}
		out := []int{}
		for {
			sum, _, err := q.PopInsertParents()
			if errors.Is(err, io.EOF) {
				break
			}
			if err != nil {
				return Err("error")
			}
			out = append(out, bg.IDs[string(sum)])
			if len(out) > 100000 {
				return Err("nontermination")
			}
		}
		return Ok(out)
	})
	return c11WithFault(db, res), db.reads()
}

// c11SeekFault keeps "no common ancestor" (a definite answer) apart from any other error.
func c11SeekFault(bg *BuiltGraph, inputs []int, k int) (Res, int) {
	db := c11NewFaultDB(bg, k)
	res := Guard(func() Res {
		sums := make([][]byte, len(inputs))
		for i, x := range inputs {
			sums[i] = bg.Sums[x]
		}
		base, err := ref.SeekCommonAncestor(db, sums...)
		if err != nil {
			if err.Error() == "common ancestor commit not found" {
				return Err("not-found")
			}
			return Err("error")
		}
		if base == nil {
			return Ok(nil)
		}
		return Ok(bg.IDs[string(base)])
	})
	return c11WithFault(db, res), db.reads()
}

// c11RemoveAncestorsFault: the frontier is built on the healthy store; the fault is delivered
// during RemoveAncestors(inputs) only.
func c11RemoveAncestorsFault(bg *BuiltGraph, starts []int, steps int, inputs []int, k int) (Res, int) {
	db := c11NewFaultDB(bg, k)
	res := Guard(func() Res {
		if steps < 0 || steps > 1000 {
			steps = 0
		}
		q0, err := c11Frontier(bg, starts, steps)
		if err != nil {
			return Err("setup")
		}
		// same frontier, held by a queue that reads through the faulty store from now on
		ssums := [][]byte{}
		for _, s := range starts {
			ssums = append(ssums, bg.Sums[s])
		}
		hold := db.left
		db.left = 0 // not counting, not failing while the frontier is built
		q1, err := ref.NewCommitsQueue(db, ssums)
		for i := 0; err == nil && i < steps; i++ {
			if _, _, e := q1.PopInsertParents(); e != nil {
				if errors.Is(e, io.EOF) {
					break
				}
				err = e
			}
		}
		db.left = hold
		if err != nil {
			return Err("setup")
		}
		sums := [][]byte{}
		for _, s := range inputs {
			sums = append(sums, bg.Sums[s])
		}
		if err := q1.RemoveAncestors(sums); err != nil {
			return Err("error")
		}
		return Ok(map[string]interface{}{"before": c11Drain(bg, q0), "after": c11Drain(bg, q1)})
	})
	return c11WithFault(db, res), db.reads()
}

// c11Ancestors: ancestors-or-self of b, for choosing queries whose answer depends on the whole walk
// (generation only; the oracle is Lean's).
func c11Ancestors(g []GCommit, b int) []int {
	ps := map[int][]int{}
	for _, c := range g {
		ps[c.ID] = c.Parents
	}
	seen := map[int]bool{b: true}
	out := []int{b}
	for i := 0; i < len(out); i++ {
		for _, p := range ps[out[i]] {
			if !seen[p] {
				seen[p] = true
				out = append(out, p)
			}
		}
	}
	sort.Ints(out)
	return out
}

func c11FaultTags(res Res) []string {
	if f, _ := res["fired"].(bool); f {
		return []string{"read-fault", "fault-delivered"}
	}
	return []string{"read-fault"}
}

// c11FaultCases: four queries on the case's graph, each with one transient read failure placed at a
// read the query really issues (counted on a first, healthy run of the same query).
func c11FaultCases(ctx *Ctx, g []GCommit, bg *BuiltGraph, n int, nt bool) {
	r := rand.New(rand.NewSource(ctx.Seed*104729 + int64(ctx.Idx)*53 + 29))
	pick := func(reads int) int {
		if reads <= 0 {
			return 1
		}
		return 1 + r.Intn(reads)
	}
	// a query from a commit with the longest history, about one of its ancestors most of the time
	deep := 1
	for i := 1; i <= n; i++ {
		if len(c11Ancestors(g, i)) > len(c11Ancestors(g, deep)) {
			deep = i
		}
	}
	{
		b := deep
		if r.Intn(3) == 0 {
			b = 1 + r.Intn(n)
		}
		anc := c11Ancestors(g, b)
		a := anc[r.Intn(len(anc))]
		if r.Intn(4) == 0 {
			a = 1 + r.Intn(n)
		}
		_, reads := c11IsAncFault(bg, a, b, 0)
		k := pick(reads)
		res, _ := c11IsAncFault(bg, a, b, k)
		ctx.Emit("isanc-fault", c11Input{Graph: g, A: a, B: b, Fault: k}, res, nt && a != b, c11FaultTags(res)...)
	}
	{
		st := []int{deep}
		for i, m := 0, r.Intn(3); i < m; i++ {
			st = append(st, 1+r.Intn(n))
		}
		_, reads := c11WalkFault(bg, st, 0)
		k := pick(reads)
		res, _ := c11WalkFault(bg, st, k)
		ctx.Emit("walk-fault", c11Input{Graph: g, Inputs: st, Fault: k}, res, nt, c11FaultTags(res)...)
	}
	{
		in := make([]int, 2+r.Intn(2))
		for i := range in {
			in[i] = 1 + r.Intn(n)
		}
		_, reads := c11SeekFault(bg, in, 0)
		k := pick(reads)
		res, _ := c11SeekFault(bg, in, k)
		ctx.Emit("seek-fault", c11Input{Graph: g, Inputs: in, Fault: k}, res, nt, append(c11FaultTags(res), seekTags(in)...)...)
	}
	{
		st := make([]int, 1+r.Intn(3))
		for i := range st {
			st[i] = 1 + r.Intn(n)
		}
		steps := r.Intn(2)
		in := []int{deep}
		if r.Intn(2) == 0 {
			in = append(in, 1+r.Intn(n))
		}
		_, reads := c11RemoveAncestorsFault(bg, st, steps, in, 0)
		k := pick(reads)
		res, _ := c11RemoveAncestorsFault(bg, st, steps, in, k)
		ctx.Emit("rmanc-fault", c11Input{Graph: g, Queue: st, Steps: steps, Inputs: in, Fault: k}, res, nt, c11FaultTags(res)...)
	}
}

func seekTags(in []int) []string {
	if len(in) >= 3 {
		return []string{"inputs>=3"}
	}
	return []string{"inputs=" + itoa(len(in))}
}

func runC11(ctx *Ctx) {
	r := ctx.R
	maxN := 10
	if ctx.Thorough() {
		maxN = 16
	}
	n := 1 + r.Intn(maxN)
	g := GenGraph(r, n, r.Intn(5), 0.35, 0.12)
	bg, err := BuildGraph(g)
	if err != nil {
		panic(err)
	}
	nt := graphNontrivial(g)
	for k := 0; k < 4; k++ {
		a, b := 1+r.Intn(n), 1+r.Intn(n)
		ctx.Emit("isanc", c11Input{Graph: g, A: a, B: b}, c11IsAnc(bg, a, b), nt && a != b)
	}
	b := 1 + r.Intn(n)
	ctx.Emit("walk", c11Input{Graph: g, B: b}, c11Walk(bg, b), nt)
	{
		// several start points, some repeated (heads/main and remotes/origin/main on one commit)
		k := 2 + r.Intn(3)
		st := make([]int, k)
		for i := range st {
			st[i] = 1 + r.Intn(n)
		}
		st = append(st, st[r.Intn(k)])
		ctx.Emit("walkn", c11Input{Graph: g, Inputs: st}, c11WalkN(bg, st), nt)
	}
	for k := 0; k < 4; k++ {
		m := 2 + r.Intn(3)
		if k == 0 {
			m = 2
		}
		in := make([]int, m)
		for i := range in {
			in[i] = 1 + r.Intn(n)
		}
		ctx.Emit("seek", c11Input{Graph: g, Inputs: in}, c11Seek(bg, in), nt, seekTags(in)...)
	}
	// RemoveAncestors on a frontier of this graph; drawn from a stream of its own so that the cases
	// above are what they were
	r2 := rand.New(rand.NewSource(ctx.Seed*7919 + int64(ctx.Idx)*31 + 11))
	for k := 0; k < 2; k++ {
		st := make([]int, 1+r2.Intn(3))
		for i := range st {
			st[i] = 1 + r2.Intn(n)
		}
		steps := 0
		if k == 1 {
			steps = r2.Intn(3)
		}
		in := make([]int, 1+r2.Intn(2))
		for i := range in {
			in[i] = 1 + r2.Intn(n)
		}
		ctx.Emit("rmanc", c11Input{Graph: g, Queue: st, Steps: steps, Inputs: in}, c11RemoveAncestors(bg, st, steps, in), nt, "remove-ancestors")
	}
	// the same kinds of query with one transient read failure (streams of their own, after
	// everything else of the case)
	c11FaultCases(ctx, g, bg, n, nt)
}

func corpusC11(ctx *Ctx, op string, raw json.RawMessage) {
	var in c11Input
	if err := json.Unmarshal(raw, &in); err != nil {
		panic(err)
	}
	bg, err := BuildGraph(in.Graph)
	if err != nil {
		panic(err)
	}
	nt := graphNontrivial(in.Graph)
	switch op {
	case "isanc":
		ctx.Emit(op, in, c11IsAnc(bg, in.A, in.B), nt)
	case "walk":
		ctx.Emit(op, in, c11Walk(bg, in.B), nt)
	case "walkn":
		ctx.Emit(op, in, c11WalkN(bg, in.Inputs), nt)
	case "seek":
		ctx.Emit(op, in, c11Seek(bg, in.Inputs), nt, seekTags(in.Inputs)...)
	case "rmanc":
		ctx.Emit(op, in, c11RemoveAncestors(bg, in.Queue, in.Steps, in.Inputs), nt, "remove-ancestors")
	case "isanc-fault":
		res, _ := c11IsAncFault(bg, in.A, in.B, in.Fault)
		ctx.Emit(op, in, res, nt, c11FaultTags(res)...)
	case "walk-fault":
		res, _ := c11WalkFault(bg, in.Inputs, in.Fault)
		ctx.Emit(op, in, res, nt, c11FaultTags(res)...)
	case "seek-fault":
		res, _ := c11SeekFault(bg, in.Inputs, in.Fault)
		ctx.Emit(op, in, res, nt, append(c11FaultTags(res), seekTags(in.Inputs)...)...)
	case "rmanc-fault":
		res, _ := c11RemoveAncestorsFault(bg, in.Queue, in.Steps, in.Inputs, in.Fault)
		ctx.Emit(op, in, res, nt, c11FaultTags(res)...)
	}
}
