package main

import (
	"encoding/json"
	"errors"
	"io"
	"math/rand"

	"github.com/wrgl/wrgl/pkg/ref"
)

func init() {
	runners["C11"] = runC11
	corpusRunners["C11"] = corpusC11
}

type c11Input struct {
	Graph  []GCommit `json:"graph"`
	A      int       `json:"a,omitempty"`
	B      int       `json:"b,omitempty"`
	Inputs []int     `json:"inputs,omitempty"`
	// rmanc: the frontier is started from Queue and advanced by Steps pops before RemoveAncestors(Inputs)
	Queue []int `json:"queue,omitempty"`
	Steps int   `json:"steps,omitempty"`
}

func graphNontrivial(g []GCommit) bool {
	roots, merges, nonmono := 0, 0, false
	tm := map[int]int64{}
	for _, c := range g {
		tm[c.ID] = c.Time
	}
	for _, c := range g {
		if len(c.Parents) == 0 {
			roots++
		}
		if len(c.Parents) > 1 {
			merges++
		}
		for _, p := range c.Parents {
			if tm[p] >= c.Time {
				nonmono = true
			}
		}
	}
	return merges > 0 || roots > 1 || nonmono
}

func c11IsAnc(bg *BuiltGraph, a, b int) Res {
	return Guard(func() Res {
		ok, err := ref.IsAncestorOf(bg.DB, bg.Sums[a], bg.Sums[b])
		if err != nil {
			return Err("error")
		}
		return Ok(ok)
	})
}

func c11Walk(bg *BuiltGraph, b int) Res { return c11WalkN(bg, []int{b}) }

// c11WalkN walks from several start points (duplicates allowed: two refs on one commit).
func c11WalkN(bg *BuiltGraph, starts []int) Res {
	return Guard(func() Res {
		sums := [][]byte{}
		for _, s := range starts {
			sums = append(sums, bg.Sums[s])
		}
		q, err := ref.NewCommitsQueue(bg.DB, sums)
		if err != nil {
			return Err("error")
		}
		out := []int{}
		for {
			sum, _, err := q.PopInsertParents()
			if errors.Is(err, io.EOF) {
				break
			}
			if err != nil {
				return Err("error")
			}
			out = append(out, bg.IDs[string(sum)])
			if len(out) > 100000 {
				return Err("nontermination")
			}
		}
		return Ok(out)
	})
}

func c11Seek(bg *BuiltGraph, inputs []int) Res {
	return Guard(func() Res {
		sums := make([][]byte, len(inputs))
		for i, x := range inputs {
			sums[i] = bg.Sums[x]
		}
		base, err := ref.SeekCommonAncestor(bg.DB, sums...)
		if err != nil {
			return Err("not-found")
		}
		if base == nil {
			return Ok(nil)
		}
		return Ok(bg.IDs[string(base)])
	})
}

// c11Frontier builds the frontier the fetch negotiator holds: a queue started from `starts` and
// advanced by `steps` PopInsertParents calls.
func c11Frontier(bg *BuiltGraph, starts []int, steps int) (*ref.CommitsQueue, error) {
	sums := [][]byte{}
	for _, s := range starts {
		sums = append(sums, bg.Sums[s])
	}
	q, err := ref.NewCommitsQueue(bg.DB, sums)
	if err != nil {
		return nil, err
	}
	for i := 0; i < steps; i++ {
		if _, _, err := q.PopInsertParents(); err != nil {
			if errors.Is(err, io.EOF) {
				break
			}
			return nil, err
		}
	}
	return q, nil
}

func c11Drain(bg *BuiltGraph, q *ref.CommitsQueue) []int {
	out := []int{}
	for len(out) <= 100000 {
		sum, _, err := q.Pop()
		if err != nil {
			break
		}
		out = append(out, bg.IDs[string(sum)])
	}
	return out
}

// c11RemoveAncestors: the third ancestry query of commits_queue.go. Two identical frontiers are
// built; one is drained as it is ("before"), the other after RemoveAncestors(inputs) ("after").
func c11RemoveAncestors(bg *BuiltGraph, starts []int, steps int, inputs []int) Res {
	return Guard(func() Res {
		if steps < 0 || steps > 1000 {
			steps = 0
		}
		q0, err := c11Frontier(bg, starts, steps)
		if err != nil {
			return Err("error")
		}
		q1, err := c11Frontier(bg, starts, steps)
		if err != nil {
			return Err("error")
		}
		sums := [][]byte{}
		for _, s := range inputs {
			sums = append(sums, bg.Sums[s])
		}
		if err := q1.RemoveAncestors(sums); err != nil {
			return Err("error")
		}
		return Ok(map[string]interface{}{"before": c11Drain(bg, q0), "after": c11Drain(bg, q1)})
	})
}

func seekTags(in []int) []string {
	if len(in) >= 3 {
		return []string{"inputs>=3"}
	}
	return []string{"inputs=" + itoa(len(in))}
}

func runC11(ctx *Ctx) {
	r := ctx.R
	maxN := 10
	if ctx.Thorough() {
		maxN = 16
	}
	n := 1 + r.Intn(maxN)
	g := GenGraph(r, n, r.Intn(5), 0.35, 0.12)
	bg, err := BuildGraph(g)
	if err != nil {
		panic(err)
	}
	nt := graphNontrivial(g)
	for k := 0; k < 4; k++ {
		a, b := 1+r.Intn(n), 1+r.Intn(n)
		ctx.Emit("isanc", c11Input{Graph: g, A: a, B: b}, c11IsAnc(bg, a, b), nt && a != b)
	}
	b := 1 + r.Intn(n)
	ctx.Emit("walk", c11Input{Graph: g, B: b}, c11Walk(bg, b), nt)
	{
		// several start points, some repeated (heads/main and remotes/origin/main on one commit)
		k := 2 + r.Intn(3)
		st := make([]int, k)
		for i := range st {
			st[i] = 1 + r.Intn(n)
		}
		st = append(st, st[r.Intn(k)])
		ctx.Emit("walkn", c11Input{Graph: g, Inputs: st}, c11WalkN(bg, st), nt)
	}
	for k := 0; k < 4; k++ {
		m := 2 + r.Intn(3)
		if k == 0 {
			m = 2
		}
		in := make([]int, m)
		for i := range in {
			in[i] = 1 + r.Intn(n)
		}
		ctx.Emit("seek", c11Input{Graph: g, Inputs: in}, c11Seek(bg, in), nt, seekTags(in)...)
	}
	// RemoveAncestors on a frontier of this graph; drawn from a stream of its own so that the cases
	// above are what they were
	r2 := rand.New(rand.NewSource(ctx.Seed*7919 + int64(ctx.Idx)*31 + 11))
	for k := 0; k < 2; k++ {
		st := make([]int, 1+r2.Intn(3))
		for i := range st {
			st[i] = 1 + r2.Intn(n)
		}
		steps := 0
		if k == 1 {
			steps = r2.Intn(3)
		}
		in := make([]int, 1+r2.Intn(2))
		for i := range in {
			in[i] = 1 + r2.Intn(n)
		}
		ctx.Emit("rmanc", c11Input{Graph: g, Queue: st, Steps: steps, Inputs: in}, c11RemoveAncestors(bg, st, steps, in), nt, "remove-ancestors")
	}
}

func corpusC11(ctx *Ctx, op string, raw json.RawMessage) {
	var in c11Input
	if err := json.Unmarshal(raw, &in); err != nil {
		panic(err)
	}
	bg, err := BuildGraph(in.Graph)
	if err != nil {
		panic(err)
	}
	nt := graphNontrivial(in.Graph)
	switch op {
	case "isanc":
		ctx.Emit(op, in, c11IsAnc(bg, in.A, in.B), nt)
	case "walk":
		ctx.Emit(op, in, c11Walk(bg, in.B), nt)
	case "walkn":
		ctx.Emit(op, in, c11WalkN(bg, in.Inputs), nt)
	case "seek":
		ctx.Emit(op, in, c11Seek(bg, in.Inputs), nt, seekTags(in.Inputs)...)
	case "rmanc":
		ctx.Emit(op, in, c11RemoveAncestors(bg, in.Queue, in.Steps, in.Inputs), nt, "remove-ancestors")
	}
}
