package main

import (
	"bytes"
	"encoding/json"
	"fmt"
	"math/rand"
	"sync"
	"time"

	"github.com/go-logr/logr"
	"github.com/wrgl/wrgl/pkg/diff"
	"github.com/wrgl/wrgl/pkg/objects"
)

func init() {
	runners["C04"] = runC04
	corpusRunners["C04"] = corpusC04
}

type c04Input struct {
	T1 *TableDump `json:"t1"`
	T2 *TableDump `json:"t2"`
	// Specs are kept so that a corpus entry can be re-ingested
	S1 *TableSpec `json:"s1,omitempty"`
	S2 *TableSpec `json:"s2,omitempty"`
	// Via: how the tables reached the store they are diffed in (absent = ingested there)
	Via *c04Via `json:"via,omitempty"`
}

type diffEv struct {
	PK     string  `json:"pk"`
	Sum    *string `json:"sum"`
	Off    uint32  `json:"off"`
	OldSum *string `json:"oldSum"`
	OldOff uint32  `json:"oldOff"`
}

func optHex(b []byte) *string {
	if b == nil {
		return nil
	}
	s := hx(b)
	return &s
}

func runDiff(db1, db2 objects.Store, sum1, sum2 []byte) Res {
	return Guard(func() Res {
		tbl1, err := objects.GetTable(db1, sum1)
		if err != nil {
			return Err("gettable")
		}
		tbl2, err := objects.GetTable(db2, sum2)
		if err != nil {
			return Err("gettable")
		}
		idx1, err := objects.GetTableIndex(db1, sum1)
		if err != nil {
			return Err("gettableindex")
		}
		idx2, err := objects.GetTableIndex(db2, sum2)
		if err != nil {
			return Err("gettableindex")
		}
		errCh := make(chan error, 10)
		ch, _ := diff.DiffTables(db1, db2, tbl1, tbl2, idx1, idx2, errCh, logr.Discard())
		evs := []diffEv{}
		timeout := hangAfter(60 * time.Second)
	loop:
		for {
			select {
			case d, ok := <-ch:
				if !ok {
					break loop
				}
				evs = append(evs, diffEv{PK: hx(d.PK), Sum: optHex(d.Sum), Off: d.Offset, OldSum: optHex(d.OldSum), OldOff: d.OldOffset})
			case <-timeout:
				return Err("hang")
			}
		}
		select {
		case err := <-errCh:
			if err != nil {
				return Err("differ-error")
			}
		default:
		}
		return Ok(evs)
	})
}

// mutateTable derives a second table from the first.
func mutateTable(r *rand.Rand, t *TableSpec, mode int) *TableSpec {
	pk := t.PKIdx()
	iskey := map[int]bool{}
	for _, p := range pk {
		iskey[p] = true
	}
	out := &TableSpec{Columns: t.Columns, PK: t.PK}
	cp := func(row []string) []string { return append([]string{}, row...) }
	switch mode {
	case 0: // identical
		for _, row := range t.Rows {
			out.Rows = append(out.Rows, cp(row))
		}
	case 1: // empty
	case 2: // random edits
		pDel := r.Float64() * 0.3
		pMod := r.Float64() * 0.3
		for _, row := range t.Rows {
			x := r.Float64()
			if x < pDel {
				continue
			}
			nr := cp(row)
			if x < pDel+pMod {
				// modify a non-key cell (if there is one; a keyless table changes identity instead)
				c := r.Intn(len(nr))
				if !iskey[c] || len(pk) == 0 {
					nr[c] = nr[c] + "~"
				}
			}
			out.Rows = append(out.Rows, nr)
		}
		nAdd := r.Intn(1 + len(t.Rows)/4 + 3)
		for i := 0; i < nAdd; i++ {
			nr := make([]string, len(t.Columns))
			for c := range nr {
				nr[c] = genCell(r)
			}
			kc := pk
			if len(kc) == 0 {
				kc = []int{0}
			}
			// new keys interleave with the existing 4-digit keys or lie beyond them
			nr[kc[0]] = fmt.Sprintf("%04d%c", r.Intn(len(t.Rows)+50), 'a'+rune(r.Intn(3)))
			out.Rows = append(out.Rows, nr)
		}
	case 3: // nested middle slice
		n := len(t.Rows)
		if n > 0 {
			// rows are in random order; take those whose first key falls in the middle range
			lo, hi := n/3, 2*n/3
			kc := pk
			if len(kc) == 0 {
				kc = []int{0}
			}
			for _, row := range t.Rows {
				var v int
				fmt.Sscanf(row[kc[0]], "%d", &v)
				if len(kc) > 1 {
					var w int
					fmt.Sscanf(row[kc[1]], "%d", &w)
					v = v*37 + w
				}
				if v >= lo && v < hi {
					out.Rows = append(out.Rows, cp(row))
				}
			}
		}
	case 4: // disjoint: shift every key
		kc := pk
		if len(kc) == 0 {
			kc = []int{0}
		}
		pre := []string{"!", "~"}[r.Intn(2)]
		for _, row := range t.Rows {
			nr := cp(row)
			nr[kc[0]] = pre + nr[kc[0]]
			out.Rows = append(out.Rows, nr)
		}
	case 5: // keys clustered at block edges: drop one row near each 255 boundary
		for i, row := range t.Rows {
			var v int
			kc := pk
			if len(kc) == 0 {
				kc = []int{0}
			}
			fmt.Sscanf(row[kc[0]], "%d", &v)
			_ = i
			if len(kc) == 1 && (v%255 == 254 || v%255 == 0) && r.Intn(2) == 0 {
				continue
			}
			out.Rows = append(out.Rows, cp(row))
		}
	}
	return out
}

func c04Case(ctx *Ctx, s1, s2 *TableSpec, cfg1, cfg2 IngestCfg, tags ...string) {
	c04CaseVia(ctx, s1, s2, cfg1, cfg2, nil, tags...)
}

// c04Via says where the diffed tables come from: ingested in the store they are diffed in (nil), or
// ingested in an origin store and received through the real packfile sender/receiver into the store
// they are diffed in - so their table index and block indices are the ones the receiver rebuilt.
type c04Via struct {
	Xfer Xfer `json:"xfer"`
	// Recv1/Recv2: is the first/second table a received one (the other is ingested locally)
	Recv1 bool `json:"recv1"`
	Recv2 bool `json:"recv2"`
}

func c04CaseVia(ctx *Ctx, s1, s2 *TableSpec, cfg1, cfg2 IngestCfg, via *c04Via, tags ...string) {
	db := NewMemStore()
	origin := objects.Store(db)
	if via != nil {
		origin = NewMemStore()
	}
	at := func(received bool) objects.Store {
		if via != nil && received {
			return origin
		}
		return db
	}
	in0 := c04Input{S1: s1, S2: s2, Via: via}
	sum1, err := IngestCSV(c04Reordering(at(via != nil && via.Recv1), s1, cfg1), s1.CSV(0), s1.PK, cfg1)
	if err != nil {
		ctx.Emit("diff", in0, Err("ingest1"), false, "ingest-error")
		return
	}
	sum2, err := IngestCSV(c04Reordering(at(via != nil && via.Recv2), s2, cfg2), s2.CSV(0), s2.PK, cfg2)
	if err != nil {
		ctx.Emit("diff", in0, Err("ingest2"), false, "ingest-error")
		return
	}
	if via != nil {
		var sums [][]byte
		// the second (old) version travels first, as history does
		if via.Recv2 {
			sums = append(sums, sum2)
		}
		if via.Recv1 && !(via.Recv2 && string(sum1) == string(sum2)) {
			sums = append(sums, sum1)
		}
		var terr error
		res := Guard(func() Res {
			terr = transferTables(origin, db, sums, via.Xfer)
			return nil
		})
		if res != nil || terr != nil {
			if res == nil {
				res = Err("transfer")
			}
			ctx.Emit("diff", in0, res, false, "transfer-error")
			return
		}
	}
	d1, err1 := DumpTable(db, sum1, true)
	d2, err2 := DumpTable(db, sum2, true)
	if err1 != nil || err2 != nil {
		ctx.Emit("diff", in0, Err("dump"), false, "dump-error")
		return
	}
	res := runDiff(db, db, sum1, sum2)
	nt := len(d1.Blocks) == 0 || len(d2.Blocks) == 0 || len(d1.Blocks) >= 2 || len(d2.Blocks) >= 2
	if res["res"] == "ok" {
		evs := res["val"].([]diffEv)
		a, rm, m := 0, 0, 0
		for _, e := range evs {
			switch {
			case e.Sum != nil && e.OldSum != nil:
				m++
			case e.Sum != nil:
				a++
			default:
				rm++
			}
		}
		if a > 0 && rm > 0 && m > 0 {
			nt = true
		}
	}
	tags = append(tags, fmt.Sprintf("blocks=%d/%d", len(d1.Blocks), len(d2.Blocks)))
	if len(d1.Blocks) == 0 || len(d2.Blocks) == 0 {
		tags = append(tags, "empty-side")
	}
	if len(s1.PK) == 0 {
		tags = append(tags, "keyless")
	}
	ctx.Emit("diff", c04Input{T1: d1, T2: d2, S1: s1, S2: s2, Via: via}, res, nt, tags...)
}

// windowShapes: two keyed tables of several blocks whose block boundaries relate in varied ways
// (one block of a table spanning several of the other's, nested tails, dense prefix + sparse tail).
//
// variant 1: a composite key (g,k) whose first column takes 1..4 values, so that block boundaries
// fall where the first key column ties and only the second decides; variant 2: the same rows
// without a primary key (the whole row is the key).
func windowShapes(r *rand.Rand, variant int) (*TableSpec, *TableSpec) {
	k := 520 + r.Intn(700)
	regions := 1 + r.Intn(4)
	mk := func(keep func(i int) bool, mod func(i int) bool) *TableSpec {
		t := &TableSpec{Columns: []string{"k", "v"}, PK: []string{"k"}}
		if variant == 1 {
			t = &TableSpec{Columns: []string{"g", "k", "v"}, PK: []string{"g", "k"}}
		} else if variant == 2 {
			t = &TableSpec{Columns: []string{"g", "k", "v"}, PK: nil}
		}
		for _, i := range r.Perm(k) {
			if !keep(i) {
				continue
			}
			v := "x"
			if mod(i) {
				v = "y"
			}
			if variant == 0 {
				t.Rows = append(t.Rows, []string{fmt.Sprintf("%05d", i), v})
			} else {
				t.Rows = append(t.Rows, []string{fmt.Sprintf("r%d", i*regions/k), fmt.Sprintf("%05d", i), v})
			}
		}
		return t
	}
	never := func(int) bool { return false }
	all := func(int) bool { return true }
	t1 := mk(all, never)
	var t2 *TableSpec
	m := []int{2, 3, 5, 7, 11}[r.Intn(5)]
	cut := r.Intn(k)
	someMod := func(i int) bool { return i%97 == 13 }
	switch r.Intn(5) {
	case 0: // sparse subset
		t2 = mk(func(i int) bool { return i%m == 0 }, someMod)
	case 1: // dense prefix, sparse tail
		t2 = mk(func(i int) bool { return i < cut || i%m == 0 }, someMod)
	case 2: // sparse prefix, dense tail
		t2 = mk(func(i int) bool { return i >= cut || i%m == 0 }, someMod)
	case 3: // a nested tail
		t2 = mk(func(i int) bool { return i >= k-(100+r.Intn(300)) }, someMod)
	default: // a gap in the middle
		w := 100 + r.Intn(300)
		t2 = mk(func(i int) bool { return i < cut || i >= cut+w }, someMod)
	}
	if r.Intn(2) == 0 {
		return t2, t1
	}
	return t1, t2
}

// runC04Received: the diff of tables that arrived over the wire (one or both sides). The pairs are the
// ones of the other cases - window shapes on even turns, a generated table and its mutation on odd
// turns - with the columns of both tables shuffled the same way, so that the key sits in any columns
// in any order.
func runC04Received(ctx *Ctx) {
	r := ctx.R
	k := ctx.Idx / 8
	var s1, s2 *TableSpec
	var tag string
	if k%2 == 0 {
		variant := (k / 2) % 3
		s1, s2 = windowShapes(r, variant)
		tag = fmt.Sprintf("mode=window-shapes-%d", variant)
	} else {
		maxBlocks := 2
		if ctx.Thorough() {
			maxBlocks = 4
		}
		nCols := 1 + r.Intn(3)
		pk := genPK(r, nCols)
		s1 = GenTable(r, nCols, genRowCount(r, maxBlocks), pk, 0)
		mode := r.Intn(6)
		s2 = mutateTable(r, s1, mode)
		if r.Intn(2) == 0 {
			s1, s2 = s2, s1
		}
		tag = fmt.Sprintf("mode=%d", mode)
	}
	tags := []string{tag, "received"}
	if r.Intn(4) != 0 {
		shuffleColumns(r, s1, s2)
		tags = append(tags, "columns-shuffled")
	}
	if !keyLeading(s1) {
		tags = append(tags, "key-not-leading")
	}
	via := &c04Via{Xfer: genXfer(r), Recv1: true, Recv2: true}
	switch r.Intn(4) {
	case 0:
		via.Recv1 = false
		tags = append(tags, "received-vs-local")
	case 1:
		via.Recv2 = false
		tags = append(tags, "received-vs-local")
	}
	tags = append(tags, via.Xfer.tags()...)
	c04CaseVia(ctx, s1, s2, IngestCfg{}, IngestCfg{}, via, tags...)
}

func runC04(ctx *Ctx) {
	r := ctx.R
	// in addition to the case of this index (each from a random stream of its own, so that the case of
	// the index is what it was): diffs on a store that fails, pairs whose block edges carry duplicated
	// keys, and pairs with a side of zero rows
	switch ctx.Idx % 12 {
	case 3:
		defer c04RunFault(ctx)
	case 7:
		defer c04RunEdgeDup(ctx)
	case 9:
		defer c04RunZeroRows(ctx)
	}
	if ctx.Idx%12 == 11 {
		runC04CLI(ctx)
		return
	}
	if ctx.Idx%4 == 1 {
		variant := (ctx.Idx / 4) % 3
		s1, s2 := windowShapes(r, variant)
		c04Case(ctx, s1, s2, IngestCfg{}, IngestCfg{}, fmt.Sprintf("mode=window-shapes-%d", variant))
		return
	}
	if ctx.Idx%8 == 6 {
		runC04Received(ctx)
		return
	}
	maxBlocks := 2
	if ctx.Thorough() {
		maxBlocks = 4
	}
	nCols := 1 + r.Intn(3)
	pk := genPK(r, nCols)
	n := genRowCount(r, maxBlocks)
	s1 := GenTable(r, nCols, n, pk, 0)
	mode := r.Intn(6)
	s2 := mutateTable(r, s1, mode)
	if r.Intn(2) == 0 {
		s1, s2 = s2, s1
	}
	cfg := func() IngestCfg {
		c := IngestCfg{Workers: 1 + r.Intn(4)}
		if r.Intn(3) == 0 {
			c.RunSize = uint64(50 + r.Intn(4000))
		}
		return c
	}
	c04Case(ctx, s1, s2, cfg(), cfg(), fmt.Sprintf("mode=%d", mode))
}

func corpusC04(ctx *Ctx, op string, raw json.RawMessage) {
	var in c04Input
	if err := json.Unmarshal(raw, &in); err != nil {
		panic(err)
	}
	if in.S1 == nil || in.S2 == nil {
		return
	}
	if op == "diff-fault" {
		c04CorpusFault(ctx, raw)
		return
	}
	if op == "diff-cli" {
		ci := &c04CLIInput{S1: in.S1, S2: in.S2, New: hxRows(in.S1.Rows), Old: hxRows(in.S2.Rows)}
		var e struct {
			Earlier []c04Earlier `json:"earlier"`
		}
		json.Unmarshal(raw, &e)
		ci.Earlier = e.Earlier
		ctx.Emit("diff-cli", ci, c04CLIRun(in.S1, in.S2, ci.Earlier), true, "cli", "corpus")
		return
	}
	c04CaseVia(ctx, in.S1, in.S2, IngestCfg{}, IngestCfg{}, in.Via, "corpus")
}

// c04ReorderStore makes the workers of a multi-worker ingest finish out of offset order: the first
// block written is held back until another worker has written a block index (or, when no other worker
// ever does, for a short while), so the block that was cut first is the last to be recorded. The
// stored table must not depend on that order.
type c04ReorderStore struct {
	objects.Store
	mu      sync.Mutex
	blocks  int
	other   chan struct{}
	otherOn sync.Once
}

func (s *c04ReorderStore) Set(k, v []byte) error {
	switch {
	case bytes.HasPrefix(k, []byte("blk/")):
		s.mu.Lock()
		n := s.blocks
		s.blocks++
		s.mu.Unlock()
		if n == 0 {
			select {
			case <-s.other:
				time.Sleep(200 * time.Microsecond)
			case <-time.After(25 * time.Millisecond):
			}
		}
	case bytes.HasPrefix(k, []byte("blkidx/")):
		err := s.Store.Set(k, v)
		s.otherOn.Do(func() { close(s.other) })
		return err
	}
	return s.Store.Set(k, v)
}

// c04Reordering wraps the store for the ingest of a table of more than one block by more than one worker.
func c04Reordering(db objects.Store, s *TableSpec, cfg IngestCfg) objects.Store {
	if cfg.Workers < 2 || len(s.Rows) <= 255 {
		return db
	}
	return &c04ReorderStore{Store: db, other: make(chan struct{})}
}

// ---- additional case kinds ------------------------------------------------------------------------

// c04Rand: the random stream of an additional case of this index
func c04Rand(ctx *Ctx, salt int64) *rand.Rand {
	return rand.New(rand.NewSource(ctx.Seed*1000003 + int64(ctx.Idx) + salt))
}

// c04EdgeDupPair: a table whose keys are duplicated around its block edges (the copies differ in a
// non-key cell; the sorter keeps one row per key, so a dropped copy may be the first row seen after a
// block was cut, the last one before, or lie anywhere near), and a second table that starts at, just
// before or just after such a key - so that its first block begins exactly where a block of the first
// table ends or begins. shape: 0 single key column, 1 composite key, 2 no key (duplicates are then
// whole rows).
func c04EdgeDupPair(r *rand.Rand, k int, thorough bool) (*TableSpec, *TableSpec, []string) {
	const bs = 255
	shape := (k / 4) % 3
	maxBlocks := 2
	if thorough {
		maxBlocks = 4
	}
	nb := 1 + r.Intn(maxBlocks)
	n := nb*bs + 1 + r.Intn(bs-1) // nb full blocks and a partial one
	cols, pk := []string{"k", "v"}, []string{"k"}
	if shape == 1 {
		cols, pk = []string{"v", "g", "k"}, []string{"g", "k"}
	} else if shape == 2 {
		cols, pk = []string{"k", "v"}, nil
	}
	mkRow := func(i int, v string) []string {
		switch shape {
		case 1:
			return []string{v, fmt.Sprintf("r%d", i/200), fmt.Sprintf("%05d", i)}
		default:
			return []string{fmt.Sprintf("%05d", i), v}
		}
	}
	// ranks (0-based, in key order) of the keys that get copies: for every block edge e = b*255 one of
	// e-2, e-1 (the last key of a block), e (the first key of the next), e+1; k decides which so that every
	// offset comes up over the indices, and the other edges draw theirs
	a := &TableSpec{Columns: cols, PK: pk}
	dups := map[int]int{}
	for b := 1; b <= nb; b++ {
		off := []int{-1, 0, -2, 1}[k%4]
		if b > 1 {
			off = []int{-1, 0, -2, 1}[r.Intn(4)]
		}
		dups[b*bs+off] = 1 + r.Intn(2)
	}
	for _, i := range r.Perm(n) {
		a.Rows = append(a.Rows, mkRow(i, "x"))
	}
	for i, c := range dups {
		for j := 0; j < c; j++ {
			v := fmt.Sprintf("dup%d", j)
			if shape == 2 {
				v = "x" // without a key a duplicate is the same row again
			}
			pos := r.Intn(len(a.Rows) + 1)
			a.Rows = append(a.Rows[:pos], append([][]string{mkRow(i, v)}, a.Rows[pos:]...)...)
		}
	}
	// the other table: the rows from a start rank near a block edge of the first table onwards, a few of
	// them modified, and (every other time) a sparse prefix below
	e := (1 + r.Intn(nb)) * bs
	start := e + []int{-1, 0, -2, 1}[(k+k/12)%4]
	sparse := r.Intn(2) == 0
	b := &TableSpec{Columns: cols, PK: pk}
	for _, i := range r.Perm(n) {
		if i < start && !(sparse && i%41 == 7) {
			continue
		}
		v := "x"
		if i%89 == 5 && shape != 2 {
			v = "y"
		}
		b.Rows = append(b.Rows, mkRow(i, v))
	}
	tags := []string{"mode=edge-dup", fmt.Sprintf("edge-dup-shape=%d", shape)}
	if r.Intn(2) == 0 {
		return b, a, tags
	}
	return a, b, tags
}

func c04RunEdgeDup(ctx *Ctx) {
	r := c04Rand(ctx, 0x65646765)
	s1, s2, tags := c04EdgeDupPair(r, ctx.Idx/12, ctx.Thorough())
	cfg := IngestCfg{Workers: 1 + r.Intn(4)}
	if r.Intn(3) == 0 {
		cfg.RunSize = uint64(200 + r.Intn(4000))
	}
	c04Case(ctx, s1, s2, cfg, cfg, tags...)
}

// c04RunZeroRows: one side is a header-only table (zero rows, hence no block and an empty table
// index); the other has 1 row .. several blocks. Which side is empty alternates with the index.
func c04RunZeroRows(ctx *Ctx) {
	r := c04Rand(ctx, 0x7a65726f)
	k := ctx.Idx / 12
	maxBlocks := 2
	if ctx.Thorough() {
		maxBlocks = 4
	}
	nCols := 1 + r.Intn(3)
	pk := genPK(r, nCols)
	n := 1 + genRowCount(r, maxBlocks)
	if k%4 >= 2 {
		n = 1 + r.Intn(6)
	}
	full := GenTable(r, nCols, n, pk, 0)
	empty := &TableSpec{Columns: full.Columns, PK: full.PK}
	s1, s2 := full, empty
	if k%2 == 1 {
		s1, s2 = empty, full
	}
	c04Case(ctx, s1, s2, IngestCfg{}, IngestCfg{}, "mode=zero-rows-side")
}

// ---- diffs on a store that fails -------------------------------------------------------------------

// c04FaultStore fails reads of the store the differ works on.
//   mode "count": no fault; the keys read are recorded
//   mode "from":  read number K (0-based) and every later one fail (the store went away)
//   mode "once":  read number K alone fails (a transient error)
//   mode "lost":  every read of the key Key fails with ErrKeyNotFound (an object that was lost)
type c04FaultStore struct {
	objects.Store
	mu    sync.Mutex
	mode  string
	k     int
	key   string
	reads int
	keys  []string
	hit   bool
}

func (s *c04FaultStore) Get(key []byte) ([]byte, error) {
	s.mu.Lock()
	i := s.reads
	s.reads++
	var err error
	switch s.mode {
	case "count":
		s.keys = append(s.keys, string(key))
	case "from":
		if i >= s.k {
			err = fmt.Errorf("injected read failure")
		}
	case "once":
		if i == s.k {
			err = fmt.Errorf("injected read failure")
		}
	case "lost":
		if string(key) == s.key {
			err = objects.ErrKeyNotFound
		}
	}
	if err != nil {
		s.hit = true
	}
	s.mu.Unlock()
	if err != nil {
		return nil, err
	}
	return s.Store.Get(key)
}

type c04FaultInput struct {
	T1 *TableDump `json:"t1,omitempty"`
	T2 *TableDump `json:"t2,omitempty"`
	S1 *TableSpec `json:"s1,omitempty"`
	S2 *TableSpec `json:"s2,omitempty"`
	// Mode: "from" | "once" | "lost" (see c04FaultStore); the fault points are every read (every
	// distinct key read) of the clean diff of the pair, at most c04MaxFaultPoints of them, evenly spread
	// and always including the last
	Mode string `json:"mode"`
}

type c04FaultRun struct {
	// K: the failing read (from/once) or the position, among the distinct keys in the order the clean
	// diff first reads them, of the lost key
	K int `json:"k"`
	// Hit: the store did return the injected error
	Hit bool `json:"hit"`
	// Error: the differ reported an error on its error channel
	Error  bool     `json:"error"`
	Events []diffEv `json:"events"`
}

type c04FaultResult struct {
	Reads int           `json:"reads"` // store reads of the clean diff
	Clean []diffEv      `json:"clean"` // its events
	Runs  []c04FaultRun `json:"runs"`
}

const c04MaxFaultPoints = 8

// c04DiffOn runs the differ on db for both tables (tables and table indices are handed in, as every
// caller of DiffTables does) and drains it the way callers do: the diff channel to its end, then the
// error channel.
func c04DiffOn(db objects.Store, tbl1, tbl2 *objects.Table, idx1, idx2 [][]string) (evs []diffEv, reported bool, hung bool) {
	errCh := make(chan error, 10)
	ch, _ := diff.DiffTables(db, db, tbl1, tbl2, idx1, idx2, errCh, logr.Discard())
	evs = []diffEv{}
	timeout := hangAfter(60 * time.Second)
	for {
		select {
		case d, ok := <-ch:
			if !ok {
				select {
				case err := <-errCh:
					reported = err != nil
				default:
				}
				return
			}
			evs = append(evs, diffEv{PK: hx(d.PK), Sum: optHex(d.Sum), Off: d.Offset, OldSum: optHex(d.OldSum), OldOff: d.OldOffset})
		case <-timeout:
			return evs, false, true
		}
	}
}

func c04FaultPoints(n int) []int {
	if n <= c04MaxFaultPoints {
		ks := make([]int, n)
		for i := range ks {
			ks[i] = i
		}
		return ks
	}
	ks := []int{}
	for i := 0; i < c04MaxFaultPoints; i++ {
		ks = append(ks, i*(n-1)/(c04MaxFaultPoints-1))
	}
	return ks
}

func c04FaultCase(ctx *Ctx, s1, s2 *TableSpec, mode string, tags ...string) {
	in0 := &c04FaultInput{S1: s1, S2: s2, Mode: mode}
	if mode != "from" && mode != "once" && mode != "lost" {
		return
	}
	db := NewMemStore()
	sum1, err := IngestCSV(db, s1.CSV(0), s1.PK, IngestCfg{})
	if err != nil {
		ctx.Emit("diff-fault", in0, Err("ingest1"), false, "ingest-error")
		return
	}
	sum2, err := IngestCSV(db, s2.CSV(0), s2.PK, IngestCfg{})
	if err != nil {
		ctx.Emit("diff-fault", in0, Err("ingest2"), false, "ingest-error")
		return
	}
	d1, err1 := DumpTable(db, sum1, true)
	d2, err2 := DumpTable(db, sum2, true)
	if err1 != nil || err2 != nil {
		ctx.Emit("diff-fault", in0, Err("dump"), false, "dump-error")
		return
	}
	in := &c04FaultInput{T1: d1, T2: d2, S1: s1, S2: s2, Mode: mode}
	secondPass := false
	res := Guard(func() Res {
		tbl1, err := objects.GetTable(db, sum1)
		if err != nil {
			return Err("gettable")
		}
		tbl2, err := objects.GetTable(db, sum2)
		if err != nil {
			return Err("gettable")
		}
		idx1, err := objects.GetTableIndex(db, sum1)
		if err != nil {
			return Err("gettableindex")
		}
		idx2, err := objects.GetTableIndex(db, sum2)
		if err != nil {
			return Err("gettableindex")
		}
		clean := &c04FaultStore{Store: db, mode: "count"}
		evs, reported, hung := c04DiffOn(clean, tbl1, tbl2, idx1, idx2)
		if hung {
			return Err("hang")
		}
		if reported {
			return Err("differ-error")
		}
		out := &c04FaultResult{Reads: clean.reads, Clean: evs, Runs: []c04FaultRun{}}
		distinct := []string{}
		seen := map[string]bool{}
		for _, k := range clean.keys {
			if !seen[k] {
				seen[k] = true
				distinct = append(distinct, k)
			}
		}
		n := clean.reads
		if mode == "lost" {
			n = len(distinct)
		}
		for _, k := range c04FaultPoints(n) {
			fs := &c04FaultStore{Store: db, mode: mode, k: k}
			if mode == "lost" {
				fs.key = distinct[k]
			}
			evs, reported, hung := c04DiffOn(fs, tbl1, tbl2, idx1, idx2)
			if hung {
				return Err("hang")
			}
			if reported && len(evs) > 0 && evs[len(evs)-1].Sum == nil {
				secondPass = true
			}
			out.Runs = append(out.Runs, c04FaultRun{K: k, Hit: fs.hit, Error: reported, Events: evs})
		}
		return Ok(out)
	})
	tags = append(tags, "store-fault="+mode, fmt.Sprintf("blocks=%d/%d", len(d1.Blocks), len(d2.Blocks)))
	if secondPass {
		tags = append(tags, "fault-after-removed-rows-were-reported")
	}
	ctx.Emit("diff-fault", in, res, len(d1.Blocks)+len(d2.Blocks) >= 2, tags...)
}

// c04RunFault: the pairs of the other cases (window shapes, a table and its mutation), diffed on a
// store that fails; the fault mode rotates with the index.
func c04RunFault(ctx *Ctx) {
	r := c04Rand(ctx, 0x6661756c)
	k := ctx.Idx / 12
	mode := []string{"from", "lost", "once"}[k%3]
	var s1, s2 *TableSpec
	var tag string
	if (k/3)%2 == 0 {
		variant := (k / 6) % 3
		s1, s2 = windowShapes(r, variant)
		tag = fmt.Sprintf("mode=window-shapes-%d", variant)
	} else {
		maxBlocks := 2
		if ctx.Thorough() {
			maxBlocks = 4
		}
		nCols := 1 + r.Intn(3)
		pk := genPK(r, nCols)
		s1 = GenTable(r, nCols, 1+genRowCount(r, maxBlocks), pk, 0)
		m := []int{2, 3, 4, 5}[r.Intn(4)]
		s2 = mutateTable(r, s1, m)
		if r.Intn(2) == 0 {
			s1, s2 = s2, s1
		}
		tag = fmt.Sprintf("mode=%d", m)
	}
	c04FaultCase(ctx, s1, s2, mode, tag)
}

func c04CorpusFault(ctx *Ctx, raw json.RawMessage) {
	var in c04FaultInput
	if err := json.Unmarshal(raw, &in); err != nil {
		panic(err)
	}
	if in.S1 == nil || in.S2 == nil {
		return
	}
	c04FaultCase(ctx, in.S1, in.S2, in.Mode, "corpus")
}
