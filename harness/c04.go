package main

import (
	"encoding/json"
	"fmt"
	"math/rand"
	"time"

	"github.com/go-logr/logr"
	"github.com/wrgl/wrgl/pkg/diff"
	"github.com/wrgl/wrgl/pkg/objects"
)

func init() {
	runners["C04"] = runC04
	corpusRunners["C04"] = corpusC04
}

type c04Input struct {
	T1 *TableDump `json:"t1"`
	T2 *TableDump `json:"t2"`
	// Specs are kept so that a corpus entry can be re-ingested
	S1 *TableSpec `json:"s1,omitempty"`
	S2 *TableSpec `json:"s2,omitempty"`
	// Via: how the tables reached the store they are diffed in (absent = ingested there)
	Via *c04Via `json:"via,omitempty"`
}

type diffEv struct {
	PK     string  `json:"pk"`
	Sum    *string `json:"sum"`
	Off    uint32  `json:"off"`
	OldSum *string `json:"oldSum"`
	OldOff uint32  `json:"oldOff"`
}

func optHex(b []byte) *string {
	if b == nil {
		return nil
	}
	s := hx(b)
	return &s
}

func runDiff(db1, db2 objects.Store, sum1, sum2 []byte) Res {
	return Guard(func() Res {
		tbl1, err := objects.GetTable(db1, sum1)
		if err != nil {
			return Err("gettable")
		}
		tbl2, err := objects.GetTable(db2, sum2)
		if err != nil {
			return Err("gettable")
		}
		idx1, err := objects.GetTableIndex(db1, sum1)
		if err != nil {
			return Err("gettableindex")
		}
		idx2, err := objects.GetTableIndex(db2, sum2)
		if err != nil {
			return Err("gettableindex")
		}
		errCh := make(chan error, 10)
		ch, _ := diff.DiffTables(db1, db2, tbl1, tbl2, idx1, idx2, errCh, logr.Discard())
		evs := []diffEv{}
		timeout := hangAfter(60 * time.Second)
	loop:
		for {
			select {
			case d, ok := <-ch:
				if !ok {
					break loop
				}
				evs = append(evs, diffEv{PK: hx(d.PK), Sum: optHex(d.Sum), Off: d.Offset, OldSum: optHex(d.OldSum), OldOff: d.OldOffset})
			case <-timeout:
				return Err("hang")
			}
		}
		select {
		case err := <-errCh:
			if err != nil {
				return Err("differ-error")
			}
		default:
		}
		return Ok(evs)
	})
}

// mutateTable derives a second table from the first.
func mutateTable(r *rand.Rand, t *TableSpec, mode int) *TableSpec {
	pk := t.PKIdx()
	iskey := map[int]bool{}
	for _, p := range pk {
		iskey[p] = true
	}
	out := &TableSpec{Columns: t.Columns, PK: t.PK}
	cp := func(row []string) []string { return append([]string{}, row...) }
	switch mode {
	case 0: // identical
		for _, row := range t.Rows {
			out.Rows = append(out.Rows, cp(row))
		}
	case 1: // empty
	case 2: // random edits
		pDel := r.Float64() * 0.3
		pMod := r.Float64() * 0.3
		for _, row := range t.Rows {
			x := r.Float64()
			if x < pDel {
				continue
			}
			nr := cp(row)
			if x < pDel+pMod {
				// modify a non-key cell (if there is one; a keyless table changes identity instead)
				c := r.Intn(len(nr))
				if !iskey[c] || len(pk) == 0 {
					nr[c] = nr[c] + "~"
				}
			}
			out.Rows = append(out.Rows, nr)
		}
		nAdd := r.Intn(1 + len(t.Rows)/4 + 3)
		for i := 0; i < nAdd; i++ {
			nr := make([]string, len(t.Columns))
			for c := range nr {
				nr[c] = genCell(r)
			}
			kc := pk
			if len(kc) == 0 {
				kc = []int{0}
			}
			// new keys interleave with the existing 4-digit keys or lie beyond them
			nr[kc[0]] = fmt.Sprintf("%04d%c", r.Intn(len(t.Rows)+50), 'a'+rune(r.Intn(3)))
			out.Rows = append(out.Rows, nr)
		}
	case 3: // nested middle slice
		n := len(t.Rows)
		if n > 0 {
			// rows are in random order; take those whose first key falls in the middle range
			lo, hi := n/3, 2*n/3
			kc := pk
			if len(kc) == 0 {
				kc = []int{0}
			}
			for _, row := range t.Rows {
				var v int
				fmt.Sscanf(row[kc[0]], "%d", &v)
				if len(kc) > 1 {
					var w int
					fmt.Sscanf(row[kc[1]], "%d", &w)
					v = v*37 + w
				}
				if v >= lo && v < hi {
					out.Rows = append(out.Rows, cp(row))
				}
			}
		}
	case 4: // disjoint: shift every key
		kc := pk
		if len(kc) == 0 {
			kc = []int{0}
		}
		pre := []string{"!", "~"}[r.Intn(2)]
		for _, row := range t.Rows {
			nr := cp(row)
			nr[kc[0]] = pre + nr[kc[0]]
			out.Rows = append(out.Rows, nr)
		}
	case 5: // keys clustered at block edges: drop one row near each 255 boundary
		for i, row := range t.Rows {
			var v int
			kc := pk
			if len(kc) == 0 {
				kc = []int{0}
			}
			fmt.Sscanf(row[kc[0]], "%d", &v)
			_ = i
			if len(kc) == 1 && (v%255 == 254 || v%255 == 0) && r.Intn(2) == 0 {
				continue
			}
			out.Rows = append(out.Rows, cp(row))
		}
	}
	return out
}

func c04Case(ctx *Ctx, s1, s2 *TableSpec, cfg1, cfg2 IngestCfg, tags ...string) {
	c04CaseVia(ctx, s1, s2, cfg1, cfg2, nil, tags...)
}

// c04Via says where the diffed tables come from: ingested in the store they are diffed in (nil), or
// ingested in an origin store and received through the real packfile sender/receiver into the store
// they are diffed in - so their table index and block indices are the ones the receiver rebuilt.
type c04Via struct {
	Xfer Xfer `json:"xfer"`
	// Recv1/Recv2: is the first/second table a received one (the other is ingested locally)
	Recv1 bool `json:"recv1"`
	Recv2 bool `json:"recv2"`
}

func c04CaseVia(ctx *Ctx, s1, s2 *TableSpec, cfg1, cfg2 IngestCfg, via *c04Via, tags ...string) {
	db := NewMemStore()
	origin := objects.Store(db)
	if via != nil {
		origin = NewMemStore()
	}
	at := func(received bool) objects.Store {
		if via != nil && received {
			return origin
		}
		return db
	}
	in0 := c04Input{S1: s1, S2: s2, Via: via}
	sum1, err := IngestCSV(at(via != nil && via.Recv1), s1.CSV(0), s1.PK, cfg1)
	if err != nil {
		ctx.Emit("diff", in0, Err("ingest1"), false, "ingest-error")
		return
	}
	sum2, err := IngestCSV(at(via != nil && via.Recv2), s2.CSV(0), s2.PK, cfg2)
	if err != nil {
		ctx.Emit("diff", in0, Err("ingest2"), false, "ingest-error")
		return
	}
	if via != nil {
		var sums [][]byte
		// the second (old) version travels first, as history does
		if via.Recv2 {
			sums = append(sums, sum2)
		}
		if via.Recv1 && !(via.Recv2 && string(sum1) == string(sum2)) {
			sums = append(sums, sum1)
		}
		var terr error
		res := Guard(func() Res {
			terr = transferTables(origin, db, sums, via.Xfer)
			return nil
		})
		if res != nil || terr != nil {
			if res == nil {
				res = Err("transfer")
			}
			ctx.Emit("diff", in0, res, false, "transfer-error")
			return
		}
	}
	d1, err1 := DumpTable(db, sum1, true)
	d2, err2 := DumpTable(db, sum2, true)
	if err1 != nil || err2 != nil {
		ctx.Emit("diff", in0, Err("dump"), false, "dump-error")
		return
	}
	res := runDiff(db, db, sum1, sum2)
	nt := len(d1.Blocks) == 0 || len(d2.Blocks) == 0 || len(d1.Blocks) >= 2 || len(d2.Blocks) >= 2
	if res["res"] == "ok" {
		evs := res["val"].([]diffEv)
		a, rm, m := 0, 0, 0
		for _, e := range evs {
			switch {
			case e.Sum != nil && e.OldSum != nil:
				m++
			case e.Sum != nil:
				a++
			default:
				rm++
			}
		}
		if a > 0 && rm > 0 && m > 0 {
			nt = true
		}
	}
	tags = append(tags, fmt.Sprintf("blocks=%d/%d", len(d1.Blocks), len(d2.Blocks)))
	if len(d1.Blocks) == 0 || len(d2.Blocks) == 0 {
		tags = append(tags, "empty-side")
	}
	if len(s1.PK) == 0 {
		tags = append(tags, "keyless")
	}
	ctx.Emit("diff", c04Input{T1: d1, T2: d2, S1: s1, S2: s2, Via: via}, res, nt, tags...)
}

// windowShapes: two keyed tables of several blocks whose block boundaries relate in varied ways
// (one block of a table spanning several of the other's, nested tails, dense prefix + sparse tail).
//
// variant 1: a composite key (g,k) whose first column takes 1..4 values, so that block boundaries
// fall where the first key column ties and only the second decides; variant 2: the same rows
// without a primary key (the whole row is the key).
func windowShapes(r *rand.Rand, variant int) (*TableSpec, *TableSpec) {
	k := 520 + r.Intn(700)
	regions := 1 + r.Intn(4)
	mk := func(keep func(i int) bool, mod func(i int) bool) *TableSpec {
		t := &TableSpec{Columns: []string{"k", "v"}, PK: []string{"k"}}
		if variant == 1 {
			t = &TableSpec{Columns: []string{"g", "k", "v"}, PK: []string{"g", "k"}}
		} else if variant == 2 {
			t = &TableSpec{Columns: []string{"g", "k", "v"}, PK: nil}
		}
		for _, i := range r.Perm(k) {
			if !keep(i) {
				continue
			}
			v := "x"
			if mod(i) {
				v = "y"
			}
			if variant == 0 {
				t.Rows = append(t.Rows, []string{fmt.Sprintf("%05d", i), v})
			} else {
				t.Rows = append(t.Rows, []string{fmt.Sprintf("r%d", i*regions/k), fmt.Sprintf("%05d", i), v})
			}
		}
		return t
	}
	never := func(int) bool { return false }
	all := func(int) bool { return true }
	t1 := mk(all, never)
	var t2 *TableSpec
	m := []int{2, 3, 5, 7, 11}[r.Intn(5)]
	cut := r.Intn(k)
	someMod := func(i int) bool { return i%97 == 13 }
	switch r.Intn(5) {
	case 0: // sparse subset
		t2 = mk(func(i int) bool { return i%m == 0 }, someMod)
	case 1: // dense prefix, sparse tail
		t2 = mk(func(i int) bool { return i < cut || i%m == 0 }, someMod)
	case 2: // sparse prefix, dense tail
		t2 = mk(func(i int) bool { return i >= cut || i%m == 0 }, someMod)
	case 3: // a nested tail
		t2 = mk(func(i int) bool { return i >= k-(100+r.Intn(300)) }, someMod)
	default: // a gap in the middle
		w := 100 + r.Intn(300)
		t2 = mk(func(i int) bool { return i < cut || i >= cut+w }, someMod)
	}
	if r.Intn(2) == 0 {
		return t2, t1
	}
	return t1, t2
}

// runC04Received: the diff of tables that arrived over the wire (one or both sides). The pairs are the
// ones of the other cases - window shapes on even turns, a generated table and its mutation on odd
// turns - with the columns of both tables shuffled the same way, so that the key sits in any columns
// in any order.
func runC04Received(ctx *Ctx) {
	r := ctx.R
	k := ctx.Idx / 8
	var s1, s2 *TableSpec
	var tag string
	if k%2 == 0 {
		variant := (k / 2) % 3
		s1, s2 = windowShapes(r, variant)
		tag = fmt.Sprintf("mode=window-shapes-%d", variant)
	} else {
		maxBlocks := 2
		if ctx.Thorough() {
			maxBlocks = 4
		}
		nCols := 1 + r.Intn(3)
		pk := genPK(r, nCols)
		s1 = GenTable(r, nCols, genRowCount(r, maxBlocks), pk, 0)
		mode := r.Intn(6)
		s2 = mutateTable(r, s1, mode)
		if r.Intn(2) == 0 {
			s1, s2 = s2, s1
		}
		tag = fmt.Sprintf("mode=%d", mode)
	}
	tags := []string{tag, "received"}
	if r.Intn(4) != 0 {
		shuffleColumns(r, s1, s2)
		tags = append(tags, "columns-shuffled")
	}
	if !keyLeading(s1) {
		tags = append(tags, "key-not-leading")
	}
	via := &c04Via{Xfer: genXfer(r), Recv1: true, Recv2: true}
	switch r.Intn(4) {
	case 0:
		via.Recv1 = false
		tags = append(tags, "received-vs-local")
	case 1:
		via.Recv2 = false
		tags = append(tags, "received-vs-local")
	}
	tags = append(tags, via.Xfer.tags()...)
	c04CaseVia(ctx, s1, s2, IngestCfg{}, IngestCfg{}, via, tags...)
}

func runC04(ctx *Ctx) {
	r := ctx.R
	if ctx.Idx%12 == 11 {
		runC04CLI(ctx)
		return
	}
	if ctx.Idx%4 == 1 {
		variant := (ctx.Idx / 4) % 3
		s1, s2 := windowShapes(r, variant)
		c04Case(ctx, s1, s2, IngestCfg{}, IngestCfg{}, fmt.Sprintf("mode=window-shapes-%d", variant))
		return
	}
	if ctx.Idx%8 == 6 {
		runC04Received(ctx)
		return
	}
	maxBlocks := 2
	if ctx.Thorough() {
		maxBlocks = 4
	}
	nCols := 1 + r.Intn(3)
	pk := genPK(r, nCols)
	n := genRowCount(r, maxBlocks)
	s1 := GenTable(r, nCols, n, pk, 0)
	mode := r.Intn(6)
	s2 := mutateTable(r, s1, mode)
	if r.Intn(2) == 0 {
		s1, s2 = s2, s1
	}
	cfg := func() IngestCfg {
		c := IngestCfg{Workers: 1 + r.Intn(4)}
		if r.Intn(3) == 0 {
			c.RunSize = uint64(50 + r.Intn(4000))
		}
		return c
	}
	c04Case(ctx, s1, s2, cfg(), cfg(), fmt.Sprintf("mode=%d", mode))
}

func corpusC04(ctx *Ctx, op string, raw json.RawMessage) {
	var in c04Input
	if err := json.Unmarshal(raw, &in); err != nil {
		panic(err)
	}
	if in.S1 == nil || in.S2 == nil {
		return
	}
	if op == "diff-cli" {
		ci := &c04CLIInput{S1: in.S1, S2: in.S2, New: hxRows(in.S1.Rows), Old: hxRows(in.S2.Rows)}
		ctx.Emit("diff-cli", ci, c04CLIRun(in.S1, in.S2), true, "cli", "corpus")
		return
	}
	c04CaseVia(ctx, in.S1, in.S2, IngestCfg{}, IngestCfg{}, in.Via, "corpus")
}
