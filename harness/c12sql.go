package main

// A fault-injecting database/sql driver around the real SQLite driver, for the ref store of C12:
// while armed, the scan of any result set fails with "disk I/O error" once k rows have been
// delivered (and keeps failing: a broken disk stays broken until it is disarmed). Everything else
// is the real driver's behaviour.

import (
	"context"
	"database/sql"
	"database/sql/driver"
	"errors"
	"fmt"
	"sync"
	"time"

	sqlite3 "github.com/mattn/go-sqlite3"
	"github.com/wrgl/wrgl/pkg/ref"
	refsql "github.com/wrgl/wrgl/pkg/ref/sql"
)

type rowFault struct {
	mu    sync.Mutex
	armed bool
	left  int
	hits  int
}

var c12RowFault rowFault

func (f *rowFault) arm(k int) {
	f.mu.Lock()
	defer f.mu.Unlock()
	f.armed, f.left, f.hits = true, k, 0
}

// disarm returns how many row reads were failed since arm.
func (f *rowFault) disarm() int {
	f.mu.Lock()
	defer f.mu.Unlock()
	f.armed = false
	return f.hits
}

func (f *rowFault) next() error {
	f.mu.Lock()
	defer f.mu.Unlock()
	if !f.armed {
		return nil
	}
	if f.left <= 0 {
		f.hits++
		return errors.New("disk I/O error")
	}
	f.left--
	return nil
}

type faultDriver struct{ inner sqlite3.SQLiteDriver }

func (d *faultDriver) Open(dsn string) (driver.Conn, error) {
	c, err := d.inner.Open(dsn)
	if err != nil {
		return nil, err
	}
	return &faultConn{c.(*sqlite3.SQLiteConn)}, nil
}

type faultConn struct{ *sqlite3.SQLiteConn }

func wrapRows(r driver.Rows, err error) (driver.Rows, error) {
	if err != nil || r == nil {
		return r, err
	}
	if sr, ok := r.(*sqlite3.SQLiteRows); ok {
		return &faultRows{sr}, nil
	}
	return &faultRowsAny{r}, nil
}

func wrapStmt(s driver.Stmt, err error) (driver.Stmt, error) {
	if err != nil || s == nil {
		return s, err
	}
	if ss, ok := s.(*sqlite3.SQLiteStmt); ok {
		return &faultStmt{ss}, nil
	}
	return s, nil
}

func (c *faultConn) QueryContext(ctx context.Context, query string, args []driver.NamedValue) (driver.Rows, error) {
	return wrapRows(c.SQLiteConn.QueryContext(ctx, query, args))
}
func (c *faultConn) Query(query string, args []driver.Value) (driver.Rows, error) {
	return wrapRows(c.SQLiteConn.Query(query, args))
}
func (c *faultConn) Prepare(query string) (driver.Stmt, error) {
	return wrapStmt(c.SQLiteConn.Prepare(query))
}
func (c *faultConn) PrepareContext(ctx context.Context, query string) (driver.Stmt, error) {
	return wrapStmt(c.SQLiteConn.PrepareContext(ctx, query))
}

type faultStmt struct{ *sqlite3.SQLiteStmt }

func (s *faultStmt) Query(args []driver.Value) (driver.Rows, error) {
	return wrapRows(s.SQLiteStmt.Query(args))
}
func (s *faultStmt) QueryContext(ctx context.Context, args []driver.NamedValue) (driver.Rows, error) {
	return wrapRows(s.SQLiteStmt.QueryContext(ctx, args))
}

type faultRows struct{ *sqlite3.SQLiteRows }

func (r *faultRows) Next(dest []driver.Value) error {
	if err := c12RowFault.next(); err != nil {
		return err
	}
	return r.SQLiteRows.Next(dest)
}

type faultRowsAny struct{ driver.Rows }

func (r *faultRowsAny) Next(dest []driver.Value) error {
	if err := c12RowFault.next(); err != nil {
		return err
	}
	return r.Rows.Next(dest)
}

func init() {
	sql.Register("sqlite3-c12fault", &faultDriver{})
}

var c12FaultStoreCounter int

// newC12FaultRefStore: the real SQL ref store of wrgl on an in-memory SQLite database reached
// through the fault-injecting driver.
func newC12FaultRefStore() (ref.Store, func()) {
	c12FaultStoreCounter++
	db, err := sql.Open("sqlite3-c12fault", fmt.Sprintf("file:verifc12f%d_%d.db?cache=shared&mode=memory", time.Now().UnixNano(), c12FaultStoreCounter))
	if err != nil {
		panic(err)
	}
	for _, stmt := range refsql.CreateTableStmts {
		if _, err := db.Exec(stmt); err != nil {
			panic(err)
		}
	}
	return refsql.NewStore(db), func() { db.Close() }
}
