package main

import (
	"bytes"
	"encoding/csv"
	"encoding/json"
	"fmt"
	"io"
	"math/rand"
	"os"
	"path/filepath"
	"reflect"
	"strings"
	"time"

	"github.com/wrgl/wrgl/pkg/objects"
	"github.com/wrgl/wrgl/pkg/sorter"
)

func init() {
	runners["C19"] = runC19
	corpusRunners["C19"] = corpusC19
}

type c19Input struct {
	NCols   int        `json:"ncols"`
	PK      []int      `json:"pk"`
	Removed []int      `json:"removed"`
	RunSize uint64     `json:"runSize"`
	Rows    [][]string `json:"rows"` // hex cells
	// Via "sortfile": the rows reach the sorter as a CSV file through Sorter.SortFile(file, key column
	// NAMES) — the way `wrgl commit` and ingest.IngestTable load it — instead of SetColumns + PK + AddRow.
	// Rows are then what encoding/csv reads back from the file (c19CSVFix).
	Via string `json:"via,omitempty"`
	// BadLen > 0 (op sort-fault): while rows BadFrom <= i < BadFrom+BadLen are added no spill file can
	// be created (TMPDIR names a directory that does not exist), so every spill attempted there makes
	// AddRow return an error; the caller carries on with the next row, as ingest.reingestTable and the
	// doctor's resolver do.
	BadFrom int `json:"badFrom,omitempty"`
	BadLen  int `json:"badLen,omitempty"`
}

type c19Block struct {
	Offset int        `json:"offset"`
	PK     []string   `json:"pk"`
	Rows   [][]string `json:"rows"`
}

// privateTmp is this process's own scratch directory (TMPDIR points at it, so the sorter's spill
// files land there and can be counted). It is created below VERIF_TMP_ROOT, which ./check removes
// when the run ends.
func privateTmp() string {
	d := os.Getenv("VERIF_TMP")
	if d == "" {
		d, _ = os.MkdirTemp(os.Getenv("VERIF_TMP_ROOT"), "verif-w-")
		os.Setenv("VERIF_TMP", d)
		os.Setenv("TMPDIR", d)
	}
	return d
}

func countFiles(dir string) int {
	es, err := os.ReadDir(dir)
	if err != nil {
		return -1
	}
	return len(es)
}

func c19ColNames(n int) []string {
	cols := make([]string, n)
	for i := range cols {
		cols[i] = string(rune('a' + i))
	}
	return cols
}

// c19CSV writes header + rows with encoding/csv.
func c19CSV(ncols int, rows [][]string) []byte {
	buf := bytes.NewBuffer(nil)
	w := csv.NewWriter(buf)
	w.Write(c19ColNames(ncols))
	for _, r := range rows {
		w.Write(r)
	}
	w.Flush()
	return buf.Bytes()
}

// c19CSVFix returns the rows a plain encoding/csv reader finds in the file written from rows, repeated
// until writing and re-reading changes nothing (the reader turns CR LF inside a quoted cell into LF and
// skips the empty line a single empty cell is written as: the tokeniser is not what C19 is about).
// ok is false when the file cannot be read back at all.
func c19CSVFix(ncols int, rows [][]string) ([][]string, bool) {
	for i := 0; i < 8; i++ {
		r := csv.NewReader(bytes.NewReader(c19CSV(ncols, rows)))
		all, err := r.ReadAll()
		if err != nil || len(all) == 0 {
			return nil, false
		}
		got := all[1:]
		if len(got) == len(rows) && (len(got) == 0 || reflect.DeepEqual(got, rows)) {
			return got, true
		}
		rows = got
	}
	return nil, false
}

// c19BadTmp is a directory name below the private scratch directory that never exists.
func c19BadTmp() string { return filepath.Join(privateTmp(), "removed", "tmp") }

// newFilledSorter loads the rows into a new sorter. failed lists the indices of the rows whose AddRow
// returned an error while spill files could not be created (in.BadLen > 0); any other AddRow error
// ends the load.
func newFilledSorter(in *c19Input, rows [][]string) (s *sorter.Sorter, failed []int, err error) {
	s, err = sorter.NewSorter(sorter.WithRunSize(in.RunSize))
	if err != nil {
		return nil, nil, err
	}
	failed = []int{}
	if in.Via == "sortfile" {
		pk := make([]string, len(in.PK))
		cols := c19ColNames(in.NCols)
		for i, p := range in.PK {
			pk[i] = cols[p]
		}
		if err := s.SortFile(io.NopCloser(bytes.NewReader(c19CSV(in.NCols, rows))), pk); err != nil {
			s.Close()
			return nil, nil, err
		}
		return s, failed, nil
	}
	s.SetColumns(c19ColNames(in.NCols))
	s.PK = make([]uint32, len(in.PK))
	for i, p := range in.PK {
		s.PK[i] = uint32(p)
	}
	good := privateTmp()
	defer os.Setenv("TMPDIR", good)
	for i, r := range rows {
		bad := in.BadLen > 0 && i >= in.BadFrom && i < in.BadFrom+in.BadLen
		if bad {
			os.Setenv("TMPDIR", c19BadTmp())
		} else {
			os.Setenv("TMPDIR", good)
		}
		if err := s.AddRow(r); err != nil {
			if bad {
				failed = append(failed, i)
				continue
			}
			s.Close()
			return nil, nil, err
		}
	}
	return s, failed, nil
}

func c19Run(in *c19Input) Res {
	rows := make([][]string, len(in.Rows))
	for i, r := range in.Rows {
		rows[i] = unhexStrs(r)
	}
	tmp := privateTmp()
	before := countFiles(tmp)
	return Guard(func() Res {
		removed := map[int]struct{}{}
		for _, c := range in.Removed {
			removed[c] = struct{}{}
		}
		if len(in.Removed) == 0 {
			removed = nil
		}
		out := map[string]interface{}{}
		// blocks
		s1, failed1, err := newFilledSorter(in, rows)
		if err != nil {
			return Err("addrow")
		}
		spilled := countFiles(tmp) - before
		errCh := make(chan error, 4)
		ctx, cancel := ctxHangAfter(60*time.Second)
		defer cancel()
		blocks := []c19Block{}
		for b := range s1.SortedBlocks(ctx, removed, errCh) {
			_, rs, err := objects.ReadBlockFrom(bytes.NewReader(b.Block))
			if err != nil {
				return Err("block-decode")
			}
			if len(rs) != b.RowsCount {
				return Err("block-rowscount")
			}
			blocks = append(blocks, c19Block{Offset: b.Offset, PK: hxRow(b.PK), Rows: hxRows(rs)})
		}
		select {
		case e := <-errCh:
			return Err(fmt.Sprintf("sorted-blocks: %v", e))
		default:
		}
		if ctx.Err() != nil {
			return Err("hang")
		}
		if err := s1.Close(); err != nil {
			return Err("close")
		}
		out["blocks"] = blocks
		// rows
		s2, failed2, err := newFilledSorter(in, rows)
		if err != nil {
			return Err("addrow")
		}
		rowBlocks := [][][]string{}
		offs := []int{}
		for rb := range s2.SortedRows(ctx, removed, errCh) {
			rowBlocks = append(rowBlocks, hxRows(rb.Rows))
			offs = append(offs, rb.Offset)
		}
		select {
		case e := <-errCh:
			return Err(fmt.Sprintf("sorted-rows: %v", e))
		default:
		}
		if err := s2.Close(); err != nil {
			return Err("close")
		}
		out["rowBlocks"] = rowBlocks
		out["rowOffsets"] = offs
		out["spilled"] = spilled
		out["leftover"] = countFiles(tmp) - before
		if in.BadLen > 0 {
			out["failed"] = failed1
			out["failedRows"] = failed2
		}
		return Ok(out)
	})
}

func genC19(r *rand.Rand, thorough bool) *c19Input {
	in := &c19Input{NCols: 1 + r.Intn(4)}
	in.PK = genPK(r, in.NCols)
	in.Removed = []int{}
	if r.Intn(3) == 0 {
		for c := 0; c < in.NCols; c++ {
			if r.Intn(3) == 0 {
				in.Removed = append(in.Removed, c)
			}
		}
		if len(in.Removed) == in.NCols {
			in.Removed = in.Removed[:len(in.Removed)-1]
		}
	}
	maxBlocks := 2
	if thorough {
		maxBlocks = 4
	}
	n := genRowCount(r, maxBlocks)
	mode := r.Intn(3)
	if n > 300 {
		mode = 0
	}
	t := GenTable(r, in.NCols, n, in.PK, mode)
	if len(in.PK) == 0 && r.Intn(2) == 0 {
		// keyless: the whole row is the key. A tiny alphabet with the empty cell makes rows tie on every
		// column but the last, across spilled runs
		for _, row := range t.Rows {
			for c := range row {
				row[c] = []string{"", "a", "b", "a"}[r.Intn(4)]
			}
		}
	}
	if r.Intn(3) == 0 && len(t.Rows) > 0 {
		// duplicate some rows' keys (different content) at random places, incl. across block/chunk edges
		k := 1 + r.Intn(5)
		for i := 0; i < k; i++ {
			src := t.Rows[r.Intn(len(t.Rows))]
			d := append([]string{}, src...)
			iskey := map[int]bool{}
			for _, p := range in.PK {
				iskey[p] = true
			}
			for c := range d {
				if !iskey[c] && len(in.PK) > 0 {
					d[c] = genCell(r)
				}
			}
			pos := r.Intn(len(t.Rows) + 1)
			t.Rows = append(t.Rows[:pos], append([][]string{d}, t.Rows[pos:]...)...)
		}
	}
	if r.Intn(4) == 0 && len(t.Rows) > 0 {
		// an all-empty key / all-empty row
		e := make([]string, in.NCols)
		if len(in.PK) > 0 {
			for c := range e {
				e[c] = genCell(r)
			}
			for _, p := range in.PK {
				e[p] = ""
			}
		}
		pos := r.Intn(len(t.Rows) + 1)
		t.Rows = append(t.Rows[:pos], append([][]string{e}, t.Rows[pos:]...)...)
	}
	in.Rows = hxRows(t.Rows)
	total := 0
	for _, row := range t.Rows {
		total += 4
		for _, c := range row {
			total += len(c) + 2
		}
	}
	switch r.Intn(4) {
	case 0:
		in.RunSize = 1 << 40 // nothing spills
	case 1:
		in.RunSize = 1 // every row spills
	default:
		k := 1 + r.Intn(6)
		in.RunSize = uint64(total/k + 1)
	}
	return in
}

func c19Emit(ctx *Ctx, in *c19Input, tags ...string) {
	op := "sort"
	if in.Via == "sortfile" {
		rows := make([][]string, len(in.Rows))
		for i, r := range in.Rows {
			rows[i] = unhexStrs(r)
		}
		fixed, ok := c19CSVFix(in.NCols, rows)
		if !ok {
			return
		}
		in.Rows = hxRows(fixed)
		if in.Rows == nil {
			in.Rows = [][]string{}
		}
		tags = append(tags, "sortfile")
		if len(in.PK) > 0 && in.PK[0] != 0 {
			tags = append(tags, "sortfile-key-not-leading")
		}
	}
	if in.BadLen > 0 {
		op = "sort-fault"
		tags = append(tags, "spill-fault")
	}
	res := c19Run(in)
	nt := len(in.Rows) > 255
	if res["res"] == "ok" {
		v := res["val"].(map[string]interface{})
		if sp, ok := v["spilled"].(int); ok && sp > 0 {
			nt = true
			tags = append(tags, fmt.Sprintf("spilled=%d", min(sp, 9)))
		}
	}
	if len(in.PK) == 0 {
		tags = append(tags, "keyless")
	}
	if len(in.PK) > 1 {
		tags = append(tags, "composite")
	}
	if len(in.Removed) > 0 {
		tags = append(tags, "removed-cols")
	}
	if in.BadLen > 0 && res["res"] == "ok" {
		if f, ok := res["val"].(map[string]interface{})["failed"].([]int); ok {
			tags = append(tags, fmt.Sprintf("failed-spills=%d", min(len(f), 5)))
			nt = nt || len(f) > 0
		}
	}
	ctx.Emit(op, in, res, nt, tags...)
}

// c19Total is the size AddRow accounts for the rows (hex cells).
func c19Total(rows [][]string) int {
	total := 0
	for _, row := range rows {
		total += 4
		for _, c := range row {
			total += len(c)/2 + 2
		}
	}
	return total
}

// c19WithFault: the rows of `in` loaded while, for a stretch of rows, no spill file can be created.
// The run size is small enough for 2..9 spills (or one per row), the stretch long enough to hold 0..3
// spill attempts; it may start at the first row and end after the last.
func c19WithFault(r *rand.Rand, in *c19Input) *c19Input {
	n := len(in.Rows)
	if n == 0 {
		return nil
	}
	f := *in
	f.Via = ""
	k := 2 + r.Intn(8)
	f.RunSize = uint64(c19Total(in.Rows)/k + 1)
	perSpill := n/k + 1
	if r.Intn(5) == 0 {
		f.RunSize = 1
		perSpill = 1
	}
	f.BadFrom = r.Intn(n)
	f.BadLen = 1 + r.Intn(3*perSpill)
	if r.Intn(4) == 0 {
		f.BadFrom = 0
	}
	return &f
}

// c19IngestError: an ingest that fails after runs have been spilled (a record with the wrong number
// of fields at the end of the file) must still remove its spill files.
func c19IngestError(ctx *Ctx) {
	r := ctx.R
	n := 200 + r.Intn(400)
	t := GenTable(r, 2, n, []int{0}, 0)
	csv := append(t.CSV(0), []byte("only-one-field\n")...)
	runSize := uint64(1024 + r.Intn(4096))
	tmp := privateTmp()
	before := countFiles(tmp)
	res := Guard(func() Res {
		db := NewMemStore()
		_, err := IngestCSV(db, csv, t.PK, IngestCfg{RunSize: runSize})
		return Ok(map[string]interface{}{"errored": err != nil, "leftover": countFiles(tmp) - before})
	})
	ctx.Emit("ingest-error", map[string]interface{}{"rows": n, "runSize": runSize}, res, true, "ingest-error")
}

// genC19Limit: few rows, with one to three cells at the length limit of the row encoding (65533,
// 65534, 65535 bytes; sometimes 65536, which AddRow must refuse), placed in removed, kept and key
// columns. The block output cuts removed cells out of the ENCODED row (2-byte length prefixes), the
// row output drops them from the decoded row: both must give the same rows at the limit too.
func genC19Limit(r *rand.Rand) *c19Input {
	in := &c19Input{NCols: 2 + r.Intn(3)}
	in.PK = genPK(r, in.NCols)
	in.Removed = []int{}
	if r.Intn(4) != 0 {
		for c := 0; c < in.NCols; c++ {
			if r.Intn(2) == 0 {
				in.Removed = append(in.Removed, c)
			}
		}
		if len(in.Removed) == in.NCols {
			k := r.Intn(in.NCols)
			in.Removed = append(in.Removed[:k], in.Removed[k+1:]...)
		}
		if len(in.Removed) == 0 {
			in.Removed = []int{r.Intn(in.NCols)}
		}
	}
	n := 1 + r.Intn(10)
	t := GenTable(r, in.NCols, n, in.PK, r.Intn(3))
	k := 1 + r.Intn(3)
	for i := 0; i < k; i++ {
		row := t.Rows[r.Intn(n)]
		col := r.Intn(in.NCols)
		if len(in.Removed) > 0 && r.Intn(2) == 0 {
			col = in.Removed[r.Intn(len(in.Removed))]
		}
		l := []int{65533, 65534, 65535, 65534, 65535}[r.Intn(5)]
		if r.Intn(12) == 0 {
			l = 65536
		}
		// long common prefixes: keys that differ only in their last byte
		fill := []string{"a", "k", "\x00", "\xff", "\""}[r.Intn(5)]
		row[col] = strings.Repeat(fill, l-1) + []string{"a", "b", ""}[r.Intn(3)]
		if len(row[col]) < l {
			row[col] += fill
		}
	}
	in.Rows = hxRows(t.Rows)
	in.RunSize = genC19RunSize(r, t.Rows)
	return in
}

// genC19RunSize: nothing spills / every row spills / 1..6 chunks
func genC19RunSize(r *rand.Rand, rows [][]string) uint64 {
	total := 0
	for _, row := range rows {
		total += 4
		for _, c := range row {
			total += len(c) + 2
		}
	}
	switch r.Intn(4) {
	case 0:
		return 1 << 40
	case 1:
		return 1
	default:
		return uint64(total/(1+r.Intn(6)) + 1)
	}
}

// --- one sorter used for several tables (Reset) ---------------------------------------------------
//
// pkg/doctor and pkg/ingest (re-ingest) keep ONE sorter and call Reset() before loading the next
// table into it; the previous use may have ended anywhere: never read (loading the table failed half
// way), read up to a cancellation, or read to the end. What the sorter emits for a table must be a
// function of that table's rows alone, and Close() must leave no spill file behind, whatever
// happened before.

type c19Use struct {
	NCols   int        `json:"ncols"`
	PK      []int      `json:"pk"`
	Removed []int      `json:"removed"`
	Rows    [][]string `json:"rows"` // hex cells
	// how this use ends: "abandon" (rows added, output never asked for), "cancelled-blocks" /
	// "cancelled-rows" (output asked for under an already cancelled context: the producer stops at its
	// first block boundary), "blocks" / "rows" (output read to the end)
	Use string `json:"use"`
	// Via "sortfile": loaded by Sorter.SortFile from a CSV file (as c19Input.Via)
	Via string `json:"via,omitempty"`
}

type c19ReuseInput struct {
	RunSize uint64   `json:"runSize"`
	Uses    []c19Use `json:"uses"`
}

func fileSet(dir string) map[string]bool {
	m := map[string]bool{}
	es, _ := os.ReadDir(dir)
	for _, e := range es {
		m[e.Name()] = true
	}
	return m
}

func c19ReuseRun(in *c19ReuseInput) Res {
	tmp := privateTmp()
	start := fileSet(tmp)
	defer func() {
		// whatever is left behind is counted below, then removed so that it cannot disturb later cases
		for f := range fileSet(tmp) {
			if !start[f] {
				os.Remove(tmp + "/" + f)
			}
		}
	}()
	return Guard(func() Res {
		s, err := sorter.NewSorter(sorter.WithRunSize(in.RunSize))
		if err != nil {
			return Err("new-sorter")
		}
		uses := []map[string]interface{}{}
		createdBy := map[string]int{} // spill file -> index of the use that created it
		for i, u := range in.Uses {
			if i > 0 {
				s.Reset()
			}
			cols := c19ColNames(u.NCols)
			if u.Via == "sortfile" {
				rows := make([][]string, len(u.Rows))
				for j, row := range u.Rows {
					rows[j] = unhexStrs(row)
				}
				pk := make([]string, len(u.PK))
				for j, p := range u.PK {
					pk[j] = cols[p]
				}
				if err := s.SortFile(io.NopCloser(bytes.NewReader(c19CSV(u.NCols, rows))), pk); err != nil {
					return Err("addrow")
				}
			} else {
				s.SetColumns(cols)
				s.PK = make([]uint32, len(u.PK))
				for j, p := range u.PK {
					s.PK[j] = uint32(p)
				}
				for _, row := range u.Rows {
					if err := s.AddRow(unhexStrs(row)); err != nil {
						return Err("addrow")
					}
				}
			}
			spilled := 0
			for f := range fileSet(tmp) {
				if _, ok := createdBy[f]; !ok && !start[f] {
					createdBy[f] = i
					spilled++
				}
			}
			out := map[string]interface{}{"use": u.Use, "spilled": spilled}
			removed := map[int]struct{}{}
			for _, c := range u.Removed {
				removed[c] = struct{}{}
			}
			if len(u.Removed) == 0 {
				removed = nil
			}
			errCh := make(chan error, 4)
			ctx, cancel := ctxHangAfter(60 * time.Second)
			if strings.HasPrefix(u.Use, "cancelled-") {
				cancel()
			}
			switch u.Use {
			case "blocks", "cancelled-blocks":
				blocks := []c19Block{}
				for b := range s.SortedBlocks(ctx, removed, errCh) {
					_, rs, err := objects.ReadBlockFrom(bytes.NewReader(b.Block))
					if err != nil {
						cancel()
						return Err("block-decode")
					}
					if len(rs) != b.RowsCount {
						cancel()
						return Err("block-rowscount")
					}
					blocks = append(blocks, c19Block{Offset: b.Offset, PK: hxRow(b.PK), Rows: hxRows(rs)})
				}
				out["blocks"] = blocks
			case "rows", "cancelled-rows":
				rowBlocks := [][][]string{}
				offs := []int{}
				for rb := range s.SortedRows(ctx, removed, errCh) {
					rowBlocks = append(rowBlocks, hxRows(rb.Rows))
					offs = append(offs, rb.Offset)
				}
				out["rowBlocks"] = rowBlocks
				out["rowOffsets"] = offs
			}
			hung := ctx.Err() != nil && !strings.HasPrefix(u.Use, "cancelled-")
			cancel()
			select {
			case e := <-errCh:
				return Err(fmt.Sprintf("sorted-output: %v", e))
			default:
			}
			if hung {
				return Err("hang")
			}
			uses = append(uses, out)
		}
		if err := s.Close(); err != nil {
			return Err("close")
		}
		// spill files still there after Close: of the last use / of the uses before a Reset
		leftLast, leftEarlier := 0, 0
		for f := range fileSet(tmp) {
			if i, ok := createdBy[f]; ok {
				if i == len(in.Uses)-1 {
					leftLast++
				} else {
					leftEarlier++
				}
			}
		}
		return Ok(map[string]interface{}{"uses": uses, "leftoverLast": leftLast, "leftoverEarlier": leftEarlier})
	})
}

func genC19Reuse(r *rand.Rand) *c19ReuseInput {
	in := &c19ReuseInput{}
	nUses := 2 + r.Intn(2)
	maxTotal := 0
	for i := 0; i < nUses; i++ {
		u := c19Use{NCols: 1 + r.Intn(3)}
		u.PK = genPK(r, u.NCols)
		u.Removed = []int{}
		if u.NCols > 1 && r.Intn(4) == 0 {
			u.Removed = []int{r.Intn(u.NCols)}
		}
		last := i == nUses-1
		if last {
			u.Use = []string{"blocks", "rows"}[r.Intn(2)]
		} else {
			u.Use = []string{"abandon", "abandon", "cancelled-blocks", "cancelled-rows", "blocks", "rows"}[r.Intn(6)]
		}
		n := []int{0, 1, 3, 8, 20, 60}[r.Intn(6)] + r.Intn(5)
		if strings.HasPrefix(u.Use, "cancelled-") || r.Intn(5) == 0 {
			// more than one block: a cancelled producer stops with rows unread in every run
			n = 256 + r.Intn(300)
		}
		mode := r.Intn(3)
		if n > 100 {
			mode = 0
		}
		t := GenTable(r, u.NCols, n, u.PK, mode)
		// every use draws from the same key space, so rows of different uses interleave and collide
		u.Rows = hxRows(t.Rows)
		total := 0
		for _, row := range t.Rows {
			total += 4
			for _, c := range row {
				total += len(c) + 2
			}
		}
		if total > maxTotal {
			maxTotal = total
		}
		in.Uses = append(in.Uses, u)
	}
	switch r.Intn(5) {
	case 0:
		in.RunSize = 1 << 40
	case 1:
		in.RunSize = 1
	default:
		in.RunSize = uint64(maxTotal/(1+r.Intn(6)) + 1)
	}
	return in
}

// genC19ReuseFamily: one sorter used for 2..4 tables of ONE key kind — no key at all, or the same
// key columns — but of DIFFERENT widths, the way the doctor and re-ingest walk through the tables
// of one ref after columns were added or dropped. The cells come from a tiny alphabet with the
// empty cell, so rows of a wider table agree on every column a narrower table had and differ only
// in the others (and the other way round): whatever the sorter derives from the shape of a table
// (which columns identify a row, how wide a row is) has to be derived again for the next one.
// Earlier uses mostly read their output (that is when the sorter works out the key), fit in memory
// about half of the time, and are small, so that Reset sees every kind of previous state.
func genC19ReuseFamily(r *rand.Rand) *c19ReuseInput {
	in := &c19ReuseInput{}
	nUses := 2 + r.Intn(3)
	pk := []int{}
	if r.Intn(3) == 0 {
		for len(pk) == 0 {
			pk = genPK(r, 1+r.Intn(3))
		}
	}
	minW := 1
	for _, p := range pk {
		if p+1 > minW {
			minW = p + 1
		}
	}
	maxTotal := 0
	prevW := 0
	for i := 0; i < nUses; i++ {
		u := c19Use{PK: append([]int{}, pk...)}
		u.NCols = minW + r.Intn(4)
		if u.NCols == prevW && r.Intn(4) != 0 {
			// mostly a width other than the one before: one more or one less column
			if u.NCols > minW && r.Intn(2) == 0 {
				u.NCols--
			} else {
				u.NCols++
			}
		}
		prevW = u.NCols
		u.Removed = []int{}
		if u.NCols > 1 && r.Intn(5) == 0 {
			u.Removed = []int{r.Intn(u.NCols)}
		}
		if i == nUses-1 {
			u.Use = []string{"blocks", "rows"}[r.Intn(2)]
		} else {
			u.Use = []string{"blocks", "rows", "blocks", "rows", "cancelled-blocks", "cancelled-rows", "abandon"}[r.Intn(7)]
		}
		n := 2 + r.Intn(30)
		alpha := []string{"", "a", "b", "a", "ab"}[:3+r.Intn(3)]
		rows := make([][]string, n)
		total := 0
		for j := range rows {
			rows[j] = make([]string, u.NCols)
			total += 4
			for c := range rows[j] {
				rows[j][c] = alpha[r.Intn(len(alpha))]
				total += len(rows[j][c]) + 2
			}
		}
		u.Rows = hxRows(rows)
		if total > maxTotal {
			maxTotal = total
		}
		in.Uses = append(in.Uses, u)
	}
	switch r.Intn(6) {
	case 0, 1, 2:
		in.RunSize = 1 << 40
	case 3:
		in.RunSize = 1
	default:
		in.RunSize = uint64(maxTotal/(1+r.Intn(4)) + 1)
	}
	if r.Intn(4) == 0 {
		for i := range in.Uses {
			in.Uses[i].Via = "sortfile"
		}
	}
	return in
}

func c19ReuseEmit(ctx *Ctx, in *c19ReuseInput, tags ...string) {
	for i := range in.Uses {
		u := &in.Uses[i]
		if u.Via != "sortfile" {
			continue
		}
		rows := make([][]string, len(u.Rows))
		for j, row := range u.Rows {
			rows[j] = unhexStrs(row)
		}
		fixed, ok := c19CSVFix(u.NCols, rows)
		if !ok {
			return
		}
		u.Rows = hxRows(fixed)
		if u.Rows == nil {
			u.Rows = [][]string{}
		}
		if i == 0 {
			tags = append(tags, "sortfile")
		}
	}
	res := c19ReuseRun(in)
	nt := false
	if res["res"] == "ok" {
		us := res["val"].(map[string]interface{})["uses"].([]map[string]interface{})
		for i, u := range us {
			if i < len(us)-1 && u["spilled"].(int) > 0 {
				nt = true
				tags = append(tags, "reset-after-spill:"+u["use"].(string))
			}
			if i < len(us)-1 && u["spilled"].(int) == 0 && u["use"].(string) != "abandon" &&
				reflect.DeepEqual(in.Uses[i].PK, in.Uses[i+1].PK) && in.Uses[i].NCols != in.Uses[i+1].NCols {
				// the sorter worked out the key of a table that fitted in memory, and the next table has
				// the same key columns (or none) but another width
				kind := "keyed"
				if len(in.Uses[i].PK) == 0 {
					kind = "keyless"
				}
				w := "wider"
				if in.Uses[i+1].NCols < in.Uses[i].NCols {
					w = "narrower"
				}
				tags = append(tags, "reset-after-unspilled-read:"+kind+":next-"+w)
			}
		}
	}
	ctx.Emit("sort-reuse", in, res, nt, append(tags, "reuse")...)
}

func runC19(ctx *Ctx) {
	if ctx.Idx%12 == 7 {
		c19IngestError(ctx)
		return
	}
	base := genC19(ctx.R, ctx.Thorough())
	c19Emit(ctx, base)
	// further kinds of cases, by case index and after the draws of the case above (which therefore
	// stays what it was)
	switch ctx.Idx % 12 {
	case 2, 5, 8, 11:
		// the same table, loaded from a CSV file by SortFile (key given by column names)
		sf := *base
		sf.Via = "sortfile"
		c19Emit(ctx, &sf)
	case 0, 4, 6, 10:
		// the same table, with spills that fail while it is loaded
		if f := c19WithFault(ctx.R, base); f != nil {
			c19Emit(ctx, f)
		}
	}
	switch ctx.Idx % 12 {
	case 2, 6, 10:
		// one sorter walking through small tables of one key kind and different widths (drawn after the
		// case above, which therefore stays what it was)
		c19ReuseEmit(ctx, genC19ReuseFamily(ctx.R), "reuse-one-key-kind")
		return
	}
	switch ctx.Idx % 12 {
	case 3:
		// (each such case carries 64 KiB cells: in the thorough tier one in six of these indices, so
		// that the volume handed to the driver stays moderate)
		if !ctx.Thorough() || (ctx.Idx/12)%6 == 0 {
			c19Emit(ctx, genC19Limit(ctx.R), "limit-cell")
		}
	case 1, 9:
		ru := genC19Reuse(ctx.R)
		if ctx.Idx%12 == 9 {
			// every table is loaded from a CSV file by SortFile: the key of the table before is still set
			// when the next file is opened
			for i := range ru.Uses {
				ru.Uses[i].Via = "sortfile"
			}
		}
		c19ReuseEmit(ctx, ru)
	}
}

func corpusC19(ctx *Ctx, op string, raw json.RawMessage) {
	if op == "sort-reuse" {
		var in c19ReuseInput
		if err := json.Unmarshal(raw, &in); err != nil {
			panic(err)
		}
		c19ReuseEmit(ctx, &in, "corpus")
		return
	}
	var in c19Input
	if err := json.Unmarshal(raw, &in); err != nil {
		panic(err)
	}
	c19Emit(ctx, &in, "corpus")
}
