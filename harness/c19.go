package main

import (
	"bytes"
	"encoding/json"
	"fmt"
	"math/rand"
	"os"
	"time"

	"github.com/wrgl/wrgl/pkg/objects"
	"github.com/wrgl/wrgl/pkg/sorter"
)

func init() {
	runners["C19"] = runC19
	corpusRunners["C19"] = corpusC19
}

type c19Input struct {
	NCols   int        `json:"ncols"`
	PK      []int      `json:"pk"`
	Removed []int      `json:"removed"`
	RunSize uint64     `json:"runSize"`
	Rows    [][]string `json:"rows"` // hex cells
}

type c19Block struct {
	Offset int        `json:"offset"`
	PK     []string   `json:"pk"`
	Rows   [][]string `json:"rows"`
}

// privateTmp is this process's own scratch directory (TMPDIR points at it, so the sorter's spill
// files land there and can be counted). It is created below VERIF_TMP_ROOT, which ./check removes
// when the run ends.
func privateTmp() string {
	d := os.Getenv("VERIF_TMP")
	if d == "" {
		d, _ = os.MkdirTemp(os.Getenv("VERIF_TMP_ROOT"), "verif-w-")
		os.Setenv("VERIF_TMP", d)
		os.Setenv("TMPDIR", d)
	}
	return d
}

func countFiles(dir string) int {
	es, err := os.ReadDir(dir)
	if err != nil {
		return -1
	}
	return len(es)
}

func newFilledSorter(in *c19Input, rows [][]string) (*sorter.Sorter, error) {
	s, err := sorter.NewSorter(sorter.WithRunSize(in.RunSize))
	if err != nil {
		return nil, err
	}
	cols := make([]string, in.NCols)
	for i := range cols {
		cols[i] = string(rune('a' + i))
	}
	s.SetColumns(cols)
	s.PK = make([]uint32, len(in.PK))
	for i, p := range in.PK {
		s.PK[i] = uint32(p)
	}
	for _, r := range rows {
		if err := s.AddRow(r); err != nil {
			return nil, err
		}
	}
	return s, nil
}

func c19Run(in *c19Input) Res {
	rows := make([][]string, len(in.Rows))
	for i, r := range in.Rows {
		rows[i] = unhexStrs(r)
	}
	tmp := privateTmp()
	before := countFiles(tmp)
	return Guard(func() Res {
		removed := map[int]struct{}{}
		for _, c := range in.Removed {
			removed[c] = struct{}{}
		}
		if len(in.Removed) == 0 {
			removed = nil
		}
		out := map[string]interface{}{}
		// blocks
		s1, err := newFilledSorter(in, rows)
		if err != nil {
			return Err("addrow")
		}
		spilled := countFiles(tmp) - before
		errCh := make(chan error, 4)
		ctx, cancel := ctxHangAfter(60*time.Second)
		defer cancel()
		blocks := []c19Block{}
		for b := range s1.SortedBlocks(ctx, removed, errCh) {
			_, rs, err := objects.ReadBlockFrom(bytes.NewReader(b.Block))
			if err != nil {
				return Err("block-decode")
			}
			if len(rs) != b.RowsCount {
				return Err("block-rowscount")
			}
			blocks = append(blocks, c19Block{Offset: b.Offset, PK: hxRow(b.PK), Rows: hxRows(rs)})
		}
		select {
		case e := <-errCh:
			return Err(fmt.Sprintf("sorted-blocks: %v", e))
		default:
		}
		if ctx.Err() != nil {
			return Err("hang")
		}
		if err := s1.Close(); err != nil {
			return Err("close")
		}
		out["blocks"] = blocks
		// rows
		s2, err := newFilledSorter(in, rows)
		if err != nil {
			return Err("addrow")
		}
		rowBlocks := [][][]string{}
		offs := []int{}
		for rb := range s2.SortedRows(ctx, removed, errCh) {
			rowBlocks = append(rowBlocks, hxRows(rb.Rows))
			offs = append(offs, rb.Offset)
		}
		select {
		case e := <-errCh:
			return Err(fmt.Sprintf("sorted-rows: %v", e))
		default:
		}
		if err := s2.Close(); err != nil {
			return Err("close")
		}
		out["rowBlocks"] = rowBlocks
		out["rowOffsets"] = offs
		out["spilled"] = spilled
		out["leftover"] = countFiles(tmp) - before
		return Ok(out)
	})
}

func genC19(r *rand.Rand, thorough bool) *c19Input {
	in := &c19Input{NCols: 1 + r.Intn(4)}
	in.PK = genPK(r, in.NCols)
	in.Removed = []int{}
	if r.Intn(3) == 0 {
		for c := 0; c < in.NCols; c++ {
			if r.Intn(3) == 0 {
				in.Removed = append(in.Removed, c)
			}
		}
		if len(in.Removed) == in.NCols {
			in.Removed = in.Removed[:len(in.Removed)-1]
		}
	}
	maxBlocks := 2
	if thorough {
		maxBlocks = 4
	}
	n := genRowCount(r, maxBlocks)
	mode := r.Intn(3)
	if n > 300 {
		mode = 0
	}
	t := GenTable(r, in.NCols, n, in.PK, mode)
	if len(in.PK) == 0 && r.Intn(2) == 0 {
		// keyless: the whole row is the key. A tiny alphabet with the empty cell makes rows tie on every
		// column but the last, across spilled runs
		for _, row := range t.Rows {
			for c := range row {
				row[c] = []string{"", "a", "b", "a"}[r.Intn(4)]
			}
		}
	}
	if r.Intn(3) == 0 && len(t.Rows) > 0 {
		// duplicate some rows' keys (different content) at random places, incl. across block/chunk edges
		k := 1 + r.Intn(5)
		for i := 0; i < k; i++ {
			src := t.Rows[r.Intn(len(t.Rows))]
			d := append([]string{}, src...)
			iskey := map[int]bool{}
			for _, p := range in.PK {
				iskey[p] = true
			}
			for c := range d {
				if !iskey[c] && len(in.PK) > 0 {
					d[c] = genCell(r)
				}
			}
			pos := r.Intn(len(t.Rows) + 1)
			t.Rows = append(t.Rows[:pos], append([][]string{d}, t.Rows[pos:]...)...)
		}
	}
	if r.Intn(4) == 0 && len(t.Rows) > 0 {
		// an all-empty key / all-empty row
		e := make([]string, in.NCols)
		if len(in.PK) > 0 {
			for c := range e {
				e[c] = genCell(r)
			}
			for _, p := range in.PK {
				e[p] = ""
			}
		}
		pos := r.Intn(len(t.Rows) + 1)
		t.Rows = append(t.Rows[:pos], append([][]string{e}, t.Rows[pos:]...)...)
	}
	in.Rows = hxRows(t.Rows)
	total := 0
	for _, row := range t.Rows {
		total += 4
		for _, c := range row {
			total += len(c) + 2
		}
	}
	switch r.Intn(4) {
	case 0:
		in.RunSize = 1 << 40 // nothing spills
	case 1:
		in.RunSize = 1 // every row spills
	default:
		k := 1 + r.Intn(6)
		in.RunSize = uint64(total/k + 1)
	}
	return in
}

func c19Emit(ctx *Ctx, in *c19Input, tags ...string) {
	res := c19Run(in)
	nt := len(in.Rows) > 255
	if res["res"] == "ok" {
		v := res["val"].(map[string]interface{})
		if sp, ok := v["spilled"].(int); ok && sp > 0 {
			nt = true
			tags = append(tags, fmt.Sprintf("spilled=%d", min(sp, 9)))
		}
	}
	if len(in.PK) == 0 {
		tags = append(tags, "keyless")
	}
	if len(in.PK) > 1 {
		tags = append(tags, "composite")
	}
	if len(in.Removed) > 0 {
		tags = append(tags, "removed-cols")
	}
	ctx.Emit("sort", in, res, nt, tags...)
}

// c19IngestError: an ingest that fails after runs have been spilled (a record with the wrong number
// of fields at the end of the file) must still remove its spill files.
func c19IngestError(ctx *Ctx) {
	r := ctx.R
	n := 200 + r.Intn(400)
	t := GenTable(r, 2, n, []int{0}, 0)
	csv := append(t.CSV(0), []byte("only-one-field\n")...)
	runSize := uint64(1024 + r.Intn(4096))
	tmp := privateTmp()
	before := countFiles(tmp)
	res := Guard(func() Res {
		db := NewMemStore()
		_, err := IngestCSV(db, csv, t.PK, IngestCfg{RunSize: runSize})
		return Ok(map[string]interface{}{"errored": err != nil, "leftover": countFiles(tmp) - before})
	})
	ctx.Emit("ingest-error", map[string]interface{}{"rows": n, "runSize": runSize}, res, true, "ingest-error")
}

func runC19(ctx *Ctx) {
	if ctx.Idx%12 == 7 {
		c19IngestError(ctx)
		return
	}
	c19Emit(ctx, genC19(ctx.R, ctx.Thorough()))
}

func corpusC19(ctx *Ctx, op string, raw json.RawMessage) {
	var in c19Input
	if err := json.Unmarshal(raw, &in); err != nil {
		panic(err)
	}
	c19Emit(ctx, &in, "corpus")
}
