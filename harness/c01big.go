package main

// C01, size boundary: a table with more blocks than any pre-allocation cap of the readers
// (4097 blocks = 1 044 481 rows). The rows are too many to ship to the Lean driver one by one, so
// the harness reports what it read back in aggregate and the driver checks it against the model's
// closed-form expectation (row count, block count = ceil(n / blockSize), ascending keys, a
// checksum over all cells in key order).

import (
	"bytes"
	"fmt"
	"hash/fnv"

	"github.com/wrgl/wrgl/pkg/objects"
)

type c01BigInput struct {
	N int `json:"n"`
}

func c01BigRun(in *c01BigInput) Res {
	return Guard(func() Res {
		buf := bytes.NewBuffer(make([]byte, 0, in.N*12))
		buf.WriteString("k,v\n")
		// keys in a scrambled order (a fixed odd multiplier modulo a power of two is a bijection)
		m := 1
		for m < in.N {
			m <<= 1
		}
		cnt := 0
		for i := 0; cnt < in.N; i++ {
			x := (i * 7919) & (m - 1)
			if x >= in.N {
				continue
			}
			fmt.Fprintf(buf, "%07d,%d\n", x, x%10)
			cnt++
		}
		db := NewMemStore()
		sum, err := IngestCSV(db, buf.Bytes(), []string{"k"}, IngestCfg{Workers: 8})
		if err != nil {
			return Err("ingest")
		}
		// read the table back from its stored bytes
		tbl, err := objects.GetTable(db, sum)
		if err != nil {
			return Err("gettable")
		}
		h := fnv.New64a()
		read, asc, next := 0, true, 0
		for _, bs := range tbl.Blocks {
			rows, _, err := objects.GetBlock(db, nil, bs)
			if err != nil {
				return Err("getblock")
			}
			for _, row := range rows {
				want := fmt.Sprintf("%07d", next)
				if len(row) != 2 || row[0] != want || row[1] != fmt.Sprint(next%10) {
					asc = false
				}
				h.Write([]byte(row[0]))
				next++
				read++
			}
		}
		return Ok(map[string]interface{}{"rowsCount": int(tbl.RowsCount), "blocks": len(tbl.Blocks),
			"blockIndices": len(tbl.BlockIndices), "readBack": read, "exactRowsInKeyOrder": asc})
	})
}

func runC01Big(ctx *Ctx) {
	in := &c01BigInput{N: 4096*255 + 1}
	ctx.Emit("ingest-big", in, c01BigRun(in), true, "size-boundary")
}
