package main

import (
	"github.com/wrgl/wrgl/pkg/local"
	"path/filepath"
	"database/sql"
	"encoding/json"
	"errors"
	"io"
	"math/rand"
	"os"
	"sort"
	"strings"
	"time"

	"github.com/google/uuid"
	"github.com/wrgl/wrgl/pkg/ref"
	reffs "github.com/wrgl/wrgl/pkg/ref/fs"
)

func init() {
	runners["C15"] = runC15
	corpusRunners["C15"] = corpusC15
}

type c15Input struct {
	Ops   [][]interface{} `json:"ops"`
	// Known names a recorded deviation of the file store (known_findings.json): a witness sequence
	// kept in the corpus that deliberately leaves c15FsDomain (section (b) there)
	Known  string         `json:"known,omitempty"`
	ViaCLI bool           `json:"viaCLI,omitempty"` // delallremote / renameallremote are run as `wrgl remote remove / rename` on a repository directory
	Store string          `json:"store,omitempty"` // "" / "sql": pkg/ref/sql; "fs": pkg/ref/fs (names are files below a root directory)
}

// names for the file store: no name is a directory prefix of another
var c15FsNames = []string{
	"remotes/my_repo/x", "remotes/myXrepo/x", "remotes/MY_REPO/x", "remotes/my_repo/y/z", "remotes/my%repo/x",
	"heads/a", "heads/b/c", "heads/ab", "heads/A", "heads/%", "heads/_", "tags/a", "remotes/o/main", "remotes/origin/main", "txs/1/a",
	"heads/feature/beta_1", "remotes/Origin_2/main",
}

// remotes, directory prefixes and log-entry fields of the file-store cases (see c15FsDomain)
var c15FsRemotes = []string{"my_repo", "myXrepo", "MY_REPO", "my%repo", "o", "origin", "my_", "origin/eu", "Origin_2"}
var c15FsPrefixes = []string{"", "heads/", "heads/b/", "heads/feature/", "remotes/", "remotes/my_repo/", "remotes/my_repo/y/", "remotes/origin/",
	"remotes/o/", "remotes/my%repo/", "remotes/my_/", "remotes/MY_REPO/", "tags/", "txs/", "txs/1/", "HEADS/", "heads/a/"}
var c15FsAuthors = [][]string{{"a", "e"}, {"Ann Lee", "ann@example.com"}, {"b_%", "B@Example.com"}, {"Zoë Åberg-Li", "z1@x.io"}, {"solo", ""}}
var c15FsActions = []string{"act", "commit", "fetch", "merge", "branch 2"}

var c15Names = []string{
	"remotes/my_repo/x", "remotes/myXrepo/x", "remotes/MY_REPO/x", "remotes/my_repo/y/z", "remotes/my%repo/x",
	"heads/a", "heads/a/b", "heads/ab", "heads/A", "heads/%", "heads/_", "tags/a", "remotes/o/main", "remotes/origin/main", "%", "txs/1/a",
}
var c15Prefixes = []string{"heads/", "heads/a", "heads/a/", "remotes/my_repo/", "remotes/my%", "remotes/", "tags/", "", "%", "heads/_", "HEADS/", "remotes/o"}
var c15Remotes = []string{"my_repo", "myXrepo", "MY_REPO", "my%repo", "o", "origin", "my_", "origin/eu", "o/main"}

func c15Sum(r *rand.Rand) string {
	b := make([]byte, 16)
	b[0] = byte(1 + r.Intn(5))
	return hx(b)
}

func c15Num(v interface{}) int64 {
	switch x := v.(type) {
	case float64:
		return int64(x)
	case int:
		return int64(x)
	case int64:
		return x
	}
	return 0
}

// caller-supplied log fields of the "txlog" cases: two transactions and none; authors, actions
var c15Txids = []string{"", "00000000-0000-4000-8000-000000000001", "00000000-0000-4000-8000-000000000002"}
var c15Authors = [][]string{{"a", "e"}, {"Ann Lee", "ann@example.com"}, {"", ""}, {"b_%", "B@Example.com"}}
var c15Actions = []string{"act", "commit", "fetch", "merge", ""}

func strs(l interface{}) []string {
	out := []string{}
	switch v := l.(type) {
	case []string:
		return v
	case []interface{}:
		for _, x := range v {
			out = append(out, x.(string))
		}
	}
	return out
}

func c15Run(in *c15Input) Res {
	return Guard(func() Res {
		var rs ref.Store
		var sqlDB *sql.DB
		cliDir := ""
		fs := in.Store == "fs"
		if fs {
			if why := c15FsDomain(in); why != "" && in.Known == "" {
				return Err("fs-domain: " + why)
			}
			dir, err := os.MkdirTemp(privateTmp(), "reffs-")
			if err != nil {
				return Err("tmpdir")
			}
			defer os.RemoveAll(dir)
			rs = reffs.NewStore(dir)
		} else if in.ViaCLI {
			root, err := os.MkdirTemp(privateTmp(), "rcli-")
			if err != nil {
				return Err("tmpdir")
			}
			defer os.RemoveAll(root)
			os.Setenv("XDG_CONFIG_HOME", filepath.Join(root, "xdg"))
			os.Setenv("HOME", root)
			cliDir = filepath.Join(root, "repo", ".wrgl")
			os.MkdirAll(filepath.Join(root, "repo"), 0755)
			rd, err := local.NewRepoDir(cliDir, "")
			if err != nil {
				return Err("repodir")
			}
			if err := rd.Init(); err != nil {
				return Err("init")
			}
			defer rd.Close()
			rs = rd.OpenRefStore()
		} else {
			s, db, closeRS := NewRefStoreDB()
			defer closeRS()
			rs = s
			sqlDB = db
		}
		out := []interface{}{}
		txMade := map[uuid.UUID]bool{}
		// file store (c15FsDomain a2): the entry's old value is the caller's business — the runner
		// does what ref.SaveRef does and hands in the value Get returns just before the call
		callerOld := func(name string, rl *ref.Reflog) *ref.Reflog {
			if fs {
				if b, err := rs.Get(name); err == nil {
					rl.OldOID = b
				}
			}
			return rl
		}
		okErr := func(err error) {
			if err != nil {
				out = append(out, "err")
			} else {
				out = append(out, "ok")
			}
		}
		pairs := func(m map[string][]byte, err error) {
			if err != nil {
				out = append(out, "err")
				return
			}
			ks := []string{}
			for k := range m {
				ks = append(ks, k)
			}
			sort.Strings(ks)
			l := [][]string{}
			for _, k := range ks {
				l = append(l, []string{k, hx(m[k])})
			}
			out = append(out, l)
		}
		for _, op := range in.Ops {
			s := func(i int) string { return op[i].(string) }
			switch s(0) {
			case "set":
				okErr(rs.Set(s(1), unhx(s(2))))
			case "setlog":
				okErr(rs.SetWithLog(s(1), unhx(s(2)), callerOld(s(1), &ref.Reflog{NewOID: unhx(s(2)), AuthorName: "a", AuthorEmail: "e", Time: time.Unix(1700000000, 0), Action: "act", Message: s(3)})))
			case "setlogold":
				// the caller supplies a stale old value: the store must log the value the ref really held
				okErr(rs.SetWithLog(s(1), unhx(s(2)), &ref.Reflog{OldOID: unhx(s(4)), NewOID: unhx(s(2)), AuthorName: "a", AuthorEmail: "e", Time: time.Unix(1700000000, 0), Action: "act", Message: s(3)}))
			case "setlogx":
				// every caller-supplied field of the log entry chosen by the generator:
				// [_, name, value, message, txid or "", author, e-mail, action, unix time]
				rl := &ref.Reflog{NewOID: unhx(s(2)), AuthorName: s(5), AuthorEmail: s(6), Time: time.Unix(c15Num(op[8]), 0), Action: s(7), Message: s(3)}
				if s(4) != "" {
					id, err := uuid.Parse(s(4))
					if err != nil {
						return Err("txid")
					}
					if !txMade[id] {
						// the transaction the entry belongs to exists
						txMade[id] = true
						if _, err := rs.NewTransaction(&ref.Transaction{ID: id, Status: ref.TSInProgress, Begin: time.Unix(1700000000, 0)}); err != nil && in.Store != "fs" {
							return Err("new-tx")
						}
					}
					rl.Txid = &id
				}
				okErr(rs.SetWithLog(s(1), unhx(s(2)), callerOld(s(1), rl)))
			case "setlogfail":
				// the reflog insert fails (trigger): ref and log are one SQL transaction, nothing may change
				if sqlDB == nil {
					out = append(out, "err")
					break
				}
				if _, err := sqlDB.Exec("CREATE TRIGGER verif_fail_log BEFORE INSERT ON reflogs BEGIN SELECT RAISE(ABORT, 'injected'); END"); err != nil {
					return Err("trigger")
				}
				okErr(rs.SetWithLog(s(1), unhx(s(2)), &ref.Reflog{NewOID: unhx(s(2)), AuthorName: "a", AuthorEmail: "e", Time: time.Unix(1700000000, 0), Action: "act", Message: s(3)}))
				if _, err := sqlDB.Exec("DROP TRIGGER verif_fail_log"); err != nil {
					return Err("trigger-drop")
				}
			case "get":
				v, err := rs.Get(s(1))
				if err != nil {
					out = append(out, nil)
				} else {
					out = append(out, hx(v))
				}
			case "del":
				okErr(rs.Delete(s(1)))
			case "filter":
				pairs(rs.Filter(strs(op[1]), strs(op[2])))
			case "filterkey":
				ks, err := rs.FilterKey(strs(op[1]), strs(op[2]))
				if err != nil {
					out = append(out, "err")
				} else {
					if ks == nil {
						ks = []string{}
					}
					if fs {
						sort.Strings(ks) // c15FsDomain a5: the file store's order is unspecified
					}
					out = append(out, ks)
				}
			case "rename":
				if !fs && len(out)%2 == 0 {
					// as `wrgl branch -m` does it: the package-level helper (reads the source, then renames)
					_, err := ref.RenameRef(rs, s(1), s(2))
					okErr(err)
					break
				}
				okErr(rs.Rename(s(1), s(2)))
			case "copy":
				if !fs && len(out)%2 == 0 {
					_, err := ref.CopyRef(rs, s(1), s(2))
					okErr(err)
					break
				}
				okErr(rs.Copy(s(1), s(2)))
			case "rejrename", "rejcopy", "rejset":
				// file store only (c15FsDomain a7): the destination cannot be a file
				if !fs {
					return Err("rej-op: file store only")
				}
				switch s(0) {
				case "rejrename":
					okErr(rs.Rename(s(1), s(2)))
				case "rejcopy":
					okErr(rs.Copy(s(1), s(2)))
				default:
					okErr(rs.Set(s(1), unhx(s(2))))
				}
			case "log":
				lr, err := rs.LogReader(s(1))
				if err != nil {
					out = append(out, "notfound")
					break
				}
				es := [][]interface{}{}
				bad := false
				for {
					l, err := lr.Read()
					if errors.Is(err, io.EOF) {
						break
					}
					if err != nil {
						bad = true
						break
					}
					var old interface{}
					if l.OldOID != nil {
						old = hx(l.OldOID)
					}
					var txid interface{}
					if l.Txid != nil {
						txid = l.Txid.String()
					}
					es = append(es, []interface{}{old, hx(l.NewOID), l.Message, txid, l.AuthorName, l.AuthorEmail, l.Action, l.Time.Unix()})
					if len(es) > 10000 {
						bad = true
						break
					}
				}
				lr.Close()
				if bad {
					out = append(out, "err")
				} else {
					out = append(out, es)
				}
			case "listrefs":
				// the unexported listRefs is reached through its exported instances
				p := s(1)
				switch {
				case p == "heads/":
					pairs(ref.ListHeads(rs))
				case p == "tags/":
					pairs(ref.ListTags(rs))
				default:
					// remotes/<r>/
					r := p[len("remotes/") : len(p)-1]
					pairs(ref.ListRemoteRefs(rs, r))
				}
			case "delallremote":
				if cliDir != "" {
					// the repository's configuration knows exactly this remote
					setOnlyRemote(cliDir, s(1))
					_, err := cli(cliDir, "remote", "remove", s(1))
					okErr(err)
					break
				}
				okErr(ref.DeleteAllRemoteRefs(rs, s(1)))
			case "renameallremote":
				if cliDir != "" && s(1) != s(2) {
					setOnlyRemote(cliDir, s(1))
					_, err := cli(cliDir, "remote", "rename", s(1), s(2))
					okErr(err)
					break
				}
				okErr(ref.RenameAllRemoteRefs(rs, s(1), s(2)))
			}
		}
		return Ok(out)
	})
}

func genC15(r *rand.Rand, thorough bool, txlog bool) *c15Input {
	n := 5 + r.Intn(30)
	if thorough {
		n = 5 + r.Intn(60)
	}
	in := &c15Input{}
	if r.Intn(6) == 0 {
		in.ViaCLI = true
	}
	if in.ViaCLI {
		in.Ops = append(in.Ops, []interface{}{"setlog", "remotes/origin/main", c15Sum(r), "init"}, []interface{}{"setlog", "remotes/o/main", c15Sum(r), "init"},
			[]interface{}{"renameallremote", "origin", "origin/eu"})
	}
	name := func() string { return c15Names[r.Intn(len(c15Names))] }
	pfxs := func() []string {
		k := r.Intn(3)
		l := []string{}
		for i := 0; i < k; i++ {
			l = append(l, c15Prefixes[r.Intn(len(c15Prefixes))])
		}
		return l
	}
	for i := 0; i < n; i++ {
		var op []interface{}
		switch x := r.Intn(20); {
		case x < 3:
			op = []interface{}{"set", name(), c15Sum(r)}
		case x < 8:
			op = []interface{}{"setlog", name(), c15Sum(r), "m" + itoa(i)}
			if r.Intn(8) == 0 {
				op[0] = "setlogfail"
			} else if r.Intn(6) == 0 {
				op = []interface{}{"setlogold", op[1], op[2], op[3], c15Sum(r)}
			}
		case x < 10:
			op = []interface{}{"get", name()}
		case x < 11:
			op = []interface{}{"del", name()}
		case x < 13:
			op = []interface{}{"filter", pfxs(), pfxs()}
		case x < 14:
			op = []interface{}{"filterkey", pfxs(), pfxs()}
		case x < 15:
			op = []interface{}{"rename", name(), name()}
		case x < 16:
			op = []interface{}{"copy", name(), name()}
		case x < 17:
			op = []interface{}{"log", name()}
		case x < 18:
			p := []string{"heads/", "tags/", "remotes/" + c15Remotes[r.Intn(len(c15Remotes))] + "/"}[r.Intn(3)]
			op = []interface{}{"listrefs", p}
		case x < 19:
			op = []interface{}{"delallremote", c15Remotes[r.Intn(len(c15Remotes))]}
		default:
			op = []interface{}{"renameallremote", c15Remotes[r.Intn(len(c15Remotes))], c15Remotes[r.Intn(len(c15Remotes))]}
			if in.ViaCLI && r.Intn(2) == 0 {
				// the new name nested below the old one (or the other way round)
				pr := [][]string{{"origin", "origin/eu"}, {"o", "o/main"}, {"origin/eu", "origin"}}[r.Intn(3)]
				op = []interface{}{"renameallremote", pr[0], pr[1]}
			}
		}
		in.Ops = append(in.Ops, op)
	}
	if txlog {
		// histories whose log entries differ in every caller-supplied field — some written under a
		// transaction id, as `transaction commit` does — and are then carried along by copy/rename.
		// (Draws made after all of the above: the plain cases are unchanged.)
		logged := []string{}
		for i, op := range in.Ops {
			k := op[0].(string)
			if (k != "setlog" && k != "setlogold") || r.Intn(3) == 0 {
				continue
			}
			au := c15Authors[r.Intn(len(c15Authors))]
			in.Ops[i] = []interface{}{"setlogx", op[1], op[2], op[3], c15Txids[r.Intn(len(c15Txids))], au[0], au[1],
				c15Actions[r.Intn(len(c15Actions))], 1700000000 + r.Intn(100000)}
			logged = append(logged, op[1].(string))
		}
		for j := 0; j < 3; j++ {
			src := name()
			if len(logged) > 0 && r.Intn(4) != 0 {
				src = logged[r.Intn(len(logged))]
			}
			au := c15Authors[r.Intn(len(c15Authors))]
			in.Ops = append(in.Ops, []interface{}{"setlogx", src, c15Sum(r), "x" + itoa(j), c15Txids[r.Intn(len(c15Txids))], au[0], au[1],
				c15Actions[r.Intn(len(c15Actions))], 1700000000 + r.Intn(100000)})
			dst := name()
			if r.Intn(2) == 0 {
				in.Ops = append(in.Ops, []interface{}{"del", dst})
			}
			in.Ops = append(in.Ops, []interface{}{[]string{"copy", "rename", "copy"}[r.Intn(3)], src, dst}, []interface{}{"log", dst})
		}
	}
	// final observation of everything
	in.Ops = append(in.Ops, []interface{}{"filter", []string{}, []string{}})
	for _, nm := range c15Names {
		in.Ops = append(in.Ops, []interface{}{"log", nm})
	}
	return in
}

func c15Nontrivial(in *c15Input) bool {
	for _, op := range in.Ops {
		switch op[0].(string) {
		case "filter", "filterkey":
			if len(strs(op[1]))+len(strs(op[2])) > 0 {
				return true
			}
		case "listrefs", "delallremote", "renameallremote":
			return true
		}
	}
	return false
}

// c15LogLen: the length of a long log. Half of the draws sit on and next to the powers of two
// between 64 and 512 (the usual sizes of a page, a batch or a buffer of entries), the rest anywhere
// between 100 and 700 (thorough: 1500).
func c15LogLen(r *rand.Rand, thorough bool) int {
	if r.Intn(2) == 0 {
		return (64 << uint(r.Intn(4))) - 1 + r.Intn(4)
	}
	if thorough {
		return 100 + r.Intn(1400)
	}
	return 100 + r.Intn(600)
}

// genC15Long (tag longlog): a history in which one ref takes hundreds of logged sets — plain ones and
// ones with generated author / action / time / transaction id — with a few other operations in
// between; its log is read, the ref is copied or renamed (the log is carried along), the target's log
// is read, the target takes a few more logged sets and is read again. Everything is observed at the
// end as in genC15. A reader or a copy that handles a log in pieces (pages, batches, chunks) has its
// piece boundaries inside such a log.
func genC15Long(r *rand.Rand, thorough bool) *c15Input {
	in := &c15Input{}
	name := func() string { return c15Names[r.Intn(len(c15Names))] }
	hot := name()
	n := c15LogLen(r, thorough)
	logged := func(k string, i int) []interface{} {
		if r.Intn(3) == 0 {
			au := c15Authors[r.Intn(len(c15Authors))]
			return []interface{}{"setlogx", k, c15Sum(r), "m" + itoa(i), c15Txids[r.Intn(len(c15Txids))], au[0], au[1],
				c15Actions[r.Intn(len(c15Actions))], 1700000000 + r.Intn(100000)}
		}
		return []interface{}{"setlog", k, c15Sum(r), "m" + itoa(i)}
	}
	for i := 0; i < n; i++ {
		in.Ops = append(in.Ops, logged(hot, i))
		if r.Intn(40) == 0 {
			// something else in between: another ref's log grows, a plain set of the hot ref (no entry), reads
			switch r.Intn(4) {
			case 0:
				in.Ops = append(in.Ops, logged(name(), i))
			case 1:
				in.Ops = append(in.Ops, []interface{}{"set", hot, c15Sum(r)})
			case 2:
				in.Ops = append(in.Ops, []interface{}{"get", hot})
			default:
				in.Ops = append(in.Ops, []interface{}{"filterkey", []string{c15Prefixes[r.Intn(len(c15Prefixes))]}, []string{}})
			}
		}
	}
	in.Ops = append(in.Ops, []interface{}{"log", hot})
	dst := name()
	if r.Intn(2) == 0 {
		in.Ops = append(in.Ops, []interface{}{"del", dst})
	}
	in.Ops = append(in.Ops, []interface{}{[]string{"copy", "rename"}[r.Intn(2)], hot, dst}, []interface{}{"log", dst})
	for i, k := 0, r.Intn(4); i < k; i++ {
		in.Ops = append(in.Ops, logged(dst, n+i))
	}
	in.Ops = append(in.Ops, []interface{}{"log", dst}, []interface{}{"log", hot})
	// final observation of everything
	in.Ops = append(in.Ops, []interface{}{"filter", []string{}, []string{}})
	for _, nm := range c15Names {
		in.Ops = append(in.Ops, []interface{}{"log", nm})
	}
	return in
}

func runC15(ctx *Ctx) {
	// one case in 40: one ref with a log of hundreds of entries on the SQL store, see genC15Long
	if ctx.Idx%40 == 8 {
		in := genC15Long(ctx.R, ctx.Thorough())
		ctx.Emit("ops", in, c15Run(in), c15Nontrivial(in), "longlog")
		return
	}
	// every fifth case: a history on the file-based store (pkg/ref/fs), see genC15Fs
	if ctx.Idx%5 == 2 {
		in := genC15Fs(ctx.R, ctx.Thorough(), false)
		ctx.Emit("ops", in, c15Run(in), true, "store=fs")
		return
	}
	// one case in 20: a file-store history with operations the directory layout must refuse
	if ctx.Idx%20 == 11 {
		in := genC15Fs(ctx.R, ctx.Thorough(), true)
		ctx.Emit("ops", in, c15Run(in), true, "store=fs", "fs-rejected")
		return
	}
	// every fourth case: log entries with generated author/action/time/transaction id ("txlog")
	txlog := ctx.Idx%4 == 1
	in := genC15(ctx.R, ctx.Thorough(), txlog)
	if txlog && in.Store == "" {
		ctx.Emit("ops", in, c15Run(in), c15Nontrivial(in), "txlog")
		return
	}
	ctx.Emit("ops", in, c15Run(in), c15Nontrivial(in))
}

func corpusC15(ctx *Ctx, op string, raw json.RawMessage) {
	var in c15Input
	if err := json.Unmarshal(raw, &in); err != nil {
		panic(err)
	}
	tags := []string{"corpus"}
	if in.Known != "" {
		tags = append(tags, "fs-known="+in.Known)
	}
	ctx.Emit("ops", &in, c15Run(&in), true, tags...)
}


// setOnlyRemote rewrites the repository's configuration file so that it knows exactly one remote.
func setOnlyRemote(dir, name string) {
	q, _ := json.Marshal(name)
	os.WriteFile(filepath.Join(dir, "config.yaml"), []byte("remote:\n  "+string(q)+":\n    url: http://example.invalid/r\n"), 0644)
}

// ---------------------------------------------------------------------------------------------
// The file-based ref store (pkg/ref/fs; log reader: pkg/ref/fs/logreader.go over
// pkg/misc/backward_scanner.go), 1 case in 5, tag "store=fs".
//
// The oracle is the same abstract map with per-name logs as for the SQL store, in its file-store
// form (Lean: `stepAF`, Spec/RefStore.lean): deleting an unbound name is an error that changes
// nothing; rename/copy REPLACE a bound destination (value and log), as assigning to a map entry
// does. Everything else is the map's own step.
//
// c15FsDomain is the explicit list of what is NOT asked of the file store. It is enforced twice:
// the generator only emits sequences inside it, and the runner refuses a sequence outside it
// (result "fs-domain", so a shrunk or hand-written input cannot wander out of it unnoticed).
//
// (a) not implemented by / meaningless for the file store — excluded, or normalised by the runner:
//  a1. names are files: a name is a clean relative path (non-empty components, none "." or ".."),
//      and no name of the sequence is a directory of another ("heads/a" and "heads/a/b"). The
//      directories a name needs stay behind after a delete/rename and are created even by a failing
//      rename, so the rule is over all names the sequence mentions, bound or not.
//  a2. a log entry's old value is not computed by the store: it writes the entry it is handed. The
//      runner therefore hands in the value Get returns just before the call — what ref.SaveRef, the
//      caller of every logged set in wrgl, does — and the entry read back is compared in full (old
//      value included). A stale caller-supplied old value (`setlogold`) and the SQL fault
//      (`setlogfail`) do not apply.
//  a3. no transactions (NewTransaction is "not implemented", the log text has no field for the
//      id): entries are written without a transaction id and must read back without one.
//  a4. the log is a text line (pkg/ref/reflog.go): author non-empty, without ASCII digits, '<',
//      leading/trailing blanks; e-mail without '>'; action non-empty without ':'; no line breaks
//      anywhere; time 0 <= t < 10^10 s. Fields outside that are not representable (b4 below).
//  a5. Filter/FilterKey take ONE directory: at most one prefix, which is "" or a clean path ending
//      in '/', and no excluded prefixes (b5 below). FilterKey's order is unspecified (breadth-first
//      directory walk): the runner sorts it.
//  a6. bulk rename of a remote onto a remote whose path is nested in it (or the reverse): the
//      outcome depends on the unspecified FilterKey order.
//  a7. the one exception to a1 — operations the layout must REFUSE: `rejrename o n`, `rejcopy o n`,
//      `rejset n v` are Rename / Copy / Set whose destination n cannot be a file in the present
//      state: n is a directory that exists (a directory of a name that was a write's destination:
//      directories are never removed), or a directory of n is a bound name. Such an operation has
//      to fail and, like any failed operation on the map, change nothing: for the model it is not
//      an operation at all (as `setlogfail` on the SQL store); n is not a name of the sequence
//      (it is not "mentioned": it is never read or written otherwise). The runner refuses a
//      rej-operation whose destination is not blocked. The logged set is left out: see the final
//      note of (b).
// (b) behaviour of implemented operations that contradicts the map — kept out of the generated
//     sequences only because it would alarm on the unchanged tree (v1, v2: any two values):
//  b1. Copy of a bound name that has no log returns an error after having written the destination:
//      set heads/a v1; copy heads/a heads/ab -> error; get heads/ab -> v1.
//  b2. Rename (also bulk) / Copy of a name without log onto a name that has a log: the destination
//      keeps its own old log under the new value (the log is not the source's):
//      set heads/a v1; logged set heads/ab v2 "m"; rename heads/a heads/ab -> ok; get heads/ab -> v1;
//      log heads/ab -> [the entry "m" for v2].
//  b3. Copy of a name onto itself truncates it: logged set heads/a v1; copy heads/a heads/a -> ok;
//      get heads/a -> empty value, no error; log heads/a -> nothing.
//  b4. log fields of a4 are written unescaped and come back garbled, as a read error or a panic of
//      the reader: author "R2D2" or "" -> "couldn't parse author name"; action "" -> "couldn't parse
//      action"; action "re:set" -> action "re", message "et: m"; e-mail "x>y" -> time parse error;
//      message "l1\nl2" -> Reflog.Read panics (slice bounds out of range) on the second line.
//  b5. further prefixes and all excluded prefixes are silently ignored (FilterKey(["heads/","tags/"])
//      lists heads only, FilterKey([],["heads/"]) lists heads too); a prefix that is not a
//      directory path matches nothing (FilterKey(["heads/a"]) = [] with heads/a and heads/ab bound).
//  (not generated, a7) a logged set onto a blocked name writes the log entry before the ref write
//      is refused: set heads/b/c v1; logged set heads/b v2 "m" -> error, yet logs/heads/b holds "m".
// ---------------------------------------------------------------------------------------------

type c15FsState struct {
	val       map[string]bool // bound names
	log       map[string]bool // names with a non-empty log
	mentioned map[string]bool // every name the sequence has named so far (a1)
	order     []string        // the same, in order of first mention
	dirs      map[string]bool // directories that exist below refs/ (a7): made for a write's destination, never removed
}

func newC15FsState() *c15FsState {
	return &c15FsState{val: map[string]bool{}, log: map[string]bool{}, mentioned: map[string]bool{}, dirs: map[string]bool{}}
}

// c15Ancestors: the proper directory prefixes of a path ("a/b/c" -> "a", "a/b")
func c15Ancestors(n string) []string {
	l := []string{}
	for i := 0; i < len(n); i++ {
		if n[i] == '/' {
			l = append(l, n[:i])
		}
	}
	return l
}

// wrote records the directories a write to name n creates (createParentDir)
func (t *c15FsState) wrote(n string) {
	for _, d := range c15Ancestors(n) {
		t.dirs[d] = true
	}
}

// blocked: n cannot be a file of the store in this state (a7): it is an existing directory, or one
// of its directories is a bound name, i.e. a file
func (t *c15FsState) blocked(n string) bool {
	if t.dirs[n] {
		return true
	}
	for _, d := range c15Ancestors(n) {
		if t.val[d] {
			return true
		}
	}
	return false
}

func c15CleanPath(p string) bool {
	if p == "" {
		return false
	}
	for _, c := range strings.Split(p, "/") {
		if c == "" || c == "." || c == ".." {
			return false
		}
	}
	return !strings.ContainsAny(p, "\x00\n")
}

func c15Nested(a, b string) bool { return a != b && (strings.HasPrefix(b, a+"/") || strings.HasPrefix(a, b+"/")) }

// mention checks rule a1 for the names and records them
func (t *c15FsState) mention(names ...string) string {
	for _, n := range names {
		if !c15CleanPath(n) {
			return "a1: name is not a clean relative path: " + n
		}
	}
	for i, n := range names {
		for m := range t.mentioned {
			if c15Nested(n, m) {
				return "a1: " + n + " and " + m + ": one is a directory of the other"
			}
		}
		for _, m := range names[:i] {
			if c15Nested(n, m) {
				return "a1: " + n + " and " + m + ": one is a directory of the other"
			}
		}
	}
	for _, n := range names {
		if !t.mentioned[n] {
			t.mentioned[n] = true
			t.order = append(t.order, n)
		}
	}
	return ""
}

func (t *c15FsState) under(pfx string) []string {
	l := []string{}
	for n := range t.val {
		if strings.HasPrefix(n, pfx) {
			l = append(l, n)
		}
	}
	sort.Strings(l)
	return l
}

func c15FsPrefixOK(ps, nps []string) string {
	if len(nps) > 0 || len(ps) > 1 {
		return "a5: one directory prefix at most, no excluded prefixes"
	}
	if len(ps) == 1 && ps[0] != "" && !(strings.HasSuffix(ps[0], "/") && c15CleanPath(strings.TrimSuffix(ps[0], "/"))) {
		return "a5: prefix is not a directory path: " + ps[0]
	}
	return ""
}

func c15FsLogFieldsOK(msg, txid, author, email, action string, t int64) string {
	switch {
	case txid != "":
		return "a3: no transactions"
	case author == "" || strings.ContainsAny(author, "0123456789<\n\r") || strings.TrimSpace(author) != author:
		return "a4: author"
	case strings.ContainsAny(email, ">\n\r"):
		return "a4: e-mail"
	case action == "" || strings.ContainsAny(action, ":\n\r"):
		return "a4: action"
	case strings.ContainsAny(msg, "\n\r"):
		return "a4: message"
	case t < 0 || t >= 10000000000:
		return "a4: time"
	}
	return ""
}

// step says why op lies outside the file store's domain in state t ("" = inside) and, when it is
// inside, moves t the way the map moves (bound / has-a-log only).
func (t *c15FsState) step(op []interface{}) string {
	s := func(i int) string {
		if i < len(op) {
			if x, ok := op[i].(string); ok {
				return x
			}
		}
		return ""
	}
	if len(op) == 0 {
		return "empty op"
	}
	move := func(o, n string, keep bool) {
		// the map's rename (keep=false) / copy (keep=true) onto n, replacing it
		if !t.val[o] || o == n {
			return
		}
		t.val[n] = true
		if t.log[o] {
			t.log[n] = true
		} else {
			delete(t.log, n)
		}
		if !keep {
			delete(t.val, o)
			delete(t.log, o)
		}
	}
	switch s(0) {
	case "set":
		if r := t.mention(s(1)); r != "" {
			return r
		}
		t.val[s(1)] = true
		t.wrote(s(1))
	case "setlog":
		if r := t.mention(s(1)); r != "" {
			return r
		}
		if r := c15FsLogFieldsOK(s(3), "", "a", "e", "act", 1700000000); r != "" {
			return r
		}
		t.val[s(1)], t.log[s(1)] = true, true
		t.wrote(s(1))
	case "setlogx":
		if len(op) != 9 {
			return "setlogx: 9 fields"
		}
		if r := t.mention(s(1)); r != "" {
			return r
		}
		if r := c15FsLogFieldsOK(s(3), s(4), s(5), s(6), s(7), c15Num(op[8])); r != "" {
			return r
		}
		t.val[s(1)], t.log[s(1)] = true, true
		t.wrote(s(1))
	case "get", "log":
		return t.mention(s(1))
	case "del":
		if r := t.mention(s(1)); r != "" {
			return r
		}
		delete(t.val, s(1))
		delete(t.log, s(1))
	case "filter", "filterkey":
		if len(op) != 3 {
			return "filter: 3 fields"
		}
		return c15FsPrefixOK(strs(op[1]), strs(op[2]))
	case "listrefs":
		p := s(1)
		if p != "heads/" && p != "tags/" && !(strings.HasPrefix(p, "remotes/") && len(p) > len("remotes/")+1) {
			return "listrefs: heads/, tags/ or remotes/<r>/"
		}
		return c15FsPrefixOK([]string{p}, nil)
	case "rename", "copy":
		o, n := s(1), s(2)
		if r := t.mention(o, n); r != "" {
			return r
		}
		if s(0) == "copy" {
			if o == n {
				return "b3: copy of a name onto itself"
			}
			if t.val[o] && !t.log[o] {
				return "b1: copy of a bound name without log"
			}
		}
		if t.val[o] && !t.log[o] && t.log[n] && o != n {
			return "b2: source without log onto a destination with a log"
		}
		if s(0) == "rename" || t.val[o] {
			t.wrote(n) // Rename makes the destination's directories first; Copy once the source is open
		}
		move(o, n, s(0) == "copy")
	case "rejrename", "rejcopy":
		o, n := s(1), s(2)
		if r := t.mention(o); r != "" {
			return r
		}
		if !c15CleanPath(n) {
			return "a1: name is not a clean relative path: " + n
		}
		if !t.blocked(n) {
			return "a7: the destination is not blocked: " + n
		}
	case "rejset":
		if !c15CleanPath(s(1)) {
			return "a1: name is not a clean relative path: " + s(1)
		}
		if !t.blocked(s(1)) {
			return "a7: the destination is not blocked: " + s(1)
		}
	case "delallremote":
		if !c15CleanPath(s(1)) {
			return "a1: remote is not a clean relative path"
		}
		for _, k := range t.under("remotes/" + s(1) + "/") {
			delete(t.val, k)
			delete(t.log, k)
		}
	case "renameallremote":
		o, n := s(1), s(2)
		if !c15CleanPath(o) || !c15CleanPath(n) {
			return "a1: remote is not a clean relative path"
		}
		if c15Nested(o, n) {
			return "a6: one remote nested in the other"
		}
		keys := t.under("remotes/" + o + "/")
		dst := []string{}
		for _, k := range keys {
			d := "remotes/" + n + "/" + k[len("remotes/"+o+"/"):]
			dst = append(dst, d)
			if !t.log[k] && t.log[d] && k != d {
				return "b2: source without log onto a destination with a log"
			}
		}
		if r := t.mention(dst...); r != "" {
			return r
		}
		for i, k := range keys {
			t.wrote(dst[i])
			move(k, dst[i], false)
		}
	default:
		return "operation not applicable to the file store: " + s(0)
	}
	return ""
}

// c15FsDomain: "" when the whole sequence lies inside the file store's domain
func c15FsDomain(in *c15Input) string {
	t := newC15FsState()
	for i, op := range in.Ops {
		if r := t.step(op); r != "" {
			return "op " + itoa(i) + ": " + r
		}
	}
	return ""
}

var c15FsWords = []string{"fix", "merge 1a2b3c4, 5d6e7f8", "[from origin] storing head", "update", "x", "rows: 12 <-> 13", "é", "initial commit", "%_", "a  b", "rename", "0"}

// genC15Fs: a history on the file store. A few "hot" refs receive most of the logged sets, so
// their logs grow to dozens of entries of varying length — several 1024-byte chunks of the
// backward scanner that the log reader sits on — and are carried around by rename/copy, into
// directories that have held no log before as well; logs are read in between and, at the end,
// for every name the history has touched.
//
// rej (tag fs-rejected): the history also holds operations the directory layout has to refuse
// (c15FsDomain a7) — rename / copy / plain set onto a name that is an existing directory or lies
// below a bound name — followed by reads of the source and, now and then, by the same rename onto a
// free name; plain sets (refs without a log) are more frequent.
func genC15Fs(r *rand.Rand, thorough bool, rej bool) *c15Input {
	in := &c15Input{Store: "fs"}
	st := newC15FsState()
	n := 60 + r.Intn(70)
	if thorough {
		n = 40 + r.Intn(220)
	}
	pool := append([]string{}, c15FsNames...)
	nm := func() string { return pool[r.Intn(len(pool))] }
	hot := []string{nm(), nm(), nm()}
	bound := func() string {
		l := st.under("")
		if len(l) == 0 || r.Intn(5) == 0 {
			return nm()
		}
		return l[r.Intn(len(l))]
	}
	remote := func() string {
		// mostly a remote that has refs at the moment
		if r.Intn(3) != 0 {
			live := []string{}
			for _, x := range c15FsRemotes {
				if len(st.under("remotes/"+x+"/")) > 0 {
					live = append(live, x)
				}
			}
			if len(live) > 0 {
				return live[r.Intn(len(live))]
			}
		}
		return c15FsRemotes[r.Intn(len(c15FsRemotes))]
	}
	pfx := func() []string {
		if r.Intn(6) == 0 {
			return []string{}
		}
		return []string{c15FsPrefixes[r.Intn(len(c15FsPrefixes))]}
	}
	msg := func(i int) string {
		m := "m" + itoa(i)
		k := r.Intn(3)
		if r.Intn(4) == 0 {
			k = r.Intn(14)
		}
		for j := 0; j < k; j++ {
			m += " " + c15FsWords[r.Intn(len(c15FsWords))]
		}
		if r.Intn(12) == 0 {
			m = ""
		}
		return m
	}
	add := func(op []interface{}) {
		if st.step(op) != "" {
			// outside the domain in this state (c15FsDomain): observe instead
			op = []interface{}{"get", nm()}
			st.step(op)
		}
		in.Ops = append(in.Ops, op)
	}
	// the destinations a7 allows in the present state
	blockedNames := func() []string {
		l := []string{}
		if r.Intn(2) == 0 {
			// existing directories
			for d := range st.dirs {
				if c15CleanPath(d) && st.blocked(d) {
					l = append(l, d)
				}
			}
		}
		if len(l) == 0 {
			// names below a bound name
			for b := range st.val {
				for _, leaf := range []string{"x", "main", "a/b"} {
					l = append(l, b+"/"+leaf)
				}
			}
		}
		sort.Strings(l)
		return l
	}
	for i := 0; i < n; i++ {
		var op []interface{}
		if rej && r.Intn(5) == 0 {
			if r.Intn(3) == 0 {
				add([]interface{}{"set", nm(), c15Sum(r)})
				continue
			}
			if cands := blockedNames(); len(cands) > 0 {
				dst := cands[r.Intn(len(cands))]
				src := bound()
				if r.Intn(3) != 0 {
					for _, h := range hot {
						if st.val[h] && r.Intn(2) == 0 {
							src = h
						}
					}
				}
				switch x := r.Intn(10); {
				case x < 6:
					add([]interface{}{"rejrename", src, dst})
				case x < 8:
					add([]interface{}{"rejcopy", src, dst})
				default:
					add([]interface{}{"rejset", dst, c15Sum(r)})
				}
				if r.Intn(2) == 0 {
					add([]interface{}{"log", src})
				}
				if r.Intn(3) == 0 {
					add([]interface{}{"get", src})
				}
				if r.Intn(3) == 0 {
					to := nm()
					add([]interface{}{"rename", src, to})
					add([]interface{}{"log", to})
				}
				continue
			}
		}
		switch x := r.Intn(40); {
		case x < 19:
			k := hot[r.Intn(len(hot))]
			if r.Intn(6) == 0 {
				k = nm()
			}
			au := c15FsAuthors[r.Intn(len(c15FsAuthors))]
			t := 1700000000 + r.Intn(100000)
			if r.Intn(10) == 0 {
				t = r.Intn(100000)
			}
			op = []interface{}{"setlogx", k, c15Sum(r), msg(i), "", au[0], au[1], c15FsActions[r.Intn(len(c15FsActions))], t}
			if r.Intn(8) == 0 {
				op = []interface{}{"setlog", k, c15Sum(r), "m" + itoa(i)}
			}
		case x < 21:
			op = []interface{}{"set", nm(), c15Sum(r)}
		case x < 23:
			op = []interface{}{"get", nm()}
		case x < 24:
			op = []interface{}{"del", bound()}
		case x < 27:
			op = []interface{}{"rename", bound(), nm()}
		case x < 29:
			op = []interface{}{"copy", bound(), nm()}
		case x < 32:
			k := hot[r.Intn(len(hot))]
			if r.Intn(3) == 0 {
				k = bound()
			}
			op = []interface{}{"log", k}
		case x < 34:
			op = []interface{}{"filter", pfx(), []string{}}
		case x < 35:
			op = []interface{}{"filterkey", pfx(), []string{}}
		case x < 37:
			op = []interface{}{"listrefs", []string{"heads/", "tags/", "remotes/" + remote() + "/"}[r.Intn(3)]}
		case x < 38:
			op = []interface{}{"delallremote", remote()}
		default:
			op = []interface{}{"renameallremote", remote(), remote()}
		}
		add(op)
		// names made by a bulk rename join the alphabet
		for _, k := range st.order {
			seen := false
			for _, q := range pool {
				if q == k {
					seen = true
					break
				}
			}
			if !seen {
				pool = append(pool, k)
			}
		}
	}
	// final observation of everything: all refs, and the log of every name the history has named
	in.Ops = append(in.Ops, []interface{}{"filter", []string{}, []string{}})
	all := append([]string{}, pool...)
	sort.Strings(all)
	for _, k := range all {
		in.Ops = append(in.Ops, []interface{}{"log", k})
	}
	return in
}
