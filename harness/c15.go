package main

import (
	"github.com/wrgl/wrgl/pkg/local"
	"path/filepath"
	"database/sql"
	"encoding/json"
	"errors"
	"io"
	"math/rand"
	"os"
	"sort"
	"time"

	"github.com/google/uuid"
	"github.com/wrgl/wrgl/pkg/ref"
	reffs "github.com/wrgl/wrgl/pkg/ref/fs"
)

func init() {
	runners["C15"] = runC15
	corpusRunners["C15"] = corpusC15
}

type c15Input struct {
	Ops   [][]interface{} `json:"ops"`
	ViaCLI bool           `json:"viaCLI,omitempty"` // delallremote / renameallremote are run as `wrgl remote remove / rename` on a repository directory
	Store string          `json:"store,omitempty"` // "" / "sql": pkg/ref/sql; "fs": pkg/ref/fs (names are files below a root directory)
}

// names for the file store: no name is a directory prefix of another
var c15FsNames = []string{
	"remotes/my_repo/x", "remotes/myXrepo/x", "remotes/MY_REPO/x", "remotes/my_repo/y/z", "remotes/my%repo/x",
	"heads/a", "heads/b/c", "heads/ab", "heads/A", "heads/%", "heads/_", "tags/a", "remotes/o/main", "remotes/origin/main", "txs/1/a",
	"heads/feature/beta_1", "remotes/Origin_2/main",
}

var c15Names = []string{
	"remotes/my_repo/x", "remotes/myXrepo/x", "remotes/MY_REPO/x", "remotes/my_repo/y/z", "remotes/my%repo/x",
	"heads/a", "heads/a/b", "heads/ab", "heads/A", "heads/%", "heads/_", "tags/a", "remotes/o/main", "remotes/origin/main", "%", "txs/1/a",
}
var c15Prefixes = []string{"heads/", "heads/a", "heads/a/", "remotes/my_repo/", "remotes/my%", "remotes/", "tags/", "", "%", "heads/_", "HEADS/", "remotes/o"}
var c15Remotes = []string{"my_repo", "myXrepo", "MY_REPO", "my%repo", "o", "origin", "my_", "origin/eu", "o/main"}

func c15Sum(r *rand.Rand) string {
	b := make([]byte, 16)
	b[0] = byte(1 + r.Intn(5))
	return hx(b)
}

func c15Num(v interface{}) int64 {
	switch x := v.(type) {
	case float64:
		return int64(x)
	case int:
		return int64(x)
	case int64:
		return x
	}
	return 0
}

// caller-supplied log fields of the "txlog" cases: two transactions and none; authors, actions
var c15Txids = []string{"", "00000000-0000-4000-8000-000000000001", "00000000-0000-4000-8000-000000000002"}
var c15Authors = [][]string{{"a", "e"}, {"Ann Lee", "ann@example.com"}, {"", ""}, {"b_%", "B@Example.com"}}
var c15Actions = []string{"act", "commit", "fetch", "merge", ""}

func strs(l interface{}) []string {
	out := []string{}
	switch v := l.(type) {
	case []string:
		return v
	case []interface{}:
		for _, x := range v {
			out = append(out, x.(string))
		}
	}
	return out
}

func c15Run(in *c15Input) Res {
	return Guard(func() Res {
		var rs ref.Store
		var sqlDB *sql.DB
		cliDir := ""
		if in.Store == "fs" {
			dir, err := os.MkdirTemp(privateTmp(), "reffs-")
			if err != nil {
				return Err("tmpdir")
			}
			defer os.RemoveAll(dir)
			rs = reffs.NewStore(dir)
		} else if in.ViaCLI {
			root, err := os.MkdirTemp(privateTmp(), "rcli-")
			if err != nil {
				return Err("tmpdir")
			}
			defer os.RemoveAll(root)
			os.Setenv("XDG_CONFIG_HOME", filepath.Join(root, "xdg"))
			os.Setenv("HOME", root)
			cliDir = filepath.Join(root, "repo", ".wrgl")
			os.MkdirAll(filepath.Join(root, "repo"), 0755)
			rd, err := local.NewRepoDir(cliDir, "")
			if err != nil {
				return Err("repodir")
			}
			if err := rd.Init(); err != nil {
				return Err("init")
			}
			defer rd.Close()
			rs = rd.OpenRefStore()
		} else {
			s, db, closeRS := NewRefStoreDB()
			defer closeRS()
			rs = s
			sqlDB = db
		}
		out := []interface{}{}
		txMade := map[uuid.UUID]bool{}
		okErr := func(err error) {
			if err != nil {
				out = append(out, "err")
			} else {
				out = append(out, "ok")
			}
		}
		pairs := func(m map[string][]byte, err error) {
			if err != nil {
				out = append(out, "err")
				return
			}
			ks := []string{}
			for k := range m {
				ks = append(ks, k)
			}
			sort.Strings(ks)
			l := [][]string{}
			for _, k := range ks {
				l = append(l, []string{k, hx(m[k])})
			}
			out = append(out, l)
		}
		for _, op := range in.Ops {
			s := func(i int) string { return op[i].(string) }
			switch s(0) {
			case "set":
				okErr(rs.Set(s(1), unhx(s(2))))
			case "setlog":
				okErr(rs.SetWithLog(s(1), unhx(s(2)), &ref.Reflog{NewOID: unhx(s(2)), AuthorName: "a", AuthorEmail: "e", Time: time.Unix(1700000000, 0), Action: "act", Message: s(3)}))
			case "setlogold":
				// the caller supplies a stale old value: the store must log the value the ref really held
				okErr(rs.SetWithLog(s(1), unhx(s(2)), &ref.Reflog{OldOID: unhx(s(4)), NewOID: unhx(s(2)), AuthorName: "a", AuthorEmail: "e", Time: time.Unix(1700000000, 0), Action: "act", Message: s(3)}))
			case "setlogx":
				// every caller-supplied field of the log entry chosen by the generator:
				// [_, name, value, message, txid or "", author, e-mail, action, unix time]
				rl := &ref.Reflog{NewOID: unhx(s(2)), AuthorName: s(5), AuthorEmail: s(6), Time: time.Unix(c15Num(op[8]), 0), Action: s(7), Message: s(3)}
				if s(4) != "" {
					id, err := uuid.Parse(s(4))
					if err != nil {
						return Err("txid")
					}
					if !txMade[id] {
						// the transaction the entry belongs to exists
						txMade[id] = true
						if _, err := rs.NewTransaction(&ref.Transaction{ID: id, Status: ref.TSInProgress, Begin: time.Unix(1700000000, 0)}); err != nil && in.Store != "fs" {
							return Err("new-tx")
						}
					}
					rl.Txid = &id
				}
				okErr(rs.SetWithLog(s(1), unhx(s(2)), rl))
			case "setlogfail":
				// the reflog insert fails (trigger): ref and log are one SQL transaction, nothing may change
				if sqlDB == nil {
					out = append(out, "err")
					break
				}
				if _, err := sqlDB.Exec("CREATE TRIGGER verif_fail_log BEFORE INSERT ON reflogs BEGIN SELECT RAISE(ABORT, 'injected'); END"); err != nil {
					return Err("trigger")
				}
				okErr(rs.SetWithLog(s(1), unhx(s(2)), &ref.Reflog{NewOID: unhx(s(2)), AuthorName: "a", AuthorEmail: "e", Time: time.Unix(1700000000, 0), Action: "act", Message: s(3)}))
				if _, err := sqlDB.Exec("DROP TRIGGER verif_fail_log"); err != nil {
					return Err("trigger-drop")
				}
			case "get":
				v, err := rs.Get(s(1))
				if err != nil {
					out = append(out, nil)
				} else {
					out = append(out, hx(v))
				}
			case "del":
				okErr(rs.Delete(s(1)))
			case "filter":
				pairs(rs.Filter(strs(op[1]), strs(op[2])))
			case "filterkey":
				ks, err := rs.FilterKey(strs(op[1]), strs(op[2]))
				if err != nil {
					out = append(out, "err")
				} else {
					if ks == nil {
						ks = []string{}
					}
					out = append(out, ks)
				}
			case "rename":
				okErr(rs.Rename(s(1), s(2)))
			case "copy":
				okErr(rs.Copy(s(1), s(2)))
			case "log":
				lr, err := rs.LogReader(s(1))
				if err != nil {
					out = append(out, "notfound")
					break
				}
				es := [][]interface{}{}
				bad := false
				for {
					l, err := lr.Read()
					if errors.Is(err, io.EOF) {
						break
					}
					if err != nil {
						bad = true
						break
					}
					var old interface{}
					if l.OldOID != nil {
						old = hx(l.OldOID)
					}
					var txid interface{}
					if l.Txid != nil {
						txid = l.Txid.String()
					}
					es = append(es, []interface{}{old, hx(l.NewOID), l.Message, txid, l.AuthorName, l.AuthorEmail, l.Action, l.Time.Unix()})
					if len(es) > 10000 {
						bad = true
						break
					}
				}
				lr.Close()
				if bad {
					out = append(out, "err")
				} else {
					out = append(out, es)
				}
			case "listrefs":
				// the unexported listRefs is reached through its exported instances
				p := s(1)
				switch {
				case p == "heads/":
					pairs(ref.ListHeads(rs))
				case p == "tags/":
					pairs(ref.ListTags(rs))
				default:
					// remotes/<r>/
					r := p[len("remotes/") : len(p)-1]
					pairs(ref.ListRemoteRefs(rs, r))
				}
			case "delallremote":
				if cliDir != "" {
					// the repository's configuration knows exactly this remote
					setOnlyRemote(cliDir, s(1))
					_, err := cli(cliDir, "remote", "remove", s(1))
					okErr(err)
					break
				}
				okErr(ref.DeleteAllRemoteRefs(rs, s(1)))
			case "renameallremote":
				if cliDir != "" && s(1) != s(2) {
					setOnlyRemote(cliDir, s(1))
					_, err := cli(cliDir, "remote", "rename", s(1), s(2))
					okErr(err)
					break
				}
				okErr(ref.RenameAllRemoteRefs(rs, s(1), s(2)))
			}
		}
		return Ok(out)
	})
}

func genC15(r *rand.Rand, thorough bool, txlog bool) *c15Input {
	n := 5 + r.Intn(30)
	if thorough {
		n = 5 + r.Intn(60)
	}
	in := &c15Input{}
	if os.Getenv("VERIF_C15_FS") == "1" && r.Intn(5) == 0 {
		// the legacy file store (pkg/ref/fs): not generated by default. It is reachable from no command
		// (only a migration test builds a repository with it) and differs from the map-with-logs
		// model by design: reflog entries carry no old value, rename overwrites an existing name,
		// prefix filters walk directories and ignore all but the first prefix. See DESIGN.md §0.7.
		in.Store = "fs"
		nm := func() string { return c15FsNames[r.Intn(len(c15FsNames))] }
		for i := 0; i < n; i++ {
			var op []interface{}
			switch x := r.Intn(14); {
			case x < 2:
				op = []interface{}{"set", nm(), c15Sum(r)}
			case x < 7:
				op = []interface{}{"setlog", nm(), c15Sum(r), "m" + itoa(i)}
			case x < 9:
				op = []interface{}{"get", nm()}
			case x < 10:
				op = []interface{}{"del", nm()}
			case x < 12:
				op = []interface{}{"rename", nm(), nm()}
			case x < 13:
				op = []interface{}{"copy", nm(), nm()}
			default:
				op = []interface{}{"log", nm()}
			}
			in.Ops = append(in.Ops, op)
		}
		in.Ops = append(in.Ops, []interface{}{"filter", []string{}, []string{}})
		for _, x := range c15FsNames {
			in.Ops = append(in.Ops, []interface{}{"log", x})
		}
		return in
	}
	if r.Intn(6) == 0 {
		in.ViaCLI = true
	}
	if in.ViaCLI {
		in.Ops = append(in.Ops, []interface{}{"setlog", "remotes/origin/main", c15Sum(r), "init"}, []interface{}{"setlog", "remotes/o/main", c15Sum(r), "init"},
			[]interface{}{"renameallremote", "origin", "origin/eu"})
	}
	name := func() string { return c15Names[r.Intn(len(c15Names))] }
	pfxs := func() []string {
		k := r.Intn(3)
		l := []string{}
		for i := 0; i < k; i++ {
			l = append(l, c15Prefixes[r.Intn(len(c15Prefixes))])
		}
		return l
	}
	for i := 0; i < n; i++ {
		var op []interface{}
		switch x := r.Intn(20); {
		case x < 3:
			op = []interface{}{"set", name(), c15Sum(r)}
		case x < 8:
			op = []interface{}{"setlog", name(), c15Sum(r), "m" + itoa(i)}
			if r.Intn(8) == 0 {
				op[0] = "setlogfail"
			} else if r.Intn(6) == 0 {
				op = []interface{}{"setlogold", op[1], op[2], op[3], c15Sum(r)}
			}
		case x < 10:
			op = []interface{}{"get", name()}
		case x < 11:
			op = []interface{}{"del", name()}
		case x < 13:
			op = []interface{}{"filter", pfxs(), pfxs()}
		case x < 14:
			op = []interface{}{"filterkey", pfxs(), pfxs()}
		case x < 15:
			op = []interface{}{"rename", name(), name()}
		case x < 16:
			op = []interface{}{"copy", name(), name()}
		case x < 17:
			op = []interface{}{"log", name()}
		case x < 18:
			p := []string{"heads/", "tags/", "remotes/" + c15Remotes[r.Intn(len(c15Remotes))] + "/"}[r.Intn(3)]
			op = []interface{}{"listrefs", p}
		case x < 19:
			op = []interface{}{"delallremote", c15Remotes[r.Intn(len(c15Remotes))]}
		default:
			op = []interface{}{"renameallremote", c15Remotes[r.Intn(len(c15Remotes))], c15Remotes[r.Intn(len(c15Remotes))]}
			if in.ViaCLI && r.Intn(2) == 0 {
				// the new name nested below the old one (or the other way round)
				pr := [][]string{{"origin", "origin/eu"}, {"o", "o/main"}, {"origin/eu", "origin"}}[r.Intn(3)]
				op = []interface{}{"renameallremote", pr[0], pr[1]}
			}
		}
		in.Ops = append(in.Ops, op)
	}
	if txlog {
		// histories whose log entries differ in every caller-supplied field — some written under a
		// transaction id, as `transaction commit` does — and are then carried along by copy/rename.
		// (Draws made after all of the above: the plain cases are unchanged.)
		logged := []string{}
		for i, op := range in.Ops {
			k := op[0].(string)
			if (k != "setlog" && k != "setlogold") || r.Intn(3) == 0 {
				continue
			}
			au := c15Authors[r.Intn(len(c15Authors))]
			in.Ops[i] = []interface{}{"setlogx", op[1], op[2], op[3], c15Txids[r.Intn(len(c15Txids))], au[0], au[1],
				c15Actions[r.Intn(len(c15Actions))], 1700000000 + r.Intn(100000)}
			logged = append(logged, op[1].(string))
		}
		for j := 0; j < 3; j++ {
			src := name()
			if len(logged) > 0 && r.Intn(4) != 0 {
				src = logged[r.Intn(len(logged))]
			}
			au := c15Authors[r.Intn(len(c15Authors))]
			in.Ops = append(in.Ops, []interface{}{"setlogx", src, c15Sum(r), "x" + itoa(j), c15Txids[r.Intn(len(c15Txids))], au[0], au[1],
				c15Actions[r.Intn(len(c15Actions))], 1700000000 + r.Intn(100000)})
			dst := name()
			if r.Intn(2) == 0 {
				in.Ops = append(in.Ops, []interface{}{"del", dst})
			}
			in.Ops = append(in.Ops, []interface{}{[]string{"copy", "rename", "copy"}[r.Intn(3)], src, dst}, []interface{}{"log", dst})
		}
	}
	// final observation of everything
	in.Ops = append(in.Ops, []interface{}{"filter", []string{}, []string{}})
	for _, nm := range c15Names {
		in.Ops = append(in.Ops, []interface{}{"log", nm})
	}
	return in
}

func c15Nontrivial(in *c15Input) bool {
	for _, op := range in.Ops {
		switch op[0].(string) {
		case "filter", "filterkey":
			if len(strs(op[1]))+len(strs(op[2])) > 0 {
				return true
			}
		case "listrefs", "delallremote", "renameallremote":
			return true
		}
	}
	return false
}

func runC15(ctx *Ctx) {
	// every fourth case: log entries with generated author/action/time/transaction id ("txlog")
	txlog := ctx.Idx%4 == 1
	in := genC15(ctx.R, ctx.Thorough(), txlog)
	if txlog && in.Store == "" {
		ctx.Emit("ops", in, c15Run(in), c15Nontrivial(in), "txlog")
		return
	}
	ctx.Emit("ops", in, c15Run(in), c15Nontrivial(in))
}

func corpusC15(ctx *Ctx, op string, raw json.RawMessage) {
	var in c15Input
	if err := json.Unmarshal(raw, &in); err != nil {
		panic(err)
	}
	ctx.Emit("ops", &in, c15Run(&in), true, "corpus")
}


// setOnlyRemote rewrites the repository's configuration file so that it knows exactly one remote.
func setOnlyRemote(dir, name string) {
	q, _ := json.Marshal(name)
	os.WriteFile(filepath.Join(dir, "config.yaml"), []byte("remote:\n  "+string(q)+":\n    url: http://example.invalid/r\n"), 0644)
}
