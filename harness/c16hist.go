package main

// C16, histories: several ingests in a row on ONE sorter, the way its owners use it (doctor's
// resolver and ReingestTable Reset() the sorter and load the next table; a caller whose ingest failed
// on a store error resets, reloads and tries again). Every ingest of the history has to be over when
// it returns - its workers and the sorter's producer goroutine included - because from then on the
// sorter belongs to the caller again. What is observed per attempt: error or table (compared with a
// single-threaded ingest of the same rows on a fresh sorter), and how many writes still reached the
// store through this attempt's handle after the attempt had returned.
//
// The store is slow (every write takes storeDelayUs) and an attempt may carry one transient write
// error (the failAt-th write of the attempt fails once, the store is fine afterwards): the error
// then reaches one worker while its siblings are inside their own writes and - with more blocks than
// the sorted-block channel and the workers hold - the producer is blocked in a send.

import (
	"bytes"
	"fmt"
	"io"
	"math/rand"
	"os"
	"runtime"
	"sync"
	"sync/atomic"
	"time"

	"github.com/go-logr/logr"
	"github.com/wrgl/wrgl/pkg/ingest"
	"github.com/wrgl/wrgl/pkg/objects"
	"github.com/wrgl/wrgl/pkg/sorter"
	"github.com/wrgl/wrgl/pkg/verifhook"
)

type c16HistAttempt struct {
	Rows    int `json:"rows"`
	KeyBase int `json:"keyBase"` // keys are keyBase, keyBase+1, ... (zero-padded): attempts may load different tables
	Cols    int `json:"cols"`    // number of value columns
	// FailAt: the failAt-th write of this attempt (0-based) fails, once; -1: no fault
	FailAt int `json:"failAt"`
	// PauseUs: what the caller does between the return of the previous attempt and Reset(): nothing,
	// or something that takes this long
	PauseUs   int   `json:"pauseUs"`
	BlockRows []int `json:"blockRows"`
	// Schedule for the model: actor ids, 0..effectiveWorkers-1 = workers, effectiveWorkers = producer
	Schedule []int `json:"schedule"`
}

type c16HistInput struct {
	Workers      int              `json:"workers"`
	EffWorkers   int              `json:"effectiveWorkers"`
	Procs        int              `json:"gomaxprocs"`
	YieldSeed    int64            `json:"yieldSeed"`
	StoreDelayUs int              `json:"storeDelayUs"`
	RunSize      uint64           `json:"runSize,omitempty"`
	ChanBuffer   int              `json:"chanBuffer"` // sorter.go SortedBlocks: make(chan *Block, 10)
	SettleUs     int              `json:"settleUs"`   // how long the harness keeps listening for late writes after the last attempt
	Attempts     []c16HistAttempt `json:"attempts"`
}

// c16AttemptStore is the handle through which one attempt reaches the store: slow writes, at most one
// transient write error, and a count of the writes that arrive after the attempt has returned.
type c16AttemptStore struct {
	objects.Store
	delay    time.Duration
	mu       sync.Mutex
	writes   int
	failAt   int
	returned atomic.Bool
	late     atomic.Int64
}

func (s *c16AttemptStore) Set(k, v []byte) error {
	late := s.returned.Load()
	s.mu.Lock()
	n := s.writes
	s.writes++
	s.mu.Unlock()
	if s.delay > 0 {
		time.Sleep(s.delay)
	}
	if n == s.failAt {
		if late || s.returned.Load() {
			s.late.Add(1)
		}
		return fmt.Errorf("injected transient write error (write %d)", n)
	}
	if late || s.returned.Load() {
		s.late.Add(1)
	}
	return s.Store.Set(k, v)
}

func c16HistTable(a *c16HistAttempt) *TableSpec {
	t := &TableSpec{Columns: []string{"k"}, PK: []string{"k"}}
	for c := 0; c < a.Cols; c++ {
		t.Columns = append(t.Columns, fmt.Sprintf("v%d", c))
	}
	for i := 0; i < a.Rows; i++ {
		row := []string{fmt.Sprintf("%07d", a.KeyBase+i)}
		for c := 0; c < a.Cols; c++ {
			row = append(row, fmt.Sprintf("%d.%d", (a.KeyBase+i)%97, c))
		}
		t.Rows = append(t.Rows, row)
	}
	return t
}

func c16HistRun(in *c16HistInput) Res {
	old := runtime.GOMAXPROCS(in.Procs)
	defer runtime.GOMAXPROCS(old)
	return Guard(func() Res {
		csvs := make([][]byte, len(in.Attempts))
		type refT struct {
			sum          []byte
			rows, blocks int
			idx          string
		}
		refs := make([]refT, len(in.Attempts))
		// references: every table ingested on its own, fresh sorter, one worker, no yields
		verifhook.SetSeed(0)
		for i := range in.Attempts {
			csvs[i] = c16HistTable(&in.Attempts[i]).CSV(0)
			rdb := NewMemStore()
			sum, err := c16Ingest(csvs[i], 1, rdb, 0)
			if err != nil {
				return Err("reference-ingest")
			}
			t, err := objects.GetTable(rdb, sum)
			if err != nil {
				return Err("reference-ingest")
			}
			ti, _ := objects.GetTableIndex(rdb, sum)
			refs[i] = refT{sum, int(t.RowsCount), len(t.Blocks), fmt.Sprint(ti)}
		}
		verifhook.SetSeed(in.YieldSeed)
		defer verifhook.SetSeed(0)
		done := make(chan Res, 1)
		go func() {
			db := NewMemStore()
			runSize := in.RunSize
			if runSize == 0 {
				runSize = 1 << 30
			}
			s, err := sorter.NewSorter(sorter.WithRunSize(runSize))
			if err != nil {
				done <- Err("new-sorter")
				return
			}
			stores := make([]*c16AttemptStore, len(in.Attempts))
			outs := make([]map[string]interface{}, len(in.Attempts))
			for i := range in.Attempts {
				a := &in.Attempts[i]
				if a.PauseUs > 0 {
					time.Sleep(time.Duration(a.PauseUs) * time.Microsecond)
				}
				// the caller owns the sorter: empty it and load this attempt's table
				s.Reset()
				if err := s.SortFile(io.NopCloser(bytes.NewReader(csvs[i])), []string{"k"}); err != nil {
					done <- Err("sort-file")
					return
				}
				st := &c16AttemptStore{Store: db, delay: time.Duration(in.StoreDelayUs) * time.Microsecond, failAt: a.FailAt}
				stores[i] = st
				sum, err := ingest.NewInserter(st, s, logr.Discard(), ingest.WithNumWorkers(in.Workers)).IngestTableFromSorter(s.Columns, s.PK)
				st.returned.Store(true)
				o := map[string]interface{}{"error": err != nil}
				if err == nil {
					t, gerr := objects.GetTable(db, sum)
					if gerr != nil {
						o["unreadable"] = true
					} else {
						ti, e2 := objects.GetTableIndex(db, sum)
						o["sameSum"] = bytes.Equal(sum, refs[i].sum) && e2 == nil && fmt.Sprint(ti) == refs[i].idx
						o["rowsCount"] = t.RowsCount
						o["blocks"] = len(t.Blocks)
					}
				}
				o["refRows"] = refs[i].rows
				o["refBlocks"] = refs[i].blocks
				outs[i] = o
			}
			// nothing of any attempt may still be at work
			time.Sleep(time.Duration(in.SettleUs) * time.Microsecond)
			for i := range outs {
				outs[i]["lateWrites"] = stores[i].late.Load()
			}
			s.Close()
			done <- Ok(map[string]interface{}{"attempts": outs})
		}()
		select {
		case r := <-done:
			return r
		case <-hangAfter(60 * time.Second):
			return Err("hang")
		}
	})
}

// c16HistFill derives what the model needs for one attempt: block sizes and a schedule over the
// workers and the producer (random, then a round-robin tail long enough for everybody to finish).
func c16HistFill(r *rand.Rand, a *c16HistAttempt, eff int) {
	nb := (a.Rows + 254) / 255
	a.BlockRows = nil
	for i := 0; i < nb-1; i++ {
		a.BlockRows = append(a.BlockRows, 255)
	}
	a.BlockRows = append(a.BlockRows, a.Rows-(nb-1)*255)
	a.Schedule = nil
	for i := 0; i < 6*nb; i++ {
		a.Schedule = append(a.Schedule, r.Intn(eff+1))
	}
	for i := 0; i < 3*nb+4; i++ {
		for w := 0; w <= eff; w++ {
			a.Schedule = append(a.Schedule, w)
		}
	}
}

// c16AllWorkersFail: histories in which EVERY worker of an attempt fails (a single worker hitting
// the transient error) are generated too. They were held back behind a flag while wrgl returned from
// such an ingest with the sorter's producer still running (repaired in wrgl, 162eca1); the variable
// VERIF_C16_HIST_NO_ALL_WORKERS_FAIL switches them off again for experiments.
func c16AllWorkersFail() bool { return os.Getenv("VERIF_C16_HIST_NO_ALL_WORKERS_FAIL") == "" }

func runC16History(ctx *Ctx) {
	r := ctx.R
	const chanBuffer = 10
	in := &c16HistInput{ChanBuffer: chanBuffer}
	// at least two workers take blocks: when one of them fails the others go on
	in.Workers = []int{4, 4, 5, 6, 8, 10}[r.Intn(6)]
	allFail := c16AllWorkersFail() && r.Intn(2) == 0
	if allFail {
		in.Workers = 1 + r.Intn(3)
	}
	eff := in.Workers - 2
	if eff <= 0 {
		eff = 1
	}
	in.EffWorkers = eff
	in.Procs = []int{1, 2, 4, 16}[r.Intn(4)]
	in.YieldSeed = 1 + r.Int63n(1<<40)
	in.StoreDelayUs = []int{0, 300, 1000, 3000}[r.Intn(4)]
	if allFail {
		in.StoreDelayUs = []int{0, 0, 50, 300}[r.Intn(4)]
	}
	in.SettleUs = 3*in.StoreDelayUs + 2000
	if r.Intn(4) == 0 {
		in.RunSize = uint64(8000 + r.Intn(40000))
	}
	na := 2 + r.Intn(2)
	base := 0
	for i := 0; i < na; i++ {
		a := c16HistAttempt{FailAt: -1, Cols: 1 + r.Intn(3)}
		// more blocks than the channel and the workers hold together, or (1 in 4) a short table
		nb := chanBuffer + eff*(2+r.Intn(3)) + 1 + r.Intn(eff)
		if r.Intn(4) == 0 {
			nb = 1 + r.Intn(chanBuffer)
		}
		a.Rows = (nb-1)*255 + 1 + r.Intn(255)
		switch {
		case i > 0 && r.Intn(2) == 0:
			// the same rows again (a retry)
			p := in.Attempts[i-1]
			a.Rows, a.KeyBase, a.Cols = p.Rows, p.KeyBase, p.Cols
			nb = (a.Rows + 254) / 255
		case r.Intn(2) == 0:
			a.KeyBase = base + r.Intn(1000)
		default:
			a.KeyBase = r.Intn(500)
		}
		base = a.KeyBase + a.Rows
		// every attempt but the last: mostly a transient write error, early (the producer is far from
		// done) or anywhere, the writes of the coordinator included
		if i < na-1 || r.Intn(4) == 0 {
			switch r.Intn(6) {
			case 0:
			case 1, 2:
				a.FailAt = r.Intn(2*nb + 3)
			default:
				a.FailAt = r.Intn(2*eff + 2)
			}
		}
		if i > 0 {
			a.PauseUs = []int{0, 0, 200, 2000}[r.Intn(4)]
		}
		c16HistFill(r, &a, eff)
		in.Attempts = append(in.Attempts, a)
	}
	tags := []string{"history", fmt.Sprintf("procs=%d", in.Procs), fmt.Sprintf("attempts=%d", na)}
	if allFail {
		tags = append(tags, "all-workers-fail")
	}
	if in.RunSize > 0 {
		tags = append(tags, "spilled-runs")
	}
	ctx.Emit("ingest-history", in, c16HistRun(in), true, tags...)
}
