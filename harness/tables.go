package main

import (
	"bytes"
	"encoding/csv"
	"fmt"
	"io"
	"math/rand"
	"sort"

	"github.com/go-logr/logr"
	"github.com/wrgl/wrgl/pkg/ingest"
	"github.com/wrgl/wrgl/pkg/objects"
	"github.com/wrgl/wrgl/pkg/sorter"
)

// TableSpec is a generated logical table.
type TableSpec struct {
	Columns []string
	PK      []string // primary key column names, in key order
	Rows    [][]string
}

func (t *TableSpec) PKIdx() []int {
	out := []int{}
	for _, k := range t.PK {
		for i, c := range t.Columns {
			if c == k {
				out = append(out, i)
			}
		}
	}
	return out
}

func (t *TableSpec) CSV(comma rune) []byte {
	buf := bytes.NewBuffer(nil)
	w := csv.NewWriter(buf)
	if comma != 0 {
		w.Comma = comma
	}
	w.Write(t.Columns)
	for _, r := range t.Rows {
		w.Write(r)
	}
	w.Flush()
	return buf.Bytes()
}

type IngestCfg struct {
	RunSize uint64
	Workers int
	Comma   rune
}

// IngestCSV runs the real ingest pipeline (sorter + inserter) on CSV bytes.
func IngestCSV(db objects.Store, csvBytes []byte, pk []string, cfg IngestCfg) ([]byte, error) {
	opts := []sorter.SorterOption{}
	rs := cfg.RunSize
	if rs == 0 {
		rs = 1 << 30
	}
	opts = append(opts, sorter.WithRunSize(rs))
	if cfg.Comma != 0 {
		opts = append(opts, sorter.WithDelimiter(cfg.Comma))
	}
	s, err := sorter.NewSorter(opts...)
	if err != nil {
		return nil, err
	}
	w := cfg.Workers
	if w == 0 {
		w = 1
	}
	return ingest.IngestTable(db, s, io.NopCloser(bytes.NewReader(csvBytes)), pk, logr.Discard(), ingest.WithNumWorkers(w))
}

// BIdxDump is a decoded block index.
type BIdxDump struct {
	SortedOff []int      `json:"sortedOff"`
	Rows      [][]string `json:"rows"` // [pkSum hex, rowSum hex]
}

type BlockDump struct {
	Sum  string     `json:"sum"`
	Rows [][]string `json:"rows,omitempty"` // cells hex
	Idx  *BIdxDump  `json:"idx,omitempty"`
	IdxSum string   `json:"idxSum,omitempty"`
}

// TableDump is everything stored about a table, canonicalised for the Lean driver.
type TableDump struct {
	Sum       string      `json:"sum"`
	Columns   []string    `json:"columns"`
	PK        []int       `json:"pk"`
	RowsCount int         `json:"rowsCount"`
	Blocks    []BlockDump `json:"blocks"`
	TblIdx    [][]string  `json:"tblIdx"`
	NumIdx    int         `json:"numBlockIndices"`
	Problems  []string    `json:"problems,omitempty"`
}

func parseBlockIndexBytes(b []byte) (*BIdxDump, error) {
	if len(b) < 1 {
		return nil, fmt.Errorf("empty block index")
	}
	n := int(b[0])
	if len(b) != 1+n+32*n {
		return nil, fmt.Errorf("block index length %d != %d", len(b), 1+n+32*n)
	}
	d := &BIdxDump{SortedOff: make([]int, n), Rows: make([][]string, n)}
	for i := 0; i < n; i++ {
		d.SortedOff[i] = int(b[1+i])
		r := b[1+n+32*i : 1+n+32*(i+1)]
		d.Rows[i] = []string{hx(r[:16]), hx(r[16:])}
	}
	return d, nil
}

// DumpTable reads a table and all its parts back from the store.
func DumpTable(db objects.Store, sum []byte, withRows bool) (*TableDump, error) {
	tbl, err := objects.GetTable(db, sum)
	if err != nil {
		return nil, fmt.Errorf("GetTable: %w", err)
	}
	d := &TableDump{Sum: hx(sum), Columns: hxRow(tbl.Columns), RowsCount: int(tbl.RowsCount), PK: []int{}, NumIdx: len(tbl.BlockIndices)}
	for _, p := range tbl.PK {
		d.PK = append(d.PK, int(p))
	}
	for i, bs := range tbl.Blocks {
		bd := BlockDump{Sum: hx(bs)}
		if withRows {
			rows, _, err := objects.GetBlock(db, nil, bs)
			if err != nil {
				d.Problems = append(d.Problems, fmt.Sprintf("GetBlock %d: %v", i, err))
			} else {
				bd.Rows = hxRows(rows)
			}
		}
		if i < len(tbl.BlockIndices) {
			bd.IdxSum = hx(tbl.BlockIndices[i])
			idx, _, err := objects.GetBlockIndex(db, nil, tbl.BlockIndices[i])
			if err != nil {
				d.Problems = append(d.Problems, fmt.Sprintf("GetBlockIndex %d: %v", i, err))
			} else {
				buf := newBuf()
				idx.WriteTo(buf)
				bi, err := parseBlockIndexBytes(buf.Bytes())
				if err != nil {
					d.Problems = append(d.Problems, fmt.Sprintf("block index %d: %v", i, err))
				} else {
					bd.Idx = bi
				}
			}
		}
		d.Blocks = append(d.Blocks, bd)
	}
	ti, err := objects.GetTableIndex(db, sum)
	if err != nil {
		d.Problems = append(d.Problems, fmt.Sprintf("GetTableIndex: %v", err))
		d.TblIdx = [][]string{}
	} else {
		d.TblIdx = hxRows(ti)
		if d.TblIdx == nil {
			d.TblIdx = [][]string{}
		}
	}
	if d.Blocks == nil {
		d.Blocks = []BlockDump{}
	}
	return d, nil
}

// --- generators ---------------------------------------------------------------------------------

var cellAlphabet = []string{"", "a", "b", "ab", "ba", "\"", "\n", ",", "\xff", "A", " ", "0", "é", "a\"b", "x,y"}

func genCell(r *rand.Rand) string {
	if r.Intn(12) == 0 {
		n := 3 + r.Intn(20)
		b := make([]byte, n)
		for i := range b {
			b[i] = byte(r.Intn(256))
		}
		return string(b)
	}
	return cellAlphabet[r.Intn(len(cellAlphabet))]
}

// GenTable makes a table with nCols columns and about nRows rows. keyMode: 0 unique keys
// (counter-based), 1 small key space (duplicates), 2 random.
func GenTable(r *rand.Rand, nCols, nRows int, pkCols []int, keyMode int) *TableSpec {
	t := &TableSpec{}
	for i := 0; i < nCols; i++ {
		t.Columns = append(t.Columns, string(rune('a'+i)))
	}
	for _, p := range pkCols {
		t.PK = append(t.PK, t.Columns[p])
	}
	perm := r.Perm(nRows)
	for i := 0; i < nRows; i++ {
		row := make([]string, nCols)
		for c := range row {
			row[c] = genCell(r)
		}
		switch keyMode {
		case 0:
			// unique keys: spread the counter over the key columns (or the first column when keyless)
			kc := pkCols
			if len(kc) == 0 {
				kc = []int{0}
			}
			v := perm[i]
			if len(kc) == 1 {
				row[kc[0]] = fmt.Sprintf("%04d", v)
			} else {
				// first component ties often
				row[kc[0]] = fmt.Sprintf("%02d", v/37)
				row[kc[1]] = fmt.Sprintf("%02d", v%37)
				for _, k := range kc[2:] {
					row[k] = "z"
				}
			}
		case 1:
			for _, k := range pkCols {
				row[k] = cellAlphabet[r.Intn(5)]
			}
		}
		t.Rows = append(t.Rows, row)
	}
	return t
}

// boundary-biased row counts around block edges
func genRowCount(r *rand.Rand, maxBlocks int) int {
	switch r.Intn(10) {
	case 0:
		return 0
	case 1:
		return 1
	case 2, 3:
		return 2 + r.Intn(20)
	case 4:
		b := 1 + r.Intn(maxBlocks)
		return b*255 + []int{-1, 0, 1}[r.Intn(3)]
	case 5:
		return 200 + r.Intn(120)
	default:
		return r.Intn(maxBlocks*255 + 1)
	}
}

func genPK(r *rand.Rand, nCols int) []int {
	switch r.Intn(5) {
	case 0:
		return []int{}
	case 1:
		if nCols >= 3 && r.Intn(2) == 0 {
			// three key columns in any order (rotations are not their own inverse)
			return r.Perm(nCols)[:3]
		}
		if nCols >= 2 {
			p := r.Perm(nCols)[:2]
			return p
		}
		return []int{0}
	default:
		return []int{r.Intn(nCols)}
	}
}

func sortedCopy(a []string) []string {
	b := append([]string{}, a...)
	sort.Strings(b)
	return b
}
