package main

// Reference server for the sync protocol (DESIGN.md appendix C). The server half of the protocol is
// not in this repository; this one is assembled from the repository's own ClosedSetsFinder,
// ObjectSender, ObjectReceiver and payload types and does only what the client code requires.
// It is part of the trusted base of C09 / C10.

import (
	"bytes"
	"compress/gzip"
	"encoding/json"
	"fmt"
	"io"
	"net/http"
	"net/http/httptest"
	"strings"
	"sync"

	"github.com/go-logr/logr"
	"github.com/wrgl/wrgl/pkg/api/payload"
	"github.com/wrgl/wrgl/pkg/api/utils"
	"github.com/wrgl/wrgl/pkg/encoding/packfile"
	"github.com/wrgl/wrgl/pkg/objects"
	"github.com/wrgl/wrgl/pkg/ref"
)

const ctJSON = "application/json"
const ctPackfile = "application/x-wrgl-packfile"

type uploadSession struct {
	finder *apiutils.ClosedSetsFinder
	sender *apiutils.ObjectSender
	tables map[string]struct{}
	cand   [][]byte // candidate tables still to be offered to the client
	phase  string   // negotiate | tables | send
}

type receiveSession struct {
	updates  map[string]*payload.Update
	receiver *apiutils.ObjectReceiver
}

type RefServer struct {
	db                  objects.Store
	rs                  ref.Store
	maxPackfileSize     uint64
	denyNonFastForwards bool
	mu                  sync.Mutex
	upload              map[string]*uploadSession
	receive             map[string]*receiveSession
	nextID              int
	srv                 *httptest.Server
	// statistics for the evidence
	UploadRoundTrips, Packfiles int
	// fault: the next FailRefs listings of the refs are answered with FailRefsStatus (a 5xx)
	FailRefs, FailRefsStatus int
	// what the clients asked for: the number of ref listings answered or refused, and every ref update
	// of the first request of each receive-pack session, as sent (before any decision of this server)
	RefsListings   int
	UpdateRequests []RefUpdateRequest
}

// RefUpdateRequest is one ref update as a pushing client asked for it.
type RefUpdateRequest struct {
	Ref      string
	Old, New []byte // nil = absent
}

func NewRefServer(db objects.Store, rs ref.Store, maxPackfileSize uint64, denyNonFF bool) *RefServer {
	s := &RefServer{db: db, rs: rs, maxPackfileSize: maxPackfileSize, denyNonFastForwards: denyNonFF,
		upload: map[string]*uploadSession{}, receive: map[string]*receiveSession{}}
	mux := http.NewServeMux()
	mux.HandleFunc("/refs/", s.handleRefs)
	mux.HandleFunc("/upload-pack/", s.handleUploadPack)
	mux.HandleFunc("/receive-pack/", s.handleReceivePack)
	s.srv = httptest.NewServer(mux)
	return s
}

func (s *RefServer) URL() string { return s.srv.URL }
func (s *RefServer) Close()      { s.srv.Close() }

func (s *RefServer) sessionID(w http.ResponseWriter, r *http.Request, name string) string {
	if c, err := r.Cookie(name); err == nil && c.Value != "" {
		return c.Value
	}
	s.nextID++
	id := fmt.Sprintf("%s-%d", name, s.nextID)
	http.SetCookie(w, &http.Cookie{Name: name, Value: id, Path: "/"})
	return id
}

func writeJSON(w http.ResponseWriter, v interface{}) {
	w.Header().Set("Content-Type", ctJSON)
	json.NewEncoder(w).Encode(v)
}

func (s *RefServer) handleRefs(w http.ResponseWriter, r *http.Request) {
	s.mu.Lock()
	s.RefsListings++
	if s.FailRefs > 0 {
		s.FailRefs--
		st := s.FailRefsStatus
		s.mu.Unlock()
		if st < 500 {
			st = http.StatusServiceUnavailable
		}
		http.Error(w, "listing refs: backend unavailable", st)
		return
	}
	s.mu.Unlock()
	prefixes := r.URL.Query()["prefix"]
	notPrefixes := r.URL.Query()["notprefix"]
	m, err := ref.ListAllRefs(s.rs)
	if err != nil {
		http.Error(w, err.Error(), 500)
		return
	}
	resp := &payload.GetRefsResponse{Refs: map[string]*payload.Hex{}}
	for name, sum := range m {
		ok := len(prefixes) == 0
		for _, p := range prefixes {
			if strings.HasPrefix(name, p) {
				ok = true
			}
		}
		for _, p := range notPrefixes {
			if strings.HasPrefix(name, p) {
				ok = false
			}
		}
		if ok {
			resp.Refs[name] = payload.BytesToHex(sum)
		}
	}
	writeJSON(w, resp)
}

func readBody(r *http.Request) ([]byte, error) {
	var rd io.Reader = r.Body
	if r.Header.Get("Content-Encoding") == "gzip" {
		gz, err := gzip.NewReader(r.Body)
		if err != nil {
			return nil, err
		}
		defer gz.Close()
		rd = gz
	}
	return io.ReadAll(rd)
}

func (s *RefServer) handleUploadPack(w http.ResponseWriter, r *http.Request) {
	s.mu.Lock()
	defer s.mu.Unlock()
	s.UploadRoundTrips++
	id := s.sessionID(w, r, "upload-pack-session")
	body, err := readBody(r)
	if err != nil {
		http.Error(w, err.Error(), 400)
		return
	}
	req := &payload.UploadPackRequest{}
	if len(bytes.TrimSpace(body)) > 0 {
		if err := json.Unmarshal(body, req); err != nil {
			http.Error(w, err.Error(), 400)
			return
		}
	}
	ses, ok := s.upload[id]
	if !ok {
		if len(req.Wants) == 0 {
			http.Error(w, "empty wants list", 400)
			return
		}
		ses = &uploadSession{finder: apiutils.NewClosedSetsFinder(s.db, s.rs, req.Depth), phase: "negotiate"}
		s.upload[id] = ses
	}
	if ses.phase == "negotiate" {
		acks, err := ses.finder.Process(payload.HexSliceToBytesSlice(req.Wants), payload.HexSliceToBytesSlice(req.Haves), req.Done)
		if err != nil {
			delete(s.upload, id)
			http.Error(w, err.Error(), 400)
			return
		}
		if len(ses.finder.Wants) > 0 && !req.Done {
			writeJSON(w, &payload.UploadPackResponse{ACKs: payload.BytesSliceToHexSlice(acks)})
			return
		}
		tables, err := ses.finder.TablesToSend()
		if err != nil {
			http.Error(w, err.Error(), 500)
			return
		}
		ses.tables = tables
		for t := range tables {
			ses.cand = append(ses.cand, []byte(t))
		}
		ses.phase = "tables"
	} else if ses.phase == "tables" {
		for _, t := range req.TableACKs {
			delete(ses.tables, string((*t)[:]))
		}
	}
	if ses.phase == "tables" {
		if len(ses.cand) > 0 {
			n := len(ses.cand)
			if n > 256 {
				n = 256
			}
			batch := ses.cand[:n]
			ses.cand = ses.cand[n:]
			writeJSON(w, &payload.UploadPackResponse{TableHaves: payload.BytesSliceToHexSlice(batch)})
			return
		}
		commits, err := ses.finder.CommitsToSend()
		if err != nil {
			http.Error(w, err.Error(), 500)
			return
		}
		ses.sender, err = apiutils.NewObjectSender(s.db, commits, ses.tables, ses.finder.CommonCommmits(), s.maxPackfileSize)
		if err != nil {
			http.Error(w, err.Error(), 500)
			return
		}
		ses.phase = "send"
	}
	// send one packfile per request
	buf := bytes.NewBuffer(nil)
	done, _, err := ses.sender.WriteObjects(buf, nil)
	if err != nil {
		http.Error(w, err.Error(), 500)
		return
	}
	s.Packfiles++
	if done {
		delete(s.upload, id)
	}
	w.Header().Set("Content-Type", ctPackfile)
	w.Write(buf.Bytes())
}

func (s *RefServer) handleReceivePack(w http.ResponseWriter, r *http.Request) {
	s.mu.Lock()
	defer s.mu.Unlock()
	id := s.sessionID(w, r, "receive-pack-session")
	body, err := readBody(r)
	if err != nil {
		http.Error(w, err.Error(), 400)
		return
	}
	ses := s.receive[id]
	if strings.HasPrefix(r.Header.Get("Content-Type"), ctJSON) {
		req := &payload.ReceivePackRequest{}
		if err := json.Unmarshal(body, req); err != nil {
			http.Error(w, err.Error(), 400)
			return
		}
		if ses == nil {
			// first request: validate every update against the current refs
			ses = &receiveSession{updates: req.Updates}
			s.receive[id] = ses
			for name, u := range req.Updates {
				q := RefUpdateRequest{Ref: name}
				if u.OldSum != nil {
					q.Old = append([]byte{}, (*u.OldSum)[:]...)
				}
				if u.Sum != nil {
					q.New = append([]byte{}, (*u.Sum)[:]...)
				}
				s.UpdateRequests = append(s.UpdateRequests, q)
			}
			refused := false
			for name, u := range req.Updates {
				cur, err := ref.GetRef(s.rs, strings.TrimPrefix(name, "refs/"))
				var old []byte
				if u.OldSum != nil {
					old = (*u.OldSum)[:]
				}
				if err != nil {
					cur = nil
				}
				switch {
				case !bytes.Equal(cur, old):
					u.ErrMsg = "remote ref updated since checkout"
				case u.Sum != nil && cur != nil && s.denyNonFastForwards:
					if strings.HasPrefix(name, "tags/") {
						u.ErrMsg = "remote tag already exists"
					} else if objects.CommitExist(s.db, (*u.Sum)[:]) {
						ff, err := ref.IsAncestorOf(s.db, cur, (*u.Sum)[:])
						if err == nil && !ff {
							u.ErrMsg = "remote does not support non-fast-fowards"
						}
					}
				}
				if u.ErrMsg != "" {
					refused = true
				}
			}
			if refused {
				delete(s.receive, id)
				writeJSON(w, &payload.ReceivePackResponse{Updates: req.Updates})
				return
			}
			var expected [][]byte
			for _, u := range req.Updates {
				if u.Sum != nil && !objects.CommitExist(s.db, (*u.Sum)[:]) {
					expected = append(expected, (*u.Sum)[:])
				}
			}
			ses.receiver = apiutils.NewObjectReceiver(s.db, expected, logr.Discard())
			if len(expected) == 0 && len(req.TableHaves) == 0 {
				// nothing to receive: apply the updates right away
				s.applyUpdates(w, id, ses)
				return
			}
		}
		acks := []*payload.Hex{}
		for _, t := range req.TableHaves {
			if objects.TableExist(s.db, (*t)[:]) {
				acks = append(acks, t)
			}
		}
		writeJSON(w, &payload.ReceivePackResponse{TableACKs: acks})
		return
	}
	// a packfile
	if ses == nil {
		http.Error(w, "no session", 400)
		return
	}
	pr, err := packfile.NewPackfileReader(io.NopCloser(bytes.NewReader(body)))
	if err != nil {
		http.Error(w, err.Error(), 400)
		return
	}
	done, err := ses.receiver.Receive(pr, nil)
	if err != nil {
		delete(s.receive, id)
		http.Error(w, err.Error(), 400)
		return
	}
	if !done {
		w.WriteHeader(200)
		return
	}
	s.applyUpdates(w, id, ses)
}

func (s *RefServer) applyUpdates(w http.ResponseWriter, id string, ses *receiveSession) {
	// refs are updated only after every object arrived
	for name, u := range ses.updates {
		if u.Sum == nil {
			if err := ref.DeleteRef(s.rs, name); err != nil {
				u.ErrMsg = err.Error()
			}
			continue
		}
		if err := ref.SaveRef(s.rs, name, (*u.Sum)[:], "server", "server@example.com", "receive-pack", "update ref", nil); err != nil {
			u.ErrMsg = err.Error()
		}
	}
	delete(s.receive, id)
	writeJSON(w, &payload.ReceivePackResponse{Updates: ses.updates})
}
