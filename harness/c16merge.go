package main

// C16, second runner: the goroutine pipelines of diff and merge under an unreadable object. One
// missing or failing object makes several differ goroutines fail at once; the merge must still
// terminate and report the error ("an error in one worker is reported to the caller instead of
// hanging it"). Without a fault the outcome must not depend on GOMAXPROCS.

import (
	"encoding/json"
	"fmt"
	"math/rand"
	"os"
	"runtime"
	"sync"
	"time"

	"github.com/go-logr/logr"
	"github.com/wrgl/wrgl/pkg/diff"
	"github.com/wrgl/wrgl/pkg/index"
	"github.com/wrgl/wrgl/pkg/merge"
	"github.com/wrgl/wrgl/pkg/misc"
	"github.com/wrgl/wrgl/pkg/objects"
)

type c16MergeInput struct {
	GenSeed  int64  `json:"genSeed"`
	Rows     int    `json:"rows"`
	Branches int    `json:"branches"`
	Fault    string `json:"fault"` // none | del-base-blkidx | del-base-blk | del-branch-blk | del-branch-blkidx | get-fails
	FaultArg int    `json:"faultArg"`
	Procs    int    `json:"gomaxprocs"`
	// ConsumerDelayUs: how long after Start() the consumer reaches the merge channel (microseconds).
	// 0 = at once (the consumer is usually parked on the channel before the first message is ready);
	// otherwise the merger goroutines are already blocked in their first send when it arrives.
	ConsumerDelayUs int `json:"consumerDelayUs"`
	// what the merged table's columns / key have to be (all generated tables share the base's);
	// filled in by the runner from the generated base table
	Columns []string `json:"columns"`
	PK      []string `json:"pk"`
}

// c16MergeSeen is what the consumer of one merge observed.
type c16MergeSeen struct {
	outcome   string
	conflicts int
	// as `wrgl merge` does (outputConflicts, the merge GUI): on the first message, which carries the
	// column comparison, ask the merger for the merged table's columns and key
	gotColDiff bool
	columns    []string
	pk         []string
}

type getFaultStore struct {
	objects.Store
	mu   sync.Mutex
	left int
}

func (s *getFaultStore) Get(k []byte) ([]byte, error) {
	s.mu.Lock()
	if s.left <= 0 {
		s.mu.Unlock()
		return nil, fmt.Errorf("injected read failure")
	}
	s.left--
	s.mu.Unlock()
	return s.Store.Get(k)
}

// c16MergeOnce runs one merge to the end of the merge channel and reports how it ended.
func c16MergeOnce(db objects.Store, tbls []*objects.Table, sums [][]byte, consumerDelay time.Duration) (seen c16MergeSeen) {
	hs, err := index.NewHashSet(misc.NewBuffer(nil), 0)
	if err != nil {
		seen.outcome = "setup-error"
		return
	}
	seen.outcome = "error"
	collector, err := merge.NewCollector(db, tbls[0], hs)
	if err != nil {
		return
	}
	buf, err := diff.BlockBufferWithSingleStore(db, tbls)
	if err != nil {
		return
	}
	m, err := merge.NewMerger(db, collector, buf, 0, tbls[0], tbls[1:], sums[0], sums[1:], logr.Discard())
	if err != nil {
		return
	}
	ch, err := m.Start()
	if err != nil {
		return
	}
	if consumerDelay > 0 {
		time.Sleep(consumerDelay)
	}
	// Not 20 s: when one differ ends early (its channel closes — on a read error, or simply because it
	// is done) mergeTables keeps selecting the closed channel, a busy loop that on one processor leaves
	// the other differ a time slice per row. Slow (seconds for a few hundred rows under the race
	// detector and load) but it terminates, so the watchdog has to outlast it.
	d := 75 * time.Second
	if v := os.Getenv("VERIF_C16_MERGE_TIMEOUT"); v != "" {
		if p, err := time.ParseDuration(v); err == nil {
			d = p
		}
	}
	timeout := hangAfter(d)
	for {
		select {
		case mg, ok := <-ch:
			if !ok {
				if err := m.Error(); err != nil {
					seen.outcome = "error"
					return
				}
				seen.outcome = "done"
				return
			}
			if mg.ColDiff == nil {
				seen.conflicts++
			} else if !seen.gotColDiff {
				seen.gotColDiff = true
				seen.columns = append([]string{}, m.Columns(nil)...)
				seen.pk = append([]string{}, m.PK()...)
			}
		case <-timeout:
			if os.Getenv("VERIF_DEBUG_STACKS") != "" {
				buf := make([]byte, 1<<20)
				n := runtime.Stack(buf, true)
				os.Stderr.Write(buf[:n])
			}
			seen.outcome = "hang"
			return
		}
	}
}

func c16MergeRun(in *c16MergeInput) Res {
	in.Columns, in.PK = c16Table(0).Columns, c16Table(0).PK
	old := runtime.GOMAXPROCS(in.Procs)
	defer runtime.GOMAXPROCS(old)
	return Guard(func() Res {
		r := rand.New(rand.NewSource(in.GenSeed))
		base := c16Table(in.Rows)
		specs := []*TableSpec{base}
		for j := 0; j < in.Branches; j++ {
			specs = append(specs, deriveBranch(r, base, 0.02, 0.01, 1+r.Intn(3), 10+j))
		}
		db := NewMemStore()
		var sums [][]byte
		var tbls []*objects.Table
		for _, s := range specs {
			sum, err := IngestCSV(db, s.CSV(0), s.PK, IngestCfg{})
			if err != nil {
				return Err("ingest")
			}
			t, err := objects.GetTable(db, sum)
			if err != nil {
				return Err("gettable")
			}
			sums = append(sums, sum)
			tbls = append(tbls, t)
		}
		// reference outcome, one processor, no fault
		runtime.GOMAXPROCS(1)
		ref := c16MergeOnce(db, tbls, sums, 0)
		runtime.GOMAXPROCS(in.Procs)
		var store objects.Store = db
		pick := func(l [][]byte) []byte {
			if len(l) == 0 {
				return nil
			}
			return l[in.FaultArg%len(l)]
		}
		switch in.Fault {
		case "del-base-blkidx":
			objects.DeleteBlockIndex(db, pick(tbls[0].BlockIndices))
		case "del-base-blk":
			objects.DeleteBlock(db, pick(tbls[0].Blocks))
		case "del-branch-blk":
			objects.DeleteBlock(db, pick(tbls[1].Blocks))
		case "del-branch-blkidx":
			objects.DeleteBlockIndex(db, pick(tbls[1].BlockIndices))
		case "get-fails":
			store = &getFaultStore{Store: db, left: in.FaultArg}
		}
		got := c16MergeOnce(store, tbls, sums, time.Duration(in.ConsumerDelayUs)*time.Microsecond)
		strs := func(l []string) []string {
			if l == nil {
				return []string{}
			}
			return l
		}
		return Ok(map[string]interface{}{"outcome": got.outcome, "conflicts": got.conflicts,
			"refOutcome": ref.outcome, "refConflicts": ref.conflicts,
			"gotColDiff": got.gotColDiff, "columns": strs(got.columns), "pk": strs(got.pk),
			"refGotColDiff": ref.gotColDiff, "refColumns": strs(ref.columns), "refPK": strs(ref.pk)})
	})
}

func runC16Merge(ctx *Ctx) {
	r := ctx.R
	in := &c16MergeInput{GenSeed: 1 + r.Int63n(1<<40)}
	in.Rows = 256 + r.Intn(700)
	in.Branches = 2 + r.Intn(2)
	in.Fault = []string{"none", "del-base-blkidx", "del-base-blk", "del-branch-blk", "del-branch-blkidx", "get-fails"}[r.Intn(6)]
	in.FaultArg = r.Intn(40)
	in.Procs = []int{1, 2, 4, 16}[r.Intn(4)]
	if in.Procs == 1 {
		// on one processor a merge whose differs end at different times crawls (see c16MergeOnce)
		in.Rows = 256 + r.Intn(150)
	}
	// when the consumer reaches the merge channel, by case index (no draw: earlier cases keep their inputs)
	in.ConsumerDelayUs = []int{0, 300, 20000}[ctx.Idx%3]
	ctx.Emit("merge", in, c16MergeRun(in), true, "fault="+in.Fault, fmt.Sprintf("procs=%d", in.Procs),
		fmt.Sprintf("consumer-delay-us=%d", in.ConsumerDelayUs))
}

func corpusC16Merge(ctx *Ctx, raw json.RawMessage) {
	var in c16MergeInput
	if err := json.Unmarshal(raw, &in); err != nil {
		panic(err)
	}
	ctx.Emit("merge", &in, c16MergeRun(&in), true, "corpus")
}
