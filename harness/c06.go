package main

import (
	"bytes"
	"encoding/json"
	"fmt"
	"math/rand"
	"time"

	"github.com/dgraph-io/badger/v3"
	"github.com/go-logr/logr"
	"github.com/klauspost/compress/s2"
	"github.com/pckhoi/meow"
	"github.com/wrgl/wrgl/pkg/dprof"
	"github.com/wrgl/wrgl/pkg/ingest"
	"github.com/wrgl/wrgl/pkg/encoding/packfile"
	"github.com/wrgl/wrgl/pkg/misc"
	"github.com/wrgl/wrgl/pkg/objects"
	objbadger "github.com/wrgl/wrgl/pkg/objects/badger"
	objmock "github.com/wrgl/wrgl/pkg/objects/mock"
)

func init() {
	runners["C06"] = runC06
	corpusRunners["C06"] = corpusC06
}

type c06Input struct {
	Row    []string   `json:"row,omitempty"`
	Rows   [][]string `json:"rows,omitempty"`
	Table  *c06Table  `json:"table,omitempty"`
	Commit *c06Commit `json:"commit,omitempty"`
	Type   int        `json:"type,omitempty"`
	U      uint64     `json:"u"`
	Kind   string     `json:"kind,omitempty"`
	Content string    `json:"content,omitempty"`
	PKIdx  []uint32   `json:"pkIdx,omitempty"`
	Spec   *TableSpec `json:"spec,omitempty"`
	// store histories (op "savehist") and refreshes of derived objects over an existing state (op "refresh")
	Ops       []c06StoreOp `json:"ops,omitempty"`
	// which objects.Store the history runs on: "mem" (the harness's map, default), "mock" (objmock),
	// "badger" (objbadger.Store), "txn" (objbadger.Txn: staged, committed by the "commit" ops and at the end)
	Store string `json:"store,omitempty"`
	// the caller serialises every object into ONE buffer and hands SaveBlock / SaveBlockIndex the
	// compression buffer they gave back, as every caller in the code base does; it goes on writing into
	// both as soon as a Save* has returned
	Reuse bool `json:"reuse,omitempty"`
	// a table profile value (op "profileobj")
	Profile *c06ProfileObj `json:"profile,omitempty"`
	Mode      string       `json:"mode,omitempty"`
	StaleSpec *TableSpec   `json:"staleSpec,omitempty"`
}

type c06Table struct {
	Columns      []string `json:"columns"`
	PK           []uint32 `json:"pk"`
	RowsCount    uint32   `json:"rowsCount"`
	Blocks       []string `json:"blocks"`
	BlockIndices []string `json:"blockIndices"`
}

type c06Commit struct {
	Table       string   `json:"table"`
	AuthorName  string   `json:"authorName"`
	AuthorEmail string   `json:"authorEmail"`
	Sec         int64    `json:"sec"`
	ZoneSec     int      `json:"zoneSec"`
	Zero        bool     `json:"zero"`
	Message     string   `json:"message"`
	Parents     []string `json:"parents"`
}

func unhexAll(l []string) [][]byte {
	out := make([][]byte, len(l))
	for i, s := range l {
		out[i] = unhx(s)
	}
	return out
}

func unhexStrs(l []string) []string {
	out := make([]string, len(l))
	for i, s := range l {
		out[i] = string(unhx(s))
	}
	return out
}

func c06StrList(rowHex []string) Res {
	row := unhexStrs(rowHex)
	return Guard(func() Res {
		enc := objects.NewStrListEncoder(false)
		b := enc.Encode(row)
		dec := objects.NewStrListDecoder(false)
		n, back, err := dec.Read(bytes.NewReader(b))
		out := map[string]interface{}{"bytes": hx(b)}
		if err != nil {
			out["read"] = "err"
		} else {
			out["read"] = hxRow(back)
			out["n"] = n
		}
		out["decode"] = hxRow(objects.NewStrListDecoder(false).Decode(b))
		return Ok(out)
	})
}

func c06Block(rowsHex [][]string) Res {
	rows := make([][]string, len(rowsHex))
	for i, r := range rowsHex {
		rows[i] = unhexStrs(r)
	}
	return Guard(func() Res {
		buf := bytes.NewBuffer(nil)
		_, err := objects.WriteBlockTo(objects.NewStrListEncoder(true), buf, rows)
		if err != nil {
			return Err("write")
		}
		b := append([]byte{}, buf.Bytes()...)
		out := map[string]interface{}{"bytes": hx(b)}
		_, back, err := objects.ReadBlockFrom(bytes.NewReader(b))
		if err != nil {
			out["read"] = "err"
		} else {
			out["read"] = hxRows(back)
		}
		// the other producer of block bytes
		enc := objects.NewStrListEncoder(false)
		var parts [][]byte
		for _, r := range rows {
			parts = append(parts, enc.Encode(r))
		}
		out["combined"] = hx(objects.CombineRowBytesIntoBlock(parts))
		verr := objects.ValidateBlockBytes(b)
		out["valid"] = verr == nil
		return Ok(out)
	})
}

func c06TableRun(t *c06Table) Res {
	return Guard(func() Res {
		tbl := &objects.Table{Columns: unhexStrs(t.Columns), PK: t.PK, RowsCount: t.RowsCount,
			Blocks: unhexAll(t.Blocks), BlockIndices: unhexAll(t.BlockIndices)}
		buf := bytes.NewBuffer(nil)
		if _, err := tbl.WriteTo(buf); err != nil {
			return Err("write")
		}
		b := append([]byte{}, buf.Bytes()...)
		out := map[string]interface{}{"bytes": hx(b)}
		_, back, err := objects.ReadTableFrom(bytes.NewReader(b))
		if err != nil {
			out["read"] = "err"
		} else {
			pk := back.PK
			if pk == nil {
				pk = []uint32{}
			}
			bl, bi := []string{}, []string{}
			for _, x := range back.Blocks {
				bl = append(bl, hx(x))
			}
			for _, x := range back.BlockIndices {
				bi = append(bi, hx(x))
			}
			out["read"] = c06Table{Columns: hxRow(back.Columns), PK: pk, RowsCount: back.RowsCount, Blocks: bl, BlockIndices: bi}
			buf2 := bytes.NewBuffer(nil)
			back.WriteTo(buf2)
			out["reencoded"] = hx(buf2.Bytes())
		}
		return Ok(out)
	})
}

func c06CommitRun(c *c06Commit) Res {
	return Guard(func() Res {
		com := &objects.Commit{Table: unhx(c.Table), AuthorName: string(unhx(c.AuthorName)), AuthorEmail: string(unhx(c.AuthorEmail)),
			Message: string(unhx(c.Message)), Parents: unhexAll(c.Parents)}
		if !c.Zero {
			com.Time = time.Unix(c.Sec, 0).In(time.FixedZone("", c.ZoneSec))
		}
		buf := bytes.NewBuffer(nil)
		if _, err := com.WriteTo(buf); err != nil {
			return Err("write")
		}
		b := append([]byte{}, buf.Bytes()...)
		out := map[string]interface{}{"bytes": hx(b)}
		_, back, err := objects.ReadCommitFrom(bytes.NewReader(b))
		if err != nil {
			out["read"] = "err"
		} else {
			ps := []string{}
			for _, p := range back.Parents {
				ps = append(ps, hx(p))
			}
			rc := c06Commit{Table: hx(back.Table), AuthorName: hx([]byte(back.AuthorName)), AuthorEmail: hx([]byte(back.AuthorEmail)),
				Message: hx([]byte(back.Message)), Parents: ps, Zero: back.Time.IsZero()}
			if !rc.Zero {
				rc.Sec = back.Time.Unix()
				_, rc.ZoneSec = back.Time.Zone()
			}
			out["read"] = rc
			buf2 := bytes.NewBuffer(nil)
			back.WriteTo(buf2)
			out["reencoded"] = hx(buf2.Bytes())
		}
		return Ok(out)
	})
}

func c06Hdr(typ int, u uint64) Res {
	return Guard(func() Res {
		b := packfile.EncodeObjTypeAndLen(misc.NewBuffer(nil), typ, u)
		b = append([]byte{}, b...)
		t2, u2, err := packfile.DecodeObjTypeAndLen(bytes.NewReader(b))
		out := map[string]interface{}{"bytes": hx(b)}
		if err != nil {
			out["read"] = "err"
		} else {
			out["read"] = []interface{}{t2, u2}
		}
		return Ok(out)
	})
}

func c06Save(kind string, content []byte) Res {
	return Guard(func() Res {
		db := NewMemStore()
		var sum []byte
		var err error
		switch kind {
		case "block":
			sum, _, err = objects.SaveBlock(db, nil, content)
		case "blockindex":
			sum, _, err = objects.SaveBlockIndex(db, nil, content)
		case "table":
			sum, err = objects.SaveTable(db, content)
		case "commit":
			sum, err = objects.SaveCommit(db, content)
		}
		if err != nil {
			return Err("save")
		}
		// save the same content again: must not create a second key
		switch kind {
		case "block":
			objects.SaveBlock(db, nil, content)
		case "blockindex":
			objects.SaveBlockIndex(db, nil, content)
		case "table":
			objects.SaveTable(db, content)
		case "commit":
			objects.SaveCommit(db, content)
		}
		keys := db.Keys()
		hk := []string{}
		for _, k := range keys {
			hk = append(hk, hx([]byte(k)))
		}
		digest := meow.Checksum(0, content)
		out := map[string]interface{}{"sum": hx(sum), "keys": sortedCopy(hk), "digest": hx(digest[:])}
		switch kind {
		case "block":
			got, err := objects.GetBlockBytes(db, sum)
			if err == nil {
				out["stored"] = hx(got)
			}
		case "table", "commit":
			raw, err := db.Get(append([]byte(map[string]string{"table": "tbl/", "commit": "com/"}[kind]), sum...))
			if err == nil {
				out["stored"] = hx(raw)
			}
		}
		return Ok(out)
	})
}

func genBytes(r *rand.Rand, n int) string {
	b := make([]byte, n)
	for i := range b {
		b[i] = byte(r.Intn(256))
	}
	return string(b)
}

func genBigCell(r *rand.Rand) string {
	sizes := []int{65534, 65535, 65536, 65537, 70000, 40000, 131072}
	n := sizes[r.Intn(len(sizes))]
	return string(bytes.Repeat([]byte{byte('a' + r.Intn(26))}, n))
}

func genRow(r *rand.Rand, big bool) []string {
	n := r.Intn(6)
	row := make([]string, n)
	for i := range row {
		row[i] = genCell(r)
	}
	if big && n > 0 {
		k := 1 + r.Intn(2)
		for j := 0; j < k; j++ {
			row[r.Intn(n)] = genBigCell(r)
		}
	}
	return row
}

func genSum(r *rand.Rand) string { return hx([]byte(genBytes(r, 16))) }

// c06BlockIndex builds the index of a block with the real IndexBlock, writes it, reads it back and
// writes it again; also stores it and reads it through the store.
func c06BlockIndex(rows [][]string, pk []uint32) Res {
	return Guard(func() Res {
		idx, err := objects.IndexBlock(objects.NewStrListEncoder(true), meow.New(0), rows, pk)
		if err != nil {
			return Err("index")
		}
		b1 := newBuf()
		if _, err := idx.WriteTo(b1); err != nil {
			return Err("write")
		}
		// the index ingest builds from the block's BYTES must be the one built from its rows
		fromBytes := ""
		if len(rows) > 0 {
			bb := newBuf()
			if _, err := objects.WriteBlockTo(objects.NewStrListEncoder(true), bb, rows); err != nil {
				return Err("write-block")
			}
			idxB, err := objects.IndexBlockFromBytes(objects.NewStrListDecoder(true), meow.New(0), objects.NewStrListEditor(pk), bb.Bytes(), pk)
			if err != nil {
				return Err("index-from-bytes")
			}
			b4 := newBuf()
			idxB.WriteTo(b4)
			fromBytes = hx(b4.Bytes())
		} else {
			fromBytes = hx(b1.Bytes())
		}
		_, idx2, err := objects.ReadBlockIndex(bytes.NewReader(b1.Bytes()))
		if err != nil {
			return Err("read")
		}
		b2 := newBuf()
		idx2.WriteTo(b2)
		db := NewMemStore()
		sum, _, err := objects.SaveBlockIndex(db, nil, b1.Bytes())
		if err != nil {
			return Err("save")
		}
		want := meow.Checksum(0, b1.Bytes())
		idx3, _, err := objects.GetBlockIndex(db, nil, sum)
		if err != nil {
			return Err("get")
		}
		b3 := newBuf()
		idx3.WriteTo(b3)
		parsed, err := parseBlockIndexBytes(b1.Bytes())
		if err != nil {
			return Err("parse")
		}
		return Ok(map[string]interface{}{"bytes": hx(b1.Bytes()), "reencoded": hx(b2.Bytes()), "fromStore": hx(b3.Bytes()), "fromBlockBytes": fromBytes,
			"keyIsHash": bytes.Equal(sum, want[:]), "idx": parsed})
	})
}

// c06Profile: the profile a real ingest stores, decoded and re-encoded.
func c06Profile(t *TableSpec) Res {
	return Guard(func() Res {
		db := NewMemStore()
		sum, err := IngestCSV(db, t.CSV(0), t.PK, IngestCfg{})
		if err != nil {
			return Err("ingest")
		}
		raw, err := db.Get(append([]byte("tblsum/"), sum...))
		if err != nil {
			return Err("no-profile")
		}
		p, err := objects.GetTableProfile(db, sum)
		if err != nil {
			return Err("get")
		}
		b := newBuf()
		if _, err := p.WriteTo(b); err != nil {
			return Err("write")
		}
		p2 := &objects.TableProfile{}
		if _, err := p2.ReadFrom(bytes.NewReader(b.Bytes())); err != nil {
			return Err("read")
		}
		b2 := newBuf()
		p2.WriteTo(b2)
		return Ok(map[string]interface{}{"stored": hx(raw), "reencoded": hx(b.Bytes()), "reencoded2": hx(b2.Bytes()),
			"rowsCount": int(p.RowsCount), "columns": len(p.Columns), "rows": len(t.Rows), "cols": len(t.Columns)})
	})
}

func runC06(ctx *Ctx) {
	r := ctx.R
	if ctx.Idx%32 == 15 {
		ops := genStoreHistory(r)
		rekeyed, resaved := c06HistoryShape(ops)
		tags := []string{"store-history"}
		if rekeyed {
			tags = append(tags, "key-rewritten-with-other-content")
		}
		if resaved {
			tags = append(tags, "same-content-saved-again")
		}
		// the store implementation and the caller's buffer discipline (drawn after the history)
		in := c06Input{Store: []string{"mem", "mock", "badger", "txn", "txn", "txn"}[r.Intn(6)], Reuse: r.Intn(4) != 0}
		if in.Store == "txn" && r.Intn(2) == 0 {
			// partial commits somewhere inside the history
			var withCommits []c06StoreOp
			for i, op := range ops {
				withCommits = append(withCommits, op)
				if i+1 < len(ops) && r.Intn(3) == 0 {
					withCommits = append(withCommits, c06StoreOp{Op: "commit"})
				}
			}
			if len(withCommits) > len(ops) {
				tags = append(tags, "partial-commit")
			}
			ops = withCommits
		}
		in.Ops = ops
		tags = append(tags, "store-"+in.Store)
		if in.Reuse {
			tags = append(tags, "caller-reuses-its-buffers")
		}
		ctx.Emit("savehist", in, c06SaveHist(in.Ops, in.Store, in.Reuse), rekeyed || resaved, tags...)
		return
	}
	if ctx.Idx%64 == 31 {
		in := genRefresh(r)
		ctx.Emit("refresh", in, c06Refresh(in.Spec, in.Mode, in.StaleSpec), in.Mode != "same", "refresh-over-"+in.Mode)
		return
	}
	if ctx.Idx%16 == 8 {
		n := r.Intn(6)
		if r.Intn(5) == 0 {
			n = 255
		}
		nc := 1 + r.Intn(3)
		rows := make([][]string, n)
		for i := range rows {
			rows[i] = make([]string, nc)
			for c := range rows[i] {
				rows[i][c] = genCell(r)
			}
		}
		pk := []uint32{}
		if r.Intn(3) != 0 {
			pk = append(pk, uint32(r.Intn(nc)))
		}
		if n > 0 && n < 10 && r.Intn(3) == 0 {
			// a cell at the length limit, in the key or elsewhere
			sz := []int{65533, 65534, 65535}[r.Intn(3)]
			rows[r.Intn(n)][r.Intn(nc)] = string(bytes.Repeat([]byte{byte('a' + r.Intn(26))}, sz))
		}
		in := c06Input{Rows: hxRows(rows), PKIdx: pk}
		if in.Rows == nil {
			in.Rows = [][]string{}
		}
		ctx.Emit("blockindex", in, c06BlockIndex(rows, pk), n > 0)
		return
	}
	if ctx.Idx%16 == 9 {
		t := GenTable(r, 1+r.Intn(4), 1+r.Intn(300), []int{0}, 0)
		ctx.Emit("profile", c06Input{Spec: t}, c06Profile(t), true)
		// … and a profile VALUE with arbitrary field contents (drawn after the case above)
		po, tags := c06GenProfileObj(r)
		ctx.Emit("profileobj", c06Input{Profile: po}, c06ProfileObjRun(po), len(po.Columns) > 0, tags...)
		return
	}
	switch ctx.Idx % 8 {
	case 0, 1:
		big := r.Intn(4) == 0
		row := genRow(r, big)
		tags := []string{}
		if big {
			tags = append(tags, "big-cell")
		}
		ctx.Emit("strlist", c06Input{Row: hxRow(row)}, c06StrList(hxRow(row)), len(row) > 0, tags...)
	case 2:
		n := r.Intn(5)
		if r.Intn(6) == 0 {
			n = 255
		}
		rows := make([][]string, n)
		for i := range rows {
			rows[i] = genRow(r, r.Intn(40) == 0)
		}
		ctx.Emit("block", c06Input{Rows: hxRows(rows)}, c06Block(hxRows(rows)), n > 0)
	case 3:
		nb := r.Intn(4)
		t := &c06Table{Columns: hxRow(genRow(r, false)), PK: []uint32{}, Blocks: []string{}, BlockIndices: []string{}}
		for i := 0; i < r.Intn(3); i++ {
			t.PK = append(t.PK, uint32(r.Intn(5)))
		}
		for i := 0; i < nb; i++ {
			t.Blocks = append(t.Blocks, genSum(r))
			t.BlockIndices = append(t.BlockIndices, genSum(r))
		}
		if nb > 0 {
			t.RowsCount = uint32((nb-1)*255 + 1 + r.Intn(255))
		}
		ctx.Emit("table", c06Input{Table: t}, c06TableRun(t), nb > 0)
	case 4:
		c := &c06Commit{Table: genSum(r), AuthorName: hx([]byte(genCell(r))), AuthorEmail: hx([]byte(genCell(r))),
			Message: hx([]byte(genCell(r) + genCell(r))), Parents: []string{}}
		for i := 0; i < r.Intn(4); i++ {
			c.Parents = append(c.Parents, genSum(r))
		}
		switch r.Intn(6) {
		case 0:
			c.Zero = true
		case 1:
			c.Sec = []int64{0, 1, 9999999999, 10000000000, -1, 253402300800, 4102444800}[r.Intn(7)]
		default:
			c.Sec = r.Int63n(4000000000)
		}
		if !c.Zero {
			c.ZoneSec = []int{0, 3600, -3600, 19800, 20700, -34200, 50400, 45900, 30, -1800, 86340, 86400, 89940, 90000, -93600, 171120}[r.Intn(16)]
		}
		tags := []string{}
		if r.Intn(8) == 0 {
			c.Message = hx([]byte(genBigCell(r)))
			tags = append(tags, "big-field")
		}
		ctx.Emit("commit", c06Input{Commit: c}, c06CommitRun(c), true, tags...)
	case 5, 6:
		typ := 1 + r.Intn(3)
		var u uint64
		switch r.Intn(6) {
		case 0:
			u = uint64(r.Intn(40))
		case 1:
			k := uint(r.Intn(64))
			u = (uint64(1) << k) + uint64(r.Intn(3)) - 1
		case 2:
			u = r.Uint64()
		case 3:
			u = uint64(r.Uint32())
		case 4:
			u = r.Uint64() >> uint(r.Intn(64))
		default:
			u = uint64(r.Intn(1 << 20))
		}
		ctx.Emit("hdr", c06Input{Type: typ, U: u}, c06Hdr(typ, u), true)
	case 7:
		kind := []string{"block", "blockindex", "table", "commit"}[r.Intn(4)]
		content := []byte(genBytes(r, r.Intn(200)))
		ctx.Emit("save", c06Input{Kind: kind, Content: hx(content)}, c06Save(kind, content), true)
	}
}

func corpusC06(ctx *Ctx, op string, raw json.RawMessage) {
	var in c06Input
	if err := json.Unmarshal(raw, &in); err != nil {
		panic(err)
	}
	switch op {
	case "strlist":
		ctx.Emit(op, in, c06StrList(in.Row), true, "corpus")
	case "block":
		ctx.Emit(op, in, c06Block(in.Rows), true, "corpus")
	case "table":
		ctx.Emit(op, in, c06TableRun(in.Table), true, "corpus")
	case "commit":
		ctx.Emit(op, in, c06CommitRun(in.Commit), true, "corpus")
	case "hdr":
		ctx.Emit(op, in, c06Hdr(in.Type, in.U), true, "corpus")
	case "save":
		ctx.Emit(op, in, c06Save(in.Kind, unhx(in.Content)), true, "corpus")
	case "blockindex":
		rows := make([][]string, len(in.Rows))
		for i, r := range in.Rows {
			rows[i] = unhexStrs(r)
		}
		ctx.Emit(op, in, c06BlockIndex(rows, in.PKIdx), true, "corpus")
	case "profileobj":
		if in.Profile != nil {
			ctx.Emit(op, in, c06ProfileObjRun(in.Profile), true, "corpus")
		}
	case "profile":
		if in.Spec != nil {
			ctx.Emit(op, in, c06Profile(in.Spec), true, "corpus")
		}
	case "savehist":
		ctx.Emit(op, in, c06SaveHist(in.Ops, in.Store, in.Reuse), true, "corpus")
	case "refresh":
		if in.Spec != nil {
			ctx.Emit(op, in, c06Refresh(in.Spec, in.Mode, in.StaleSpec), true, "corpus")
		}
	}
}

// ---- the store as a function of its history ---------------------------------------------------
//
// A case is a short history of Save*/Delete* calls on ONE store, in which keys are written more than
// once: the same content again (content-addressed kinds) and other content under the same key (table
// index and table profile are keyed by the sum of the table they describe, not by their own bytes).
// After every step the key just addressed is read back three ways (Exist, raw bytes, typed Get* and
// re-encode), at the end the whole store is dumped. The expectation is the finite map of
// lean/WrglModel/Model/ObjStore.lean; the content hash is a parameter of that model: it is computed
// here with meow directly and handed over as "digests" (one per operation).

type c06StoreOp struct {
	Op      string `json:"op"`   // save | delete | commit (transactional store: staged operations reach the database)
	Kind    string `json:"kind"` // block | blockindex | table | tableindex | commit | profile
	Sum     string `json:"sum,omitempty"`     // hex: table sum (save of tableindex/profile), identifier to delete
	Content string `json:"content,omitempty"` // hex
	Valid   bool   `json:"valid,omitempty"`   // content is a well-formed object of its kind
}

type c06StepObs struct {
	Err    bool    `json:"err"`
	Sum    *string `json:"sum"`    // what Save* returned (content-addressed kinds)
	Exists bool    `json:"exists"` // <Kind>Exist after the step
	Stored *string `json:"stored"` // bytes under the key after the step (s2-decoded for block, block index)
	Typed  *string `json:"typed"`  // save of a well-formed object: typed Get* of the key, re-encoded
	// commit step of a transactional history: what the database holds afterwards, read from outside the transaction
	Committed [][]string `json:"committed"`
}

// c06HistStore is the store a history runs on: `db` is what Save* / Get* / Delete* go through.
type c06HistStore struct {
	kind string
	db   objects.Store
	bdb  *badger.DB
	txn  *objbadger.Txn
}

func c06OpenHistStore(kind string) (*c06HistStore, error) {
	hs := &c06HistStore{kind: kind}
	switch kind {
	case "", "mem":
		hs.db = NewMemStore()
	case "mock":
		hs.db = objmock.NewStore()
	case "badger", "txn":
		bdb, err := badger.Open(badger.DefaultOptions("").WithInMemory(true).WithLoggingLevel(badger.ERROR))
		if err != nil {
			return nil, err
		}
		hs.bdb = bdb
		if kind == "txn" {
			hs.txn = objbadger.NewTxn(bdb)
			hs.db = hs.txn
		} else {
			hs.db = objbadger.NewStore(bdb)
		}
	default:
		return nil, fmt.Errorf("unknown store %q", kind)
	}
	return hs, nil
}

// commit makes the staged operations of a transactional store reach the database.
func (hs *c06HistStore) commit() error {
	if hs.txn == nil {
		return fmt.Errorf("store %q has no transactions", hs.kind)
	}
	return hs.txn.PartialCommit()
}

// outside is the database as a reader outside the transaction sees it.
func (hs *c06HistStore) outside() objects.Store {
	if hs.txn != nil {
		return objbadger.NewStore(hs.bdb)
	}
	return hs.db
}

func (hs *c06HistStore) close() {
	if hs.txn != nil {
		hs.txn.Discard()
	}
	if hs.bdb != nil {
		hs.bdb.Close()
	}
}

// c06Scribble: the caller goes on using a buffer of its own (every byte of its capacity changes).
func c06Scribble(b []byte) {
	b = b[:cap(b)]
	for i := range b {
		b[i] ^= 0xa5
	}
}

var c06Prefix = map[string]string{"block": "blk/", "blockindex": "blkidx/", "table": "tbl/", "tableindex": "tblidx/", "commit": "com/", "profile": "tblsum/"}

func c06ByContent(kind string) bool { return kind != "tableindex" && kind != "profile" }

func strp(s string) *string { return &s }

// c06Plain undoes the compression of the two compressed kinds.
func c06Plain(kind string, raw []byte) string {
	if kind == "block" || kind == "blockindex" {
		dec, err := s2.Decode(nil, raw)
		if err != nil {
			return "!" + hx(raw)
		}
		return hx(dec)
	}
	return hx(raw)
}

func c06KindOfKey(key string) string {
	for kind, p := range c06Prefix {
		if len(key) >= len(p) && key[:len(p)] == p {
			return kind
		}
	}
	return ""
}

func c06Exists(db objects.Store, kind string, id []byte) bool {
	switch kind {
	case "block":
		return objects.BlockExist(db, id)
	case "blockindex":
		return objects.BlockIndexExist(db, id)
	case "table":
		return objects.TableExist(db, id)
	case "tableindex":
		return objects.TableIndexExist(db, id)
	case "commit":
		return objects.CommitExist(db, id)
	}
	return db.Exist(append([]byte(c06Prefix[kind]), id...))
}

// c06Typed reads the object through its typed getter and writes it again.
func c06Typed(db objects.Store, kind string, id []byte) (out *string) {
	defer func() {
		if e := recover(); e != nil {
			out = strp("panic")
		}
	}()
	b := newBuf()
	var err error
	switch kind {
	case "block":
		var blk [][]string
		if blk, _, err = objects.GetBlock(db, nil, id); err == nil {
			_, err = objects.WriteBlockTo(objects.NewStrListEncoder(true), b, blk)
		}
	case "blockindex":
		var idx *objects.BlockIndex
		if idx, _, err = objects.GetBlockIndex(db, nil, id); err == nil {
			_, err = idx.WriteTo(b)
		}
	case "table":
		var t *objects.Table
		if t, err = objects.GetTable(db, id); err == nil {
			_, err = t.WriteTo(b)
		}
	case "tableindex":
		var rows [][]string
		if rows, err = objects.GetTableIndex(db, id); err == nil {
			_, err = objects.WriteBlockTo(objects.NewStrListEncoder(true), b, rows)
		}
	case "commit":
		var c *objects.Commit
		if c, err = objects.GetCommit(db, id); err == nil {
			_, err = c.WriteTo(b)
		}
	case "profile":
		var p *objects.TableProfile
		if p, err = objects.GetTableProfile(db, id); err == nil {
			_, err = p.WriteTo(b)
		}
	}
	if err != nil {
		return nil
	}
	return strp(hx(b.Bytes()))
}

func c06DumpStore(db objects.Store) [][]string {
	all, _ := db.Filter(nil)
	keys := make([]string, 0, len(all))
	for k := range all {
		keys = append(keys, k)
	}
	keys = sortedCopy(keys)
	out := [][]string{}
	for _, k := range keys {
		out = append(out, []string{hx([]byte(k)), c06Plain(c06KindOfKey(k), all[k])})
	}
	return out
}

func c06SaveHist(ops []c06StoreOp, store string, reuse bool) Res {
	return Guard(func() Res {
		hs, err := c06OpenHistStore(store)
		if err != nil {
			return Err("open-store")
		}
		defer hs.close()
		db := hs.db
		steps := []c06StepObs{}
		digests := []string{}
		// the caller's buffers (reuse): one serialisation buffer for every object, and the compression
		// buffer that SaveBlock / SaveBlockIndex hand back for the next call
		var callerBuf, bb []byte
		for _, op := range ops {
			content := unhx(op.Content)
			id := unhx(op.Sum)
			digest := meow.Checksum(0, content)
			digests = append(digests, hx(digest[:]))
			obs := c06StepObs{}
			if op.Op == "commit" {
				obs.Err = hs.commit() != nil
				obs.Committed = c06DumpStore(hs.outside())
				steps = append(steps, obs)
				continue
			}
			var err error
			var sum []byte
			if op.Op == "save" {
				if c06ByContent(op.Kind) {
					id = digest[:]
				}
				arg := content
				if reuse {
					callerBuf = append(callerBuf[:0], content...)
					arg = callerBuf
				}
				var dst []byte
				switch op.Kind {
				case "block":
					sum, dst, err = objects.SaveBlock(db, bb, arg)
				case "blockindex":
					sum, dst, err = objects.SaveBlockIndex(db, bb, arg)
				case "table":
					sum, err = objects.SaveTable(db, arg)
				case "commit":
					sum, err = objects.SaveCommit(db, arg)
				case "tableindex":
					err = objects.SaveTableIndex(db, id, arg)
				case "profile":
					err = objects.SaveTableProfile(db, id, arg)
				}
				if sum != nil {
					obs.Sum = strp(hx(sum))
				}
				if reuse && dst != nil {
					bb = dst
				}
			} else {
				switch op.Kind {
				case "block":
					err = objects.DeleteBlock(db, id)
				case "blockindex":
					err = objects.DeleteBlockIndex(db, id)
				case "table":
					err = objects.DeleteTable(db, id)
				case "commit":
					err = objects.DeleteCommit(db, id)
				case "tableindex":
					err = objects.DeleteTableIndex(db, id)
				case "profile":
					err = objects.DeleteTableProfile(db, id)
				}
			}
			obs.Err = err != nil
			obs.Exists = c06Exists(db, op.Kind, id)
			var raw []byte
			if op.Kind == "block" {
				raw, err = objects.GetBlockBytes(db, id)
			} else {
				raw, err = db.Get(append([]byte(c06Prefix[op.Kind]), id...))
			}
			if err == nil {
				obs.Stored = strp(c06Plain(op.Kind, raw))
			}
			if op.Op == "save" && op.Valid {
				obs.Typed = c06Typed(db, op.Kind, id)
			}
			steps = append(steps, obs)
			if reuse {
				// Save* has returned: the buffers are the caller's again
				c06Scribble(callerBuf)
				c06Scribble(bb)
			}
		}
		if hs.txn != nil {
			// the transaction ends: everything staged reaches the database
			if err := hs.txn.Commit(); err != nil {
				return Err("commit")
			}
		}
		return Ok(map[string]interface{}{"steps": steps, "state": c06DumpStore(hs.outside()), "digests": digests})
	})
}

// c06HistoryShape: does the history write a key that holds other content / the same content already?
func c06HistoryShape(ops []c06StoreOp) (rekeyed, resaved bool) {
	held := map[string]string{}
	for _, op := range ops {
		if op.Op == "commit" {
			continue
		}
		id := op.Sum
		if op.Op == "save" && c06ByContent(op.Kind) {
			d := meow.Checksum(0, unhx(op.Content))
			id = hx(d[:])
		}
		k := op.Kind + "/" + id
		if op.Op == "delete" {
			delete(held, k)
			continue
		}
		if prev, ok := held[k]; ok {
			if prev == op.Content {
				resaved = true
			} else {
				rekeyed = true
			}
		}
		held[k] = op.Content
	}
	return
}

func genSmallRows(r *rand.Rand, n, nc int) [][]string {
	rows := make([][]string, n)
	for i := range rows {
		rows[i] = make([]string, nc)
		for c := range rows[i] {
			rows[i][c] = genCell(r)
		}
	}
	return rows
}

// genObjectBytes writes a well-formed object of the kind with the system's own encoder.
func genObjectBytes(r *rand.Rand, kind string) []byte {
	b := newBuf()
	switch kind {
	case "block", "tableindex":
		objects.WriteBlockTo(objects.NewStrListEncoder(true), b, genSmallRows(r, 1+r.Intn(4), 1+r.Intn(3)))
	case "blockindex":
		nc := 1 + r.Intn(3)
		idx, err := objects.IndexBlock(objects.NewStrListEncoder(true), meow.New(0), genSmallRows(r, 1+r.Intn(5), nc), []uint32{uint32(r.Intn(nc))})
		if err != nil {
			panic(err)
		}
		idx.WriteTo(b)
	case "table":
		nb := r.Intn(3)
		t := &objects.Table{Columns: genSmallRows(r, 1, 1+r.Intn(4))[0], PK: []uint32{0}}
		for i := 0; i < nb; i++ {
			t.Blocks = append(t.Blocks, []byte(genBytes(r, 16)))
			t.BlockIndices = append(t.BlockIndices, []byte(genBytes(r, 16)))
		}
		if nb > 0 {
			t.RowsCount = uint32((nb-1)*255 + 1 + r.Intn(255))
		}
		t.WriteTo(b)
	case "commit":
		c := &objects.Commit{Table: []byte(genBytes(r, 16)), AuthorName: genCell(r), AuthorEmail: genCell(r), Message: genCell(r),
			Time: time.Unix(r.Int63n(4000000000), 0).In(time.FixedZone("", []int{0, 3600, -3600, 19800, -34200}[r.Intn(5)]))}
		for i := 0; i < r.Intn(3); i++ {
			c.Parents = append(c.Parents, []byte(genBytes(r, 16)))
		}
		c.WriteTo(b)
	case "profile":
		if r.Intn(3) == 0 {
			// what an earlier profiler left behind: names and a row count, no statistics
			p := &objects.TableProfile{Version: uint32(r.Intn(2)), RowsCount: uint32(r.Intn(1000))}
			for i := 0; i < 1+r.Intn(3); i++ {
				p.Columns = append(p.Columns, &objects.ColumnProfile{Name: string(rune('a' + i))})
			}
			p.WriteTo(b)
		} else {
			nc := 1 + r.Intn(3)
			cols := make([]string, nc)
			for i := range cols {
				cols[i] = string(rune('a' + i))
			}
			pr := dprof.NewProfiler(cols)
			for _, row := range genSmallRows(r, 1+r.Intn(12), nc) {
				if r.Intn(2) == 0 {
					row[0] = itoa(r.Intn(50))
				}
				pr.Process(row)
			}
			pr.Summarize().WriteTo(b)
		}
	}
	return append([]byte{}, b.Bytes()...)
}

func genStoreHistory(r *rand.Rand) []c06StoreOp {
	all := []string{"tableindex", "profile", "tableindex", "profile", "block", "blockindex", "table", "commit"}
	var focus []string
	for i := 0; i < 1+r.Intn(3); i++ {
		focus = append(focus, all[r.Intn(len(all))])
	}
	sums := []string{genSum(r), genSum(r)}
	type item struct {
		content []byte
		valid   bool
	}
	pool := map[string][]item{}
	for _, k := range focus {
		if pool[k] != nil {
			continue
		}
		for i := 0; i < 2+r.Intn(2); i++ {
			if r.Intn(6) == 0 {
				pool[k] = append(pool[k], item{[]byte(genBytes(r, r.Intn(60))), false})
			} else {
				pool[k] = append(pool[k], item{genObjectBytes(r, k), true})
			}
		}
	}
	ops := []c06StoreOp{}
	for i := 0; i < 2+r.Intn(7); i++ {
		k := focus[r.Intn(len(focus))]
		it := pool[k][r.Intn(len(pool[k]))]
		d := meow.Checksum(0, it.content)
		op := c06StoreOp{Kind: k}
		if r.Intn(4) == 0 {
			op.Op = "delete"
			if c06ByContent(k) {
				op.Sum = hx(d[:])
			} else {
				op.Sum = sums[r.Intn(3)%2]
			}
		} else {
			op.Op = "save"
			op.Content, op.Valid = hx(it.content), it.valid
			if !c06ByContent(k) {
				op.Sum = sums[r.Intn(3)%2]
			}
		}
		ops = append(ops, op)
	}
	return ops
}

// ---- derived objects refreshed over an existing state -------------------------------------------
//
// The table index and the table profile of a stored table are recomputed by ingest.IndexTable /
// ingest.ProfileTable (`wrgl profile --refresh`, re-indexing what a receive left behind) while their
// keys already hold something: the objects of another table, of an earlier profiler, damaged bytes,
// the same bytes, or nothing. What the refresh writes must be what reads back, so the outcome may
// not depend on that state: the reference is the same refresh on a copy of the store in which both
// keys are absent. Every other object of the store must be left as it was.

func genRefresh(r *rand.Rand) c06Input {
	t := GenTable(r, 1+r.Intn(4), 1+r.Intn(600), []int{0}, 0)
	in := c06Input{Spec: t, Mode: []string{"other-table", "other-table", "older-profiler", "damaged", "same", "absent"}[r.Intn(6)]}
	if in.Mode == "other-table" {
		in.StaleSpec = GenTable(r, len(t.Columns), 1+r.Intn(600), []int{0}, 0)
	}
	return in
}

func c06CopyStore(db *MemStore) *MemStore {
	cp := NewMemStore()
	all, _ := db.Filter(nil)
	for k, v := range all {
		cp.Set([]byte(k), v)
	}
	return cp
}

func c06RestDigest(db *MemStore, except ...string) string {
	h := meow.New(0)
	for _, kv := range c06DumpStore(db) {
		skip := false
		for _, e := range except {
			if kv[0] == hx([]byte(e)) {
				skip = true
			}
		}
		if !skip {
			h.Write([]byte(kv[0] + "=" + kv[1] + ";"))
		}
	}
	return hx(h.Sum(nil))
}

func c06Refresh(t *TableSpec, mode string, staleSpec *TableSpec) Res {
	return Guard(func() Res {
		db := NewMemStore()
		sum, err := IngestCSV(db, t.CSV(0), t.PK, IngestCfg{})
		if err != nil {
			return Err("ingest")
		}
		tbl, err := objects.GetTable(db, sum)
		if err != nil {
			return Err("get-table")
		}
		pk, ik := "tblsum/"+string(sum), "tblidx/"+string(sum)
		refresh := func(s *MemStore) (string, string, bool) {
			if err := ingest.ProfileTable(s, sum, tbl); err != nil {
				return "", "", false
			}
			if err := ingest.IndexTable(s, sum, tbl, logr.Discard()); err != nil {
				return "", "", false
			}
			p, err1 := s.Get([]byte(pk))
			i, err2 := s.Get([]byte(ik))
			if err1 != nil || err2 != nil {
				return "", "", false
			}
			return hx(p), hx(i), true
		}
		// reference: the refresh onto absent keys
		fresh := c06CopyStore(db)
		fresh.Delete([]byte(pk))
		fresh.Delete([]byte(ik))
		refP, refI, ok := refresh(fresh)
		if !ok {
			return Err("refresh-reference")
		}
		// the state the refresh meets
		ingP, _ := db.Get([]byte(pk))
		ingI, _ := db.Get([]byte(ik))
		switch mode {
		case "other-table":
			odb := NewMemStore()
			osum, err := IngestCSV(odb, staleSpec.CSV(0), staleSpec.PK, IngestCfg{})
			if err != nil {
				return Err("ingest-stale")
			}
			op, _ := odb.Get(append([]byte("tblsum/"), osum...))
			oi, _ := odb.Get(append([]byte("tblidx/"), osum...))
			db.Set([]byte(pk), op)
			db.Set([]byte(ik), oi)
		case "older-profiler":
			p := &objects.TableProfile{Version: 0, RowsCount: uint32(len(t.Rows))}
			for _, c := range t.Columns {
				p.Columns = append(p.Columns, &objects.ColumnProfile{Name: c})
			}
			b := newBuf()
			p.WriteTo(b)
			db.Set([]byte(pk), b.Bytes())
			b2 := newBuf()
			objects.WriteBlockTo(objects.NewStrListEncoder(true), b2, [][]string{{""}})
			db.Set([]byte(ik), b2.Bytes())
		case "damaged":
			db.Set([]byte(pk), ingP[:len(ingP)/2])
			db.Set([]byte(ik), ingI[:len(ingI)/2])
		case "absent":
			db.Delete([]byte(pk))
			db.Delete([]byte(ik))
		}
		staleP, _ := db.Get([]byte(pk))
		staleI, _ := db.Get([]byte(ik))
		staleP, staleI = append([]byte{}, staleP...), append([]byte{}, staleI...)
		before := c06RestDigest(db, pk, ik)
		gotP, gotI, ok := refresh(db)
		if !ok {
			return Err("refresh")
		}
		out := map[string]interface{}{"refProfile": refP, "refIndex": refI, "gotProfile": gotP, "gotIndex": gotI,
			"staleProfile": hx(staleP), "staleIndex": hx(staleI), "restBefore": before, "restAfter": c06RestDigest(db, pk, ik),
			"typedProfile": c06Typed(db, "profile", sum), "typedIndex": c06Typed(db, "tableindex", sum), "rows": len(t.Rows)}
		return Ok(out)
	})
}
