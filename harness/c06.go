package main

import (
	"bytes"
	"encoding/json"
	"math/rand"
	"time"

	"github.com/pckhoi/meow"
	"github.com/wrgl/wrgl/pkg/encoding/packfile"
	"github.com/wrgl/wrgl/pkg/misc"
	"github.com/wrgl/wrgl/pkg/objects"
)

func init() {
	runners["C06"] = runC06
	corpusRunners["C06"] = corpusC06
}

type c06Input struct {
	Row    []string   `json:"row,omitempty"`
	Rows   [][]string `json:"rows,omitempty"`
	Table  *c06Table  `json:"table,omitempty"`
	Commit *c06Commit `json:"commit,omitempty"`
	Type   int        `json:"type,omitempty"`
	U      uint64     `json:"u"`
	Kind   string     `json:"kind,omitempty"`
	Content string    `json:"content,omitempty"`
	PKIdx  []uint32   `json:"pkIdx,omitempty"`
	Spec   *TableSpec `json:"spec,omitempty"`
}

type c06Table struct {
	Columns      []string `json:"columns"`
	PK           []uint32 `json:"pk"`
	RowsCount    uint32   `json:"rowsCount"`
	Blocks       []string `json:"blocks"`
	BlockIndices []string `json:"blockIndices"`
}

type c06Commit struct {
	Table       string   `json:"table"`
	AuthorName  string   `json:"authorName"`
	AuthorEmail string   `json:"authorEmail"`
	Sec         int64    `json:"sec"`
	ZoneSec     int      `json:"zoneSec"`
	Zero        bool     `json:"zero"`
	Message     string   `json:"message"`
	Parents     []string `json:"parents"`
}

func unhexAll(l []string) [][]byte {
	out := make([][]byte, len(l))
	for i, s := range l {
		out[i] = unhx(s)
	}
	return out
}

func unhexStrs(l []string) []string {
	out := make([]string, len(l))
	for i, s := range l {
		out[i] = string(unhx(s))
	}
	return out
}

func c06StrList(rowHex []string) Res {
	row := unhexStrs(rowHex)
	return Guard(func() Res {
		enc := objects.NewStrListEncoder(false)
		b := enc.Encode(row)
		dec := objects.NewStrListDecoder(false)
		n, back, err := dec.Read(bytes.NewReader(b))
		out := map[string]interface{}{"bytes": hx(b)}
		if err != nil {
			out["read"] = "err"
		} else {
			out["read"] = hxRow(back)
			out["n"] = n
		}
		out["decode"] = hxRow(objects.NewStrListDecoder(false).Decode(b))
		return Ok(out)
	})
}

func c06Block(rowsHex [][]string) Res {
	rows := make([][]string, len(rowsHex))
	for i, r := range rowsHex {
		rows[i] = unhexStrs(r)
	}
	return Guard(func() Res {
		buf := bytes.NewBuffer(nil)
		_, err := objects.WriteBlockTo(objects.NewStrListEncoder(true), buf, rows)
		if err != nil {
			return Err("write")
		}
		b := append([]byte{}, buf.Bytes()...)
		out := map[string]interface{}{"bytes": hx(b)}
		_, back, err := objects.ReadBlockFrom(bytes.NewReader(b))
		if err != nil {
			out["read"] = "err"
		} else {
			out["read"] = hxRows(back)
		}
		// the other producer of block bytes
		enc := objects.NewStrListEncoder(false)
		var parts [][]byte
		for _, r := range rows {
			parts = append(parts, enc.Encode(r))
		}
		out["combined"] = hx(objects.CombineRowBytesIntoBlock(parts))
		verr := objects.ValidateBlockBytes(b)
		out["valid"] = verr == nil
		return Ok(out)
	})
}

func c06TableRun(t *c06Table) Res {
	return Guard(func() Res {
		tbl := &objects.Table{Columns: unhexStrs(t.Columns), PK: t.PK, RowsCount: t.RowsCount,
			Blocks: unhexAll(t.Blocks), BlockIndices: unhexAll(t.BlockIndices)}
		buf := bytes.NewBuffer(nil)
		if _, err := tbl.WriteTo(buf); err != nil {
			return Err("write")
		}
		b := append([]byte{}, buf.Bytes()...)
		out := map[string]interface{}{"bytes": hx(b)}
		_, back, err := objects.ReadTableFrom(bytes.NewReader(b))
		if err != nil {
			out["read"] = "err"
		} else {
			pk := back.PK
			if pk == nil {
				pk = []uint32{}
			}
			bl, bi := []string{}, []string{}
			for _, x := range back.Blocks {
				bl = append(bl, hx(x))
			}
			for _, x := range back.BlockIndices {
				bi = append(bi, hx(x))
			}
			out["read"] = c06Table{Columns: hxRow(back.Columns), PK: pk, RowsCount: back.RowsCount, Blocks: bl, BlockIndices: bi}
			buf2 := bytes.NewBuffer(nil)
			back.WriteTo(buf2)
			out["reencoded"] = hx(buf2.Bytes())
		}
		return Ok(out)
	})
}

func c06CommitRun(c *c06Commit) Res {
	return Guard(func() Res {
		com := &objects.Commit{Table: unhx(c.Table), AuthorName: string(unhx(c.AuthorName)), AuthorEmail: string(unhx(c.AuthorEmail)),
			Message: string(unhx(c.Message)), Parents: unhexAll(c.Parents)}
		if !c.Zero {
			com.Time = time.Unix(c.Sec, 0).In(time.FixedZone("", c.ZoneSec))
		}
		buf := bytes.NewBuffer(nil)
		if _, err := com.WriteTo(buf); err != nil {
			return Err("write")
		}
		b := append([]byte{}, buf.Bytes()...)
		out := map[string]interface{}{"bytes": hx(b)}
		_, back, err := objects.ReadCommitFrom(bytes.NewReader(b))
		if err != nil {
			out["read"] = "err"
		} else {
			ps := []string{}
			for _, p := range back.Parents {
				ps = append(ps, hx(p))
			}
			rc := c06Commit{Table: hx(back.Table), AuthorName: hx([]byte(back.AuthorName)), AuthorEmail: hx([]byte(back.AuthorEmail)),
				Message: hx([]byte(back.Message)), Parents: ps, Zero: back.Time.IsZero()}
			if !rc.Zero {
				rc.Sec = back.Time.Unix()
				_, rc.ZoneSec = back.Time.Zone()
			}
			out["read"] = rc
			buf2 := bytes.NewBuffer(nil)
			back.WriteTo(buf2)
			out["reencoded"] = hx(buf2.Bytes())
		}
		return Ok(out)
	})
}

func c06Hdr(typ int, u uint64) Res {
	return Guard(func() Res {
		b := packfile.EncodeObjTypeAndLen(misc.NewBuffer(nil), typ, u)
		b = append([]byte{}, b...)
		t2, u2, err := packfile.DecodeObjTypeAndLen(bytes.NewReader(b))
		out := map[string]interface{}{"bytes": hx(b)}
		if err != nil {
			out["read"] = "err"
		} else {
			out["read"] = []interface{}{t2, u2}
		}
		return Ok(out)
	})
}

func c06Save(kind string, content []byte) Res {
	return Guard(func() Res {
		db := NewMemStore()
		var sum []byte
		var err error
		switch kind {
		case "block":
			sum, _, err = objects.SaveBlock(db, nil, content)
		case "blockindex":
			sum, _, err = objects.SaveBlockIndex(db, nil, content)
		case "table":
			sum, err = objects.SaveTable(db, content)
		case "commit":
			sum, err = objects.SaveCommit(db, content)
		}
		if err != nil {
			return Err("save")
		}
		// save the same content again: must not create a second key
		switch kind {
		case "block":
			objects.SaveBlock(db, nil, content)
		case "blockindex":
			objects.SaveBlockIndex(db, nil, content)
		case "table":
			objects.SaveTable(db, content)
		case "commit":
			objects.SaveCommit(db, content)
		}
		keys := db.Keys()
		hk := []string{}
		for _, k := range keys {
			hk = append(hk, hx([]byte(k)))
		}
		digest := meow.Checksum(0, content)
		out := map[string]interface{}{"sum": hx(sum), "keys": sortedCopy(hk), "digest": hx(digest[:])}
		switch kind {
		case "block":
			got, err := objects.GetBlockBytes(db, sum)
			if err == nil {
				out["stored"] = hx(got)
			}
		case "table", "commit":
			raw, err := db.Get(append([]byte(map[string]string{"table": "tbl/", "commit": "com/"}[kind]), sum...))
			if err == nil {
				out["stored"] = hx(raw)
			}
		}
		return Ok(out)
	})
}

func genBytes(r *rand.Rand, n int) string {
	b := make([]byte, n)
	for i := range b {
		b[i] = byte(r.Intn(256))
	}
	return string(b)
}

func genBigCell(r *rand.Rand) string {
	sizes := []int{65534, 65535, 65536, 65537, 70000, 40000, 131072}
	n := sizes[r.Intn(len(sizes))]
	return string(bytes.Repeat([]byte{byte('a' + r.Intn(26))}, n))
}

func genRow(r *rand.Rand, big bool) []string {
	n := r.Intn(6)
	row := make([]string, n)
	for i := range row {
		row[i] = genCell(r)
	}
	if big && n > 0 {
		k := 1 + r.Intn(2)
		for j := 0; j < k; j++ {
			row[r.Intn(n)] = genBigCell(r)
		}
	}
	return row
}

func genSum(r *rand.Rand) string { return hx([]byte(genBytes(r, 16))) }

// c06BlockIndex builds the index of a block with the real IndexBlock, writes it, reads it back and
// writes it again; also stores it and reads it through the store.
func c06BlockIndex(rows [][]string, pk []uint32) Res {
	return Guard(func() Res {
		idx, err := objects.IndexBlock(objects.NewStrListEncoder(true), meow.New(0), rows, pk)
		if err != nil {
			return Err("index")
		}
		b1 := newBuf()
		if _, err := idx.WriteTo(b1); err != nil {
			return Err("write")
		}
		// the index ingest builds from the block's BYTES must be the one built from its rows
		fromBytes := ""
		if len(rows) > 0 {
			bb := newBuf()
			if _, err := objects.WriteBlockTo(objects.NewStrListEncoder(true), bb, rows); err != nil {
				return Err("write-block")
			}
			idxB, err := objects.IndexBlockFromBytes(objects.NewStrListDecoder(true), meow.New(0), objects.NewStrListEditor(pk), bb.Bytes(), pk)
			if err != nil {
				return Err("index-from-bytes")
			}
			b4 := newBuf()
			idxB.WriteTo(b4)
			fromBytes = hx(b4.Bytes())
		} else {
			fromBytes = hx(b1.Bytes())
		}
		_, idx2, err := objects.ReadBlockIndex(bytes.NewReader(b1.Bytes()))
		if err != nil {
			return Err("read")
		}
		b2 := newBuf()
		idx2.WriteTo(b2)
		db := NewMemStore()
		sum, _, err := objects.SaveBlockIndex(db, nil, b1.Bytes())
		if err != nil {
			return Err("save")
		}
		want := meow.Checksum(0, b1.Bytes())
		idx3, _, err := objects.GetBlockIndex(db, nil, sum)
		if err != nil {
			return Err("get")
		}
		b3 := newBuf()
		idx3.WriteTo(b3)
		parsed, err := parseBlockIndexBytes(b1.Bytes())
		if err != nil {
			return Err("parse")
		}
		return Ok(map[string]interface{}{"bytes": hx(b1.Bytes()), "reencoded": hx(b2.Bytes()), "fromStore": hx(b3.Bytes()), "fromBlockBytes": fromBytes,
			"keyIsHash": bytes.Equal(sum, want[:]), "idx": parsed})
	})
}

// c06Profile: the profile a real ingest stores, decoded and re-encoded.
func c06Profile(t *TableSpec) Res {
	return Guard(func() Res {
		db := NewMemStore()
		sum, err := IngestCSV(db, t.CSV(0), t.PK, IngestCfg{})
		if err != nil {
			return Err("ingest")
		}
		raw, err := db.Get(append([]byte("tblsum/"), sum...))
		if err != nil {
			return Err("no-profile")
		}
		p, err := objects.GetTableProfile(db, sum)
		if err != nil {
			return Err("get")
		}
		b := newBuf()
		if _, err := p.WriteTo(b); err != nil {
			return Err("write")
		}
		p2 := &objects.TableProfile{}
		if _, err := p2.ReadFrom(bytes.NewReader(b.Bytes())); err != nil {
			return Err("read")
		}
		b2 := newBuf()
		p2.WriteTo(b2)
		return Ok(map[string]interface{}{"stored": hx(raw), "reencoded": hx(b.Bytes()), "reencoded2": hx(b2.Bytes()),
			"rowsCount": int(p.RowsCount), "columns": len(p.Columns), "rows": len(t.Rows), "cols": len(t.Columns)})
	})
}

func runC06(ctx *Ctx) {
	r := ctx.R
	if ctx.Idx%16 == 8 {
		n := r.Intn(6)
		if r.Intn(5) == 0 {
			n = 255
		}
		nc := 1 + r.Intn(3)
		rows := make([][]string, n)
		for i := range rows {
			rows[i] = make([]string, nc)
			for c := range rows[i] {
				rows[i][c] = genCell(r)
			}
		}
		pk := []uint32{}
		if r.Intn(3) != 0 {
			pk = append(pk, uint32(r.Intn(nc)))
		}
		if n > 0 && n < 10 && r.Intn(3) == 0 {
			// a cell at the length limit, in the key or elsewhere
			sz := []int{65533, 65534, 65535}[r.Intn(3)]
			rows[r.Intn(n)][r.Intn(nc)] = string(bytes.Repeat([]byte{byte('a' + r.Intn(26))}, sz))
		}
		in := c06Input{Rows: hxRows(rows), PKIdx: pk}
		if in.Rows == nil {
			in.Rows = [][]string{}
		}
		ctx.Emit("blockindex", in, c06BlockIndex(rows, pk), n > 0)
		return
	}
	if ctx.Idx%16 == 9 {
		t := GenTable(r, 1+r.Intn(4), 1+r.Intn(300), []int{0}, 0)
		ctx.Emit("profile", c06Input{Spec: t}, c06Profile(t), true)
		return
	}
	switch ctx.Idx % 8 {
	case 0, 1:
		big := r.Intn(4) == 0
		row := genRow(r, big)
		tags := []string{}
		if big {
			tags = append(tags, "big-cell")
		}
		ctx.Emit("strlist", c06Input{Row: hxRow(row)}, c06StrList(hxRow(row)), len(row) > 0, tags...)
	case 2:
		n := r.Intn(5)
		if r.Intn(6) == 0 {
			n = 255
		}
		rows := make([][]string, n)
		for i := range rows {
			rows[i] = genRow(r, r.Intn(40) == 0)
		}
		ctx.Emit("block", c06Input{Rows: hxRows(rows)}, c06Block(hxRows(rows)), n > 0)
	case 3:
		nb := r.Intn(4)
		t := &c06Table{Columns: hxRow(genRow(r, false)), PK: []uint32{}, Blocks: []string{}, BlockIndices: []string{}}
		for i := 0; i < r.Intn(3); i++ {
			t.PK = append(t.PK, uint32(r.Intn(5)))
		}
		for i := 0; i < nb; i++ {
			t.Blocks = append(t.Blocks, genSum(r))
			t.BlockIndices = append(t.BlockIndices, genSum(r))
		}
		if nb > 0 {
			t.RowsCount = uint32((nb-1)*255 + 1 + r.Intn(255))
		}
		ctx.Emit("table", c06Input{Table: t}, c06TableRun(t), nb > 0)
	case 4:
		c := &c06Commit{Table: genSum(r), AuthorName: hx([]byte(genCell(r))), AuthorEmail: hx([]byte(genCell(r))),
			Message: hx([]byte(genCell(r) + genCell(r))), Parents: []string{}}
		for i := 0; i < r.Intn(4); i++ {
			c.Parents = append(c.Parents, genSum(r))
		}
		switch r.Intn(6) {
		case 0:
			c.Zero = true
		case 1:
			c.Sec = []int64{0, 1, 9999999999, 10000000000, -1, 253402300800, 4102444800}[r.Intn(7)]
		default:
			c.Sec = r.Int63n(4000000000)
		}
		if !c.Zero {
			c.ZoneSec = []int{0, 3600, -3600, 19800, 20700, -34200, 50400, 45900, 30, -1800, 86340, 86400, 89940, 90000, -93600, 171120}[r.Intn(16)]
		}
		tags := []string{}
		if r.Intn(8) == 0 {
			c.Message = hx([]byte(genBigCell(r)))
			tags = append(tags, "big-field")
		}
		ctx.Emit("commit", c06Input{Commit: c}, c06CommitRun(c), true, tags...)
	case 5, 6:
		typ := 1 + r.Intn(3)
		var u uint64
		switch r.Intn(6) {
		case 0:
			u = uint64(r.Intn(40))
		case 1:
			k := uint(r.Intn(64))
			u = (uint64(1) << k) + uint64(r.Intn(3)) - 1
		case 2:
			u = r.Uint64()
		case 3:
			u = uint64(r.Uint32())
		case 4:
			u = r.Uint64() >> uint(r.Intn(64))
		default:
			u = uint64(r.Intn(1 << 20))
		}
		ctx.Emit("hdr", c06Input{Type: typ, U: u}, c06Hdr(typ, u), true)
	case 7:
		kind := []string{"block", "blockindex", "table", "commit"}[r.Intn(4)]
		content := []byte(genBytes(r, r.Intn(200)))
		ctx.Emit("save", c06Input{Kind: kind, Content: hx(content)}, c06Save(kind, content), true)
	}
}

func corpusC06(ctx *Ctx, op string, raw json.RawMessage) {
	var in c06Input
	if err := json.Unmarshal(raw, &in); err != nil {
		panic(err)
	}
	switch op {
	case "strlist":
		ctx.Emit(op, in, c06StrList(in.Row), true, "corpus")
	case "block":
		ctx.Emit(op, in, c06Block(in.Rows), true, "corpus")
	case "table":
		ctx.Emit(op, in, c06TableRun(in.Table), true, "corpus")
	case "commit":
		ctx.Emit(op, in, c06CommitRun(in.Commit), true, "corpus")
	case "hdr":
		ctx.Emit(op, in, c06Hdr(in.Type, in.U), true, "corpus")
	case "save":
		ctx.Emit(op, in, c06Save(in.Kind, unhx(in.Content)), true, "corpus")
	case "blockindex":
		rows := make([][]string, len(in.Rows))
		for i, r := range in.Rows {
			rows[i] = unhexStrs(r)
		}
		ctx.Emit(op, in, c06BlockIndex(rows, in.PKIdx), true, "corpus")
	case "profile":
		if in.Spec != nil {
			ctx.Emit(op, in, c06Profile(in.Spec), true, "corpus")
		}
	}
}
