package main

// C01, a spill file that is cut short between the moment the sorter wrote it and the moment the merge
// reads it back (a temp-directory cleaner, a failing or full disk): the ingest must fail, or store
// exactly the rows of the CSV; it must never hand back a table that lacks rows.
//
// The fault is injected through the public entry point: ingest.IngestTable reads the CSV through the
// io.ReadCloser it is given and closes it when the last row has been added to the sorter — all runs
// have been spilled by then, and the merge has not started. The Close of the reader handed in here
// truncates one spill file (they are in this process's private TMPDIR) IN THE MIDDLE OF A FIELD of
// the row encoding — inside a row's 4-byte cell count, inside a 2-byte cell length, or inside a
// cell's bytes — i.e. the file ends with a torn record, which every reader of a length-prefixed
// format can tell from the end of the file. (A cut that falls exactly between two fields or two rows
// is a different fault, not generated here: a file cut there is a well-formed shorter file.)

import (
	"bytes"
	"encoding/binary"
	"io"
	"math/rand"
	"os"
	"path/filepath"
	"sort"
	"strings"

	"github.com/go-logr/logr"
	"github.com/wrgl/wrgl/pkg/ingest"
	"github.com/wrgl/wrgl/pkg/sorter"
)

type c01TornInput struct {
	ingestInput
	// which spill file (index modulo their number, in name order) and which of the positions inside
	// a field (index modulo their number) the file is cut at
	TornChunk int `json:"tornChunk"`
	TornPos   int `json:"tornPos"`
}

type c01TornFile struct {
	*bytes.Reader
	onClose func()
}

func (f *c01TornFile) Close() error {
	if f.onClose != nil {
		f.onClose()
		f.onClose = nil
	}
	return nil
}

// c01TornPositions lists the offsets strictly inside a field of the encoded rows of a spill file.
func c01TornPositions(b []byte) []int64 {
	pos := []int64{}
	off := 0
	for off+4 <= len(b) {
		count := int(binary.BigEndian.Uint32(b[off:]))
		pos = append(pos, int64(off+1), int64(off+2), int64(off+3))
		off += 4
		for c := 0; c < count && off+2 <= len(b); c++ {
			l := int(binary.BigEndian.Uint16(b[off:]))
			pos = append(pos, int64(off+1))
			off += 2
			for k := 1; k < l; k++ {
				pos = append(pos, int64(off+k))
			}
			off += l
		}
	}
	return pos
}

func c01TornRun(spec *TableSpec, runSize uint64, workers int, comma rune, tornChunk, tornPos int) (*c01TornInput, Res) {
	csvBytes := spec.CSV(comma)
	hdr, rows, err := rereadCSV(csvBytes, comma)
	in := &c01TornInput{ingestInput: ingestInput{PK: spec.PKIdx(), RunSize: runSize, Workers: workers, Spec: spec},
		TornChunk: tornChunk, TornPos: tornPos}
	if comma != 0 {
		in.Comma = string(comma)
	}
	if err != nil {
		return in, Err("csv-reread")
	}
	in.Columns = hxRow(hdr)
	in.Rows = hxRows(rows)
	if in.Rows == nil {
		in.Rows = [][]string{}
	}
	tmp := privateTmp()
	before := fileSet(tmp)
	spills, cut := 0, false
	f := &c01TornFile{Reader: bytes.NewReader(csvBytes), onClose: func() {
		names := []string{}
		for n := range fileSet(tmp) {
			if !before[n] && strings.HasPrefix(n, "sorted_chunk_") {
				names = append(names, n)
			}
		}
		sort.Strings(names)
		spills = len(names)
		if spills == 0 {
			return
		}
		p := filepath.Join(tmp, names[tornChunk%spills])
		b, err := os.ReadFile(p)
		if err != nil {
			return
		}
		cands := c01TornPositions(b)
		if len(cands) == 0 {
			return
		}
		if os.Truncate(p, cands[tornPos%len(cands)]) == nil {
			cut = true
		}
	}}
	res := Guard(func() Res {
		opts := []sorter.SorterOption{sorter.WithRunSize(runSize)}
		if comma != 0 {
			opts = append(opts, sorter.WithDelimiter(comma))
		}
		s, err := sorter.NewSorter(opts...)
		if err != nil {
			return Err("new-sorter")
		}
		db := NewMemStore()
		sum, err := ingest.IngestTable(db, s, io.ReadCloser(f), spec.PK, logr.Discard(), ingest.WithNumWorkers(workers))
		if err != nil {
			return Res{"res": "err", "kind": "ingest", "spills": spills, "cut": cut}
		}
		d, err := DumpTable(db, sum, true)
		if err != nil {
			return Res{"res": "err", "kind": "dump", "spills": spills, "cut": cut}
		}
		return Ok(map[string]interface{}{"table": d, "spills": spills, "cut": cut})
	})
	// spill files an ingest that failed left behind must not disturb later cases
	for n := range fileSet(tmp) {
		if !before[n] && strings.HasPrefix(n, "sorted_chunk_") {
			os.Remove(filepath.Join(tmp, n))
		}
	}
	return in, res
}

// c01TornCase: the table of this case index once more, with a run size that spills at least once
// (2..7 runs, or one per row) and one spill file torn before the merge.
func c01TornCase(ctx *Ctx, r *rand.Rand, t *TableSpec, runSize uint64, workers int, comma rune, tags []string) {
	if len(t.Rows) < 2 {
		return
	}
	total := 0
	for _, row := range t.Rows {
		total += 4
		for _, c := range row {
			total += len(c) + 2
		}
	}
	if runSize > uint64(total/2+1) {
		runSize = uint64(total/(2+r.Intn(6)) + 1)
	}
	in, res := c01TornRun(t, runSize, workers, comma, r.Intn(1<<20), r.Intn(1<<30))
	c01TornEmit(ctx, in, res, tags...)
}

func c01TornEmit(ctx *Ctx, in *c01TornInput, res Res, tags ...string) {
	if cut, ok := res["cut"].(bool); ok && cut {
		tags = append(tags, "spill-cut:refused")
	} else if res["res"] == "ok" {
		if v, ok := res["val"].(map[string]interface{}); ok && v["cut"] == true {
			tags = append(tags, "spill-cut:stored")
		}
	}
	ctx.Emit("ingest-torn-spill", in, res, true, append(tags, "torn-spill")...)
}
