// verifharness runs the real wrgl packages on generated cases and writes one JSON line per case:
// {id, prop, op, seed, idx, input, impl, nontrivial, tags}. The lines are piped to the Lean model
// driver (wrgl_model), which evaluates the model and the property predicates. No oracle lives here.
package main

import (
	"bufio"
	"context"
	"encoding/json"
	"flag"
	"fmt"
	"math/rand"
	"os"
	"path/filepath"
	"runtime"
	"runtime/debug"
	"sort"
	"strings"
	"time"
)

// Line is one case as seen by the Lean driver.
type Line struct {
	ID         string      `json:"id"`
	Prop       string      `json:"prop"`
	Op         string      `json:"op"`
	Seed       int64       `json:"seed"`
	Idx        int         `json:"idx"`
	Input      interface{} `json:"input"`
	Impl       interface{} `json:"impl"`
	Nontrivial bool        `json:"nontrivial"`
	Tags       []string    `json:"tags,omitempty"`
}

// Ctx is handed to a runner for one case index.
type Ctx struct {
	Prop string
	Seed int64
	Idx  int
	Tier string
	R    *rand.Rand
	out  *bufio.Writer
	sub  int
	// Corpus is the raw corpus input when the case replays a corpus entry (nil otherwise).
	Corpus   json.RawMessage
	CorpusOp string
}

func (c *Ctx) Thorough() bool { return c.Tier == "thorough" }

// Emit writes one case line and flushes.
func (c *Ctx) Emit(op string, input, impl interface{}, nontrivial bool, tags ...string) {
	l := Line{
		ID:   fmt.Sprintf("%s-%d-%d-%d", c.Prop, c.Seed, c.Idx, c.sub),
		Prop: c.Prop, Op: op, Seed: c.Seed, Idx: c.Idx, Input: input, Impl: impl,
		Nontrivial: nontrivial, Tags: tags,
	}
	c.sub++
	b, err := json.Marshal(l)
	if err != nil {
		fmt.Fprintf(os.Stderr, "marshal: %v\n", err)
		os.Exit(3)
	}
	c.out.Write(b)
	c.out.WriteByte('\n')
	c.out.Flush()
}

// Runner generates and runs case number ctx.Idx (deterministically from ctx.R).
type Runner func(ctx *Ctx)

// CorpusRunner re-runs a stored input (as emitted in a Line's "input") through the implementation.
type CorpusRunner func(ctx *Ctx, op string, input json.RawMessage)

var runners = map[string]Runner{}
var corpusRunners = map[string]CorpusRunner{}

// Res is the canonical three-outcome result.
type Res map[string]interface{}

func Ok(v interface{}) Res  { return Res{"res": "ok", "val": v} }
func Err(kind string) Res   { return Res{"res": "err", "kind": kind} }
func Panic(site string) Res { return Res{"res": "panic", "site": site} }

// Guard runs f and converts a panic on this goroutine into a Panic result.
func Guard(f func() Res) (r Res) {
	defer func() {
		if e := recover(); e != nil {
			s := fmt.Sprint(e)
			if len(s) > 200 {
				s = s[:200]
			}
			r = Panic(s)
			// where it happened (kept in the replay file; the driver only looks at "res")
			st := string(debug.Stack())
			if len(st) > 6000 {
				st = st[:6000]
			}
			r["stack"] = st
		}
	}()
	return f()
}

func main() {
	prop := flag.String("prop", "", "property id")
	seed := flag.Int64("seed", 1, "seed")
	from := flag.Int("from", 0, "first case index")
	n := flag.Int("n", 10, "number of cases")
	tier := flag.String("tier", "quick", "quick|thorough")
	corpus := flag.String("corpus", "", "corpus file (JSON lines with op,input) to replay instead of generating")
	list := flag.Bool("list", false, "list properties with runners")
	caseTimeout := flag.Duration("case-timeout", 90*time.Second, "a case running longer than this is a hang: the process exits with status 4")
	flag.Parse()
	if *list {
		var ks []string
		for k := range runners {
			ks = append(ks, k)
		}
		sort.Strings(ks)
		fmt.Println(strings.Join(ks, " "))
		return
	}
	out := bufio.NewWriterSize(os.Stdout, 1<<20)
	defer out.Flush()
	if *corpus != "" {
		cr, ok := corpusRunners[*prop]
		if !ok {
			return
		}
		f, err := os.Open(*corpus)
		if err != nil {
			fmt.Fprintln(os.Stderr, err)
			os.Exit(3)
		}
		defer f.Close()
		sc := bufio.NewScanner(f)
		sc.Buffer(make([]byte, 1<<20), 1<<30)
		idx := 0
		for sc.Scan() {
			line := strings.TrimSpace(sc.Text())
			if line == "" || strings.HasPrefix(line, "#") {
				continue
			}
			var e struct {
				Op    string          `json:"op"`
				Input json.RawMessage `json:"input"`
			}
			if err := json.Unmarshal([]byte(line), &e); err != nil {
				fmt.Fprintf(os.Stderr, "corpus %s: %v\n", *corpus, err)
				os.Exit(3)
			}
			if idx >= *from && idx < *from+*n {
				fmt.Fprintf(out, "{\"begin\":%d}\n", idx)
				out.Flush()
				ctx := &Ctx{Prop: *prop, Seed: -1, Idx: idx, Tier: *tier, R: rand.New(rand.NewSource(int64(idx))), out: out}
				runWithWatchdog(func() { cr(ctx, e.Op, e.Input) }, *caseTimeout)
			}
			idx++
		}
		return
	}
	r, ok := runners[*prop]
	if !ok {
		fmt.Fprintf(os.Stderr, "no runner for %s\n", *prop)
		os.Exit(3)
	}
	for i := *from; i < *from+*n; i++ {
		fmt.Fprintf(out, "{\"begin\":%d}\n", i)
		out.Flush()
		ctx := &Ctx{Prop: *prop, Seed: *seed, Idx: i, Tier: *tier,
			R: rand.New(rand.NewSource(*seed*1000003 + int64(i))), out: out}
		runWithWatchdog(func() { r(ctx) }, *caseTimeout)
	}
}

// loadFactor is how oversubscribed the machine is (1-minute load average per CPU, between 1 and 8):
// every wall-clock hang detector of the harness is stretched by it, so that a case that is merely
// slow because twenty other processes share the cores is not reported as a hang.
func loadFactor() float64 {
	b, err := os.ReadFile("/proc/loadavg")
	if err != nil {
		return 1
	}
	var l float64
	if _, err := fmt.Sscanf(string(b), "%f", &l); err != nil {
		return 1
	}
	f := l / float64(runtime.NumCPU())
	if f < 1 {
		return 1
	}
	if f > 8 {
		return 8
	}
	return f
}

// hangAfter fires once d, stretched by the load factor as read at expiry, has passed.
func hangAfter(d time.Duration) <-chan time.Time {
	ch := make(chan time.Time, 1)
	go func() {
		start := time.Now()
		wait := d
		for {
			time.Sleep(wait)
			lim := time.Duration(float64(d) * loadFactor())
			el := time.Since(start)
			if el >= lim {
				ch <- time.Now()
				return
			}
			wait = lim - el
		}
	}()
	return ch
}

// ctxHangAfter is context.WithTimeout with the same stretching.
func ctxHangAfter(d time.Duration) (context.Context, context.CancelFunc) {
	ctx, cancel := context.WithCancel(context.Background())
	t := hangAfter(d)
	go func() {
		select {
		case <-t:
			cancel()
		case <-ctx.Done():
		}
	}()
	return ctx, cancel
}

// runWithWatchdog runs one case; if it does not finish in time the process exits with status 4 so
// that the supervisor records a hang for the in-flight case and restarts after it.
func runWithWatchdog(f func(), d time.Duration) {
	done := make(chan struct{})
	go func() {
		defer close(done)
		f()
	}()
	select {
	case <-done:
	case <-hangAfter(d):
		// where is everybody? (kept by the supervisor in the replay file)
		buf := make([]byte, 1<<20)
		n := runtime.Stack(buf, true)
		if dir := os.Getenv("VERIF_TMP_ROOT"); dir != "" {
			os.WriteFile(filepath.Join(dir, fmt.Sprintf("hang-stacks-%d.txt", os.Getpid())), buf[:n], 0644)
		}
		os.Stderr.Write(buf[:n])
		fmt.Fprintf(os.Stderr, "\nfatal error: verif watchdog: case exceeded %v (hang)\n", d)
		os.Exit(4)
	}
}
