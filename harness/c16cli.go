package main

// C16 at the command layer: the `wrgl commit` ingest helper (progress bars and all, exported under
// the verif build tag) on a store whose n-th block write fails. The error must come back — from
// whichever block it happens on, with any number of workers — instead of hanging the command.

import (
	"bytes"
	"io"
	"runtime"
	"time"

	"github.com/go-logr/logr"
	"github.com/spf13/cobra"
	wrgl "github.com/wrgl/wrgl/cmd/wrgl"
	"github.com/wrgl/wrgl/pkg/ingest"
	"github.com/wrgl/wrgl/pkg/sorter"
)

type c16CLIInput struct {
	Rows    int `json:"rows"`
	Workers int `json:"workers"`
	FailAt  int `json:"failAt"` // the store refuses every write from the (failAt+1)-th on; -1: no fault
	Procs   int `json:"gomaxprocs"`
}

func c16CLIRun(in *c16CLIInput) Res {
	old := runtime.GOMAXPROCS(in.Procs)
	defer runtime.GOMAXPROCS(old)
	csv := c16Table(in.Rows).CSV(0)
	return Guard(func() Res {
		db := NewMemStore()
		var store = &faultObjStore{Store: db, b: &writeBudget{left: in.FailAt}}
		done := make(chan Res, 1)
		go func() {
			cmd := &cobra.Command{}
			cmd.Flags().Bool("no-progress", false, "")
			cmd.SetOut(io.Discard)
			cmd.SetErr(io.Discard)
			_, err := wrgl.IngestTable(cmd, store, io.NopCloser(bytes.NewReader(csv)), []string{"k"}, false, logr.Discard(),
				[]sorter.SorterOption{sorter.WithRunSize(1 << 30)}, []ingest.InserterOption{ingest.WithNumWorkers(in.Workers)})
			msg := ""
			if err != nil {
				msg = err.Error()
			}
			done <- Ok(map[string]interface{}{"error": err != nil, "message": msg})
		}()
		select {
		case r := <-done:
			return r
		case <-hangAfter(30 * time.Second):
			return Err("hang")
		}
	})
}

func runC16CLI(ctx *Ctx) {
	r := ctx.R
	nb := 2 + r.Intn(6)
	in := &c16CLIInput{Rows: (nb-1)*255 + 1 + r.Intn(255), Workers: 1 + r.Intn(8), Procs: []int{1, 2, 4, 16}[r.Intn(4)]}
	// mostly after the first block has been saved completely (two writes), sometimes before, sometimes never
	in.FailAt = 2 + r.Intn(2*nb+1)
	switch r.Intn(6) {
	case 0:
		in.FailAt = -1
	case 1:
		in.FailAt = r.Intn(2)
	}
	ctx.Emit("ingest-cli", in, c16CLIRun(in), true, "cli")
}
