package main

import (
	"database/sql"
	"encoding/json"
	"fmt"
	"math/rand"
	"sort"
	"strings"
	"sync"
	"time"

	"github.com/google/uuid"
	"github.com/wrgl/wrgl/pkg/objects"
	"github.com/wrgl/wrgl/pkg/ref"
	"github.com/wrgl/wrgl/pkg/transaction"
)

func init() {
	runners["C14"] = runC14
	corpusRunners["C14"] = corpusC14
}

// ---- fault-injecting store wrappers (shared with C13) --------------------------------------------

type writeBudget struct {
	mu     sync.Mutex
	left   int // writes that still succeed; <0 = unlimited
	once   bool // only the first refused write fails (a single injected write error); later writes succeed
	writes int
	trace  []string
}

func (b *writeBudget) allow(what string) error {
	b.mu.Lock()
	defer b.mu.Unlock()
	if b.left == 0 {
		if b.once {
			b.left = -1
		}
		return fmt.Errorf("injected fault before %s", what)
	}
	if b.left > 0 {
		b.left--
	}
	b.writes++
	b.trace = append(b.trace, what)
	return nil
}

type faultObjStore struct {
	objects.Store
	b *writeBudget
}

func kindOfKey(k []byte) string {
	s := string(k)
	i := strings.Index(s, "/")
	if i < 0 {
		return "?"
	}
	return s[:i]
}

func (s *faultObjStore) Set(k, v []byte) error {
	if err := s.b.allow("obj.set:" + string(k)); err != nil {
		return err
	}
	return s.Store.Set(k, v)
}
func (s *faultObjStore) Delete(k []byte) error {
	if err := s.b.allow("obj.del:" + string(k)); err != nil {
		return err
	}
	return s.Store.Delete(k)
}

type faultRefStore struct {
	ref.Store
	b *writeBudget
}

func (s *faultRefStore) Set(k string, v []byte) error {
	if err := s.b.allow("ref.set:" + k + ":" + string(v)); err != nil {
		return err
	}
	return s.Store.Set(k, v)
}
func (s *faultRefStore) SetWithLog(k string, v []byte, l *ref.Reflog) error {
	if err := s.b.allow("ref.set:" + k + ":" + string(v)); err != nil {
		return err
	}
	return s.Store.SetWithLog(k, v, l)
}
func (s *faultRefStore) Delete(k string) error {
	if err := s.b.allow("ref.del:" + k); err != nil {
		return err
	}
	return s.Store.Delete(k)
}
func (s *faultRefStore) UpdateTransaction(tx *ref.Transaction) error {
	if err := s.b.allow("tx.update"); err != nil {
		return err
	}
	return s.Store.UpdateTransaction(tx)
}
func (s *faultRefStore) DeleteTransaction(id uuid.UUID) error {
	if err := s.b.allow("tx.delete"); err != nil {
		return err
	}
	return s.Store.DeleteTransaction(id)
}

// ---- scenario --------------------------------------------------------------------------------------

type c14Op struct {
	Kind   string `json:"kind"` // commit | discard | advance
	FailAt int    `json:"failAt"` // -1 = no fault; k = the (k+1)-th write fails
	Once   bool   `json:"once"`   // only that one write fails (an injected error); otherwise every later write fails too (a crash)
	// a fault below the store interface: one class of SQL statement of the ref store fails (SQLite
	// trigger raising ABORT) for the duration of the operation. head-upsert / reflog-insert: the two
	// statements of the logged update of heads/<On>; tx-update: the status flip; staged-delete: the
	// delete of txs/<id>/<On>; tx-delete: the delete of the transaction row.
	Sql string `json:"sql,omitempty"`
	On  string `json:"on,omitempty"`
	// command-line scenarios: the staged commit object of this branch is unreadable during the operation
	Hide string `json:"hide,omitempty"`
	// advance: another operation of the repository moves branch On in between — an ordinary commit
	// (id New, parent = the branch's head, made with ref.CommitHead as `wrgl commit` does; it creates
	// the branch when there is none). It does not go through the fault-injecting wrappers (FailAt = -1).
	New int `json:"new,omitempty"`
}

// c14SQLFault installs the trigger(s) that make the statements of class op.Sql fail; the returned
// function removes them.
func c14SQLFault(db *sql.DB, op c14Op, txid uuid.UUID) (func() error, error) {
	q := func(s string) string { return "'" + strings.ReplaceAll(s, "'", "''") + "'" }
	var defs []string
	switch op.Sql {
	case "head-upsert":
		// INSERT ... ON CONFLICT DO UPDATE: fail the insert and the update it may turn into
		defs = []string{"BEFORE INSERT ON refs WHEN NEW.name = " + q("heads/"+op.On), "BEFORE UPDATE ON refs WHEN NEW.name = " + q("heads/"+op.On)}
	case "reflog-insert":
		defs = []string{"BEFORE INSERT ON reflogs WHEN NEW.ref = " + q("heads/"+op.On)}
	case "tx-update":
		defs = []string{"BEFORE UPDATE ON transactions"}
	case "staged-delete":
		defs = []string{"BEFORE DELETE ON refs WHEN OLD.name = " + q("txs/"+txid.String()+"/"+op.On)}
	case "tx-delete":
		defs = []string{"BEFORE DELETE ON transactions"}
	default:
		return nil, fmt.Errorf("unknown sql fault %q", op.Sql)
	}
	for i, d := range defs {
		if _, err := db.Exec(fmt.Sprintf("CREATE TRIGGER verif_fault_%d %s BEGIN SELECT RAISE(ABORT, 'injected fault'); END", i, d)); err != nil {
			return nil, err
		}
	}
	return func() error {
		for i := range defs {
			if _, err := db.Exec(fmt.Sprintf("DROP TRIGGER verif_fault_%d", i)); err != nil {
				return err
			}
		}
		return nil
	}, nil
}

type c14Input struct {
	Heads  map[string]int `json:"heads"`  // existing branches -> orig commit id
	Staged map[string]int `json:"staged"` // branch -> staged orig commit id
	Ops    []c14Op        `json:"ops"`
	// branches whose staged commit carries a message so close to the 65535-byte limit that it no
	// longer fits once `transaction commit` has put its "commit [tx/<id>]" line in front: such a
	// transaction cannot be committed, and must then not be committed in part either
	Unwritable []string `json:"unwritable,omitempty"`
}

type c14State struct {
	Heads     [][]string     `json:"heads"`  // [branch, cid]
	Staged    []string       `json:"staged"`
	Exists    bool           `json:"exists"`
	Committed bool           `json:"committed"`
	Logs      map[string]int `json:"logs"` // branch -> reflog entries carrying the transaction id
	Outcome   string         `json:"outcome"`
	Moved     []string       `json:"moved"` // branches carrying a log entry of the tx, in log order unknown: sorted
}

func c14Run(in *c14Input) Res {
	return Guard(func() Res {
		db := NewMemStore()
		rs, sqlDB, closeRS := NewRefStoreDB()
		defer closeRS()
		sums := map[int][]byte{}
		idOf := map[string]int{}
		longID := map[int]bool{}
		for _, b := range in.Unwritable {
			if c, ok := in.Staged[b]; ok {
				longID[c] = true
			}
		}
		mk := func(id int) []byte {
			if s, ok := sums[id]; ok {
				return s
			}
			com := &objects.Commit{Table: fakeSum(id), AuthorName: "a", AuthorEmail: "e", Time: time.Unix(int64(1700000000+id), 0).UTC(), Message: "c" + itoa(id)}
			if longID[id] {
				// 65500..65535 bytes in all, still ending in "\nc<id>"
				tail := "\nc" + itoa(id)
				com.Message = strings.Repeat("x", 65500+id%36-len(tail)) + tail
			}
			buf := newBuf()
			com.WriteTo(buf)
			s, _ := objects.SaveCommit(db, buf.Bytes())
			sums[id] = s
			idOf[string(s)] = id
			return s
		}
		for b, c := range in.Heads {
			if err := ref.CommitHead(rs, b, mk(c), mustCommit(db, mk(c)), nil); err != nil {
				return Err("setup-head")
			}
		}
		txid, err := rs.NewTransaction(nil)
		if err != nil {
			return Err("new-tx")
		}
		for b, c := range in.Staged {
			if err := ref.SaveTransactionRef(rs, *txid, b, mk(c)); err != nil {
				return Err("stage")
			}
		}
		advOf := map[string]int{}
		advance := func(b string, id int) error {
			com := &objects.Commit{Table: fakeSum(id), AuthorName: "a", AuthorEmail: "e", Time: time.Unix(int64(1700000000+id), 0).UTC(), Message: "c" + itoa(id)}
			if head, err := ref.GetHead(rs, b); err == nil {
				com.Parents = [][]byte{head}
			}
			buf := newBuf()
			if _, err := com.WriteTo(buf); err != nil {
				return err
			}
			s, err := objects.SaveCommit(db, buf.Bytes())
			if err != nil {
				return err
			}
			advOf[string(s)] = id
			return ref.CommitHead(rs, b, s, com, nil)
		}
		var cidOf func(sum []byte) string
		cidOf = func(sum []byte) string {
			if sum == nil {
				return "none"
			}
			if id, ok := advOf[string(sum)]; ok {
				// an ordinary commit made in between: "a(<id>,<parent>)"
				c, err := objects.GetCommit(db, sum)
				if err != nil {
					return "missing"
				}
				var parent []byte
				if len(c.Parents) > 0 {
					parent = c.Parents[0]
				}
				return fmt.Sprintf("a(%d,%s)", id, cidOf(parent))
			}
			if id, ok := idOf[string(sum)]; ok {
				return fmt.Sprintf("o%d", id)
			}
			c, err := objects.GetCommit(db, sum)
			if err != nil {
				return "missing"
			}
			// a commit made by the transaction: "commit [tx/<id>]\nc<staged>"
			var staged int
			if i := strings.LastIndex(c.Message, "\nc"); i >= 0 {
				fmt.Sscanf(c.Message[i+2:], "%d", &staged)
			}
			var parent []byte
			if len(c.Parents) > 0 {
				parent = c.Parents[0]
			}
			return fmt.Sprintf("t(%d,%s)", staged, cidOf(parent))
		}
		dump := func(outcome string) c14State {
			st := c14State{Heads: [][]string{}, Staged: []string{}, Logs: map[string]int{}, Outcome: outcome, Moved: []string{}}
			hs, _ := ref.ListHeads(rs)
			for b, s := range hs {
				st.Heads = append(st.Heads, []string{b, cidOf(s)})
			}
			sort.Slice(st.Heads, func(i, j int) bool { return st.Heads[i][0] < st.Heads[j][0] })
			ts, _ := ref.ListTransactionRefs(rs, *txid)
			for b := range ts {
				st.Staged = append(st.Staged, b)
			}
			sort.Strings(st.Staged)
			tx, err := rs.GetTransaction(*txid)
			if err == nil {
				st.Exists = true
				st.Committed = tx.Status == ref.TSCommitted
			}
			// count reflog entries of each head that carry this transaction id
			for b := range hs {
				lr, err := rs.LogReader("heads/" + b)
				if err != nil {
					continue
				}
				for {
					l, err := lr.Read()
					if err != nil {
						break
					}
					if l.Txid != nil && *l.Txid == *txid {
						st.Logs[b]++
					}
				}
				lr.Close()
				if st.Logs[b] > 0 {
					st.Moved = append(st.Moved, b)
				}
			}
			sort.Strings(st.Moved)
			return st
		}
		states := []c14State{dump("init")}
		for _, op := range in.Ops {
			if op.Kind == "advance" {
				if err := advance(op.On, op.New); err != nil {
					return Err("advance")
				}
				states = append(states, dump("ok"))
				continue
			}
			b := &writeBudget{left: op.FailAt, once: op.Once}
			fdb := &faultObjStore{Store: db, b: b}
			frs := &faultRefStore{Store: rs, b: b}
			var err error
			var disarm func() error
			if op.Sql != "" {
				if disarm, err = c14SQLFault(sqlDB, op, *txid); err != nil {
					return Err("trigger")
				}
			}
			switch op.Kind {
			case "commit":
				_, err = transaction.Commit(fdb, frs, *txid)
			case "discard":
				err = transaction.Discard(frs, *txid)
			}
			if disarm != nil {
				if derr := disarm(); derr != nil {
					return Err("trigger-drop")
				}
			}
			outcome := "ok"
			if err != nil {
				if (op.FailAt >= 0 || op.Sql != "") && strings.Contains(err.Error(), "injected fault") {
					outcome = "failed"
				} else {
					outcome = "refused"
				}
			}
			states = append(states, dump(outcome))
		}
		return Ok(states)
	})
}

func genC14(r *rand.Rand) *c14Input {
	in := &c14Input{Heads: map[string]int{}, Staged: map[string]int{}}
	branches := []string{"a", "b", "c", "d"}
	nb := 1 + r.Intn(3)
	id := 1
	for _, b := range branches[:nb+1] {
		if r.Intn(2) == 0 {
			in.Heads[b] = id
			id++
		}
	}
	perm := r.Perm(len(branches))
	for i := 0; i < nb; i++ {
		in.Staged[branches[perm[i]]] = id
		id++
	}
	maxWrites := 2*nb + 1
	switch r.Intn(7) {
	case 0:
		in.Ops = []c14Op{{Kind: "commit", FailAt: -1, Once: false}, {Kind: "commit", FailAt: -1, Once: false}}
	case 1:
		in.Ops = []c14Op{{Kind: "commit", FailAt: -1, Once: false}, {Kind: "discard", FailAt: -1, Once: false}}
	case 2:
		in.Ops = []c14Op{{Kind: "discard", FailAt: -1, Once: false}, {Kind: "commit", FailAt: -1, Once: false}}
	case 3:
		in.Ops = []c14Op{{Kind: "commit", FailAt: r.Intn(maxWrites), Once: r.Intn(2) == 0}, {Kind: "discard", FailAt: -1, Once: false}}
	default:
		f := r.Intn(maxWrites)
		in.Ops = []c14Op{{Kind: "commit", FailAt: f, Once: r.Intn(2) == 0}, {Kind: "commit", FailAt: -1, Once: false}}
		if r.Intn(3) == 0 {
			// fail twice before completing
			in.Ops = []c14Op{{Kind: "commit", FailAt: f, Once: r.Intn(2) == 0}, {Kind: "commit", FailAt: r.Intn(maxWrites), Once: r.Intn(2) == 0}, {Kind: "commit", FailAt: -1, Once: false}, {Kind: "commit", FailAt: -1, Once: false}}
		}
	}
	if r.Intn(5) == 0 {
		// a fault inside discard (one store operation per staged ref, then the transaction row), then discard again
		in.Ops = []c14Op{{Kind: "discard", FailAt: r.Intn(nb + 2), Once: r.Intn(2) == 0}, {Kind: "discard", FailAt: -1, Once: false}}
		if r.Intn(3) == 0 {
			in.Ops = append([]c14Op{{Kind: "commit", FailAt: r.Intn(maxWrites), Once: r.Intn(2) == 0}}, in.Ops...)
		}
	}
	return in
}

// c14Advances puts 1..3 ordinary commits of other operations (kind "advance") into a generated
// scenario: each on any of the four branch names — mostly a staged one — and anywhere in the
// sequence: before the first commit of the transaction, between an interrupted run and its re-run
// (on a branch that run has moved, or on one it has not reached), after a discard, after the end.
// Draws made after all others of the case.
func c14Advances(r *rand.Rand, in *c14Input) {
	staged := []string{}
	next := 1
	for b, c := range in.Staged {
		staged = append(staged, b)
		if c >= next {
			next = c + 1
		}
	}
	for _, c := range in.Heads {
		if c >= next {
			next = c + 1
		}
	}
	sort.Strings(staged)
	for i, k := 0, 1+r.Intn(3); i < k; i++ {
		b := []string{"a", "b", "c", "d"}[r.Intn(4)]
		if r.Intn(4) != 0 {
			b = staged[r.Intn(len(staged))]
		}
		// mostly between two operations of the transaction
		at := r.Intn(len(in.Ops) + 1)
		if len(in.Ops) >= 2 && r.Intn(3) != 0 {
			at = 1 + r.Intn(len(in.Ops)-1)
		}
		ops := append([]c14Op{}, in.Ops[:at]...)
		ops = append(ops, c14Op{Kind: "advance", FailAt: -1, On: b, New: next})
		in.Ops = append(ops, in.Ops[at:]...)
		next++
	}
}

// c14SQLOps replaces the operations of a generated scenario by ones whose fault is a failing SQL
// statement inside the ref store (draws made after those of genC14).
func c14SQLOps(r *rand.Rand, in *c14Input) {
	staged := []string{}
	for b := range in.Staged {
		staged = append(staged, b)
	}
	sort.Strings(staged)
	branch := func() string {
		if r.Intn(8) == 0 {
			return []string{"a", "b", "c", "d"}[r.Intn(4)] // possibly not staged: the fault never fires
		}
		return staged[r.Intn(len(staged))]
	}
	none := func(kind string) c14Op { return c14Op{Kind: kind, FailAt: -1} }
	sqlOp := func(kind, class string) c14Op { return c14Op{Kind: kind, FailAt: -1, Sql: class, On: branch()} }
	refStmt := func() string { return []string{"reflog-insert", "reflog-insert", "head-upsert"}[r.Intn(3)] }
	switch r.Intn(10) {
	case 0, 1, 2:
		in.Ops = []c14Op{sqlOp("commit", refStmt()), none("commit")}
	case 3:
		in.Ops = []c14Op{sqlOp("commit", "tx-update"), none("commit")}
	case 4:
		in.Ops = []c14Op{sqlOp("commit", refStmt()), none("discard")}
	case 5:
		in.Ops = []c14Op{sqlOp("commit", refStmt()), sqlOp("commit", refStmt()), none("commit"), none("commit")}
	case 6:
		in.Ops = []c14Op{{Kind: "commit", FailAt: r.Intn(2*len(staged) + 1), Once: r.Intn(2) == 0}, sqlOp("commit", refStmt()), none("commit")}
	case 7:
		in.Ops = []c14Op{sqlOp("discard", "staged-delete"), none("discard")}
	case 8:
		in.Ops = []c14Op{sqlOp("discard", "tx-delete"), none("discard")}
	default:
		in.Ops = []c14Op{sqlOp("commit", refStmt()), sqlOp("discard", []string{"staged-delete", "tx-delete"}[r.Intn(2)]), none("discard")}
	}
}

func runC14(ctx *Ctx) {
	if ctx.Idx%50 == 49 {
		runC14CLI(ctx)
		return
	}
	if stageEvery := map[bool]int{false: 100, true: 400}[ctx.Thorough()]; ctx.Idx%stageEvery == 24 {
		// staging through `wrgl commit --txid` (a second or two per case: 6 in the quick tier, 160 in the thorough one)
		runC14Stage(ctx)
		return
	}
	in := genC14(ctx.R)
	tags := []string{}
	if ctx.Idx%5 == 2 {
		// every fifth case: the fault is a failing SQL statement inside the ref store
		c14SQLOps(ctx.R, in)
		tags = append(tags, "sqlfault")
	}
	nt := false
	for _, op := range in.Ops {
		if op.FailAt > 0 && op.FailAt < 2*len(in.Staged) {
			nt = true
		}
		if op.Sql != "" {
			nt = true
		}
	}
	if ctx.Idx%25 == 7 && len(in.Staged) >= 2 {
		// one staged commit cannot be rewritten: every commit of the transaction must fail before it
		// moves anything
		bs := []string{}
		for b := range in.Staged {
			bs = append(bs, b)
		}
		sort.Strings(bs)
		in.Unwritable = []string{bs[(ctx.Idx/25)%len(bs)]}
		tags = append(tags, "unwritable-staged-commit")
		nt = true
	}
	if ctx.Idx%3 == 1 {
		// every third case: other operations commit to the branches while the transaction is under way
		c14Advances(ctx.R, in)
		tags = append(tags, "advance")
	}
	ctx.Emit("tx", in, c14Run(in), nt, tags...)
}

func corpusC14(ctx *Ctx, op string, raw json.RawMessage) {
	switch op {
	case "tx-cli":
		var in c14CLIInput
		if err := json.Unmarshal(raw, &in); err != nil {
			panic(err)
		}
		ctx.Emit("tx-cli", &in, c14CLIRun(&in), true, "corpus")
		return
	case "tx-cli-stage":
		var in c14StageInput
		if err := json.Unmarshal(raw, &in); err != nil {
			panic(err)
		}
		ctx.Emit("tx-cli-stage", &in, c14StageRun(&in), true, "corpus")
		return
	}
	var in c14Input
	if err := json.Unmarshal(raw, &in); err != nil {
		panic(err)
	}
	ctx.Emit("tx", &in, c14Run(&in), true, "corpus")
}
