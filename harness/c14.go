package main

import (
	"encoding/json"
	"fmt"
	"math/rand"
	"sort"
	"strings"
	"sync"
	"time"

	"github.com/google/uuid"
	"github.com/wrgl/wrgl/pkg/objects"
	"github.com/wrgl/wrgl/pkg/ref"
	"github.com/wrgl/wrgl/pkg/transaction"
)

func init() {
	runners["C14"] = runC14
	corpusRunners["C14"] = corpusC14
}

// ---- fault-injecting store wrappers (shared with C13) --------------------------------------------

type writeBudget struct {
	mu     sync.Mutex
	left   int // writes that still succeed; <0 = unlimited
	once   bool // only the first refused write fails (a single injected write error); later writes succeed
	writes int
	trace  []string
}

func (b *writeBudget) allow(what string) error {
	b.mu.Lock()
	defer b.mu.Unlock()
	if b.left == 0 {
		if b.once {
			b.left = -1
		}
		return fmt.Errorf("injected fault before %s", what)
	}
	if b.left > 0 {
		b.left--
	}
	b.writes++
	b.trace = append(b.trace, what)
	return nil
}

type faultObjStore struct {
	objects.Store
	b *writeBudget
}

func kindOfKey(k []byte) string {
	s := string(k)
	i := strings.Index(s, "/")
	if i < 0 {
		return "?"
	}
	return s[:i]
}

func (s *faultObjStore) Set(k, v []byte) error {
	if err := s.b.allow("obj.set:" + string(k)); err != nil {
		return err
	}
	return s.Store.Set(k, v)
}
func (s *faultObjStore) Delete(k []byte) error {
	if err := s.b.allow("obj.del:" + string(k)); err != nil {
		return err
	}
	return s.Store.Delete(k)
}

type faultRefStore struct {
	ref.Store
	b *writeBudget
}

func (s *faultRefStore) Set(k string, v []byte) error {
	if err := s.b.allow("ref.set:" + k + ":" + string(v)); err != nil {
		return err
	}
	return s.Store.Set(k, v)
}
func (s *faultRefStore) SetWithLog(k string, v []byte, l *ref.Reflog) error {
	if err := s.b.allow("ref.set:" + k + ":" + string(v)); err != nil {
		return err
	}
	return s.Store.SetWithLog(k, v, l)
}
func (s *faultRefStore) Delete(k string) error {
	if err := s.b.allow("ref.del:" + k); err != nil {
		return err
	}
	return s.Store.Delete(k)
}
func (s *faultRefStore) UpdateTransaction(tx *ref.Transaction) error {
	if err := s.b.allow("tx.update"); err != nil {
		return err
	}
	return s.Store.UpdateTransaction(tx)
}
func (s *faultRefStore) DeleteTransaction(id uuid.UUID) error {
	if err := s.b.allow("tx.delete"); err != nil {
		return err
	}
	return s.Store.DeleteTransaction(id)
}

// ---- scenario --------------------------------------------------------------------------------------

type c14Op struct {
	Kind   string `json:"kind"` // commit | discard
	FailAt int    `json:"failAt"` // -1 = no fault; k = the (k+1)-th write fails
	Once   bool   `json:"once"`   // only that one write fails (an injected error); otherwise every later write fails too (a crash)
}

type c14Input struct {
	Heads  map[string]int `json:"heads"`  // existing branches -> orig commit id
	Staged map[string]int `json:"staged"` // branch -> staged orig commit id
	Ops    []c14Op        `json:"ops"`
}

type c14State struct {
	Heads     [][]string     `json:"heads"`  // [branch, cid]
	Staged    []string       `json:"staged"`
	Exists    bool           `json:"exists"`
	Committed bool           `json:"committed"`
	Logs      map[string]int `json:"logs"` // branch -> reflog entries carrying the transaction id
	Outcome   string         `json:"outcome"`
	Moved     []string       `json:"moved"` // branches carrying a log entry of the tx, in log order unknown: sorted
}

func c14Run(in *c14Input) Res {
	return Guard(func() Res {
		db := NewMemStore()
		rs, closeRS := NewRefStore()
		defer closeRS()
		sums := map[int][]byte{}
		idOf := map[string]int{}
		mk := func(id int) []byte {
			if s, ok := sums[id]; ok {
				return s
			}
			com := &objects.Commit{Table: fakeSum(id), AuthorName: "a", AuthorEmail: "e", Time: time.Unix(int64(1700000000+id), 0).UTC(), Message: "c" + itoa(id)}
			buf := newBuf()
			com.WriteTo(buf)
			s, _ := objects.SaveCommit(db, buf.Bytes())
			sums[id] = s
			idOf[string(s)] = id
			return s
		}
		for b, c := range in.Heads {
			if err := ref.CommitHead(rs, b, mk(c), mustCommit(db, mk(c)), nil); err != nil {
				return Err("setup-head")
			}
		}
		txid, err := rs.NewTransaction(nil)
		if err != nil {
			return Err("new-tx")
		}
		for b, c := range in.Staged {
			if err := ref.SaveTransactionRef(rs, *txid, b, mk(c)); err != nil {
				return Err("stage")
			}
		}
		var cidOf func(sum []byte) string
		cidOf = func(sum []byte) string {
			if sum == nil {
				return "none"
			}
			if id, ok := idOf[string(sum)]; ok {
				return fmt.Sprintf("o%d", id)
			}
			c, err := objects.GetCommit(db, sum)
			if err != nil {
				return "missing"
			}
			// a commit made by the transaction: "commit [tx/<id>]\nc<staged>"
			var staged int
			if i := strings.LastIndex(c.Message, "\nc"); i >= 0 {
				fmt.Sscanf(c.Message[i+2:], "%d", &staged)
			}
			var parent []byte
			if len(c.Parents) > 0 {
				parent = c.Parents[0]
			}
			return fmt.Sprintf("t(%d,%s)", staged, cidOf(parent))
		}
		dump := func(outcome string) c14State {
			st := c14State{Heads: [][]string{}, Staged: []string{}, Logs: map[string]int{}, Outcome: outcome, Moved: []string{}}
			hs, _ := ref.ListHeads(rs)
			for b, s := range hs {
				st.Heads = append(st.Heads, []string{b, cidOf(s)})
			}
			sort.Slice(st.Heads, func(i, j int) bool { return st.Heads[i][0] < st.Heads[j][0] })
			ts, _ := ref.ListTransactionRefs(rs, *txid)
			for b := range ts {
				st.Staged = append(st.Staged, b)
			}
			sort.Strings(st.Staged)
			tx, err := rs.GetTransaction(*txid)
			if err == nil {
				st.Exists = true
				st.Committed = tx.Status == ref.TSCommitted
			}
			// count reflog entries of each head that carry this transaction id
			for b := range hs {
				lr, err := rs.LogReader("heads/" + b)
				if err != nil {
					continue
				}
				for {
					l, err := lr.Read()
					if err != nil {
						break
					}
					if l.Txid != nil && *l.Txid == *txid {
						st.Logs[b]++
					}
				}
				lr.Close()
				if st.Logs[b] > 0 {
					st.Moved = append(st.Moved, b)
				}
			}
			sort.Strings(st.Moved)
			return st
		}
		states := []c14State{dump("init")}
		for _, op := range in.Ops {
			b := &writeBudget{left: op.FailAt, once: op.Once}
			fdb := &faultObjStore{Store: db, b: b}
			frs := &faultRefStore{Store: rs, b: b}
			var err error
			switch op.Kind {
			case "commit":
				_, err = transaction.Commit(fdb, frs, *txid)
			case "discard":
				err = transaction.Discard(frs, *txid)
			}
			outcome := "ok"
			if err != nil {
				if op.FailAt >= 0 && strings.Contains(err.Error(), "injected fault") {
					outcome = "failed"
				} else {
					outcome = "refused"
				}
			}
			states = append(states, dump(outcome))
		}
		return Ok(states)
	})
}

func genC14(r *rand.Rand) *c14Input {
	in := &c14Input{Heads: map[string]int{}, Staged: map[string]int{}}
	branches := []string{"a", "b", "c", "d"}
	nb := 1 + r.Intn(3)
	id := 1
	for _, b := range branches[:nb+1] {
		if r.Intn(2) == 0 {
			in.Heads[b] = id
			id++
		}
	}
	perm := r.Perm(len(branches))
	for i := 0; i < nb; i++ {
		in.Staged[branches[perm[i]]] = id
		id++
	}
	maxWrites := 2*nb + 1
	switch r.Intn(7) {
	case 0:
		in.Ops = []c14Op{{"commit", -1, false}, {"commit", -1, false}}
	case 1:
		in.Ops = []c14Op{{"commit", -1, false}, {"discard", -1, false}}
	case 2:
		in.Ops = []c14Op{{"discard", -1, false}, {"commit", -1, false}}
	case 3:
		in.Ops = []c14Op{{"commit", r.Intn(maxWrites), r.Intn(2) == 0}, {"discard", -1, false}}
	default:
		f := r.Intn(maxWrites)
		in.Ops = []c14Op{{"commit", f, r.Intn(2) == 0}, {"commit", -1, false}}
		if r.Intn(3) == 0 {
			// fail twice before completing
			in.Ops = []c14Op{{"commit", f, r.Intn(2) == 0}, {"commit", r.Intn(maxWrites), r.Intn(2) == 0}, {"commit", -1, false}, {"commit", -1, false}}
		}
	}
	if r.Intn(5) == 0 {
		// a fault inside discard (one store operation per staged ref, then the transaction row), then discard again
		in.Ops = []c14Op{{"discard", r.Intn(nb + 2), r.Intn(2) == 0}, {"discard", -1, false}}
		if r.Intn(3) == 0 {
			in.Ops = append([]c14Op{{"commit", r.Intn(maxWrites), r.Intn(2) == 0}}, in.Ops...)
		}
	}
	return in
}

func runC14(ctx *Ctx) {
	if ctx.Idx%50 == 49 {
		runC14CLI(ctx)
		return
	}
	in := genC14(ctx.R)
	nt := false
	for _, op := range in.Ops {
		if op.FailAt > 0 && op.FailAt < 2*len(in.Staged) {
			nt = true
		}
	}
	ctx.Emit("tx", in, c14Run(in), nt)
}

func corpusC14(ctx *Ctx, op string, raw json.RawMessage) {
	var in c14Input
	if err := json.Unmarshal(raw, &in); err != nil {
		panic(err)
	}
	ctx.Emit("tx", &in, c14Run(&in), true, "corpus")
}
