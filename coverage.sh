#!/bin/sh
# Development aid, not a registered check: run every quick check with a coverage-instrumented harness
# and list the functions of /repo's anchored packages that no runner reaches (blind spots for
# the correspondence). usage: ./coverage.sh [Cxx ...]   -> .build/coverage-func.txt
cd "$(dirname "$0")"
COV="$(pwd)/.build/cov"
rm -rf "$COV"; mkdir -p "$COV"
PROPS="${*:-$(seq -f 'C%02g' 1 20)}"
for p in $PROPS; do
  VERIF_COVER=1 GOCOVERDIR="$COV" ./check $p quick 2>&1 | grep "^\[check\] $p" | tail -1
done
go tool covdata func -i="$COV" 2>/dev/null | grep "^github.com/wrgl/wrgl/" > .build/coverage-func.txt
grep -v "100.0%" .build/coverage-func.txt | awk '$NF=="0.0%"' | grep -v "_verif.go\|/cmd/wrgl/hub\|/pkg/widgets\|/pkg/auth\|/testutils\|/helpers\|/mock\|/test/" > .build/coverage-zero.txt
wc -l .build/coverage-func.txt .build/coverage-zero.txt
