"""Per-property configuration of ./check (budgets, Lean modules, evidence texts)."""

PROPS = {
    "C11": dict(
        lean_modules=["WrglModel.Props.C11"],
        quick_n=300, thorough_n=6000,
        rule="random DAGs (1..10 commits quick, 1..16 thorough; merges, several roots, 5 timestamp modes) x "
             "isanc/walk/seek(2..4 inputs) queries; non-trivial = the DAG has a merge or >=2 roots or "
             "non-monotone timestamps; distinct = distinct (op, input)",
        modelled="pkg/ref/commits_queue.go (Insert, Pop, PopInsertParents, IsAncestorOf), pkg/ref/utils.go (SeekCommonAncestor)",
        assumptions=["objects.GetCommit returns the stored commit (C06)", "commit times compared at whole-second resolution (what the commit encoding stores)"],
    ),
}

PROPS["C04"] = dict(
    lean_modules=["WrglModel.Props.C04"],
    quick_n=160, thorough_n=2500,
    rule="pairs of tables ingested through the real sorter/inserter (0..2 blocks quick, 0..4 thorough; 1..3 columns; "
         "single/composite/absent key) related by identity/emptiness/random edits/nested/disjoint/block-edge deletions, "
         "diffed with diff.DiffTables; non-trivial = a side is empty, or a side has >=2 blocks, or the diff has added, "
         "removed and modified rows together; distinct = distinct (op, input)",
    modelled="pkg/diff/iterate.go (findOverlappingBlocks, getBlockIndices, iterateAndMatch), pkg/diff/diff.go (diffRows), objects.BlockIndex.Get",
    assumptions=["meow hashes of distinct keys/rows of a run are distinct (hash values are taken from the Go run)",
                 "column comparison / non-equal-column diffs (CompareColumns) are outside this model"],
)

PROPS["C06"] = dict(
    lean_modules=["WrglModel.Props.C06"],
    quick_n=1600, thorough_n=24000,
    rule="generated values per object type (string lists incl. 65534..131072-byte cells, blocks of 0..255 rows, table and "
         "commit objects incl. extreme instants/zones and over-long fields, packfile headers over boundary/64-bit lengths, "
         "Save* of random contents); non-trivial = non-empty value; distinct = distinct (op, input)",
    modelled="pkg/objects/str_list.go (Encode, Read, Decode), block.go (WriteBlockTo, CombineRowBytesIntoBlock, ReadBlockFrom), uint_list.go, "
             "table.go (WriteTo, ReadFrom), commit.go (WriteTo, ReadFrom), pkg/encoding/objline (WriteString, WriteTime, DecodeTime, fields), "
             "packfile header codec, objects.Save* key derivation",
    assumptions=["meow.Checksum is a function (digest supplied by the Go run)", "s2 compression round-trips (block bytes are compared before compression)"],
)
