"""Per-property configuration of ./check (budgets, Lean modules, evidence texts)."""

LEVEL_NOTE = ("Trusted: Lean 4.33.0 kernel with axioms propext/Classical.choice/Quot.sound only (audited by #print axioms on every run); "
              "the go/ast fact extractor and the Go harness (generation, canonicalisation); the Spec/ predicates as the reading of the property. "
              "The theorems are about the hand-written executable model; the model is tied to /repo by regenerated facts and by differential "
              "correspondence on the generated inputs of each run (not on all inputs). ")

PROPS = {
    "C11": dict(
        registered=True,
        level_text="Kernel-checked theorems for all commit graphs and timestamps: IsAncestorOf answers true iff reachable and always terminates within the stated fuel; "
                   "a walk visits each ancestor exactly once; the two-input merge base is a common ancestor and is found iff one exists. The three-or-more-input and "
                   "'base is the input when it is an ancestor' clauses are proved FALSE of the code on concrete witnesses (known findings). Correspondence: model == ref.IsAncestorOf / "
                   "SeekCommonAncestor / PopInsertParents on thousands of random DAGs per run, oracle `reach` proved equal to the spec `Reach`.",
        level_note=LEVEL_NOTE + "Modelled rather than verified: commits_queue.go, utils.go transcribed by hand; objects.GetCommit assumed to return the stored commit.",
        lean_modules=["WrglModel.Props.C11"],
        quick_n=300, thorough_n=6000,
        rule="random DAGs (1..10 commits quick, 1..16 thorough; merges, several roots, 5 timestamp modes) x "
             "isanc/walk/seek(2..4 inputs) queries; non-trivial = the DAG has a merge or >=2 roots or "
             "non-monotone timestamps; distinct = distinct (op, input)",
        modelled="pkg/ref/commits_queue.go (Insert, Pop, PopInsertParents, IsAncestorOf), pkg/ref/utils.go (SeekCommonAncestor)",
        assumptions=["objects.GetCommit returns the stored commit (C06)", "commit times compared at whole-second resolution (what the commit encoding stores)"],
    ),
}

PROPS["C04"] = dict(
    registered=True,
    level_text="Kernel-checked theorem C04_diff_exact: for ALL pairs of structurally sound tables (any number of blocks, any key ranges, either side empty, any key arity) "
               "the modelled differ never panics and its event list satisfies every clause of the property (added/removed/modified exact, nothing else, no key twice, offsets right). "
               "The same decidable predicate is evaluated by Lean on the real diff.DiffTables output of every generated pair, and model output == Go output event-for-event.",
    level_note=LEVEL_NOTE + "Hypotheses of the theorem: ATable.WF — proved to follow from C03's tableInv (C04_wf_from_C03, C04_differ_reads_stored; C04_diff_exact_of_stored composes the two) — and hashes identifying keys/rows. "
               "Modelled rather than verified: iterate.go, diffRows, BlockIndex.Get transcribed by hand; column-diff and progress reporting not modelled.",
    lean_modules=["WrglModel.Props.C04"],
    quick_n=160, thorough_n=2500,
    rule="pairs of tables ingested through the real sorter/inserter (0..2 blocks quick, 0..4 thorough; 1..3 columns; "
         "single/composite/absent key) related by identity/emptiness/random edits/nested/disjoint/block-edge deletions, "
         "diffed with diff.DiffTables; one case in eight diffs tables RECEIVED through the real packfile sender/receiver (one or both sides; columns shuffled so "
         "that the key is not the leading columns); non-trivial = a side is empty, or a side has >=2 blocks, or the diff has added, "
         "removed and modified rows together; distinct = distinct (op, input); in addition, at one index in twelve each: "
         "a pair whose first table has duplicated keys around its block edges and whose second starts at / next to such a key; a pair with "
         "a zero-row side; a pair diffed on a store that fails (op diff-fault: every read from the k-th on, the k-th read alone, or every read "
         "of one object, for every k of the clean run up to 8 fault points): each run reports an error or satisfies every clause, and what it "
         "emitted before a reported error is a prefix of the model's event list",
    modelled="pkg/diff/iterate.go (findOverlappingBlocks, getBlockIndices, iterateAndMatch), pkg/diff/diff.go (diffRows), objects.BlockIndex.Get",
    assumptions=["meow hashes of distinct keys/rows of a run are distinct (hash values are taken from the Go run)",
                 "column comparison / non-equal-column diffs (CompareColumns) are outside this model"],
)

PROPS["C06"] = dict(
    registered=True,
    level_text="Kernel-checked round-trip theorems for every value of each modelled object type: string lists (cells up to 65535 bytes, rows of any total size), blocks, uint lists, "
               "table and commit objects, the 16-byte time field (all representable instants and whole-minute zones; everything else refused at write time), and the packfile length header "
               "(every type, every 64-bit length incl. 0, any non-under-estimating bit count); injectivity of row/block encodings; over-long cells and text fields are rejected at write time. "
               "Correspondence: Go WriteTo bytes == model bytes and Go ReadFrom value == model value on generated objects incl. 64 KiB-crossing rows; Save* keys == prefix ++ meow(content).",
    level_note=LEVEL_NOTE + "Modelled rather than verified: the encoders/decoders transcribed by hand at whole-buffer (io.ReadFull) semantics; block index and table profile objects are compared "
               "on the implementation only; meow and s2 are parameters. Known finding: zone offsets with seconds are truncated to minutes.",
    lean_modules=["WrglModel.Props.C06"],
    quick_n=1600, thorough_n=24000,
    rule="generated values per object type (string lists incl. 65534..131072-byte cells, blocks of 0..255 rows, table and "
         "commit objects incl. extreme instants/zones and over-long fields, packfile headers over boundary/64-bit lengths, "
         "Save* of random contents); non-trivial = non-empty value; distinct = distinct (op, input)",
    modelled="pkg/objects/str_list.go (Encode, Read, Decode), block.go (WriteBlockTo, CombineRowBytesIntoBlock, ReadBlockFrom), uint_list.go, "
             "table.go (WriteTo, ReadFrom), commit.go (WriteTo, ReadFrom), pkg/encoding/objline (WriteString, WriteTime, DecodeTime, fields), "
             "packfile header codec, objects.Save* key derivation",
    assumptions=["meow.Checksum is a function (digest supplied by the Go run)", "s2 compression round-trips (block bytes are compared before compression)"],
)

PROPS["C19"] = dict(
    registered=True,
    level_text="Kernel-checked theorems for all row multisets, all run sizes and any correct sort: the k-way merge of spilled runs plus adjacent-key collapse keeps exactly one input row "
               "per distinct key in strictly ascending byte order; blocks are cut 255/255/.../1..255; both outputs agree; with unique keys the result is independent of the memory limit "
               "and input order; AddRow fails exactly on cells over 65535 bytes and never panics. Correspondence: Sorter.AddRow/SortedBlocks/SortedRows/Close vs the model on generated cases.",
    level_note=LEVEL_NOTE + "sort.Slice is a parameter assumed to be a correct sort; temp files are modelled as lists (their deletion is observed on the implementation only).",
    lean_modules=["WrglModel.Props.C19"],
    quick_n=300, thorough_n=4000,
    rule="row multisets (0..2 blocks quick, 0..4 thorough; unique, colliding and random keys; duplicated keys placed at random "
         "positions; all-empty keys; single/composite/absent key; removed-column sets) x run sizes from 'every row spills' to "
         "'nothing spills', through Sorter.AddRow + SortedBlocks and SortedRows + Close; non-trivial = >255 rows or >=1 spill; "
         "distinct = distinct (op, input)",
    modelled="pkg/sorter/sorter.go (AddRow, SortRows, SortedBlocks, SortedRows, pkIsDifferent, removeCols, Close), StrList.LessThan, StringSliceIsLess, StrListEditor.RemoveFrom",
    assumptions=["sort.Slice is a correct (unstable) sort: with duplicate keys the surviving representative is compared by the property clauses only",
                 "chunk files round-trip rows (string-list codec, C06)"],
)

_INGEST_RULE = ("generated CSV tables (1..4 columns; 0..2 blocks quick, 0..4 thorough; unique/colliding/random keys; all-empty keys; "
                "quotes, newlines, non-UTF-8 bytes, 65534..131072-byte cells) x key subsets/orders incl. none x run sizes from "
                "'every row spills' to 'nothing spills' x 1..8 workers x delimiters, through ingest.IngestTable and read back with "
                "GetTable/GetBlock; rows handed to the oracle are what encoding/csv re-reads from the written file; "
                "non-trivial = >255 rows or a spill or a >=130000-byte cell; distinct = distinct (op, input)")

PROPS["C01"] = dict(
    registered=True,
    level_text='Kernel-checked theorems for every input table, key choice, run size and correct sort: the stored rows are exactly one input row per distinct key in strictly ascending key order (a permutation of the input when keys are unique), the row count matches, columns are kept, over-limit cells are refused with an error and nothing else is, the result is independent of row order / run size / sort, and every stored row reads back cell-for-cell at any size. Correspondence: ingest.IngestTable + GetTable/GetBlock == model on generated CSVs incl. 131072-byte cells, empty keys, duplicates.',
    level_note=LEVEL_NOTE + 'encoding/csv tokenisation and s2 are trusted; worker-count independence is argued in C16 (the model is worker-agnostic because blocks are ordered by offset); the CLI commit/export path (`wrgl commit`, also from the branch file set in the config, then `wrgl export`) is exercised in-process by 1 case in 12, not modelled.',
    lean_modules=["WrglModel.Props.C01"],
    quick_n=240, thorough_n=3000,
    rule=_INGEST_RULE + "; every 12th case is followed by a history of `wrgl commit main MSG` / `--all` from the branch's configured file and key "
         "(file edited in place, branch.file re-pointed to a new / older / earlier file, key re-ordered, reduced, extended, replaced, "
         "dropped, in the configuration or with -p; with and without a cached temporary commit): `wrgl export` after every step must "
         "hold the rows of the table then in force",
    modelled="pkg/sorter/sorter.go, pkg/ingest/inserter.go (ingestTableFromBlocks, sortBlocks), objects.StrListEncoder/Decoder, block codec",
    assumptions=["encoding/csv tokenisation is trusted: the oracle's rows are what a plain csv.Reader returns for the file",
                 "s2 compression round-trips", "the CLI path (wrgl commit / wrgl export) is covered by C13's CLI runs, not here"],
)
PROPS["C02"] = dict(
    registered=True,
    level_text='Kernel-checked: same columns/key/row set (unique keys) => same table identifier for all row orders, run sizes and sorts (no hash assumption); with an injective hash equal identifiers imply equal columns, key and rows. Correspondence: 5 real ingest configurations (permutation, spills, 1..8 workers, delimiter) give one sum, 5 single-edit mutants give different sums, and Table.WriteTo bytes == model tableBytes byte-for-byte.',
    level_note=LEVEL_NOTE + "meow is a parameter: collision-freedom on the strings of a run is a hypothesis of C02_injective; delimiter independence is observed on the implementation only; 'no change detected' is the identifier comparison, observed by the runs.",
    lean_modules=["WrglModel.Props.C02"],
    quick_n=120, thorough_n=1500,
    rule="logical tables with unique keys ingested under 5 configurations (row permutation, spill sizes, 1..8 workers, delimiter) "
         "plus single-edit mutants (cell, column name, column order, key choice, row removed); every 6th case is followed by a history of "
         "`wrgl commit main MSG` / `--all` from the branch's configured file and key (see C01): after every step the head's table id "
         "is the id of a direct ingest of the same logical table, equal tables have equal ids, different ones different ids, and "
         "'no change' is reported exactly when the table is the one the branch holds; non-trivial = >=2 rows (>=3 steps); "
         "distinct = distinct (op, input)",
    modelled="objects.Table.WriteTo/writeMeta, SaveTable, SaveCompressedBlock key derivation; sorter/ingest as in C01",
    assumptions=["meow.Checksum is collision-free on the byte strings of a run (hypothesis of C02_injective)",
                 "delimiter independence is observed on the implementation only (CSV parsing is not modelled)"],
)
PROPS["C03"] = dict(
    registered=True,
    level_text="Kernel-checked theorem C03_ingest_inv: every table produced by the sorter/inserter pipeline satisfies all clauses of the decidable invariant tableInv (row count, 255-row blocks, strictly ascending keys, block index = (H key, H row) per row and sorted by key hash, table index = first key per block). The same tableInv is evaluated by Lean on every real table dump (with hashes recomputed by the harness) together with doctor's self-diagnosis; offsets b*255+i address row i of block b (C03_offsets).",
    level_note=LEVEL_NOTE + "Producers covered by theorems: ingest (commit; merge results and doctor re-ingest go through the same sorter/inserter); receipt over the wire (C03_receive_index_clauses: every table object the receiver's IndexTable model accepts satisfies all index clauses; C03_receive_inv: a table that met the invariant at the source meets it at the destination; the row order itself is the sender's, C03_receive_order_is_the_senders); doctor resolve over a whole history of issues with one sorter (C03_resolve_inv, C03_resolve_history_independent, C03_resolve_one_is_ingest over Model/Resolver.lean); doctor's diagnosis (C03_diagnose_complete: the model of diagnoseCommit reports nothing on a table that satisfies the invariant; the driver compares that model with doctor's output on every dump). The receiver theorem takes block contents as given (byte identity: C06/C07).",
    lean_modules=["WrglModel.Props.C03"],
    quick_n=240, thorough_n=3000, rule=_INGEST_RULE + "; producers: ingest, and (one case in four) receipt over the wire: the table is ingested in a source store, "
         "sent through the real ObjectSender/ObjectReceiver (1..2 transfers, packfile size limits, stray blocks or a block-sharing earlier table "
         "at the destination) and the DESTINATION's copy is examined, half of them with shuffled columns so that the key is not the leading "
         "columns (merge results are exercised by C05/C07 runs); in addition, at one index in eight each: "
         "a table with one cell of 65535 / 65536 / 65537 bytes (in the key of the row that sorts last, elsewhere in that row, anywhere), and a "
         "table the destination holds (received or ingested there) examined AFTER a later receipt of a table sharing its blocks was refused "
         "(the packfile lacks a block the sender took for common; the later table names a block index sum that is not its block's)",
    modelled="sorter block cutting and block keys, objects.IndexBlockFromBytes/IndexBlock (as the invariant they establish), doctor.diagnoseCommit (observed), doctor resolver.reingest/ingestTable with slice.KeyIndices, Table.PrimaryKey and ensureColumnNamesAreNotEmpty (Model/Resolver.lean)",
    assumptions=["row and key hashes are recomputed by the harness with meow over the string-list encoding"],
)

PROPS["C20"] = dict(
    registered=True,
    level_text="Kernel-checked theorem C20_membership: for every batch size and every sequence of Add / Flush / flush+reopen (any repeats, order, flush pattern) followed by a flush, "
               "no operation fails, the file stays sorted with a fan-out table consistent with its entries, Has answers true exactly for the added hashes (no false negative or positive), "
               "and a reopened handle answers alike. Correspondence: every return value and the raw file image after every flush equal the model's on generated sequences over colliding hashes.",
    level_note=LEVEL_NOTE + "addToHashTable's in-place shifting of 16-byte records is modelled by its net effect (insert each pending hash at its lower-bound offset); "
               "that this is what the byte shuffling does is checked by comparing raw file images, not proved.",
    lean_modules=["WrglModel.Props.C20"],
    quick_n=400, thorough_n=8000,
    rule="Add/Flush/Has/reopen sequences (5..35 ops quick, ..85 thorough, then a full membership sweep before and after reopen) over 6..15 "
         "hashes sharing first bytes (0x00 and 0xff included), batch sizes 1..8 and default, on the real HashSet over a temp file; the raw "
         "file image is compared after every flush; non-trivial = a repeat within one batch or an insert after a flush; distinct = distinct (op, input)",
    modelled="pkg/index: insertIndex, indexOf, HashSet.Add/Flush/Has, addToFanoutTable, NewHashSet; addToHashTable by its net effect",
    assumptions=["the os.File behaves as a byte array (Seek/Read/Write)", "addToHashTable's in-place shifting is not modelled step by step: its result is compared with the model's file image after every flush"],
)

PROPS["C15"] = dict(
    registered=True,
    level_text="Kernel-checked refinement theorem C15_refines: for ALL operation sequences (set, logged set, get, delete, filter, filter-keys, rename, copy, log read, list by prefix, "
               "bulk delete, bulk rename) the SQL model returns step by step what a plain name->value map with per-name append-only logs returns, given literal-prefix filtering "
               "(an extracted fact; the LIKE variant is proved NOT to refine the map). Correspondence: every return value of the real SQLite store equals both models' on generated sequences "
               "over names with '_', '%', case variants and nested prefixes.",
    level_note=LEVEL_NOTE + "Modelled rather than verified: each SQL statement as a list operation (SQLite semantics as modelled are an assumption validated by the runs); the file-backed ref store (pkg/ref/fs, pkg/misc/backward_scanner.go) has no concrete model: it is covered by correspondence only, against the same abstract map in its file-store form (stepAF: deleting an unbound name is an error, rename/copy replace a bound destination; C15_fs_same_elsewhere, C15_fs_conservative, C15_fs_rename_replaces, C15_fs_copy_replaces), on the domain listed in harness/c15.go (c15FsDomain).",
    lean_modules=["WrglModel.Props.C15"],
    quick_n=400, thorough_n=6000,
    rule="operation sequences (5..35 ops quick, ..65 thorough, then a full dump of refs and logs) of set / logged set / get / delete / "
         "filter / filterKey / rename / copy / log read / list / bulk delete / bulk rename over 16 names containing '_', '%', case variants, "
         "nested paths and prefixes of one another, on the real SQLite ref store; every return value compared step by step; "
         "non-trivial = the sequence contains a prefix operation; distinct = distinct (op, input)",
    modelled="pkg/ref/sql/store.go (Set, SetWithLog, Get, Delete, filterQuery/Filter/FilterKey, Rename, Copy, LogReader), logreader.go, "
             "pkg/ref/refs.go (listRefs, DeleteAllRemoteRefs, RenameAllRemoteRefs)",
    assumptions=["SQLite executes each statement/transaction atomically with the semantics modelled (upsert, PK conflict, NOT NULL, substr/length on ASCII names); validated by the correspondence runs",
                 "ref names are ASCII"],
)

PROPS["C17"] = dict(
    registered=True,
    level_text='Kernel-checked: on ANY byte string the modelled decoders (string list, block, uint list, table, commit, packfile header, packfile reader under every read mode and chunking) never panic, never exhaust their fuel (terminate), and their output is accounted for byte-by-byte by the input consumed. Correspondence on hostile inputs: outcome class and decoded value of the Go decoders == model for thousands of mutations incl. every truncation offset; Go-side panic/hang/allocation (TotalAlloc <= 256*len+8MiB) are checked for all 10 entry points and for ObjectReceiver.Receive.',
    level_note=LEVEL_NOTE + "The allocation clause about the real Go runtime is measured, not proved (the theorem bounds the decoded value, the capped pre-allocation is a constant); s2.Decode's allocation is a dependency assumption; block index, pkt-line and table profile decoders are exercised but not modelled.",
    widen_n=3000,
    lean_modules=["WrglModel.Props.C17"],
    quick_n=600, thorough_n=12000,
    rule="per decoder entry point (packfile reader, commit, table, block, ValidateBlockBytes, block index, string list, uint list, pkt-line, "
         "table profile) mutations of valid encodings: truncation at EVERY offset of every third object, bit flips, inflated 16/32-bit counts "
         "and lengths, appended/deleted/random bytes, double mutations; plus mutated packfiles into ObjectReceiver.Receive; Go run under recover, "
         "20 s watchdog, GOMEMLIMIT; TotalAlloc delta bounded by perByte*len+slack; non-trivial = every mutated input; distinct = distinct (op, input)",
    modelled="whole-buffer decoders of Model/Encoding.lean and Model/Chunked.lean (packfile, commit, table, block, string list, uint list): outcome class and decoded value compared with Go on hostile bytes",
    assumptions=["s2.Decode's own allocation on a forged length header is outside the model (dependency)", "block index, pkt-line, table profile decoders are exercised but not modelled"],
)
PROPS["C18"] = dict(
    registered=True,
    level_text="Kernel-checked: io.ReadFull over any chunking returns the next n bytes; the packfile reader with the read modes EXTRACTED FROM THE SOURCE gives the same objects/errors/end-of-stream for any two chunkings of the same bytes and equals the whole-buffer result; a single-Read site is proved chunk-dependent (witness). The fact 'no decoder site uses a single Read' is regenerated from /repo on every run and discharged by decide. Correspondence: 9 stream kinds under OneByteReader/HalfReader/DataErrReader/random chunkers vs whole-buffer and vs the model.",
    level_note=LEVEL_NOTE + 'Partial: the chunk-independence THEOREM covers the packfile reader; for the other decoders (parser fields, table, block index, uint/float list, block) the tie is the extracted read-mode fact plus the correspondence runs. HTTP/gzip/TLS are represented by arbitrary chunkings.',
    lean_modules=["WrglModel.Props.C18"],
    quick_n=450, thorough_n=6000,
    rule="valid encoded streams of 9 kinds (packfile, commit, table, block, block index, string list, uint list, pkt-lines, table profile) decoded "
         "from bytes.Reader, iotest.OneByteReader, HalfReader, DataErrReader and 4 (quick) / 10 (thorough) seeded random chunkings with and without "
         "data+EOF in one call; non-trivial = stream longer than 8 bytes; distinct = distinct (op, input)",
    modelled="PackfileReader (readVersion, decodeObjTypeAndLen, ReadObject) over a chunked reader with the extracted read mode of every site; the other decoders by their whole-buffer models",
    assumptions=["io.ReadFull / io.ReadAll behave as documented", "HTTP, gzip and TLS are represented by arbitrary chunkings of the byte stream"],
)

PROPS["C05"] = dict(
    registered=True,
    level_text='Kernel-checked for tables with equal column lists (any key position, composite/absent key, any number of branches): the literal per-column decision chain of tryResolve equals the three-way rule (C05_resolveCell_spec), the whole modelled pipeline reports exactly the specified conflicts and yields exactly the specified rows (C05_model_meets_spec_partial), and the rule satisfies merge(base;X,base)=X, merge(base;X,X)=X, branch-order independence, conflicts for differing edits and remove-vs-modify, disjoint edits combine. Correspondence: merge.Merger (conflict records + SortedRows) == model and satisfies the spec on generated tuples with N=2..3.',
    level_note=LEVEL_NOTE + 'PARTIAL: the table-level theorems are for branches with the column list of the base; column adds/removes/reorders per branch are modelled by name (Model/MergeCols.lean: mergedNames, rearrange, resolveRecCols; tied to the proved tryResolve by tryResolve_eq_L and C05_cols_model_extends_same) with the per-column rule proved for any number of layers (C05_base_column_rule, C05_added_column_rule) and the guard table of tryResolve regenerated from the source (C05_unresolve_table_is_model); the table-level composition for column-changing branches is tied by correspondence, not proved; renames are treated as remove+add, as the code does. Two known findings (untouched rows in base layout when the key is not first; keyless merges) are reported as KNOWN-FINDING. Row hashes are replaced by row equality.',
    lean_modules=["WrglModel.Props.C05"],
    quick_n=300, thorough_n=4000,
    rule="(base, branch1..branchN) tuples, N in 2..3, 3..27 rows (1 in 12: 250..550 rows, several blocks), 2..4 columns, key first / key elsewhere / composite / absent; "
         "branches derived by row adds (colliding new keys), removes and cell edits; modes: one branch = base, all branches equal, independent edits; run through merge.Merger "
         "(Start, unresolved Merge records, SortedRows); non-trivial = a conflict or >3 base rows; distinct = distinct (op, input)",
    modelled="pkg/merge/merger.go (mergeTables), row_resolver.go (Resolve, tryResolve), row_collector.go (SaveResolvedRow, collectRowsThatStayedTheSame) for tables with equal column lists",
    assumptions=["row hashes identify row content (meow collision-freedom on a run)", "column-changing branches (CompareColumns) are run for crash-freedom only"],
)

PROPS["C08"] = dict(
    registered=True,
    level_text="Kernel-checked for every acyclic history, every want, every set of common tips and every depth: the walk of enqueueWants lists exactly the unfolding tree below the want avoiding common tips, hence is closed, sends nothing unreachable, selects tables exactly within the depth, is parent-first (first occurrence of a commit preceded by its non-common parents) and terminates; the polynomial-time clause is proved FALSE of the code (2^k entries on k diamonds; known finding). Correspondence: ClosedSetsFinder.Process/CommitsToSend/TablesToSend == model (as sets) on random DAGs with multi-round haves, unknown hashes, unreachable wants, depth; finderVerdict evaluated by Lean on the implementation's actual list.",
    level_note=LEVEL_NOTE + "PARTIAL: C08_walk_* are about one want's walk; C08_all_wants / C08_accepts_reachable_wants / C08_process_sound lift closure, soundness and want acceptance to any number of wants and rounds of Process over the model's bookkeeping (alreadySeenCommits, pending wants); the random map order of the real code is represented by 'any order of the wants'; ensureWantsAreReachable/findCommons are modelled and compared with the implementation but not proved.",
    lean_modules=["WrglModel.Props.C08"],
    quick_n=600, thorough_n=10000,
    rule="random DAGs (1..10 commits quick, ..14 thorough; merges, several roots, 5 timestamp modes, shared tables, shallow commits) and diamond chains of 10..12 diamonds; "
         "1..3 refs; 1..3 negotiation rounds with 1..2 wants (incl. wants unreachable from the refs), 0..3 haves per round (incl. unknown hashes), done flag, depth 0..3; "
         "ClosedSetsFinder.Process / CommitsToSend / TablesToSend on a mock object store and the SQLite ref store; non-trivial = DAG with a merge, several roots or non-monotone times; distinct = distinct (op, input)",
    modelled="pkg/api/utils/closed_sets_finder.go (Process, ensureWantsAreReachable, findCommons, enqueueWants, findClosedSetOfObjects, CommitsToSend, TablesToSend), CommitsQueue.PopUntil",
    assumptions=["Go's random map iteration order over pending wants and unstable sort of the initial queue: model and implementation are compared as sets, the property clauses are evaluated on the implementation's actual list"],
)

PROPS["C07"] = dict(
    registered=True,
    level_text="Kernel-checked at the level of object identities: for every size limit the packfile cut is exact (nothing lost, duplicated or reordered; every packfile non-empty); the sender emits commits in list order, "
               "a table's new blocks before it, nothing twice; for every destination pre-populated with any subset and every parent-first commit list the receiver accepts every object and ends with exactly old + sent; "
               "a commit with a missing parent is refused. Correspondence: real ObjectSender -> packfile bytes -> PackfileReader -> ObjectReceiver == model (per-packfile object sequence, final key set); "
               "byte identity, received tables' C03 invariant (tableInv), diagnosis and identical re-built index/profile are checked on the implementation.",
    level_note=LEVEL_NOTE + "Object contents are abstract in the model: that received bytes equal sent bytes, that blocks validate and that tables are re-indexed correctly is established by the runs (and by C06/C03 for the codecs and the invariant), not by these theorems.",
    lean_modules=["WrglModel.Props.C07"],
    quick_n=160, thorough_n=2500,
    rule="source repositories with 2..4 tables (3..520 rows; variants sharing leading blocks), DAGs of 1..7 commits, destination pre-populated with an ancestor-closed "
         "commit subset plus stray blocks, commits to send parent-first (sometimes with a repeat), some commits without their table, max packfile size 1 / default / 20..3020 bytes; "
         "real ObjectSender -> packfile bytes -> PackfileReader -> ObjectReceiver between two stores; non-trivial = stray blocks at the destination or a small size limit; distinct = distinct (op, input)",
    modelled="pkg/api/utils/object_sender.go (NewObjectSender, enqueueNextCommit, enqueueTable, WriteObjects' size cut), object_receiver.go (saveBlock/saveTable/saveCommit acceptance conditions, Receive)",
    assumptions=["object contents are abstract in the model (identities and sizes); byte identity, re-indexing and profiles are compared on the implementation", "s2 round-trips block bytes"],
)

PROPS["C12"] = dict(
    registered=True,
    level_text="Kernel-checked for every repository state and every ref set: prune never panics (shallow commits, missing blocks, dangling refs included), completes on a closed history, marks exactly the commits reachable from any ref, "
               "and its result satisfies every clause of pruneVerdict (reachable commits kept with table, index, profile, blocks, block indices wherever present; unreachable commits and objects referenced only by them gone; nothing created); repeated prune is the identity. "
               "Correspondence: prune.Prune on seeded repositories (real tables sharing blocks, every ref kind, deleted refs, shallow commits) == model on key sets; pruneVerdict, full read-back of surviving tables and idempotence evaluated on the implementation.",
    level_note=LEVEL_NOTE + "The theorems hold under the extracted fact that sort.Search results are checked before use (the unchecked code is not modelled: flipping the fact breaks the proofs and the runs exhibit the panic). Object contents are abstract; an interrupted prune is C13's subject.",
    lean_modules=["WrglModel.Props.C12"],
    quick_n=400, thorough_n=6000,
    rule="repositories built from a seed: 2..4 real tables (3..300 rows, variants sharing blocks), DAGs of 1..8 commits with arbitrary timestamps, 0..3 refs of every kind "
         "(heads, tags, remotes, txs, nested names), some deleted again, shallow commits (table object absent, with or without its index/profile), a stray missing block; "
         "1 in 3: some of the tables committed again under a primary key extended by further columns (same rows, same order: every block shared, every block index another object), "
         "about half of these with a history whose commits alternate between the two keys; 1 in 5: 1..2 refs of any kind whose commit is not stored (written and taken away again: never arrived), which root nothing; "
         "prune.Prune run twice on a mock object store + SQLite ref store; key sets before/after and full read-back of every surviving table; "
         "non-trivial = at least one commit removed and one kept; distinct = distinct (op, input)",
    modelled="pkg/prune/prune.go (findCommitsToRemove, pruneTables, Prune) over CommitsQueue",
    assumptions=["objects.GetAll*Keys return the sorted key lists of the store", "a prune interrupted half-way is C13's subject"],
)

PROPS["C14"] = dict(
    registered=True,
    level_text="Kernel-checked for every fresh transaction, every failure/crash position and every branch order (Go iterates a map): after an interrupted commit plus a re-run every staged branch sits at its staged commit on top of its ORIGINAL head, "
               "moved and logged exactly once, and the transaction is committed; an interrupted run leaves each branch at its old or its final position; a committed transaction can be neither committed nor discarded again and the refused call changes nothing; "
               "discard of an open transaction removes exactly the staged refs; the unguarded variants are proved to violate this. Correspondence: real transaction.Commit/Discard behind fault-injecting store wrappers, every write position, re-runs, double commit, discard-after-commit == model state by state.",
    level_note=LEVEL_NOTE + "Each ref-store call is assumed atomic (one SQL transaction); faults inside Discard are modelled (txDiscardFault, C14_discard_fault) and injected at every store call; the guards are extracted facts (status check + skip of already-logged branches in Commit, status check before deleting staged refs in Discard).",
    lean_modules=["WrglModel.Props.C14"],
    quick_n=600, thorough_n=8000,
    rule="transactions staging 1..3 branches (new and existing) over 4 branch names; operation sequences: commit with an injected write failure at every position (0..2k) then "
         "re-run(s), double commit, discard after commit, discard then commit, failed commit then discard; real transaction.Commit/Discard on a mock object store + SQLite ref store "
         "behind fault-injecting wrappers; branch heads (as content-addressed ids), staged refs, status, per-branch reflog entries of the transaction after every step; "
         "non-trivial = a failure strictly inside the write sequence; distinct = distinct (op, input)",
    modelled="pkg/transaction/transaction.go (Commit, Discard) as sequences of store writes with a failure/crash before any of them",
    assumptions=["each ref-store call (SetWithLog, UpdateTransaction, DeleteTransaction) is atomic (one SQL transaction)", "Go's map iteration order over staged branches: the model follows the order the run took"],
)

PROPS["C13"] = dict(
    registered=True,
    level_text="Kernel-checked on write sequences whose ORDER is regenerated from the source: if every write finds its prerequisites in place, every prefix (crash point) is consistent (generic theorem over 13 write kinds); instantiated for `wrgl commit` "
               "(blocks+indices, table index, profile, table, commit, branch) and for the receipt of a table (indices and profile before the table object) for every table shape; the pre-repair order is proved unsafe. "
               "Correspondence: commit, merge commit, receive and prune run against real packages behind fault-injecting stores at EVERY write position; each crash state is a prefix of the recorded trace, is checked with the same Lean clauses, and the re-run reaches the uninterrupted outcome.",
    level_note=LEVEL_NOTE + "PARTIAL: atomicity/durability of a single badger / SQLite call is assumed; the real `wrgl` binary is not killed (in-process stores stand in); re-run equivalence is observed, not proved; merge-commit and prune sequences are covered by the generic theorem plus runs, not by instantiated theorems. Known finding: prune deletes a parent before its (unreachable) child.",
    lean_modules=["WrglModel.Props.C13"],
    quick_n=120, thorough_n=1500,
    rule="seeded repositories (a branch with a real table of 3..270 rows) and one operation: commit (same or new branch, 1..4 workers), merge commit (IngestTableFromBlocks + profile + "
         "CommitMerge), receive (ObjectReceiver over 1..n packfiles from a remote 1..2 commits ahead, then the remote-tracking ref), prune (1..2 unreachable commits); the operation is run "
         "uninterrupted to record its write trace, then once per write position k with every write from k on failing (= the process dies before write k), the repository is re-read, "
         "and the operation is run again to completion; non-trivial = more than 2 writes; distinct = distinct (op, input); each case contributes W crash points",
    modelled="write sequences of ingestTableFromBlocks/insertBlock, commit (commit_cmd.go), commitMergeResult/createMergeCommit, ObjectReceiver.saveTable/IndexTable, Prune — their ORDER is extracted from the source",
    assumptions=["each objects.Store / ref.Store call is atomic and durable (badger, SQLite): a crash is a prefix of the call sequence", "in-process stores stand in for badger/SQLite in the quick and thorough tiers"],
)

PROPS["C16"] = dict(
    registered=True,
    level_text="Kernel-checked for the ingest worker pool as a small-step system: for any number of workers and EVERY schedule, no block or row is lost or duplicated (invariant over schedule prefixes), every completing schedule yields the input's row count and block set (= the one-worker result after ordering by offset), completion is reachable; "
               "the unguarded variant is proved to lose an update. The critical section and the error-channel capacity are facts regenerated from the source. Runtime side: the harness is built with -race and run with seeded yields at the shared-state touch points, 1..16 workers, GOMAXPROCS 1/2/4/16, injected store errors and a hang watchdog.",
    level_note=LEVEL_NOTE + "PARTIAL: the Go memory model, scheduler and channel implementation are not modelled; the race detector can exhibit a failing schedule but not exclude one. Modelled: the ingest pool (small-step, every schedule), error reporting over the buffered error channels (sendAll) and the progress bar's completion state machine (Model/PBar.lean); the differ and merger goroutine pipelines are exercised (C04/C05 runs) but not modelled; double-fault channel behaviour is out of the property's single-error clause.",
    lean_modules=["WrglModel.Props.C16"],
    race=True, env={"GORACE": "halt_on_error=1"}, case_timeout="200s", case_timeout_s=200,
    quick_n=48, thorough_n=600,
    rule="ingest of tables with 2..13 blocks (thorough: up to 80) with 1..16 workers, GOMAXPROCS in {1,2,4,16}, seeded random Gosched/sleep at the shared-state touch points (verif hook), "
         "1 in 6 with a store error injected into one worker; the harness binary is built with -race (GORACE=halt_on_error=1), a 60 s watchdog catches hangs; result compared with the "
         "one-worker run and with the Lean pool model under a schedule shipped with the case; non-trivial = >=2 effective workers and >=2 blocks; distinct = distinct (op, input)",
    modelled="pkg/ingest/inserter.go: the worker pool of insertBlock (receive, save, publish to rowsCount/asyncBlocks), sortBlocks' re-ordering by offset; the critical section is an extracted fact; the pipeline of one IngestTableFromSorter call (Model/Pipe.lean): the producer goroutine of Sorter.SortedBlocks taking rows out of the caller's sorter and blocking in its sends, the buffered block channel, workers that may fail, the coordinator's wait and the cancellation that is only polled before a send",
    assumptions=["the Go memory model, scheduler and channel implementation are not modelled: a data race can only be exhibited by the race detector (failing-schedule search), not excluded by it",
                 "diff and merge pipelines are exercised concurrently by C04/C05's runs but their goroutine structure is not modelled here"],
)

_SYNC_RULE = ("pairs of (local CLI repository on badger+SQLite, remote repository behind an in-process reference HTTP server assembled from the repository's own finder/sender/receiver) "
              "grown from a common history of 1..3 commits and then made remote-ahead / local-ahead / diverged / equal / unrelated, with a tag that may move and an optional second branch (equal / ahead / unrelated / rewound); one of `wrgl fetch` (forced or "
              "plain glob refspec or explicit per-branch refspecs with independent force flags in either order, with/without tags, depth 0..2), `wrgl push`, `wrgl pull`, `wrgl merge` (ff / no-ff / ff-only), with and without --force; max packfile size 1 / 700 / 5000 / default; "
              "the server refuses or accepts non-fast-forwards; 1 in 6 fetches / pulls with the first 1..6 packfile responses cut by an HTTP/2 stream error; refs, latest reflog entries, commits and usable tables of both sides observed before and after, and after an immediate repeat; "
              "non-trivial = remote-ahead, diverged or unrelated; distinct = distinct (op, input)")

PROPS["C09"] = dict(
    registered=True,
    level_text="Kernel-checked composition of the C08 finder model and the C07 transfer model: for any history, any acknowledged commons held by the receiver (i.e. however many negotiation rounds produced them), any depth, table selection and packfile size, every object the sender streams is accepted and afterwards the receiver holds EVERY ancestor of the want and loses nothing (C09_transfer_closed); the list is acceptable at every position; "
               "when the want is already an acknowledged common commit nothing is listed (idempotence of the selection). Runtime side: the real CLI (`wrgl fetch/push/pull`) is run against a reference server on generated repository pairs; the Lean driver evaluates the closure, depth, nothing-lost, object-identity and repeat-changes-nothing clauses on both repositories' observed state.",
    level_note=LEVEL_NOTE + "PARTIAL: the negotiation rounds are abstracted to 'acknowledged commons are commits the receiver holds'; the HTTP sessions (upload_pack_session.go / receive_pack_session.go), gzip, cookies and retries are exercised end to end but not modelled message by message; the reference server assembled in harness/refserver.go from the repository's own finder/sender/receiver is trusted harness code.",
    lean_modules=["WrglModel.Props.C09"],
    quick_n=120, thorough_n=800, rule=_SYNC_RULE,
    modelled="the closure a successful fetch / push must establish, composed from the C08 finder and C07 transfer models; upload_pack_session.go / receive_pack_session.go are exercised end to end, not modelled message by message",
    assumptions=["the reference server (harness/refserver.go) is harness code in the trusted base", "HTTP, gzip, cookies and retries are not modelled"],
)
PROPS["C10"] = dict(
    registered=True,
    level_text="Kernel-checked for the ref-update decision chains of fetch (saveFetchedRefs), push (identifyUpdates) and merge (runMerge) as hand-written models: without force a branch ref only ever moves to a descendant of its old value (ancestry = the proved-sound Reach of C11's graph model), a tag never moves, "
               "fast-forward merge moves the head exactly to the other commit and only when the head is the merge base, --ff-only rejects every other case, identical commits change nothing, and refs not named by the operation are untouched (frame). "
               "The fetch and push decision chains are additionally tied to the source by a regenerated translator: extract/paths.go turns the if-chains of saveFetchedRefs / identifyUpdates / runMerge into guard tables (Facts.fetchSavePaths, pushUpdatePaths, mergeFFPaths) and C10_fetch_table_is_model / C10_push_table_is_model prove, over all 32 situations of a ref, that the extracted table fires exactly when the model says `update`; the `force` parameter is extracted as never assigned. "
               "The models are also tied to the code by running the real CLI (`wrgl fetch/push/pull/merge`) against a reference server on generated repository pairs and having the Lean driver evaluate the same decision functions on the observed before/after refs.",
    level_note=LEVEL_NOTE + "PARTIAL: the guard tables cover the decision, not the side effects of each branch (which ref is written, the reflog message), which are tied differentially; the server-side half of a push (receive-pack's own non-fast-forward refusal) is the harness's reference server, so only the client's refusal is checked; reflog content is compared, its SQL storage is not modelled.",
    lean_modules=["WrglModel.Props.C10"],
    quick_n=200, thorough_n=800, rule=_SYNC_RULE,
    modelled="cmd/wrgl/fetch/root.go saveFetchedRefs, cmd/wrgl/push_cmd.go identifyUpdates, cmd/wrgl/merge_cmd.go runMerge (the if-chains, as fetchDecision / pushDecision / mergeDecision)",
    assumptions=["server-side ref update on push is reference-server code", "`wrgl pull` uses the remote's configured (forced) refspec for remote-tracking refs"],
)

# additions made while strengthening the generators against the seeded changes (DESIGN.md §0.6)
_RULE_EXTRA = {
    "C01": "; 1 in 6 small tables go through the real command line instead (`wrgl commit` then `wrgl export` on a badger + SQLite repository; the exported CSV must hold the model's stored rows in order); plus one size-boundary table per run (1 044 481 rows = 4097 blocks, 8 workers), read back in aggregate",
    "C03": "; plus the size-boundary table (4097 blocks); on 2 case indices in 8 also a HISTORY repaired by the doctor (op resolve-inv): a chain of 1..4 commits on one branch, each holding a sound table, "
           "a table that needs a re-ingest (a row stored twice in a row, a recorded row count that is off within the same number of blocks, the last block's index gone from the store or lacking a row) or a table "
           "whose key must be dropped (a key position outside the columns, a key column without a name), written object by object as an older version left them (1..4 columns of any width per commit, key on "
           "any columns / composite / none, rows in key order or not, equal keys, 1 row .. 3 blocks); every ordered triple of (sound, re-ingest, key reset) comes up over the indices; after Doctor.Diagnose + "
           "ONE Doctor.Resolve over all the issues every table of the new history must satisfy tableInv and a clean self-diagnosis, and equal what the resolver model (Model/Resolver.lean: one sorter with "
           "its Reset and its PK field over the whole history) writes",
    "C05": "; 1 in 4 keyed tuples with column-changing branches (add / remove / move columns per branch, shared new names), judged by column name; 1 in 4 with an all-empty key; 1 in 20 indices carry a second case, a history through the command line (`wrgl commit` / `branch create` / 3..4 `wrgl merge` steps with --ff / --no-ff / --ff-only / default: BRANCH behind, ahead of (by one or two commits), on the same commit as, or diverged from the commit merged in; a completed merge run again; merged again after one side moved on), the table of every branch read back after every merge and judged by the merge laws on a model of the commit graph; 1 in 10 indices carry the same tuple re-based on a header-only table (tag empty-base: no block, empty table index; every branch row is an addition); 1 in 10 (thorough 1 in 40) carry a case of what `wrgl merge` delivers (op merge-cli-deliver: the conflict keys and merged rows of the --no-gui CONFLICTS file, the --no-commit MERGE file, the merge commit; key in front, header-only / one-block / several-block base) on a healthy repository or with one block index / block / table index of the base or a branch deleted from the object store: whenever the command reports success the delivered rows and conflicts must be the three-way merge of the committed tables, a failure is accepted only when an object was taken away; 2 in 10 indices carry a `sparse` tuple (base of 2..4 blocks, 1..4 changed rows placed per block, block edges favoured, each with its own scenario: removed by all / one / all but one, same edit by all, edit by one, different edits, removed vs edited; sometimes an added row: most blocks are touched by no branch); 1 in 20 indices carry a history with THREE heads merged at once (op merge-cli-pull: a tree-shaped history on a remote behind the reference server -- trunk, three lines leaving it at one commit or one there and two that first share a stretch of their own, every line editing rows of its own -- `wrgl pull main origin hA` then `wrgl pull main origin hB hC`, heads in any order; BRANCH must hold the by-name three-way resolution of the three head tables over the table of the best common ancestor of ALL heads on the commit graph (Spec/MergeBase.lean, C05_merge_base_spec); shapes restricted to single-parent histories in which the two heads sharing a stretch are equally far from where they part: on others the unchanged tree takes a base that is not an ancestor of every head, known finding C11-seek-not-common-3, witness corpus/pending/C05-pull-three-heads-wrong-base.json, generator flag VERIF_C05_PULL_UNEQUAL_LINES=1)",
    "C06": "; block indices built by IndexBlock (0..5 or 255 rows, keyed or keyless): written, read, re-written, stored, fetched, compared with the Lean codec; table profiles of real ingests decoded and re-encoded; with each of them a generated profile VALUE (0..4 columns, every field present/absent/empty, any 64-bit float pattern, column names of 255..131072 bytes, top values up to 65535 bytes) written, read back, re-encoded, stored and fetched, its bytes compared with the writer of Model/Profile.lean, a text that does not fit 16 bits must be refused; 1 in 32 a history of 2..8 Save*/Delete* calls on one store that writes keys again (same content; other content under the same table sum for table index / profile), read back after every step and dumped at the end, against the finite map of Model/ObjStore.lean; the history runs on one of the four objects.Store implementations (the harness's map, objmock, objbadger.Store, and - half of the cases - the transaction store objbadger.Txn, whose Save*/Delete* calls are staged, read back through the transaction, and reach the database at partial commits placed inside the history and at the final Commit; model: TxnStore of Model/ObjStore.lean, the database is dumped from outside the transaction after every commit), and in 3 of 4 histories the caller serialises every object into ONE buffer, hands SaveBlock / SaveBlockIndex the compression buffer they gave back, and overwrites both as soon as each Save* has returned (tags store-*, caller-reuses-its-buffers, partial-commit); 1 in 64 a stored table whose index and profile keys hold another table's / an older profiler's / damaged / the same / no bytes, refreshed by IndexTable + ProfileTable and compared with the same refresh onto absent keys",
    "C07": "; 1 in 5 extra tables header-only; 1 scenario in 2 also holds 1..2 tables that are another table of the scenario committed again under another primary key that keeps the row order (first column + second column, or keyless): the very same blocks under different block indices, placed anywhere among the tables (tag same-blocks-under-another-primary-key); for every received table each block index it names must be held by the destination with the source's bytes, one per block; 1 table in 3 has a block (a middle one or the last) whose final row ends with an empty cell; commit times in 13 zones (whole-hour and fractional offsets on both sides of UTC); 1 case in 4 negotiated: histories of 2..8 commits with more merges, the destination asks for 1..2 commits it lacks and reports its tips (sometimes more, sometimes an unknown hash, in 1..2 rounds, depth 0..3, optionally acknowledging tables it has), the real ClosedSetsFinder picks the commit list, tables and commons that ObjectSender then sends; the transfer must succeed and leave every ancestor of the wants (tables within the depth) and nothing outside the wanted history; 1 case in 4 (and every other negotiated one): every packfile of the transfer is also delivered cut short to a copy of the destination as it was before that packfile (inside the file header, at every object boundary, at every byte of objects up to 256 bytes, at 16 bytes from either end plus 16 drawn in between of larger ones; at most about 400 cuts per case): a cut on an object boundary is accepted, any other is refused, and the copy holds exactly the complete objects before the cut, identical to the source's",
    "C08": "; 1 case in 4: the refs live in rotating namespaces (heads, tags, remote-tracking, transaction refs txs/<id>/<branch>, custom); 1 case in 5: the session continues on the same finder after a refused request (a round whose wants include a commit no ref reaches, an unknown hash or a commit without its table, alone or with a legitimate want, placed before / between / after the generated rounds): refused rounds change nothing, everything sent must be justified by the accepted wants alone",
    "C09": "; every fourth case index adds one case of a kind chosen by the index (tag variant=…): multi-depth (3..4 heads forking from a shared trunk with 0..4 own commits, cross merges, `fetch --depth d` with d around the distance to the shared part), sender-fault (the remote's store fails its k-th read of a table / block / commit during a fetch, or a local table object is cut short before a push; the retry is judged too), "
           "second-remote (full or shallow clone, origin removed or kept, pushes to a second remote that is empty or holds a prefix; a crash of the command counts as a failed push), merge-shallow (after `fetch --depth 1|2`, `wrgl merge main <origin/main~j | sum>` in every mode: a moved branch head must have its table)"
           "; case indices 1, 5, 9, ... add one case of a second list of kinds: known-blocks (a commit whose table is made only of blocks of an earlier 2..3-block table - its first or last blocks - or has no rows, or is one row short of a block; fetch into an empty repository or a clone, push from a clone), "
           "colliding-dsts (two refspecs mapping different remote refs - a branch and a tag of one name on histories of their own, or two branches - onto one destination, as globs or explicitly; the destination holds one of its sources with its whole history), "
           "boundary-cut (a packfile response ends exactly between two objects with io.ErrUnexpectedEOF or a stream reset; the remote's maximum packfile size is set so that a packfile ends after the first sent commit's table / after the commit / anywhere)"
           "; case indices 2, 10, 18, ... add a tips-cut case (2..3 branches with 0..2 commits of their own on a shared base that the local repository has cloned or not, fetched in one exchange with maximum packfile size default / 5000 / 700; the first or second packfile response with two or more objects ends on ANY of its object boundaries with io.ErrUnexpectedEOF - the fetch fails and is run again - or with a stream reset - the fetch negotiates again by itself)",
    "C10": "; every fourth case index adds one case of a kind chosen by the index (tag variant=…): overlap-specs (2..3 refspecs over the same remote heads into remotes/origin/*, a custom ref and remotes/mirror/*, every pattern of '+' in command-line order, after the remote moved forward / sideways / back; each destination is judged by the '+' of its own refspec), "
           "ff-config (merge.fastForward unset / never / only x no flag / --ff / --no-ff / --ff-only for merge and pull; the flag wins), merge-shallow (merge of a named commit of a depth-limited fetch: refused and reported when its table is absent, exact fast-forward otherwise)"
           "; case indices 1, 9, 17, ... add a listing-fault case (the first 1..2 listings of the remote's refs answer 500/502/503 before a push - which retries - or a fetch; diverged / ahead / unrelated / behind / equal branch, a tag pushed along that is new or clobbers the remote's); for every push the ref updates the client REQUESTED are recorded by the reference server: each must be one the gate accepts against the remote's true value and name that value as old",
    "C11": "; walks from 3..5 start points with a repeated one; 2 per DAG: CommitsQueue.RemoveAncestors(1..2 commits) on a frontier started from 1..3 commits and advanced by 0..2 pops, judged by reachability (exactly the ancestors leave, the rest keep their order); 4 per DAG (ops *-fault): IsAncestorOf (mostly about an ancestor of the commit with the longest history), a walk, SeekCommonAncestor (2..3 inputs) and RemoveAncestors while the store fails ONE read of a commit once, at a read the query really issues (counted on a healthy run): a definite answer - true/false, a finished walk, 'no common ancestor', the reduced frontier - must be right for the whole graph, an error is accepted only if the failure was delivered",
    "C12": "; 1 in 20: a repository directory (badger + SQLite files) with 1..3 transactions (in progress or committed, begun well before or after the time-to-live: default, 24h or 2h) staging 1..2 refs each, `wrgl gc` or `wrgl prune` through the command line, judged with the refs that exist afterwards as roots; 1 in 20: the SQLite ref store fails with a disk I/O error after 0..5 rows of a scan during prune (nothing reachable may go, success must mean complete), then a healthy re-run; 1 in 40: 30..60 commits over 25..40 tables on a real badger store; 1 in 10 (in addition to the index's own case, op prune-readfault): a repository with 2..5 refs pruned while the object store fails one read of one commit once - with an input/output error or by reporting the stored commit absent - (a ref's target that the mark phase reaches again through another ref or a descendant; any commit of a ref's history, first or second read; any ref's target), then a healthy re-run: nothing a ref reaches through answered reads may go (a ref whose target was reported absent counts as dangling), a run reporting success must have removed everything no ref reaches; the gc repositories run with the process's local zone at UTC, -05:00, +05:30 or -08:00 (by case index), away from UTC with transactions also half an hour short of / past the time-to-live; every other `wrgl gc` command-line case in a zone -05:00 / +09:00 / -10:00 with transactionTTL 1h when configured",
    "C13": "; every write position also as a single injected write error (the operation continues): consistency, error reported or harmless, re-run; every crash point also as a recovery history (crash, a complete prune of the reopened repository, the operation again: same refs, every commit they reach and its table present, consistent); 1 in 4 cases: the fetch command's Fetch (default refspec) against the reference server, remote 1..3 commits ahead on main, optional second branch, 0..2 tags outside the refspec, 1..n packfiles, the remote's commit times following the history (1 in 2) or running backwards / jumping either way / all equal (a commit may be older than its parent); 1 in 4: one of the four kinds in a repository that also holds an unreachable commit; 1 in 12: `transaction commit` of an open transaction staging 1..3 branches (existing and new), staged as `wrgl commit --txid` does (write kinds and pairing from the extracted loop order; each interrupted run judged on its own branch order)",
    "C14": "; 1 in 5 scenarios inject the fault into discard (crash or single error at each of its store operations) and discard again; commit faults as crash or single error; 1 in 5 scenarios: the fault is one failing SQL statement inside the ref store (trigger: either statement of a branch's logged ref update, the status flip, a staged-ref delete, the transaction-row delete), then re-run / discard; 1 in 100 (thorough 1 in 400): branches made and the transaction staged by `wrgl commit --txid` (file argument / branch.file / --all in turn), dumped before and after staging and after each `wrgl transaction commit/discard` (one with a staged commit unreadable); every third scenario (tag advance): 1..3 ordinary commits of other operations (ref.CommitHead on the raw stores, as `wrgl commit` does) land on any of the four branch names, mostly staged ones, anywhere in the sequence - before the first run, between an interrupted run and the re-run (on branches that run has moved and on ones it has not), after a discard, after the end; every state is judged by `branch-unmoved-or-moved-exactly-once` (a branch is where those commits alone would leave it, or carries the staged commit exactly once with the later ones on top: movedOnceHeads) and the model runs txAdvance",
    "C15": "; 1 in 8 logged sets run with a failing reflog insert (SQL trigger): must fail and change nothing; 1 in 4 sequences: logged sets with generated author, action, time and transaction id (two ids or none), then logged set + copy/rename + log read of the target; log entries are compared in all their fields; 1 in 5 sequences (tag store=fs): 60..130 ops (thorough 40..260) on the file-based store pkg/ref/fs over 17 file names and the names bulk renames make of them: three refs take most logged sets (entries of 60..400 bytes, generated author/e-mail/action/time, old value handed in as ref.SaveRef does), so logs reach dozens of entries over several 1024-byte chunks of the backward scanner; rename/copy also into directories that held no log; single-directory prefix listings, bulk delete/rename of remotes; logs read in between and for every name at the end; 1 case in 20 (tag fs-rejected): a file-store history that also holds renames / copies / plain sets the directory layout has to refuse (destination is an existing directory or lies below a bound name; c15FsDomain a7): they must fail and change nothing, sources are read and renamed again afterwards; 1 case in 40 (tag longlog): one ref of the SQL store takes 63..700 logged sets (thorough ..1500; half of the lengths on and next to 64/128/256/512), plain and with generated fields, a few other operations in between; its log is read, the ref is copied or renamed, the target log is read, extended and read again",
    "C16": "; 1 in 4 cases: a merge of 2..3 branches (256..955 rows) with a deleted block / block index of base or branch or reads failing after k, under a 75 s watchdog, and without fault compared with the one-processor outcome; the table index is compared too; 1 in 4 of the rest: the commit command's ingest helper on a store that refuses the k-th write (must return the error, never hang); 1 in 5 of the rest: a progress bar created with total in {-1,0,1,5,10,1000}, moved by 0..4 Incr/SetTotal/SetCurrent calls, finished with Done() under a 20 s timer, compared with Model/PBar.lean; the merge consumer reaches the merge channel 0 / 0.3 / 20 ms after Start() (by case index) and, like `wrgl merge`, asks the merger for Columns() and PK() on the first message: they must be the merged table's columns and key, with or without a fault; on 1 case index in 6 additionally an ingest through a store whose writes take 0.5 / 2 / 5 ms (tag slow-store) with more blocks than the sorted-block channel's buffer and the workers hold together (buffer + 2..3 x effective workers + 1, sometimes a few more; 1 in 3 with the sorter spilling several runs to disk), so that the producer blocks in its sends and the last block is sent into a full channel: same table, row and block count as the single-threaded run; three such inputs are corpus cases (corpus/C16/slowstore.jsonl); on another case index in 6 additionally a history (op ingest-history, tag history): 2..3 ingests in a row on ONE sorter, which the caller empties (Reset) and reloads between them - the same rows again (a retry) or another table - 4..10 workers (>= 2 effective), a store whose writes take 0 / 0.3 / 1 / 3 ms, tables with more blocks than the sorted-block channel and the workers hold (1 in 4 short), 1 in 4 with the sorter spilling runs to disk; every attempt but the last mostly carries ONE transient write error (the k-th write of the attempt fails once: early, while the producer is far from done, or anywhere, the coordinator's writes included), the caller goes on at once or after 0.2 / 2 ms. Each attempt is judged on its own against the pipeline model (Model/Pipe.lean) under a shipped schedule: an error exactly when a write was refused, otherwise the table, rows, blocks and table index of a single-threaded ingest of its rows on a fresh sorter, and no write reaches the store through an attempt's handle after the attempt has returned (clause ingest-is-over-when-it-returns); three such histories are corpus cases (corpus/C16/history.jsonl). Histories in which EVERY worker of an attempt fails are generated only with VERIF_C16_HIST_ALL_WORKERS_FAIL=1: the unchanged tree races there (DESIGN.md section 9, corpus/C16/held/sole-worker-failure.replay.json)",
    "C17": "; well-formed packfiles whose block decompresses but is invalid, or whose table object lies about its blocks (key index out of range, wrong row count, wrong width); every 4-byte window of small objects overwritten by a huge count; profiles declaring fewer field names; commit / table / profile bytes also read through the store getters; every string-list / uint-list input also through the decoders built with reuseRecords=true, through StrListDecoder.ReadBytes and the float-list decoder (tag decoder-option); with every receiver case a well-formed packfile whose commit lacks a parent (only parent absent / second parent of a merge absent with the first already in the destination / child sent before its parent)",
    "C18": "; the string-list and uint-list streams also through the decoders built with reuseRecords=true and through StrListDecoder.ReadBytes; with every string-list case a row stream (1..14 rows of 0..5 cells up to 6000 bytes, read with ONE decoder until end of stream by Read and by ReadBytes, both options) under 3 (thorough 8) random chunkings and under fixed 4096- and 512-byte blocks at phase 0 and at a random phase, compared with the whole-buffer result and the Lean row-stream model",
    "C19": "; keyless tables over a tiny alphabet with the empty cell; the two outputs must agree also when keys repeat; on 1 in 12 case indices also 1..10 rows with 1..3 cells of 65533..65536 bytes in removed / kept / key columns (tag limit-cell); on 2 in 12 also one sorter used for 2..3 tables of different shapes with Reset() in between (op sort-reuse), the earlier uses abandoned after AddRow / read under a cancelled context / read to the end: every use read to the end must satisfy the same clauses for its own table and agree with the model started from the empty state, and after Close() no spill file of any use may be left",
    "C20": "; 1 in 8: 256..335 hashes sharing a first byte added in one batch; 1 case in 5 (tag read-fault): flushes and adds that meet one injected read error of the fan-out table before their first write "
           "(the file is untouched) and are retried, judged by the same clauses on the flushes that follow; 1 case in 400 (op bulk, tag bulk): batch sizes above 65536 with 65536..65836 hashes of one first byte "
           "(and a few of neighbouring ones) in one flush, into an empty file or between entries flushed before, judged against the sorted set of the added hashes",
}
_RULE_EXTRA["C01"] += ("; on 2 in 12 case indices the same table once more with a spilling run size and one spill file cut short in the middle of a field "
                       "between the sort and the merge (from the Close of the CSV reader; op ingest-torn-spill): refused, or stored completely; history steps run with -n 1..5 in turn")
_RULE_EXTRA["C04"] = ("; every other command-line case (op diff-cli, tag earlier=...) makes the two diffed commits on top of an earlier history of the branch, "
                      "one of six shapes in turn: the older file committed before without a primary key / without and then with the key / with the key extended by a column, "
                      "the newer file committed before without and with the key, both files before under other keys, the same two commits made once before "
                      "(the key column leads and is unique, so the rows sort alike under every one of these keys): the diff of the last two commits is judged as any other")
_RULE_EXTRA["C02"] = ("; a sixth configuration with 1..5 workers in turn by the case index, history steps with -n 1..5 in turn; on 1 in 6 case indices also a table of "
                      "fixed-width records ingested in a child process whose RLIMIT_FSIZE cuts every spill file at or near a row boundary (op ids-spill-write-fault): "
                      "the id of the in-memory ingest, or an error"
                      "; on 1 in 12 case indices one more history (tag column-names) over a table whose columns carry generated names (letters, digits, spaces, dots, "
                      "quotes, semicolons, bars, commas, a non-ASCII letter) and whose third key column is named after the first two - their names joined by a separator "
                      "(two histories in three by the comma, the list separator of -p and of the configuration; else one of ', ' ';' '|' ' ' '_' '-' or nothing): the history "
                      "starts keyed on the combined column or on the two (alone or inside a longer key) and its first change is the key that reads the same when written "
                      "out (tag key-reads-the-same), set in the configuration or given with -p in turn; such names go to -p as a quoted CSV record and into the "
                      "configuration by `config unset --all` + `config add` per name; judged by the clauses of every history")
_RULE_EXTRA["C19"] += ("; on 4 in 12 case indices the same table also loaded from a CSV file by SortFile with the key given by column names (tag sortfile; the re-use "
                       "cases of index 9 too); on 4 in 12 also loaded while, for a stretch of rows, no spill file can be created and the caller carries on after the "
                       "AddRow errors (op sort-fault): every row whose AddRow returned nil comes out once per key in key order in both outputs, and the fault model "
                       "(Model/SorterFault.lean) agrees on which calls fail, on the spills and on the rows"
                       "; on 3 in 12 also one sorter walking through 2..4 small tables of ONE key kind (no key, or the same key columns) and DIFFERENT widths "
                       "over a 3..5-cell alphabet with the empty cell (tag reuse-one-key-kind; rows of the wider table agree on every column the narrower one has), "
                       "earlier uses mostly read to the end or cancelled, nothing spilled in half of them, 1 in 4 through SortFile: same clauses and model as sort-reuse "
                       "(tags reset-after-unspilled-read:keyless|keyed:next-wider|narrower count the histories where the sorter had worked out the key of a table "
                       "that fitted in memory before the next, differently shaped one)")
for _k, _v in _RULE_EXTRA.items():
    PROPS[_k]["rule"] = PROPS[_k]["rule"] + _v

# thorough tier sized so that each property's run takes a few minutes on 16 cores
_THOROUGH_N = {'C01': 12000, 'C02': 6000, 'C03': 12000, 'C04': 10000, 'C05': 24000, 'C06': 80000, 'C07': 24000, 'C08': 80000, 'C09': 5000, 'C10': 4000, 'C11': 40000, 'C12': 48000, 'C13': 10000, 'C14': 64000, 'C15': 48000, 'C16': 2400, 'C17': 40000, 'C18': 48000, 'C19': 14000, 'C20': 40000}
for _k, _v in _THOROUGH_N.items():
    PROPS[_k]['thorough_n'] = _v

# the widened search that follows a broken proof / correspondence keeps its earlier size
_WIDEN_N = {'C11': 6000, 'C04': 2500, 'C06': 24000, 'C19': 4000, 'C01': 3000, 'C02': 1500, 'C03': 3000, 'C20': 8000, 'C15': 6000,
            'C18': 6000, 'C05': 4000, 'C08': 10000, 'C07': 2500, 'C12': 6000, 'C14': 8000, 'C13': 1500, 'C16': 600, 'C09': 800, 'C10': 800}
for _k, _v in _WIDEN_N.items():
    PROPS[_k].setdefault('widen_n', _v)

_LEVEL_EXTRA = {
    "C09": " Also: C09_tables_within_depth (the receiver ends with the table of every commit of the want's history within the requested depth, given that commons' tables are present at the receiver) and C09_transfer_closed_multi (several wants in one exchange). Interrupted transfers: cut at ANY object boundary of the sender's stream, every commit the receiver newly holds has its table (C09_interrupted_commit_has_table), which is what lets the retry skip stored commits; a receiver that sets tables aside until the packfile's end does not have this (C09_deferred_tables_unsafe).",
    "C13": " Receive, commits: for ANY object stream (whatever order the sender chose) and any crash point or refusal every stored commit has all its parents, because the receiver looks the parents up before writing the commit (C13_receive_any_order_parents); without the look-up a child sent before its parent leaves an orphan (C13_unchecked_receive_unsafe).",
    "C05": " The per-cell decision chain is additionally tied to the source by a regenerated guard table: extract/paths.go lists the guards in front of every unresolveCol(i) of tryResolve, and C05_unresolve_table_is_model proves over all 216 situations of a step that the table fires exactly when the model's cellStep marks the column unresolved. Column-changing branches: the by-name resolution `resolveRecCols` used for them is proved to coincide with the same-columns resolution when all tables share the base's columns (C05_cols_model_extends_same). The base of a merge of several heads is specified on the commit graph: bestCommonAncestors is exactly the set of commits that are an ancestor-or-self of every head with no other such commit below them (C05_merge_base_spec, C05_merge_base_reaches_every_head).",
    "C06": " Block index codec: round trip, re-encoding and injectivity (C06_blockIndex_*); the pre-allocation cap of the decoders is extracted as never bounding a read loop. The store as a function of its history: a save reads back whatever the key held, other keys are untouched, delete unbinds, the same content again changes nothing (C06_save_reads_back, C06_store_op_keeps_other_keys, C06_delete_unbinds, C06_save_again_changes_nothing, C06_store_keys_distinct); the transaction store: committed (with partial commits anywhere) it holds exactly what the same calls leave in a plain store, i.e. what each save was GIVEN, it reads its own staged writes, and nothing reaches the database before a commit (C06_txn_commit_is_the_direct_history, C06_txn_reads_its_own_writes, C06_txn_staged_is_invisible_outside).",
    "C08": " Across wants: C08_all_wants (one whole call of enqueueWants: closed for every non-pending want, acceptable at every position, sound). Across the round's bookkeeping: C08_accepts_reachable_wants and C08_process_sound (Process accepts exactly the wants reachable from refs whatever the timestamps; every ack is a have that is an ancestor of a ref).",
    "C11": " Walks from any list of start points, repeats included, pop every ancestor exactly once (C11_walk_multi_each_once).",
    "C14": " Discard interrupted at any store operation touches no branch, reports success only when everything is gone, and completes on re-run (C14_discard_fault). "
           "Other operations committing to the branches before and between the runs (txAdvance): the re-run completes the transaction with exactly one log entry and exactly one commit of the transaction in the history of every staged branch and none elsewhere "
           "(C14_completable_across_advances), and leaves a branch an earlier run has moved exactly where it finds it (C14_rerun_keeps_moved_branch, C14_advance_frame).",
    "C19": " A sorter re-used after Reset() starts from the empty state whatever the previous use left in it (C19_reuse_history_independent), hence emits one row per distinct key of the table loaded after the Reset (C19_reuse_kept_spec); for key-less tables that is exactly the set of the table's own distinct rows, each once (C19_reuse_keyless_keeps_every_row), the key being every column of THAT table's width (C19_keyless_key_is_all_columns) and of no narrower one (C19_narrower_index_list_collapses_rows).",
    "C16": " Error reporting never blocks when the channel has one slot per sender (C16_error_report_never_blocks; the capacities of the ingest and merge error channels are extracted facts). Finishing a progress bar returns in every bar state (C16_pbar_done_returns, tied by the fact pbarDoneForcesCompletion). An ingest that waits for all its workers is over when it returns, for every fault position and schedule, provided one worker saw the channel closed: nothing of it touches the sorter the caller reloads (C16_ingest_is_over_when_it_returns; C16_early_return_witness and C16_sole_worker_failure_witness show both premises are needed); without a fault every completing schedule counts every row (C16_pipeline_counts_every_row).",
}
for _k, _v in _LEVEL_EXTRA.items():
    PROPS[_k]["level_text"] = PROPS[_k]["level_text"] + _v
