"""Per-property configuration of ./check (budgets, Lean modules, evidence texts)."""

PROPS = {
    "C11": dict(
        lean_modules=["WrglModel.Props.C11"],
        quick_n=300, thorough_n=6000,
        rule="random DAGs (1..10 commits quick, 1..16 thorough; merges, several roots, 5 timestamp modes) x "
             "isanc/walk/seek(2..4 inputs) queries; non-trivial = the DAG has a merge or >=2 roots or "
             "non-monotone timestamps; distinct = distinct (op, input)",
        modelled="pkg/ref/commits_queue.go (Insert, Pop, PopInsertParents, IsAncestorOf), pkg/ref/utils.go (SeekCommonAncestor)",
        assumptions=["objects.GetCommit returns the stored commit (C06)", "commit times compared at whole-second resolution (what the commit encoding stores)"],
    ),
}
