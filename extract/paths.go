package main

// Decision-table extraction (C10): for every call of interest inside a function, the list of branch
// conditions (source text, negations written !(…)) on the path from the function entry to the call.
// An `if` whose body always leaves (continue / return / break) contributes its negated condition
// to everything after it. This is a small translator of if-chains into guard lists; the Lean side
// interprets the guards over named atoms and proves the table equal to the model's decision function.

import (
	"fmt"
	"go/ast"
	"go/token"
	"strings"
)

func terminates(b *ast.BlockStmt) bool {
	if b == nil || len(b.List) == 0 {
		return false
	}
	switch s := b.List[len(b.List)-1].(type) {
	case *ast.ReturnStmt:
		return true
	case *ast.BranchStmt:
		return s.Tok == token.CONTINUE || s.Tok == token.BREAK
	case *ast.IfStmt:
		if s.Else == nil {
			return false
		}
		eb, ok := s.Else.(*ast.BlockStmt)
		if !ok {
			if ei, ok := s.Else.(*ast.IfStmt); ok {
				return terminates(s.Body) && terminates(&ast.BlockStmt{List: []ast.Stmt{ei}})
			}
			return false
		}
		return terminates(s.Body) && terminates(eb)
	}
	return false
}

type guardPath struct {
	conds []string
	call  *ast.CallExpr
}

func (f *Facts) cond(e ast.Expr) string {
	return strings.ReplaceAll(f.src(e), "\"", "'")
}

// ifCond is the condition of an if statement, with its init statement when there is one (two
// `if _, ok := m[k]; ok` tests differ only there)
func (f *Facts) ifCond(is *ast.IfStmt) string {
	if is.Init != nil {
		return f.cond2(is.Init) + "; " + f.cond(is.Cond)
	}
	return f.cond(is.Cond)
}

func (f *Facts) cond2(n ast.Node) string {
	return strings.ReplaceAll(f.src(n), "\"", "'")
}

func (f *Facts) guardPaths(body *ast.BlockStmt, match func(*ast.CallExpr) bool) []guardPath {
	var out []guardPath
	var walkBlock func(stmts []ast.Stmt, conds []string)
	var walkStmt func(s ast.Stmt, conds []string)
	scan := func(n ast.Node, conds []string) {
		ast.Inspect(n, func(m ast.Node) bool {
			if _, ok := m.(*ast.FuncLit); ok {
				return false
			}
			if c, ok := m.(*ast.CallExpr); ok && match(c) {
				out = append(out, guardPath{append([]string{}, conds...), c})
			}
			return true
		})
	}
	walkStmt = func(s ast.Stmt, conds []string) {
		switch st := s.(type) {
		case *ast.IfStmt:
			if st.Init != nil {
				scan(st.Init, conds)
			}
			c := f.ifCond(st)
			walkBlock(st.Body.List, append(append([]string{}, conds...), c))
			if st.Else != nil {
				neg := append(append([]string{}, conds...), "!("+c+")")
				switch e := st.Else.(type) {
				case *ast.BlockStmt:
					walkBlock(e.List, neg)
				case *ast.IfStmt:
					walkStmt(e, neg)
				}
			}
		case *ast.BlockStmt:
			walkBlock(st.List, conds)
		case *ast.ForStmt:
			walkBlock(st.Body.List, conds)
		case *ast.RangeStmt:
			walkBlock(st.Body.List, conds)
		default:
			scan(s, conds)
		}
	}
	walkBlock = func(stmts []ast.Stmt, conds []string) {
		cur := append([]string{}, conds...)
		for _, s := range stmts {
			walkStmt(s, cur)
			if is, ok := s.(*ast.IfStmt); ok && is.Else == nil && terminates(is.Body) {
				cur = append(cur, "!("+f.ifCond(is)+")")
			}
		}
	}
	walkBlock(body.List, nil)
	return out
}

// a guard list as Lean `List (Bool × String)`: (true, c) = c holds, (false, c) = c does not hold
func (f *Facts) strListListFact(name string, ll [][]string) {
	parts := make([]string, len(ll))
	for i, l := range ll {
		gs := make([]string, len(l))
		for j, c := range l {
			pos := "true"
			if strings.HasPrefix(c, "!(") && strings.HasSuffix(c, ")") {
				pos = "false"
				c = c[2 : len(c)-1]
			}
			gs[j] = "(" + pos + ", " + fmt.Sprintf("%q", c) + ")"
		}
		parts[i] = "[" + strings.Join(gs, ", ") + "]"
	}
	f.emit(name, "List (List (Bool × String))", "["+strings.Join(parts, ", ")+"]", ll)
}

func assignsTo(fd *ast.FuncDecl, name string) bool {
	found := false
	ast.Inspect(fd.Body, func(n ast.Node) bool {
		switch s := n.(type) {
		case *ast.AssignStmt:
			for _, l := range s.Lhs {
				if id, ok := l.(*ast.Ident); ok && id.Name == name && s.Tok != token.DEFINE {
					found = true
				}
			}
		case *ast.IncDecStmt:
			if id, ok := s.X.(*ast.Ident); ok && id.Name == name {
				found = true
			}
		}
		return true
	})
	return found
}

func init() {
	extra = append(extra, func(f *Facts) {
		// C10 fetch: the guards in front of every ref.SaveFetchRef in the per-ref loop of saveFetchedRefs
		sf := f.funcDecl("cmd/wrgl/fetch/root.go", "", "saveFetchedRefs")
		var fetchPaths [][]string
		forceAssigned := true
		if sf != nil {
			forceAssigned = assignsTo(sf, "force")
			// the per-ref loop is the last range statement over `refs`
			var loop *ast.RangeStmt
			ast.Inspect(sf.Body, func(n ast.Node) bool {
				if r, ok := n.(*ast.RangeStmt); ok && f.src(r.X) == "refs" {
					loop = r
				}
				return true
			})
			if loop != nil {
				for _, p := range f.guardPaths(loop.Body, func(c *ast.CallExpr) bool { return f.src(c.Fun) == "ref.SaveFetchRef" }) {
					fetchPaths = append(fetchPaths, p.conds)
				}
			}
		}
		f.strListListFact("fetchSavePaths", fetchPaths)
		f.boolFact("fetchForceParamAssigned", forceAssigned)
		// C10 push: the guards in front of every append to `updates` in identifyUpdates, with the Force field
		iu := f.funcDecl("cmd/wrgl/push_cmd.go", "", "identifyUpdates")
		var pushPaths [][]string
		pushForceAssigned := true
		if iu != nil {
			pushForceAssigned = assignsTo(iu, "force")
			for _, p := range f.guardPaths(iu.Body, func(c *ast.CallExpr) bool {
				return f.src(c.Fun) == "append" && len(c.Args) == 2 && f.src(c.Args[0]) == "updates"
			}) {
				forced := "Force=false"
				if strings.Contains(f.src(p.call.Args[1]), "Force:") {
					forced = "Force=" + strings.TrimSpace(strings.Split(strings.SplitN(f.src(p.call.Args[1]), "Force:", 2)[1], ",")[0])
				}
				pushPaths = append(pushPaths, append(p.conds, forced))
			}
		}
		f.strListListFact("pushUpdatePaths", pushPaths)
		f.boolFact("pushForceParamAssigned", pushForceAssigned)
		// C10 merge: the guards in front of the fast-forward ref.SaveRef in runMerge and the commit it moves to
		rm := f.funcDecl("cmd/wrgl/merge_cmd.go", "", "runMerge")
		var mergePaths [][]string
		if rm != nil {
			for _, p := range f.guardPaths(rm.Body, func(c *ast.CallExpr) bool { return f.src(c.Fun) == "ref.SaveRef" }) {
				target := ""
				if len(p.call.Args) > 2 {
					target = "target=" + f.cond(p.call.Args[2])
				}
				mergePaths = append(mergePaths, append(p.conds, target))
			}
		}
		f.strListListFact("mergeFFPaths", mergePaths)
	})
}

func init() {
	extra = append(extra, func(f *Facts) {
		// C05: the per-cell decision chain of tryResolve: guards in front of every unresolveCol(i) in the
		// loop over the distinct rows
		tr := f.funcDecl("pkg/merge/row_resolver.go", "RowResolver", "tryResolve")
		var unres [][]string
		if tr != nil {
			var loop *ast.RangeStmt
			ast.Inspect(tr.Body, func(n ast.Node) bool {
				if r, ok := n.(*ast.RangeStmt); ok && f.src(r.X) == "r.rows.Values" {
					loop = r
				}
				return true
			})
			if loop != nil {
				for _, p := range f.guardPaths(loop.Body, func(c *ast.CallExpr) bool { return f.src(c.Fun) == "unresolveCol" }) {
					unres = append(unres, p.conds)
				}
			}
		}
		f.strListListFact("resolveUnresolvePaths", unres)
	})
}

func init() {
	extra = append(extra, func(f *Facts) {
		// C17: IndexTable checks a received table's description against its blocks before indexing rows by
		// key position: the key indices against the column list, every row's width against it
		it := f.funcDecl("pkg/ingest/index.go", "", "IndexTable")
		pkChecked, widthChecked := false, false
		if it != nil {
			ast.Inspect(it.Body, func(n ast.Node) bool {
				is, ok := n.(*ast.IfStmt)
				if !ok || !terminates(is.Body) {
					return true
				}
				c := f.src(is.Cond)
				if strings.Contains(c, ">= len(tbl.Columns)") {
					pkChecked = true
				}
				if strings.Contains(c, "len(row) != len(tbl.Columns)") {
					widthChecked = true
				}
				return true
			})
		}
		f.boolFact("indexTableChecksKeyAndWidth", pkChecked && widthChecked)
	})
}

func init() {
	extra = append(extra, func(f *Facts) {
		// C09: a fetch that retries after a stream error drops the interrupted session's cookie first
		ff := f.funcDecl("cmd/wrgl/fetch/root.go", "", "Fetch")
		resets := false
		if ff != nil {
			ast.Inspect(ff.Body, func(n ast.Node) bool {
				is, ok := n.(*ast.IfStmt)
				if !ok || !strings.Contains(f.src(is.Cond), "isStreamError") {
					return true
				}
				sawReset, sawContinue := false, false
				ast.Inspect(is.Body, func(m ast.Node) bool {
					if c, ok := m.(*ast.CallExpr); ok && strings.HasSuffix(f.src(c.Fun), ".ResetCookies") {
						sawReset = true
					}
					if b, ok := m.(*ast.BranchStmt); ok && b.Tok == token.CONTINUE {
						if sawReset {
							sawContinue = true
						}
					}
					return true
				})
				resets = sawReset && sawContinue
				return true
			})
		}
		f.boolFact("fetchRetryResetsCookies", resets)
		// C16: the lazily created progress bar objects are created under a lock
		locked := func(rel, recv, name string) bool {
			fd := f.funcDecl(rel, recv, name)
			if fd == nil || len(fd.Body.List) == 0 {
				return false
			}
			first := f.src(fd.Body.List[0])
			return strings.HasSuffix(first, ".mu.Lock()")
		}
		f.boolFact("pbarLazyInitLocked", locked("pkg/pbar/bar.go", "bar", "ensureInternalBar") && locked("pkg/pbar/progress.go", "Container", "ensureProgress"))
		// C16: Done() drives a bar that has a fixed total to that total before it waits for completion
		forces := false
		if fd := f.funcDecl("pkg/pbar/bar.go", "bar", "Done"); fd != nil {
			body := f.src(fd.Body)
			i := strings.Index(body, ".SetTotal(-1, true)")
			j := strings.Index(body, ".SetCurrent(math.MaxInt64)")
			k := strings.LastIndex(body, ".Wait()")
			forces = i >= 0 && j > i && k > j
		}
		f.boolFact("pbarDoneForcesCompletion", forces)
	})
}

func init() {
	extra = append(extra, func(f *Facts) {
		// C03: IndexTable refuses a table whose recomputed block index sum differs from the declared one,
		// and takes the table index entry of block i from the first row of that block by the table's key
		it := f.funcDecl("pkg/ingest/index.go", "", "IndexTable")
		compares, firstRow := false, false
		if it != nil {
			ast.Inspect(it.Body, func(n ast.Node) bool {
				switch s := n.(type) {
				case *ast.IfStmt:
					if terminates(s.Body) && f.src(s.Cond) == "!bytes.Equal(blkIdxSum, tbl.BlockIndices[i])" {
						compares = true
					}
				case *ast.AssignStmt:
					if len(s.Lhs) == 1 && len(s.Rhs) == 1 && f.src(s.Lhs[0]) == "tblIdx[i]" &&
						f.src(s.Rhs[0]) == "slice.IndicesToValues(blk[0], tbl.PK)" {
						firstRow = true
					}
				}
				return true
			})
		}
		f.boolFact("indexTableComparesIndexSums", compares)
		f.boolFact("indexTableEntryIsFirstRowKey", firstRow)
	})
}
