module verifextract

go 1.19
