package main

import (
	"go/ast"
	"go/printer"
	"strings"
)

func (f *Facts) src(n ast.Node) string {
	var sb strings.Builder
	printer.Fprint(&sb, f.fset, n)
	return sb.String()
}

// hasGuardReturn reports whether the function has a top-level `if <cond> { return <results> }`
// with cond among conds (printed form) and printed results equal to results.
func (f *Facts) hasGuardReturn(fd *ast.FuncDecl, conds []string, results string) bool {
	if fd == nil || fd.Body == nil {
		return false
	}
	for _, st := range fd.Body.List {
		is, ok := st.(*ast.IfStmt)
		if !ok || is.Init != nil {
			continue
		}
		c := f.src(is.Cond)
		match := false
		for _, want := range conds {
			if c == want {
				match = true
			}
		}
		if !match {
			continue
		}
		for _, b := range is.Body.List {
			if rs, ok := b.(*ast.ReturnStmt); ok {
				var parts []string
				for _, r := range rs.Results {
					parts = append(parts, f.src(r))
				}
				if strings.Join(parts, ", ") == results {
					return true
				}
			}
		}
	}
	return false
}

func (f *Facts) boolFact(name string, v bool) {
	f.emit(name, "Bool", leanBool(v), v)
}

func extractAll(f *Facts) {
	f.constInt("pkg/objects/block.go", "BlockSize", "blockSize")

	// C04: findOverlappingBlocks returns the empty window for a table without blocks
	fob := f.funcDecl("pkg/diff/iterate.go", "", "findOverlappingBlocks")
	f.boolFact("diffEmptyGuard", f.hasGuardReturn(fob, []string{"n == 0", "len(tblIdx2) == 0"}, "0, 0"))
}
