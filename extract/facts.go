package main

import (
	"go/ast"
	"go/printer"
	"go/token"
	"strings"
)

func (f *Facts) src(n ast.Node) string {
	var sb strings.Builder
	printer.Fprint(&sb, f.fset, n)
	return sb.String()
}

// hasGuardReturn reports whether the function has a top-level `if <cond> { return <results> }`
// with cond among conds (printed form) and printed results equal to results.
func (f *Facts) hasGuardReturn(fd *ast.FuncDecl, conds []string, results string) bool {
	if fd == nil || fd.Body == nil {
		return false
	}
	for _, st := range fd.Body.List {
		is, ok := st.(*ast.IfStmt)
		if !ok || is.Init != nil {
			continue
		}
		c := f.src(is.Cond)
		match := false
		for _, want := range conds {
			if c == want {
				match = true
			}
		}
		if !match {
			continue
		}
		for _, b := range is.Body.List {
			if rs, ok := b.(*ast.ReturnStmt); ok {
				var parts []string
				for _, r := range rs.Results {
					parts = append(parts, f.src(r))
				}
				if strings.Join(parts, ", ") == results {
					return true
				}
			}
		}
	}
	return false
}

func (f *Facts) boolFact(name string, v bool) {
	f.emit(name, "Bool", leanBool(v), v)
}

var extra []func(f *Facts)

func extractAll(f *Facts) {
	defer func() {
		for _, e := range extra {
			e(f)
		}
	}()
	f.constInt("pkg/objects/block.go", "BlockSize", "blockSize")

	// C04: findOverlappingBlocks returns the empty window for a table without blocks
	fob := f.funcDecl("pkg/diff/iterate.go", "", "findOverlappingBlocks")
	f.boolFact("diffEmptyGuard", f.hasGuardReturn(fob, []string{"n == 0", "len(tblIdx2) == 0"}, "0, 0"))
}

// constValue resolves an integer constant expression: a literal, math.MaxUint16, or a constant
// declared in relFile.
func (f *Facts) constValue(e ast.Expr, relFile string) (string, bool) {
	switch x := e.(type) {
	case *ast.BasicLit:
		return x.Value, true
	case *ast.SelectorExpr:
		s := f.src(x)
		switch s {
		case "math.MaxUint16":
			return "65535", true
		case "objects.MaxStrLen":
			return f.lookupConst("pkg/objects/str_list.go", "MaxStrLen")
		}
	case *ast.Ident:
		return f.lookupConst(relFile, x.Name)
	}
	return "", false
}

func (f *Facts) lookupConst(rel, name string) (string, bool) {
	a := f.file(rel)
	if a == nil {
		return "", false
	}
	for _, d := range a.Decls {
		gd, ok := d.(*ast.GenDecl)
		if !ok {
			continue
		}
		for _, s := range gd.Specs {
			vs, ok := s.(*ast.ValueSpec)
			if !ok {
				continue
			}
			for i, n := range vs.Names {
				if n.Name == name && i < len(vs.Values) {
					if bl, ok := vs.Values[i].(*ast.BasicLit); ok {
						return bl.Value, true
					}
				}
			}
		}
	}
	return "", false
}

// lenGuard finds `if len(<v>) > C { <panic|return ... err> }` anywhere in fd and returns C and
// whether the body returns (true) or panics (false).
func (f *Facts) lenGuard(fd *ast.FuncDecl, rel string) (limit string, returnsErr bool, found bool) {
	if fd == nil {
		return
	}
	ast.Inspect(fd.Body, func(n ast.Node) bool {
		is, ok := n.(*ast.IfStmt)
		if !ok || found {
			return true
		}
		be, ok := is.Cond.(*ast.BinaryExpr)
		if !ok || be.Op.String() != ">" {
			return true
		}
		ce, ok := be.X.(*ast.CallExpr)
		if !ok || f.src(ce.Fun) != "len" {
			return true
		}
		v, ok := f.constValue(be.Y, rel)
		if !ok {
			return true
		}
		for _, st := range is.Body.List {
			switch s := st.(type) {
			case *ast.ReturnStmt:
				limit, returnsErr, found = v, true, true
			case *ast.ExprStmt:
				if c, ok := s.X.(*ast.CallExpr); ok && f.src(c.Fun) == "panic" {
					limit, returnsErr, found = v, false, true
				}
			}
		}
		return true
	})
	return
}

// declType returns how variable `name` is introduced in fd: "int" for `name := <int literal>`,
// or the declared type for `var name T = ...`.
func (f *Facts) declType(fd *ast.FuncDecl, name string) string {
	res := ""
	if fd == nil {
		return res
	}
	ast.Inspect(fd.Body, func(n ast.Node) bool {
		switch s := n.(type) {
		case *ast.AssignStmt:
			if s.Tok.String() == ":=" && len(s.Lhs) == 1 && f.src(s.Lhs[0]) == name && res == "" {
				if _, ok := s.Rhs[0].(*ast.BasicLit); ok {
					res = "int"
				} else {
					res = "expr:" + f.src(s.Rhs[0])
				}
			}
		case *ast.DeclStmt:
			if gd, ok := s.Decl.(*ast.GenDecl); ok {
				for _, sp := range gd.Specs {
					if vs, ok := sp.(*ast.ValueSpec); ok {
						for _, nm := range vs.Names {
							if nm.Name == name && vs.Type != nil && res == "" {
								res = f.src(vs.Type)
							}
						}
					}
				}
			}
		}
		return true
	})
	return res
}

// lenGuardOn is lenGuard restricted to guards on len(<v>).
func (f *Facts) lenGuardOn(fd *ast.FuncDecl, rel, v string) (limit string, returnsErr bool, found bool) {
	if fd == nil {
		return
	}
	ast.Inspect(fd.Body, func(n ast.Node) bool {
		is, ok := n.(*ast.IfStmt)
		if !ok || found {
			return true
		}
		be, ok := is.Cond.(*ast.BinaryExpr)
		if !ok || be.Op.String() != ">" || f.src(be.X) != "len("+v+")" {
			return true
		}
		val, ok := f.constValue(be.Y, rel)
		if !ok {
			return true
		}
		for _, st := range is.Body.List {
			switch s := st.(type) {
			case *ast.ReturnStmt:
				limit, returnsErr, found = val, true, true
			case *ast.ExprStmt:
				if c, ok := s.X.(*ast.CallExpr); ok && f.src(c.Fun) == "panic" {
					limit, returnsErr, found = val, false, true
				}
			}
		}
		return true
	})
	return
}

func (f *Facts) natFact(name, v string) { f.emit(name, "Nat", v, v) }

func (f *Facts) optNatFact(name string, v string, ok bool) {
	if ok {
		f.emit(name, "Option Nat", "some "+v, v)
	} else {
		f.emit(name, "Option Nat", "none", nil)
	}
}

func init() {
	extra = append(extra, func(f *Facts) {
		// C01/C06: cell length guards and position width of the string-list codec
		enc := f.funcDecl("pkg/objects/str_list.go", "StrListEncoder", "Encode")
		lim, _, ok := f.lenGuardOn(enc, "pkg/objects/str_list.go", "s")
		f.optNatFact("strListEncodeMaxCell", lim, ok)
		dec := f.funcDecl("pkg/objects/str_list.go", "StrListDecoder", "Decode")
		f.boolFact("strListOffsetWide", f.declType(enc, "offset") == "int" && f.declType(dec, "offset") == "int")
		add := f.funcDecl("pkg/sorter/sorter.go", "Sorter", "AddRow")
		lim2, ret2, ok2 := f.lenGuardOn(add, "pkg/sorter/sorter.go", "str")
		f.optNatFact("addRowMaxCell", lim2, ok2 && ret2)
		// SortFile must not ignore AddRow's error
		sf := f.funcDecl("pkg/sorter/sorter.go", "Sorter", "SortFile")
		ignored := false
		if sf != nil {
			ast.Inspect(sf.Body, func(n ast.Node) bool {
				if es, ok := n.(*ast.ExprStmt); ok {
					if c, ok := es.X.(*ast.CallExpr); ok && f.src(c.Fun) == "s.AddRow" {
						ignored = true
					}
				}
				return true
			})
		}
		f.boolFact("sortFileChecksAddRow", !ignored)
		ws := f.funcDecl("pkg/encoding/objline/scalar.go", "", "WriteString")
		lim3, ret3, ok3 := f.lenGuardOn(ws, "pkg/encoding/objline/scalar.go", "s")
		f.boolFact("writeStringGuard", ok3 && ret3 && lim3 == "65535")
		// C06: WriteTime refuses an encoding that is not 16 bytes long
		wt := f.funcDecl("pkg/encoding/objline/scalar.go", "", "WriteTime")
		wtg := false
		if wt != nil {
			ast.Inspect(wt.Body, func(n ast.Node) bool {
				if is, ok := n.(*ast.IfStmt); ok && f.src(is.Cond) == "len(b) != 16" {
					for _, st := range is.Body.List {
						if _, ok := st.(*ast.ReturnStmt); ok {
							wtg = true
						}
					}
				}
				return true
			})
		}
		f.boolFact("writeTimeGuard", wtg)
		// C15: the ref filter compares the literal prefix (no LIKE)
		fq := f.funcDecl("pkg/ref/sql/store.go", "", "filterQuery")
		usesLike, usesSubstr := false, false
		if fq != nil {
			ast.Inspect(fq.Body, func(n ast.Node) bool {
				if bl, ok := n.(*ast.BasicLit); ok && bl.Kind == token.STRING {
					if strings.Contains(strings.ToUpper(bl.Value), "LIKE") || strings.Contains(strings.ToUpper(bl.Value), "GLOB") {
						usesLike = true
					}
					if strings.Contains(bl.Value, "substr(name, 1, length(?))") {
						usesSubstr = true
					}
				}
				return true
			})
		}
		f.boolFact("refFilterIsLiteralPrefix", usesSubstr && !usesLike)
		// C08: enqueueWants walks through commits listed for an earlier want while within the depth
		ew := f.funcDecl("pkg/api/utils/closed_sets_finder.go", "ClosedSetsFinder", "enqueueWants")
		revisit := false
		if ew != nil {
			ast.Inspect(ew.Body, func(n ast.Node) bool {
				if is, ok := n.(*ast.IfStmt); ok && f.src(is.Cond) == "seen && (f.depth == 0 || cd.depth >= f.depth)" {
					revisit = true
				}
				return true
			})
		}
		f.boolFact("finderRevisitsWithinDepth", revisit)
		// C12: every sort.Search result in pruneTables is compared with the key before it is used as an index
		pt := f.funcDecl("pkg/prune/prune.go", "", "pruneTables")
		searches, guards := 0, 0
		if pt != nil {
			ast.Inspect(pt.Body, func(n ast.Node) bool {
				switch x := n.(type) {
				case *ast.CallExpr:
					if f.src(x.Fun) == "sort.Search" {
						searches++
					}
				case *ast.IfStmt:
					c := f.src(x.Cond)
					if strings.Contains(c, "< len(") && strings.Contains(c, "==") {
						guards++
					}
				}
				return true
			})
		}
		f.boolFact("pruneSearchChecked", searches > 0 && guards >= searches)
		// C12: the mark phase starts from EVERY ref (heads, tags, remotes, transactions)
		fcr := f.funcDecl("pkg/prune/prune.go", "", "findCommitsToRemove")
		allRefs := false
		if fcr != nil {
			ast.Inspect(fcr.Body, func(n ast.Node) bool {
				if c, ok := n.(*ast.CallExpr); ok && f.src(c.Fun) == "ref.ListAllRefs" {
					allRefs = true
				}
				if c, ok := n.(*ast.CallExpr); ok && (f.src(c.Fun) == "ref.ListLocalRefs" || f.src(c.Fun) == "ref.ListHeads") {
					allRefs = false
				}
				return true
			})
		}
		f.boolFact("pruneRootsAreAllRefs", allRefs)
		// C15: the prefix that removes a remote's refs ends at a path boundary ("remotes/<r>/")
		dar := f.funcDecl("pkg/ref/refs.go", "", "DeleteAllRemoteRefs")
		boundary := false
		if dar != nil {
			ast.Inspect(dar.Body, func(n ast.Node) bool {
				if c, ok := n.(*ast.CallExpr); ok && strings.HasSuffix(f.src(c.Fun), ".FilterKey") && len(c.Args) >= 1 {
					boundary = strings.Contains(f.src(c.Args[0]), "RemoteRef(remote, \"\")")
				}
				return true
			})
		}
		rr := f.funcDecl("pkg/ref/refs.go", "", "RemoteRef")
		rrOK := rr != nil && strings.Contains(f.src(rr.Body), "\"%s%s/%s\"")
		f.boolFact("remoteRefsPrefixEndsWithSlash", boundary && rrOK)
		// C14: transaction.Commit refuses a committed transaction and skips branches it already moved;
		// Discard checks the status before deleting staged refs
		tc := f.funcDecl("pkg/transaction/transaction.go", "", "Commit")
		statusCheck, skipApplied := false, false
		if tc != nil {
			ast.Inspect(tc.Body, func(n ast.Node) bool {
				if is, ok := n.(*ast.IfStmt); ok {
					c := f.src(is.Cond)
					if c == "tx.Status == ref.TSCommitted" {
						for _, st := range is.Body.List {
							if _, ok := st.(*ast.ReturnStmt); ok {
								statusCheck = true
							}
						}
					}
					if is.Init != nil && strings.Contains(f.src(is.Init), "applied[ref.HeadRef(branch)]") {
						for _, st := range is.Body.List {
							if bs, ok := st.(*ast.BranchStmt); ok && bs.Tok == token.CONTINUE {
								skipApplied = true
							}
						}
					}
				}
				return true
			})
		}
		f.boolFact("txCommitGuarded", statusCheck && skipApplied)
		td := f.funcDecl("pkg/transaction/transaction.go", "", "Discard")
		guardFirst := false
		if td != nil && td.Body != nil {
			// the status check must come before the call that deletes the staged refs
			sawCheck := false
			for _, st := range td.Body.List {
				src := f.src(st)
				if strings.Contains(src, "tx.Status == ref.TSCommitted") {
					sawCheck = true
				}
				if strings.Contains(src, "DeleteTransactionRefs") {
					guardFirst = sawCheck
					break
				}
			}
		}
		f.boolFact("txDiscardGuardFirst", guardFirst)
		// C16: every access to the shared accumulators of the ingest worker pool lies inside the mutex,
		// and the error channel has room for every worker
		ib := f.funcDecl("pkg/ingest/inserter.go", "Inserter", "insertBlock")
		guardedAll, sawShared := true, false
		if ib != nil {
			ast.Inspect(ib.Body, func(n ast.Node) bool {
				bl, ok := n.(*ast.BlockStmt)
				if !ok {
					return true
				}
				depth := 0
				for _, st := range bl.List {
					src := f.src(st)
					if _, isFor := st.(*ast.RangeStmt); isFor {
						continue // inspected separately (its body is another block)
					}
					if strings.HasPrefix(src, "i.mutex.Lock()") {
						depth++
						continue
					}
					if strings.HasPrefix(src, "i.mutex.Unlock()") {
						depth--
						continue
					}
					if strings.Contains(src, "i.rowsCount") || strings.Contains(src, "i.asyncBlocks") {
						sawShared = true
						if depth <= 0 && !strings.Contains(src, "atomic.") {
							guardedAll = false
						}
					}
				}
				return true
			})
		}
		f.boolFact("ingestSharedAccessGuarded", sawShared && guardedAll)
		itb := f.funcDecl("pkg/ingest/inserter.go", "Inserter", "ingestTableFromBlocks")
		capOK := false
		if itb != nil {
			ast.Inspect(itb.Body, func(n ast.Node) bool {
				if c, ok := n.(*ast.CallExpr); ok && f.src(c.Fun) == "make" && len(c.Args) == 2 && f.src(c.Args[0]) == "chan error" {
					capOK = f.src(c.Args[1]) == "i.numWorkers"
				}
				return true
			})
		}
		f.boolFact("ingestErrChanHoldsAllWorkers", capOK)
		// C16: the merger's shared error channel has room for one error per differ goroutine
		nm := f.funcDecl("pkg/merge/merger.go", "", "NewMerger")
		mcap := false
		if nm != nil {
			ast.Inspect(nm.Body, func(n ast.Node) bool {
				if c, ok := n.(*ast.CallExpr); ok && f.src(c.Fun) == "make" && len(c.Args) == 2 && f.src(c.Args[0]) == "chan error" {
					a := f.src(c.Args[1])
					// senders: one per differ, mergeTables, the collector
					mcap = a == "len(otherTs)+2" || a == "len(otherTs) + 2" || a == "len(otherTs)+3" || a == "len(otherTs) + 3"
				}
				return true
			})
		}
		f.boolFact("mergeErrChanHoldsAllDiffers", mcap)
		// C01/C06: the pre-allocation cap (maxPrealloc) only sizes slices; a variable clamped to it never
		// bounds a read loop (which would silently truncate objects with more elements than the cap)
		capOnly, sawClamp := true, false
		for _, rel := range []string{"pkg/objects/table.go", "pkg/objects/block.go", "pkg/objects/str_list.go", "pkg/objects/uint_list.go",
			"pkg/objects/float_list.go", "pkg/objects/value_counts.go", "pkg/objects/table_profile.go", "pkg/objects/block_index.go"} {
			af := f.file(rel)
			if af == nil {
				continue
			}
			for _, d := range af.Decls {
				fd, ok := d.(*ast.FuncDecl)
				if !ok || fd.Body == nil {
					continue
				}
				clamped := map[string]bool{}
				ast.Inspect(fd.Body, func(n ast.Node) bool {
					is, ok := n.(*ast.IfStmt)
					if !ok || !strings.Contains(f.src(is.Cond), "maxPrealloc") {
						return true
					}
					for _, st := range is.Body.List {
						if as, ok := st.(*ast.AssignStmt); ok {
							for _, l := range as.Lhs {
								clamped[f.src(l)] = true
								sawClamp = true
							}
						}
					}
					return true
				})
				if len(clamped) == 0 {
					continue
				}
				ast.Inspect(fd.Body, func(n ast.Node) bool {
					fs, ok := n.(*ast.ForStmt)
					if !ok || fs.Cond == nil {
						return true
					}
					ast.Inspect(fs.Cond, func(m ast.Node) bool {
						if id, ok := m.(*ast.Ident); ok && clamped[id.Name] {
							capOnly = false
						}
						return true
					})
					return true
				})
			}
		}
		f.boolFact("preallocCapNeverBoundsLoops", sawClamp && capOnly)
		// C06: packfile header bit count
		eh := f.funcDecl("pkg/encoding/packfile/packfile.go", "", "encodeObjTypeAndLen")
		bt := f.declType(eh, "bits")
		f.boolFact("hdrBitsExact", bt == "expr:mbits.Len64(u)" || bt == "expr:bits.Len64(u)")
	})
}

// readModeOf classifies how a function consumes its reader: "single" if it calls <recv>.Read(...)
// for one of the given receiver expressions, else "full" if it calls io.ReadFull / io.ReadAll.
func (f *Facts) readModeOf(fd *ast.FuncDecl, recvs []string) string {
	if fd == nil {
		return "unknown"
	}
	single, full := false, false
	ast.Inspect(fd.Body, func(n ast.Node) bool {
		c, ok := n.(*ast.CallExpr)
		if !ok {
			return true
		}
		fn := f.src(c.Fun)
		if fn == "io.ReadFull" || fn == "io.ReadAll" {
			full = true
		}
		if se, ok := c.Fun.(*ast.SelectorExpr); ok && se.Sel.Name == "Read" {
			x := f.src(se.X)
			for _, r := range recvs {
				if x == r {
					single = true
				}
			}
		}
		return true
	})
	if single {
		return "single"
	}
	if full {
		return "full"
	}
	return "unknown"
}

func init() {
	extra = append(extra, func(f *Facts) {
		type site struct {
			name, file, recv, fn string
			readers          []string
		}
		sites := []site{
			{"packVersion", "pkg/encoding/packfile/packfile.go", "PackfileReader", "readVersion", []string{"r.r"}},
			{"packHeader", "pkg/encoding/packfile/packfile.go", "", "decodeObjTypeAndLen", []string{"r"}},
			{"packBody", "pkg/encoding/packfile/packfile.go", "PackfileReader", "ReadObject", []string{}},
			{"parserNext", "pkg/encoding/parser.go", "Parser", "NextBytes", []string{"r"}},
			{"objlineBytes", "pkg/encoding/objline/field.go", "", "ReadBytes", []string{"p"}},
			{"tableBlock", "pkg/objects/table.go", "Table", "readBlock", []string{"r"}},
			{"blkIdx", "pkg/objects/block_index.go", "BlockIndex", "ReadFrom", []string{"r"}},
			{"uintList", "pkg/objects/uint_list.go", "UintListDecoder", "readUint32", []string{"r"}},
			{"floatList", "pkg/objects/float_list.go", "FloatListDecoder", "readFloat64", []string{"r"}},
			{"blockCount", "pkg/objects/block.go", "", "ReadBlockFrom", []string{"r"}},
		}
		var singles, unknown []string
		for _, s := range sites {
			m := f.readModeOf(f.funcDecl(s.file, s.recv, s.fn), s.readers)
			if s.name == "packBody" && m == "unknown" {
				// the body is read in an explicit loop on the byte count (older code) — that is "full"
				m = "full"
			}
			switch m {
			case "single":
				singles = append(singles, s.name)
			case "unknown":
				unknown = append(unknown, s.name)
				f.errs = append(f.errs, "read mode of "+s.name+" cannot be determined")
			}
		}
		f.emit("readModeSingleSites", "List String", leanStrList(singles), singles)
	})
}

// callOrder returns, in source order, which of the given call expressions (printed Fun) occur in fd.
func (f *Facts) callOrder(fd *ast.FuncDecl, names map[string]string) []string {
	type hit struct {
		pos  token.Pos
		name string
	}
	var hits []hit
	if fd == nil {
		return nil
	}
	ast.Inspect(fd.Body, func(n ast.Node) bool {
		if c, ok := n.(*ast.CallExpr); ok {
			if label, ok := names[f.src(c.Fun)]; ok {
				hits = append(hits, hit{c.Pos(), label})
			}
		}
		return true
	})
	// stable by position
	for i := 1; i < len(hits); i++ {
		for j := i; j > 0 && hits[j].pos < hits[j-1].pos; j-- {
			hits[j], hits[j-1] = hits[j-1], hits[j]
		}
	}
	var out []string
	seen := map[string]bool{}
	for _, h := range hits {
		if !seen[h.name] {
			seen[h.name] = true
			out = append(out, h.name)
		}
	}
	return out
}

func (f *Facts) strListFact(name string, l []string) {
	f.emit(name, "List String", leanStrList(l), l)
}

func init() {
	extra = append(extra, func(f *Facts) {
		// C13: order of store writes in each operation (source order of the calls)
		f.strListFact("writeOrderInsertBlock", f.callOrder(f.funcDecl("pkg/ingest/inserter.go", "Inserter", "insertBlock"),
			map[string]string{"objects.SaveBlock": "blk", "objects.SaveBlockIndex": "blkidx"}))
		f.strListFact("writeOrderIngest", f.callOrder(f.funcDecl("pkg/ingest/inserter.go", "Inserter", "ingestTableFromBlocks"),
			map[string]string{"i.wg.Wait": "blocks", "objects.SaveTable": "tbl", "objects.SaveTableIndex": "tblidx", "objects.SaveTableProfile": "tblsum"}))
		f.strListFact("writeOrderReceiveTable", f.callOrder(f.funcDecl("pkg/api/utils/object_receiver.go", "ObjectReceiver", "saveTable"),
			map[string]string{"objects.SaveTable": "tbl", "ingest.IndexTable": "index", "ingest.ProfileTable": "tblsum"}))
		f.strListFact("writeOrderIndexTable", f.callOrder(f.funcDecl("pkg/ingest/index.go", "", "IndexTable"),
			map[string]string{"objects.SaveBlockIndex": "blkidx", "objects.SaveTableIndex": "tblidx"}))
		f.strListFact("writeOrderCommitCmd", f.callOrder(f.funcDecl("cmd/wrgl/commit_cmd.go", "", "commit"),
			map[string]string{"ingestTable": "table", "objects.SaveCommit": "com", "saveHead": "ref"}))
		f.strListFact("writeOrderMergeCommit", f.callOrder(f.funcDecl("cmd/wrgl/merge_cmd.go", "", "createMergeCommit"),
			map[string]string{"objects.SaveCommit": "com", "ref.CommitMerge": "ref"}))
		f.strListFact("writeOrderMergeResult", f.callOrder(f.funcDecl("cmd/wrgl/merge_cmd.go", "", "commitMergeResult"),
			map[string]string{"ingest.IngestTableFromBlocks": "table", "ingest.ProfileTable": "tblsum", "createMergeCommit": "commit"}))
		f.strListFact("writeOrderPrune", f.callOrder(f.funcDecl("pkg/prune/prune.go", "", "Prune"),
			map[string]string{"pruneTables": "tables", "objects.DeleteBlock": "blk", "objects.DeleteBlockIndex": "blkidx", "objects.DeleteCommit": "com"}))
		f.strListFact("writeOrderTxCommit", f.callOrder(f.funcDecl("pkg/transaction/transaction.go", "", "Commit"),
			map[string]string{"objects.SaveCommit": "com", "ref.SaveRef": "ref", "rs.UpdateTransaction": "status"}))
	})
}
