package main

func extractAll(f *Facts) {
	f.constInt("pkg/objects/block.go", "BlockSize", "blockSize")
}
