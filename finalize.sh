#!/bin/sh
# Re-run every registered quick check against /repo (seed 1), regenerate MANIFEST.json, the
# inventory and the seeded matrix in DESIGN.md, and validate the interface files against their schemas.
cd "$(dirname "$0")"
fail=0
for i in $(seq -w 1 20); do
  ./check C$i quick > .build/final-C$i.log 2>&1 || { echo "C$i: exit non-zero"; fail=1; }
  grep "^\[check\] C$i" .build/final-C$i.log | tail -1
  grep -c "^KNOWN-FINDING" .build/final-C$i.log | sed "s/^/   known-finding lines: /"
  grep "^VIOLATION" .build/final-C$i.log
done
python3 gen_manifest.py > /dev/null
python3 gen_inventory.py > /dev/null 2>&1
python3 seeded/matrix.py > /dev/null
python3-vt - <<'PY'
import json, jsonschema, glob
jsonschema.validate(json.load(open('MANIFEST.json')), json.load(open('/root/.vp/MANIFEST.schema.json')))
es = json.load(open('/root/.vp/EVIDENCE.schema.json'))
for f in sorted(glob.glob('evidence/C*.json')):
    jsonschema.validate(json.load(open(f)), es)
print("schemas ok:", len(glob.glob('evidence/C*.json')), "evidence files")
PY
exit $fail
