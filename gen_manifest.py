#!/usr/bin/env python3
"""Regenerates MANIFEST.json from props_config.PROPS (only properties with registered=True are claimed)."""
import json, os, sys
ROOT = os.path.dirname(os.path.abspath(__file__))
sys.path.insert(0, ROOT)
from props_config import PROPS

ALL = [json.loads(l)["id"] for l in open(os.path.join(ROOT, "properties.jsonl"))]
checks, na = [], []
for pid in ALL:
    c = PROPS.get(pid)
    if c and c.get("registered"):
        checks.append(dict(
            property_id=pid,
            quick_cmd="./check %s quick" % pid,
            thorough_cmd="./check %s thorough" % pid,
            evidence_file="/verif/evidence/%s.json" % pid,
            replay_cmd_template="./check replay {path}",
            engine="lean4-model+correspondence",
            level_claimed=dict(category="proof", text=c["level_text"], design_ref=c.get("design_ref", "DESIGN.md section 8 " + pid)),
            level_note=c["level_note"],
            technique=c.get("technique", "Lean 4 theorems about an executable model of the code; model tied to /repo by regenerated go/ast facts and differential correspondence (Go harness vs compiled Lean driver)"),
        ))
    else:
        na.append(dict(property_id=pid, reason=(c or {}).get("na_reason", "not claimed: no check for this property has been built and validated yet (see DESIGN.md)")))
m = dict(
    version=1,
    setup_cmd="./check setup",
    hooks=dict(guard="verif", enable="go build -tags verif (the harness module replaces github.com/wrgl/wrgl with /repo)",
               baseline_off_cmd="cd /repo && go test -mod=mod -json -vet=off -count=1 -timeout 25m ./...",
               source_commits=json.load(open(os.path.join(ROOT, "hooks.json")))["source_commits"] if os.path.exists(os.path.join(ROOT, "hooks.json")) else [],
               add_only=True),
    engines=[dict(name="lean4-model+correspondence", path="/verif/check",
                  serves_properties=[c["property_id"] for c in checks],
                  kind_free_text="Lean 4.33 kernel-checked theorems about hand-written executable models (lean/WrglModel), go/ast fact extractor (extract/), Go differential harness (harness/) piping cases to the compiled Lean driver")],
    checks=checks,
    notes="All claimed properties are decided by ./check (see DESIGN.md). Known findings: known_findings.json.",
    not_applicable=na,
)
json.dump(m, open(os.path.join(ROOT, "MANIFEST.json"), "w"), indent=1)
print("claimed:", [c["property_id"] for c in checks])
