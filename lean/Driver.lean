/-
`wrgl_model`: reads one JSON case per line (as written by the Go harness), runs the Lean model and
evaluates the Lean property predicate on the implementation's output. Core-only imports.
-/
import WrglModel.Driver.C11
import WrglModel.Driver.C04
import WrglModel.Driver.C06
import WrglModel.Driver.C19
import WrglModel.Driver.C01
import WrglModel.Driver.C20
import WrglModel.Driver.C15
import WrglModel.Driver.C17
import WrglModel.Driver.C05
import WrglModel.Driver.C08
import WrglModel.Driver.C07
import WrglModel.Driver.C12
import WrglModel.Driver.C14
import WrglModel.Driver.C13
import WrglModel.Driver.C16
import WrglModel.Driver.C09
open Lean Wrgl.Drv

def dispatch (prop op : String) (input impl : Json) : Except String Json :=
  match prop with
  | "C11" => handleC11 op input impl
  | "C04" => handleC04 op input impl
  | "C06" => handleC06 op input impl
  | "C19" => handleC19 op input impl
  | "C01" => handleC01 op input impl
  | "C02" => handleC02 op input impl
  | "C03" => handleC03 op input impl
  | "C20" => handleC20 op input impl
  | "C15" => handleC15 op input impl
  | "C17" => handleC17 op input impl
  | "C05" => handleC05 op input impl
  | "C08" => handleC08 op input impl
  | "C07" => handleC07 op input impl
  | "C12" => handleC12 op input impl
  | "C14" => handleC14 op input impl
  | "C13" => handleC13 op input impl
  | "C16" => handleC16 op input impl
  | "C09" => handleC09 op input impl
  | "C10" => handleC10 op input impl
  | "C18" => handleC18 op input impl
  | _ => .error s!"unknown property {prop}"

def handleLine (line : String) : Json :=
  match Json.parse line with
  | .error e => Json.mkObj [("error", Json.str s!"parse: {e}")]
  | .ok j =>
    let id := fldD j "id" Json.null
    match (do
      let prop ← strFld j "prop"
      let op ← strFld j "op"
      let input ← fld j "input"
      let impl ← fld j "impl"
      dispatch prop op input impl) with
    | .ok r => r.setObjVal! "id" id
    | .error e => Json.mkObj [("id", id), ("error", Json.str e)]

partial def loop (hin : IO.FS.Stream) (hout : IO.FS.Stream) : IO Unit := do
  let line ← hin.getLine
  if line.isEmpty then return ()
  let t := line.trimAscii.toString
  if t.isEmpty then loop hin hout else
  hout.putStrLn (handleLine t).compress
  loop hin hout

def main : IO Unit := do
  let hin ← IO.getStdin
  let hout ← IO.getStdout
  loop hin hout
  hout.flush
