/-
Map laws of the object store model (Model/ObjStore.lean): what a save binds is what a read returns,
whatever the key held before; other keys are untouched; saving the same content again changes nothing.
-/
import WrglModel.Model.ObjStore
namespace Wrgl
namespace ObjStore

theorem get_del_same (s : ObjStore) (k : Bytes) : (s.del k).get k = none := by
  induction s with
  | nil => rfl
  | cons e rest ih =>
    obtain ⟨k', v⟩ := e
    cases h : (k' == k) with
    | true => simpa [del, h] using ih
    | false => simpa [del, get, h] using ih

theorem get_del_other (s : ObjStore) (k k' : Bytes) (hne : k' ≠ k) : (s.del k).get k' = s.get k' := by
  induction s with
  | nil => rfl
  | cons e rest ih =>
    obtain ⟨k0, v⟩ := e
    cases h : (k0 == k) with
    | true =>
      have hk0 : k0 = k := by simpa using h
      have h2 : (k0 == k') = false := by
        cases h3 : (k0 == k') with
        | false => rfl
        | true =>
          have : k0 = k' := by simpa using h3
          exact absurd (this ▸ hk0) hne
      simpa [del, get, h, h2] using ih
    | false =>
      cases h2 : (k0 == k') with
      | true => simp [del, get, h, h2]
      | false => simpa [del, get, h, h2] using ih

theorem get_set_same (s : ObjStore) (k v : Bytes) : (s.set k v).get k = some v := by
  simp [set, get]

theorem get_set_other (s : ObjStore) (k v k' : Bytes) (hne : k' ≠ k) : (s.set k v).get k' = s.get k' := by
  have h2 : (k == k') = false := by
    cases h3 : (k == k') with
    | false => rfl
    | true =>
      have : k = k' := by simpa using h3
      exact absurd this.symm hne
  simpa [set, get, h2] using get_del_other s k k' hne

theorem del_del (s : ObjStore) (k : Bytes) : (s.del k).del k = s.del k := by
  induction s with
  | nil => rfl
  | cons e rest ih =>
    obtain ⟨k', v⟩ := e
    cases h : (k' == k) with
    | true => simpa [del, h] using ih
    | false => simpa [del, h] using ih

theorem set_set_same (s : ObjStore) (k v : Bytes) : (s.set k v).set k v = s.set k v := by
  simp [set, del, del_del]

/-- no key is bound twice -/
theorem not_mem_keys_del (s : ObjStore) (k : Bytes) : k ∉ (s.del k).keys := by
  induction s with
  | nil => simp [del, keys]
  | cons e rest ih =>
    obtain ⟨k', v⟩ := e
    cases h : (k' == k) with
    | true => simpa [del, h] using ih
    | false =>
      have hne : k ≠ k' := by
        intro he
        rw [he] at h
        simp at h
      have ih' : k ∉ List.map (·.1) (del rest k) := ih
      simp only [del, h, keys, List.map_cons, List.mem_cons, not_or, Bool.false_eq_true, if_false]
      exact ⟨hne, ih'⟩

theorem keys_del_sublist (s : ObjStore) (k : Bytes) : (s.del k).keys.Sublist s.keys := by
  induction s with
  | nil => simp [del, keys]
  | cons e rest ih =>
    obtain ⟨k', v⟩ := e
    have ih' : (List.map (·.1) (del rest k)).Sublist (List.map (·.1) rest) := ih
    cases h : (k' == k) with
    | true =>
      simp only [del, h, if_true, keys, List.map_cons]
      exact List.Sublist.cons _ ih'
    | false =>
      simp only [del, h, keys, List.map_cons, Bool.false_eq_true, if_false]
      exact List.Sublist.cons_cons _ ih'

theorem nodup_del (s : ObjStore) (k : Bytes) (h : s.keys.Nodup) : (s.del k).keys.Nodup :=
  List.Sublist.nodup (keys_del_sublist s k) h

theorem nodup_set (s : ObjStore) (k v : Bytes) (h : s.keys.Nodup) : (s.set k v).keys.Nodup := by
  have h1 := not_mem_keys_del s k
  have h2 := nodup_del s k h
  simp only [keys] at h1 h2
  simp only [set, keys, List.map_cons, List.nodup_cons]
  exact ⟨h1, h2⟩

end ObjStore

theorem storeStep_nodup (H : Bytes → Bytes) (s : ObjStore) (op : StoreOp) (h : s.keys.Nodup) :
    (storeStep H s op).keys.Nodup := by
  cases op with
  | save kind sum content => exact ObjStore.nodup_set s _ _ h
  | delete kind sum => exact ObjStore.nodup_del s _ h

theorem storeRun_nodup (H : Bytes → Bytes) (ops : List StoreOp) (s : ObjStore) (h : s.keys.Nodup) :
    (storeRun H s ops).keys.Nodup := by
  induction ops generalizing s with
  | nil => exact h
  | cons op rest ih => exact ih (storeStep H s op) (storeStep_nodup H s op h)

/-! the transactional store: a read through the transaction is a read of the plain store after the same calls -/

theorem txnStep_view (H : Bytes → Bytes) (t : TxnStore) (op : TxnOp) :
    (txnStep H t op).view H = match op with
      | .op o => storeStep H (t.view H) o
      | .commit => t.view H := by
  cases op with
  | op o => simp [txnStep, TxnStore.view]
  | commit => simp [txnStep, TxnStore.view]

theorem txnRun_view (H : Bytes → Bytes) (ops : List TxnOp) (t : TxnStore) :
    (txnRun H t ops).view H = storeRun H (t.view H) (TxnOp.storeOps ops) := by
  induction ops generalizing t with
  | nil => rfl
  | cons op rest ih =>
    have h := ih (txnStep H t op)
    rw [txnStep_view] at h
    cases op with
    | op o => simpa [txnRun, storeRun, TxnOp.storeOps] using h
    | commit => simpa [txnRun, storeRun, TxnOp.storeOps] using h

theorem txnStep_op_base (H : Bytes → Bytes) (t : TxnStore) (o : StoreOp) : (txnStep H t (.op o)).base = t.base := rfl

theorem txnStep_commit_base (H : Bytes → Bytes) (t : TxnStore) : (txnStep H t .commit).base = t.view H := rfl

end Wrgl
