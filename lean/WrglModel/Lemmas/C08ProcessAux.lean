/-
Auxiliary lemmas for `process_accepts_reachable` / `process_ok_sound` (C08Process):
* no function called by `Finder.process` answers "unrecognized-wants" by itself;
* `popUntil`, `ensureWants`, `findCommons` under the multi-start queue invariant `C11MultiAux.MInv`.
-/
import WrglModel.Model.Finder
import WrglModel.Spec.Graph
import WrglModel.Lemmas.C11MultiAux
namespace Wrgl
namespace C08ProcessAux
open C11MultiAux

/-! ### the callees never answer "unrecognized-wants" -/

/-- "not the unrecognized-wants error" -/
def NU {α : Type} (r : Res α) : Prop := r ≠ .err "unrecognized-wants"

theorem nu_ok {α : Type} (a : α) : NU (Res.ok a) := by simp [NU]
theorem nu_panic {α : Type} (s : String) : NU (Res.panic s : Res α) := by simp [NU]
theorem nu_fuel {α : Type} : NU (Res.err "fuel" : Res α) := by simp [NU]
theorem nu_missing {α : Type} : NU (Res.err "missing-commit" : Res α) := by simp [NU]
theorem nu_err_of {α β : Type} {e : String} (h : NU (Res.err e : Res α)) : NU (Res.err e : Res β) := by
  simp only [NU, ne_eq, Res.err.injEq] at h ⊢
  exact h

theorem insert_nu (g : Graph) (q : Q) (p : Nat) : NU (Q.insert g q p) := by
  unfold Q.insert
  split
  · exact nu_ok _
  · split
    · exact nu_missing
    · exact nu_ok _

theorem insertAll_nu (g : Graph) : ∀ (ps : List Nat) (q : Q), NU (Q.insertAll g q ps) := by
  intro ps
  induction ps with
  | nil => intro q; exact nu_ok _
  | cons p ps ih =>
    intro q
    simp only [Q.insertAll]
    have := insert_nu g q p
    split
    · exact ih _
    · rename_i e he; rw [he] at this; exact this
    · exact nu_panic _

theorem pop_nu (g : Graph) (q : Q) : NU (Q.popInsertParents g q) := by
  unfold Q.popInsertParents
  split
  · exact nu_ok _
  · split
    · exact nu_missing
    · rename_i c _
      have := insertAll_nu g c.parents { q with items := ‹List (Nat × Int)› }
      split
      · exact nu_ok _
      · rename_i e he; rw [he] at this; exact nu_err_of this
      · exact nu_panic _

theorem popUntil_nu (g : Graph) (b : Nat) : ∀ (fuel : Nat) (q : Q), NU (popUntil g b fuel q) := by
  intro fuel
  induction fuel with
  | zero => intro q; simp only [popUntil]; exact nu_fuel
  | succ fuel ih =>
    intro q
    simp only [popUntil]
    have := pop_nu g q
    split
    · exact nu_ok _
    · split
      · exact nu_ok _
      · exact ih _
    · rename_i e he; rw [he] at this; exact nu_err_of this
    · exact nu_panic _

theorem markAncestors_nu (g : Graph) : ∀ (fuel : Nat) (st anc : List Nat), NU (markAncestors g fuel st anc) := by
  intro fuel
  induction fuel with
  | zero => intro st anc; simp only [markAncestors]; exact nu_fuel
  | succ fuel ih =>
    intro st anc
    cases st with
    | nil => simp only [markAncestors]; exact nu_ok _
    | cons s rest =>
      simp only [markAncestors]
      split
      · exact ih _ _
      · split
        · exact nu_missing
        · exact ih _ _

theorem findCommons_nu (g : Graph) (fuel : Nat) :
    ∀ (hs : List Nat) (q : Q) (anc commons : List Nat), NU (findCommons g fuel q hs anc commons) := by
  intro hs
  induction hs with
  | nil => intro q anc commons; simp only [findCommons]; exact nu_ok _
  | cons h hs ih =>
    intro q anc commons
    simp only [findCommons]
    have hm := markAncestors_nu g (fuel * fuel + fuel + 2) [h] anc
    split
    · exact ih _ _ _
    · split
      · split
        · exact ih _ _ _
        · rename_i e he; rw [he] at hm; exact nu_err_of hm
        · exact nu_panic _
      · have hp := popUntil_nu g h fuel q
        split
        · exact nu_ok _
        · split
          · exact ih _ _ _
          · rename_i e he; rw [he] at hm; exact nu_err_of hm
          · exact nu_panic _
        · rename_i e he; rw [he] at hp; exact nu_err_of hp
        · exact nu_panic _

theorem walkWant_nu (revisit : Bool) (g : Graph) (commons seenBefore : List Nat) (depth : Nat) (stop : Bool) :
    ∀ (fuel : Nat) (st : List (Nat × Nat)) (cl tl sums : List Nat) (steps : Nat),
      NU (walkWant revisit g commons seenBefore depth stop fuel st cl tl sums steps) := by
  intro fuel
  induction fuel with
  | zero => intro st cl tl sums steps; simp only [walkWant]; exact nu_fuel
  | succ fuel ih =>
    intro st cl tl sums steps
    cases st with
    | nil => simp only [walkWant]; exact nu_ok _
    | cons sd rest =>
      obtain ⟨s, d⟩ := sd
      simp only [walkWant]
      split
      · exact ih _ _ _ _ _
      · split
        · exact ih _ _ _ _ _
        · split
          · exact nu_missing
          · split
            · exact nu_ok _
            · exact ih _ _ _ _ _

theorem enqueueWants_nu (revisit : Bool) (g : Graph) (depth : Nat) (stop : Bool) (fuel : Nat) :
    ∀ (ws : List Nat) (f : Finder) (seenBefore pending : List Nat),
      NU (enqueueWants revisit g depth stop fuel ws f seenBefore pending) := by
  intro ws
  induction ws with
  | nil => intro f sb pending; simp only [enqueueWants]; exact nu_ok _
  | cons w ws ih =>
    intro f sb pending
    simp only [enqueueWants]
    have hw := walkWant_nu revisit g f.commons sb depth stop fuel [(w, 0)] [] [] [] 0
    split
    · exact ih _ _ _
    · exact ih _ _ _
    · rename_i e he; rw [he] at hw; exact nu_err_of hw
    · exact nu_panic _

/-! ### `popUntil` under the queue invariant -/

theorem popUntil_spec {g : Graph} {sums : List Nat} (hwf : g.wf = true) (b : Nat) :
    ∀ (fuel : Nat) (q : Q) (popped : List Nat), MInv g sums q popped →
      g.length + 1 ≤ fuel + popped.length →
      (∃ q' popped', popUntil g b fuel q = .ok (some b, q') ∧ MInv g sums q' popped' ∧ b ∈ popped') ∨
      (∃ q' popped', popUntil g b fuel q = .ok (none, q') ∧ MInv g sums q' popped' ∧ q'.items = [] ∧
        ∀ x ∈ popped', x ∈ popped ∨ x ≠ b) := by
  intro fuel
  induction fuel with
  | zero =>
    intro q popped h hf
    have := inv_bound h.toMInv0
    omega
  | succ fuel ih =>
    intro q popped h hf
    rcases pop_step hwf h with ⟨he, e⟩ | ⟨id, q', e, h', hlt⟩
    · right
      refine ⟨q, popped, ?_, h, he, fun x hx => Or.inl hx⟩
      simp only [popUntil, e]
    · by_cases hid : id = b
      · left
        subst hid
        refine ⟨q', id :: popped, ?_, h', by simp⟩
        simp only [popUntil, e, beq_self_eq_true, ↓reduceIte]
      · have hne : (id == b) = false := by simpa using hid
        rcases ih q' (id :: popped) h' (by simp only [List.length_cons]; omega) with
          ⟨q2, p2, e2, h2, m2⟩ | ⟨q2, p2, e2, h2, he2, m2⟩
        · left
          refine ⟨q2, p2, ?_, h2, m2⟩
          simp only [popUntil, e, hne, Bool.false_eq_true, ↓reduceIte]
          exact e2
        · right
          refine ⟨q2, p2, ?_, h2, he2, ?_⟩
          · simp only [popUntil, e, hne, Bool.false_eq_true, ↓reduceIte]
            exact e2
          · intro x hx
            rcases m2 x hx with h1 | h1
            · rcases List.mem_cons.1 h1 with rfl | h1
              · exact Or.inr hid
              · exact Or.inl h1
            · exact Or.inr h1

/-- completeness: a target that has not been seen yet is found before EOF -/
theorem popUntil_eof_not_tgt {g : Graph} {sums : List Nat} {q q' : Q} {popped popped' : List Nat} {b : Nat}
    (h : MInv g sums q popped) (h' : MInv g sums q' popped') (he : q'.items = [])
    (hm : ∀ x ∈ popped', x ∈ popped ∨ x ≠ b) (hns : b ∉ q.seen) : ¬ Tgt g sums b := by
  intro ht
  have hb : b ∈ popped' := (inv_eof h' he b).2 ht
  rcases hm b hb with h1 | h1
  · exact hns (h.popped_seen b h1)
  · exact h1 rfl

/-! ### `ensureWants` under the queue invariant -/

theorem ensureWants_spec {g : Graph} {sums : List Nat} (hwf : g.wf = true) (full : Full) (fuel : Nat)
    (hf : g.length + 1 ≤ fuel) :
    ∀ (ws : List Nat) (q : Q) (popped conf : List Nat), MInv g sums q popped →
      ∃ conf' q' popped', ensureWants g full fuel q ws conf = .ok (conf', q') ∧ MInv g sums q' popped' ∧
        (∀ c ∈ conf', c ∈ conf ∨ (full c = true ∧ Tgt g sums c)) ∧
        (∀ c ∈ conf, c ∈ conf') ∧
        ((∀ w ∈ ws, full w = true ∧ Tgt g sums w) → ∀ w ∈ ws, w ∈ conf') := by
  intro ws
  induction ws with
  | nil =>
    intro q popped conf h
    refine ⟨conf, q, popped, by simp only [ensureWants], h, fun c hc => Or.inl hc, fun c hc => hc, ?_⟩
    intro _ w hw; cases hw
  | cons w ws ih =>
    intro q popped conf h
    -- the common continuation once `w` is known to be a target
    have cont : ∀ (q1 : Q) (popped1 : List Nat), MInv g sums q1 popped1 → Tgt g sums w →
        ∃ conf' q' popped', ensureWants g full fuel q1 ws (if full w then w :: conf else conf) = .ok (conf', q') ∧
          MInv g sums q' popped' ∧
          (∀ c ∈ conf', c ∈ conf ∨ (full c = true ∧ Tgt g sums c)) ∧
          (∀ c ∈ conf, c ∈ conf') ∧
          ((∀ x ∈ w :: ws, full x = true ∧ Tgt g sums x) → ∀ x ∈ w :: ws, x ∈ conf') := by
      intro q1 popped1 h1 hw
      obtain ⟨conf', q', popped', e, h', a1, a2, a3⟩ := ih q1 popped1 (if full w then w :: conf else conf) h1
      refine ⟨conf', q', popped', e, h', ?_, ?_, ?_⟩
      · intro c hc
        rcases a1 c hc with hc1 | hc1
        · by_cases hfw : full w = true
          · simp only [hfw, ↓reduceIte] at hc1
            rcases List.mem_cons.1 hc1 with rfl | hc1
            · exact Or.inr ⟨hfw, hw⟩
            · exact Or.inl hc1
          · simp only [hfw] at hc1
            exact Or.inl hc1
        · exact Or.inr hc1
      · intro c hc
        apply a2
        by_cases hfw : full w = true
        · simp only [hfw, ↓reduceIte]; exact List.mem_cons_of_mem _ hc
        · simp only [hfw]; exact hc
      · intro hall x hx
        rcases List.mem_cons.1 hx with rfl | hx
        · apply a2
          have := (hall x (by simp)).1
          simp [this]
        · exact a3 (fun y hy => hall y (List.mem_cons_of_mem _ hy)) x hx
    by_cases hs : q.hasSeen w = true
    · have hws : w ∈ q.seen := by simpa [Q.hasSeen] using hs
      have hg := h.ing w hws
      cases hc : g.get? w with
      | none => simp [hc] at hg
      | some c =>
        obtain ⟨conf', q', popped', e, r⟩ := cont q popped h (h.reach w hws)
        refine ⟨conf', q', popped', ?_, r⟩
        simp only [ensureWants, hs, ↓reduceIte, hc]
        exact e
    · have hws : w ∉ q.seen := by simpa [Q.hasSeen] using hs
      rcases popUntil_spec hwf w fuel q popped h (by omega) with
        ⟨q1, p1, e1, h1, m1⟩ | ⟨q1, p1, e1, h1, he1, m1⟩
      · obtain ⟨conf', q', popped', e, r⟩ := cont q1 p1 h1 (h1.reach w (h1.popped_seen w m1))
        refine ⟨conf', q', popped', ?_, r⟩
        simp only [ensureWants, hs, Bool.false_eq_true, ↓reduceIte, e1]
        exact e
      · refine ⟨conf, q1, p1, ?_, h1, fun c hc => Or.inl hc, fun c hc => hc, ?_⟩
        · simp only [ensureWants, hs, Bool.false_eq_true, ↓reduceIte, e1]
        · intro hall
          exact absurd (hall w (by simp)).2 (popUntil_eof_not_tgt h h1 he1 m1 hws)

/-! ### `findCommons` under the queue invariant -/

theorem findCommons_spec {g : Graph} {sums : List Nat} (hwf : g.wf = true) (fuel : Nat)
    (hf : g.length + 1 ≤ fuel) :
    ∀ (hs : List Nat) (q : Q) (popped anc commons cs : List Nat), MInv g sums q popped →
      findCommons g fuel q hs anc commons = .ok cs →
      ∀ a ∈ cs, a ∈ commons ∨ (a ∈ hs ∧ Tgt g sums a) := by
  intro hs
  induction hs with
  | nil =>
    intro q popped anc commons cs _ e a ha
    simp only [findCommons, Res.ok.injEq] at e
    subst e
    exact Or.inl (List.mem_reverse.1 ha)
  | cons h hs ih =>
    intro q popped anc commons cs hi e a ha
    -- continuation: `h` is a target and the walk goes on with `h :: commons`
    have cont : ∀ (q1 : Q) (popped1 anc1 : List Nat), MInv g sums q1 popped1 → Tgt g sums h →
        findCommons g fuel q1 hs anc1 (h :: commons) = .ok cs →
        a ∈ commons ∨ (a ∈ h :: hs ∧ Tgt g sums a) := by
      intro q1 popped1 anc1 h1 ht e1
      rcases ih q1 popped1 anc1 (h :: commons) cs h1 e1 a ha with hc | ⟨hc, hta⟩
      · rcases List.mem_cons.1 hc with rfl | hc
        · exact Or.inr ⟨by simp, ht⟩
        · exact Or.inl hc
      · exact Or.inr ⟨List.mem_cons_of_mem _ hc, hta⟩
    simp only [findCommons] at e
    split at e
    · rcases ih q popped anc commons cs hi e a ha with hc | ⟨hc, hta⟩
      · exact Or.inl hc
      · exact Or.inr ⟨List.mem_cons_of_mem _ hc, hta⟩
    · split at e
      · rename_i hseen
        have hws : h ∈ q.seen := by simpa [Q.hasSeen] using hseen
        split at e
        · exact cont q popped _ hi (hi.reach h hws) e
        · cases e
        · cases e
      · rename_i hseen
        rcases popUntil_spec hwf h fuel q popped hi (by omega) with
          ⟨q1, p1, e1, h1, m1⟩ | ⟨q1, p1, e1, h1, he1, m1⟩
        · rw [e1] at e
          simp only at e
          split at e
          · exact cont q1 p1 _ h1 (h1.reach h (h1.popped_seen h m1)) e
          · cases e
          · cases e
        · rw [e1] at e
          simp only [Res.ok.injEq] at e
          subst e
          exact Or.inl (List.mem_reverse.1 ha)

end C08ProcessAux
end Wrgl
