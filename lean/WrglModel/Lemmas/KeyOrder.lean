/-
Order facts about `bytesCmp` / `keyCmp` / `keyLt` (both are lexicographic liftings), and the
`Kway.Order` instance for `rowLt pk`.
-/
import WrglModel.Model.Sorter
import WrglModel.Lemmas.Kway
namespace Wrgl.KeyOrder

/-- a three-way comparison that is a strict total order -/
structure GoodCmp {α : Type} (cmp : α → α → Ordering) : Prop where
  eq_iff : ∀ a b, cmp a b = .eq ↔ a = b
  lt_gt : ∀ a b, cmp a b = .lt ↔ cmp b a = .gt
  lt_trans : ∀ a b c, cmp a b = .lt → cmp b c = .lt → cmp a c = .lt

/-- lexicographic lifting; a proper prefix is less -/
def lexCmp {α : Type} (cmp : α → α → Ordering) : List α → List α → Ordering
  | [], [] => .eq
  | [], _ :: _ => .lt
  | _ :: _, [] => .gt
  | a :: as, b :: bs =>
    match cmp a b with
    | .lt => .lt
    | .gt => .gt
    | .eq => lexCmp cmp as bs

theorem GoodCmp.refl {α : Type} {cmp : α → α → Ordering} (h : GoodCmp cmp) (a : α) : cmp a a = .eq :=
  (h.eq_iff a a).2 rfl

theorem GoodCmp.gt_lt {α : Type} {cmp : α → α → Ordering} (h : GoodCmp cmp) (a b : α) :
    cmp a b = .gt ↔ cmp b a = .lt := (h.lt_gt b a).symm

theorem lexCmp_good {α : Type} {cmp : α → α → Ordering} (h : GoodCmp cmp) : GoodCmp (lexCmp cmp) where
  eq_iff := by
    intro a
    induction a with
    | nil => intro b; cases b <;> simp [lexCmp]
    | cons x xs ih =>
      intro b
      cases b with
      | nil => simp [lexCmp]
      | cons y ys =>
        simp only [lexCmp]
        cases hc : cmp x y with
        | lt =>
          have : x ≠ y := fun e => by rw [(h.eq_iff x y).2 e] at hc; cases hc
          simp [this]
        | gt =>
          have : x ≠ y := fun e => by rw [(h.eq_iff x y).2 e] at hc; cases hc
          simp [this]
        | eq =>
          have := (h.eq_iff x y).1 hc
          simp [this, ih ys]
  lt_gt := by
    intro a
    induction a with
    | nil => intro b; cases b <;> simp [lexCmp]
    | cons x xs ih =>
      intro b
      cases b with
      | nil => simp [lexCmp]
      | cons y ys =>
        simp only [lexCmp]
        cases hc : cmp x y with
        | lt => simp [(h.lt_gt x y).1 hc]
        | gt => simp [(h.gt_lt x y).1 hc]
        | eq =>
          have e := (h.eq_iff x y).1 hc
          subst e
          simp [hc, ih ys]
  lt_trans := by
    intro a
    induction a with
    | nil =>
      intro b c h1 h2
      cases b with
      | nil => simp [lexCmp] at h1
      | cons y ys =>
        cases c with
        | nil => simp [lexCmp] at h2
        | cons z zs => simp [lexCmp]
    | cons x xs ih =>
      intro b c h1 h2
      cases b with
      | nil => simp [lexCmp] at h1
      | cons y ys =>
        cases c with
        | nil => simp [lexCmp] at h2
        | cons z zs =>
          simp only [lexCmp] at h1 h2 ⊢
          cases hxy : cmp x y with
          | gt => simp [hxy] at h1
          | lt =>
            cases hyz : cmp y z with
            | gt => simp [hyz] at h2
            | lt => simp [h.lt_trans x y z hxy hyz]
            | eq =>
              have e := (h.eq_iff y z).1 hyz
              subst e
              simp [hxy]
          | eq =>
            have e := (h.eq_iff x y).1 hxy
            subst e
            cases hyz : cmp x z with
            | gt => simp [hyz] at h2
            | lt => simp
            | eq =>
              simp only [hxy] at h1
              simp only [hyz] at h2
              simp only
              exact ih ys zs h1 h2

/-- comparison of single bytes -/
def u8Cmp (a b : UInt8) : Ordering := if a < b then .lt else if b < a then .gt else .eq

theorem u8Cmp_good : GoodCmp u8Cmp where
  eq_iff := by
    intro a b
    unfold u8Cmp
    constructor
    · intro h
      split at h
      · cases h
      · split at h
        · cases h
        · rename_i h1 h2
          exact UInt8.le_antisymm (UInt8.not_lt.1 h2) (UInt8.not_lt.1 h1)
    · rintro rfl
      simp
  lt_gt := by
    intro a b
    unfold u8Cmp
    constructor
    · intro h
      split at h
      · rename_i h1
        simp [UInt8.lt_asymm h1, h1]
      · split at h <;> cases h
    · intro h
      split at h
      · cases h
      · split at h
        · rename_i h1; simp [h1]
        · cases h
  lt_trans := by
    intro a b c h1 h2
    unfold u8Cmp at *
    split at h1
    · split at h2
      · rename_i hab hbc
        simp [UInt8.lt_trans hab hbc]
      · split at h2 <;> cases h2
    · split at h1 <;> cases h1

theorem bytesCmp_eq_lex : ∀ a b : Bytes, bytesCmp a b = lexCmp u8Cmp a b
  | [], [] => rfl
  | [], _ :: _ => rfl
  | _ :: _, [] => rfl
  | a :: as, b :: bs => by
    simp only [bytesCmp, lexCmp, u8Cmp]
    split
    · rfl
    · split
      · rfl
      · exact bytesCmp_eq_lex as bs

theorem bytesCmp_good : GoodCmp bytesCmp := by
  have : bytesCmp = lexCmp u8Cmp := by funext a b; exact bytesCmp_eq_lex a b
  rw [this]; exact lexCmp_good u8Cmp_good

theorem keyCmp_eq_lex : ∀ a b : List Bytes, keyCmp a b = lexCmp bytesCmp a b
  | [], [] => rfl
  | [], _ :: _ => rfl
  | _ :: _, [] => rfl
  | a :: as, b :: bs => by
    simp only [keyCmp, lexCmp]
    cases bytesCmp a b with
    | lt => rfl
    | gt => rfl
    | eq => exact keyCmp_eq_lex as bs

theorem keyCmp_good : GoodCmp keyCmp := by
  have : keyCmp = lexCmp bytesCmp := by funext a b; exact keyCmp_eq_lex a b
  rw [this]; exact lexCmp_good bytesCmp_good

theorem keyCmp_eq_iff (a b : List Bytes) : keyCmp a b = .eq ↔ a = b := keyCmp_good.eq_iff a b
theorem keyCmp_lt_iff_gt (a b : List Bytes) : keyCmp a b = .lt ↔ keyCmp b a = .gt := keyCmp_good.lt_gt a b
theorem keyCmp_lt_trans (a b c : List Bytes) : keyCmp a b = .lt → keyCmp b c = .lt → keyCmp a c = .lt :=
  keyCmp_good.lt_trans a b c
theorem keyCmp_refl (a : List Bytes) : keyCmp a a = .eq := keyCmp_good.refl a

/-- `a ≤ b` and `a ≠ b` give `a < b` -/
theorem GoodCmp.lt_of_not_gt_of_ne {α : Type} {cmp : α → α → Ordering} (h : GoodCmp cmp) (a b : α)
    (hle : cmp b a ≠ .lt) (hne : a ≠ b) : cmp a b = .lt := by
  cases hc : cmp a b with
  | lt => rfl
  | eq => exact absurd ((h.eq_iff a b).1 hc) hne
  | gt => exact absurd ((h.gt_lt a b).1 hc) hle

/-- `a ≤ b`, `b < c` give `a < c` -/
theorem GoodCmp.lt_of_le_of_lt {α : Type} {cmp : α → α → Ordering} (h : GoodCmp cmp) (a b c : α)
    (hle : cmp b a ≠ .lt) (hlt : cmp b c = .lt) : cmp a c = .lt := by
  by_cases e : a = b
  · subst e; exact hlt
  · exact h.lt_trans a b c (h.lt_of_not_gt_of_ne a b hle e) hlt

theorem GoodCmp.le_trans {α : Type} {cmp : α → α → Ordering} (h : GoodCmp cmp) (a b c : α)
    (h1 : cmp b a ≠ .lt) (h2 : cmp c b ≠ .lt) : cmp c a ≠ .lt := by
  intro hca
  -- c < a, a ≤ b ⇒ c < b?  use: b ≤ c (h2: ¬ c < b)
  by_cases e : a = b
  · subst e; exact h2 hca
  · have hab := h.lt_of_not_gt_of_ne a b h1 e
    exact h2 (h.lt_trans c a b hca hab)

/-- any comparison pulled back along a key function gives a `Kway.Order` -/
theorem order_of_good {α β : Type} {cmp : β → β → Ordering} (h : GoodCmp cmp) (f : α → β) :
    Kway.Order (fun a b => cmp (f a) (f b) == .lt) where
  trans_le := by
    intro a b c h1 h2
    have h1' : cmp (f b) (f a) ≠ .lt := by simpa using h1
    have h2' : cmp (f c) (f b) ≠ .lt := by simpa using h2
    simpa using h.le_trans (f a) (f b) (f c) h1' h2'
  total_le := by
    intro a b
    cases hc : cmp (f a) (f b) with
    | lt => right; simp [(h.lt_gt _ _).1 hc]
    | eq => left; simp
    | gt => left; simp

theorem rowLt_order (pk : List Nat) : Kway.Order (rowLt pk) := by
  have := order_of_good keyCmp_good (keyOf pk)
  exact this

theorem rowLt_false_iff (pk : List Nat) (a b : Row) :
    rowLt pk a b = false ↔ keyCmp (keyOf pk a) (keyOf pk b) ≠ .lt := by
  simp [rowLt, keyLt]

end Wrgl.KeyOrder
