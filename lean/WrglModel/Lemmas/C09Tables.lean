import WrglModel.Lemmas.C09E2E
import WrglModel.Lemmas.C08Multi
namespace Wrgl

/-- the tables of a list of commits -/
def tablesOf (g : Graph) (cs : List Nat) : List Nat := cs.filterMap (fun c => (g.get? c).map (·.table))

namespace C09Aux

/-- one commit's contribution: a table newly counted as present was emitted, unless its object is
    absent at the source -/
theorem commitObjs_tbl_back {s : SrcRepo} {tts : List Nat} {st st' : SenderSt} {c : Nat} {o : List ObjKey}
    (h : commitObjs s tts st c = .ok (o, st')) (t : Nat) (ht : t ∈ st'.commonTables) :
    t ∈ st.commonTables ∨ s.table? t = none ∨ ObjKey.tbl t ∈ o := by
  unfold commitObjs at h
  split at h
  · cases h
  · rename_i cm hcm
    split at h
    · split at h
      · rename_i hti
        simp only [Res.ok.injEq, Prod.mk.injEq] at h
        obtain ⟨rfl, rfl⟩ := h
        rcases List.mem_cons.1 ht with rfl | ht
        · exact Or.inr (Or.inl hti)
        · exact Or.inl ht
      · rename_i ti hti
        simp only [Res.ok.injEq, Prod.mk.injEq] at h
        obtain ⟨rfl, rfl⟩ := h
        rcases List.mem_cons.1 ht with rfl | ht
        · exact Or.inr (Or.inr (by simp))
        · exact Or.inl ht
    · simp only [Res.ok.injEq, Prod.mk.injEq] at h
      obtain ⟨rfl, rfl⟩ := h
      exact Or.inl ht

/-- one commit's contribution: its own table, when selected and present at the source, is emitted
    unless it already counts as present -/
theorem commitObjs_tbl_self {s : SrcRepo} {tts : List Nat} {st st' : SenderSt} {c : Nat} {o : List ObjKey}
    (h : commitObjs s tts st c = .ok (o, st')) (cm : Commit) (hcm : s.commits.get? c = some cm)
    (htts : tts.contains cm.table = true) (hsrc : (s.table? cm.table).isSome = true) :
    cm.table ∈ st.commonTables ∨ ObjKey.tbl cm.table ∈ o := by
  unfold commitObjs at h
  rw [hcm] at h
  simp only at h
  split at h
  · split at h
    · rename_i hti
      rw [hti] at hsrc; cases hsrc
    · simp only [Res.ok.injEq, Prod.mk.injEq] at h
      obtain ⟨rfl, rfl⟩ := h
      exact Or.inr (by simp)
  · rename_i hcond
    simp only [htts, Bool.true_and, Bool.not_eq_true', Bool.not_eq_false] at hcond
    cases hct : st.commonTables.contains cm.table with
    | true => exact Or.inl (List.contains_iff_mem.1 hct)
    | false => rw [hct] at hcond; simp at hcond

/-- the sender emits the table of every listed commit whose table is selected and present at the
    source, unless that table already counted as present at the start -/
theorem senderObjs_tbl {s : SrcRepo} {tts : List Nat} : ∀ (cs : List Nat) (st : SenderSt) (objs : List ObjKey),
    senderObjs s tts st cs = .ok objs →
    ∀ c ∈ cs, ∀ cm, s.commits.get? c = some cm → tts.contains cm.table = true →
      (s.table? cm.table).isSome = true →
      cm.table ∈ st.commonTables ∨ ObjKey.tbl cm.table ∈ objs := by
  intro cs
  induction cs with
  | nil => intro st objs _ c hc; cases hc
  | cons c0 cs ih =>
    intro st objs h c hc cm hcm htts hsrc
    simp only [senderObjs] at h
    split at h
    · rename_i o st' hstep
      split at h
      · rename_i rest hrest
        simp only [Res.ok.injEq] at h
        subst h
        rcases List.mem_cons.1 hc with rfl | hc
        · rcases commitObjs_tbl_self hstep cm hcm htts hsrc with h1 | h1
          · exact Or.inl h1
          · exact Or.inr (List.mem_append_left _ h1)
        · rcases ih st' rest hrest c hc cm hcm htts hsrc with h1 | h1
          · rcases commitObjs_tbl_back hstep cm.table h1 with h2 | h2 | h2
            · exact Or.inl h2
            · rw [h2] at hsrc; cases hsrc
            · exact Or.inr (List.mem_append_left _ h2)
          · exact Or.inr (List.mem_append_right _ h1)
      · cases h
      · cases h
    · cases h
    · cases h

/-- the tables counted as present at the start are the tables of the common commits -/
theorem senderInit_tables {s : SrcRepo} {common : List Nat} {st : SenderSt} (h : senderInit s common = .ok st) :
    ∀ t ∈ st.commonTables, ∃ c ∈ common, ∃ cm, s.commits.get? c = some cm ∧ cm.table = t := by
  unfold senderInit at h
  split at h
  · cases h
  · simp only [Res.ok.injEq] at h
    subst h
    intro t ht
    simp only [List.mem_eraseDups, List.mem_filterMap] at ht
    obtain ⟨c, hc, hct⟩ := ht
    cases hcm : s.commits.get? c with
    | none => rw [hcm] at hct; simp at hct
    | some cm =>
      rw [hcm] at hct
      simp only [Option.map_some, Option.some.injEq] at hct
      exact ⟨c, hc, cm, hcm, hct⟩

end C09Aux

/-- C09, tables: with the tables selected by the finder (those of the commits visited within the
    requested depth, all when depth = 0), after the transfer the receiver holds the table of every
    commit of the want's history that lies within the depth — provided the source has those table
    objects and the receiver already holds the tables of the acknowledged common commits (which is
    what acknowledging a commit as common means for a non-shallow receiver). -/
theorem fetch_tables_within_depth (s : SrcRepo) (d : DstRepo) (hwf : s.commits.wf = true) (hac : Acyclic s.commits)
    (commons : List Nat) (depth : Nat) (w : Nat) (hw : (s.commits.get? w).isSome = true)
    (hheld : ∀ c, (d.commits.get? c).isSome = true → ∀ p ∈ parentsOf s.commits c, (d.commits.get? p).isSome = true)
    (hcom : ∀ c ∈ commons, (s.commits.get? c).isSome = true ∧ (d.commits.get? c).isSome = true)
    (hblk : ∀ c ∈ commons, ∀ cm, s.commits.get? c = some cm → ∀ ti, s.table? cm.table = some ti → ∀ b ∈ ti.blocks, b ∈ d.blocks)
    (hctbl : ∀ c ∈ commons, ∀ cm, s.commits.get? c = some cm → d.has (.tbl cm.table) = true)
    (revisit : Bool) (fuel : Nat) (cl tl sums : List Nat) (steps : Nat)
    (hwalk : walkWant revisit s.commits commons [] depth false fuel [(w, 0)] [] [] [] 0 = .ok (some (cl, tl, sums, steps)))
    (st : SenderSt) (objs : List ObjKey)
    (hi : senderInit s commons = .ok st) (ho : senderObjs s (tablesOf s.commits tl) st cl = .ok objs)
    (d' : DstRepo) (hrecv : receiveAll s d objs = .ok d')
    (c dist : Nat) (hc : (c, dist) ∈ unfoldTree s.commits (fun x => commons.contains x) (s.commits.length + 1) w 0)
    (hd : depth = 0 ∨ dist < depth)
    (cm : Commit) (hcm : s.commits.get? c = some cm) (hsrc : (s.table? cm.table).isSome = true) :
    d'.has (.tbl cm.table) = true := by
  have _ := hheld; have _ := hcom; have _ := hblk
  obtain ⟨hperm, hpermt⟩ := walkWant_spec revisit s.commits hwf hac commons depth w hw fuel cl tl sums steps hwalk
  have hccl : c ∈ cl := hperm.mem_iff.2 (List.mem_map.2 ⟨(c, dist), hc, rfl⟩)
  have hctl : c ∈ tl := by
    refine hpermt.mem_iff.2 (List.mem_map.2 ⟨(c, dist), List.mem_filter.2 ⟨hc, ?_⟩, rfl⟩)
    rcases hd with h | h
    · simp [h]
    · simp [h]
  have htts : (tablesOf s.commits tl).contains cm.table = true := by
    apply List.contains_iff_mem.2
    unfold tablesOf
    exact List.mem_filterMap.2 ⟨c, hctl, by simp [hcm]⟩
  have hhas := C07.receiveAll_has objs hrecv
  rw [hhas]
  rcases C09Aux.senderObjs_tbl cl st objs ho c hccl cm hcm htts hsrc with h | h
  · obtain ⟨c0, hc0, cm0, hcm0, e⟩ := C09Aux.senderInit_tables hi cm.table h
    left
    rw [← e]
    exact hctbl c0 hc0 cm0 hcm0
  · exact Or.inr h

/-- C09, several wants in one exchange: the lists produced by one call of `enqueueWants`
    (concatenated, as `CommitsToSend` returns them) are accepted object by object, and afterwards the
    receiver holds every ancestor of every want that was not left pending. -/
theorem fetch_end_to_end_multi (s : SrcRepo) (d : DstRepo) (hwf : s.commits.wf = true) (hac : Acyclic s.commits)
    (tts : List Nat) (depth fuel : Nat) (ws : List Nat) (hws : ∀ w ∈ ws, (s.commits.get? w).isSome = true)
    (f f' : Finder) (pending : List Nat) (hf0 : f.commitLists = [])
    (hheld : ∀ c, (d.commits.get? c).isSome = true → ∀ p ∈ parentsOf s.commits c, (d.commits.get? p).isSome = true)
    (hcom : ∀ c ∈ f.commons, (s.commits.get? c).isSome = true ∧ (d.commits.get? c).isSome = true)
    (hblk : ∀ c ∈ f.commons, ∀ cm, s.commits.get? c = some cm → ∀ ti, s.table? cm.table = some ti → ∀ b ∈ ti.blocks, b ∈ d.blocks)
    (revisit : Bool)
    (henq : enqueueWants revisit s.commits depth false fuel ws f [] [] = .ok (f', pending))
    (st : SenderSt) (objs : List ObjKey)
    (hi : senderInit s f.commons = .ok st) (ho : senderObjs s tts st f'.commitLists.flatten = .ok objs) :
    ∃ d', receiveAll s d objs = .ok d' ∧
      (∀ w ∈ ws, w ∉ pending → ∀ a, Reach s.commits a w → (d'.commits.get? a).isSome = true) ∧
      (∀ k, d.has k = true → d'.has k = true) := by
  have hLiff : ∀ a, a ∈ d.commits.map (·.id) ↔ (d.commits.get? a).isSome = true :=
    fun a => (C09Aux.get?_isSome_iff_mem d.commits a).symm
  have hL : AncClosed s.commits (d.commits.map (·.id)) := by
    intro c hc p hp
    exact (hLiff p).2 (hheld c ((hLiff c).1 hc) p hp)
  obtain ⟨nl, e1, -, hcl, hpf, hsd⟩ :=
    enqueueWants_spec revisit s.commits hwf hac depth fuel false ws hws f f' pending henq
  rw [hf0, List.nil_append] at e1
  rw [e1] at ho
  have hok : TransferOK s d f.commons nl.flatten := by
    refine ⟨fun c hc => (hcom c hc).1, hblk, ?_, ?_⟩
    · intro c hc
      obtain ⟨w, hw, hr⟩ := hsd c hc
      exact C09Aux.reach_stored hwf hr (hws w hw)
    · intro i c hci cm hcm p hp
      have hpp : p ∈ parentsOf s.commits c := by simp [parentsOf, hcm, hp]
      rcases hpf i c hci p hpp with h | h
      · exact Or.inl (hcom p h).2
      · exact Or.inr h
  obtain ⟨d', hd', hhas⟩ := transfer_exact s d f.commons nl.flatten tts st objs hok hi ho
  refine ⟨d', hd', ?_, fun k hk => (hhas k).2 (Or.inl hk)⟩
  intro w hw hnp a hr
  have hgoal : d'.has (.com a) = true := by
    rw [hhas]
    rcases hcl w hw hnp a hr with h | ⟨c, hc, hrc⟩
    · right
      have hso := (sender_order s tts st nl.flatten objs ho).1
      rw [← hso] at h
      obtain ⟨o, ho', hoa⟩ := List.mem_filterMap.1 h
      cases o with
      | blk b => simp at hoa
      | tbl t => simp at hoa
      | com c =>
        have : c = a := by simpa using hoa
        subst this
        exact ho'
    · left
      exact (hLiff a).1 (ancClosed_reach s.commits _ hL c a ((hLiff c).2 (hcom c hc).2) hrc)
  exact hgoal

end Wrgl
