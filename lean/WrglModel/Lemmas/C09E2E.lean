import WrglModel.Lemmas.C09
namespace Wrgl

namespace C09Aux

theorem get?_isSome_iff_mem (g : Graph) (a : Nat) :
    (g.get? a).isSome = true ↔ a ∈ g.map (·.id) := by
  constructor
  · exact C11Aux.get?_isSome_mem
  · intro h
    obtain ⟨c, hc, rfl⟩ := List.mem_map.1 h
    unfold Graph.get?
    rw [List.find?_isSome]
    exact ⟨c, hc, by simp⟩

theorem reach_stored {g : Graph} (hwf : g.wf = true) {a w : Nat} (hr : Reach g a w) :
    (g.get? w).isSome = true → (g.get? a).isSome = true := by
  induction hr with
  | refl => exact id
  | step hp hr ih =>
    rename_i p b
    intro hb
    cases hc : g.get? b with
    | none => simp [hc] at hb
    | some c =>
      have hpc : p ∈ c.parents := by simpa [parentsOf, hc] using hp
      exact ih (C11Aux.wf_parents hwf hc p hpc)

end C09Aux

/-- C09 end to end, one want: the sender (source repository `s`, history `s.commits`) walks from the
    want `w` stopping at the acknowledged commons, streams the listed commits with any selection of
    tables; the receiver `d` holds a history closed under parents, holds every acknowledged common
    commit and the blocks of the commons' tables. Then every object is accepted, and afterwards the
    receiver holds EVERY ancestor of the want (the updated ref's full history), and nothing it held
    before is lost. -/
theorem fetch_end_to_end (s : SrcRepo) (d : DstRepo) (hwf : s.commits.wf = true) (hac : Acyclic s.commits)
    (commons tts : List Nat) (depth : Nat) (w : Nat) (hw : (s.commits.get? w).isSome = true)
    (hheld : ∀ c, (d.commits.get? c).isSome = true → ∀ p ∈ parentsOf s.commits c, (d.commits.get? p).isSome = true)
    (hcom : ∀ c ∈ commons, (s.commits.get? c).isSome = true ∧ (d.commits.get? c).isSome = true)
    (hblk : ∀ c ∈ commons, ∀ cm, s.commits.get? c = some cm → ∀ ti, s.table? cm.table = some ti → ∀ b ∈ ti.blocks, b ∈ d.blocks)
    (revisit : Bool) (fuel : Nat) (cl tl sums : List Nat) (steps : Nat)
    (hwalk : walkWant revisit s.commits commons [] depth false fuel [(w, 0)] [] [] [] 0 = .ok (some (cl, tl, sums, steps)))
    (st : SenderSt) (objs : List ObjKey)
    (hi : senderInit s commons = .ok st) (ho : senderObjs s tts st cl = .ok objs) :
    ∃ d', receiveAll s d objs = .ok d' ∧
      (∀ a, Reach s.commits a w → (d'.commits.get? a).isSome = true) ∧
      (∀ k, d.has k = true → d'.has k = true) := by
  have hLiff : ∀ a, a ∈ d.commits.map (·.id) ↔ (d.commits.get? a).isSome = true :=
    fun a => (C09Aux.get?_isSome_iff_mem d.commits a).symm
  have hL : AncClosed s.commits (d.commits.map (·.id)) := by
    intro c hc p hp
    exact (hLiff p).2 (hheld c ((hLiff c).1 hc) p hp)
  have hcL : ∀ c ∈ commons, c ∈ d.commits.map (·.id) := fun c hc => (hLiff c).2 (hcom c hc).2
  obtain ⟨hperm, -⟩ := walkWant_spec revisit s.commits hwf hac commons depth w hw fuel cl tl sums steps hwalk
  have hok : TransferOK s d commons cl := by
    refine ⟨fun c hc => (hcom c hc).1, hblk, ?_, ?_⟩
    · intro c hc
      have hm := hperm.mem_iff.1 hc
      obtain ⟨⟨c', e⟩, hce, hc'⟩ := List.mem_map.1 hm
      simp only at hc'
      subst hc'
      have hr := unfoldTree_mem s.commits hwf hac (fun x => commons.contains x) w c' hw ⟨e, hce⟩
      exact C09Aux.reach_stored hwf hr hw
    · intro i c hci cm hcm p hp
      have hpp : p ∈ parentsOf s.commits c := by simp [parentsOf, hcm, hp]
      rcases walk_list_parent_first_everywhere revisit s.commits hwf hac (d.commits.map (·.id)) commons
        hL hcL depth w hw fuel cl tl sums steps hwalk i c hci p hpp with h | h
      · exact Or.inl ((hLiff p).1 h)
      · exact Or.inr h
  obtain ⟨d', hd', hhas⟩ := transfer_exact s d commons cl tts st objs hok hi ho
  refine ⟨d', hd', ?_, fun k hk => (hhas k).2 (Or.inl hk)⟩
  intro a hr
  have hgoal : d'.has (.com a) = true := by
    rw [hhas]
    rcases fetch_closed s.commits hwf hac (d.commits.map (·.id)) commons hL hcL w hw a hr with h | ⟨e, he⟩
    · exact Or.inl ((hLiff a).1 h)
    · right
      have hacl : a ∈ cl := hperm.mem_iff.2 (List.mem_map.2 ⟨(a, e), he, rfl⟩)
      have hso := (sender_order s tts st cl objs ho).1
      rw [← hso] at hacl
      obtain ⟨o, ho', hoa⟩ := List.mem_filterMap.1 hacl
      cases o with
      | blk b => simp at hoa
      | tbl t => simp at hoa
      | com c =>
        have : c = a := by simpa using hoa
        subst this
        exact ho'
  exact hgoal

end Wrgl
