import WrglModel.Model.Pool
namespace Wrgl

def totalRows (bs : List PBlk) : Nat := (bs.map (·.rows)).sum

/-- blocks currently held by workers between receiving and publishing -/
def heldBy : WSt → List PBlk
  | .got b => [b]
  | _ => []

/-! ### helper lemmas -/

theorem totalRows_append (a b : List PBlk) : totalRows (a ++ b) = totalRows a + totalRows b := by
  simp [totalRows]

/-- replacing the `w`-th element changes any additive measure of the `flatMap` accordingly -/
theorem additive_set_flatMap {α β : Type} (g : List β → Nat)
    (hg : ∀ a b, g (a ++ b) = g a + g b) (f : α → List β) (x : α) :
    ∀ (l : List α) (w : Nat) (st : α), l[w]? = some st →
      g ((l.set w x).flatMap f) + g (f st) = g (l.flatMap f) + g (f x) := by
  intro l
  induction l with
  | nil => intro w st h; simp at h
  | cons a t ih =>
    intro w st h
    cases w with
    | zero =>
      simp at h
      subst h
      simp only [List.set_cons_zero, List.flatMap_cons, hg]
      omega
    | succ w =>
      simp at h
      have := ih w st h
      simp only [List.set_cons_succ, List.flatMap_cons, hg]
      omega

/-- worker states that occur under the guarded discipline -/
def okSt : WSt → Prop
  | .idle => True
  | .got _ => True
  | .done => True
  | _ => False

structure Inv (blocks : List PBlk) (p : Pool) : Prop where
  rows : p.rc + totalRows p.todo + totalRows (p.ws.flatMap heldBy) = totalRows blocks
  cnt : ∀ a, List.count a p.blocks + List.count a p.todo + List.count a (p.ws.flatMap heldBy)
          = List.count a blocks
  ok : ∀ st ∈ p.ws, okSt st

theorem ok_set {l : List WSt} (h : ∀ st ∈ l, okSt st) (w : Nat) (x : WSt) (hx : okSt x) :
    ∀ st ∈ l.set w x, okSt st := by
  intro st hst
  rcases List.mem_or_eq_of_mem_set hst with h1 | h1
  · exact h st h1
  · subst h1; exact hx

theorem inv_init (blocks : List PBlk) (n : Nat) : Inv blocks (Pool.init blocks n) := by
  have hnil : (List.replicate n WSt.idle).flatMap heldBy = [] := by
    induction n with
    | zero => rfl
    | succ k ih => simp [List.replicate_succ, heldBy, ih]
  refine ⟨?_, ?_, ?_⟩
  · simp [Pool.init, hnil, totalRows]
  · intro a; simp [Pool.init, hnil]
  · intro st hst
    simp [Pool.init] at hst
    rw [hst.2]; trivial

theorem inv_step (blocks : List PBlk) (p : Pool) (w : Nat) (h : Inv blocks p) :
    Inv blocks (p.step true w) := by
  obtain ⟨hr, hc, hok⟩ := h
  unfold Pool.step
  cases hw : p.ws[w]? with
  | none => exact ⟨hr, hc, hok⟩
  | some st =>
    have hmem : st ∈ p.ws := List.mem_of_getElem? hw
    have hst := hok st hmem
    have R := fun x => additive_set_flatMap totalRows totalRows_append heldBy x p.ws w st hw
    have C := fun (a : PBlk) x => additive_set_flatMap (List.count a)
      (fun _ _ => List.count_append) heldBy x p.ws w st hw
    cases st with
    | idle =>
      cases ht : p.todo with
      | nil =>
        simp only
        refine ⟨?_, ?_, ok_set hok w _ trivial⟩
        · have := R .done
          simp only [heldBy, ht] at this hr ⊢
          omega
        · intro a
          have := C a .done
          have := hc a
          simp only [heldBy, ht] at *
          omega
      | cons b rest =>
        simp only
        refine ⟨?_, ?_, ok_set hok w _ trivial⟩
        · have := R (.got b)
          simp only [heldBy, ht, totalRows, List.map_cons, List.sum_cons, List.map_nil,
            List.sum_nil] at this hr ⊢
          omega
        · intro a
          have := C a (.got b)
          have := hc a
          simp only [heldBy, ht, List.count_cons, List.count_nil] at *
          omega
    | got b =>
      simp only [if_true]
      refine ⟨?_, ?_, ok_set hok w _ trivial⟩
      · have := R .idle
        simp only [heldBy, totalRows, List.map_cons, List.sum_cons, List.map_nil,
          List.sum_nil] at this hr ⊢
        omega
      · intro a
        have := C a .idle
        have := hc a
        simp only [heldBy, List.count_cons, List.count_nil, List.count_append] at *
        omega
    | done => exact ⟨hr, hc, hok⟩
    | readRC b rc => exact absurd hst (by simp [okSt])
    | wroteRC b => exact absurd hst (by simp [okSt])
    | readSl b sl => exact absurd hst (by simp [okSt])

theorem inv_run (blocks : List PBlk) (schedule : List Nat) :
    ∀ p, Inv blocks p → Inv blocks (p.run true schedule) := by
  induction schedule with
  | nil => intro p h; exact h
  | cons a s ih => intro p h; exact ih _ (inv_step blocks p a h)

theorem inv_reach (blocks : List PBlk) (n : Nat) (schedule : List Nat) :
    Inv blocks ((Pool.init blocks n).run true schedule) :=
  inv_run blocks schedule _ (inv_init blocks n)

theorem perm_of_inv {blocks : List PBlk} {p : Pool} (h : Inv blocks p) :
    (p.blocks ++ p.todo ++ p.ws.flatMap heldBy).Perm blocks := by
  rw [List.perm_iff_count]
  intro a
  have := h.cnt a
  simp only [List.count_append]
  omega

/-- With the shared updates in one critical section: along EVERY schedule, the row count plus the
    rows still in the channel or held by a worker is the total, and the published blocks together
    with the channel content and the held blocks are a permutation of the input. -/
theorem pool_invariant (blocks : List PBlk) (n : Nat) (schedule : List Nat) :
    let p := (Pool.init blocks n).run true schedule
    p.rc + totalRows p.todo + totalRows (p.ws.flatMap heldBy) = totalRows blocks ∧
    (p.blocks ++ p.todo ++ p.ws.flatMap heldBy).Perm blocks := by
  intro p
  have h := inv_reach blocks n schedule
  exact ⟨h.rows, perm_of_inv h⟩

theorem flatMap_heldBy_of_all_done (l : List WSt) (h : l.all (· == .done) = true) :
    l.flatMap heldBy = [] := by
  induction l with
  | nil => rfl
  | cons a t ih =>
    simp only [List.all_cons, Bool.and_eq_true, beq_iff_eq] at h
    obtain ⟨ha, ht⟩ := h
    subst ha
    simp [heldBy, ih ht]

/-- C16 (ingest): for any number of workers and EVERY schedule that runs all workers to completion,
    the row count is the total and the set of published blocks is exactly the input — nothing lost,
    nothing duplicated — i.e. the same as the one-worker result once ordered by offset. -/
theorem pool_schedule_independent (blocks : List PBlk) (n : Nat) (schedule : List Nat)
    (hfin : ((Pool.init blocks n).run true schedule).finished = true) :
    ((Pool.init blocks n).run true schedule).rc = totalRows blocks ∧
    ((Pool.init blocks n).run true schedule).blocks.Perm blocks := by
  have h := pool_invariant blocks n schedule
  simp only at h
  generalize (Pool.init blocks n).run true schedule = p at h hfin
  simp only [Pool.finished, Bool.and_eq_true, List.isEmpty_iff] at hfin
  obtain ⟨ht, hd⟩ := hfin
  have hh := flatMap_heldBy_of_all_done p.ws hd
  rw [ht, hh] at h
  simpa [totalRows] using h

/-! ### reachability of completion -/

theorem run_cons (g : Bool) (p : Pool) (a : Nat) (s : List Nat) :
    p.run g (a :: s) = (p.step g a).run g s := rfl

/-- with the channel drained, the remaining idle workers stop one after the other -/
theorem drain_finish (rc : Nat) (bl : List PBlk) :
    ∀ (m : Nat) (pre : List WSt), pre.all (· == .done) = true →
      ∃ s, ((Pool.mk [] (pre ++ List.replicate m .idle) rc bl).run true s).finished = true := by
  intro m
  induction m with
  | zero =>
    intro pre hpre
    exact ⟨[], by simpa [Pool.run, Pool.finished] using hpre⟩
  | succ k ih =>
    intro pre hpre
    have hpre' : (pre ++ [WSt.done]).all (· == .done) = true := by
      simp only [List.all_append, hpre, Bool.true_and]; rfl
    obtain ⟨s, hs⟩ := ih (pre ++ [.done]) hpre'
    refine ⟨pre.length :: s, ?_⟩
    rw [run_cons]
    have hstep : (Pool.mk [] (pre ++ List.replicate (k+1) .idle) rc bl).step true pre.length
        = Pool.mk [] ((pre ++ [.done]) ++ List.replicate k .idle) rc bl := by
      simp [Pool.step, List.replicate_succ]
    rw [hstep]; exact hs

/-- worker 0 alone drains the channel, two steps per block -/
theorem worker0_finish (m : Nat) :
    ∀ (todo : List PBlk) (rc : Nat) (bl : List PBlk),
      ∃ s, ((Pool.mk todo (List.replicate (m+1) .idle) rc bl).run true s).finished = true := by
  intro todo
  induction todo with
  | nil =>
    intro rc bl
    simpa using drain_finish rc bl (m+1) [] rfl
  | cons b rest ih =>
    intro rc bl
    obtain ⟨s, hs⟩ := ih (rc + b.rows) (bl ++ [b])
    refine ⟨0 :: 0 :: s, ?_⟩
    rw [run_cons, run_cons]
    have hstep : ((Pool.mk (b :: rest) (List.replicate (m+1) .idle) rc bl).step true 0).step true 0
        = Pool.mk rest (List.replicate (m+1) .idle) (rc + b.rows) (bl ++ [b]) := by
      simp [Pool.step, List.replicate_succ]
    rw [hstep]; exact hs

/-- completion is always reachable: the round-robin schedule of length (|blocks|+1)·2·n finishes -/
theorem pool_can_finish (blocks : List PBlk) (n : Nat) (hn : 0 < n) :
    ∃ schedule, ((Pool.init blocks n).run true schedule).finished = true := by
  obtain ⟨m, rfl⟩ : ∃ m, n = m + 1 := ⟨n - 1, by omega⟩
  exact worker0_finish m blocks 0 []

/-- without the critical section a 2-worker schedule loses a block and its rows (the defect that was
    repaired): both workers read the shared state before either writes it back -/
theorem pool_unguarded_lost_update :
    let blocks : List PBlk := [{ off := 0, rows := 255 }, { off := 1, rows := 7 }]
    let p := (Pool.init blocks 2).run false [0, 1, 0, 1, 0, 1, 0, 1, 0, 1, 0, 1]
    p.finished = true ∧ (p.rc ≠ 262 ∨ p.blocks.length ≠ 2) := by
  decide

end Wrgl
