/-
C15 auxiliary lemmas: the simulation relation `R` between the SQL model and the abstract map, and its
preservation by the state-changing store methods. Core Lean only.
-/
import WrglModel.Lemmas.C15Sim
namespace Wrgl
open SqlSt

/-! ### log rows of one ref -/

def rowsOf (logs : List LogRow) (k : Name) : List LogRow := logs.filter (fun l => l.ref == k)

theorem logCount_eq (s : SqlSt) (k : Name) : s.logCount k = (rowsOf s.logs k).length := rfl

theorem rowsOf_append (l1 l2 : List LogRow) (k : Name) :
    rowsOf (l1 ++ l2) k = rowsOf l1 k ++ rowsOf l2 k := List.filter_append ..

theorem rowsOf_single (r : LogRow) (j : Name) : rowsOf [r] j = if r.ref = j then [r] else [] := by
  unfold rowsOf
  by_cases h : r.ref = j <;> simp [h]

theorem rowsOf_delete (logs : List LogRow) (k j : Name) :
    rowsOf (logs.filter (fun l => l.ref != k)) j = if j = k then [] else rowsOf logs j := by
  unfold rowsOf
  rw [List.filter_filter]
  by_cases hj : j = k
  · subst hj
    simp only [if_true]
    rw [List.filter_eq_nil_iff]
    intro l _
    simp
  · simp only [hj, if_false]
    apply List.filter_congr
    intro l _
    by_cases hl : l.ref = j
    · simp [hl, hj]
    · simp [hl]

def reRef (n : Name) (l : LogRow) : LogRow := { l with ref := n }

@[simp] theorem toEntry_reRef (n : Name) (l : LogRow) : toEntry (reRef n l) = toEntry l := rfl
@[simp] theorem ordinal_reRef (n : Name) (l : LogRow) : (reRef n l).ordinal = l.ordinal := rfl
@[simp] theorem ref_reRef (n : Name) (l : LogRow) : (reRef n l).ref = n := rfl

theorem map_toEntry_reRef (n : Name) (l : List LogRow) :
    (l.map (reRef n)).map toEntry = l.map toEntry := by
  rw [List.map_map]; rfl

theorem map_ordinal_reRef (n : Name) (l : List LogRow) :
    (l.map (reRef n)).map (·.ordinal) = l.map (·.ordinal) := by
  rw [List.map_map]; rfl

theorem rowsOf_rename (logs : List LogRow) (o n j : Name) (hon : o ≠ n)
    (hn : rowsOf logs n = []) :
    rowsOf (logs.map (fun l => if l.ref == o then reRef n l else l)) j =
      if j = n then (rowsOf logs o).map (reRef n) else if j = o then [] else rowsOf logs j := by
  induction logs with
  | nil => simp [rowsOf]
  | cons x xs ih =>
    have hx : x.ref ≠ n := by
      intro e
      have : x ∈ rowsOf (x :: xs) n := by simp [rowsOf, e]
      rw [hn] at this; simp at this
    have hn' : rowsOf xs n = [] := by
      unfold rowsOf at hn ⊢
      rw [List.filter_eq_nil_iff] at hn ⊢
      exact fun l hl => hn l (List.mem_cons_of_mem _ hl)
    have ih := ih hn'
    unfold rowsOf at ih ⊢
    rw [List.map_cons, List.filter_cons, ih]
    by_cases hxo : x.ref = o
    · have h1 : (x.ref == o) = true := by simp [hxo]
      simp only [h1, if_true, ref_reRef]
      by_cases hj : j = n
      · subst hj
        simp [hxo]
      · have h2 : ¬ n = j := fun e => hj e.symm
        have h2' : (n == j) = false := by simp [h2]
        simp only [hj, h2', if_false, Bool.false_eq_true]
        by_cases hjo : j = o
        · simp [hjo]
        · have : ¬ x.ref = j := by rw [hxo]; exact fun e => hjo e.symm
          simp [hjo, this]
    · have h1 : (x.ref == o) = false := by simp [hxo]
      simp only [h1, Bool.false_eq_true, if_false]
      by_cases hj : j = n
      · subst hj
        have : (x.ref == j) = false := by simp [hx]
        simp [this, hxo]
      · simp only [hj, if_false]
        by_cases hjo : j = o
        · subst hjo
          simp [hxo]
        · simp only [hjo, if_false, List.filter_cons]

theorem rowsOf_map_reRef (rows : List LogRow) (d j : Name) :
    rowsOf (rows.map (reRef d)) j = if j = d then rows.map (reRef d) else [] := by
  unfold rowsOf
  by_cases h : j = d
  · subst h
    simp only [if_true]
    rw [List.filter_eq_self]
    intro l hl
    rcases List.mem_map.1 hl with ⟨r, _, rfl⟩
    simp
  · simp only [h, if_false]
    rw [List.filter_eq_nil_iff]
    intro l hl
    rcases List.mem_map.1 hl with ⟨r, _, rfl⟩
    simp; exact fun e => h e.symm

/-! ### the simulation relation -/

structure R (s : SqlSt) (a : ASt) : Prop where
  nodup : (s.refs.map (·.1)).Nodup
  vals : ∀ k, getL s.refs k = a.val k
  logs : ∀ k, (rowsOf s.logs k).map toEntry = a.log k
  ords : ∀ k, (rowsOf s.logs k).map (·.ordinal) = List.range' 1 (rowsOf s.logs k).length
  dom : ∀ k, getL s.refs k = none → rowsOf s.logs k = []

theorem R_init : R { refs := [], logs := [] } { vals := [], logs := [] } :=
  ⟨by simp, fun _ => rfl, fun _ => rfl, fun _ => rfl, fun _ _ => rfl⟩

theorem R_set {s : SqlSt} {a : ASt} (h : R s a) (k : Name) (v : Bytes) :
    R (s.set k v) (a.setVal k (some v)) := by
  refine ⟨nodup_upsert h.nodup k v, ?_, h.logs, h.ords, ?_⟩
  · intro j
    show getL (upsert s.refs k v) j = _
    rw [getL_upsert, ASt.val_setVal_some, h.vals]
  · intro j hj
    have hj : getL (upsert s.refs k v) j = none := hj
    rw [getL_upsert] at hj
    by_cases e : j = k
    · simp [e] at hj
    · simp only [e, if_false] at hj
      exact h.dom j hj

theorem R_setWithLog {s : SqlSt} {a : ASt} (h : R s a) (k : Name) (v : Bytes) (m : String) :
    R (s.setWithLog k v m)
      ((a.setLog k (a.log k ++ [{ old := a.val k, new := v, msg := m }])).setVal k (some v)) := by
  refine ⟨nodup_upsert h.nodup k v, ?_, ?_, ?_, ?_⟩
  · intro j
    show getL (upsert s.refs k v) j = _
    rw [getL_upsert, ASt.val_setVal_some, ASt.val_setLog, h.vals]
  · intro j
    simp only [setWithLog, rowsOf_append, rowsOf_single, ASt.log_setVal, ASt.log_setLog]
    by_cases e : j = k
    · subst e
      simp [h.logs, toEntry, SqlSt.get_eq, h.vals]
    · have : ¬ k = j := fun e' => e e'.symm
      simp [e, this, h.logs]
  · intro j
    simp only [setWithLog, rowsOf_append, rowsOf_single]
    by_cases e : j = k
    · subst e
      simp only [if_true, List.map_append, List.map_cons, List.map_nil, List.length_append,
        List.length_cons, List.length_nil, h.ords, logCount_eq]
      rw [List.range'_1_concat]
      simp [Nat.add_comm]
    · have : ¬ k = j := fun e' => e e'.symm
      simp [this, h.ords]
  · intro j hj
    have hj : getL (upsert s.refs k v) j = none := hj
    rw [getL_upsert] at hj
    by_cases e : j = k
    · simp [e] at hj
    · simp only [e, if_false] at hj
      have : ¬ k = j := fun e' => e e'.symm
      simp [setWithLog, rowsOf_append, rowsOf_single, this, h.dom j hj]

theorem R_delete {s : SqlSt} {a : ASt} (h : R s a) (k : Name) :
    R (s.delete k) ((a.setVal k none).setLog k []) := by
  refine ⟨nodup_filter_fst h.nodup _, ?_, ?_, ?_, ?_⟩
  · intro j
    show getL (s.refs.filter _) j = _
    rw [getL_filter_ne, ASt.val_setLog, ASt.val_setVal_none, h.vals]
  · intro j
    simp only [SqlSt.delete, rowsOf_delete, ASt.log_setLog, ASt.log_setVal]
    by_cases e : j = k
    · simp [e]
    · simp [e, h.logs]
  · intro j
    simp only [SqlSt.delete, rowsOf_delete]
    by_cases e : j = k
    · simp [e]
    · simp [e, h.ords]
  · intro j hj
    have hj : getL (s.refs.filter (fun r => r.1 != k)) j = none := hj
    rw [getL_filter_ne] at hj
    simp only [SqlSt.delete, rowsOf_delete]
    by_cases e : j = k
    · simp [e]
    · simp only [e, if_false] at hj ⊢
      exact h.dom j hj

end Wrgl
