/-
The sorter keeps every row it was handed when spills fail on the way (Model/SorterFault.lean).
-/
import WrglModel.Model.SorterFault
import WrglModel.Lemmas.SorterAux
namespace Wrgl
namespace SorterFault

/-- one call: the row is held afterwards, whether the call spilled, failed to spill or did neither -/
theorem addRowF_held (sortFn : List Row → List Row) (hperm : ∀ l, (sortFn l).Perm l)
    (maxCell : Option Nat) (runSize : Nat) (st st' : SorterSt) (r : Row) (ok failed : Bool)
    (h : addRowF sortFn maxCell runSize st r ok = .ok (st', failed)) :
    st'.held.Perm (st.held ++ [r]) := by
  unfold addRowF at h
  cases ok with
  | true =>
    simp only [if_true] at h
    cases h1 : addRow sortFn maxCell runSize st r with
    | err e => rw [h1] at h; cases h
    | panic q => rw [h1] at h; cases h
    | ok st1 =>
      rw [h1] at h
      simp only at h
      injection h with h
      injection h with h2 _
      subst h2
      rcases SorterAux.addRow_ok_shape _ _ _ _ _ _ h1 with e | e
      · rw [e]
        simp only [SorterSt.held, List.flatten_append, List.flatten_cons, List.flatten_nil,
          List.append_nil, List.append_assoc]
        exact List.Perm.append_left _ (hperm _)
      · rw [e]
        simp [SorterSt.held]
  | false =>
    simp only [Bool.false_eq_true, if_false] at h
    by_cases hl : cellTooLong maxCell r = true
    · rw [if_pos hl] at h; cases h
    · rw [if_neg hl] at h
      by_cases hs : st.size + rowSize r ≥ runSize
      · rw [if_pos hs] at h
        injection h with h
        injection h with h2 _
        subst h2
        simp [SorterSt.held]
      · rw [if_neg hs] at h
        injection h with h
        injection h with h2 _
        subst h2
        simp [SorterSt.held]

/-- a caller that carries on after failed spills: nothing is lost -/
theorem addRowsF_held (sortFn : List Row → List Row) (hperm : ∀ l, (sortFn l).Perm l)
    (maxCell : Option Nat) (runSize : Nat) (bad : Nat → Bool) (rows : List Row) :
    ∀ (idx : Nat) (st st' : SorterSt) (fs : List Nat),
      addRowsF sortFn maxCell runSize bad idx st rows = .ok (st', fs) →
      st'.held.Perm (st.held ++ rows) := by
  induction rows with
  | nil =>
    intro idx st st' fs h
    simp only [addRowsF] at h
    injection h with h
    injection h with h _
    subst h
    simp
  | cons r rs ih =>
    intro idx st st' fs h
    simp only [addRowsF] at h
    cases h1 : addRowF sortFn maxCell runSize st r (!bad idx) with
    | err e => rw [h1] at h; cases h
    | panic q => rw [h1] at h; cases h
    | ok p1 =>
      obtain ⟨st1, f1⟩ := p1
      rw [h1] at h
      simp only at h
      cases h2 : addRowsF sortFn maxCell runSize bad (idx + 1) st1 rs with
      | err e => rw [h2] at h; cases h
      | panic q => rw [h2] at h; cases h
      | ok p2 =>
        obtain ⟨st2, fs2⟩ := p2
        rw [h2] at h
        simp only at h
        injection h with h
        injection h with h3 _
        subst h3
        have a := addRowF_held sortFn hperm maxCell runSize st st1 r _ f1 h1
        have b := ih (idx + 1) st1 st2 fs2 h2
        refine b.trans ?_
        have := List.Perm.append_right rs a
        simpa [List.append_assoc] using this

/-- when no spill fails the caller sees `addRows` and no error -/
theorem addRowsF_no_fault (sortFn : List Row → List Row) (maxCell : Option Nat) (runSize : Nat)
    (rows : List Row) : ∀ (idx : Nat) (st : SorterSt),
    addRowsF sortFn maxCell runSize (fun _ => false) idx st rows =
      (match addRows sortFn maxCell runSize st rows with
       | .ok st' => .ok (st', [])
       | .err e => .err e
       | .panic p => .panic p) := by
  induction rows with
  | nil => intro idx st; simp [addRowsF, addRows]
  | cons r rs ih =>
    intro idx st
    simp only [addRowsF, addRows, addRowF, Bool.not_false, if_true]
    cases h1 : addRow sortFn maxCell runSize st r with
    | err e => simp
    | panic q => simp
    | ok st1 =>
      simp only
      rw [ih (idx + 1) st1]
      cases addRows sortFn maxCell runSize st1 rs <;> simp

end SorterFault
end Wrgl
