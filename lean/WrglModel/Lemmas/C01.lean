import WrglModel.Model.Sorter
import WrglModel.Model.TableId
import WrglModel.Spec.Sorter
import WrglModel.Spec.TableInv
import WrglModel.Lemmas.C19
import WrglModel.Lemmas.C06Codec
import WrglModel.Lemmas.C01Aux
namespace Wrgl

/-- what ingest stores, in terms of the sorter's kept rows -/
theorem ingest_shape (sortFn : List Row → List Row) (bs : Nat) (hbs : 0 < bs) (maxCell : Option Nat) (runSize : Nat)
    (columns : Row) (pk : List Nat) (rows : List Row) (t : StoredTable)
    (h : ingestTable sortFn bs maxCell runSize columns pk rows = .ok t) :
    ∃ st, addRows sortFn maxCell runSize { chunks := [], current := [], size := 0 } rows = .ok st ∧
      t.blocks.flatten = keptRows sortFn pk st ∧
      t.rowsCount = (keptRows sortFn pk st).length ∧
      blockSizesOk bs (t.blocks.map List.length) = true ∧
      t.tblIdx = t.blocks.map (fun b => match b with
        | r :: _ => keyOf pk r
        | [] => []) ∧
      t.columns = columns ∧ t.pk = pk := by
  obtain ⟨st, hst, rfl⟩ := C01Aux.ingestTable_ok _ _ _ _ _ _ _ _ h
  obtain ⟨c1, c2⟩ := cutBlocks_spec bs hbs (keptRows sortFn pk st)
  refine ⟨st, hst, c1, ?_, c2, rfl, rfl, rfl⟩
  show ((cutBlocks bs ((keptRows sortFn pk st).length + 1) (keptRows sortFn pk st)).map List.length).sum = _
  rw [← List.length_flatten, c1]

/-- C01 core: the stored rows are exactly one input row per distinct key, in ascending key order -/
theorem ingest_rows_spec (sortFn : List Row → List Row) (pk : List Nat) (hs : IsSort pk sortFn)
    (bs : Nat) (hbs : 0 < bs) (w : Nat) (maxCell : Option Nat) (runSize : Nat)
    (columns : Row) (rows : List Row) (t : StoredTable) (hw : RowsWF w pk rows)
    (h : ingestTable sortFn bs maxCell runSize columns pk rows = .ok t) :
    t.blocks.flatten.Pairwise (fun a b => keyCmp (keyOf pk a) (keyOf pk b) = .lt) ∧
    (∀ r ∈ t.blocks.flatten, r ∈ rows) ∧
    (∀ r ∈ rows, ∃ r' ∈ t.blocks.flatten, keyOf pk r' = keyOf pk r) ∧
    t.rowsCount = t.blocks.flatten.length := by
  obtain ⟨st, hst, e1, e2, _⟩ := ingest_shape sortFn bs hbs maxCell runSize columns pk rows t h
  obtain ⟨k1, k2, k3⟩ := kept_spec sortFn pk hs w maxCell runSize rows st hw hst
  rw [e1]
  exact ⟨k1, k2, k3, e2⟩

/-- with unique keys the stored rows are a permutation of the input: nothing dropped, duplicated
    or altered -/
theorem ingest_unique_perm (sortFn : List Row → List Row) (pk : List Nat) (hs : IsSort pk sortFn)
    (bs : Nat) (hbs : 0 < bs) (w : Nat) (maxCell : Option Nat) (runSize : Nat)
    (columns : Row) (rows : List Row) (t : StoredTable) (hw : RowsWF w pk rows)
    (huniq : rows.Pairwise (fun a b => keyOf pk a ≠ keyOf pk b))
    (h : ingestTable sortFn bs maxCell runSize columns pk rows = .ok t) :
    t.blocks.flatten.Perm rows := by
  obtain ⟨k1, k2, k3, _⟩ := ingest_rows_spec sortFn pk hs bs hbs w maxCell runSize columns rows t hw h
  have hu := SorterAux.eq_of_pairwise_ne (keyOf pk) rows huniq
  have nd1 : t.blocks.flatten.Nodup := by
    refine List.Pairwise.imp ?_ k1
    intro a b hab e
    rw [e, KeyOrder.keyCmp_refl] at hab
    cases hab
  have nd2 : rows.Nodup := by
    refine List.Pairwise.imp ?_ huniq
    intro a b hab e
    exact hab (by rw [e])
  rw [List.perm_ext_iff_of_nodup nd1 nd2]
  intro a
  constructor
  · exact k2 a
  · intro ha
    obtain ⟨r', hr', e⟩ := k3 a ha
    have := hu r' (k2 r' hr') a ha e
    rw [← this]
    exact hr'

/-- ingest refuses exactly the inputs with an over-long cell, with an error, and never panics -/
theorem ingest_total (sortFn : List Row → List Row) (bs m runSize : Nat) (columns : Row) (pk : List Nat) (rows : List Row) :
    ((∃ t, ingestTable sortFn bs (some m) runSize columns pk rows = .ok t) ↔ ∀ r ∈ rows, ∀ c ∈ r, c.length ≤ m) ∧
    (∀ p, ingestTable sortFn bs (some m) runSize columns pk rows ≠ .panic p) := by
  constructor
  · rw [← addRows_ok_iff sortFn m runSize rows]
    constructor
    · rintro ⟨t, ht⟩
      obtain ⟨st, hst, _⟩ := C01Aux.ingestTable_ok _ _ _ _ _ _ _ _ ht
      exact ⟨st, hst⟩
    · rintro ⟨st, hst⟩
      unfold ingestTable
      rw [hst]
      exact ⟨_, rfl⟩
  · intro p hp
    unfold ingestTable at hp
    split at hp
    · cases hp
    · rename_i q hq
      exact addRows_never_panics sortFn (some m) runSize rows q hq
    · cases hp

/-- the same logical table gives the same stored table whatever the row order, run size and sort -/
theorem ingest_config_independent (s1 s2 : List Row → List Row) (pk : List Nat)
    (h1 : IsSort pk s1) (h2 : IsSort pk s2) (bs : Nat) (w : Nat) (m1 m2 : Option Nat) (rs1 rs2 : Nat)
    (columns : Row) (rows1 rows2 : List Row) (t1 t2 : StoredTable) (hw : RowsWF w pk rows1)
    (hperm : rows1.Perm rows2)
    (huniq : rows1.Pairwise (fun a b => keyOf pk a ≠ keyOf pk b))
    (e1 : ingestTable s1 bs m1 rs1 columns pk rows1 = .ok t1)
    (e2 : ingestTable s2 bs m2 rs2 columns pk rows2 = .ok t2) : t1 = t2 := by
  obtain ⟨st1, hst1, rfl⟩ := C01Aux.ingestTable_ok _ _ _ _ _ _ _ _ e1
  obtain ⟨st2, hst2, rfl⟩ := C01Aux.ingestTable_ok _ _ _ _ _ _ _ _ e2
  rw [kept_config_independent s1 s2 pk h1 h2 w m1 m2 rs1 rs2 rows1 rows2 st1 st2 hw hperm huniq hst1 hst2]

/-- C03: the table ingest stores, with the block indices built from its blocks, satisfies every
    clause of the structural invariant -/
theorem ingest_tableInv (H : Bytes → Bytes) (sortPerm : List Bytes → List Nat) (hp : IsSortPerm sortPerm)
    (sortFn : List Row → List Row) (pk : List Nat) (hs : IsSort pk sortFn)
    (bs : Nat) (hbs : 0 < bs) (w : Nat) (maxCell : Option Nat) (mc : Nat) (runSize : Nat)
    (columns : Row) (rows : List Row) (t : StoredTable) (hw : RowsWF w pk rows)
    (h : ingestTable sortFn bs maxCell runSize columns pk rows = .ok t) :
    tableInv bs { columns := t.columns, pk := t.pk, rowsCount := t.rowsCount, blocks := t.blocks,
                  hashes := t.blocks.map (fun b => b.map (rowHashes H mc pk)),
                  indices := t.blocks.map (indexBlock H sortPerm mc pk),
                  tblIdx := t.tblIdx } = [] := by
  obtain ⟨st, hst, e1, e2, e3, e4, _, e6⟩ := ingest_shape sortFn bs hbs maxCell runSize columns pk rows t h
  obtain ⟨k1, _, _⟩ := kept_spec sortFn pk hs w maxCell runSize rows st hw hst
  have c1 : (t.rowsCount == (t.blocks.map List.length).sum) = true := by
    rw [e2, ← e1, List.length_flatten]
    simp
  have c3 : strictAsc (t.blocks.flatten.map (keyOf t.pk)) = true := by
    apply C01Aux.strictAsc_of_pairwise
    rw [List.pairwise_map, e1, e6]
    exact k1
  have c5 := C01Aux.indices_rows_eq H sortPerm mc pk t.blocks
  have c6 : (t.blocks.map (indexBlock H sortPerm mc pk)).all (fun idx =>
      isPermOfRange idx.sortedOff idx.rows.length && nondecreasingAlong idx.sortedOff idx.rows) = true := by
    simp only [List.all_map, List.all_eq_true, Function.comp, Bool.and_eq_true]
    intro b _
    constructor
    · apply C01Aux.isPermOfRange_of_perm
      have := hp.perm ((b.map (rowHashes H mc pk)).map (·.1))
      simpa [indexBlock] using this
    · exact C01Aux.nondecreasingAlong_of_sorted sortPerm hp (b.map (rowHashes H mc pk))
  unfold tableInv
  simp only [c1, e3, c3, c5, c6, List.length_map, beq_self_eq_true, Bool.and_self, if_true,
    List.append_nil]
  rw [if_pos]
  · rfl
  · rw [e6, e4, beq_iff_eq]
    apply List.map_congr_left
    intro b _
    cases b <;> rfl

/-- C02 (one direction needs no hash assumption): same logical content, same identifier -/
theorem tableId_config_independent (H : Bytes → Bytes) (sortPerm : List Bytes → List Nat) (mc : Nat)
    (s1 s2 : List Row → List Row) (pk : List Nat)
    (h1 : IsSort pk s1) (h2 : IsSort pk s2) (bs : Nat) (w : Nat) (m1 m2 : Option Nat) (rs1 rs2 : Nat)
    (columns : Row) (rows1 rows2 : List Row) (t1 t2 : StoredTable) (hw : RowsWF w pk rows1)
    (hperm : rows1.Perm rows2)
    (huniq : rows1.Pairwise (fun a b => keyOf pk a ≠ keyOf pk b))
    (e1 : ingestTable s1 bs m1 rs1 columns pk rows1 = .ok t1)
    (e2 : ingestTable s2 bs m2 rs2 columns pk rows2 = .ok t2) :
    tableId H sortPerm mc t1 = tableId H sortPerm mc t2 := by
  rw [ingest_config_independent s1 s2 pk h1 h2 bs w m1 m2 rs1 rs2 columns rows1 rows2 t1 t2 hw hperm huniq e1 e2]

/-- C02 (other direction): if the hash is injective on the byte strings hashed, equal identifiers
    mean equal columns, key and rows -/
theorem tableId_injective (H : Bytes → Bytes) (hinj : ∀ a b, H a = H b → a = b)
    (sortPerm : List Bytes → List Nat) (mc : Nat) (hmc : mc ≤ 65535) (t1 t2 : StoredTable) (id : Bytes)
    (hwf1 : (tableObjOf H sortPerm mc t1).WF) (hwf2 : (tableObjOf H sortPerm mc t2).WF)
    (hr1 : ∀ b ∈ t1.blocks, b.length < 2 ^ 32 ∧ ∀ r ∈ b, r.length < 2 ^ 32 ∧ ∀ c ∈ r, c.length ≤ mc)
    (hr2 : ∀ b ∈ t2.blocks, b.length < 2 ^ 32 ∧ ∀ r ∈ b, r.length < 2 ^ 32 ∧ ∀ c ∈ r, c.length ≤ mc)
    (e1 : tableId H sortPerm mc t1 = .ok id) (e2 : tableId H sortPerm mc t2 = .ok id) :
    t1.columns = t2.columns ∧ t1.pk = t2.pk ∧ t1.blocks = t2.blocks := by
  obtain ⟨b1, hb1, i1⟩ := C01Aux.tableId_ok H sortPerm mc t1 id e1
  obtain ⟨b2, hb2, i2⟩ := C01Aux.tableId_ok H sortPerm mc t2 id e2
  have hb : b1 = b2 := hinj b1 b2 (by rw [← i1, ← i2])
  subst hb
  have r1 := table_roundtrip mc hmc _ b1 hwf1 hb1
  have r2 := table_roundtrip mc hmc _ b1 hwf2 hb2
  rw [r1] at r2
  injection r2 with r2
  refine ⟨congrArg TableObj.columns r2, congrArg TableObj.pk r2, ?_⟩
  exact C01Aux.blockSums_injective H hinj mc hmc t1.blocks t2.blocks hr1 hr2 (congrArg TableObj.blocks r2)

end Wrgl
