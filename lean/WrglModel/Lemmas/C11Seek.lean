import WrglModel.Model.Queue
import WrglModel.Spec.Graph
import WrglModel.Lemmas.C11
import WrglModel.Lemmas.C11Reach
import WrglModel.Lemmas.C11SeekAux
namespace Wrgl

/-- two inputs: whatever `SeekCommonAncestor` returns is an ancestor-or-self of both inputs,
    and it never returns a nil sum, panics or runs out of fuel. -/
theorem seek_two_common (g : Graph) (hwf : g.wf = true) (x y : Nat)
    (hx : (g.get? x).isSome = true) (hy : (g.get? y).isSome = true) :
    (∃ r, seekCommonAncestor g [x, y] = .ok (some r) ∧ Reach g r x ∧ Reach g r y) ∨
    (seekCommonAncestor g [x, y] = .err "not-found" ∧ ¬ ∃ r, Reach g r x ∧ Reach g r y) := by
  obtain ⟨q0, e0, h0⟩ := C11Aux.single_inv hx
  obtain ⟨q1, e1, h1⟩ := C11Aux.single_inv hy
  simp only [seekCommonAncestor, initQs, e0, e1, List.map_cons, List.map_nil]
  apply C11Aux.seekLoop_two hwf x y (g.length + 3) 0 (some x) (some y) q0 q1 [] [] _ (by omega)
  refine ⟨h0, h1, ?_, ?_, ?_, Or.inl rfl, Or.inl rfl, Nat.zero_le _⟩
  · intro b hb; cases hb; exact h0.root
  · intro b hb; cases hb; exact h1.root
  · intro c hc; simp at hc

/-- the computable closure used by the driver's oracle agrees with `Reach` on well-formed graphs -/
theorem reach_iff_Reach (g : Graph) (hwf : g.wf = true) (a b : Nat)
    (hb : (g.get? b).isSome = true) : reach g a b = true ↔ Reach g a b :=
  reach_iff_Reach_aux g hwf a b hb

end Wrgl
