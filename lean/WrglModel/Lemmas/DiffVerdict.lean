/-
C04: from the specification of `iterateAndMatch` to the clauses of `diffVerdict`. Core Lean only.
-/
import WrglModel.Lemmas.DiffIterate
namespace Wrgl

/-! ## generic list facts -/

theorem sameSet_self (a : List Bytes) : sameSet a a = true := by
  have : a.all a.contains = true := by
    rw [List.all_eq_true]
    intro x hx
    simpa using hx
  simp [sameSet, this]

theorem eraseDups_of_pairwise_ne : ∀ (l : List Bytes), l.Pairwise (fun a b => a ≠ b) → l.eraseDups = l
  | [], _ => by simp
  | a :: as, h => by
    rw [List.pairwise_cons] at h
    have hf : as.filter (fun b => !b == a) = as := by
      rw [List.filter_eq_self]
      intro b hb
      have := h.1 b hb
      simp only [Bool.not_eq_eq_eq_not, Bool.not_true, beq_eq_false_iff_ne, ne_eq]
      exact fun e => this e.symm
    rw [List.eraseDups_cons, hf, eraseDups_of_pairwise_ne as h.2]

theorem nodupB_of_pairwise_ne (l : List Bytes) (h : l.Pairwise (fun a b => a ≠ b)) : nodupB l = true := by
  simp [nodupB, eraseDups_of_pairwise_ne l h]

theorem find_off {l : List KRow} {r : KRow} (hr : r ∈ l) (huniq : ∀ x ∈ l, x.off = r.off → x = r) :
    l.find? (fun x => x.off == r.off) = some r := by
  cases hf : l.find? (fun x => x.off == r.off) with
  | none =>
    have := List.find?_eq_none.mp hf r hr
    simp at this
  | some x =>
    have hx : x ∈ l := List.mem_of_find?_eq_some hf
    have ho : x.off = r.off := by simpa using List.find?_some hf
    rw [huniq x hx ho]

/-! ## `diffVerdict` from its clauses -/

theorem diffVerdict_nil (r1 r2 : List KRow) (evs : List DiffEv)
    (hA : sameSet ((evs.filter (fun e => e.sum.isSome && e.oldSum.isNone)).map (·.pk)) ((onlyIn r1 r2).map (·.pkSum)) = true)
    (hR : sameSet ((evs.filter (fun e => e.sum.isNone && e.oldSum.isSome)).map (·.pk)) ((onlyIn r2 r1).map (·.pkSum)) = true)
    (hM : sameSet ((evs.filter (fun e => e.sum.isSome && e.oldSum.isSome)).map (·.pk)) ((changedIn r1 r2).map (·.pkSum)) = true)
    (hJ : (evs.filter (fun e => e.sum.isNone && e.oldSum.isNone)).isEmpty = true)
    (hN : nodupB (evs.map (·.pk)) = true)
    (hO1 : ∀ e ∈ evs.filter (fun e => e.sum.isSome && e.oldSum.isNone) ++ evs.filter (fun e => e.sum.isSome && e.oldSum.isSome),
      ∃ r, r1.find? (fun r => r.off == e.off) = some r ∧ r.pkSum = e.pk ∧ some r.rowSum = e.sum)
    (hO2 : ∀ e ∈ evs.filter (fun e => e.sum.isNone && e.oldSum.isSome) ++ evs.filter (fun e => e.sum.isSome && e.oldSum.isSome),
      ∃ r, r2.find? (fun r => r.off == e.oldOff) = some r ∧ r.pkSum = e.pk ∧ some r.rowSum = e.oldSum) :
    diffVerdict r1 r2 evs = [] := by
  unfold diffVerdict
  simp only [hA, hR, hM, hJ, hN, ↓reduceIte, List.append_nil]
  rw [if_pos, if_pos]
  · rfl
  · rw [List.all_eq_true]
    intro e he
    obtain ⟨r, hf, hp, hs⟩ := hO2 e he
    simp only [hf]
    simp [hp, hs]
  · rw [List.all_eq_true]
    intro e he
    obtain ⟨r, hf, hp, hs⟩ := hO1 e he
    simp only [hf]
    simp [hp, hs]

/-! ## the events -/

/-- the event `diffRows` emits for row `r` of table 1 (added / modified / nothing) -/
def ev1 (r2 : List KRow) (r : KRow) : Option DiffEv :=
  match r2.find? (fun s => s.key == r.key) with
  | some s =>
    if r.rowSum != s.rowSum then
      some { pk := r.pkSum, sum := some r.rowSum, off := r.off, oldSum := some s.rowSum, oldOff := s.off }
    else none
  | none => some { pk := r.pkSum, sum := some r.rowSum, off := r.off, oldSum := none, oldOff := 0 }

/-- the event `diffRows` emits for row `r` of table 2 (removed / nothing) -/
def ev2 (r1 : List KRow) (r : KRow) : Option DiffEv :=
  match r1.find? (fun s => s.key == r.key) with
  | some _ => none
  | none => some { pk := r.pkSum, sum := none, off := 0, oldSum := some r.rowSum, oldOff := r.off }

theorem ev1_mkMatch (r2 : List KRow) (r : KRow) :
    (match (mkMatch r2 r).row2 with
      | some x => if (mkMatch r2 r).row1 != x then
          some ({ pk := (mkMatch r2 r).pk, sum := some (mkMatch r2 r).row1, off := (mkMatch r2 r).off1,
                  oldSum := some x, oldOff := (mkMatch r2 r).off2 } : DiffEv) else none
      | none => some { pk := (mkMatch r2 r).pk, sum := some (mkMatch r2 r).row1, off := (mkMatch r2 r).off1,
                       oldSum := none, oldOff := 0 }) = ev1 r2 r := by
  have key : ∀ (o : Option KRow) (m : Match) (e : Option DiffEv),
      m = (match o with
        | some s => { pk := r.pkSum, row1 := r.rowSum, row2 := some s.rowSum, off1 := r.off, off2 := s.off }
        | none => { pk := r.pkSum, row1 := r.rowSum, row2 := none, off1 := r.off, off2 := 0 }) →
      e = (match o with
        | some s =>
          if r.rowSum != s.rowSum then
            some { pk := r.pkSum, sum := some r.rowSum, off := r.off, oldSum := some s.rowSum, oldOff := s.off }
          else none
        | none => some { pk := r.pkSum, sum := some r.rowSum, off := r.off, oldSum := none, oldOff := 0 }) →
      (match m.row2 with
      | some x => if m.row1 != x then
          some ({ pk := m.pk, sum := some m.row1, off := m.off1, oldSum := some x, oldOff := m.off2 } : DiffEv) else none
      | none => some { pk := m.pk, sum := some m.row1, off := m.off1, oldSum := none, oldOff := 0 }) = e := by
    intro o m e hm he
    subst hm he
    cases o <;> rfl
  exact key (r2.find? (fun s => s.key == r.key)) (mkMatch r2 r) (ev1 r2 r) rfl rfl

theorem ev2_mkMatch (r1 : List KRow) (r : KRow) :
    (match (mkMatch r1 r).row2 with
      | some _ => none
      | none => some ({ pk := (mkMatch r1 r).pk, sum := none, off := 0, oldSum := some (mkMatch r1 r).row1,
                        oldOff := (mkMatch r1 r).off1 } : DiffEv)) = ev2 r1 r := by
  have key : ∀ (o : Option KRow) (m : Match) (e : Option DiffEv),
      m = (match o with
        | some s => { pk := r.pkSum, row1 := r.rowSum, row2 := some s.rowSum, off1 := r.off, off2 := s.off }
        | none => { pk := r.pkSum, row1 := r.rowSum, row2 := none, off1 := r.off, off2 := 0 }) →
      e = (match o with
        | some _ => none
        | none => some { pk := r.pkSum, sum := none, off := 0, oldSum := some r.rowSum, oldOff := r.off }) →
      (match m.row2 with
      | some _ => none
      | none => some ({ pk := m.pk, sum := none, off := 0, oldSum := some m.row1, oldOff := m.off1 } : DiffEv)) = e := by
    intro o m e hm he
    subst hm he
    cases o <;> rfl
  exact key (r1.find? (fun s => s.key == r.key)) (mkMatch r1 r) (ev2 r1 r) rfl rfl

theorem diffRows_of_specs (bs : Nat) (t1 t2 : ATable)
    (s12 : iterateAndMatch true bs t1.toD t2.toD = .ok (t1.allRows.map (mkMatch t2.allRows)))
    (s21 : iterateAndMatch true bs t2.toD t1.toD = .ok (t2.allRows.map (mkMatch t1.allRows))) :
    diffRows true bs t1.toD t2.toD =
      .ok (t1.allRows.filterMap (ev1 t2.allRows) ++ t2.allRows.filterMap (ev2 t1.allRows)) := by
  unfold diffRows
  rw [s12, s21]
  simp only [List.filterMap_map]
  congr 3
  · funext r
    exact ev1_mkMatch t2.allRows r
  · funext r
    exact ev2_mkMatch t1.allRows r

theorem ev1_some {r2 : List KRow} {r : KRow} {e : DiffEv} (h : ev1 r2 r = some e) :
    e.pk = r.pkSum ∧ e.sum = some r.rowSum ∧ e.off = r.off ∧
    ((e.oldSum = none ∧ r2.find? (fun s => s.key == r.key) = none) ∨
     (∃ s, r2.find? (fun s => s.key == r.key) = some s ∧ e.oldSum = some s.rowSum ∧ e.oldOff = s.off ∧
        r.rowSum ≠ s.rowSum)) := by
  unfold ev1 at h
  cases hf : r2.find? (fun s => s.key == r.key) with
  | none =>
    rw [hf] at h
    injection h with h
    subst h
    exact ⟨rfl, rfl, rfl, Or.inl ⟨rfl, rfl⟩⟩
  | some s =>
    rw [hf] at h
    by_cases hne : r.rowSum = s.rowSum
    · simp [hne] at h
    · simp only [bne_iff_ne, ne_eq, hne, not_false_eq_true, ↓reduceIte] at h
      injection h with h
      subst h
      exact ⟨rfl, rfl, rfl, Or.inr ⟨s, rfl, rfl, rfl, hne⟩⟩

theorem ev2_some {r1 : List KRow} {r : KRow} {e : DiffEv} (h : ev2 r1 r = some e) :
    e.pk = r.pkSum ∧ e.sum = none ∧ e.oldSum = some r.rowSum ∧ e.oldOff = r.off ∧
    r1.find? (fun s => s.key == r.key) = none := by
  unfold ev2 at h
  cases hf : r1.find? (fun s => s.key == r.key) with
  | none =>
    rw [hf] at h
    injection h with h
    subst h
    exact ⟨rfl, rfl, rfl, rfl, rfl⟩
  | some s =>
    rw [hf] at h
    cases h

/-! ## the clauses -/

theorem any_key_of_find_none {l : List KRow} {k : List Bytes} (h : l.find? (fun s => s.key == k) = none) :
    l.any (fun s => s.key == k) = false := by
  rw [List.any_eq_false]
  intro x hx
  exact List.find?_eq_none.mp h x hx

theorem any_key_of_find_some {l : List KRow} {k : List Bytes} {x : KRow} (h : l.find? (fun s => s.key == k) = some x) :
    l.any (fun s => s.key == k) = true := by
  rw [List.any_eq_true]
  have hx : (x.key == k) = true := List.find?_some (p := fun (s : KRow) => s.key == k) h
  exact ⟨x, List.mem_of_find?_eq_some h, hx⟩

/-- added events, in order, are the rows only in table 1 -/
theorem added_aux (r2 : List KRow) : ∀ (l : List KRow),
    ((l.filterMap (ev1 r2)).filter (fun e => e.sum.isSome && e.oldSum.isNone)).map (·.pk) =
      (l.filter (fun r => !(r2.any (fun s => s.key == r.key)))).map (·.pkSum) := by
  intro l
  induction l with
  | nil => rfl
  | cons r l ih =>
    cases hf : r2.find? (fun s => s.key == r.key) with
    | none =>
      have he : ev1 r2 r = some { pk := r.pkSum, sum := some r.rowSum, off := r.off, oldSum := none, oldOff := 0 } := by
        simp [ev1, hf]
      simp [he, any_key_of_find_none hf, ih]
    | some x =>
      have hany := any_key_of_find_some hf
      by_cases hne : r.rowSum = x.rowSum
      · have he : ev1 r2 r = none := by simp [ev1, hf, hne]
        simp [he, hany, ih]
      · have he : ev1 r2 r = some { pk := r.pkSum, sum := some r.rowSum, off := r.off, oldSum := some x.rowSum, oldOff := x.off } := by
          simp [ev1, hf, hne]
        simp [he, hany, ih]

/-- removed events, in order, are the rows only in table 2 -/
theorem removed_aux (r1 : List KRow) : ∀ (l : List KRow),
    ((l.filterMap (ev2 r1)).filter (fun e => e.sum.isNone && e.oldSum.isSome)).map (·.pk) =
      (l.filter (fun r => !(r1.any (fun s => s.key == r.key)))).map (·.pkSum) := by
  intro l
  induction l with
  | nil => rfl
  | cons r l ih =>
    cases hf : r1.find? (fun s => s.key == r.key) with
    | none =>
      have he : ev2 r1 r = some { pk := r.pkSum, sum := none, off := 0, oldSum := some r.rowSum, oldOff := r.off } := by
        simp [ev2, hf]
      simp [he, any_key_of_find_none hf, ih]
    | some x =>
      have hany := any_key_of_find_some hf
      have he : ev2 r1 r = none := by simp [ev2, hf]
      simp [he, hany, ih]

/-- no event of the first pass passes a filter that requires `sum = none` -/
theorem filter_ev1_sumNone (r2 l : List KRow) (q : DiffEv → Bool) :
    (l.filterMap (ev1 r2)).filter (fun e => e.sum.isNone && q e) = [] := by
  rw [List.filter_eq_nil_iff]
  intro e he
  obtain ⟨r, _, hr⟩ := List.mem_filterMap.mp he
  have := (ev1_some hr).2.1
  simp [this]

/-- no event of the second pass passes a filter that requires `sum ≠ none` -/
theorem filter_ev2_sumSome (r1 l : List KRow) (q : DiffEv → Bool) :
    (l.filterMap (ev2 r1)).filter (fun e => e.sum.isSome && q e) = [] := by
  rw [List.filter_eq_nil_iff]
  intro e he
  obtain ⟨r, _, hr⟩ := List.mem_filterMap.mp he
  have := (ev2_some hr).2.1
  simp [this]

/-- modified events, in order, are the rows of table 1 whose key occurs in table 2 with other cells -/
theorem modified_aux (r1 r2 : List KRow)
    (hu2 : ∀ x ∈ r2, ∀ y ∈ r2, x.key = y.key → x = y)
    (hr : ∀ a ∈ r1, ∀ b ∈ r2, (a.rowSum = b.rowSum ↔ a.cells = b.cells)) : ∀ (l : List KRow),
    (∀ r ∈ l, r ∈ r1) →
    ((l.filterMap (ev1 r2)).filter (fun e => e.sum.isSome && e.oldSum.isSome)).map (·.pk) =
      (l.filter (fun r => r2.any (fun s => s.key == r.key && s.cells != r.cells))).map (·.pkSum) := by
  intro l
  induction l with
  | nil => intro _; rfl
  | cons r l ih =>
    intro hsub
    have ih' := ih (fun r' hr' => hsub r' (by simp [hr']))
    have hr1 : r ∈ r1 := hsub r (by simp)
    cases hf : r2.find? (fun s => s.key == r.key) with
    | none =>
      have he : ev1 r2 r = some { pk := r.pkSum, sum := some r.rowSum, off := r.off, oldSum := none, oldOff := 0 } := by
        simp [ev1, hf]
      have hany : r2.any (fun s => s.key == r.key && s.cells != r.cells) = false := by
        rw [List.any_eq_false]
        intro s hs
        have := List.find?_eq_none.mp hf s hs
        simp only [Bool.not_eq_true] at this
        simp [this]
      simp [he, hany, ih']
    | some x =>
      have hx2 : x ∈ r2 := List.mem_of_find?_eq_some hf
      have hxk : x.key = r.key := by simpa using List.find?_some hf
      by_cases hne : r.rowSum = x.rowSum
      · have he : ev1 r2 r = none := by simp [ev1, hf, hne]
        have hany : r2.any (fun s => s.key == r.key && s.cells != r.cells) = false := by
          rw [List.any_eq_false]
          intro s hs
          by_cases hsk : s.key = r.key
          · have : s = x := hu2 s hs x hx2 (by rw [hsk, hxk])
            subst this
            have hc := (hr r hr1 s hs).mp hne
            simp [hc]
          · simp [hsk]
        simp [he, hany, ih']
      · have he : ev1 r2 r = some { pk := r.pkSum, sum := some r.rowSum, off := r.off, oldSum := some x.rowSum, oldOff := x.off } := by
          simp [ev1, hf, hne]
        have hany : r2.any (fun s => s.key == r.key && s.cells != r.cells) = true := by
          rw [List.any_eq_true]
          refine ⟨x, hx2, ?_⟩
          have hc : ¬ x.cells = r.cells := fun e => hne ((hr r hr1 x hx2).mpr e.symm)
          simp [hxk, hc]
        simp [he, hany, ih']

/-! ## all clauses together -/

theorem verdict_events (r1 r2 : List KRow)
    (hu2 : ∀ x ∈ r2, ∀ y ∈ r2, x.key = y.key → x = y)
    (ho1 : ∀ x ∈ r1, ∀ y ∈ r1, x.off = y.off → x = y)
    (ho2 : ∀ x ∈ r2, ∀ y ∈ r2, x.off = y.off → x = y)
    (hp1 : r1.Pairwise (fun a b => a.pkSum ≠ b.pkSum))
    (hp2 : r2.Pairwise (fun a b => a.pkSum ≠ b.pkSum))
    (hk : ∀ a ∈ r1, ∀ b ∈ r2, (a.pkSum = b.pkSum ↔ a.key = b.key))
    (hr : ∀ a ∈ r1, ∀ b ∈ r2, (a.rowSum = b.rowSum ↔ a.cells = b.cells)) :
    diffVerdict r1 r2 (r1.filterMap (ev1 r2) ++ r2.filterMap (ev2 r1)) = [] := by
  -- membership characterisations
  have mem1 : ∀ e, e ∈ r1.filterMap (ev1 r2) → ∃ r ∈ r1, ev1 r2 r = some e := fun e he => List.mem_filterMap.mp he
  have mem2 : ∀ e, e ∈ r2.filterMap (ev2 r1) → ∃ r ∈ r2, ev2 r1 r = some e := fun e he => List.mem_filterMap.mp he
  have hO1e : ∀ e, e ∈ r1.filterMap (ev1 r2) →
      ∃ r, r1.find? (fun r => r.off == e.off) = some r ∧ r.pkSum = e.pk ∧ some r.rowSum = e.sum := by
    intro e he
    obtain ⟨r, hr1, hev⟩ := mem1 e he
    obtain ⟨hpk, hsum, hoff, _⟩ := ev1_some hev
    refine ⟨r, ?_, hpk.symm, hsum.symm⟩
    rw [hoff]
    exact find_off hr1 (fun x hx ho => ho1 x hx r hr1 ho)
  apply diffVerdict_nil
  · rw [List.filter_append, filter_ev2_sumSome, List.append_nil, added_aux]
    exact sameSet_self _
  · rw [List.filter_append, filter_ev1_sumNone, List.nil_append, removed_aux]
    exact sameSet_self _
  · rw [List.filter_append, filter_ev2_sumSome, List.append_nil, modified_aux r1 r2 hu2 hr r1 (fun _ h => h)]
    exact sameSet_self _
  · rw [List.filter_append, filter_ev1_sumNone, List.nil_append, List.isEmpty_iff, List.filter_eq_nil_iff]
    intro e he
    obtain ⟨r, _, hev⟩ := mem2 e he
    have := (ev2_some hev).2.2.1
    simp [this]
  · apply nodupB_of_pairwise_ne
    rw [List.map_append, List.pairwise_append]
    refine ⟨?_, ?_, ?_⟩
    · rw [List.pairwise_map]
      refine List.Pairwise.filterMap (ev1 r2) ?_ hp1
      intro a a' hne b hb b' hb'
      rw [(ev1_some hb).1, (ev1_some hb').1]
      exact hne
    · rw [List.pairwise_map]
      refine List.Pairwise.filterMap (ev2 r1) ?_ hp2
      intro a a' hne b hb b' hb'
      rw [(ev2_some hb).1, (ev2_some hb').1]
      exact hne
    · intro a ha b hb
      obtain ⟨ea, hea, rfl⟩ := List.mem_map.mp ha
      obtain ⟨eb, heb, rfl⟩ := List.mem_map.mp hb
      obtain ⟨ra, hra, heva⟩ := mem1 ea hea
      obtain ⟨rb, hrb, hevb⟩ := mem2 eb heb
      obtain ⟨hpkb, _, _, _, hnone⟩ := ev2_some hevb
      rw [(ev1_some heva).1, hpkb]
      intro hpk
      have hkey := (hk ra hra rb hrb).mp hpk
      have := List.find?_eq_none.mp hnone ra hra
      simp [hkey] at this
  · intro e he
    rw [List.mem_append, List.mem_filter, List.mem_filter, List.mem_append] at he
    have hcase : e ∈ r1.filterMap (ev1 r2) := by
      rcases he with ⟨hmem, hp⟩ | ⟨hmem, hp⟩ <;> rcases hmem with h | h
      · exact h
      · obtain ⟨r, _, hev⟩ := mem2 e h
        have := (ev2_some hev).2.1
        simp [this] at hp
      · exact h
      · obtain ⟨r, _, hev⟩ := mem2 e h
        have := (ev2_some hev).2.1
        simp [this] at hp
    exact hO1e e hcase
  · intro e he
    rw [List.mem_append, List.mem_filter, List.mem_filter, List.mem_append] at he
    rcases he with ⟨hmem, hp⟩ | ⟨hmem, hp⟩ <;> rcases hmem with h | h
    · obtain ⟨r, _, hev⟩ := mem1 e h
      have := (ev1_some hev).2.1
      simp [this] at hp
    · obtain ⟨r, hr2, hev⟩ := mem2 e h
      obtain ⟨hpk, _, hold, holdoff, _⟩ := ev2_some hev
      refine ⟨r, ?_, hpk.symm, hold.symm⟩
      rw [holdoff]
      exact find_off hr2 (fun x hx ho => ho2 x hx r hr2 ho)
    · obtain ⟨r, hr1, hev⟩ := mem1 e h
      obtain ⟨hpk, _, _, hdisj⟩ := ev1_some hev
      rcases hdisj with ⟨hnone, _⟩ | ⟨x, hf, hold, holdoff, _⟩
      · simp [hnone] at hp
      · have hx2 : x ∈ r2 := List.mem_of_find?_eq_some hf
        have hxk : x.key = r.key := by simpa using List.find?_some hf
        refine ⟨x, ?_, ?_, hold.symm⟩
        · rw [holdoff]
          exact find_off hx2 (fun y hy ho => ho2 y hy x hx2 ho)
        · rw [hpk]
          exact ((hk r hr1 x hx2).mpr hxk.symm).symm
    · obtain ⟨r, _, hev⟩ := mem2 e h
      have := (ev2_some hev).2.1
      simp [this] at hp

end Wrgl
