/-
C04 building blocks: what `ATable.WF` gives about `toD` (block indices are sound, the table index
is strictly ascending and brackets the keys of every block, rows are located by (block, position)).
Core Lean only.
-/
import WrglModel.Model.Diff
import WrglModel.Spec.Diff
import WrglModel.Spec.DiffWF
import WrglModel.Lemmas.Order
import WrglModel.Lemmas.DiffGet
namespace Wrgl

def rowPair (r : KRow) : Bytes × Bytes := (r.pkSum, r.rowSum)
def mkBIdx (p : List KRow × List Nat) : BIdx := ⟨p.2, p.1.map rowPair⟩
def firstKey (rows : List KRow) : List Bytes := match rows with | r :: _ => r.key | [] => []

theorem toD_blocks (t : ATable) : t.toD.blocks = (t.blocks.zip t.sortedOffs).map mkBIdx := rfl
theorem toD_tblIdx (t : ATable) : t.toD.tblIdx = t.blocks.map firstKey := rfl

theorem toD_tblIdx_length (t : ATable) : t.toD.tblIdx.length = t.blocks.length := by
  simp [toD_tblIdx]

theorem toD_tblIdx_get (t : ATable) (m : Nat) : t.toD.tblIdx[m]? = (t.blocks[m]?).map firstKey := by
  simp [toD_tblIdx]

/-- two-element generic fact: a pairwise-`R` list with irreflexive... we only need the index form -/
theorem pairwise_getElem? {α : Type} {R : α → α → Prop} {l : List α} (h : l.Pairwise R)
    {i j : Nat} {a b : α} (hi : l[i]? = some a) (hj : l[j]? = some b) (hij : i < j) : R a b := by
  obtain ⟨hil, hia⟩ := List.getElem?_eq_some_iff.mp hi
  obtain ⟨hjl, hjb⟩ := List.getElem?_eq_some_iff.mp hj
  have := List.pairwise_iff_getElem.mp h i j hil hjl hij
  rw [hia, hjb] at this
  exact this

namespace ATable.WF
variable {bs arity : Nat} {t : ATable} (h : t.WF bs arity)
include h

theorem toD_blocks_length : t.toD.blocks.length = t.blocks.length := by
  simp [toD_blocks, h.sameLen]

theorem so_some {m : Nat} {b : List KRow} (hb : t.blocks[m]? = some b) :
    ∃ so, t.sortedOffs[m]? = some so := by
  have hm : m < t.blocks.length := (List.getElem?_eq_some_iff.mp hb).1
  exact ⟨_, List.getElem?_eq_getElem (by rw [h.sameLen]; exact hm)⟩

theorem toD_blocks_get {m : Nat} {b : List KRow} (hb : t.blocks[m]? = some b) :
    ∃ so, t.sortedOffs[m]? = some so ∧ t.toD.blocks[m]? = some ⟨so, b.map rowPair⟩ := by
  obtain ⟨so, hso⟩ := h.so_some hb
  refine ⟨so, hso, ?_⟩
  have : (t.blocks.zip t.sortedOffs)[m]? = some (b, so) :=
    List.getElem?_zip_eq_some.mpr ⟨hb, hso⟩
  simp [toD_blocks, this, mkBIdx]

theorem toD_blocks_get_inv {m : Nat} {idx : BIdx} (hidx : t.toD.blocks[m]? = some idx) :
    ∃ b so, t.blocks[m]? = some b ∧ t.sortedOffs[m]? = some so ∧ idx = ⟨so, b.map rowPair⟩ := by
  have hm : m < t.blocks.length := by
    have := (List.getElem?_eq_some_iff.mp hidx).1
    rw [h.toD_blocks_length] at this; exact this
  obtain ⟨b, hb⟩ : ∃ b, t.blocks[m]? = some b := ⟨_, List.getElem?_eq_getElem hm⟩
  obtain ⟨so, hso, hd⟩ := h.toD_blocks_get hb
  rw [hd] at hidx
  cases hidx
  exact ⟨b, so, hb, hso, rfl⟩

/-- every block index of a sound table is sound -/
theorem block_sorted {m : Nat} {b : List KRow} {so : List Nat} (hb : t.blocks[m]? = some b)
    (hso : t.sortedOffs[m]? = some so) : BIdx.Sorted ⟨so, b.map rowPair⟩ := by
  obtain ⟨hperm, hmono⟩ := h.sorted m b so hb hso
  constructor
  · simpa using hperm
  · intro i j a c hij ha hc
    simp only [List.getElem?_map] at ha hc
    -- unpack `a` and `c` as images of rows
    cases hsi : so[i]? with
    | none => simp [hsi] at ha
    | some ji =>
      cases hsj : so[j]? with
      | none => simp [hsj] at hc
      | some jj =>
        simp only [hsi, hsj, Option.bind_some, Option.map_eq_some_iff] at ha hc
        obtain ⟨ra, hra, rfl⟩ := ha
        obtain ⟨rc, hrc, rfl⟩ := hc
        exact hmono i j ra rc hij (by simp [hsi, hra]) (by simp [hsj, hrc])

theorem toD_block_sorted {m : Nat} {idx : BIdx} (hidx : t.toD.blocks[m]? = some idx) : idx.Sorted := by
  obtain ⟨b, so, hb, hso, rfl⟩ := h.toD_blocks_get_inv hidx
  exact h.block_sorted hb hso

/-! ### locating rows -/

set_option linter.unusedSectionVars false in
theorem mem_allRows {r : KRow} (hr : r ∈ t.allRows) :
    ∃ (m : Nat) (b : List KRow) (j : Nat), t.blocks[m]? = some b ∧ b[j]? = some r := by
  unfold ATable.allRows at hr
  obtain ⟨b, hb, hrb⟩ := List.mem_flatten.mp hr
  obtain ⟨m, hm⟩ := List.mem_iff_getElem?.mp hb
  obtain ⟨j, hj⟩ := List.mem_iff_getElem?.mp hrb
  exact ⟨m, b, j, hm, hj⟩

omit h in
theorem allRows_mem {r : KRow} {m : Nat} {b : List KRow} (hb : t.blocks[m]? = some b) (hr : r ∈ b) :
    r ∈ t.allRows := by
  unfold ATable.allRows
  exact List.mem_flatten.mpr ⟨b, List.mem_of_getElem? hb, hr⟩

/-! ### order facts -/

theorem within {m : Nat} {b : List KRow} (hb : t.blocks[m]? = some b) {j j' : Nat} {x y : KRow}
    (hx : b[j]? = some x) (hy : b[j']? = some y) (hjj : j < j') : keyCmp x.key y.key = .lt := by
  have hp := (List.pairwise_flatten.mp h.ascending).1 b (List.mem_of_getElem? hb)
  exact pairwise_getElem? hp hx hy hjj

theorem across {m m' : Nat} {b b' : List KRow} (hb : t.blocks[m]? = some b) (hb' : t.blocks[m']? = some b')
    (hmm : m < m') {x y : KRow} (hx : x ∈ b) (hy : y ∈ b') : keyCmp x.key y.key = .lt := by
  have hp := (List.pairwise_flatten.mp h.ascending).2
  exact pairwise_getElem? hp hb hb' hmm x hx y hy

/-- rows with equal keys sit in the same block at the same position -/
theorem key_unique_pos {m m' : Nat} {b b' : List KRow} (hb : t.blocks[m]? = some b) (hb' : t.blocks[m']? = some b')
    {j j' : Nat} {x y : KRow} (hx : b[j]? = some x) (hy : b'[j']? = some y) (hk : x.key = y.key) :
    m = m' ∧ j = j' := by
  have hxm := List.mem_of_getElem? hx
  have hym := List.mem_of_getElem? hy
  have hmm : m = m' := by
    rcases Nat.lt_trichotomy m m' with hlt | heq | hgt
    · have := h.across hb hb' hlt hxm hym
      rw [hk] at this; exact absurd this (keyCmp_lt_irrefl _)
    · exact heq
    · have := h.across hb' hb hgt hym hxm
      rw [hk] at this; exact absurd this (keyCmp_lt_irrefl _)
  subst hmm
  rw [hb] at hb'; cases hb'
  refine ⟨rfl, ?_⟩
  rcases Nat.lt_trichotomy j j' with hlt | heq | hgt
  · have := h.within hb hx hy hlt
    rw [hk] at this; exact absurd this (keyCmp_lt_irrefl _)
  · exact heq
  · have := h.within hb hy hx hgt
    rw [hk] at this; exact absurd this (keyCmp_lt_irrefl _)

theorem key_unique {x y : KRow} (hx : x ∈ t.allRows) (hy : y ∈ t.allRows) (hk : x.key = y.key) : x = y := by
  obtain ⟨m, b, j, hb, hj⟩ := h.mem_allRows hx
  obtain ⟨m', b', j', hb', hj'⟩ := h.mem_allRows hy
  obtain ⟨rfl, rfl⟩ := h.key_unique_pos hb hb' hj hj' hk
  rw [hb] at hb'; cases hb'
  rw [hj] at hj'; cases hj'
  rfl

/-- the offset determines the row -/
theorem off_unique (hbs : 0 < bs) {x y : KRow} (hx : x ∈ t.allRows) (hy : y ∈ t.allRows) (ho : x.off = y.off) :
    x = y := by
  obtain ⟨m, b, j, hb, hj⟩ := h.mem_allRows hx
  obtain ⟨m', b', j', hb', hj'⟩ := h.mem_allRows hy
  have o1 := h.offs m b j x hb hj
  have o2 := h.offs m' b' j' y hb' hj'
  have l1 : j < bs := by
    have := (List.getElem?_eq_some_iff.mp hj).1
    have := h.sizes b (List.mem_of_getElem? hb)
    omega
  have l2 : j' < bs := by
    have := (List.getElem?_eq_some_iff.mp hj').1
    have := h.sizes b' (List.mem_of_getElem? hb')
    omega
  have e : m * bs + j = m' * bs + j' := by omega
  have hm : m = m' := by
    have d1 : (m * bs + j) / bs = m := by
      rw [Nat.mul_comm, Nat.mul_add_div hbs, Nat.div_eq_of_lt l1]; rfl
    have d2 : (m' * bs + j') / bs = m' := by
      rw [Nat.mul_comm, Nat.mul_add_div hbs, Nat.div_eq_of_lt l2]; rfl
    rw [← d1, ← d2, e]
  subst hm
  have hjj : j = j' := by omega
  subst hjj
  rw [hb] at hb'; cases hb'
  rw [hj] at hj'; cases hj'
  rfl

/-! ### the table index -/

theorem tblIdx_get {m : Nat} {b : List KRow} (hb : t.blocks[m]? = some b) :
    ∃ r, b[0]? = some r ∧ t.toD.tblIdx[m]? = some r.key := by
  have hne := h.nonempty b (List.mem_of_getElem? hb)
  cases b with
  | nil => exact absurd rfl hne
  | cons r rest =>
    refine ⟨r, rfl, ?_⟩
    rw [toD_tblIdx_get, hb]; rfl

theorem tblIdx_get_inv {m : Nat} {v : List Bytes} (hv : t.toD.tblIdx[m]? = some v) :
    ∃ b r, t.blocks[m]? = some b ∧ b[0]? = some r ∧ v = r.key := by
  have hm : m < t.blocks.length := by
    have := (List.getElem?_eq_some_iff.mp hv).1
    rw [toD_tblIdx_length] at this; exact this
  obtain ⟨b, hb⟩ : ∃ b, t.blocks[m]? = some b := ⟨_, List.getElem?_eq_getElem hm⟩
  obtain ⟨r, hr, hv'⟩ := h.tblIdx_get hb
  rw [hv'] at hv; cases hv
  exact ⟨b, r, hb, hr, rfl⟩

theorem tblIdx_arity {v : List Bytes} (hv : v ∈ t.toD.tblIdx) : v.length = arity := by
  obtain ⟨m, hm⟩ := List.mem_iff_getElem?.mp hv
  obtain ⟨b, r, hb, hr, rfl⟩ := h.tblIdx_get_inv hm
  exact h.arity r (allRows_mem hb (List.mem_of_getElem? hr))

/-- the first key of a block is `≤` every key of the block -/
theorem tblIdx_le {m : Nat} {b : List KRow} {v : List Bytes} (hb : t.blocks[m]? = some b)
    (hv : t.toD.tblIdx[m]? = some v) {x : KRow} (hx : x ∈ b) : keyCmp v x.key ≠ .gt := by
  obtain ⟨r, hr, hv'⟩ := h.tblIdx_get hb
  rw [hv'] at hv; cases hv
  obtain ⟨j, hj⟩ := List.mem_iff_getElem?.mp hx
  by_cases hj0 : j = 0
  · subst hj0
    rw [hr] at hj; cases hj
    rw [keyCmp_refl]; decide
  · rw [h.within hb hr hj (by omega)]; decide

/-- every key of block `m` is below the first key of any later block -/
theorem lt_tblIdx {m m' : Nat} {b : List KRow} {v : List Bytes} (hb : t.blocks[m]? = some b)
    (hv : t.toD.tblIdx[m']? = some v) (hmm : m < m') {x : KRow} (hx : x ∈ b) : keyCmp x.key v = .lt := by
  obtain ⟨b', r, hb', hr, rfl⟩ := h.tblIdx_get_inv hv
  exact h.across hb hb' hmm hx (List.mem_of_getElem? hr)

theorem tblIdx_asc {m m' : Nat} {v v' : List Bytes} (hv : t.toD.tblIdx[m]? = some v)
    (hv' : t.toD.tblIdx[m']? = some v') (hmm : m < m') : keyCmp v v' = .lt := by
  obtain ⟨b, r, hb, hr, rfl⟩ := h.tblIdx_get_inv hv
  exact h.lt_tblIdx hb hv' hmm (List.mem_of_getElem? hr)

end ATable.WF

end Wrgl
